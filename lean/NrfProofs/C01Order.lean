/-
C01 helper lemmas, part 2: a transmitter object and a receiver object over one world; the invariant
of "sends interleaved with reads that keep at most 3 unread".
-/
import NrfProofs.C01Link

namespace Nrf
open Rf24 Spec.Link

/-! ### ACK payloads of the other radios are never empty -/

/-- radio `r` never attaches an empty ACK payload -/
def AckOk (r : Radio) : Prop := (∀ e ∈ r.txFifo, e.data ≠ []) ∧ (∀ d, r.lastAck = some d → d ≠ [])

theorem receive_ackOk (r : Radio) (k : Packet) (h : AckOk r) : AckOk (r.receive k).1 := by
  unfold Radio.receive
  split
  · exact h
  · dsimp only
    split
    · exact h
    · split
      · exact h
      · split
        · exact h
        · split
          · exact ⟨h.1, by intro d hd; cases hd⟩
          · split
            · exact ⟨h.1, by intro d hd; cases hd⟩
            · rename_i d rest hta
              obtain ⟨⟨e, he, hed⟩, _, hs⟩ := Radio.takeAck_some _ _ _ _ hta
              refine ⟨fun x hx => h.1 x (hs x hx), ?_⟩
              intro d' hd'
              cases hd'
              rw [← hed]; exact h.1 e he

theorem recvN_ackOk (k : Packet) (m : Nat) (r : Radio) (h : AckOk r) : AckOk (recvN k m r) := by
  induction m generalizing r with
  | zero => exact h
  | succ m ih => exact ih _ (receive_ackOk r k h)

theorem receive_ack_nonempty2 (r : Radio) (k : Packet) (h : AckOk r) (d : Bytes)
    (ha : (r.receive k).2 = some (some d)) : d ≠ [] := by
  unfold Radio.receive at ha
  split at ha
  · cases ha
  · dsimp only at ha
    split at ha
    · cases ha
    · split at ha
      · split at ha
        · split at ha
          · simp only [Option.some.injEq] at ha
            exact h.2 d ha
          · cases ha
        · cases ha
      · split at ha
        · cases ha
        · split at ha
          · cases ha
          · split at ha
            · cases ha
            · rename_i d' rest hta
              simp only [Option.some.injEq] at ha
              obtain ⟨⟨e, he, hed⟩, _, _⟩ := Radio.takeAck_some _ _ _ _ hta
              rw [← ha, ← hed]; exact h.1 e he

/-- every radio other than `i` is `AckOk` -/
def AckOkBut (i : Nat) (w : World) : Prop := ∀ q, q < w.radios.length → q ≠ i → AckOk (w.radio q)

theorem ackEnv_of_ackOk (R : Radio) (k : Packet) (s : DrvState) (hs : AckOkBut s.d.rid s.w)
    (hfeat : R.ackPayRx = true → s.d.features &&& 4 ≠ 0) : AckEnv R k s := by
  refine ⟨hfeat, fun d hd => ?_⟩
  obtain ⟨q, hq, hqs, hr⟩ := World.deliver_ack_some s.w s.d.rid k _ hd
  exact receive_ack_nonempty2 _ _ (hs q hq hqs) d hr

/-! ### congruences -/

/-- `Compatible` depends on the transmitter's registers, the receiver's configuration part, the
    driver's payload-length shadows and the fault pattern only -/
theorem compat_congr (s s' : DrvState) (j p : Nat) (dyn : Bool) (h : Compatible s j p dyn)
    (hrid : s'.d.rid = s.d.rid) (hregs : s'.rad.regs = s.rad.regs) (hcfg : (s'.w.radio j).cfgOf = (s.w.radio j).cfgOf)
    (hdyn : s'.d.dynPl = s.d.dynPl) (hpl : s'.d.plLen = s.d.plLen) (hf : s'.w.faults = [])
    (hlen : s'.w.radios.length = s.w.radios.length) : Compatible s' j p dyn := by
  have fT : ∀ {α} (f : Radio → α), (∀ r, f r = f r.regs) → f (s'.w.radio s'.d.rid) = f (s.w.radio s.d.rid) := by
    intro α f hf'
    have h1 : s'.w.radio s'.d.rid = s'.rad := rfl
    have h2 : s.w.radio s.d.rid = s.rad := rfl
    rw [h1, h2, hf' s'.rad, hf' s.rad, hregs]
  have fR : ∀ {α} (f : Radio → α), (∀ r, f r = f r.cfgOf) → f (s'.w.radio j) = f (s.w.radio j) := by
    intro α f hf'
    rw [hf' (s'.w.radio j), hf' (s.w.radio j), hcfg]
  have e_ch := fT Radio.rfCh (fun _ => rfl)
  have e_rate := fT Radio.rate (fun _ => rfl)
  have e_esb := fT Radio.esb (fun _ => rfl)
  have e_crc := fT Radio.crcLen (fun _ => rfl)
  have e_aw := fT Radio.aw (fun _ => rfl)
  have e_tx := fT Radio.txAddr (fun _ => rfl)
  have e_dpl := fT (fun r => r.dplOn 0) (fun _ => rfl)
  refine ⟨by rw [hrid]; exact h.ne, by rw [hlen]; exact h.lt, ?_, ?_, ?_, ?_, ?_, ?_, ?_, ?_, ?_, ?_, ?_, ?_, hf⟩
  · rw [fR Radio.rxMode (fun _ => rfl)]; exact h.listening
  · rw [fR Radio.rfCh (fun _ => rfl), e_ch]; exact h.ch
  · rw [fR Radio.rate (fun _ => rfl), e_rate]; exact h.rate
  · rw [fR Radio.esb (fun _ => rfl), e_esb]; exact h.esb
  · rw [fR Radio.crcLen (fun _ => rfl), e_crc]; exact h.crc
  · rw [fR Radio.aw (fun _ => rfl), e_aw]; exact h.aw
  · rw [e_tx, e_aw]; exact h.awLen
  · rw [e_tx, e_aw, fR (fun r => r.matchPipe _) (fun _ => rfl)]; exact h.pipe
  · have := h.modeTx
    have e_dpl' : (s'.w.radio s'.d.rid).dplOn 0 = (s.w.radio s.d.rid).dplOn 0 := e_dpl
    rw [e_esb, e_dpl']; exact this
  · rw [fR Radio.esb (fun _ => rfl), fR (fun r => r.dplOn p) (fun _ => rfl)]; exact h.modeRx
  · rw [hdyn]; exact h.modeDrv
  · intro hd
    rw [fR (fun r => r.rxPw.getD p 0) (fun _ => rfl), hpl]; exact h.width hd

/-- `Hist` depends on the object, its radio and the number of radios only -/
theorem hist_congr (R : Radio) (s s' : DrvState) (h : Hist R s) (hd : s'.d = s.d) (hr : s'.rad = s.rad)
    (hl : s'.w.radios.length = s.w.radios.length) : Hist R s' := by
  have hwf : s.Wf → s'.Wf := by intro hw; unfold DrvState.Wf at *; rw [hd, hl]; exact hw
  rcases h with ⟨e, k, hf, hfr⟩ | ⟨hw, h1, h2, h3, h4⟩
  · refine Or.inl ⟨e, k, ⟨hwf hf.wf, ?_, ?_, ?_, ?_, ?_, hf.sendable, hf.hpid, ?_⟩, ?_⟩
    · rw [hr]; exact hf.regs
    · rw [hr]; exact hf.fifo
    · rw [hr]; exact hf.flags
    · rw [hr]; exact hf.pipes
    · rw [hr]; exact hf.pkt
    · rw [hr]; exact hf.npid
    · rw [hr, hd]; exact hfr
  · refine Or.inr ⟨hwf hw, by rw [hr]; exact h1, by rw [hr]; exact h2, by rw [hr]; exact h3, ?_⟩
    rw [hr, hd]; exact h4

/-! ### two objects over one world -/

/-- the transmitter's object `d1`, the receiver's object `d2`, one world -/
structure Link where
  d1 : Rf24
  d2 : Rf24
  w : World

inductive LinkOp where
  /-- `d1.send(buf, ask_no_ack, force_retry = n, send_only)`; `m`: the buffer is a `bytearray` -/
  | send (buf : Bytes) (m askNoAck : Bool) (n : Nat) (sendOnly : Bool)
  /-- `d2.read()` -/
  | read

namespace Link

def tx (L : Link) : DrvState := { d := L.d1, w := L.w }
def rx (L : Link) : DrvState := { d := L.d2, w := L.w }

/-- one operation; a `read` yields its outcome -/
def step (L : Link) : LinkOp → Link × Option (Except PyErr (Option Bytes))
  | .send buf m a n so =>
    ({ L with d1 := (exec (send buf m a (n : Int) so) L.tx).2.d, w := (exec (send buf m a (n : Int) so) L.tx).2.w }, none)
  | .read =>
    ({ L with d2 := (exec (Rf24.read none) L.rx).2.d, w := (exec (Rf24.read none) L.rx).2.w },
     some (exec (Rf24.read none) L.rx).1)

/-- a sequence of operations; the outcomes of the reads, in order -/
def run (L : Link) : List LinkOp → Link × List (Except PyErr (Option Bytes))
  | [] => (L, [])
  | op :: ops => ((L.step op).1.run ops |>.1, (L.step op).2.toList ++ ((L.step op).1.run ops).2)

end Link

/-- the abstract receiver queue: what the reads must return, given the payloads still unread;
    `none` when a `send` would find 3 payloads unread (outside the property's histories) or is
    given an illegal payload -/
def orderSpec (dyn : Bool) (plLen0 : Nat) : List Bytes → List LinkOp → Option (List (Option Bytes))
  | _, [] => some []
  | pend, .send buf _ _ _ _ :: ops =>
    if pend.length < 3 ∧ (dyn = true → buf ≠ [] ∧ buf.length ≤ 32) then
      orderSpec dyn plLen0 (pend ++ [expectedPayload dyn plLen0 buf]) ops
    else none
  | [], .read :: ops => (orderSpec dyn plLen0 [] ops).map (none :: ·)
  | b :: rest, .read :: ops => (orderSpec dyn plLen0 rest ops).map (some b :: ·)

/-- the invariant of the link between calls: the receiver's RX FIFO holds exactly the unread
    expected payloads `pend`, in order, on pipe `p` -/
structure LinkInv (R : Radio) (j p : Nat) (dyn : Bool) (L : Link) (pend : List Bytes) : Prop where
  hist : Hist R L.tx
  ptx : R.Ptx
  compat : Compatible L.tx j p dyn
  rid2 : L.d2.rid = j
  rxq : (L.w.radio j).rxFifo = pend.map (fun b => ⟨p, b⟩)
  pendOk : ∀ b ∈ pend, b ≠ []
  pendLen : dyn = false → ∀ b ∈ pend, b.length = L.d1.plLen.getD 0 0
  /-- the last packet the receiver accepted does not carry the PID the next new payload will get
      (true at power-up: `lastRx = none`; kept by every `send`) -/
  nodup : (L.w.radio j).esb = true → ∀ l, (L.w.radio j).lastRx = some l → l.pid ≠ (L.w.radio L.d1.rid).nextPid
  acks : AckOkBut L.d1.rid L.w
  feat : R.ackPayRx = true → L.d1.features &&& 4 ≠ 0
  /-- if the receiver's object believes payloads are static, they are, and its `_pl_len[p]` is the
      static length in use -/
  shadow : L.d2.features &&& 4 = 0 → dyn = false ∧ L.d2.plLen.getD p 0 = L.d1.plLen.getD 0 0

theorem expected_ne (dyn : Bool) (n : Nat) (buf : Bytes) (h1 : dyn = true → buf ≠ []) (h2 : dyn = false → 1 ≤ n) :
    expectedPayload dyn n buf ≠ [] := by
  unfold expectedPayload
  cases dyn with
  | true => simp only [↓reduceIte]; exact h1 rfl
  | false =>
    simp only [Bool.false_eq_true, ↓reduceIte]
    intro hz
    have := congrArg List.length hz
    simp only [List.length_take, List.length_append, List.length_replicate, List.length_nil] at this
    have := h2 rfl
    omega

theorem expected_len (n : Nat) (buf : Bytes) : (expectedPayload false n buf).length = n := by
  unfold expectedPayload
  simp only [Bool.false_eq_true, ↓reduceIte, List.length_take, List.length_append, List.length_replicate]
  omega

/-- **a `send` with room keeps the invariant and appends the expected payload** -/
theorem linkInv_send (R : Radio) (j p : Nat) (dyn : Bool) (L : Link) (pend : List Bytes)
    (h : LinkInv R j p dyn L pend) (buf : Bytes) (m a : Bool) (n : Nat) (so : Bool)
    (hroom : pend.length < 3) (hbuf : dyn = true → buf ≠ [] ∧ buf.length ≤ 32) :
    LinkInv R j p dyn (L.step (.send buf m a n so)).1 (pend ++ [expectedPayload dyn (L.d1.plLen.getD 0 0) buf]) := by
  have hc := h.compat
  have hmd : (decide (L.d1.dynPl &&& 1 ≠ 0)) = dyn := hc.modeDrv
  have hlenOk : L.tx.d.dynPl &&& 1 ≠ 0 → buf ≠ [] ∧ buf.length ≤ 32 := by
    intro hd
    have hd' : L.d1.dynPl &&& 1 ≠ 0 := hd
    apply hbuf; rw [← hmd]; exact decide_eq_true hd'
  have hpadOk : L.tx.d.dynPl &&& 1 = 0 → 1 ≤ L.tx.d.plLen.getD 0 0 := by
    intro hd
    have hd' : ¬ (L.d1.dynPl &&& 1 ≠ 0) := fun hh => hh hd
    have : dyn = false := by rw [← hmd]; exact decide_eq_false hd'
    exact (hc.width this).2.1
  have hpre := h.hist.sendPre h.ptx buf so hlenOk hpadOk
  have hregs0 : L.tx.rad.regs = R.regs := h.hist.regs
  have henv : AckEnv L.tx.rad (L.tx.sendPacket a buf) L.tx :=
    ackEnv_of_ackOk _ _ _ h.acks (by intro hcan; apply h.feat; rw [← Radio.ackPayRx_regs _ _ hregs0]; exact hcan)
  have hhist' := hist_send R L.tx h.hist h.ptx buf m a n so hlenOk hpadOk henv
  obtain ⟨_, ⟨att, hatt1, _, _, hrun⟩, _, _⟩ := send_final L.tx buf m a n so hpre henv
  have hlen32 : dyn = true → buf.length ≤ 32 := fun hd => (hbuf hd).2
  have hl := compat_listens L.tx j p dyn a buf hc hlen32
  -- the packet is not a duplicate of the last one accepted
  have hkpid : (L.tx.sendPacket a buf).pid = (L.w.radio L.d1.rid).nextPid := rfl
  have hkesb : (L.tx.sendPacket a buf).esb = (L.w.radio j).esb := by
    have : (L.tx.sendPacket a buf).esb = (L.w.radio L.d1.rid).esb := rfl
    rw [this]; exact hc.esb.symm
  have hnd : (L.w.radio j).isDup (L.tx.sendPacket a buf) = false := by
    unfold Radio.isDup
    cases hesb : (L.w.radio j).esb with
    | false => rw [hkesb, hesb]; rfl
    | true =>
      cases hlr : (L.w.radio j).lastRx with
      | none => simp
      | some l =>
        have := h.nodup hesb l hlr
        have hne : (some l == some (⟨(L.tx.sendPacket a buf).pid, (L.tx.sendPacket a buf).addr,
            (L.tx.sendPacket a buf).data⟩ : LastRx)) = false := by
          rw [beq_eq_false_iff_ne]
          intro heq
          cases heq
          exact this hkpid
        rw [hne, Bool.and_false]
  have hroom' : (L.w.radio j).rxFifo.length < 3 := by rw [h.rxq, List.length_map]; exact hroom
  have hrecv := send_receiver L.tx buf m a n so hpre henv hc.faults j hc.lt hc.ne
  obtain ⟨r1, _, r3⟩ := receive_new_rx _ _ p hl hnd hroom'
  have htw : L.tx.w = L.w := rfl
  rw [htw] at hrecv r1 r3
  have hdata : (L.tx.sendPacket a buf).data = expectedPayload dyn (L.d1.plLen.getD 0 0) buf := by
    have : (L.tx.sendPacket a buf).data = (L.tx.sendEntry a buf).data := rfl
    rw [this]; exact sendEntry_data L.tx j p dyn a buf hc hlen32
  -- the new link state
  generalize hs' : exec (send buf m a (n : Int) so) L.tx = x at *
  have hd1' : x.2.d = { L.d1 with status := x.2.d.status } := hrun.d
  have hrid' : x.2.d.rid = L.d1.rid := hrun.rid
  have hstep : (L.step (.send buf m a n so)).1 = { L with d1 := x.2.d, w := x.2.w } := by
    unfold Link.step; simp only; rw [hs']
  rw [hstep]
  have htx' : Link.tx { L with d1 := x.2.d, w := x.2.w } = x.2 := rfl
  have hregs' : x.2.rad.regs = L.tx.rad.regs := by rw [hhist'.regs, hregs0]
  have hcfg' : (x.2.w.radio j).cfgOf = (L.w.radio j).cfgOf := by rw [hrecv]; exact Radio.receive_cfgOf _ _
  have hfaults' : x.2.w.faults = [] := by
    rw [hrun.sent.faults]
    have : L.tx.w.faults = [] := hc.faults
    rw [this]; exact List.drop_nil
  refine ⟨by rw [htx']; exact hhist', h.ptx, ?_, h.rid2, ?_, ?_, ?_, ?_, ?_, ?_, ?_⟩
  · rw [htx']
    exact compat_congr L.tx x.2 j p dyn hc hrid' hregs' hcfg' (by rw [hd1']; rfl) (by rw [hd1']; rfl) hfaults' hrun.sent.len
  · show (x.2.w.radio j).rxFifo = _
    rw [hrecv, r1, h.rxq, hdata, List.map_append]; rfl
  · intro b hb
    rcases List.mem_append.1 hb with hb | hb
    · exact h.pendOk b hb
    · simp only [List.mem_cons, List.not_mem_nil, or_false] at hb
      subst hb
      exact expected_ne dyn _ buf (fun hd => (hbuf hd).1) (fun hd => (hc.width hd).2.1)
  · intro hd b hb
    show b.length = x.2.d.plLen.getD 0 0
    rw [hd1']
    rcases List.mem_append.1 hb with hb | hb
    · exact h.pendLen hd b hb
    · simp only [List.mem_cons, List.not_mem_nil, or_false] at hb
      subst hb; subst hd
      exact expected_len _ _
  · intro hesb' l hl'
    show l.pid ≠ (x.2.w.radio x.2.d.rid).nextPid
    have hnp : (x.2.w.radio x.2.d.rid).nextPid = ((L.tx.sendPacket a buf).pid + 1) % 4 := hrun.npid hatt1
    rw [hnp]
    have hesb : (L.w.radio j).esb = true := by
      have e1 : (x.2.w.radio j).esb = (x.2.w.radio j).cfgOf.esb := rfl
      have e2 : (L.w.radio j).esb = (L.w.radio j).cfgOf.esb := rfl
      have hesb'' : (x.2.w.radio j).esb = true := hesb'
      rw [e2, ← hcfg', ← e1]; exact hesb''
    have hl'' : (x.2.w.radio j).lastRx = some l := hl'
    rw [hrecv, r3, hkesb, hesb] at hl''
    simp only [↓reduceIte, Option.some.injEq] at hl''
    subst hl''
    show (L.tx.sendPacket a buf).pid ≠ _
    omega
  · intro q hq hqs
    show AckOk (x.2.w.radio q)
    have hq' : q < L.w.radios.length := by
      have hl' : x.2.w.radios.length = L.w.radios.length := hrun.sent.len
      rw [← hl']; exact hq
    have hqs' : q ≠ L.d1.rid := by rw [← hrid']; exact hqs
    rw [hrun.sent.others q hqs' hq']
    exact recvN_ackOk _ _ _ (h.acks q hq' hqs')
  · intro hcan; show x.2.d.features &&& 4 ≠ 0; rw [hd1']; exact h.feat hcan
  · intro hf; show dyn = false ∧ L.d2.plLen.getD p 0 = x.2.d.plLen.getD 0 0
    rw [hd1']; exact h.shadow hf

/-- `read()` on an empty RX FIFO of an idle radio: `None`, nothing changes but the cached status -/
theorem read_empty_spec (s : DrvState) (hw : s.Wf) (hi : s.rad.Idle) (hf : s.rad.rxFifo = []) :
    (exec (Rf24.read none) s).1 = .ok none ∧
    (exec (Rf24.read none) s).2.rad = s.rad ∧
    World.Only s.d.rid s.w (exec (Rf24.read none) s).2.w ∧
    (exec (Rf24.read none) s).2.d = { s.d with status := s.rad.status } := by
  have hr : s.rad.RxWf := by intro e he; rw [hf] at he; cases he
  have hany : anyResult (s.spiStep [0x60, 0]).d s.rad.headLen = 0 := by
    rw [anyResult_spec s hr (fun _ e' rest' h' => by rw [hf] at h'; cases h')]
    simp [nextLen, hf]
  rw [exec_read_zero s hany]
  have hx1 : (s.rad.xfer [0x60, 0]).1 = s.rad := by rw [Radio.xfer_plWid]
  obtain ⟨hd1, hr1, ho1, _⟩ := spiStep_quiet s 0x60 [0] hw (by rw [hx1]; exact hi)
  rw [hx1] at hr1
  exact ⟨rfl, hr1, ho1, hd1⟩

/-- what a `read()` by the receiver's object leaves of the invariant, given what it did to the
    receiver's radio: FIFO popped (or not), flags and `lastByte` possibly changed, nothing else -/
theorem linkInv_after_read (R : Radio) (j p : Nat) (dyn : Bool) (L : Link) (pend pend' : List Bytes)
    (h : LinkInv R j p dyn L pend) (x : DrvState)
    (hd : x.d = { L.d2 with status := x.d.status })
    (ho : World.Only j L.w x.w)
    (hrad : ∃ fl lb, x.w.radio j = { (L.w.radio j) with rxFifo := pend'.map (fun b => ⟨p, b⟩), flags := fl, lastByte := lb })
    (hsub : ∀ b ∈ pend', b ∈ pend) :
    LinkInv R j p dyn { L with d2 := x.d, w := x.w } pend' := by
  obtain ⟨fl, lb, hrj⟩ := hrad
  have hc := h.compat
  have hne : L.d1.rid ≠ j := fun e => hc.ne e.symm
  have hr1 : x.w.radio L.d1.rid = L.w.radio L.d1.rid := ho.1 _ hne
  have hlen : x.w.radios.length = L.w.radios.length := ho.2.2.2.2.1
  have htx : Link.tx { L with d2 := x.d, w := x.w } = { d := L.d1, w := x.w } := rfl
  refine ⟨?_, h.ptx, ?_, ?_, ?_, ?_, ?_, ?_, ?_, h.feat, ?_⟩
  · rw [htx]; exact hist_congr R L.tx _ h.hist rfl hr1 hlen
  · rw [htx]
    refine compat_congr L.tx _ j p dyn hc rfl (by show (x.w.radio L.d1.rid).regs = _; rw [hr1]; rfl) ?_ rfl rfl ?_ hlen
    · show (x.w.radio j).cfgOf = (L.w.radio j).cfgOf
      rw [hrj]; rfl
    · show x.w.faults = []
      rw [ho.2.1]; exact hc.faults
  · show x.d.rid = j; rw [hd]; exact h.rid2
  · show (x.w.radio j).rxFifo = _; rw [hrj]
  · intro b hb; exact h.pendOk b (hsub b hb)
  · intro hdy b hb; exact h.pendLen hdy b (hsub b hb)
  · intro hesb l hl
    have hesb0 : (L.w.radio j).esb = true := by
      have : (x.w.radio j).esb = true := hesb
      rw [hrj] at this; exact this
    have hl0 : (L.w.radio j).lastRx = some l := by
      have : (x.w.radio j).lastRx = some l := hl
      rw [hrj] at this; exact this
    show l.pid ≠ (x.w.radio L.d1.rid).nextPid
    rw [hr1]; exact h.nodup hesb0 l hl0
  · intro q hq hqs
    show AckOk (x.w.radio q)
    have hq' : q < L.w.radios.length := by rw [← hlen]; exact hq
    by_cases hqj : q = j
    · subst hqj
      rw [hrj]; exact h.acks q hq' hqs
    · rw [ho.1 q hqj]; exact h.acks q hq' hqs
  · intro hf
    show dyn = false ∧ x.d.plLen.getD p 0 = L.d1.plLen.getD 0 0
    have hf' : L.d2.features &&& 4 = 0 := by
      have : x.d.features &&& 4 = 0 := hf
      rw [hd] at this; exact this
    rw [hd]; exact h.shadow hf'

/-- **a `read` by the receiver returns the oldest unread expected payload, or `None`, and keeps the
    invariant** -/
theorem linkInv_read (R : Radio) (j p : Nat) (dyn : Bool) (L : Link) (pend : List Bytes)
    (h : LinkInv R j p dyn L pend) :
    (L.step .read).2 = some (.ok pend.head?) ∧ LinkInv R j p dyn (L.step .read).1 pend.tail := by
  have hc := h.compat
  have hrxrad : L.rx.rad = L.w.radio j := by show L.w.radio L.d2.rid = _; rw [h.rid2]
  have hwf : L.rx.Wf := by show L.d2.rid < L.w.radios.length; rw [h.rid2]; exact hc.lt
  have hp5 : p ≤ 5 := Radio.matchPipe_le _ _ _ hc.pipe
  have hidle : L.rx.rad.Idle := by
    rw [hrxrad]
    have := hc.listening
    have hpr : (L.w.radio j).primRx = true := by
      have hl : (L.tx.w.radio j).rxMode = true := this
      unfold Radio.rxMode at hl
      simp only [Bool.and_eq_true] at hl
      exact hl.1.2
    exact Radio.idle_of_primRx _ hpr
  have hrid : L.rx.d.rid = j := h.rid2
  cases pend with
  | nil =>
    have hf : L.rx.rad.rxFifo = [] := by rw [hrxrad, h.rxq]; rfl
    obtain ⟨r1, r2, r3, r4⟩ := read_empty_spec L.rx hwf hidle hf
    refine ⟨?_, ?_⟩
    · show some (exec (Rf24.read none) L.rx).1 = _; rw [r1]; rfl
    · show LinkInv R j p dyn { L with d2 := (exec (Rf24.read none) L.rx).2.d, w := (exec (Rf24.read none) L.rx).2.w } []
      refine linkInv_after_read R j p dyn L [] [] h _ ?_ (by rw [← hrid]; exact r3) ?_ (fun b hb => hb)
      · rw [r4]; rfl
      · refine ⟨(L.w.radio j).flags, (L.w.radio j).lastByte, ?_⟩
        have : (exec (Rf24.read none) L.rx).2.w.radio j = (exec (Rf24.read none) L.rx).2.rad := by
          show _ = (exec (Rf24.read none) L.rx).2.w.radio (exec (Rf24.read none) L.rx).2.d.rid
          rw [r4]; show _ = (exec (Rf24.read none) L.rx).2.w.radio L.d2.rid; rw [h.rid2]
        rw [this, r2, hrxrad]
        have hq := h.rxq
        simp only [List.map_nil] at hq ⊢
        rw [← hq]
  | cons b rest =>
    have hf : L.rx.rad.rxFifo = ⟨p, b⟩ :: rest.map (fun b => ⟨p, b⟩) := by rw [hrxrad, h.rxq]; rfl
    have hrxwf : L.rx.rad.RxWf := by
      intro e he
      rw [hf] at he
      rcases List.mem_cons.1 he with he | he
      · subst he; exact ⟨hp5, h.pendOk b List.mem_cons_self⟩
      · obtain ⟨b', hb', rfl⟩ := List.mem_map.1 he
        exact ⟨hp5, h.pendOk b' (List.mem_cons_of_mem _ hb')⟩
    have hlen : L.rx.d.features &&& 4 = 0 → L.rx.d.plLen.getD (⟨p, b⟩ : RxEntry).pipe 0 = (⟨p, b⟩ : RxEntry).data.length := by
      intro hfe
      obtain ⟨hdy, hsh⟩ := h.shadow hfe
      show L.d2.plLen.getD p 0 = b.length
      rw [hsh, h.pendLen hdy b List.mem_cons_self]
    obtain ⟨r1, r2, _, _, _, r6, r7⟩ := read_head_spec L.rx hwf hrxwf hidle ⟨p, b⟩ _ hf hlen
    refine ⟨?_, ?_⟩
    · show some (exec (Rf24.read none) L.rx).1 = _; rw [r1]; rfl
    · show LinkInv R j p dyn { L with d2 := (exec (Rf24.read none) L.rx).2.d, w := (exec (Rf24.read none) L.rx).2.w } rest
      refine linkInv_after_read R j p dyn L (b :: rest) rest h _ ?_ (by rw [← hrid]; exact r6) ?_
        (fun b' hb' => List.mem_cons_of_mem _ hb')
      · rw [r7]; rfl
      · refine ⟨(L.w.radio j).flags &&& 0x30, b.getLastD (L.w.radio j).lastByte, ?_⟩
        have : (exec (Rf24.read none) L.rx).2.w.radio j = (exec (Rf24.read none) L.rx).2.rad := by
          show _ = (exec (Rf24.read none) L.rx).2.w.radio (exec (Rf24.read none) L.rx).2.d.rid
          rw [r7]; show _ = (exec (Rf24.read none) L.rx).2.w.radio L.d2.rid; rw [h.rid2]
        rw [this, r2, hrxrad]

/-- **Order, exactly once** (statement: `C01_order`): by induction on the operations -/
theorem link_order (R : Radio) (j p : Nat) (dyn : Bool) :
    ∀ (ops : List LinkOp) (L : Link) (pend : List Bytes), LinkInv R j p dyn L pend →
      ∀ results, orderSpec dyn (L.d1.plLen.getD 0 0) pend ops = some results →
        (L.run ops).2 = results.map .ok := by
  intro ops
  induction ops with
  | nil =>
    intro L pend _ results hs
    simp only [orderSpec, Option.some.injEq] at hs
    subst hs; rfl
  | cons op ops ih =>
    intro L pend h results hs
    cases op with
    | send buf m a n so =>
      unfold orderSpec at hs
      split at hs
      · rename_i hcnd
        have hinv := linkInv_send R j p dyn L pend h buf m a n so hcnd.1 hcnd.2
        have hpl : (L.step (.send buf m a n so)).1.d1.plLen.getD 0 0 = L.d1.plLen.getD 0 0 := by
          have hd1 : (L.step (.send buf m a n so)).1.d1 = (exec (send buf m a (n : Int) so) L.tx).2.d := rfl
          have hlenOk : L.tx.d.dynPl &&& 1 ≠ 0 → buf ≠ [] ∧ buf.length ≤ 32 := by
            intro hd
            have hd' : L.d1.dynPl &&& 1 ≠ 0 := hd
            apply hcnd.2; rw [← h.compat.modeDrv]; exact decide_eq_true hd'
          have hpadOk : L.tx.d.dynPl &&& 1 = 0 → 1 ≤ L.tx.d.plLen.getD 0 0 := by
            intro hd
            have hd' : ¬ (L.d1.dynPl &&& 1 ≠ 0) := fun hh => hh hd
            have : dyn = false := by rw [← h.compat.modeDrv]; exact decide_eq_false hd'
            exact (h.compat.width this).2.1
          have hpre := h.hist.sendPre h.ptx buf so hlenOk hpadOk
          have henv : AckEnv L.tx.rad (L.tx.sendPacket a buf) L.tx :=
            ackEnv_of_ackOk _ _ _ h.acks (by
              intro hcan; apply h.feat; rw [← Radio.ackPayRx_regs _ _ h.hist.regs]; exact hcan)
          obtain ⟨_, ⟨_, _, _, _, hrun⟩, _, _⟩ := send_final L.tx buf m a n so hpre henv
          rw [hd1, hrun.d]; rfl
        have := ih _ _ hinv results (by rw [hpl]; exact hs)
        show ((L.step (.send buf m a n so)).2.toList ++ ((L.step (.send buf m a n so)).1.run ops).2) = _
        rw [this]; rfl
      · cases hs
    | read =>
      obtain ⟨hres, hinv⟩ := linkInv_read R j p dyn L pend h
      have hpl : (L.step .read).1.d1.plLen.getD 0 0 = L.d1.plLen.getD 0 0 := rfl
      show ((L.step .read).2.toList ++ ((L.step .read).1.run ops).2) = _
      cases pend with
      | nil =>
        simp only [orderSpec] at hs
        cases hrs : orderSpec dyn (L.d1.plLen.getD 0 0) [] ops with
        | none => rw [hrs] at hs; cases hs
        | some rs =>
          rw [hrs] at hs
          simp only [Option.map_some, Option.some.injEq] at hs
          subst hs
          rw [hres, ih _ _ hinv rs (by rw [hpl]; exact hrs)]
          rfl
      | cons b rest =>
        simp only [orderSpec] at hs
        cases hrs : orderSpec dyn (L.d1.plLen.getD 0 0) rest ops with
        | none => rw [hrs] at hs; cases hs
        | some rs =>
          rw [hrs] at hs
          simp only [Option.map_some, Option.some.injEq] at hs
          subst hs
          rw [hres, ih _ _ hinv rs (by rw [hpl]; exact hrs)]
          rfl

end Nrf
