/-
Tie between the GENERATED translations of the module-level helpers of `fake_ble.py`
(`NrfGen/FakeBle.lean`, rewritten from the current source by `tools/py2lean.py` on every run) and the
hand-written model functions of `NrfModel/Ble/Bits.lean` the C18 / C19 theorems are about.
-/
import NrfModel.Ble.Bits
import NrfGen.FakeBle
import NrfProofs.Ble.Crc
import NrfProofs.Ble.Frame

namespace Nrf.Proofs.GenTie
open Nrf Nrf.Ble Nrf.Proofs.Ble

/-- the translator's exceptions as the model's -/
def errToPy : Gen.Err → PyErr
  | .indexError => .indexError
  | .valueError => .valueError
  | .overflowError => .overflowError
  | .diverge => .diverge
  /- `negative` (a subtraction left the naturals: the translation is not valid there) has no counterpart in
     the model; it is sent to an exception no tied model function can return, so that an equation
     `toPyM (generated) = model` also shows that it does not occur -/
  | .negative => .notImplemented

/-- an outcome of generated code as an outcome of the model -/
def toPyM {α} : Gen.M α → PyM α
  | .ok a => .ok a
  | .error e => .error (errToPy e)

/-- the translator's `for _ in range(n)` combinator is the model's -/
theorem gen_iter_eq {σ} (f : σ → σ) (n : Nat) (s : σ) : Gen.iter f n s = Ble.iter f n s := by
  induction n generalizing s with
  | zero => rfl
  | succ n ih => exact ih (f s)

/-! ### `swap_bits` -/

theorem swap_bits_for1_iter (n r o : Nat) :
    Gen.iter Gen.swap_bits_for1 n (r, o)
      = ((Ble.iter swapStep n (o, r)).2, (Ble.iter swapStep n (o, r)).1) := by
  induction n generalizing r o with
  | zero => rfl
  | succ n ih => exact ih _ _

/-- **GenTie, `swap_bits`**: for every non-negative `int` -/
theorem GenTie_swap_bits (x : Nat) : Gen.swap_bits x = swapBits x := by
  unfold Gen.swap_bits swapBits
  simp only [swap_bits_for1_iter]

theorem swapBits_lt' (b : Nat) : swapBits b < 256 := by
  have h : swapBits b = swapBits (b &&& 0xFF) := by
    unfold swapBits; rw [Nat.and_assoc, Nat.and_self]
  rw [h]
  exact swapBits_lt _ (Nat.lt_succ_of_le Nat.and_le_right)

/-! ### `reverse_bits` -/

theorem reverse_bits_loop (l pre : List Nat) :
    Gen.forEnumFromM Gen.reverse_bits_for1 pre.length l (pre ++ List.replicate l.length 0)
      = .ok (pre ++ l.map swapBits) := by
  induction l generalizing pre with
  | nil => simp [Gen.forEnumFromM, pure, Except.pure]
  | cons x xs ih =>
    have hv : swapBits x < 256 := swapBits_lt' x
    have hstep : Gen.reverse_bits_for1 (pre ++ List.replicate (x :: xs).length 0) pre.length x
        = .ok ((pre ++ [swapBits x]) ++ List.replicate xs.length 0) := by
      simp [Gen.reverse_bits_for1, Gen.setItem, GenTie_swap_bits, hv, List.replicate_succ]
    have := ih (pre ++ [swapBits x])
    simp only [List.length_append, List.length_cons, List.length_nil, Nat.zero_add] at this
    simp only [Gen.forEnumFromM, hstep, bind, Except.bind, this]
    simp

/-- **GenTie, `reverse_bits`**: for every buffer (no `IndexError` / `ValueError` from the item stores) -/
theorem GenTie_reverse_bits (b : Bytes) : Gen.reverse_bits b = .ok (reverseBits b) := by
  have := reverse_bits_loop b []
  simp only [List.length_nil, List.nil_append] at this
  simp only [Gen.reverse_bits, this, bind, Except.bind, reverseBits]
  rfl

/-! ### `chunk` -/

/-- **GenTie, `chunk`**: same bytes, and `ValueError` for exactly the same arguments (a buffer of 255 bytes
    or more) -/
theorem GenTie_chunk (buf : Bytes) (dataType : Nat) :
    toPyM (Gen.chunk buf dataType) = Ble.chunk buf dataType := by
  have hm : dataType &&& 255 < 256 := Nat.lt_succ_of_le Nat.and_le_right
  unfold Gen.chunk Ble.chunk Gen.mkBytes bytes2
  by_cases h : buf.length + 1 < 256
  · simp [h, hm, toPyM, bind, Except.bind, pure, Except.pure]
  · simp [h, toPyM, errToPy, bind, Except.bind]

example : Gen.chunk [1, 2, 3] 0x16 = .ok [4, 0x16, 1, 2, 3] := rfl
example (buf : Bytes) (h : buf.length = 255) : Gen.chunk buf 0x16 = .error .valueError := by
  simp [Gen.chunk, Gen.mkBytes, h, bind, Except.bind]

/-! ### `crc24_ble` -/

theorem crc24_ble_for2_eq (p : Nat) : Gen.crc24_ble_for2 p = crcShift p := by
  funext c
  unfold Gen.crc24_ble_for2 crcShift
  by_cases h : c &&& 0x800000 = 0 <;> simp [h]

theorem crc24_ble_for1_eq (p c b : Nat) : Gen.crc24_ble_for1 p c b = crcByte p c b := by
  unfold Gen.crc24_ble_for1 crcByte
  simp only [crc24_ble_for2_eq, gen_iter_eq, GenTie_swap_bits]

theorem crc24_ble_loop (p : Nat) (data : List Nat) (c : Nat) :
    Gen.forEach (Gen.crc24_ble_for1 p) data c = data.foldl (crcByte p) c := by
  induction data generalizing c with
  | nil => rfl
  | cons x xs ih => simp only [Gen.forEach, List.foldl_cons, ih, crc24_ble_for1_eq]

theorem toBytesBig3 (x : Nat) (h : x < 2 ^ 24) :
    Gen.toBytesBig x 3 = .ok [x / 0x10000, (x / 0x100) % 0x100, x % 0x100] := by
  have h' : x < 256 ^ 3 := by simpa using h
  have e : x / 256 / 256 % 256 = x / 65536 := by omega
  simp [Gen.toBytesBig, h', Gen.beDigits, e]

/-- **GenTie, `crc24_ble`** at the default polynomial and preset (the only way the library calls it): for
    every buffer the translation returns normally (no `OverflowError` from `to_bytes`, no error from the
    item stores of `reverse_bits`) with the model's three bytes -/
theorem GenTie_crc24_ble (data : Bytes) :
    Gen.crc24_ble data 0x65B 0x555555 = .ok (crc24 data) := by
  have hlt := crc24Reg_lt data
  have hreg : Gen.forEach (Gen.crc24_ble_for1 0x65B) data 0x555555 = crc24Reg data :=
    crc24_ble_loop _ _ _
  simp only [Gen.crc24_ble, hreg, toBytesBig3 _ hlt, GenTie_reverse_bits, bind, Except.bind, crc24]

/-- the same against the monadic model function (which keeps the `to_bytes` check) -/
theorem GenTie_crc24_ble_M (data : Bytes) :
    toPyM (Gen.crc24_ble data 0x65B 0x555555) = crc24M data := by
  rw [GenTie_crc24_ble, crc24M_eq]; rfl

end Nrf.Proofs.GenTie
