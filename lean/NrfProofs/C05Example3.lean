/-
A concrete three-node chain (master `0o0`, `0o1`, `0o11` on radios 0, 1, 2, as their constructors
and `_begin` leave them — values taken from running the model), the grandchild about to call
`write()`: non-vacuity of the route theorem.
-/
import NrfProofs.C05Example
import NrfProofs.C05RouteTop

namespace Nrf.Net.Example
open Nrf Nrf.Net Nrf.Spec Nrf.Proofs Nrf.Props.C04

def rf2 : Rf24 :=
  { rid := 2, status := 14, pipes0 := [204, 51, 204, 204, 204], pipes1 := [60, 60, 60, 204, 204],
    pipesN := [51, 206, 62, 227], config := 15, openPipes := 63, features := 5, retrySetup := 181, rfSetup := 7,
    dynPl := 63, aa := 62, channel := 76, addrLen := 5, pipe0ReadAddr := some [204, 51, 204, 204, 204],
    txAddress := [231, 231, 231, 231, 231], isPlus := true }

def radio2 : Radio :=
  { config := 15, enAA := 62, enRxAddr := 63, setupRetr := 181, rfCh := 76, rfSetup := 7,
    rxAddr0 := [204, 51, 204, 204, 204], rxAddr1 := [60, 60, 60, 204, 204], rxAddrN := [51, 206, 62, 227],
    rxPw := [32, 32, 32, 32, 32, 32], dynpd := 63, feature := 5, ce := true }

def P2 : List Bytes :=
  [[204, 51, 204, 204, 204], [60, 60, 60, 204, 204], [51, 60, 60, 204, 204], [206, 60, 60, 204, 204],
   [62, 60, 60, 204, 204], [227, 60, 60, 204, 204]]

/-- node `i` is tree node `tree3 i` -/
def tree3 : Nat → List Nat
  | 0 => []
  | 1 => [1]
  | 2 => [1, 1]
  | n + 3 => [5, 5, 5, 5 - (n % 4)]   -- never used: there are three nodes

def three : NetState :=
  { nodes := [{ rf := rf0, a := nodeSpec [] }, { rf := rf1, a := nodeSpec [1] }, { rf := rf2, a := nodeSpec [1, 1] }],
    cur := 2, active := [2], nextId := 6, closed := true,
    w := { radios := [radio0, radio1, radio2], busyUntil := [0, 0, 0] } }

theorem three_pipes2 : beginPipes {} (val [1, 1]) = .ok P2 :=
  (beginPipes_eq (cfg := {}) (sfxFn_spec rfl) (by decide)).trans (congrArg Except.ok (by decide))

theorem three_ok : NetOk {} L tree3 three := by
  have h3 : ∀ i, i < three.nodes.length → i = 0 ∨ i = 1 ∨ i = 2 := by
    intro i hi
    have : i < 3 := hi
    omega
  refine ⟨rfl, rfl, ?_, ?_, ?_, ?_⟩
  · intro i hi
    rcases h3 i hi with rfl | rfl | rfl <;> decide
  · intro i j hi hj hij
    rcases h3 i hi with rfl | rfl | rfl <;> rcases h3 j hj with rfl | rfl | rfl <;>
      first | exact absurd rfl hij | decide
  · intro i hi
    rcases h3 i hi with rfl | rfl | rfl
    · exact ⟨P0, two_pipes0, by decide⟩
    · exact ⟨P1, two_pipes1, by decide⟩
    · exact ⟨P2, three_pipes2, by decide⟩
  · intro r k hr
    have h0 : r ≠ 0 := fun e => hr 0 (by decide) (by rw [e]; rfl)
    have h1 : r ≠ 1 := fun e => hr 1 (by decide) (by rw [e]; rfl)
    have h2 : r ≠ 2 := fun e => hr 2 (by decide) (by rw [e]; rfl)
    have : three.w.radio r = default := by
      unfold World.radio
      have : three.w.radios.length ≤ r := by
        show 3 ≤ r
        omega
      rw [List.getD_eq_getElem?_getD, List.getElem?_eq_none this]
      rfl
    rw [this]
    exact Radio.listensTo_not_rx _ _ (by decide)

end Nrf.Net.Example
