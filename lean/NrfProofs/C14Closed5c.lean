/-
C14, closed system, part 5c: the sender's call with the air log.  `mc_hop`, `nodeWrite_mc`
(NrfProofs/C14Closed2.lean) and `multicast_sent` (NrfProofs/C14Closed4.lean) once more, each with one more
conjunct: **the call appends exactly one record to the air log** — the packet `k` that every other radio
`receive`d, sent by the caller's radio, one attempt, reported sent (no acknowledgement awaited).  The
`auto_ack =`, `listen =`, `open_tx_pipe` calls around the `send` append nothing (`AK`,
NrfProofs/C14Closed5.lean); the `send` appends the one record (`l3_send_noack_air`, C14Closed5b.lean).
The proofs are those of the originals with the air bookkeeping added (generated from their text).
`multicast_sent_air` also exports two facts its proof has anyway and the relay composition
(NrfProofs/C14Closed10.lean) needs: the caller's frame packs to `pk`, the radios of the nodes that are no
receivers keep their "last accepted packet", and every node object stays on its radio.
-/
import NrfProofs.C14Closed5b
import NrfProofs.C14Closed4

namespace Nrf.Net
open Nrf Nrf.Spec Nrf.Proofs Nrf.Proofs.McastK Nrf.Props.C04

/-- `mc_hop` with the air log -/
theorem mc_hop_air (hc : L3Contracts) (f : Nat) (s : NetState) (L : LinkCfg) (Pa : List Bytes)
    (tn : Nat) (A pk : Bytes)
    (hcur : s.cur < s.nodes.length) (hclosed : s.closed = true)
    (hfuel : s.nodes.length + 2 ≤ f) (hquiet : Quiet s) (hWf : s.drv.Wf)
    (hNa : NodeRadio L Pa true true 0x3E s.node.rf s.drv.radio)
    (hrid : ∀ i, i < s.nodes.length → i ≠ s.cur → s.ridAt i ≠ s.ridAt s.cur)
    (haddr : pipeAddress s.node.cfg tn 0 = .ok A) (hAlen : A.length = 5)
    (hfaults : s.w.faults = []) (hmsg : s.node.frameBuf.message.length ≤ MAX_FRAG_SIZE)
    (hpk : s.node.frameBuf.pack = .ok pk) :
    ∃ (D : DrvState) (pid : Nat), nexec (nodeWriteToPipe (f + 1) tn 0 true) s = (.ok true, s.afterRf D) ∧
      D.d.rid = s.node.rf.rid ∧ D.w.radios.length = s.w.radios.length ∧ D.w.faults = [] ∧
      NodeRadio L Pa false true 0x3E D.d D.radio ∧ D.radio.rxFifo = s.drv.radio.rxFifo ∧
      D.radio.lastRx = s.drv.radio.lastRx ∧
      (∀ i, i ≠ s.ridAt s.cur → D.w.radio i = ((s.w.radio i).receive (unicastPacket L A pk pid)).1) ∧
      D.w.air = s.w.air ++
        [{ sender := s.ridAt s.cur, pkt := unicastPacket L A pk pid, attempts := 1, ok := true }] := by
  have hridc : s.ridAt s.cur = s.drv.d.rid := rfl
  -- 1. auto-ack off on pipe 0
  obtain ⟨D1, e1, F1, N1, x1, _, _⟩ := hc.setAA s.drv L Pa true true 0x3E 0x3E hWf hNa (Or.inl rfl)
  have a1 : D1.w.air = s.w.air := (L3.AK.setAutoAckAttr _).of_exec hNa.txEmpty e1
  -- 2. stop listening
  obtain ⟨D2, e2, F2, N2, x2⟩ := hc.listenOff D1 L Pa true true 0x3E (F1.wf hWf) N1
  have a2 : D2.w.air = D1.w.air := (L3.AK.setListen _).of_exec N1.txEmpty e2
  -- 3. transmit address
  obtain ⟨D3, e3, F3, N3, x3, t3, _⟩ := L3.l3_openTx_noack D2 L Pa false A ((F1.trans F2).wf hWf) N2 hAlen
  have a3 : D3.w.air = D2.w.air := (L3.AK.openTxPipe _).of_exec N2.txEmpty e3
  have F03 : DrvFrame s.drv D3 := (F1.trans F2).trans F3
  have hW3 : D3.Wf := F03.wf hWf
  have hk : D3.packet pk = unicastPacket L A pk D3.radio.nextPid := N3.packet_mc A pk t3 hAlen
  have hpkl : pk.length = 8 + s.node.frameBuf.message.length := pack_length hpk
  -- 4. send
  obtain ⟨D4, e4, r4, l4, f4, o4, N4, x4, lr4, _, _, _, _, a4⟩ := L3.l3_send_noack_air D3 L Pa false pk hW3 N3
    (by omega) (by unfold MAX_FRAG_SIZE at hmsg; omega)
    (by rw [F03.faults]; exact hfaults)
  refine ⟨D4, D3.radio.nextPid, ?_, ?_, ?_, f4, N4, ?_, ?_, ?_, ?_⟩
  · -- the computation
    rw [nodeWriteToPipe.eq_2, nexec_bind, nexec_getNode]
    have hno : ¬ (tn = s.node.a.addr ∧ (!true) = true) := fun h => by simp at h
    simp only [if_neg hno, if_true]
    have e62 : (62 + 0 : Int) = ((62 : Nat) : Int) := by decide
    rw [e62, nexec_bind, nexec_liftRf_ok _ s _ D1 e1]
    simp only []
    rw [nexec_bind, nexec_liftRf_ok _ _ _ D2 (by rw [afterRf_drv s D1 hcur]; exact e2), afterRf_afterRf]
    simp only []
    have hpa : nexec (pipeAddr tn 0) (s.afterRf D2) = (.ok A, s.afterRf D2) := by
      unfold Nrf.Net.pipeAddr
      rw [nexec_bind, nexec_getNode]
      simp only []
      rw [afterRf_node s D2 hcur]
      simp only []
      rw [haddr, nexec_liftPy_ok]
    rw [nexec_bind, hpa]
    simp only []
    rw [nexec_bind, nexec_liftRf_ok _ _ _ D3 (by rw [afterRf_drv s D2 hcur]; exact e3), afterRf_afterRf]
    simp only []
    rw [nexec_bind, nexec_getNode]
    simp only []
    rw [afterRf_node s D3 hcur]
    simp only [hmsg, if_true]
    rw [nexec_bind]
    have : (Frame.pack s.node.frameBuf) = .ok pk := hpk
    rw [this, nexec_liftPy_ok]
    simp only []
    obtain ⟨f', rfl⟩ : ∃ g, f = g + 1 := ⟨f - 1, by omega⟩
    have hq3 : Quiet (s.afterRf D3) := by
      intro i hi hic hia
      have hi' : i < s.nodes.length := by simpa using hi
      have hic' : i ≠ s.cur := hic
      unfold NetState.radioAt NetState.ridAt
      rw [nodeAt_afterRf_ne s D3 i hic', afterRf_w]
      have := F03.others (s.nodeAt i).rf.rid (hrid i hi' hic')
      rw [this]
      exact hquiet i hi' hic' hia
    have hsend : nexec (rfSend (f' + 1) pk) (s.afterRf D3) = (.ok true, s.afterRf D4) := by
      rw [rfSend.eq_2, nexec_bind, nexec_get]
      simp only [afterRf_closed, hclosed, if_true]
      rw [nexec_bind, runOthers_quiet0 _ hq3 f' (by simp; omega)]
      simp only []
      rw [nexec_bind, nexec_liftRf_ok _ _ _ D4 (by rw [afterRf_drv s D3 hcur]; exact e4), afterRf_afterRf]
      rfl
    rw [nexec_bind, hsend]
    rfl
  · rw [r4, F03.rid]; rfl
  · rw [l4, F03.len]; rfl
  · rw [x4, x3, x2, x1]
  · rw [lr4, F03.lastRx]
  · intro i hic
    have hi3 : i ≠ D3.d.rid := by rw [F03.rid]; exact hic
    rw [o4 i hi3, F03.others i hic, hk]
    rfl
  · rw [a4, a3, a2, a1, hk, F03.rid]
    rfl

/-- `nodeWrite_mc` with the air log -/
theorem nodeWrite_mc_air (hc : L3Contracts) (f : Nat) (s : NetState) (L : LinkCfg) (Pa : List Bytes)
    (wd t : Nat) (A pk : Bytes)
    (hcur : s.cur < s.nodes.length) (hclosed : s.closed = true)
    (hfuel : s.nodes.length + 2 ≤ f) (hquiet : Quiet s) (hWf : s.drv.Wf)
    (hNa : NodeRadio L Pa true true 0x3E s.node.rf s.drv.radio)
    (hrid : ∀ i, i < s.nodes.length → i ≠ s.cur → s.ridAt i ≠ s.ridAt s.cur)
    (haddr : pipeAddress s.node.cfg wd 0 = .ok A) (hAlen : A.length = 5)
    (hfaults : s.w.faults = []) (hmsg : s.node.frameBuf.message.length ≤ MAX_FRAG_SIZE)
    (hpk : s.node.frameBuf.pack = .ok pk)
    (ht : s.node.frameBuf.header.msgType = .int t) :
    ∃ (D : DrvState) (pid : Nat), nexec (nodeWrite (f + 2) wd TX_MULTICAST) s = (.ok true, s.afterRf D) ∧
      D.d.rid = s.node.rf.rid ∧ D.w.radios.length = s.w.radios.length ∧ D.w.faults = [] ∧
      NodeRadio L Pa true true 0x3E D.d D.radio ∧ D.radio.rxFifo = s.drv.radio.rxFifo ∧
      D.radio.lastRx = s.drv.radio.lastRx ∧
      (∀ i, i ≠ s.ridAt s.cur → D.w.radio i = ((s.w.radio i).receive (unicastPacket L A pk pid)).1) ∧
      D.w.air = s.w.air ++
        [{ sender := s.ridAt s.cur, pkt := unicastPacket L A pk pid, attempts := 1, ok := true }] := by
  obtain ⟨D1, pid, e1, r1, l1, f1, N1, x1, lr1, hoth, hair⟩ := mc_hop_air hc f s L Pa wd A pk hcur hclosed hfuel
    hquiet hWf hNa hrid haddr hAlen hfaults hmsg hpk
  have hW1 : D1.Wf := by
    unfold DrvState.Wf at *
    rw [r1, l1]; exact hWf
  obtain ⟨D2, e2, F2, N2, x2⟩ := hc.listenOn D1 L Pa true 0x3E hW1 N1
  have a2 : D2.w.air = D1.w.air := (L3.AK.setListen _).of_exec N1.txEmpty e2
  refine ⟨D2, pid, ?_, by rw [F2.rid, r1], by rw [F2.len, l1], by rw [F2.faults, f1], N2, by rw [x2, x1],
    by rw [F2.lastRx, lr1], ?_, by rw [a2, hair]⟩
  · have hl2p : logi2phys s.node.a wd TX_MULTICAST = (wd, 0, true) := by
      unfold logi2phys
      rw [if_pos (by decide)]
    rw [show f + 2 = (f + 1) + 1 from rfl, nodeWrite_step_raw (f + 1) wd TX_MULTICAST s t ht, hl2p]
    have hpre : writePrelude s t wd TX_MULTICAST = s := by
      unfold writePrelude
      rw [if_neg]
      rintro ⟨h, _⟩
      exact absurd h (by decide)
    simp only [hpre, e1, if_true]
    have e01 : (TX_MULTICAST = TX_ROUTED) = False := eq_false (by decide)
    have e02 : (TX_MULTICAST = TX_NORMAL) = False := eq_false (by decide)
    have e03 : (TX_MULTICAST = TX_LOGICAL) = False := eq_false (by decide)
    simp only [e01, e02, e03, false_and, if_false, ne_eq, not_true_eq_false, ite_self, or_self, and_false]
    unfold ackCont
    simp only [Bool.not_true, Bool.false_eq_true, if_false]
    rw [nexec_bind, nexec_liftRf_ok _ _ _ D2 (by rw [afterRf_drv s D1 hcur]; exact e2), afterRf_afterRf]
    rfl
  · intro i hic
    rw [F2.others i (by rw [r1]; exact hic), hoth i hic]

/-- **`multicast()` in the closed system, the sender's call, with the air log**: the conclusion of
    `multicast_sent`, and the call appended exactly one record — the caller's radio, the packet `k`, one
    attempt, reported sent. -/
theorem multicast_sent_air (hc : L3Contracts) (cfg : AddrCfg) (hcfg : CfgOk cfg) (ham : cfg.allowMulticast = true)
    (L : LinkCfg) (tree : Nat → List Nat) (s : NetState) (ty : Int) (msg : Bytes) (level : Option Int)
    (hok : NetOk cfg L tree s) (hcur : s.cur < s.nodes.length)
    (hsize : s.nodes.length ≤ 100000)
    (hquiet : ∀ i, i < s.nodes.length → (s.radioAt i).rxFifo = [])
    (hty : 0 ≤ ty ∧ ty ≤ 127) (hlen : msg.length ≤ MAX_FRAG_SIZE) (hmax : msg.length ≤ s.node.maxMessageLength)
    (hdup : ∀ j, j < s.nodes.length → ∀ l, (s.radioAt j).lastRx = some l →
      (mcCaller s.node ty msg).pack ≠ .ok l.data) :
    ∃ (s1 : NetState) (pk : Bytes) (k : Packet),
      nexec (apiMulticast msg ty level) s = (.ok true, s1) ∧
      (mcQueued s.node ty msg).pack = .ok pk ∧
      McFrame (mcQueued s.node ty msg) pk ty.toNat (tree s.cur) ∧
      levelAddrSpec cfg.pfx cfg.sfx (mcLevel (tree s.cur).length level) = some k.addr ∧ k.data = pk ∧
      NetOk cfg L tree s1 ∧ s1.cur = s.cur ∧ s1.active = s.active ∧ s1.nodes.length = s.nodes.length ∧
      (∀ j, (s1.nodeAt j).queue = (s.nodeAt j).queue ∧ (s1.nodeAt j).relayEnabled = (s.nodeAt j).relayEnabled) ∧
      (∀ j, j < s.nodes.length → (s1.radioAt j).rxFifo =
        if j ≠ s.cur ∧ (tree j).length = mcLevel (tree s.cur).length level
        then [{ pipe := 0, data := pk }] else []) ∧
      (∀ r, r ≠ s.ridAt s.cur → s1.w.radio r = ((s.w.radio r).receive k).1 ∧ ((s.w.radio r).receive k).2 = none) ∧
      s1.w.air = s.w.air ++ [{ sender := s.ridAt s.cur, pkt := k, attempts := 1, ok := true }] ∧
      (mcCaller s.node ty msg).pack = .ok pk ∧
      (∀ i, i < s.nodes.length → ¬ (i ≠ s.cur ∧ (tree i).length = mcLevel (tree s.cur).length level) →
        (s1.radioAt i).lastRx = (s.radioAt i).lastRx) ∧
      (∀ i, s1.ridAt i = s.ridAt i) := by
  generalize hx : tree s.cur = x at *
  obtain ⟨hn1, hn2, hn3, hn4, hn5, hn6⟩ := hok.node s.cur hcur
  rw [hx] at hn1 hn2
  obtain ⟨P, hP, hN⟩ := hok.radio s.cur hcur
  rw [hx] at hP
  have hnode : s.node = s.nodeAt s.cur := rfl
  have hlvl : s.node.a.netLvl = x.length := by rw [hnode, hn2]; rfl
  generalize hLv : mcLevel x.length level = Lv
  have hL4 : Lv ≤ 4 := by
    rw [← hLv]
    unfold mcLevel
    cases level with
    | none => exact hn1.2
    | some l => simp only []; omega
  have hw := apiMulticast_eq msg ty level s hmax hlen
  rw [hlvl, hLv] at hw
  obtain ⟨p1, p2, p3, p4, p5, p6, p7⟩ := mcPrepared_facts s ty msg hcur
  generalize hs' : mcPrepared s ty msg = s' at hw p1 p2 p3 p4 p5 p6 p7
  generalize hcdef : mcCaller s.node ty msg = c at *
  have hs'rid : ∀ i, s'.ridAt i = s.ridAt i := by
    intro i
    unfold NetState.ridAt
    by_cases hi : i = s.cur
    · subst hi
      have : s'.nodeAt s.cur = s'.node := by rw [node_eq_nodeAt, p1]
      rw [this, p6]
      rfl
    · rw [p7 i hi]
  have hs'rad : ∀ i, s'.radioAt i = s.radioAt i := by
    intro i; unfold NetState.radioAt; rw [hs'rid, p4]
  have hs'd : s'.drv = s.drv := by
    unfold NetState.drv; rw [p6, p4]
  -- the frame
  obtain ⟨hm1, hm2, hm3⟩ := userType_mask ty hty
  have hct : c.header.msgType = .int ty.toNat := by rw [← hcdef]; simp [mcCaller, Header.setTy, hm1]
  have hcm : c.message = msg := by rw [← hcdef]; rfl
  have hcto : c.header.toNode = NETWORK_MULTICAST_ADDR := by rw [← hcdef]; rfl
  have hcfrom : c.header.fromNode = val x := by rw [← hcdef]; show s.node.a.addr = _; rw [hnode, hn2]; rfl
  obtain ⟨pk, hpk⟩ : ∃ pk, c.pack = .ok pk := by
    unfold Frame.pack
    rw [pack_int _ _ hct]
    exact ⟨_, rfl⟩
  have hvx : val x < 4096 := val_lt_4096 hn1
  have hT : McFrame (wireCopy c) pk ty.toNat x := by
    refine ⟨?_, ?_, hm3, ?_, ?_, ?_, ?_, hn1⟩
    · unfold wireCopy
      simp only [Header.ty, Nat.and_assoc, Nat.and_self]
    · simp [wireCopy, Header.ty, hct, hm2]
    · simp only [wireCopy, hcto]; decide
    · simp only [wireCopy, hcfrom]
      have : (0xFFF : Nat) = 2 ^ 12 - 1 := by decide
      rw [this, Nat.and_two_pow_sub_one_eq_mod]
      exact Nat.mod_eq_of_lt (by omega)
    · rw [pack_wireCopy c _ hct]; exact hpk
    · show c.message.length ≤ _; rw [hcm]; exact hlen
  -- the level address
  have hg := sfxFn_spec (sfx := cfg.sfx) hcfg.1
  have hA : pipeAddress cfg (lvl2addr Lv) 0 = .ok (levelFn cfg.pfx (sfxFn cfg.sfx) Lv) :=
    pipeAddress_levelFn hg ham (by omega)
  generalize hAdef : levelFn cfg.pfx (sfxFn cfg.sfx) Lv = A at hA
  have hAlen : A.length = 5 := by rw [← hAdef]; exact levelFn_length _ _ _
  have hAspec : levelAddrSpec cfg.pfx cfg.sfx Lv = some A := by
    rw [levelAddrSpec_fn hg (by omega), hAdef]
  have hF : F = 199998 + 2 := rfl
  rw [hF] at hw
  obtain ⟨D, pid, e, r1, l1, f1, N1, x1, lr1, hoth, hair⟩ := nodeWrite_mc_air hc 199998 s' L P (lvl2addr Lv) ty.toNat A pk
    (by rw [p1, p3]; exact hcur) (by rw [p5]; exact hok.closed) (by rw [p3]; omega)
    (by
      intro i hi _ _
      rw [hs'rad]
      exact hquiet i (by rw [← p3]; exact hi))
    (by rw [hs'd]; exact hn6)
    (by rw [p6, hs'd]; exact hN)
    (by
      intro i hi hic
      rw [hs'rid, hs'rid, p1]
      exact (hok.inj i s.cur (by rw [← p3]; exact hi) hcur (by rw [← p1]; exact hic)).2)
    (by rw [p6]; show pipeAddress s.node.cfg _ _ = _; rw [hnode, hn3]; exact hA)
    hAlen (by rw [p4]; exact hok.faults)
    (by rw [p6]; show c.message.length ≤ _; rw [hcm]; exact hlen)
    (by rw [p6]; exact hpk)
    (by rw [p6]; exact hct)
  rw [e] at hw
  generalize hkdef : unicastPacket L A pk pid = k at hoth hair
  -- what each radio did with the packet
  have hrecv : ∀ j, j < s.nodes.length → j ≠ s.cur →
      (s.radioAt j).receive k =
        (if (tree j).length = Lv then (s.radioAt j).withMc [{ pipe := 0, data := pk }] { pid := pid, addr := A, data := pk }
         else s.radioAt j, none) := by
    intro j hj hjc
    obtain ⟨Pj, hPj, hNj⟩ := hok.radio j hj
    obtain ⟨pl1, pl2⟩ := pipes_level cfg hcfg ham (tree j) (hok.node j hj).1 Pj hPj Lv (by omega)
    rw [hAdef] at pl1 pl2
    by_cases hl : (tree j).length = Lv
    · rw [if_pos hl, ← hkdef, Radio.receive_mc hNj A pk pid (pl1 hl) (by rw [hquiet j hj]; decide)
        (by
          intro hh
          exact hdup j hj _ hh hpk)]
      rw [hquiet j hj]
      rfl
    · rw [if_neg hl, ← hkdef]
      exact Radio.receive_ignore _ _ (listensTo_none_of_no_match hNj A pk pid (pl2 hl))
  have hspare : ∀ r, (∀ i, i < s.nodes.length → s.ridAt i ≠ r) → (s.w.radio r).receive k = (s.w.radio r, none) :=
    fun r hr => Radio.receive_ignore _ _ (hok.spare r k hr)
  have hnoack : ∀ r, r ≠ s.ridAt s.cur → ((s.w.radio r).receive k).2 = none := by
    intro r hr
    by_cases hex : ∃ j, j < s.nodes.length ∧ s.ridAt j = r
    · obtain ⟨j, hj, rfl⟩ := hex
      have hjc : j ≠ s.cur := fun e => hr (e ▸ rfl)
      have := hrecv j hj hjc
      unfold NetState.radioAt at this
      rw [this]
    · rw [hspare r (fun i hi e => hex ⟨i, hi, e⟩)]
  -- the state after the call
  generalize hs1 : s'.afterRf D = s1 at hw
  have c1 : s1.cur = s.cur := by rw [← hs1]; exact p1
  have a1 : s1.active = s.active := by rw [← hs1]; exact p2
  have len1 : s1.nodes.length = s.nodes.length := by rw [← hs1]; simp [p3]
  have w1 : s1.w = D.w := by rw [← hs1]; rfl
  have hcur' : s'.cur < s'.nodes.length := by rw [p1, p3]; exact hcur
  have node1 : s1.node = { s.node with frameBuf := c, rf := D.d } := by
    rw [← hs1, afterRf_node _ _ hcur', p6]
  have at1 : ∀ i, i ≠ s.cur → s1.nodeAt i = s.nodeAt i := by
    intro i hi
    rw [← hs1, nodeAt_afterRf_ne _ _ _ (by rw [p1]; exact hi), p7 i hi]
  have nodecur1 : s1.nodeAt s.cur = s1.node := by rw [node_eq_nodeAt, c1]
  have rid1 : ∀ i, s1.ridAt i = s.ridAt i := by
    intro i
    unfold NetState.ridAt
    by_cases hi : i = s.cur
    · subst hi
      rw [nodecur1, node1]
      show D.d.rid = _
      rw [r1, p6]; rfl
    · rw [at1 i hi]
  have hridc : s'.ridAt s'.cur = s.ridAt s.cur := by rw [hs'rid, p1]
  have same1 : Same s s1 := by
    refine ⟨by rw [← hs1]; exact p5, len1, ?_, by rw [w1, l1, p4], ?_⟩
    · intro i
      refine ⟨?_, ?_, ?_, ?_, rid1 i⟩ <;>
      · by_cases hi : i = s.cur
        · subst hi; rw [nodecur1, node1]; rfl
        · rw [at1 i hi]
    · intro r hr
      rw [w1, hoth r (by rw [hridc]; exact fun e => hr s.cur hcur e.symm), p4, hspare r hr]
  have radcur1 : s1.radioAt s.cur = D.radio := by
    unfold NetState.radioAt
    rw [rid1, w1]
    show D.w.radio s.node.rf.rid = _
    have : s.node.rf.rid = D.d.rid := by rw [r1, p6]
    rw [this]; rfl
  have radne1 : ∀ j, j < s.nodes.length → j ≠ s.cur → s1.radioAt j = ((s.radioAt j).receive k).1 := by
    intro j hj hjc
    unfold NetState.radioAt
    rw [rid1, w1, hoth _ (by rw [hridc]; exact (hok.inj j s.cur hj hcur hjc).2), p4]
  have ok1 : NetOk cfg L tree s1 := by
    refine hok.of_same same1 (by rw [w1]; exact f1) ?_
    intro i hi P' hP' hN'
    by_cases hic : i = s.cur
    · subst hic
      have : P' = P := Except.ok.inj (hP'.symm.trans (by rw [hx]; exact hP))
      subst this
      rw [nodecur1, node1, radcur1]
      exact N1
    · rw [at1 i hic, radne1 i hi hic, hrecv i hi hic]
      simp only []
      split
      · exact hN'.withMc 0 pk _ (by omega)
      · exact hN'
  refine ⟨s1, pk, k, hw, ?_, ?_, ?_, ?_, ok1, c1, a1, len1, ?_, ?_, ?_, ?_, ?_, ?_, rid1⟩
  · show (wireCopy (mcCaller s.node ty msg)).pack = _
    rw [hcdef]; exact hT.pack
  · show McFrame (wireCopy (mcCaller s.node ty msg)) _ _ _
    rw [hcdef]; exact hT
  · rw [← hkdef]; exact hAspec
  · rw [← hkdef]; rfl
  · intro j
    by_cases hj : j = s.cur
    · subst hj; rw [nodecur1, node1]; exact ⟨rfl, rfl⟩
    · rw [at1 j hj]; exact ⟨rfl, rfl⟩
  · intro j hj
    by_cases hjc : j = s.cur
    · subst hjc
      rw [radcur1, x1, hs'd, if_neg (fun h => h.1 rfl)]
      exact hquiet s.cur hcur
    · rw [radne1 j hj hjc, hrecv j hj hjc]
      simp only []
      by_cases hl : (tree j).length = Lv
      · rw [if_pos hl, if_pos ⟨hjc, hl⟩]; rfl
      · rw [if_neg hl, if_neg (fun h => hl h.2)]
        exact hquiet j hj
  · intro r hr
    refine ⟨?_, hnoack r hr⟩
    rw [w1, hoth r (by rw [hridc]; exact hr), p4]
  · rw [w1, hair, p4, hridc]
  · first | exact hpk | (rw [hcdef]; exact hpk)
  · intro i hi hnr
    by_cases hic : i = s.cur
    · subst hic
      rw [radcur1, lr1, hs'd]
      rfl
    · rw [radne1 i hi hic, hrecv i hi hic]
      simp only []
      rw [if_neg (fun h => hnr ⟨hic, h⟩)]

end Nrf.Net
