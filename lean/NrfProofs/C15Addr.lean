/-
C15 — `_pipe_address` never raises on what `_write` is asked to transmit to: the next hop of any
valid destination from any node of the tree (tree nodes and the three reserved addresses), the
direct targets of `update()` (a valid `from_node`, `NETWORK_DEFAULT_ADDR`), the level a multicast
is relayed to.
-/
import NrfProofs.C07Pipe0

namespace Nrf.Net
open Nrf Rf24 Nrf.Spec Nrf.Proofs

/-- the address attributes of a node of the tree, `multicast_level` possibly reassigned (0..4) -/
def TreeAt (a : NodeAddr) : Prop :=
  ∃ ds, IsNode ds ∧ ∃ L, L ≤ 4 ∧ a = { nodeOf (val ds) ds.length with netLvl := L }

theorem treeAt_begin {ds : List Nat} (hn : IsNode ds) : TreeAt (nodeOf (val ds) ds.length) :=
  ⟨ds, hn, ds.length, hn.2, rfl⟩

/-- what `is_address_valid` accepts -/
theorem isValid_cases {t : Nat} (h : isValid t = true) :
    (t = 0o100 ∨ t = 0o10 ∨ t = 0o1000) ∨ ∃ ds, IsNode ds ∧ val ds = t := by
  unfold isValid at h
  split at h
  · rename_i hr
    left
    simpa [NETWORK_MULTICAST_ADDR, NETWORK_MULTICAST_ADDR_LVL_2, NETWORK_MULTICAST_ADDR_LVL_4] using hr
  · right
    obtain ⟨ds, hok, hv, hl⟩ := (isValidGo_iff t 0).1 h
    refine ⟨ds, ⟨hok, ?_⟩, hv⟩
    rcases hl with rfl | hl
    · simp
    · simp [VALID_DIGIT_LIMIT] at hl; omega

theorem isValid_lt {t : Nat} (h : isValid t = true) : t < 4096 := by
  rcases isValid_cases h with (rfl | rfl | rfl) | ⟨ds, hn, rfl⟩
  · decide
  · decide
  · decide
  · exact val_lt_4096 hn

theorem logi2phys_lvl (n : NodeAddr) (L t st : Nat) :
    logi2phys { n with netLvl := L } t st = logi2phys n t st := rfl

/-- pipe 0..5 of a tree node exists -/
theorem pa_tree {cfg : AddrCfg} (hg : GoodCfg cfg) {ds : List Nat} (hn : IsNode ds) {p : Nat} (hp : p ≤ 5) :
    ∃ x, pipeAddress cfg (val ds) p = .ok x :=
  ⟨_, pipeAddress_listen hg.hg hn hp⟩

/-- the multicast pipe-0 address of any non-zero number below `8^5` exists -/
theorem pa_mc_small {cfg : AddrCfg} (hg : GoodCfg cfg) (ham : cfg.allowMulticast = true) {t : Nat}
    (h0 : t ≠ 0) (ht : t < 32768) : ∃ x, pipeAddress cfg t 0 = .ok x := by
  have key : ∀ L, 1 ≤ L → L ≤ 5 → 8 ^ (L - 1) ≤ t → t < 8 ^ L → ∃ x, pipeAddress cfg t 0 = .ok x :=
    fun L l1 l5 lo hi => ⟨_, pipeAddress_mc_num hg.hg l1 l5 lo hi ham⟩
  by_cases c1 : t < 8
  · exact key 1 (by decide) (by decide) (by simp; omega) (by simpa using c1)
  by_cases c2 : t < 64
  · exact key 2 (by decide) (by decide) (by simp; omega) (by simpa using c2)
  by_cases c3 : t < 512
  · exact key 3 (by decide) (by decide) (by simp; omega) (by simpa using c3)
  by_cases c4 : t < 4096
  · exact key 4 (by decide) (by decide) (by simp; omega) (by simpa using c4)
  · exact key 5 (by decide) (by decide) (by simp; omega) (by simpa using ht)

/-- pipe 0 of any valid address exists when multicast is allowed (the `NETWORK_POLL` answer) -/
theorem pa_valid0 {cfg : AddrCfg} (hg : GoodCfg cfg) (ham : cfg.allowMulticast = true) {t : Nat}
    (h : isValid t = true) : ∃ x, pipeAddress cfg t 0 = .ok x := by
  by_cases h0 : t = 0
  · subst h0; exact pa_tree hg (ds := []) (by decide) (Nat.zero_le 5)
  · exact pa_mc_small hg ham h0 (by have := isValid_lt h; omega)

/-- the level a multicast is relayed to -/
theorem pa_relay {cfg : AddrCfg} (hg : GoodCfg cfg) (ham : cfg.allowMulticast = true) {L : Nat} (hL : L ≤ 4) :
    ∃ x, pipeAddress cfg ((lvl2addr L <<< 3) &&& 0xFFFF) 0 = .ok x := by
  have : L = 0 ∨ L = 1 ∨ L = 2 ∨ L = 3 ∨ L = 4 := by omega
  rcases this with rfl | rfl | rfl | rfl | rfl
  · exact pa_tree hg (ds := []) (by decide) (Nat.zero_le 5)
  · exact pa_mc_small hg ham (by decide) (by decide)
  · exact pa_mc_small hg ham (by decide) (by decide)
  · exact pa_mc_small hg ham (by decide) (by decide)
  · exact pa_mc_small hg ham (by decide) (by decide)

/-- **the next hop exists**: from a node of the tree, for every valid destination and the routed /
    originated send types, `_logi_2_phys` names a node and pipe whose address `_pipe_address`
    computes without raising (a tree node and one of its pipes 1..5) -/
theorem l2p_ok {cfg : AddrCfg} (hg : GoodCfg cfg) {a : NodeAddr} (ha : TreeAt a) {t st : Nat}
    (ht : isValid t = true) (hst : st ≤ 1) :
    ∃ x, pipeAddress cfg (logi2phys a t st).1 (logi2phys a t st).2.1 = .ok x := by
  obtain ⟨ds, hn, L, _, rfl⟩ := ha
  rw [logi2phys_lvl]
  rcases isValid_cases ht with hres | ⟨d, hd, rfl⟩
  · -- a reserved address: up to the parent; at the master: to itself
    have hlt : t < 4096 := isValid_lt ht
    rw [l2p_num hn.2 t st hlt, if_neg (by omega)]
    by_cases hmaster : ds = []
    · subst hmaster
      have e : t % 8 ^ ([] : List Nat).length = val [] := by simp [val]; omega
      rw [if_pos e]
      have : t % 8 ^ (([] : List Nat).length + 1) = val [] := by
        rcases hres with rfl | rfl | rfl <;> decide
      simp only [this]
      exact pa_tree hg (ds := []) (by decide) (by decide)
    · have hpos : 0 < ds.length := List.length_pos_iff.mpr hmaster
      have hne : ¬ (t % 8 ^ ds.length = val ds) := by
        intro he
        -- the lowest digit of `val ds` is 1..5, of `t` it is 0
        cases ds with
        | nil => exact hmaster rfl
        | cons d0 rest =>
          have hok := hn.1
          rw [digitsOk_cons] at hok
          have h8 : val (d0 :: rest) % 8 = d0 := by rw [val_cons]; omega
          have ht8 : t % 8 = 0 := by rcases hres with rfl | rfl | rfl <;> decide
          have hdiv : (8 : Nat) ∣ 8 ^ (d0 :: rest).length := by
            rw [List.length_cons, Nat.pow_succ]; exact Nat.dvd_mul_left _ _
          have : t % 8 ^ (d0 :: rest).length % 8 = t % 8 := Nat.mod_mod_of_dvd t hdiv
          rw [he, h8, ht8] at this
          omega
      rw [if_neg hne]
      simp only
      have hpar : val ds % 8 ^ (ds.length - 1) = val ds.dropLast := by
        rw [val_dropLast (digitsOk_lt8 hn.1)]
      have hpp : val ds / 8 ^ (ds.length - 1) = ds.getLast?.getD 0 := by
        rw [getLast?_eq_div (digitsOk_lt8 hn.1) hmaster]; rfl
      rw [hpar, hpp]
      have hl : ds.getLast?.getD 0 ≤ 5 := by
        rw [List.getLast?_eq_some_getLast hmaster]
        exact (hn.1 _ (List.getLast_mem hmaster)).2
      exact pa_tree hg (isNode_dropLast hn) hl
  · rw [l2p_node hn hd hst]
    simp only
    have hp : (if ds <+: d then 5 else ds.getLast?.getD 0) ≤ 5 := by
      split
      · exact Nat.le_refl _
      · rename_i hp
        have hne : ds ≠ [] := by intro h0; subst h0; exact hp List.nil_prefix
        rw [List.getLast?_eq_some_getLast hne]
        exact (hn.1 _ (List.getLast_mem hne)).2
    exact pa_tree hg (isNode_nextHop hn hd) hp

theorem l2p_direct (a : NodeAddr) (t st : Nat) (h : st > 1) : logi2phys a t st = (t, 0, true) := by
  simp [logi2phys, TX_ROUTED, h]

end Nrf.Net
