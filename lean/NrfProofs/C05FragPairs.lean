/-
C05, round 2: the Boolean check of one fragmented-message run in the seven-node tree `Example.sevenAt`, for the
all-pairs tables C05FragInstD/E/F (kernel evaluation of CONCRETE runs).
-/
import NrfProofs.C05FragRoute
import NrfProofs.C05ExampleSeven

namespace Nrf.Net.Inst
open Nrf Nrf.Net Nrf.Spec Nrf.Proofs Nrf.Net.Example

/-- node `a` of the seven-node tree writes the 60 bytes `0..59` (three fragments), type 5, to node `d`; then the
    first hop's `update()`; checked: `routeRunB` with the fragment plan once per radio of the route -/
def pairRun (a d : Nat) : Bool :=
  routeRunB (sevenAt a) (val (tree7 d)) 5 (List.range 60)
    (callerFrame (tree7 a) (tree7 d) (sevenAt a).nextId 5 (List.range 60)) (hop7 a d) d (val (tree7 a))
    (planAir (List.range 60) 5 ⟨val (tree7 a), val (tree7 d), (sevenAt a).nextId, .int 5, 0⟩ (rids7 a d))

end Nrf.Net.Inst
