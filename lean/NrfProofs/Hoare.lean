/-
Register-level Hoare lemmas for the SPI primitives of the driver: what `regRead` / `regWrite` /
`regWriteBytes` / `regCmd` return and do to the configuration part of the radios, in any world.
-/
import NrfProofs.Frame

namespace Nrf
open Rf24

/-- configuration part of the radio driven by the object in state `s` -/
def DrvState.cfg (s : DrvState) : Radio := (s.w.radio s.d.rid).cfgOf

/-- configuration part of radio `j` -/
def DrvState.cfgAt (s : DrvState) (j : Nat) : Radio := (s.w.radio j).cfgOf

/-- the driver object's radio exists -/
def DrvState.Wf (s : DrvState) : Prop := s.d.rid < s.w.radios.length

theorem decodeCmd_w (reg : Nat) (h : reg < 0x20) : Radio.decodeCmd (0x20 ||| reg) = .wRegister reg := by
  have h1 : 0x20 ||| reg = 0x20 + reg :=
    (by decide : ∀ r : Fin 32, 0x20 ||| r.val = 0x20 + r.val) ⟨reg, h⟩
  rw [h1]
  unfold Radio.decodeCmd
  have a : ¬ (0x20 + reg < 0x20) := by omega
  have b : 0x20 + reg < 0x40 := by omega
  simp only [a, b, ↓reduceIte]
  congr 1; omega

theorem decodeCmd_r (reg : Nat) (h : reg < 0x20) : Radio.decodeCmd reg = .rRegister reg := by
  unfold Radio.decodeCmd; simp [h]

end Nrf

namespace Nrf
open Rf24

/-- the state after one SPI transaction of the object's driver: the cached status byte is
    refreshed, the world moves on -/
def DrvState.spiStep (s : DrvState) (out : Bytes) : DrvState :=
  { d := { s.d with status := (s.w.spi s.d.rid out).2.headD s.d.status },
    w := (s.w.spi s.d.rid out).1 }

/-- the state after a change of shadow attributes -/
def DrvState.modShadow (s : DrvState) (f : Rf24 → Rf24) : DrvState := { s with d := f s.d }

theorem exec_modD' (f : Rf24 → Rf24) (s : DrvState) : exec (modD f) s = (.ok (), s.modShadow f) := rfl

/-- effect of `_reg_write(reg, v)` on a state, for an in-range byte and a register address -/
theorem exec_regWrite (reg : Nat) (v : Int) (s : DrvState) (hv : 0 ≤ v ∧ v ≤ 255) (hr : reg ≠ 0x50) :
    exec (regWrite reg v) s = (.ok (), s.spiStep [0x20 ||| reg, v.toNat]) := by
  unfold regWrite
  have h : ¬ (v < 0 ∨ v > 255) := by omega
  simp only [exec_bind, exec_ite, h, ↓reduceIte, exec_pure, exec_xfer, hr, ne_eq, not_false_eq_true]
  rfl

/-- `_reg_write` with a value outside a byte raises before any SPI traffic -/
theorem exec_regWrite_bad (reg : Nat) (v : Int) (s : DrvState) (hv : v < 0 ∨ v > 255) :
    exec (regWrite reg v) s = (.error .valueError, s) := by
  unfold regWrite
  simp only [exec_bind, exec_ite, hv, ↓reduceIte, exec_raise]

theorem exec_regCmd (c : Nat) (s : DrvState) : exec (regCmd c) s = (.ok (), s.spiStep [c]) := by
  unfold regCmd
  simp only [exec_bind, exec_xfer, exec_pure]
  rfl

theorem exec_regRead (reg : Nat) (s : DrvState) :
    exec (regRead reg) s = (.ok ((s.w.spi s.d.rid [reg, 0]).2.getD 1 0), s.spiStep [reg, 0]) := by
  unfold regRead
  simp only [exec_bind, exec_xfer, exec_pure]
  rfl

theorem exec_regWriteBytes (reg : Nat) (b : Bytes) (s : DrvState) :
    exec (regWriteBytes reg b) s = (.ok (), s.spiStep ((0x20 ||| reg) :: b)) := by
  unfold regWriteBytes
  simp only [exec_bind, exec_xfer, exec_pure]
  rfl

@[simp] theorem spiStep_rid (s : DrvState) (out : Bytes) : (s.spiStep out).d.rid = s.d.rid := rfl
@[simp] theorem modShadow_w (s : DrvState) (f : Rf24 → Rf24) : (s.modShadow f).w = s.w := rfl
@[simp] theorem modShadow_d (s : DrvState) (f : Rf24 → Rf24) : (s.modShadow f).d = f s.d := rfl

/-- the shadow attributes other than the cached status byte survive an SPI transaction -/
theorem spiStep_d (s : DrvState) (out : Bytes) :
    (s.spiStep out).d = { s.d with status := (s.spiStep out).d.status } := rfl

@[simp] theorem spiStep_wf (s : DrvState) (out : Bytes) : (s.spiStep out).Wf ↔ s.Wf := by
  unfold DrvState.Wf DrvState.spiStep
  simp only [World.spi_length]

theorem modShadow_wf (s : DrvState) (f : Rf24 → Rf24) (hf : (f s.d).rid = s.d.rid) :
    (s.modShadow f).Wf ↔ s.Wf := by
  unfold DrvState.Wf DrvState.modShadow
  simp only [hf]

/-- the configuration part after an SPI transaction: the command applied to the configuration
    part before it -/
theorem spiStep_cfg (s : DrvState) (out : Bytes) (hw : s.Wf) :
    (s.spiStep out).cfg = (s.cfg.xfer out).1.cfgOf := by
  unfold DrvState.cfg DrvState.spiStep
  simp only
  rw [World.spi_cfgOf _ _ _ hw]
  simp

/-- … and of every other radio: unchanged -/
theorem spiStep_cfgAt (s : DrvState) (out : Bytes) (hw : s.Wf) (j : Nat) (hj : j ≠ s.d.rid) :
    (s.spiStep out).cfgAt j = s.cfgAt j := by
  unfold DrvState.cfgAt DrvState.spiStep
  simp only
  rw [World.spi_cfgOf _ _ _ hw]
  simp [hj]

theorem modShadow_cfg (s : DrvState) (f : Rf24 → Rf24) (hf : (f s.d).rid = s.d.rid) :
    (s.modShadow f).cfg = s.cfg := by
  unfold DrvState.cfg DrvState.modShadow
  simp only [hf]

theorem modShadow_cfgAt (s : DrvState) (f : Rf24 → Rf24) (j : Nat) : (s.modShadow f).cfgAt j = s.cfgAt j := rfl

/-- a register write, on the configuration part -/
theorem xfer_wreg_cfg (r : Radio) (reg v : Nat) (hr : reg < 0x20) :
    (r.xfer [0x20 ||| reg, v]).1 = r.writeReg reg [v] := by
  unfold Radio.xfer
  simp only [decodeCmd_w reg hr, Radio.runCmd, List.length_cons, List.length_nil]
  rfl

theorem xfer_wregs_cfg (r : Radio) (reg : Nat) (b : Bytes) (hr : reg < 0x20) (hb : b ≠ []) :
    (r.xfer ((0x20 ||| reg) :: b)).1 = r.writeReg reg b := by
  unfold Radio.xfer
  simp only [decodeCmd_w reg hr, Radio.runCmd]
  have : b.length ≠ 0 := by simpa using hb
  simp [this]

theorem xfer_rreg_cfg (r : Radio) (reg : Nat) (d : Bytes) (hr : reg < 0x20) :
    (r.xfer (reg :: d)).1 = r := by
  unfold Radio.xfer
  simp only [decodeCmd_r reg hr, Radio.runCmd]

/-- the data byte an SPI read of a configuration register returns is determined by the
    configuration part of the radio -/
theorem spi_read_cfg (w : World) (s reg : Nat) (hr : reg < 0x20)
    (hc : reg ≠ 7 ∧ reg ≠ 8 ∧ reg ≠ 9 ∧ reg ≠ 0x17) :
    (w.spi s [reg, 0]).2.getD 1 0 = ((w.radio s).cfgOf.readReg reg).headD 0 := by
  unfold World.spi
  dsimp only
  show (((w.jump s).radio s).xfer [reg, 0]).2.getD 1 0 = _
  unfold Radio.xfer
  simp only [decodeCmd_r reg hr, Radio.runCmd, List.length_cons, List.length_nil, Radio.clockOut, zeros]
  have : (w.jump s).radio s = w.radio s := rfl
  rw [this]
  have h2 : ∀ r : Radio, r.readReg reg = r.cfgOf.readReg reg := by
    intro r
    unfold Radio.readReg
    obtain ⟨h7, h8, h9, h17⟩ := hc
    split <;> first | rfl | omega | (split <;> rfl)
  rw [h2]
  cases h : (w.radio s).cfgOf.readReg reg <;> simp [h]

end Nrf
