/-
C05 helper, round 2: DECIDABLE renderings of the conclusions of the closed-system route theorems, for
kernel evaluation (`decide +kernel`) of CONCRETE runs of the model — used by the `…_instance_partial` theorems of
NrfProps/C05.lean about fragmented messages over routes of two and three hops, for which no general theorem
exists (see the section "fragmented messages over more than one hop — what is missing" there).

Nothing here is a theorem about all networks: `deliveredOnceB`, `routeRunB`, `writeRunB` are Boolean checks on
the outcome of one run; the `…_sound` lemmas say that `true` implies the `Prop` the property theorems state.
-/
import NrfProofs.C05RouteTop

namespace Nrf.Net
open Nrf Nrf.Spec Nrf.Proofs

/-- Boolean rendering of `DeliveredOnce` (the destination's application queue gained exactly one frame, which
    is the message; nobody else's changed) — strengthened: every other node's WHOLE queue object (frames,
    reassembly cache, flags) is as before -/
def deliveredOnceB (before after : List Node) (dst src ty : Nat) (body : Bytes) : Bool :=
  decide (after.length = before.length) &&
  (match (after.getD dst default).queue.frames.getLast? with
   | some fr =>
     decide ((after.getD dst default).queue.frames = (before.getD dst default).queue.frames ++ [fr]) &&
     decide (fr.header.fromNode = src) && decide (fr.header.ty = ty) && decide (fr.message = body)
   | none => false) &&
  (List.range before.length).all fun j =>
    decide (j = dst) || decide ((after.getD j default).queue = (before.getD j default).queue)

theorem deliveredOnceB_sound {before after : List Node} {dst src ty : Nat} {body : Bytes}
    (h : deliveredOnceB before after dst src ty body = true) :
    DeliveredOnce before after dst src ty body ∧
    ∀ j, j ≠ dst → (after.getD j default).queue = (before.getD j default).queue := by
  unfold deliveredOnceB at h
  simp only [Bool.and_eq_true, decide_eq_true_eq, List.all_eq_true, List.mem_range, Bool.or_eq_true] at h
  obtain ⟨⟨hl, hfr⟩, hall⟩ := h
  have hq : ∀ j, j ≠ dst → (after.getD j default).queue = (before.getD j default).queue := by
    intro j hj
    by_cases hjl : j < before.length
    · rcases hall j hjl with e | e
      · exact absurd e hj
      · exact e
    · rw [List.getD_eq_getElem?_getD, List.getD_eq_getElem?_getD,
        List.getElem?_eq_none (by omega), List.getElem?_eq_none (by omega)]
  refine ⟨⟨hl, ?_, fun j hj => by rw [hq j hj]⟩, hq⟩
  split at hfr
  · rename_i fr _
    simp only [Bool.and_eq_true, decide_eq_true_eq] at hfr
    exact ⟨fr, hfr.1.1.1, hfr.1.1.2, hfr.1.2, hfr.2⟩
  · exact absurd hfr (by simp)

/-- the acknowledged transmit cycles of the air log whose payload is a fragment frame (type byte 148, 149 or
    150 at offset 6), in order: (sending radio, payload) -/
def okFragAir (w : World) : List (Nat × Bytes) :=
  (w.air.filter fun a => a.ok && (a.pkt.data.getD 6 0 == 148 || a.pkt.data.getD 6 0 == 149 ||
    a.pkt.data.getD 6 0 == 150)).map fun a => (a.sender, a.pkt.data)

/-- Boolean check of one run "`write()` at the current node, then `update()` entered at node `j1`":
    `write()` returns `(True, c)`; the `update()` returns normally; `deliveredOnceB`; all RX FIFOs empty; the
    acknowledged fragment transmissions of the whole run are `air` -/
def routeRunB (s : NetState) (dstAddr : Nat) (ty : Int) (msg : Bytes) (c : Frame) (j1 jd src : Nat)
    (air : List (Nat × Bytes)) : Bool :=
  match nexec (apiNetWrite dstAddr ty msg AUTO_ROUTING) s with
  | (.ok (true, c'), s1) =>
    decide (c' = c) &&
    (match nexec apiUpdate ((s1.ret).callAs j1) with
     | (.ok _, s2) =>
       deliveredOnceB s.nodes s2.nodes jd src ty.toNat msg &&
       ((List.range s.nodes.length).all fun i => (s2.radioAt i).rxFifo.isEmpty) &&
       decide (okFragAir s2.w = air)
     | _ => false)
  | _ => false

theorem routeRunB_sound {s : NetState} {dstAddr : Nat} {ty : Int} {msg : Bytes} {c : Frame} {j1 jd src : Nat}
    {air : List (Nat × Bytes)} (h : routeRunB s dstAddr ty msg c j1 jd src air = true) :
    ∃ s1, nexec (apiNetWrite dstAddr ty msg AUTO_ROUTING) s = (.ok (true, c), s1) ∧
      ∃ r s2, nexec apiUpdate ((s1.ret).callAs j1) = (.ok r, s2) ∧
        DeliveredOnce s.nodes s2.nodes jd src ty.toNat msg ∧
        (∀ j, j ≠ jd → (s2.nodeAt j).queue = (s.nodeAt j).queue) ∧
        (∀ i, i < s.nodes.length → (s2.radioAt i).rxFifo = []) ∧
        okFragAir s2.w = air := by
  unfold routeRunB at h
  split at h
  · rename_i c' s1 hw
    simp only [Bool.and_eq_true, decide_eq_true_eq] at h
    obtain ⟨hc, h⟩ := h
    subst hc
    refine ⟨s1, hw, ?_⟩
    split at h
    · rename_i r s2 hu
      simp only [Bool.and_eq_true, decide_eq_true_eq, List.all_eq_true, List.mem_range,
        List.isEmpty_iff] at h
      obtain ⟨⟨hd, hf⟩, ha⟩ := h
      obtain ⟨hd1, hd2⟩ := deliveredOnceB_sound hd
      exact ⟨r, s2, hu, hd1, hd2, hf, ha⟩
    · exact absurd h (by simp)
  · exact absurd h (by simp)

/-- Boolean check of one run "`write()` at the current node" in which delivery happens inside `write()`
    (acknowledged message types): `write()` returns `(True, c)`; `deliveredOnceB`; all RX FIFOs empty; the
    acknowledged fragment transmissions are `air` -/
def writeRunB (s : NetState) (dstAddr : Nat) (ty : Int) (msg : Bytes) (c : Frame) (jd src : Nat)
    (air : List (Nat × Bytes)) : Bool :=
  match nexec (apiNetWrite dstAddr ty msg AUTO_ROUTING) s with
  | (.ok (true, c'), s1) =>
    decide (c' = c) &&
    deliveredOnceB s.nodes s1.nodes jd src ty.toNat msg &&
    ((List.range s.nodes.length).all fun i => (s1.radioAt i).rxFifo.isEmpty) &&
    decide (okFragAir s1.w = air)
  | _ => false

theorem writeRunB_sound {s : NetState} {dstAddr : Nat} {ty : Int} {msg : Bytes} {c : Frame} {jd src : Nat}
    {air : List (Nat × Bytes)} (h : writeRunB s dstAddr ty msg c jd src air = true) :
    ∃ s1, nexec (apiNetWrite dstAddr ty msg AUTO_ROUTING) s = (.ok (true, c), s1) ∧
      DeliveredOnce s.nodes s1.nodes jd src ty.toNat msg ∧
      (∀ j, j ≠ jd → (s1.nodeAt j).queue = (s.nodeAt j).queue) ∧
      (∀ i, i < s.nodes.length → (s1.radioAt i).rxFifo = []) ∧
      okFragAir s1.w = air := by
  unfold writeRunB at h
  split at h
  · rename_i c' s1 hw
    simp only [Bool.and_eq_true, decide_eq_true_eq, List.all_eq_true, List.mem_range,
      List.isEmpty_iff] at h
    obtain ⟨⟨⟨hc, hd⟩, hf⟩, ha⟩ := h
    subst hc
    obtain ⟨hd1, hd2⟩ := deliveredOnceB_sound hd
    exact ⟨s1, hw, hd1, hd2, hf, ha⟩
  · exact absurd h (by simp)

/-- the expected acknowledged fragment traffic of a route: every payload of the fragment plan (C11 / `fragPlan`,
    the specification of which frames a long message travels as), in order, once from each radio of `senders`
    (the origin's radio first, then the routers' in route order) -/
def planAir (msg : Bytes) (msgT : Nat) (h : Header) (senders : List Nat) : List (Nat × Bytes) :=
  (fragPlan msg (fragTotal msg.length) msgT (fragTotal msg.length) h).flatMap fun hp =>
    senders.map fun r => (r, hp.2)

end Nrf.Net
