/-
C07 — `_begin(n_addr)` establishes listening: from any state with the shape `RF24.__init__` leaves
(`Base`), for any address whose six pipe addresses exist, in any world.  Total: `_begin` returns.
-/
import NrfProofs.C07Write

namespace Nrf
open Rf24 Nrf.Net

/-! ### `Base` through `listen = False`, `auto_ack = 0x3E`, `set_auto_retries` -/

theorem and63_lt (x : Nat) : x &&& 0x3F < 64 := Nat.lt_of_le_of_lt Nat.and_le_right (by decide)

theorem Base.off {d : Rf24} {c : Radio} (h : Base d c) : Base (offD d) (offC d c) := by
  unfold offD offC
  by_cases hc : offOpens d
  · rw [if_pos hc, if_pos hc]
    exact
      { dyn := h.dyn, feat := h.feat, r0len := h.r0len, r1len := h.r1len, rNlen := h.rNlen
        rxenR := and63_lt _, sh0 := h.sh0, p1len := h.p1len
        openR := by
          show d.openPipes ||| 1 < 256
          have := or_one_byte _ h.openR; omega
        txlen := h.txlen, aw := h.aw }
  · rw [if_neg hc, if_neg hc]
    exact
      { dyn := h.dyn, feat := h.feat, r0len := h.r0len, r1len := h.r1len, rNlen := h.rNlen
        rxenR := h.rxenR, sh0 := h.sh0, p1len := h.p1len, openR := h.openR, txlen := h.txlen, aw := h.aw }

theorem Base.setAa {d : Rf24} {c : Radio} (h : Base d c) (v : Nat) : Base (d.withAa v) (c.wr 1 [v]) :=
  { dyn := h.dyn, feat := h.feat, r0len := h.r0len, r1len := h.r1len, rNlen := h.rNlen
    rxenR := h.rxenR, sh0 := h.sh0, p1len := h.p1len, openR := h.openR, txlen := h.txlen, aw := h.aw }

theorem Base.setRetry {d : Rf24} {c : Radio} (h : Base d c) (v : Nat) : Base (d.withRetry v) (c.wr 4 [v]) :=
  { dyn := h.dyn, feat := h.feat, r0len := h.r0len, r1len := h.r1len, rNlen := h.rNlen
    rxenR := h.rxenR, sh0 := h.sh0, p1len := h.p1len, openR := h.openR, txlen := h.txlen, aw := h.aw }

/-- all six enable bits after the six `open_rx_pipe` calls -/
theorem six_bits (e : Nat) :
    ((((((e ||| 1) &&& 0x3F ||| 2) &&& 0x3F ||| 4) &&& 0x3F ||| 8) &&& 0x3F ||| 16) &&& 0x3F ||| 32) &&& 0x3F = 0x3F := by
  apply Nat.eq_of_testBit_eq
  intro i
  simp only [Nat.testBit_and, Nat.testBit_or]
  match i with
  | 0 => simp
  | 1 => simp [show (2 : Nat).testBit 1 = true by decide, show (63 : Nat).testBit 1 = true by decide]
  | 2 => simp [show (4 : Nat).testBit 2 = true by decide, show (63 : Nat).testBit 2 = true by decide]
  | 3 => simp [show (8 : Nat).testBit 3 = true by decide, show (63 : Nat).testBit 3 = true by decide]
  | 4 => simp [show (16 : Nat).testBit 4 = true by decide, show (63 : Nat).testBit 4 = true by decide]
  | 5 => simp [show (32 : Nat).testBit 5 = true by decide, show (63 : Nat).testBit 5 = true by decide]
  | i + 6 =>
    have : (63 : Nat).testBit (i + 6) = false := by
      apply Nat.testBit_lt_two_pow
      calc 63 < 2 ^ 6 := by decide
        _ ≤ 2 ^ (i + 6) := Nat.pow_le_pow_right (by decide) (by omega)
    simp [this]


/-- the six `open_rx_pipe` calls of `_begin`, on (shadows, registers) -/
def rxC (c : Radio) (x0 x1 x2 x3 x4 x5 : Bytes) : Radio :=
  cOpenN 5 (cOpenN 4 (cOpenN 3 (cOpenN 2 (cOpen1 (cOpen0 c x0) x1) x2) x3) x4) x5

def rxD (d : Rf24) (c : Radio) (x0 x1 x2 x3 x4 x5 : Bytes) : Rf24 :=
  dOpenN 5 (dOpenN 4 (dOpenN 3 (dOpenN 2 (dOpen1 (dOpen0 d c x0) (cOpen0 c x0) x1) (cOpen1 (cOpen0 c x0) x1) x2)
    (cOpenN 2 (cOpen1 (cOpen0 c x0) x1) x2) x3) (cOpenN 3 (cOpenN 2 (cOpen1 (cOpen0 c x0) x1) x2) x3) x4)
    (cOpenN 4 (cOpenN 3 (cOpenN 2 (cOpen1 (cOpen0 c x0) x1) x2) x3) x4) x5

theorem set4 (l : List Nat) (u v w x : Nat) (hl : l.length = 4) :
    (((l.set 0 u).set 1 v).set 2 w).set 3 x = [u, v, w, x] := by
  match l, hl with
  | [_, _, _, _], _ => rfl

section
variable (c : Radio) (d : Rf24) (x : Bytes)

@[simp] theorem cOpen0_rxAddr0 : (cOpen0 c x).rxAddr0 = Radio.overlay c.rxAddr0 x := rfl
@[simp] theorem cOpen0_rxAddr1 : (cOpen0 c x).rxAddr1 = c.rxAddr1 := rfl
@[simp] theorem cOpen0_rxAddrN : (cOpen0 c x).rxAddrN = c.rxAddrN := rfl
@[simp] theorem cOpen0_enRxAddr : (cOpen0 c x).enRxAddr = (c.enRxAddr ||| 1) &&& 0x3F := rfl
@[simp] theorem cOpen0_dynpd : (cOpen0 c x).dynpd = c.dynpd := rfl
@[simp] theorem cOpen0_feature : (cOpen0 c x).feature = c.feature := rfl
@[simp] theorem cOpen0_enAA : (cOpen0 c x).enAA = c.enAA := rfl
@[simp] theorem cOpen0_setupAw : (cOpen0 c x).setupAw = c.setupAw := rfl
@[simp] theorem cOpen1_rxAddr0 : (cOpen1 c x).rxAddr0 = c.rxAddr0 := rfl
@[simp] theorem cOpen1_rxAddr1 : (cOpen1 c x).rxAddr1 = Radio.overlay c.rxAddr1 x := rfl
@[simp] theorem cOpen1_rxAddrN : (cOpen1 c x).rxAddrN = c.rxAddrN := rfl
@[simp] theorem cOpen1_enRxAddr : (cOpen1 c x).enRxAddr = (c.enRxAddr ||| 2) &&& 0x3F := rfl
@[simp] theorem cOpen1_dynpd : (cOpen1 c x).dynpd = c.dynpd := rfl
@[simp] theorem cOpen1_feature : (cOpen1 c x).feature = c.feature := rfl
@[simp] theorem cOpen1_enAA : (cOpen1 c x).enAA = c.enAA := rfl
@[simp] theorem cOpen1_setupAw : (cOpen1 c x).setupAw = c.setupAw := rfl

theorem pcases {p : Nat} (h2 : 2 ≤ p) (h5 : p ≤ 5) : p = 2 ∨ p = 3 ∨ p = 4 ∨ p = 5 := by omega

theorem cOpenN_rxAddr0 (p : Nat) (h2 : 2 ≤ p) (h5 : p ≤ 5) : (cOpenN p c x).rxAddr0 = c.rxAddr0 := by
  rcases pcases h2 h5 with rfl | rfl | rfl | rfl <;> rfl
theorem cOpenN_rxAddr1 (p : Nat) (h2 : 2 ≤ p) (h5 : p ≤ 5) : (cOpenN p c x).rxAddr1 = c.rxAddr1 := by
  rcases pcases h2 h5 with rfl | rfl | rfl | rfl <;> rfl
theorem cOpenN_rxAddrN (p : Nat) (h2 : 2 ≤ p) (h5 : p ≤ 5) :
    (cOpenN p c x).rxAddrN = c.rxAddrN.set (p - 2) (x.headD 0) := by
  rcases pcases h2 h5 with rfl | rfl | rfl | rfl <;> rfl
theorem cOpenN_enRxAddr (p : Nat) (h2 : 2 ≤ p) (h5 : p ≤ 5) :
    (cOpenN p c x).enRxAddr = (c.enRxAddr ||| (1 <<< p)) &&& 0x3F := by
  rcases pcases h2 h5 with rfl | rfl | rfl | rfl <;> rfl
theorem cOpenN_dynpd (p : Nat) (h2 : 2 ≤ p) (h5 : p ≤ 5) : (cOpenN p c x).dynpd = c.dynpd := by
  rcases pcases h2 h5 with rfl | rfl | rfl | rfl <;> rfl
theorem cOpenN_feature (p : Nat) (h2 : 2 ≤ p) (h5 : p ≤ 5) : (cOpenN p c x).feature = c.feature := by
  rcases pcases h2 h5 with rfl | rfl | rfl | rfl <;> rfl
theorem cOpenN_enAA (p : Nat) (h2 : 2 ≤ p) (h5 : p ≤ 5) : (cOpenN p c x).enAA = c.enAA := by
  rcases pcases h2 h5 with rfl | rfl | rfl | rfl <;> rfl
theorem cOpenN_setupAw (p : Nat) (h2 : 2 ≤ p) (h5 : p ≤ 5) : (cOpenN p c x).setupAw = c.setupAw := by
  rcases pcases h2 h5 with rfl | rfl | rfl | rfl <;> rfl

@[simp] theorem dOpen0_pipes0 : (dOpen0 d c x).pipes0 = x ++ d.pipes0.drop x.length := rfl
@[simp] theorem dOpen0_pipes1 : (dOpen0 d c x).pipes1 = d.pipes1 := rfl
@[simp] theorem dOpen0_openPipes : (dOpen0 d c x).openPipes = c.enRxAddr ||| 1 := rfl
@[simp] theorem dOpen0_txAddress : (dOpen0 d c x).txAddress = d.txAddress := rfl
@[simp] theorem dOpen0_aa : (dOpen0 d c x).aa = d.aa := rfl
@[simp] theorem dOpen0_read : (dOpen0 d c x).pipe0ReadAddr = some x := rfl
@[simp] theorem dOpen1_pipes0 : (dOpen1 d c x).pipes0 = d.pipes0 := rfl
@[simp] theorem dOpen1_pipes1 : (dOpen1 d c x).pipes1 = x ++ d.pipes1.drop x.length := rfl
@[simp] theorem dOpen1_openPipes : (dOpen1 d c x).openPipes = c.enRxAddr ||| 2 := rfl
@[simp] theorem dOpen1_txAddress : (dOpen1 d c x).txAddress = d.txAddress := rfl
@[simp] theorem dOpen1_aa : (dOpen1 d c x).aa = d.aa := rfl
@[simp] theorem dOpen1_read : (dOpen1 d c x).pipe0ReadAddr = d.pipe0ReadAddr := rfl
@[simp] theorem dOpenN_pipes0 (p : Nat) : (dOpenN p d c x).pipes0 = d.pipes0 := rfl
@[simp] theorem dOpenN_pipes1 (p : Nat) : (dOpenN p d c x).pipes1 = d.pipes1 := rfl
@[simp] theorem dOpenN_openPipes (p : Nat) : (dOpenN p d c x).openPipes = c.enRxAddr ||| (1 <<< p) := rfl
@[simp] theorem dOpenN_txAddress (p : Nat) : (dOpenN p d c x).txAddress = d.txAddress := rfl
@[simp] theorem dOpenN_aa (p : Nat) : (dOpenN p d c x).aa = d.aa := rfl
@[simp] theorem dOpenN_read (p : Nat) : (dOpenN p d c x).pipe0ReadAddr = d.pipe0ReadAddr := rfl

end

theorem mid_after_open {d : Rf24} {c : Radio} (B : Base d c) (haa : c.enAA = 0x3E) (hsaa : d.aa = 0x3E)
    (x0 x1 x2 x3 x4 x5 : Bytes) (l0 : x0.length = 5) (l1 : x1.length = 5) :
    Mid x0 x1 [x2.headD 0, x3.headD 0, x4.headD 0, x5.headD 0] 0x3E (rxD d c x0 x1 x2 x3 x4 x5)
      (rxC c x0 x1 x2 x3 x4 x5) := by
  have t2 : (2 : Nat) ≤ 2 ∧ (2 : Nat) ≤ 5 := by decide
  have t3 : (2 : Nat) ≤ 3 ∧ (3 : Nat) ≤ 5 := by decide
  have t4 : (2 : Nat) ≤ 4 ∧ (4 : Nat) ≤ 5 := by decide
  have t5 : (2 : Nat) ≤ 5 ∧ (5 : Nat) ≤ 5 := by decide
  have e0 : (rxC c x0 x1 x2 x3 x4 x5).rxAddr0 = Radio.overlay c.rxAddr0 x0 := by
    simp only [rxC, cOpenN_rxAddr0 _ _ _ t2.1 t2.2, cOpenN_rxAddr0 _ _ _ t3.1 t3.2, cOpenN_rxAddr0 _ _ _ t4.1 t4.2,
      cOpenN_rxAddr0 _ _ _ t5.1 t5.2, cOpen1_rxAddr0, cOpen0_rxAddr0]
  have e1 : (rxC c x0 x1 x2 x3 x4 x5).rxAddr1 = Radio.overlay c.rxAddr1 x1 := by
    simp only [rxC, cOpenN_rxAddr1 _ _ _ t2.1 t2.2, cOpenN_rxAddr1 _ _ _ t3.1 t3.2, cOpenN_rxAddr1 _ _ _ t4.1 t4.2,
      cOpenN_rxAddr1 _ _ _ t5.1 t5.2, cOpen1_rxAddr1, cOpen0_rxAddr1]
  have eN : (rxC c x0 x1 x2 x3 x4 x5).rxAddrN =
      (((c.rxAddrN.set 0 (x2.headD 0)).set 1 (x3.headD 0)).set 2 (x4.headD 0)).set 3 (x5.headD 0) := by
    simp only [rxC, cOpenN_rxAddrN _ _ _ t2.1 t2.2, cOpenN_rxAddrN _ _ _ t3.1 t3.2, cOpenN_rxAddrN _ _ _ t4.1 t4.2,
      cOpenN_rxAddrN _ _ _ t5.1 t5.2, cOpen1_rxAddrN, cOpen0_rxAddrN]
  have ee4 : (cOpenN 4 (cOpenN 3 (cOpenN 2 (cOpen1 (cOpen0 c x0) x1) x2) x3) x4).enRxAddr =
      (((((c.enRxAddr ||| 1) &&& 0x3F ||| 2) &&& 0x3F ||| 4) &&& 0x3F ||| 8) &&& 0x3F ||| 16) &&& 0x3F := by
    simp only [cOpenN_enRxAddr _ _ _ t2.1 t2.2, cOpenN_enRxAddr _ _ _ t3.1 t3.2, cOpenN_enRxAddr _ _ _ t4.1 t4.2,
      cOpen1_enRxAddr, cOpen0_enRxAddr]
    rfl
  have ee : (rxC c x0 x1 x2 x3 x4 x5).enRxAddr =
      ((((((c.enRxAddr ||| 1) &&& 0x3F ||| 2) &&& 0x3F ||| 4) &&& 0x3F ||| 8) &&& 0x3F ||| 16) &&& 0x3F ||| 32) &&& 0x3F := by
    simp only [rxC]
    rw [cOpenN_enRxAddr _ _ _ t5.1 t5.2, ee4]
    rfl
  have ed : (rxC c x0 x1 x2 x3 x4 x5).dynpd = c.dynpd := by
    simp only [rxC, cOpenN_dynpd _ _ _ t2.1 t2.2, cOpenN_dynpd _ _ _ t3.1 t3.2, cOpenN_dynpd _ _ _ t4.1 t4.2,
      cOpenN_dynpd _ _ _ t5.1 t5.2, cOpen1_dynpd, cOpen0_dynpd]
  have ef : (rxC c x0 x1 x2 x3 x4 x5).feature = c.feature := by
    simp only [rxC, cOpenN_feature _ _ _ t2.1 t2.2, cOpenN_feature _ _ _ t3.1 t3.2, cOpenN_feature _ _ _ t4.1 t4.2,
      cOpenN_feature _ _ _ t5.1 t5.2, cOpen1_feature, cOpen0_feature]
  have ew : (rxC c x0 x1 x2 x3 x4 x5).setupAw = c.setupAw := by
    simp only [rxC, cOpenN_setupAw _ _ _ t2.1 t2.2, cOpenN_setupAw _ _ _ t3.1 t3.2, cOpenN_setupAw _ _ _ t4.1 t4.2,
      cOpenN_setupAw _ _ _ t5.1 t5.2, cOpen1_setupAw, cOpen0_setupAw]
  have ea : (rxC c x0 x1 x2 x3 x4 x5).enAA = c.enAA := by
    simp only [rxC, cOpenN_enAA _ _ _ t2.1 t2.2, cOpenN_enAA _ _ _ t3.1 t3.2, cOpenN_enAA _ _ _ t4.1 t4.2,
      cOpenN_enAA _ _ _ t5.1 t5.2, cOpen1_enAA, cOpen0_enAA]
  have d0 : (rxD d c x0 x1 x2 x3 x4 x5).pipes0 = x0 ++ d.pipes0.drop x0.length := by
    simp only [rxD, dOpenN_pipes0, dOpen1_pipes0, dOpen0_pipes0]
  have d1 : (rxD d c x0 x1 x2 x3 x4 x5).pipes1 = x1 ++ d.pipes1.drop x1.length := by
    simp only [rxD, dOpenN_pipes1, dOpen1_pipes1, dOpen0_pipes1]
  have dop : (rxD d c x0 x1 x2 x3 x4 x5).openPipes =
      (((((c.enRxAddr ||| 1) &&& 0x3F ||| 2) &&& 0x3F ||| 4) &&& 0x3F ||| 8) &&& 0x3F ||| 16) &&& 0x3F ||| 32 := by
    simp only [rxD, dOpenN_openPipes]
    rw [ee4]
    rfl
  have dt : (rxD d c x0 x1 x2 x3 x4 x5).txAddress = d.txAddress := by
    simp only [rxD, dOpenN_txAddress, dOpen1_txAddress, dOpen0_txAddress]
  have da : (rxD d c x0 x1 x2 x3 x4 x5).aa = d.aa := by
    simp only [rxD, dOpenN_aa, dOpen1_aa, dOpen0_aa]
  have dr : (rxD d c x0 x1 x2 x3 x4 x5).pipe0ReadAddr = some x0 := by
    simp only [rxD, dOpenN_read, dOpen1_read, dOpen0_read]
  have six := six_bits c.enRxAddr
  have hop : (((((c.enRxAddr ||| 1) &&& 0x3F ||| 2) &&& 0x3F ||| 4) &&& 0x3F ||| 8) &&& 0x3F ||| 16) &&& 0x3F ||| 32 = 0x3F := by
    have hx : ∀ y : Nat, y &&& 0x3F ||| 32 = (y &&& 0x3F ||| 32) &&& 0x3F := by
      intro y
      rw [Nat.and_or_distrib_right, Nat.and_assoc]
      rfl
    rw [hx, six]
  exact
    { dyn := by rw [ed]; exact B.dyn
      feat := by rw [ef]; exact B.feat
      r0len := by rw [e0, overlay5' _ _ l0 B.r0len]; exact l0
      r1len := by rw [e1, overlay5' _ _ l1 B.r1len]; exact l1
      rNlen := by rw [eN, set4 _ _ _ _ _ B.rNlen]; rfl
      rxenR := by rw [ee]; exact and63_lt _
      sh0 := by rw [d0, e0, overlay5' _ _ l0 B.r0len, append_drop5 _ _ l0 (by rw [B.sh0]; exact B.r0len)]
      p1len := by rw [d1, append_drop5 _ _ l1 B.p1len]; exact l1
      openR := by rw [dop, hop]; decide
      txlen := by rw [dt]; exact B.txlen
      aw := by rw [ew]; exact B.aw
      rxen := by rw [ee]; exact six
      a1 := by rw [e1]; exact overlay5' _ _ l1 B.r1len
      aN := by rw [eN]; exact set4 _ _ _ _ _ B.rNlen
      aa := by rw [ea]; exact haa
      s_aa := by rw [da]; exact hsaa
      s_read := dr
      p0len := l0
      s_open := by rw [dop, hop] }

end Nrf

namespace Nrf.Net
open Nrf Rf24

/-! ### a driver step seen from the session, carrying the `At` chain -/

theorem n_at {α} {m : DrvM α} {E : PyErr → NetState → Prop} {Q : α → NetState → Prop} {s : NetState}
    {ds0 : DrvState} {d d' : Rf24} {c c' : Radio} (hcur : s.cur < s.nodes.length) (h : At ds0 s.drv d c)
    (spec : ∀ (Ed : PyErr → DrvState → Prop) (Qd : α → DrvState → Prop),
      (∀ a ds', At ds0 ds' d' c' → Qd a ds') → dwp Ed m Qd s.drv)
    (hQ : ∀ a s', s'.cur < s'.nodes.length → At ds0 s'.drv d' c' → NFr s s' → Q a s') :
    wp E (liftRf m) Q s := by
  rw [wp_liftRf]
  apply spec
  intro a ds' hds'
  apply hQ
  · simpa using hcur
  · rw [NetState.drv_putDrv s ds' hcur]; exact hds'
  · refine NFr.putDrv s ds' hcur ?_
    have h1 := hds'.fr.rid
    have h2 := h.fr.rid
    show ds'.d.rid = s.drv.d.rid
    rw [h1, h2]

/-- the radio part of `_begin(n_addr)`; `hpy` says what a `_pipe_address` call means for the
    exception predicate at hand (total: the six addresses exist; partial: nothing to show) -/
theorem n_beginRadio {E : PyErr → NetState → Prop} {Q : Unit → NetState → Prop} {s : NetState}
    (nAddr : Nat) (hcur : s.cur < s.nodes.length) (hw : s.drv.Wf) (hb : Base s.drv.d s.drv.cfg)
    (hpy : ∀ (i : Nat), i ≤ 5 → ∀ (s' : NetState) (Q' : Bytes → NetState → Prop), s'.node.cfg = s.node.cfg →
      (∀ x, pipeAddress s.node.cfg nAddr i = .ok x → Q' x s') →
      wp E (liftPy (pipeAddress s'.node.cfg nAddr i)) Q' s')
    (hbytes : ∀ i, 2 ≤ i → i ≤ 5 → ∀ x, pipeAddress s.node.cfg nAddr i = .ok x → x.headD 0 ≤ 255)
    (hQ : ∀ x0 x1 x2 x3 x4 x5 s',
      pipeAddress s.node.cfg nAddr 0 = .ok x0 → pipeAddress s.node.cfg nAddr 1 = .ok x1 →
      pipeAddress s.node.cfg nAddr 2 = .ok x2 → pipeAddress s.node.cfg nAddr 3 = .ok x3 →
      pipeAddress s.node.cfg nAddr 4 = .ok x4 → pipeAddress s.node.cfg nAddr 5 = .ok x5 →
      s'.LstS x0 x1 [x2.headD 0, x3.headD 0, x4.headD 0, x5.headD 0] 0x3E → NFr s s' → Q () s') :
    wp E (beginRadio nAddr) Q s := by
  have ne : ∀ x : Bytes, x.length = 5 → x ≠ [] := by intro x hx e; rw [e] at hx; simp at hx
  unfold beginRadio
  simp only [wp_bind, wp_pure, pipeAddr, wp_getNode, forIn, List.forIn'_cons, List.forIn'_nil]
  -- listen = False
  apply n_at hcur (At.start s.drv hw) (fun Ed Qd hq => at_setListen_false (At.start s.drv hw) hb.openR (fun s' h' => hq () s' h'))
  intro _ s1 c1 a1 f1
  have B1 := hb.off
  -- auto_ack = 0x3E
  apply n_at c1 a1 (fun Ed Qd hq => at_setAutoAck a1 0x3E (by decide) (fun s' h' => hq () s' h'))
  intro _ s2 c2 a2 f2
  have B2 := B1.setAa 0x3E
  -- set_auto_retries
  apply n_at c2 a2 (fun Ed Qd hq => at_setAutoRetries a2 _ _ (fun s' h' => hq () s' h'))
  intro _ s3 c3 a3 f3
  have B3 := B2.setRetry (ardCode ((250 * ((nAddr % 6 + 1) * 2 + 3) + 250 : Nat) : Int) <<< 4 ||| clampArc 5)
  have F3 : NFr s s3 := (f1.trans f2).trans f3
  obtain ⟨d3, c3', a3, B3, haa3, hsaa3⟩ : ∃ d3 c3', At s.drv s3.drv d3 c3' ∧ Base d3 c3' ∧ c3'.enAA = 0x3E ∧ d3.aa = 0x3E :=
    ⟨_, _, a3, B3, rfl, rfl⟩
  -- open_rx_pipe(0, x0)
  apply hpy 0 (by decide) s3 _ F3.cfg; intro x0 h0
  have l0 := pipeAddress_length _ _ _ _ h0
  apply n_at c3 a3 (fun Ed Qd hq => at_openRxPipe0 a3 x0 (ne _ l0)
    (by rw [l0]; exact Nat.le_of_eq (by rw [B3.sh0, B3.r0len])) B3.rxenR (fun s' h' => hq () s' h'))
  intro _ s4 c4 a4 f4
  have F4 : NFr s s4 := F3.trans f4
  -- open_rx_pipe(1, x1)
  apply hpy 1 (by decide) s4 _ F4.cfg; intro x1 h1
  have l1 := pipeAddress_length _ _ _ _ h1
  apply n_at c4 a4 (fun Ed Qd hq => at_openRxPipe1 a4 x1 (ne _ l1)
    (by rw [l1]; exact Nat.le_of_eq B3.p1len.symm) (and63_lt _) (fun s' h' => hq () s' h'))
  intro _ s5 c5 a5 f5
  have F5 : NFr s s5 := F4.trans f5
  -- open_rx_pipe(2..5, x2..x5)
  apply hpy 2 (by decide) s5 _ F5.cfg; intro x2 h2
  have l2 := pipeAddress_length _ _ _ _ h2
  apply n_at c5 a5 (fun Ed Qd hq => at_openRxPipeN a5 2 (by decide) (by decide) x2 (ne _ l2) (hbytes 2 (by decide) (by decide) x2 h2)
    (and63_lt _) (fun s' h' => hq () s' h'))
  intro _ s6 c6 a6 f6
  have F6 : NFr s s6 := F5.trans f6
  apply hpy 3 (by decide) s6 _ F6.cfg; intro x3 h3
  have l3 := pipeAddress_length _ _ _ _ h3
  apply n_at c6 a6 (fun Ed Qd hq => at_openRxPipeN a6 3 (by decide) (by decide) x3 (ne _ l3) (hbytes 3 (by decide) (by decide) x3 h3)
    (and63_lt _) (fun s' h' => hq () s' h'))
  intro _ s7 c7 a7 f7
  have F7 : NFr s s7 := F6.trans f7
  apply hpy 4 (by decide) s7 _ F7.cfg; intro x4 h4
  have l4 := pipeAddress_length _ _ _ _ h4
  apply n_at c7 a7 (fun Ed Qd hq => at_openRxPipeN a7 4 (by decide) (by decide) x4 (ne _ l4) (hbytes 4 (by decide) (by decide) x4 h4)
    (and63_lt _) (fun s' h' => hq () s' h'))
  intro _ s8 c8 a8 f8
  have F8 : NFr s s8 := F7.trans f8
  apply hpy 5 (by decide) s8 _ F8.cfg; intro x5 h5
  have l5 := pipeAddress_length _ _ _ _ h5
  apply n_at c8 a8 (fun Ed Qd hq => at_openRxPipeN a8 5 (by decide) (by decide) x5 (ne _ l5) (hbytes 5 (by decide) (by decide) x5 h5)
    (and63_lt _) (fun s' h' => hq () s' h'))
  intro _ s9 c9 a9 f9
  have F9 : NFr s s9 := F8.trans f9
  -- what the six calls leave
  have M9 := mid_after_open B3 haa3 hsaa3 x0 x1 x2 x3 x4 x5 l0 l1
  -- listen = True
  have hl9 : x0.length ≤ (rxD d3 c3' x0 x1 x2 x3 x4 x5).pipes0.length := by
    rw [M9.sh0, M9.r0len, l0]; exact Nat.le_refl _
  apply n_at c9 a9 (fun Ed Qd hq => at_setListen_true a9 x0 M9.s_read hl9 (ne _ l0) (fun s' h' => hq () s' h'))
  intro _ s10 c10 a10 f10
  exact hQ x0 x1 x2 x3 x4 x5 s10 h0 h1 h2 h3 h4 h5 ⟨c10, a10.isLst M9.on⟩ (F9.trans f10)

end Nrf.Net
