/-
C05 helper lemmas, part 6: a single-frame message of a type without NETWORK_ACK travelling along a
tree route in the closed system (`runOthers`): induction over the route.
-/
import NrfProofs.C05Net

namespace Nrf.Net
open Nrf Nrf.Spec Nrf.Proofs Nrf.Props.C04

/-! ### route arithmetic -/

theorem dist_eq_zero {x d : List Nat} (h : dist x d = 0) : x = d := by
  have := hops_dist x d
  rw [h] at this
  exact this

theorem hops_nextHop (k : Nat) (x d : List Nat) : hops k (nextHopSpec x d) d = hops (k + 1) x d := rfl

theorem dist_nextHop {x d : List Nat} (hxd : x ≠ d) : dist (nextHopSpec x d) d + 1 = dist x d := by
  have hpos : 0 < dist x d := by
    rcases Nat.eq_zero_or_pos (dist x d) with h | h
    · exact absurd (dist_eq_zero h) hxd
    · exact h
  have h1 : dist x d ≤ dist (nextHopSpec x d) d + 1 := by
    have := hops_dist (nextHopSpec x d) d
    rw [hops_nextHop] at this
    by_cases hlt : dist (nextHopSpec x d) d + 1 < dist x d
    · exact absurd this (hops_ne_before hlt)
    · omega
  have h2 : dist (nextHopSpec x d) d ≤ dist x d - 1 := by
    have : hops (dist x d - 1) (nextHopSpec x d) d = d := by
      rw [hops_nextHop, Nat.sub_add_cancel hpos]; exact hops_dist x d
    by_cases hlt : dist x d - 1 < dist (nextHopSpec x d) d
    · exact absurd this (hops_ne_before hlt)
    · omega
  omega

/-- a node address is never the multicast address `0o100` -/
theorem val_ne_multicast {d : List Nat} (hd : IsNode d) : val d ≠ NETWORK_MULTICAST_ADDR := by
  intro h
  have : val d = val [0, 0, 1] := h
  cases d with
  | nil => simp [val] at this
  | cons a r =>
    have ha := hd.1 a (List.mem_cons_self)
    simp only [val] at this
    omega

/-! ### what the invariant looks at -/

/-- `s'` is the same network as `s` as far as the static attributes, the radio assignment and the
    radios that belong to no node go -/
structure Same (s s' : NetState) : Prop where
  closed : s'.closed = s.closed
  len : s'.nodes.length = s.nodes.length
  stat : ∀ i, (s'.nodeAt i).a = (s.nodeAt i).a ∧ (s'.nodeAt i).cfg = (s.nodeAt i).cfg ∧
    (s'.nodeAt i).arrivals = (s.nodeAt i).arrivals ∧ (s'.nodeAt i).kind = (s.nodeAt i).kind ∧
    s'.ridAt i = s.ridAt i
  rlen : s'.w.radios.length = s.w.radios.length
  spare : ∀ r, (∀ i, i < s.nodes.length → s.ridAt i ≠ r) → s'.w.radio r = s.w.radio r

theorem Same.refl (s : NetState) : Same s s := ⟨rfl, rfl, fun _ => ⟨rfl, rfl, rfl, rfl, rfl⟩, rfl, fun _ _ => rfl⟩

theorem Same.trans {a b c : NetState} (h1 : Same a b) (h2 : Same b c) : Same a c := by
  refine ⟨h2.closed.trans h1.closed, h2.len.trans h1.len, ?_, h2.rlen.trans h1.rlen, ?_⟩
  · intro i
    obtain ⟨x1, x2, x3, x4, x5⟩ := h1.stat i
    obtain ⟨y1, y2, y3, y4, y5⟩ := h2.stat i
    exact ⟨y1.trans x1, y2.trans x2, y3.trans x3, y4.trans x4, y5.trans x5⟩
  · intro r hr
    rw [h2.spare r (fun i hi => by rw [(h1.stat i).2.2.2.2]; exact hr i (by rw [← h1.len]; exact hi)), h1.spare r hr]

/-- the invariant carries over to a state that is the same network, has an empty fault script and
    in which every node radio is still in its listening state -/
theorem NetOk.of_same {cfg : AddrCfg} {L : LinkCfg} {tree : Nat → List Nat} {s s' : NetState}
    (h : NetOk cfg L tree s) (hs : Same s s') (hf : s'.w.faults = [])
    (hr : ∀ i, i < s.nodes.length → ∀ P, beginPipes cfg (val (tree i)) = .ok P →
      NodeRadio L P true true 0x3E (s.nodeAt i).rf (s.radioAt i) →
      NodeRadio L P true true 0x3E (s'.nodeAt i).rf (s'.radioAt i)) : NetOk cfg L tree s' := by
  refine ⟨hs.closed.trans h.closed, hf, ?_, ?_, ?_, ?_⟩
  · intro i hi
    rw [hs.len] at hi
    obtain ⟨x1, x2, x3, x4, x5⟩ := hs.stat i
    obtain ⟨y1, y2, y3, y4, y5, y6⟩ := h.node i hi
    exact ⟨y1, x1.trans y2, x2.trans y3, x3.trans y4, by rw [x4]; exact y5, by rw [x5, hs.rlen]; exact y6⟩
  · intro i j hi hj hij
    rw [hs.len] at hi hj
    rw [(hs.stat i).2.2.2.2, (hs.stat j).2.2.2.2]
    exact h.inj i j hi hj hij
  · intro i hi
    rw [hs.len] at hi
    obtain ⟨P, hP, hN⟩ := h.radio i hi
    exact ⟨P, hP, hr i hi P hP hN⟩
  · intro r k hrk
    have : ∀ i, i < s.nodes.length → s.ridAt i ≠ r := by
      intro i hi
      rw [← (hs.stat i).2.2.2.2]
      exact hrk i (by rw [hs.len]; exact hi)
    rw [hs.spare r this]
    exact h.spare r k this

/-! ### the state transformers -/

theorem Same.setNode (s : NetState) (g : Node → Node)
    (hg : ∀ n, (g n).a = n.a ∧ (g n).cfg = n.cfg ∧ (g n).arrivals = n.arrivals ∧ (g n).kind = n.kind ∧ (g n).rf = n.rf) :
    Same s (s.setNode g) := by
  refine ⟨rfl, by simp, ?_, rfl, fun _ _ => rfl⟩
  intro i
  unfold NetState.ridAt
  rw [nodeAt_setNode]
  split
  · obtain ⟨h1, h2, h3, h4, h5⟩ := hg (s.nodeAt i)
    exact ⟨h1, h2, h3, h4, by rw [h5]⟩
  · exact ⟨rfl, rfl, rfl, rfl, rfl⟩

theorem Same.withFrame (s : NetState) (fb : Frame) : Same s (s.withFrame fb) :=
  Same.setNode s _ fun _ => ⟨rfl, rfl, rfl, rfl, rfl⟩

theorem Same.enqueued (s : NetState) (fb : Frame) : Same s (s.enqueued fb) := by
  have h := Same.setNode s (fun n => n.pushFrame fb) fun _ => ⟨rfl, rfl, rfl, rfl, rfl⟩
  exact ⟨h.closed, h.len, h.stat, h.rlen, h.spare⟩

theorem radioAt_withFrame (s : NetState) (fb : Frame) (i : Nat) : (s.withFrame fb).radioAt i = s.radioAt i :=
  radioAt_setNode s (fun n => { n with frameBuf := fb }) (fun _ => rfl) i

theorem radioAt_enqueued (s : NetState) (fb : Frame) (i : Nat) : (s.enqueued fb).radioAt i = s.radioAt i :=
  radioAt_setNode s (fun n => n.pushFrame fb) (fun _ => rfl) i

theorem rf_withFrame (s : NetState) (fb : Frame) (i : Nat) : ((s.withFrame fb).nodeAt i).rf = (s.nodeAt i).rf := by
  unfold NetState.withFrame; rw [nodeAt_setNode]; split <;> rfl

theorem rf_enqueued (s : NetState) (fb : Frame) (i : Nat) : ((s.enqueued fb).nodeAt i).rf = (s.nodeAt i).rf := by
  show ((NetState.setNode _ _).nodeAt i).rf = _
  rw [nodeAt_setNode]; split <;> rfl

/-- an `RF24` call of the running node that keeps the radio assignment -/
theorem Same.afterRf (s : NetState) (D : DrvState) (hcur : s.cur < s.nodes.length)
    (hrid : D.d.rid = s.node.rf.rid) (hlen : D.w.radios.length = s.w.radios.length)
    (hoth : ∀ r, (∀ i, i < s.nodes.length → s.ridAt i ≠ r) → D.w.radio r = s.w.radio r) : Same s (s.afterRf D) := by
  refine ⟨rfl, by simp, ?_, hlen, ?_⟩
  · intro i
    unfold NetState.ridAt
    rw [nodeAt_afterRf]
    split
    · rename_i h
      refine ⟨rfl, rfl, rfl, rfl, ?_⟩
      show D.d.rid = _
      rw [hrid, h.1]; rfl
    · exact ⟨rfl, rfl, rfl, rfl, rfl⟩
  · intro r hr
    exact hoth r hr

theorem radioAt_afterRf_cur (s : NetState) (D : DrvState) (hcur : s.cur < s.nodes.length) :
    (s.afterRf D).radioAt s.cur = D.radio := by
  unfold NetState.radioAt NetState.ridAt
  rw [nodeAt_afterRf, if_pos ⟨rfl, hcur⟩]
  rfl

theorem radioAt_afterRf_ne (s : NetState) (D : DrvState) (i : Nat) (h : i ≠ s.cur) :
    (s.afterRf D).radioAt i = D.w.radio (s.ridAt i) := by
  unfold NetState.radioAt NetState.ridAt
  rw [nodeAt_afterRf_ne s D i h]
  rfl

theorem queue_afterRf (s : NetState) (D : DrvState) (k : Nat) : ((s.afterRf D).nodeAt k).queue = (s.nodeAt k).queue := by
  rw [nodeAt_afterRf]; split <;> rfl

theorem Same.switchTo (s : NetState) (j : Nat) : Same s (s.switchTo j) := by
  refine ⟨rfl, by simp [NetState.switchTo], ?_, rfl, fun _ _ => rfl⟩
  intro i
  unfold NetState.ridAt
  have : (s.switchTo j).nodeAt i = (s.setNode fun n => { n with clock := s.w.clock }).nodeAt i := rfl
  rw [this, nodeAt_setNode]
  split <;> exact ⟨rfl, rfl, rfl, rfl, rfl⟩

theorem Same.switchBack (s : NetState) (me j : Nat) : Same s (s.switchBack me j) := by
  refine ⟨rfl, by simp [NetState.switchBack], ?_, rfl, fun _ _ => rfl⟩
  intro i
  unfold NetState.ridAt
  have : (s.switchBack me j).nodeAt i = (s.nodes.modify j fun n => { n with clock := s.w.clock }).getD i default := rfl
  rw [this]
  unfold NetState.nodeAt
  simp only [List.getD_eq_getElem?_getD, List.getElem?_modify]
  cases s.nodes[i]? with
  | none => exact ⟨rfl, rfl, rfl, rfl, rfl⟩
  | some n =>
    simp only [Option.map_some, Option.getD_some]
    split <;> exact ⟨rfl, rfl, rfl, rfl, rfl⟩

theorem radioAt_switchTo (s : NetState) (j i : Nat) : (s.switchTo j).radioAt i = s.radioAt i := by
  unfold NetState.radioAt
  rw [((Same.switchTo s j).stat i).2.2.2.2]
  rfl

theorem radioAt_switchBack (s : NetState) (me j i : Nat) : (s.switchBack me j).radioAt i = s.radioAt i := by
  unfold NetState.radioAt
  rw [((Same.switchBack s me j).stat i).2.2.2.2]
  rfl

theorem rf_switchTo (s : NetState) (j i : Nat) : ((s.switchTo j).nodeAt i).rf = (s.nodeAt i).rf := by
  have : (s.switchTo j).nodeAt i = (s.setNode fun n => { n with clock := s.w.clock }).nodeAt i := rfl
  rw [this, nodeAt_setNode]
  split <;> rfl

theorem queue_switchTo (s : NetState) (j i : Nat) : ((s.switchTo j).nodeAt i).queue = (s.nodeAt i).queue := by
  have : (s.switchTo j).nodeAt i = (s.setNode fun n => { n with clock := s.w.clock }).nodeAt i := rfl
  rw [this, nodeAt_setNode]
  split <;> rfl

theorem nodeAt_switchBack (s : NetState) (me j i : Nat) :
    ((s.switchBack me j).nodeAt i).rf = (s.nodeAt i).rf ∧ ((s.switchBack me j).nodeAt i).queue = (s.nodeAt i).queue := by
  have : (s.switchBack me j).nodeAt i = (s.nodes.modify j fun n => { n with clock := s.w.clock }).getD i default := rfl
  rw [this]
  unfold NetState.nodeAt
  simp only [List.getD_eq_getElem?_getD, List.getElem?_modify]
  cases s.nodes[i]? with
  | none => exact ⟨rfl, rfl⟩
  | some n =>
    simp only [Option.map_some, Option.getD_some]
    split <;> exact ⟨rfl, rfl⟩

/-! ### scheduling: exactly one node has something to do -/

theorem runOthers_none (s : NetState) : ∀ (n f i : Nat), s.nodes.length - i = n → n < f →
    (∀ k, i ≤ k → k < s.nodes.length → ¬ s.runnable k) → nexec (runOthers f i) s = (.ok (), s) := by
  intro n
  induction n with
  | zero =>
    intro f i hn hf _
    obtain ⟨f, rfl⟩ : ∃ g, f = g + 1 := ⟨f - 1, by omega⟩
    rw [runOthers_step, if_pos (by omega)]
  | succ n ih =>
    intro f i hn hf hnr
    obtain ⟨f, rfl⟩ : ∃ g, f = g + 1 := ⟨f - 1, by omega⟩
    rw [runOthers_step, if_neg (by omega), if_neg (hnr i (Nat.le_refl i) (by omega))]
    exact ih f (i + 1) (by omega) (by omega) (fun k hk hkl => hnr k (by omega) hkl)

/-- `runOthers` when node `j` is the only one with received data waiting: it runs `update()` (with the
    fuel left at that point), and nobody else does anything -/
theorem runOthers_one (g : Nat) (s s2 : NetState) (j : Nat) (ru : Except PyErr Nat)
    (hj : j < s.nodes.length) (hrun : s.runnable j) (hbefore : ∀ k, k < j → ¬ s.runnable k)
    (hu : nexec (nodeUpdate g) (s.switchTo j) = (ru, s2))
    (hlen : s2.nodes.length = s.nodes.length) (hg : s.nodes.length < g)
    (hafter : ∀ k, j < k → k < s.nodes.length → ¬ (s2.switchBack s.cur j).runnable k) :
    nexec (runOthers (g + 1 + j) 0) s = (.ok (), s2.switchBack s.cur j) := by
  have skip : ∀ (n i : Nat), j - i = n → i ≤ j →
      nexec (runOthers (g + 1 + n) i) s = nexec (runOthers (g + 1) j) s := by
    intro n
    induction n with
    | zero => intro i hn hi; have : i = j := by omega
              subst this; rfl
    | succ n ih =>
      intro i hn hi
      rw [show g + 1 + (n + 1) = (g + 1 + n) + 1 from by omega, runOthers_step, if_neg (by omega),
        if_neg (hbefore i (by omega))]
      exact ih (i + 1) (by omega) (by omega)
  rw [skip j 0 (by omega) (by omega), runOthers_step, if_neg (by omega), if_pos hrun, hu]
  have hl : (s2.switchBack s.cur j).nodes.length = s.nodes.length := by
    rw [(Same.switchBack s2 s.cur j).len, hlen]
  exact runOthers_none _ _ g (j + 1) rfl (by rw [hl]; omega)
    (fun k hk hkl => hafter k (by omega) (by rw [← hl]; exact hkl))

/-! ### the frame in transit -/

/-- the node object with another radio object -/
def Node.withRf (n : Node) (d : Rf24) : Node := { n with rf := d }

/-- a single-frame message in wire form, of a type that asks for no NETWORK_ACK, from `o` to `d` -/
structure Transit (fr : Frame) (pk : Bytes) (t : Nat) (o d : List Nat) : Prop where
  wire : wireCopy fr = fr
  ty : fr.header.msgType = .int t
  noack : t ≤ 64
  dst : fr.header.toNode = val d
  src : fr.header.fromNode = val o
  pack : fr.pack = .ok pk
  len : fr.message.length ≤ MAX_FRAG_SIZE
  hd : IsNode d
  ho : IsNode o

theorem Transit.tyMask {fr : Frame} {pk : Bytes} {t : Nat} {o d : List Nat} (T : Transit fr pk t o d) :
    t &&& 0xFF = t ∧ fr.header.ty = t := by
  have h1 : fr.header.ty = t := by simp [Header.ty, T.ty]
  have h2 : (wireCopy fr).header.ty = t &&& 0xFF := by simp [wireCopy, Header.ty, T.ty]
  rw [T.wire, h1] at h2
  exact ⟨h2.symm, h1⟩

/-- the queue of a node accepts the frame: room, and no frame with the same origin, id and type -/
def Accepts (q : NetQueue) (fr : Frame) : Prop :=
  (q.frames.length : Int) < q.maxSize ∧
  ∀ g ∈ q.frames, ¬ (g.header.fromNode = fr.header.fromNode ∧ g.header.frameId = fr.header.frameId ∧
    g.header.ty = fr.header.ty)

/-- the outcome of the journey, as the induction carries it -/
structure Arrived (cfg : AddrCfg) (L : LinkCfg) (tree : Nat → List Nat) (d : List Nat) (fr : Frame)
    (s s' : NetState) : Prop where
  ok : NetOk cfg L tree s'
  cur : s'.cur = s.cur
  active : s'.active = s.active
  same : Same s s'
  fifo : ∀ j, j < s.nodes.length → (s'.radioAt j).rxFifo = []
  queue : ∀ j, j < s.nodes.length →
    (s'.nodeAt j).queue.frames = (s.nodeAt j).queue.frames ++ (if tree j = d then [fr] else [])

/-- **Arrival**: the destination holds the frame in its RX FIFO; its `update()` delivers it. -/
theorem route_base (hc : L3Contracts) (cfg : AddrCfg) (L : LinkCfg) (tree : Nat → List Nat)
    (fr : Frame) (pk : Bytes) (t : Nat) (o d : List Nat) (T : Transit fr pk t o d)
    (s : NetState) (f : Nat) (hok : NetOk cfg L tree s) (hcur : s.cur < s.nodes.length)
    (hd : tree s.cur = d) (p : Nat) (hp : p ≤ 5) (hfifo : (s.radioAt s.cur).rxFifo = [{ pipe := p, data := pk }])
    (hempty : ∀ j, j < s.nodes.length → j ≠ s.cur → (s.radioAt j).rxFifo = [])
    (hacc : Accepts (s.nodeAt s.cur).queue fr) (hf : s.nodes.length + 12 ≤ f) :
    ∃ r s', nexec (nodeUpdate f) s = (.ok r, s') ∧ Arrived cfg L tree d fr s s' := by
  obtain ⟨hn1, hn2, hn3, hn4, hn5, hn6⟩ := hok.node s.cur hcur
  obtain ⟨P, hP, hN⟩ := hok.radio s.cur hcur
  obtain ⟨hm1, hm2⟩ := T.tyMask
  have hq : Quiet s := fun i hi hic _ => hempty i hi hic
  obtain ⟨f', rfl⟩ : ∃ g, f = g + 4 := ⟨f - 4, by omega⟩
  obtain ⟨D1, D2, e, F1, F2, N2, x2⟩ := netUpdate_deliver hc f' s L P p pk fr t hcur hok.closed (by omega) hq
    hn6 hN hn4 hfifo hp T.ty T.pack T.len
    (by rw [T.wire, T.dst]; show _ = (s.nodeAt s.cur).a.addr; rw [hn2, hd]; rfl)
    (by rw [T.wire, T.dst]; exact isValid_val T.hd) (by rw [T.wire, T.src]; exact isValid_val T.ho)
    (by rw [hm1]; unfold MAX_USR_DEF_MSG_TYPE; have := T.noack; omega)
    hacc.1 (by rw [T.wire]; exact hacc.2)
  rw [hm1, T.wire] at e
  generalize hs' : ((((s.afterRf D1).withFrame fr).enqueued fr).afterRf D2) = s' at e
  -- facts about the final state
  have hc1 : (s.afterRf D1).cur < (s.afterRf D1).nodes.length := by simpa using hcur
  have hc2 : ((s.afterRf D1).withFrame fr).cur < ((s.afterRf D1).withFrame fr).nodes.length := by simpa using hcur
  have hc3 : (((s.afterRf D1).withFrame fr).enqueued fr).cur < (((s.afterRf D1).withFrame fr).enqueued fr).nodes.length := by
    simpa using hcur
  have hnode' : s'.node = (Node.pushFrame { s.node with rf := D1.d, frameBuf := fr } fr).withRf D2.d := by
    rw [← hs', afterRf_node _ _ hc3, enqueued_node _ _ hc2, withFrame_node _ _ hc1, afterRf_node _ _ hcur]
    rfl
  have hat : ∀ j, j ≠ s.cur → s'.nodeAt j = s.nodeAt j := by
    intro j hj
    rw [← hs', nodeAt_afterRf_ne _ _ _ (by simpa using hj), nodeAt_enqueued_ne _ _ _ (by simpa using hj),
      nodeAt_withFrame_ne _ _ _ (by simpa using hj), nodeAt_afterRf_ne _ _ _ hj]
  have hcur' : s'.cur = s.cur := by rw [← hs']; rfl
  have hw' : s'.w = D2.w := by rw [← hs']; rfl
  have F02 : DrvFrame s.drv D2 := F1.trans F2
  have hsame : Same s s' := by
    refine ⟨by rw [← hs']; rfl, by rw [← hs']; simp, ?_, by rw [hw', F02.len]; rfl, ?_⟩
    · intro j
      by_cases hj : j = s.cur
      · subst hj
        have : s'.nodeAt s.cur = s'.node := by rw [← hcur']; rfl
        unfold NetState.ridAt
        rw [this, hnode']
        refine ⟨rfl, rfl, rfl, rfl, ?_⟩
        show D2.d.rid = _
        rw [F02.rid]; rfl
      · unfold NetState.ridAt; rw [hat j hj]; exact ⟨rfl, rfl, rfl, rfl, rfl⟩
    · intro r hr
      rw [hw', F02.others r (fun e => hr s.cur hcur e.symm)]; rfl
  have hrad_cur : s'.radioAt s.cur = D2.radio := by
    unfold NetState.radioAt
    rw [(hsame.stat s.cur).2.2.2.2, hw']
    show D2.w.radio s.drv.d.rid = _
    rw [← F02.rid]; rfl
  have hrad_ne : ∀ j, j < s.nodes.length → j ≠ s.cur → s'.radioAt j = s.radioAt j := by
    intro j hj hjc
    unfold NetState.radioAt
    rw [(hsame.stat j).2.2.2.2, hw', F02.others _ (hok.inj j s.cur hj hcur hjc).2]; rfl
  refine ⟨t, s', ?_, ?_, hcur', by rw [← hs']; rfl, hsame, ?_, ?_⟩
  · show nexec (nodeUpdate ((f' + 3) + 1)) s = _
    refine nodeUpdate_plain (f' + 3) s s' t e ?_
    rw [hnode']; exact hn5
  · refine hok.of_same hsame (by rw [hw', F02.faults]; exact hok.faults) ?_
    intro i hi P' hP' hN'
    by_cases hic : i = s.cur
    · subst hic
      have : P' = P := Except.ok.inj (hP'.symm.trans hP)
      subst this
      have : s'.nodeAt s.cur = s'.node := by rw [← hcur']; rfl
      rw [this, hnode', hrad_cur]
      exact N2
    · rw [hat i hic, hrad_ne i hi hic]; exact hN'
  · intro j hj
    by_cases hjc : j = s.cur
    · subst hjc; rw [hrad_cur]; exact x2
    · rw [hrad_ne j hj hjc]; exact hempty j hj hjc
  · intro j hj
    by_cases hjc : j = s.cur
    · subst hjc
      have : s'.nodeAt s.cur = s'.node := by rw [← hcur']; rfl
      rw [this, hnode', if_pos hd]
      rfl
    · rw [hat j hjc, if_neg (fun e => (hok.inj j s.cur hj hcur hjc).1 (e.trans hd.symm))]
      simp

theorem dist_self (d : List Nat) : dist d d = 0 := by
  unfold dist
  rw [lcp_of_prefix (List.prefix_refl d)]
  omega

/-- a node holds the frame, `n` hops from its destination; the rest of the route is idle -/
structure Holding (cfg : AddrCfg) (L : LinkCfg) (tree : Nat → List Nat) (d : List Nat) (fr : Frame)
    (pk : Bytes) (n : Nat) (s : NetState) : Prop where
  ok : NetOk cfg L tree s
  cur : s.cur < s.nodes.length
  act : s.cur ∈ s.active
  dist : dist (tree s.cur) d = n
  ahead : ∀ k, 1 ≤ k → k ≤ n → ∃ j, j < s.nodes.length ∧ tree j = hops k (tree s.cur) d ∧ j ∉ s.active ∧
    NotDup (s.radioAt j) pk
  fifo : ∃ p, p ≤ 5 ∧ (s.radioAt s.cur).rxFifo = [{ pipe := p, data := pk }]
  empty : ∀ j, j < s.nodes.length → j ≠ s.cur → (s.radioAt j).rxFifo = []
  acc : ∀ j, j < s.nodes.length → tree j = d → Accepts (s.nodeAt j).queue fr

/-- **Forwarding**: a router holds the frame `n + 1` hops from its destination; its `update()` forwards
    it one hop, lets the next node run (`runOthers`, induction hypothesis), and returns. -/
theorem route_step (hc : L3Contracts) (cfg : AddrCfg) (hcfg : CfgOk cfg) (L : LinkCfg) (tree : Nat → List Nat)
    (fr : Frame) (pk : Bytes) (t : Nat) (o d : List Nat) (T : Transit fr pk t o d)
    (hndef : ∀ i, val (tree i) ≠ NETWORK_DEFAULT_ADDR) (n : Nat)
    (IH : ∀ (s : NetState) (f : Nat), Holding cfg L tree d fr pk n s → (n + 1) * (s.nodes.length + 12) ≤ f →
      ∃ r s', nexec (nodeUpdate f) s = (.ok r, s') ∧ Arrived cfg L tree d fr s s')
    (s : NetState) (f : Nat) (H : Holding cfg L tree d fr pk (n + 1) s)
    (hf : (n + 2) * (s.nodes.length + 12) ≤ f) :
    ∃ r s', nexec (nodeUpdate f) s = (.ok r, s') ∧ Arrived cfg L tree d fr s s' := by
  obtain ⟨hok, hcur, hact, hdist, hahead, ⟨p, hp, hfifo⟩, hempty, hacc⟩ := H
  generalize hi : s.cur = i at *
  generalize hx : tree i = x at *
  obtain ⟨hn1, hn2, hn3, hn4, hn5, hn6⟩ := hok.node i hcur
  rw [hx] at hn1 hn2
  obtain ⟨P, hP, hN⟩ := hok.radio i hcur
  rw [hx] at hP
  obtain ⟨hm1, hm2⟩ := T.tyMask
  have hxd : x ≠ d := by
    intro e; rw [e, dist_self] at hdist; omega
  -- the next hop
  obtain ⟨j, hj, htj, hja, hjl⟩ := hahead 1 (by omega) (by omega)
  have hy : hops 1 x d = nextHopSpec x d := rfl
  rw [hy] at htj
  have hny : IsNode (nextHopSpec x d) := isNode_nextHop hn1 T.hd
  have hji : j ≠ i := by
    intro e; rw [e, hx] at htj; exact nextHop_ne_self hxd htj.symm
  obtain ⟨Pj, hPj, hNj⟩ := hok.radio j hj
  rw [htj] at hPj
  obtain ⟨hp1, hp5⟩ : 1 ≤ hopPipe x d ∧ hopPipe x d ≤ 5 := by
    have := C04_listens cfg hcfg x d hn1 T.hd hxd TX_ROUTED (Or.inr rfl)
    exact ⟨this.1, this.2.1⟩
  obtain ⟨A, hA1, hA2, hA3⟩ := listen_addrs cfg hcfg _ hny Pj hPj (hopPipe x d) hp1 hp5
  have hprod : (n + 2) * (s.nodes.length + 12) = (n + 1) * (s.nodes.length + 12) + (s.nodes.length + 12) :=
    Nat.succ_mul (n + 1) _
  have hge : s.nodes.length + 12 ≤ (n + 1) * (s.nodes.length + 12) := Nat.le_mul_of_pos_left _ (by omega)
  have hlenb : s.nodes.length + 12 ≤ f := by omega
  -- fuel
  obtain ⟨f5, rfl⟩ : ∃ g, f = g + 6 + j := ⟨f - 6 - j, by omega⟩
  have hq : Quiet s := fun k hk hkc _ => hempty k hk (by rw [hi] at hkc; exact hkc)
  have hnode : s.node = s.nodeAt i := by rw [← hi]; rfl
  have hdrv_rad : s.drv.radio = s.radioAt i := by rw [← hi]; rfl
  -- 1. the read
  obtain ⟨D1, e1, F1, N1, x1⟩ := rfRead_head hc (f5 + 3 + j) s L P true true 0x3E (by rw [hi]; exact hcur)
    hok.closed (by omega) hq (by unfold DrvState.Wf; show s.node.rf.rid < s.w.radios.length; rw [hnode]; exact hn6)
    (by rw [hnode, hdrv_rad]; exact hN)
    (by rw [hnode]; exact hn4)
    (by
      intro e he
      rw [hdrv_rad, hfifo] at he
      simp only [List.mem_singleton] at he
      subst he
      have := pack_length T.pack
      have := T.len
      unfold MAX_FRAG_SIZE at *
      exact ⟨hp, by simp only []; omega, by simp only []; omega⟩)
  rw [hdrv_rad, hfifo] at e1 x1
  simp only [List.head?_cons, Option.map_some, List.tail_cons] at e1 x1
  generalize hs1 : s.afterRf D1 = s1 at e1
  have hs1c : s1.cur = i := by rw [← hs1]; exact hi
  have hs1l : s1.nodes.length = s.nodes.length := by rw [← hs1]; simp
  have hs1n : s1.node = { s.nodeAt i with rf := D1.d } := by
    rw [← hs1, afterRf_node s D1 (by rw [hi]; exact hcur), hnode]
  have hs1at : ∀ k, k ≠ i → s1.nodeAt k = s.nodeAt k := by
    intro k hk; rw [← hs1, nodeAt_afterRf_ne s D1 k (by rw [hi]; exact hk)]
  have hs1w : s1.w = D1.w := by rw [← hs1]; rfl
  -- 2. dispatch: forward
  have hun : s1.node.frameBuf.unpack pk = (fr, true) := by
    have := unpack_of_pack fr s1.node.frameBuf t T.ty pk T.pack
    rw [T.wire] at this; exact this
  have hs2c : (s1.withFrame fr).cur < (s1.withFrame fr).nodes.length := by
    simp; rw [hs1c, hs1l]; exact hcur
  have hs2n : (s1.withFrame fr).node = { s.nodeAt i with rf := D1.d, frameBuf := fr } := by
    rw [withFrame_node _ _ (by rw [hs1c, hs1l]; exact hcur), hs1n]
  have hto : fr.header.toNode ≠ s1.node.a.addr := by
    rw [hs1n, T.dst]
    show val d ≠ (s.nodeAt i).a.addr
    rw [hn2]
    exact fun e => hxd (val_inj hn1.1 T.hd.1 e.symm)
  have step1 : nexec (netUpdate (f5 + 5 + j) 0) s =
      match nexec (nodeWrite (f5 + 3 + j) fr.header.toNode TX_ROUTED) (s1.withFrame fr) with
      | (.ok _, s3) => nexec (netUpdate (f5 + 4 + j) 0) s3
      | (.error e, s3) => (.error e, s3) := by
    rw [show f5 + 5 + j = (f5 + 4 + j) + 1 from by omega, netUpdate_step,
      show f5 + 4 + j = (f5 + 3 + j) + 1 from by omega, e1]
    simp only [hun, T.dst, T.src, isValid_val T.hd, isValid_val T.ho, Bool.not_true, Bool.or_self,
      Bool.false_eq_true, if_false]
    rw [T.dst] at hto
    simp only [if_neg hto]
    rw [handleOther_forward (f5 + 3 + j) _ _
      (by rw [hs2n]; right; show fr.header.toNode ≠ _; rw [T.dst]; exact val_ne_multicast T.hd)
      (by rw [hs2n]; show (s.nodeAt i).a.addr ≠ _; rw [hn2]; have := hndef i; rw [hx] at this; exact this),
      hs2n]
    simp only [T.dst]
    rcases nexec (nodeWrite (f5 + 3 + j) (val d) TX_ROUTED) (s1.withFrame fr) with ⟨r, s3⟩
    cases r <;> rfl
  -- 3. the hop
  generalize hs2 : s1.withFrame fr = s2 at step1 hs2c hs2n
  have hs2cur : s2.cur = i := by rw [← hs2]; exact hs1c
  have hs2l : s2.nodes.length = s.nodes.length := by rw [← hs2]; simp; exact hs1l
  have hs2w : s2.w = D1.w := by rw [← hs2]; exact hs1w
  have hs2at : ∀ k, k ≠ i → s2.nodeAt k = s.nodeAt k := by
    intro k hk; rw [← hs2, nodeAt_withFrame_ne _ _ _ (by rw [hs1c]; exact hk), hs1at k hk]
  have hs2rid : ∀ k, s2.ridAt k = s.ridAt k := by
    intro k
    by_cases hk : k = i
    · subst hk
      have : s2.nodeAt k = s2.node := by rw [← hs2cur]; rfl
      unfold NetState.ridAt
      rw [this, hs2n]
      show D1.d.rid = _
      rw [F1.rid]; rw [← hi]; rfl
    · unfold NetState.ridAt; rw [hs2at k hk]
  have hridi : s.ridAt i = s.drv.d.rid := by rw [← hi]; rfl
  have hs2rad : ∀ k, k < s.nodes.length → k ≠ i → s2.radioAt k = s.radioAt k := by
    intro k hk hki
    unfold NetState.radioAt
    rw [hs2rid, hs2w, F1.others _ (by rw [← hridi]; exact (hok.inj k i hk hcur hki).2)]
    rfl
  have hs2radi : s2.radioAt i = D1.radio := by
    unfold NetState.radioAt
    rw [hs2rid, hs2w, hridi, ← F1.rid]; rfl
  have hs2drv : s2.drv = D1 := by
    unfold NetState.drv; rw [hs2n, hs2w]
  obtain ⟨D, e3, r3, l3, f3, N3, x3, lr3, ⟨pid, hrb⟩, hoth3⟩ := nodeWrite_hop_noack hc (f5 + 1 + j) s2 L P Pj j
    (hopPipe x d) (val d) (val (nextHopSpec x d)) (hopPipe x d) TX_ROUTED t A pk
    (by rw [hs2cur, hs2l]; exact hcur) (by rw [← hs2, ← hs1]; exact hok.closed) (by rw [hs2l]; omega)
    (by
      intro k hk hkc hka
      rw [hs2cur] at hkc; rw [hs2l] at hk
      rw [hs2rad k hk hkc]; exact hempty k hk hkc)
    (by rw [hs2drv]; exact F1.wf (by unfold DrvState.Wf; show s.node.rf.rid < s.w.radios.length; rw [hnode]; exact hn6))
    (by rw [hs2n, hs2drv]; exact N1)
    (by rw [hs2l]; exact hj) (by rw [hs2cur]; exact hji)
    (by rw [← hs2, ← hs1]; exact hja)
    (by
      intro k hk hkc
      rw [hs2rid, hs2rid, hs2cur]
      rw [hs2l] at hk; rw [hs2cur] at hkc
      exact (hok.inj k i hk hcur hkc).2)
    (by rw [hs2at j hji, hs2rad j hj hji]; exact hNj)
    (by rw [hs2n]; show pipeAddress (s.nodeAt i).cfg _ _ = _; rw [hn3]; exact hA1)
    hA2 hp1 hp5 hA3 (by rw [hs2rad j hj hji]; exact hjl)
    (by
      intro r pid hri hrj
      rw [hs2rid, hs2cur] at hri; rw [hs2rid] at hrj
      rw [hs2w, F1.others r (by rw [← hridi]; exact hri)]
      exact hok.hothers (i := i) hcfg hj (by rw [htj]; exact hPj) hp1 hp5 hA2 pk r pid hri hrj)
    (by rw [hs2w, F1.faults]; exact hok.faults)
    (by rw [hs2n]; exact T.len) (by rw [hs2n]; exact T.pack)
    (by
      rw [hs2n]; show _ ≠ (s.nodeAt i).a.addr; rw [hn2]
      exact fun e => nextHop_ne_self hxd (val_inj hny.1 hn1.1 e))
    (by rw [hs2n]; exact T.ty)
    (by
      rw [hs2n]; show logi2phys (s.nodeAt i).a _ _ = _
      rw [hn2, l2p_tree hn1 T.hd (Or.inr rfl)])
    (by have := T.noack; omega)
  rw [T.dst, show f5 + 3 + j = (f5 + 1 + j) + 2 from by omega, e3] at step1
  simp only [] at step1
  have hrb' : D.w.radio (s.ridAt j) = (s.radioAt j).withRx [{ pipe := hopPipe x d, data := pk }]
      { pid := pid, addr := A, data := pk } := by
    rw [hs2rid j, hs2rad j hj hji, hempty j hj hji] at hrb
    rw [hrb]; rfl
  have hoth3' : ∀ r, r ≠ s.ridAt i → r ≠ s.ridAt j → D.w.radio r = s.w.radio r := by
    intro r hri hrj
    rw [hoth3 r (by rw [hs2rid, hs2cur]; exact hri) (by rw [hs2rid]; exact hrj), hs2w,
      F1.others r (by rw [← hridi]; exact hri)]
    rfl
  -- the state after the hop
  generalize hs3 : s2.afterRf D = s3 at step1
  have hs3c : s3.cur = i := by rw [← hs3]; exact hs2cur
  have hs3a : s3.active = s.active := by rw [← hs3, ← hs2, ← hs1]; rfl
  have hs3l : s3.nodes.length = s.nodes.length := by rw [← hs3]; simp; exact hs2l
  have hs3w : s3.w = D.w := by rw [← hs3]; rfl
  have hs3cl : s3.closed = true := by rw [← hs3, ← hs2, ← hs1]; exact hok.closed
  have hs3n : s3.node = { s.nodeAt i with rf := D.d, frameBuf := fr } := by
    rw [← hs3, afterRf_node _ _ (by rw [hs2cur, hs2l]; exact hcur), hs2n]
  have hs3at : ∀ k, k ≠ i → s3.nodeAt k = s.nodeAt k := by
    intro k hk; rw [← hs3, nodeAt_afterRf_ne _ _ _ (by rw [hs2cur]; exact hk), hs2at k hk]
  have hs3ati : s3.nodeAt i = s3.node := by rw [← hs3c]; rfl
  have hs3rid : ∀ k, s3.ridAt k = s.ridAt k := by
    intro k
    by_cases hk : k = i
    · subst hk
      unfold NetState.ridAt
      rw [hs3ati, hs3n]
      show D.d.rid = _
      rw [r3, hs2n]
      show D1.d.rid = _
      rw [F1.rid]
      exact hridi.symm
    · unfold NetState.ridAt; rw [hs3at k hk]
  have hs3radi : s3.radioAt i = D.radio := by
    unfold NetState.radioAt
    rw [hs3rid, hs3w]
    show D.w.radio (s.ridAt i) = D.w.radio D.d.rid
    rw [r3, hs2n]
    show _ = D.w.radio D1.d.rid
    rw [F1.rid, hridi]
  have hs3radj : s3.radioAt j = (s.radioAt j).withRx [{ pipe := hopPipe x d, data := pk }]
      { pid := pid, addr := A, data := pk } := by
    unfold NetState.radioAt
    rw [hs3rid, hs3w, hrb']
    rfl
  have hs3rad : ∀ k, k < s.nodes.length → k ≠ i → k ≠ j → s3.radioAt k = s.radioAt k := by
    intro k hk hki hkj
    unfold NetState.radioAt
    rw [hs3rid, hs3w, hoth3' _ (hok.inj k i hk hcur hki).2 (hok.inj k j hk hj hkj).2]
  have hDfifo : D.radio.rxFifo = [] := by rw [x3, hs2drv]; exact x1
  -- `s` and `s3` are the same network
  have hsame3 : Same s s3 := by
    rw [← hs3, ← hs2, ← hs1]
    refine (Same.afterRf s D1 (by rw [hi]; exact hcur) F1.rid F1.len
      (fun r hr => F1.others r (by rw [← hridi]; exact (hr i hcur).symm))).trans
      ((Same.withFrame _ fr).trans ?_)
    rw [hs1, hs2]
    exact Same.afterRf s2 D (by rw [hs2cur, hs2l]; exact hcur) r3 (by rw [l3, hs2w])
      (fun r hr => by
        have hri : r ≠ s.ridAt i := by rw [← hs2rid]; exact (hr i (by rw [hs2l]; exact hcur)).symm
        have hrj : r ≠ s.ridAt j := by rw [← hs2rid]; exact (hr j (by rw [hs2l]; exact hj)).symm
        rw [hoth3' r hri hrj, hs2w, F1.others r (by rw [← hridi]; exact hri)]
        rfl)
  -- 4. the next node runs
  generalize hsj : s3.switchTo j = sj
  have hsjc : sj.cur = j := by rw [← hsj]; rfl
  have hsja : sj.active = j :: s.active := by rw [← hsj]; show j :: s3.active = _; rw [hs3a]
  have hsamej : Same s sj := by rw [← hsj]; exact hsame3.trans (Same.switchTo s3 j)
  have hsjl : sj.nodes.length = s.nodes.length := hsamej.len
  have hsjrad : ∀ k, sj.radioAt k = s3.radioAt k := by intro k; rw [← hsj]; exact radioAt_switchTo s3 j k
  have hsjrf : ∀ k, (sj.nodeAt k).rf = (s3.nodeAt k).rf := by intro k; rw [← hsj]; exact rf_switchTo s3 j k
  have hsjq : ∀ k, (sj.nodeAt k).queue = (s.nodeAt k).queue := by
    intro k
    rw [← hsj, queue_switchTo]
    by_cases hk : k = i
    · subst hk; rw [hs3ati, hs3n]
    · rw [hs3at k hk]
  have hdisty : dist (nextHopSpec x d) d = n := by have := dist_nextHop hxd; omega
  have Hj : Holding cfg L tree d fr pk n sj := by
    refine ⟨?_, by rw [hsjc, hsjl]; exact hj, by rw [hsjc, hsja]; exact List.mem_cons_self,
      by rw [hsjc, htj]; exact hdisty, ?_, ⟨hopPipe x d, hp5, by rw [hsjc, hsjrad, hs3radj]; rfl⟩, ?_, ?_⟩
    · refine hok.of_same hsamej (by rw [← hsj]; show s3.w.faults = []; rw [hs3w]; exact f3) ?_
      intro k hk P' hP' hN'
      rw [hsjrf, hsjrad]
      by_cases hki : k = i
      · subst hki
        rw [hx] at hP'
        have : P' = P := Except.ok.inj (hP'.symm.trans hP)
        subst this
        rw [hs3ati, hs3n, hs3radi]; exact N3
      · rw [hs3at k hki]
        by_cases hkj : k = j
        · subst hkj; rw [hs3radj]; exact hN'.withRx _ _ _ hp5
        · rw [hs3rad k hk hki hkj]; exact hN'
    · intro k hk1 hkn
      obtain ⟨j', hj', htj', hja', hjl'⟩ := hahead (k + 1) (by omega) (by omega)
      have hj'j : j' ≠ j := by
        intro e
        rw [e, htj] at htj'
        exact hops_ne_origin (s := nextHopSpec x d) (d := d) (n := k) (by omega) (by omega) htj'.symm
      have hj'i : j' ≠ i := by
        intro e
        rw [e, hx] at htj'
        exact hops_ne_origin (s := x) (d := d) (n := k + 1) (by omega) (by omega) htj'.symm
      refine ⟨j', by rw [hsjl]; exact hj', by rw [hsjc, htj]; exact htj', ?_, ?_⟩
      · rw [hsja]; simp only [List.mem_cons, not_or]; exact ⟨hj'j, hja'⟩
      · rw [hsjrad, hs3rad j' hj' hj'i hj'j]; exact hjl'
    · intro k hk hkj
      rw [hsjl] at hk; rw [hsjc] at hkj
      rw [hsjrad]
      by_cases hki : k = i
      · subst hki; rw [hs3radi]; exact hDfifo
      · rw [hs3rad k hk hki hkj]; exact hempty k hk hki
    · intro k hk htk
      rw [hsjl] at hk
      rw [hsjq]; exact hacc k hk htk
  obtain ⟨rj, sj', ej, Aj⟩ := IH sj (f5 + 1) Hj (by
    rw [hsjl]
    have : (n + 2) * (s.nodes.length + 12) = (n + 1) * (s.nodes.length + 12) + (s.nodes.length + 12) :=
      Nat.succ_mul (n + 1) _
    omega)
  obtain ⟨Aok, Acur, Aact, Asame, Afifo, Aqueue⟩ := Aj
  rw [hsjl] at Afifo Aqueue
  -- 5. back to this node
  generalize hs5 : sj'.switchBack i j = s5
  have hs5c : s5.cur = i := by rw [← hs5]; rfl
  have hs5a : s5.active = s.active := by
    rw [← hs5]; show sj'.active.erase j = _; rw [Aact, hsja, List.erase_cons_head]
  have hsame5 : Same s s5 := by rw [← hs5]; exact (hsamej.trans Asame).trans (Same.switchBack sj' i j)
  have hs5l : s5.nodes.length = s.nodes.length := hsame5.len
  have hs5rad : ∀ k, s5.radioAt k = sj'.radioAt k := by intro k; rw [← hs5]; exact radioAt_switchBack sj' i j k
  have hs5rf : ∀ k, (s5.nodeAt k).rf = (sj'.nodeAt k).rf := by
    intro k; rw [← hs5]; exact (nodeAt_switchBack sj' i j k).1
  have hs5q : ∀ k, (s5.nodeAt k).queue = (sj'.nodeAt k).queue := by
    intro k; rw [← hs5]; exact (nodeAt_switchBack sj' i j k).2
  have hs5w : s5.w.faults = [] ∧ s5.closed = true := by
    rw [← hs5]; exact ⟨Aok.faults, Aok.closed⟩
  have hok5 : NetOk cfg L tree s5 := by
    rw [← hs5]
    refine Aok.of_same (Same.switchBack sj' i j) Aok.faults ?_
    intro k _ P' _ hN'
    rw [(nodeAt_switchBack sj' i j k).1, radioAt_switchBack]; exact hN'
  have hro : nexec (runOthers (f5 + 1 + 1 + j) 0) s3 = (.ok (), s5) := by
    have := runOthers_one (f5 + 1) s3 sj' j (.ok rj) (by rw [hs3l]; exact hj)
      ⟨by rw [hs3c]; exact hji, by rw [hs3a]; simpa using hja,
       by
        show (!(s3.radioAt j).rxFifo.isEmpty) = true
        rw [hs3radj]; rfl,
       by
        show (s3.radioAt j).rxMode = true
        rw [hs3radj]
        exact (hNj.withRx _ _ _ hp5).rxMode⟩
      (by
        intro k hk hrun
        obtain ⟨h1, _, h3, _⟩ := hrun
        rw [hs3c] at h1
        have hkl : k < s.nodes.length := by omega
        have h3' : (!(s3.radioAt k).rxFifo.isEmpty) = true := h3
        rw [hs3rad k hkl h1 (by omega), hempty k hkl h1] at h3'
        simp at h3')
      (by rw [hsj]; exact ej) (by rw [Asame.len, hsjl, hs3l]) (by rw [hs3l]; omega)
      (by
        intro k hk hkl hrun
        obtain ⟨_, _, h3, _⟩ := hrun
        rw [hs3c, hs5] at h3
        have h3' : (!(s5.radioAt k).rxFifo.isEmpty) = true := h3
        rw [hs3l] at hkl
        rw [hs5rad, Afifo k hkl] at h3'
        simp at h3')
    rw [hs3c, hs5] at this
    exact this
  -- 6. the second read: nothing
  have hs5n : s5.node = s5.nodeAt i := by rw [← hs5c]; rfl
  obtain ⟨P5, hP5, hN5⟩ := hok5.radio i (by rw [hs5l]; exact hcur)
  have hs5drad : s5.drv.radio = s5.radioAt i := by rw [← hs5c]; rfl
  obtain ⟨D2, e2, F2, N2, x2⟩ := hc.read s5.drv L P5 true true 0x3E
    (by
      unfold DrvState.Wf
      show s5.node.rf.rid < s5.w.radios.length
      rw [hs5n]; exact (hok5.node i (by rw [hs5l]; exact hcur)).2.2.2.2.2)
    (by rw [hs5drad]; show NodeRadio L P5 true true 0x3E s5.node.rf _; rw [hs5n]; exact hN5)
    (by rw [hs5drad, hs5rad, Afifo i hcur]; simp)
  rw [hs5drad, hs5rad, Afifo i hcur] at e2 x2
  simp only [List.head?_nil, Option.map_none, List.tail_nil] at e2 x2
  have hread : nexec (rfRead (f5 + 3 + j)) s3 = (.ok none, s5.afterRf D2) := by
    rw [show f5 + 3 + j = (f5 + 1 + 1 + j) + 1 from by omega, rfRead.eq_2, nexec_bind,
      deliverDue_nil s3 (by rw [hs3n]; exact hn4)]
    simp only []
    rw [nexec_bind, nexec_get]
    simp only [hs3cl, if_true]
    rw [nexec_bind, hro]
    simp only []
    exact nexec_liftRf_ok _ s5 _ D2 e2
  rw [show f5 + 4 + j = (f5 + 3 + j) + 1 from by omega, netUpdate_step, hread] at step1
  simp only [] at step1
  -- 7. the result
  generalize hs6 : s5.afterRf D2 = s6 at step1
  have hs6c : s6.cur = i := by rw [← hs6]; exact hs5c
  have hsame56 : Same s5 s6 := by
    rw [← hs6]
    exact Same.afterRf s5 D2 (by rw [hs5c, hs5l]; exact hcur) F2.rid F2.len
      (fun r hr => F2.others r (by
        have := hr i (by rw [hs5l]; exact hcur)
        intro e; apply this; rw [e]; rw [← hs5c]; rfl))
  have hsame6 : Same s s6 := hsame5.trans hsame56
  have hs6n : s6.node = { s5.nodeAt i with rf := D2.d } := by
    rw [← hs6, afterRf_node _ _ (by rw [hs5c, hs5l]; exact hcur), hs5n]
  have hs6ati : s6.nodeAt i = s6.node := by rw [← hs6c]; rfl
  have hs6at : ∀ k, k ≠ i → s6.nodeAt k = s5.nodeAt k := by
    intro k hk; rw [← hs6, nodeAt_afterRf_ne _ _ _ (by rw [hs5c]; exact hk)]
  have hs6radi : s6.radioAt i = D2.radio := by
    rw [← hs6, ← hs5c]; exact radioAt_afterRf_cur s5 D2 (by rw [hs5c, hs5l]; exact hcur)
  have hs6rad : ∀ k, k < s.nodes.length → k ≠ i → s6.radioAt k = s5.radioAt k := by
    intro k hk hki
    rw [← hs6, radioAt_afterRf_ne s5 D2 k (by rw [hs5c]; exact hki)]
    have hne : s5.ridAt k ≠ s5.drv.d.rid := by
      have := (hok5.inj k i (by rw [hs5l]; exact hk) (by rw [hs5l]; exact hcur) hki).2
      intro e; apply this; rw [e]; rw [← hs5c]; rfl
    rw [F2.others _ hne]; rfl
  refine ⟨0, s6, ?_, ?_, by rw [hs6c, hi], by rw [← hs6]; exact hs5a, hsame6, ?_, ?_⟩
  · rw [show f5 + 6 + j = (f5 + 5 + j) + 1 from by omega]
    refine nodeUpdate_plain (f5 + 5 + j) s s6 0 step1 ?_
    rw [hs6n]
    show (s5.nodeAt i).kind ≠ _
    rw [(hsame5.stat i).2.2.2.1]; exact hn5
  · refine hok5.of_same hsame56 (by rw [← hs6]; show D2.w.faults = []; rw [F2.faults]; exact hs5w.1) ?_
    intro k hk P' hP' hN'
    rw [hs5l] at hk
    by_cases hki : k = i
    · subst hki
      have : P' = P5 := Except.ok.inj (hP'.symm.trans hP5)
      subst this
      rw [hs6ati, hs6n, hs6radi]; exact N2
    · rw [hs6at k hki, hs6rad k hk hki]; exact hN'
  · intro k hk
    by_cases hki : k = i
    · subst hki; rw [hs6radi]; exact x2
    · rw [hs6rad k hk hki, hs5rad]; exact Afifo k hk
  · intro k hk
    have : (s6.nodeAt k).queue = (sj'.nodeAt k).queue := by
      rw [← hs6, queue_afterRf, hs5q]
    rw [this, Aqueue k hk, hsjq]

/-- **The journey**: whoever holds the frame `n` hops from its destination — with the rest of the
    route present, idle and not having `pk` as the packet accepted last (`NotDup`), the network otherwise quiet — its
    `update()` brings the frame to the destination's queue, exactly once, and leaves the network
    listening and quiet.  Induction over the remaining distance. -/
theorem route_all (hc : L3Contracts) (cfg : AddrCfg) (hcfg : CfgOk cfg) (L : LinkCfg) (tree : Nat → List Nat)
    (fr : Frame) (pk : Bytes) (t : Nat) (o d : List Nat) (T : Transit fr pk t o d)
    (hndef : ∀ i, val (tree i) ≠ NETWORK_DEFAULT_ADDR) :
    ∀ (n : Nat) (s : NetState) (f : Nat), Holding cfg L tree d fr pk n s → (n + 1) * (s.nodes.length + 12) ≤ f →
      ∃ r s', nexec (nodeUpdate f) s = (.ok r, s') ∧ Arrived cfg L tree d fr s s' := by
  intro n
  induction n with
  | zero =>
    intro s f H hf
    obtain ⟨hok, hcur, _, hdist, _, ⟨p, hp, hfifo⟩, hempty, hacc⟩ := H
    have hd : tree s.cur = d := dist_eq_zero hdist
    exact route_base hc cfg L tree fr pk t o d T s f hok hcur hd p hp hfifo hempty (hacc s.cur hcur hd) (by omega)
  | succ n ih =>
    intro s f H hf
    exact route_step hc cfg hcfg L tree fr pk t o d T hndef n ih s f H (by
      rw [show n + 2 = n + 1 + 1 from rfl]; exact hf)

end Nrf.Net
