/-
`_begin` and `_logi_2_phys` in arithmetic form: for an address `a` whose most significant non-zero
octal digit is digit `L-1` (`L ≤ 4`), the three loops of `_begin` terminate with the masks of
level `L`, and `_logi_2_phys` is `%`/`/` by powers of 8.  (Case split on `L`; no enumeration of
addresses.)
-/
import NrfProofs.Addr
import NrfProofs.Bits
namespace Nrf.Proofs
open Nrf.Net Nrf.Spec

/-- the `_mask_inv` of a level-`L` node -/
def maskInvOf (L : Nat) : Nat := (0xFFFF <<< (3 * L)) &&& 0xFFFF

theorem t65535 {a : Nat} (h : a < 65536) : (a &&& 65535 = 0) = (a < 1) := by
  have : a &&& 65535 = a % 65536 := Nat.and_two_pow_sub_one_eq_mod a 16
  rw [this]; apply propext; omega
theorem t65528 {a : Nat} (h : a < 65536) : (a &&& 65528 = 0) = (a < 8) := by
  have : a &&& 65528 = a / 8 % 8192 * 8 := and_mask_shift a 13 3
  rw [this]; apply propext; omega
theorem t65472 {a : Nat} (h : a < 65536) : (a &&& 65472 = 0) = (a < 64) := by
  have : a &&& 65472 = a / 64 % 1024 * 64 := and_mask_shift a 10 6
  rw [this]; apply propext; omega
theorem t65024 {a : Nat} (h : a < 65536) : (a &&& 65024 = 0) = (a < 512) := by
  have : a &&& 65024 = a / 512 % 128 * 512 := and_mask_shift a 7 9
  rw [this]; apply propext; omega
theorem t61440 {a : Nat} (h : a < 65536) : (a &&& 61440 = 0) = (a < 4096) := by
  have : a &&& 61440 = a / 4096 % 16 * 4096 := and_mask_shift a 4 12
  rw [this]; apply propext; omega

theorem and63 (a : Nat) : a &&& 63 = a % 64 := Nat.and_two_pow_sub_one_eq_mod a 6
theorem and511 (a : Nat) : a &&& 511 = a % 512 := Nat.and_two_pow_sub_one_eq_mod a 9
theorem and4095 (a : Nat) : a &&& 4095 = a % 4096 := Nat.and_two_pow_sub_one_eq_mod a 12
theorem and32767 (a : Nat) : a &&& 32767 = a % 32768 := Nat.and_two_pow_sub_one_eq_mod a 15

/-- hypotheses on the numeric address of a level-`L` node -/
structure LevelOf (a L : Nat) : Prop where
  le : L ≤ 4
  lo : L = 0 → a = 0
  hi : 0 < L → 8 ^ (L - 1) ≤ a ∧ a < 8 ^ L

theorem maskInvLoop_num {a L : Nat} (h : LevelOf a L) :
    maskInvLoop BEGIN_FUEL a 0xFFFF 0 = some (maskInvOf L, L) := by
  obtain ⟨hL, hlo, hhi⟩ := h
  have h : L = 0 ∨ L = 1 ∨ L = 2 ∨ L = 3 ∨ L = 4 := by omega
  rcases h with rfl | rfl | rfl | rfl | rfl
  · have := hlo rfl; subst this
    simp [BEGIN_FUEL, maskInvLoop, maskInvOf]
  all_goals
    have := hhi (by omega)
    simp at this
    have ha : a < 65536 := by omega
    have h1 : ¬ a < 1 := by omega
    have h2 : (a < 8) = (8 ^ 1 > a) := by simp
    have h3 : (a < 64) = (8 ^ 2 > a) := by simp
    have h4 : (a < 512) = (8 ^ 3 > a) := by simp
    have h5 : (a < 4096) = (8 ^ 4 > a) := by simp
    simp [BEGIN_FUEL, maskInvLoop, maskInvOf, t65535 ha, t65528 ha, t65472 ha, t65024 ha, t61440 ha, h1]
    grind


theorem maskLoop_num {L : Nat} (hL : L ≤ 4) :
    maskLoop BEGIN_FUEL (maskInvOf L) 0 = some (8 ^ L - 1) := by
  have h : L = 0 ∨ L = 1 ∨ L = 2 ∨ L = 3 ∨ L = 4 := by omega
  rcases h with rfl | rfl | rfl | rfl | rfl <;> decide

theorem parentPipeLoop_num {a L : Nat} (hL : L ≤ 4) :
    parentPipeLoop BEGIN_FUEL ((8 ^ L - 1) >>> 3) a = some (a / 8 ^ (L - 1)) := by
  have h : L = 0 ∨ L = 1 ∨ L = 2 ∨ L = 3 ∨ L = 4 := by omega
  rcases h with rfl | rfl | rfl | rfl | rfl <;>
    simp [BEGIN_FUEL, parentPipeLoop, shr3] <;> omega

theorem parent_num {a L : Nat} (hL : L ≤ 4) :
    a &&& ((8 ^ L - 1) >>> 3) = a % 8 ^ (L - 1) := by
  have h : L = 0 ∨ L = 1 ∨ L = 2 ∨ L = 3 ∨ L = 4 := by omega
  rcases h with rfl | rfl | rfl | rfl | rfl <;> simp [and7, and63, and511] <;> omega

/-- the constants `_begin` derives for a level-`L` address (all three loops terminate) -/
def nodeOf (a L : Nat) : NodeAddr :=
  { addr := a, netLvl := L, mask := 8 ^ L - 1, maskInv := maskInvOf L,
    parent := a % 8 ^ (L - 1), parentPipe := a / 8 ^ (L - 1) }

theorem begin_num {a L : Nat} (h : LevelOf a L) : beginAddr a = some (nodeOf a L) := by
  unfold beginAddr
  rw [maskInvLoop_num h]
  simp only [Option.bind_eq_bind, Option.bind_some, maskLoop_num h.le, parentPipeLoop_num h.le,
    parent_num h.le, nodeOf, Option.pure_def]

theorem u524280 (t : Nat) (h : t < 4096) : (t &&& 524280 = 0) = (t < 8) := by
  have : t &&& 524280 = t / 8 % 65536 * 8 := and_mask_shift t 16 3
  rw [this]; apply propext; omega
theorem u524224 (t : Nat) (h : t < 4096) : (t &&& 524224 = 0) = (t < 64) := by
  have : t &&& 524224 = t / 64 % 8192 * 64 := and_mask_shift t 13 6
  rw [this]; apply propext; omega
theorem u523776 (t : Nat) (h : t < 4096) : (t &&& 523776 = 0) = (t < 512) := by
  have : t &&& 523776 = t / 512 % 1024 * 512 := and_mask_shift t 10 9
  rw [this]; apply propext; omega
theorem u520192 (t : Nat) (h : t < 4096) : (t &&& 520192 = 0) = (t < 4096) := by
  have : t &&& 520192 = t / 4096 % 128 * 4096 := and_mask_shift t 7 12
  rw [this]; apply propext; omega
theorem u491520 (t : Nat) (h : t < 4096) : (t &&& 491520 = 0) = (t < 32768) := by
  have : t &&& 491520 = t / 32768 % 16 * 32768 := and_mask_shift t 4 15
  rw [this]; apply propext; omega

/-- `_logi_2_phys` of a level-`L` node in arithmetic form -/
theorem l2p_num {a L : Nat} (hL : L ≤ 4) (t st : Nat) (ht : t < 4096) :
    logi2phys (nodeOf a L) t st =
      if st > 1 then (t, 0, true)
      else if t % 8 ^ L = a then (t % 8 ^ (L + 1), 5, false)
      else (a % 8 ^ (L - 1), a / 8 ^ (L - 1), false) := by
  unfold logi2phys nodeOf
  simp only [TX_ROUTED, and_pow8_sub_one]
  split
  · rfl
  split
  · have h : L = 0 ∨ L = 1 ∨ L = 2 ∨ L = 3 ∨ L = 4 := by omega
    rcases h with rfl | rfl | rfl | rfl | rfl <;>
      simp [maskInvOf, u524280 t ht, u524224 t ht, u523776 t ht, u520192 t ht, u491520 t ht,
        and7, and63, and511, and4095, and32767] <;> omega
  · rfl

end Nrf.Proofs
