/-
`RF24.__init__` of the lite driver: on a responding plus-variant chip it never raises, leaves the
state `Ok`, `_pipe0_read_addr = None` — i.e. it establishes the invariants the per-call lemmas need.
-/
import NrfProofs.LitePipes

namespace Nrf
open Lite
open Rf24 (b2n)

theorem lite_ok_spi (s : LiteState) (out : Bytes) (h : s.Ok) : (s.spiStep out).Ok = True := eq_true (h.spiStep out)
theorem lite_ok_ce (s : LiteState) (v : Bool) (h : s.Ok) : (s.ceStep v).Ok = True := eq_true (h.ceStep v)
theorem lite_ok_sleep (s : LiteState) (n : Nat) (h : s.Ok) : (s.sleepStep n).Ok = True := eq_true (h.sleepStep n)
theorem lite_ok_p0r (s : LiteState) (p : Option Bytes) (h : s.Ok) :
    ({ d := { rid := s.d.rid, status := s.d.status, pipe0ReadAddr := p }, w := s.w } : LiteState).Ok = True :=
  eq_true (h.modD (fun d => { d with pipe0ReadAddr := p }) rfl)

theorem lite_init_spec (s : LiteState) (h : s.Ok) :
    ∃ s', lexec init s = (.ok (), s') ∧ s'.Ok ∧ s'.d.pipe0ReadAddr = none ∧ s'.d.rid = s.d.rid ∧ s'.P0Inv none := by
  -- the chip answers: CONFIG reads back 0x0E
  have o0 : ({ s with d := { s.d with status := 0 } } : LiteState).Ok := h.modD (fun d => { d with status := 0 }) rfl
  have hrd : (({ s with d := { s.d with status := 0 } } : LiteState).spiStep [0x20 ||| 0, 14]).readVal 0 = 14 := by
    rw [LiteState.read_config, LiteState.spiStep_write_cfg _ 0 14 o0.wf (by decide)]
    simp only [Radio.cfgOf_config_l, Radio.writeReg_config_eq_l]
    decide
  have h14 : ¬ ((14 : Nat) &&& 3 ≠ 2) := by decide
  have h76 : ¬ ¬ ((0 : Int) ≤ 76 ∧ (76 : Int) ≤ 125) := by decide
  have hpl : max 1 (min 32 (32 : Int)) = 32 := by decide
  have hfl : ((b2n true <<< 6 ||| b2n true <<< 5 ||| b2n true <<< 4 : Nat) : Int) = 112 := by decide
  have key : ∀ (res : Except PyErr Unit) (s' : LiteState), lexec init s = (res, s') →
      res = .ok () ∧ s'.Ok ∧ s'.d.pipe0ReadAddr = none ∧ s'.d.rid = s.d.rid := by
    intro res s' hrun
    unfold init setChannel setPayloadLength flushRx flushTx clearStatusFlags at hrun
    simp only [lexec_bind, lexec_modD, lexec_setCE, lexec_regRead, lexec_regCmd, lexec_ite, lexec_pure, h76,
      ↓reduceIte, hpl, hfl,
      lexec_regWrite 0 0x0E _ (by decide) (by decide), lexec_regWrite 3 3 _ (by decide) (by decide),
      lexec_regWrite 6 7 _ (by decide) (by decide), lexec_regWrite 2 0 _ (by decide) (by decide),
      lexec_regWrite 0x1C 0x3F _ (by decide) (by decide), lexec_regWrite 1 0x3F _ (by decide) (by decide),
      lexec_regWrite 0x1D 5 _ (by decide) (by decide), lexec_regWrite 4 0x5F _ (by decide) (by decide),
      lexec_regWrite 5 76 _ (by decide) (by decide), lexec_regWrite 0x11 32 _ (by decide) (by decide),
      lexec_regWrite 0x12 32 _ (by decide) (by decide), lexec_regWrite 0x13 32 _ (by decide) (by decide),
      lexec_regWrite 0x14 32 _ (by decide) (by decide), lexec_regWrite 0x15 32 _ (by decide) (by decide),
      lexec_regWrite 0x16 32 _ (by decide) (by decide), lexec_regWrite 7 112 _ (by decide) (by decide),
      Int.reduceToNat, hrd, h14] at hrun
    obtain ⟨rfl, rfl⟩ := Prod.mk.inj hrun
    refine ⟨rfl, ?_, ?_, ?_⟩
    rotate_left
    · simp only [LiteState.spiStep_p0r, LiteState.ceStep_d, LiteState.sleepStep_d]
    · simp only [LiteState.spiStep_rid, LiteState.ceStep_d, LiteState.sleepStep_d]
    simp (config := { maxDischargeDepth := 64 }) only [lite_ok_spi, lite_ok_ce, lite_ok_sleep, lite_ok_p0r, o0]
  cases hc : lexec init s with
  | mk res s' =>
    obtain ⟨rfl, o, p, r⟩ := key res s' hc
    exact ⟨s', rfl, o, p, r, ⟨o, p, fun hu => by cases hu⟩⟩

end Nrf
