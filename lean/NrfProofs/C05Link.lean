/-
C05 / C13 helper lemmas, part 3: the radio link between two network nodes.

* `NodeRadio` — the state of a network node's radio together with its driver object, as `_begin`
  leaves it and as every `_write` restores it (listening on the node's six addresses), or in the
  transmit role in between.
* `L3Contracts` — what the node layer needs to know about six `RF24` methods, phrased on
  `DrvState` / `World` / `Radio` with the definitions of `Air.lean` (`Radio.receive`,
  `Radio.packetFor`).  The closed-system lemmas take them as a hypothesis; they are **proved** about
  the driver model in `NrfProofs/L3Discharge.lean` (`l3contracts : L3Contracts`, which imports this
  file), and the property files close the theorems with it (`C05_*_closed*`, `C13_live_closed_partial`).
  Executed examples: `tools/contract_tests_c05c13.lean`; the states that made three more conjuncts
  of `NodeRadio` necessary: `tools/l3_counterexamples.lean`.
* pure facts about `Radio.receive` / `World.radio` proved here.
-/
import NrfProofs.Hoare

namespace Nrf
open Rf24

/-- the air parameters all nodes of a network share -/
structure LinkCfg where
  ch : Nat
  rfSetup : Nat
  /-- `CONFIG & 4` (CRCO; with auto-ack in use the CRC is always on) -/
  crc : Nat
  deriving DecidableEq, Repr

/-- Radio `r` with driver object `d` of a network node whose six pipe addresses (as the chip
    matches them) are `P`; `rx` = PRIM_RX (with pipe 0 on the node's own address when set), `ce` =
    the CE pin (listening = both; after `listen = False` neither; after a `send()` CE stays high in
    the transmit role); `aa` = the auto-ack mask in force.
    The last three conjuncts are model-state invariants of every reachable radio that the driver
    contracts need (found when `L3Contracts` was discharged, NrfProofs/L3Discharge.lean): CONFIG is a
    7-bit register, TX_ADDR has five bytes, and the pipe numbers in the RX FIFO are pipe numbers
    (STATUS has a 3-bit RX_P_NO field). -/
def NodeRadio (L : LinkCfg) (P : List Bytes) (rx ce : Bool) (aa : Nat) (d : Rf24) (r : Radio) : Prop :=
  d.config = r.config ∧ r.config &&& 2 ≠ 0 ∧ decide (r.config &&& 1 ≠ 0) = rx ∧ r.ce = ce ∧
  r.config &&& 4 = L.crc ∧ r.rfCh = L.ch ∧ r.rfSetup = L.rfSetup ∧
  d.aa = aa ∧ r.enAA = aa ∧ d.openPipes = 0x3F ∧ r.enRxAddr = 0x3F ∧
  d.features = 5 ∧ r.feature = 5 ∧ r.featureVisible = true ∧ d.dynPl = 0x3F ∧ r.dynpd = 0x3F ∧ r.setupAw = 3 ∧
  d.pipes0 = r.rxAddr0 ∧ r.rxAddr0.length = 5 ∧ d.pipe0ReadAddr = P[0]? ∧
  P.length = 6 ∧ (∀ a ∈ P, a.length = 5) ∧ (rx = true → some r.rxAddr0 = P[0]?) ∧
  (∀ p ∈ [1, 2, 3, 4, 5], some (r.rxAddr p) = P[p]?) ∧
  d.txAddress.length = 5 ∧ r.txFifo = [] ∧
  r.config < 128 ∧ r.txAddr.length = 5 ∧ (∀ e ∈ r.rxFifo, e.pipe ≤ 5)

instance (L : LinkCfg) (P : List Bytes) (rx ce : Bool) (aa : Nat) (d : Rf24) (r : Radio) :
    Decidable (NodeRadio L P rx ce aa d r) := by unfold NodeRadio; infer_instance

/-- the radio object of state `s` -/
def DrvState.radio (s : DrvState) : Radio := s.w.radio s.d.rid

/-- what every method call leaves alone: the other radios, the fault script, and on its own radio
    the reception history -/
structure DrvFrame (s s' : DrvState) : Prop where
  rid : s'.d.rid = s.d.rid
  len : s'.w.radios.length = s.w.radios.length
  others : ∀ j, j ≠ s.d.rid → s'.w.radio j = s.w.radio j
  faults : s'.w.faults = s.w.faults
  lastRx : s'.radio.lastRx = s.radio.lastRx

theorem DrvFrame.trans {a b c : DrvState} (h1 : DrvFrame a b) (h2 : DrvFrame b c) : DrvFrame a c := by
  obtain ⟨r1, l1, o1, f1, x1⟩ := h1
  obtain ⟨r2, l2, o2, f2, x2⟩ := h2
  refine ⟨r2.trans r1, l2.trans l1, ?_, f2.trans f1, x2.trans x1⟩
  intro j hj; rw [o2 j (by rw [r1]; exact hj), o1 j hj]

theorem DrvFrame.wf {a b : DrvState} (h : DrvFrame a b) (hw : a.Wf) : b.Wf := by
  unfold DrvState.Wf at *
  rw [h.rid, h.len]; exact hw

/-- the packet `send(buf)` puts on the air from state `s` -/
def DrvState.packet (s : DrvState) (buf : Bytes) : Packet :=
  s.radio.packetFor { kind := .payload, data := buf }

/-- The contracts of the `RF24` methods the node layer calls on the unicast path (every state,
    every link configuration and address set).  Proved: `l3contracts` (NrfProofs/L3Discharge.lean). -/
structure L3Contracts : Prop where
  /-- `auto_ack = 0x3E | 0x3F`: programs EN_AA, nothing else -/
  setAA : ∀ (s : DrvState) (L : LinkCfg) (P : List Bytes) (rx ce : Bool) (aa v : Nat), s.Wf →
    NodeRadio L P rx ce aa s.d s.radio → (v = 0x3E ∨ v = 0x3F) →
    ∃ s', exec (setAutoAckAttr (.i v)) s = (.ok (), s') ∧ DrvFrame s s' ∧
      NodeRadio L P rx ce v s'.d s'.radio ∧ s'.radio.rxFifo = s.radio.rxFifo ∧
      s'.radio.rxAddr0 = s.radio.rxAddr0 ∧ s'.radio.txAddr = s.radio.txAddr
  /-- `listen = False` (from the listening state, or again in the transmit role): CE low, PRIM_RX cleared -/
  listenOff : ∀ (s : DrvState) (L : LinkCfg) (P : List Bytes) (rx ce : Bool) (aa : Nat), s.Wf →
    NodeRadio L P rx ce aa s.d s.radio →
    ∃ s', exec (setListen false) s = (.ok (), s') ∧ DrvFrame s s' ∧
      NodeRadio L P false false aa s'.d s'.radio ∧ s'.radio.rxFifo = s.radio.rxFifo
  /-- `open_tx_pipe(a)` with auto-ack on pipe 0: TX_ADDR and RX_ADDR_P0 become `a` -/
  openTx : ∀ (s : DrvState) (L : LinkCfg) (P : List Bytes) (ce : Bool) (a : Bytes), s.Wf →
    NodeRadio L P false ce 0x3F s.d s.radio → a.length = 5 →
    ∃ s', exec (openTxPipe a) s = (.ok (), s') ∧ DrvFrame s s' ∧
      NodeRadio L P false ce 0x3F s'.d s'.radio ∧ s'.radio.rxFifo = s.radio.rxFifo ∧
      s'.radio.rxAddr0 = a ∧ s'.radio.txAddr = a
  /-- `send(buf, send_only=True)` in the transmit role, loss-free, when some other radio `j` takes
      the packet and acknowledges it (plain ACK): every other radio has `receive`d the packet (once),
      the result is `True`, the sender's radio is as before (TX FIFO empty again) with CE left high. -/
  send : ∀ (s : DrvState) (L : LinkCfg) (P : List Bytes) (ce : Bool) (buf : Bytes) (j : Nat), s.Wf →
    NodeRadio L P false ce 0x3F s.d s.radio → s.radio.txAddr = s.radio.rxAddr0 →
    1 ≤ buf.length → buf.length ≤ 32 → s.w.faults = [] → j ≠ s.d.rid →
    ((s.w.radio j).receive (s.packet buf)).2 = some none →
    ∃ s', exec (Rf24.send buf false false 0 true) s = (.ok (.bool true, buf), s') ∧
      s'.d.rid = s.d.rid ∧ s'.w.radios.length = s.w.radios.length ∧ s'.w.faults = [] ∧
      (∀ i, i ≠ s.d.rid → s'.w.radio i = ((s.w.radio i).receive (s.packet buf)).1) ∧
      NodeRadio L P false true 0x3F s'.d s'.radio ∧ s'.radio.rxFifo = s.radio.rxFifo ∧
      s'.radio.lastRx = s.radio.lastRx ∧ s'.radio.rxAddr0 = s.radio.rxAddr0 ∧
      s'.radio.txAddr = s.radio.txAddr
  /-- `listen = True` from the transmit role: PRIM_RX, CE high, pipe 0 back on the node's own address -/
  listenOn : ∀ (s : DrvState) (L : LinkCfg) (P : List Bytes) (ce : Bool) (aa : Nat), s.Wf →
    NodeRadio L P false ce aa s.d s.radio →
    ∃ s', exec (setListen true) s = (.ok (), s') ∧ DrvFrame s s' ∧
      NodeRadio L P true true aa s'.d s'.radio ∧ s'.radio.rxFifo = s.radio.rxFifo
  /-- `read()`: with an empty RX FIFO `None`; otherwise the head payload (dynamic length 1..32, a
      pipe number 0..5), which is removed -/
  read : ∀ (s : DrvState) (L : LinkCfg) (P : List Bytes) (rx ce : Bool) (aa : Nat), s.Wf →
    NodeRadio L P rx ce aa s.d s.radio →
    (∀ e ∈ s.radio.rxFifo, e.pipe ≤ 5 ∧ 1 ≤ e.data.length ∧ e.data.length ≤ 32) →
    ∃ s', exec (Rf24.read none) s = (.ok (s.radio.rxFifo.head?.map (·.data)), s') ∧ DrvFrame s s' ∧
      NodeRadio L P rx ce aa s'.d s'.radio ∧ s'.radio.rxFifo = s.radio.rxFifo.tail

/-! ### pure facts about reception -/

/-- a radio that is not listening, or on none of whose pipes the packet's address is, ignores it -/
theorem Radio.receive_ignore (r : Radio) (k : Packet) (h : r.listensTo k = none) :
    r.receive k = (r, none) := by
  unfold Radio.receive
  rw [h]

theorem Radio.listensTo_not_rx (r : Radio) (k : Packet) (h : r.rxMode = false) : r.listensTo k = none := by
  unfold Radio.listensTo
  simp [h]

/-- with all six pipes enabled, the pipe a packet is taken on is the lowest one carrying its address -/
theorem Radio.matchPipe_eq (r : Radio) (A : Bytes) (p : Nat) (hp : p ≤ 5) (hen : r.enRxAddr = 0x3F)
    (hm : (r.rxAddr p).take r.aw = A) (hlt : ∀ q, q < p → (r.rxAddr q).take r.aw ≠ A) :
    r.matchPipe A = some p := by
  unfold Radio.matchPipe
  have hb : ∀ q, q ≤ 5 → Radio.bit r.enRxAddr q = true := by
    intro q hq
    rw [hen]
    have : q = 0 ∨ q = 1 ∨ q = 2 ∨ q = 3 ∨ q = 4 ∨ q = 5 := by omega
    rcases this with rfl | rfl | rfl | rfl | rfl | rfl <;> decide
  have hne : ∀ q, q < p → ((r.rxAddr q).take r.aw == A) = false := by
    intro q hq
    simpa using hlt q hq
  have heq : ((r.rxAddr p).take r.aw == A) = true := by simpa using hm
  have : p = 0 ∨ p = 1 ∨ p = 2 ∨ p = 3 ∨ p = 4 ∨ p = 5 := by omega
  rcases this with rfl | rfl | rfl | rfl | rfl | rfl
  · simp [List.find?, hb 0 (by omega), heq]
  · simp [List.find?, hb 0 (by omega), hb 1 (by omega), heq, hne 0 (by omega)]
  · simp [List.find?, hb 0 (by omega), hb 1 (by omega), hb 2 (by omega), heq, hne 0 (by omega), hne 1 (by omega)]
  · simp [List.find?, hb 0 (by omega), hb 1 (by omega), hb 2 (by omega), hb 3 (by omega), heq, hne 0 (by omega),
      hne 1 (by omega), hne 2 (by omega)]
  · simp [List.find?, hb 0 (by omega), hb 1 (by omega), hb 2 (by omega), hb 3 (by omega), hb 4 (by omega), heq,
      hne 0 (by omega), hne 1 (by omega), hne 2 (by omega), hne 3 (by omega)]
  · simp [List.find?, hb 0 (by omega), hb 1 (by omega), hb 2 (by omega), hb 3 (by omega), hb 4 (by omega),
      hb 5 (by omega), heq, hne 0 (by omega), hne 1 (by omega), hne 2 (by omega), hne 3 (by omega), hne 4 (by omega)]

/-- the air parameters of a node radio are those of the network -/
theorem NodeRadio.air {L : LinkCfg} {P : List Bytes} {rx ce : Bool} {aa : Nat} {d : Rf24} {r : Radio}
    (h : NodeRadio L P rx ce aa d r) (haa : aa = 0x3E ∨ aa = 0x3F) :
    r.rfCh = L.ch ∧ r.rate = (if L.rfSetup &&& 0x20 ≠ 0 then 2 else if L.rfSetup &&& 0x08 ≠ 0 then 1 else 0) ∧
    r.crcLen = (if L.crc ≠ 0 then 2 else 1) ∧ r.esb = true ∧ r.aw = 5 ∧
    (∀ p, p ≤ 5 → r.dplOn p = true) := by
  obtain ⟨_, _, _, _, hcrc, hch, hrf, _, haaR, _, _, _, hfeat, _, _, hdyn, haw, _⟩ := h
  have hen : r.enAA &&& 0x3F ≠ 0 := by rw [haaR]; rcases haa with h | h <;> rw [h] <;> decide
  refine ⟨hch, ?_, ?_, ?_, ?_, ?_⟩
  · unfold Radio.rate; rw [hrf]
  · unfold Radio.crcLen; rw [if_pos hen, hcrc]
  · unfold Radio.esb; simpa using hen
  · unfold Radio.aw; rw [haw]; rfl
  · intro p hp
    unfold Radio.dplOn
    rw [hfeat, hdyn]
    have : p = 0 ∨ p = 1 ∨ p = 2 ∨ p = 3 ∨ p = 4 ∨ p = 5 := by omega
    rcases this with rfl | rfl | rfl | rfl | rfl | rfl <;> decide

/-- the unicast packet of a network with air parameters `L`, to address `A` -/
def unicastPacket (L : LinkCfg) (A buf : Bytes) (pid : Nat) : Packet :=
  { ch := L.ch, rate := (if L.rfSetup &&& 0x20 ≠ 0 then 2 else if L.rfSetup &&& 0x08 ≠ 0 then 1 else 0),
    crc := (if L.crc ≠ 0 then 2 else 1), esb := true, dpl := true, addr := A, pid := pid,
    noAck := false, data := buf }

/-- the packet a node radio in the transmit role (unicast) sends for `buf` -/
theorem NodeRadio.packet {L : LinkCfg} {P : List Bytes} {ce : Bool} {d : Rf24} {r : Radio}
    (h : NodeRadio L P false ce 0x3F d r) (A buf : Bytes) (hA : r.txAddr = A) (hlen : A.length = 5) :
    r.packetFor { kind := .payload, data := buf } = unicastPacket L A buf r.nextPid := by
  obtain ⟨h1, h2, h3, h4, h5, h6⟩ := h.air (Or.inr rfl)
  unfold Radio.packetFor Radio.pidFor Radio.noAckFor unicastPacket
  simp only [h1, h2, h3, h4, h5, h6 0 (by omega), hA, Bool.and_self, Option.getD_none]
  congr 1
  · rw [List.take_of_length_le (by omega)]

/-- **Reception at a listening node radio**: a unicast packet with the network's air parameters,
    addressed to the address of pipe `p` ∈ 1..5 (and to no lower pipe), finding room and not being a
    repetition of the last packet, is stored once with its pipe number and acknowledged with a
    plain ACK; nothing of the radio's configuration changes. -/
theorem Radio.receive_idle {L : LinkCfg} {P : List Bytes} {d : Rf24} {r : Radio}
    (h : NodeRadio L P true true 0x3E d r) (p : Nat) (A buf : Bytes) (pid : Nat)
    (hp1 : 1 ≤ p) (hp5 : p ≤ 5) (hA : P[p]? = some A) (hlt : ∀ q, q < p → P[q]? ≠ some A)
    (hroom : r.rxFifo.length < 3) (hdup : r.lastRx ≠ some { pid := pid, addr := A, data := buf }) :
    r.receive (unicastPacket L A buf pid) =
      ({ r with rxFifo := r.rxFifo ++ [{ pipe := p, data := buf }], flags := r.flags ||| 0x40, rpd := true,
                lastRx := some { pid := pid, addr := A, data := buf }, lastAck := none }, some none) := by
  obtain ⟨h1, h2, h3, h4, h5, h6⟩ := h.air (Or.inl rfl)
  obtain ⟨_, hpwr, hrole, hce, _, _, _, _, haaR, _, hen, _, hfeat, _, _, _, _, _, hl0, _, hP6, hPl, hrx0, hP15, _⟩ := h
  have hAlen : A.length = 5 := hPl A (List.mem_of_getElem? hA)
  have hrxm : r.rxMode = true := by
    unfold Radio.rxMode Radio.pwrUp Radio.primRx
    rw [hce]
    simp only [Bool.and_true, Bool.and_eq_true, decide_eq_true_eq]
    exact ⟨hpwr, by simpa using hrole⟩
  -- the address list of the radio is `P`
  have haddr : ∀ q, q ≤ 5 → some (r.rxAddr q) = P[q]? := by
    intro q hq
    by_cases h0 : q = 0
    · subst h0
      have := hrx0 rfl
      unfold Radio.rxAddr; simpa using this
    · exact hP15 q (by
        have : q = 1 ∨ q = 2 ∨ q = 3 ∨ q = 4 ∨ q = 5 := by omega
        rcases this with rfl | rfl | rfl | rfl | rfl <;> decide)
  have htake : ∀ q, q ≤ 5 → (r.rxAddr q).take r.aw = r.rxAddr q := by
    intro q hq
    have hm := haddr q hq
    have : (r.rxAddr q).length = 5 := hPl _ (List.mem_of_getElem? hm.symm)
    rw [h5, List.take_of_length_le (by omega)]
  have hmatch : r.matchPipe A = some p := by
    apply Radio.matchPipe_eq r A p hp5 hen
    · rw [htake p hp5]
      have := haddr p hp5
      rw [hA] at this
      exact Option.some.inj this
    · intro q hq hc
      rw [htake q (by omega)] at hc
      have := haddr q (by omega)
      rw [hc] at this
      exact hlt q hq this.symm
  have hlisten : r.listensTo (unicastPacket L A buf pid) = some p := by
    unfold Radio.listensTo unicastPacket
    simp only [hrxm, h1, h2, h3, h4, h5, hAlen, beq_self_eq_true, Bool.and_self, if_true, hmatch,
      h6 p hp5]
  unfold Radio.receive
  rw [hlisten]
  unfold unicastPacket
  have hbit : Radio.bit r.enAA p = true := by
    rw [haaR]
    have : p = 1 ∨ p = 2 ∨ p = 3 ∨ p = 4 ∨ p = 5 := by omega
    rcases this with rfl | rfl | rfl | rfl | rfl <;> decide
  have hdup' : (r.lastRx == some { pid := pid, addr := A, data := buf }) = false := by
    simpa using hdup
  have hroom' : ¬ r.rxFifo.length ≥ 3 := by omega
  simp only [hdup', Bool.and_false, Bool.not_false, Bool.true_and, decide_eq_true_eq, hroom', if_false,
    hbit, Bool.and_true, hfeat, Bool.false_eq_true]
  rfl

/-- reception changes nothing the node-radio predicate looks at, but the RX FIFO (whose entries
    carry pipe numbers) -/
theorem NodeRadio.of_eq_cfg {L : LinkCfg} {P : List Bytes} {rx ce : Bool} {aa : Nat} {d : Rf24} {r r' : Radio}
    (h : NodeRadio L P rx ce aa d r)
    (he : r' = { r with rxFifo := r'.rxFifo, flags := r'.flags, rpd := r'.rpd, lastRx := r'.lastRx,
                        lastAck := r'.lastAck })
    (hf : ∀ e ∈ r'.rxFifo, e.pipe ≤ 5) : NodeRadio L P rx ce aa d r' := by
  obtain ⟨h1, h2, h3, h4, h5, h6, h7, h8, h9, h10, h11, h12, h13, h14, h15, h16, h17, h18, h19, h20, h21, h22,
    h23, h24, h25, h26, h27, h28, _⟩ := h
  rw [he]
  exact ⟨h1, h2, h3, h4, h5, h6, h7, h8, h9, h10, h11, h12, h13, h14, h15, h16, h17, h18, h19, h20, h21, h22,
    h23, h24, h25, h26, h27, h28, hf⟩

/-- a listening node radio is in RX mode -/
theorem NodeRadio.rxMode {L : LinkCfg} {P : List Bytes} {aa : Nat} {d : Rf24} {r : Radio}
    (h : NodeRadio L P true true aa d r) : r.rxMode = true := by
  obtain ⟨_, hpwr, hrole, hce, _⟩ := h
  unfold Radio.rxMode Radio.pwrUp Radio.primRx
  rw [hce]
  simp only [Bool.and_true, Bool.and_eq_true, decide_eq_true_eq]
  exact ⟨hpwr, by simpa using hrole⟩

end Nrf
