/-
C12 helper: one step of the simulation between the queue model and the reference queue.
-/
import NrfProofs.QueueRef

namespace Nrf.Proofs
open Nrf.Net Nrf.Spec

theorem contents_of_abs {s s' : QState} (h : abs s' = abs s) :
    s'.contents = s.contents ∧ s'.maxSize = s.maxSize ∧ s'.frag = s.frag := by
  have h1 := congrArg VQ.items h
  have h2 := congrArg VQ.maxSize h
  have h3 := congrArg VQ.frag h
  exact ⟨h1, h2, h3⟩

theorem any_toW (l : List Frame) (f : Frame) (hl : ∀ g ∈ l, Wire g) (hf : Wire f) :
    (l.map toW).any (fun x => Spec.sameKey x (toW f)) = l.any (fun g => Net.sameKey g f) := by
  induction l with
  | nil => rfl
  | cons a l ih =>
    simp only [List.map_cons, List.any_cons]
    rw [sameKey_toW a f (hl a (by simp)) hf, ih (fun g hg => hl g (by simp [hg]))]

theorem ref_enqueue (s : QState) (q : RefQ) (f : Frame) (hi : q.items = s.contents.map toW)
    (hc : q.cap = s.maxSize) (hwire : ∀ g ∈ s.contents, Wire g) (hw : Wire f) :
    q.enqueue (toW f) =
      if decide (s.maxSize ≤ (s.queue.length : Int)) || s.contents.any (fun g => Net.sameKey g f)
      then (q, false) else ({ q with items := q.items ++ [toW f] }, true) := by
  have hlen : q.items.length = s.queue.length := by simp [hi, QState.contents]
  have hany : q.items.any (fun x => Spec.sameKey x (toW f)) = s.contents.any (fun g => Net.sameKey g f) := by
    rw [hi]; exact any_toW s.contents f hwire hw
  unfold RefQ.enqueue
  rw [hc, hlen, hany]
  by_cases h1 : s.maxSize ≤ (s.queue.length : Int)
  · simp [h1]
  · by_cases h2 : s.contents.any (fun g => Net.sameKey g f) = true
    · simp [h1, h2]
    · simp [h1, h2]

theorem sim_step (s : QState) (q : RefQ) (op : QOp) (hs : Sim s q) (hsc : InScope s op) :
    Sim (s.step Fixes.all op).1 (refStep q s op).1 ∧
      absOut (s.step Fixes.all op).2 = (refStep q s op).2 := by
  obtain ⟨hi, hc, hwire, hwf⟩ := hs
  cases op with
  | alloc f =>
    obtain ⟨h1, h2, _⟩ := abs_alloc s f hwf
    obtain ⟨c1, c2, _⟩ := contents_of_abs h1
    exact ⟨⟨by simpa [QState.step, refStep, c1] using hi, by simpa [QState.step, refStep, c2] using hc,
      by simpa [QState.step, c1] using hwire, h2⟩, rfl⟩
  | mutate o f =>
    obtain ⟨h1, h2, _⟩ := abs_mutate s o f hwf hsc
    obtain ⟨c1, c2, _⟩ := contents_of_abs h1
    exact ⟨⟨by simpa [QState.step, refStep, c1] using hi, by simpa [QState.step, refStep, c2] using hc,
      by simpa [QState.step, c1] using hwire, h2⟩, rfl⟩
  | enqueue o =>
    obtain ⟨hw, hnf⟩ := hsc
    obtain ⟨e1, e2, e3, _, e5, _, _, _⟩ := enqueue_scope_obj Fixes.all s o hwf hw hnf
    simp only [QState.step, refStep, ref_enqueue s q (s.heap o) hi hc hwire hw]
    rw [full_iff] at e1 e2
    by_cases hcond : (decide (s.maxSize ≤ (s.queue.length : Int)) ||
        s.contents.any (fun g => Net.sameKey g (s.heap o))) = true
    · simp only [hcond, Bool.not_true, ↓reduceIte] at e1 e2 ⊢
      exact ⟨⟨by rw [e2]; exact hi, by rw [e3]; exact hc, by rw [e2]; exact hwire, e5⟩, by rw [e1]; rfl⟩
    · simp only [hcond, Bool.not_false, Bool.false_eq_true, ↓reduceIte] at e1 e2 ⊢
      refine ⟨⟨?_, by rw [e3]; exact hc, ?_, e5⟩, by rw [e1]; rfl⟩
      · rw [e2, hi]; simp
      · rw [e2]; intro g hg
        simp only [List.mem_append, List.mem_singleton] at hg
        rcases hg with hg | rfl
        · exact hwire g hg
        · exact hw
  | dequeue =>
    simp only [QState.step, refStep, RefQ.dequeue]
    rcases dequeue_contents s with ⟨h1, h2, h3⟩ | ⟨o, h1, h2, h3, h4, h5, h6, _⟩
    · have : q.items = [] := by rw [hi, h2]; rfl
      simp only [this, h1, h3]
      exact ⟨⟨by rw [this, h2]; rfl, hc, hwire, hwf⟩, rfl⟩
    · have hq : q.items = toW (s.heap o) :: s.dequeue.1.contents.map toW := by rw [hi, h2]; rfl
      simp only [hq, h1]
      refine ⟨⟨rfl, by rw [h5]; exact hc, ?_, ?_⟩, ?_⟩
      · intro g hg; exact hwire g (by rw [h2]; simp [hg])
      · intro i hi'; rw [h6]; exact hwf i (by rw [h3]; simp [hi'])
      · simp [absOut, h4]
  | peek =>
    simp only [QState.step, refStep, RefQ.peek, QState.peek, absOut]
    refine ⟨⟨hi, hc, hwire, hwf⟩, ?_⟩
    rw [hi]
    cases hq : s.queue with
    | nil => simp [QState.contents, hq]
    | cons o r => simp [QState.contents, hq]
  | len =>
    simp only [QState.step, refStep, RefQ.len, QState.len, absOut]
    exact ⟨⟨hi, hc, hwire, hwf⟩, by simp [hi, QState.contents]⟩
  | setMax n =>
    simp only [QState.step, refStep, RefQ.setCap, QState.setMax, absOut]
    exact ⟨⟨hi, rfl, hwire, hwf⟩, trivial⟩
  | setFrag b =>
    obtain ⟨f1, f2, f3, f4, _⟩ := setFragmentation_queue s b
    have hcont : (s.setFragmentation b).contents = s.contents := by
      simp [QState.contents, f1, f2]
    simp only [QState.step, refStep, RefQ.toggle, ite_self, absOut]
    refine ⟨⟨by rw [hcont]; exact hi, by rw [f3]; exact hc, by rw [hcont]; exact hwire, ?_⟩, trivial⟩
    intro i hi'; rw [f4]; exact hwf i (by rw [← f1]; exact hi')

end Nrf.Proofs
