/-
Discharging `L3Contracts`, part 2: Hoare triples over snapshots.  `Run w0 m d r Q`: from every state
whose snapshot relative to `w0` is `(d, r)` (shadows `d`, own radio `r`, all else as in `w0`) the
computation `m` returns normally, and the value and the new snapshot satisfy `Q`.  The rules for the
driver's primitives apply while the radio has nothing to transmit.
-/
import NrfProofs.L3Base

namespace Nrf.L3
open Nrf Nrf.Rf24

def Run {α} (w0 : World) (m : DrvM α) (d : Rf24) (r : Radio) (Q : α → Rf24 → Radio → Prop) : Prop :=
  ∀ s, Snap s d r w0 → ∃ a s' d' r', exec m s = (.ok a, s') ∧ Snap s' d' r' w0 ∧ Q a d' r'

variable {w0 : World} {d : Rf24} {r : Radio}

theorem Run.bind {α β} {m : DrvM α} {f : α → DrvM β} {Q1 : α → Rf24 → Radio → Prop}
    {Q2 : β → Rf24 → Radio → Prop} (h1 : Run w0 m d r Q1)
    (h2 : ∀ a d' r', Q1 a d' r' → Run w0 (f a) d' r' Q2) : Run w0 (m >>= f) d r Q2 := by
  intro s hs
  obtain ⟨a, s1, d1, r1, e1, S1, q1⟩ := h1 s hs
  obtain ⟨b, s2, d2, r2, e2, S2, q2⟩ := h2 a d1 r1 q1 s1 S1
  refine ⟨b, s2, d2, r2, ?_, S2, q2⟩
  rw [exec_bind, e1]
  exact e2

theorem Run.pure {α} {Q : α → Rf24 → Radio → Prop} (a : α) (h : Q a d r) : Run w0 (pure a : DrvM α) d r Q :=
  fun s hs => ⟨a, s, d, r, rfl, hs, h⟩

theorem Run.conseq {α} {m : DrvM α} {Q Q' : α → Rf24 → Radio → Prop} (h : Run w0 m d r Q)
    (hq : ∀ a d' r', Q a d' r' → Q' a d' r') : Run w0 m d r Q' := by
  intro s hs
  obtain ⟨a, s1, d1, r1, e1, S1, q1⟩ := h s hs
  exact ⟨a, s1, d1, r1, e1, S1, hq _ _ _ q1⟩

theorem run_getD : Run w0 getD d r (fun a d' r' => d = a ∧ d = d' ∧ r = r') :=
  fun s hs => ⟨s.d, s, d, r, rfl, hs, hs.d_eq.symm, rfl, rfl⟩

theorem run_nowNs : Run w0 nowNs d r (fun _ d' r' => d = d' ∧ r = r') :=
  fun s hs => ⟨s.w.clock, s, d, r, rfl, hs, rfl, rfl⟩

theorem run_modD (f : Rf24 → Rf24) (hf : (f d).rid = d.rid) :
    Run w0 (modD f) d r (fun _ d' r' => f d = d' ∧ r = r') :=
  fun s hs => ⟨(), _, _, _, exec_modD' f s, snap_mod hs f hf, rfl, rfl⟩

theorem run_setCE (v : Bool) (hidle : r.txFifo = [] ∨ ({ r with ce := v } : Radio).txMode = false) :
    Run w0 (setCE v) d r (fun _ d' r' => d = d' ∧ { r with ce := v } = r') :=
  fun s hs => ⟨(), _, _, _, exec_setCE v s, snap_ce hs v hidle, rfl, rfl⟩

theorem run_sleepNs (n : Nat) : Run w0 (sleepNs n) d r (fun _ d' r' => d = d' ∧ r = r') :=
  fun s hs => ⟨(), _, _, _, exec_sleepNs n s, snap_sleep hs n, rfl, rfl⟩

/-- one SPI transaction: the cached STATUS becomes the chip's STATUS before the command -/
theorem run_xfer (c : Nat) (b : Bytes)
    (hidle : (r.xfer (c :: b)).1.txFifo = [] ∨ (r.xfer (c :: b)).1.txMode = false) :
    Run w0 (xfer (c :: b)) d r
      (fun a d' r' => (r.xfer (c :: b)).2 = a ∧ { d with status := r.status } = d' ∧ (r.xfer (c :: b)).1 = r') := by
  intro s hs
  refine ⟨_, _, _, _, exec_xfer (c :: b) s, snap_spi hs (c :: b) hidle, ?_, rfl, rfl⟩
  exact (snap_spi_out hs (c :: b) hidle).symm

/-- `_reg_write(reg, v)` of a byte to a register -/
theorem run_regWrite (reg v : Nat) (hv : v ≤ 255) (hr : reg < 0x20) (ht : r.txFifo = []) :
    Run w0 (regWrite reg (v : Int)) d r
      (fun _ d' r' => { d with status := r.status } = d' ∧ r.writeReg reg [v] = r') := by
  have hx : (r.xfer [0x20 ||| reg, v]).1 = r.writeReg reg [v] := xfer_wreg r reg v hr
  unfold regWrite
  have h1 : ¬ ((v : Int) < 0 ∨ (v : Int) > 255) := by omega
  have h2 : reg ≠ 0x50 := by omega
  simp only [h1, h2, ↓reduceIte, ne_eq, not_false_eq_true, Int.toNat_natCast]
  refine Run.bind (run_xfer _ _ (Or.inl (by rw [hx, writeReg_txFifo]; exact ht))) ?_
  rintro _ _ _ ⟨_, rfl, rfl⟩
  exact Run.pure _ ⟨rfl, hx.symm⟩

/-- `_reg_write_bytes(reg, buf)` to a register -/
theorem run_regWriteBytes (reg : Nat) (b : Bytes) (hb : b ≠ []) (hr : reg < 0x20) (ht : r.txFifo = []) :
    Run w0 (regWriteBytes reg b) d r
      (fun _ d' r' => { d with status := r.status } = d' ∧ r.writeReg reg b = r') := by
  have hx : (r.xfer ((0x20 ||| reg) :: b)).1 = r.writeReg reg b := xfer_wregs r reg b hr hb
  unfold regWriteBytes
  refine Run.bind (run_xfer _ _ (Or.inl (by rw [hx, writeReg_txFifo]; exact ht))) ?_
  rintro _ _ _ ⟨_, rfl, rfl⟩
  exact Run.pure _ ⟨rfl, hx.symm⟩

/-- `_reg_write_bytes(reg, buf)` as the SPI transaction it is (any command byte) -/
theorem run_cmdBytes (reg : Nat) (b : Bytes)
    (hidle : (r.xfer ((0x20 ||| reg) :: b)).1.txFifo = [] ∨ (r.xfer ((0x20 ||| reg) :: b)).1.txMode = false) :
    Run w0 (regWriteBytes reg b) d r
      (fun _ d' r' => { d with status := r.status } = d' ∧ (r.xfer ((0x20 ||| reg) :: b)).1 = r') := by
  unfold regWriteBytes
  refine Run.bind (run_xfer _ _ hidle) ?_
  rintro _ _ _ ⟨_, rfl, rfl⟩
  exact Run.pure _ ⟨rfl, rfl⟩

/-- a bare command byte -/
theorem run_regCmd (c : Nat) (hidle : (r.xfer [c]).1.txFifo = [] ∨ (r.xfer [c]).1.txMode = false) :
    Run w0 (regCmd c) d r (fun _ d' r' => { d with status := r.status } = d' ∧ (r.xfer [c]).1 = r') := by
  unfold regCmd
  refine Run.bind (run_xfer _ _ hidle) ?_
  rintro _ _ _ ⟨_, rfl, rfl⟩
  exact Run.pure _ ⟨rfl, rfl⟩

/-- from a triple relative to the state's own world to the shape of the contracts -/
theorem Run.start {α} {m : DrvM α} {s : DrvState} {Q : α → Rf24 → Radio → Prop} (hw : s.Wf)
    (h : Run s.w m s.d s.radio Q) :
    ∃ a s', exec m s = (.ok a, s') ∧ Snap s' s'.d s'.radio s.w ∧ Q a s'.d s'.radio := by
  obtain ⟨a, s', d', r', e, S, q⟩ := h s (snap_self s hw)
  refine ⟨a, s', e, ?_, ?_⟩
  · rw [S.radio_eq, S.d_eq]; exact S
  · rw [S.radio_eq, S.d_eq]; exact q

end Nrf.L3
