/-
C13 helper lemmas, part 1: the pure NETWORK_ACK decision of `_write` (`ackAction`), the one-step
characterisation of `nodeWrite` in terms of it, and its meaning on the address tree (via C04).
-/
import NrfModel.Spec.NetAck
import NrfProofs.NetExecJ
import NrfProps.C04

namespace Nrf.Proofs
open Nrf Nrf.Net Nrf.Spec Nrf.Props.C04

/-- The decision `_write(write_direct, send_type)` takes about NETWORK_ACK once the next hop has
    accepted the frame — extracted from `nodeWrite`: `n` = the address constants of the node
    (`_begin`), `type` = the frame's message type, `fromNode` = the frame's origin. -/
def ackAction (n : NodeAddr) (type writeDirect sendType fromNode : Nat) : AckAction :=
  if 64 < type ∧ type < 192 then
    if sendType = TX_ROUTED ∧ (logi2phys n writeDirect sendType).1 = writeDirect ∧ fromNode ≠ n.addr then .emit
    else if (logi2phys n writeDirect sendType).1 ≠ writeDirect ∧ (sendType = TX_NORMAL ∨ sendType = TX_LOGICAL) then
      .await
    else .none
  else .none

/-- the state `_write` hands to `_write_to_pipe`: the last router sleeps 2 ms first -/
def writePrelude (s : NetState) (t wd st : Nat) : NetState :=
  if st = TX_ROUTED ∧ wd = (logi2phys s.node.a wd st).1 ∧ (64 < t ∧ t < 192) then
    { s with w := s.w.sleep 2000000 } else s

/-- One step of `nodeWrite`: prelude, the transmission to the hop `_logi_2_phys` names, then the
    continuation selected by the decision — evaluated with the node's address constants and the
    frame's origin *as they are after the transmission* (`nodeWrite_step` below removes that
    proviso with the frame lemma). -/
theorem nodeWrite_step_raw (f wd st : Nat) (s : NetState) (t : Nat)
    (ht : s.node.frameBuf.header.msgType = .int t) :
    nexec (nodeWrite (f + 1) wd st) s =
      match nexec (nodeWriteToPipe f (logi2phys s.node.a wd st).1 (logi2phys s.node.a wd st).2.1
          (logi2phys s.node.a wd st).2.2) (writePrelude s t wd st) with
      | (.error e, s1) => (.error e, s1)
      | (.ok result, s1) =>
        nexec (ackCont f (if result then
            (if 64 < t ∧ t < 192 then
              if st = TX_ROUTED ∧ (logi2phys s.node.a wd st).1 = wd
                  ∧ s1.node.frameBuf.header.fromNode ≠ s1.node.a.addr then .emit
              else if (logi2phys s.node.a wd st).1 ≠ wd ∧ (st = TX_NORMAL ∨ st = TX_LOGICAL) then .await
              else .none
            else .none) else .none) result (logi2phys s.node.a wd st).2.2) s1 := by
  rw [nodeWrite.eq_2]
  have hp : (pure (decide (64 < t) && decide (t < 192)) : PyM Bool)
      = .ok (decide (64 < t) && decide (t < 192)) := rfl
  simp only [nexec_bind, nexec_getNode, Frame.isAckType, ht, hp, nexec_liftPy_ok, Bool.and_eq_true,
    decide_eq_true_eq, nexec_ite, nexec_sleepNs, writePrelude]
  by_cases hc : st = TX_ROUTED ∧ wd = (logi2phys s.node.a wd st).fst ∧ 64 < t ∧ t < 192 <;>
  (first | simp only [if_pos hc] | simp only [if_neg hc]) <;>
  (rcases hw : nexec (nodeWriteToPipe f _ _ _) _ with ⟨r, s1⟩
   cases r with
    | error e => rfl
    | ok result =>
      simp only []
      cases result
      · simp only [Bool.false_eq_true, false_and, if_false, ackCont, nexec_bind, nexec_liftRf, nexec_ite, nexec_pure]
      · simp only [true_and, if_true]
        by_cases ht2 : 64 < t ∧ t < 192
        · simp only [if_pos ht2]
          by_cases he : st = TX_ROUTED ∧ (logi2phys s.node.a wd st).fst = wd
              ∧ s1.node.frameBuf.header.fromNode ≠ s1.node.a.addr
          · simp only [if_pos he, ackCont, nexec_bind, nexec_liftRf, nexec_ite, nexec_pure, nexec_getNode,
              nexec_setHdr]
          · simp only [if_neg he]
            by_cases ha : (logi2phys s.node.a wd st).fst ≠ wd ∧ (st = TX_NORMAL ∨ st = TX_LOGICAL)
            · simp only [if_pos ha, ackCont, nexec_bind, nexec_liftRf, nexec_pure, nexec_getNode, nexec_nowNs]
            · simp only [if_neg ha, ackCont, nexec_bind, nexec_liftRf, nexec_ite, nexec_pure]
        · simp only [if_neg ht2, ackCont, nexec_bind, nexec_liftRf, nexec_ite, nexec_pure])

/-- a `str` message type makes `is_ack_type()` raise `TypeError` before anything is sent -/
theorem nodeWrite_str (f wd st : Nat) (s : NetState) (cs : List Nat)
    (ht : s.node.frameBuf.header.msgType = .str cs) :
    nexec (nodeWrite (f + 1) wd st) s = (.error .typeError, s) := by
  rw [nodeWrite.eq_2]
  have hp : (throw PyErr.typeError : PyM Bool) = .error .typeError := rfl
  simp only [nexec_bind, nexec_getNode, Frame.isAckType, ht, hp, nexec_liftPy_error]

/-! ### the decision on the address tree -/

theorem ackAction_not_ackType {t : Nat} (h : ¬ AckType t) (n : NodeAddr) (wd st fr : Nat) :
    ackAction n t wd st fr = .none := by
  unfold ackAction
  rw [if_neg]
  unfold AckType at h
  omega

/-- physical / logical-direct / multicast transmissions: the "hop" is the given address itself,
    so nothing is awaited, and nothing is emitted (emission needs `TX_ROUTED`) -/
theorem ackAction_direct {st : Nat} (h : st > TX_ROUTED) (n : NodeAddr) (t wd fr : Nat) :
    ackAction n t wd st fr = .none := by
  unfold ackAction
  have h1 : ¬ st = TX_ROUTED := by omega
  have h2 : (logi2phys n wd st).1 = wd := by simp [logi2phys, h]
  simp [h1, h2]

theorem l2p_tree {x d : List Nat} (hx : IsNode x) (hd : IsNode d) {st : Nat}
    (hst : st = TX_NORMAL ∨ st = TX_ROUTED) :
    logi2phys (nodeSpec x) (val d) st = (val (nextHopSpec x d), hopPipe x d, false) := by
  have h := C04_next_hop x d hx hd st hst
  rw [C04_begin x hx, Option.map_some] at h
  exact Option.some.inj h

theorem val_eq_iff {a b : List Nat} (ha : IsNode a) (hb : IsNode b) : val a = val b ↔ a = b :=
  ⟨val_inj ha.1 hb.1, congrArg val⟩

/-- the origin's decision is the property's rule: wait iff the type is in 65..191 and the first hop
    is not the destination -/
theorem ackAction_origin {x d : List Nat} (hx : IsNode x) (hd : IsNode d) (t fr : Nat) :
    ackAction (nodeSpec x) t (val d) TX_NORMAL fr = originRule x d t := by
  unfold ackAction originRule AckType
  rw [l2p_tree hx hd (Or.inl rfl)]
  have hne : ¬ TX_NORMAL = TX_ROUTED := by decide
  simp only [hne, false_and, if_false, true_or, and_true, ne_eq,
    val_eq_iff (isNode_nextHop hx hd) hd]
  by_cases h1 : 64 < t ∧ t < 192
  · have h2 : 65 ≤ t ∧ t ≤ 191 := by omega
    simp only [h1, h2, and_self, if_true, true_and]
  · have h2 : ¬ (65 ≤ t ∧ t ≤ 191) := by omega
    simp only [if_neg h1]
    rw [if_neg (fun h => h2 h.1)]

/-- a forwarder's decision is the property's rule: acknowledge iff the type is in 65..191, this hop
    reaches the final destination and the frame is somebody else's -/
theorem ackAction_forwarder {x s d : List Nat} (hx : IsNode x) (hs : IsNode s) (hd : IsNode d)
    (t : Nat) :
    ackAction (nodeSpec x) t (val d) TX_ROUTED (val s) = forwarderRule x s d t := by
  unfold ackAction forwarderRule AckType
  rw [l2p_tree hx hd (Or.inr rfl)]
  have hne : ¬ TX_ROUTED = TX_NORMAL := by decide
  have hne2 : ¬ TX_ROUTED = TX_LOGICAL := by decide
  have ha : (nodeSpec x).addr = val x := rfl
  simp only [hne, hne2, or_self, and_false, if_false, true_and, ne_eq, ha,
    val_eq_iff (isNode_nextHop hx hd) hd, val_eq_iff hs hx]
  by_cases h1 : 64 < t ∧ t < 192
  · have h2 : 65 ≤ t ∧ t ≤ 191 := by omega
    simp only [h1, h2, and_self, if_true, true_and]
  · have h2 : ¬ (65 ≤ t ∧ t ≤ 191) := by omega
    simp only [if_neg h1]
    rw [if_neg (fun h => h2 h.1)]

/-! ### along the route -/

theorem hops_succ (n : Nat) (s d : List Nat) : hops (n + 1) s d = nextHopSpec (hops n s d) d := by
  induction n generalizing s with
  | zero => rfl
  | succ n ih => rw [hops, ih, hops]

theorem isNode_hops {s d : List Nat} (hs : IsNode s) (hd : IsNode d) (n : Nat) : IsNode (hops n s d) := by
  induction n generalizing s with
  | zero => exact hs
  | succ n ih => rw [hops]; exact ih (isNode_nextHop hs hd)

/-- the route never comes back to its origin -/
theorem hops_ne_origin {s d : List Nat} {n : Nat} (h0 : 0 < n) (h : n ≤ dist s d) : hops n s d ≠ s := by
  have h1 := lcp_length_le_left s d
  have h2 := lcp_length_le_right s d
  rw [dist_eq] at h
  rw [hops_eq]
  intro he
  split at he
  · have hl := congrArg List.length he
    rw [List.length_take] at hl
    omega
  · rename_i hgt
    have hp : s <+: d := by rw [← he]; exact List.take_prefix _ _
    have hl := congrArg List.length he
    rw [lcp_of_prefix hp] at hl h hgt
    rw [List.length_take] at hl
    omega

/-- the next hop of the `i`-th node of the route is the destination exactly for the last but one -/
theorem nextHop_hops_eq_dest {s d : List Nat} {i : Nat} (hi : i < dist s d) :
    nextHopSpec (hops i s d) d = d ↔ i + 1 = dist s d := by
  rw [← hops_succ]
  constructor
  · intro h
    by_cases hlt : i + 1 < dist s d
    · exact absurd h (hops_ne_before hlt)
    · omega
  · intro h; rw [h]; exact hops_dist s d

theorem filter_range_single (n k : Nat) (p : Nat → Bool) (hk : k < n)
    (h : ∀ i, i < n → (p i = true ↔ i = k)) : (List.range n).filter p = [k] := by
  induction n with
  | zero => omega
  | succ n ih =>
    rw [List.range_succ, List.filter_append]
    by_cases hkn : k = n
    · subst hkn
      have h1 : (List.range k).filter p = [] := by
        rw [List.filter_eq_nil_iff]
        intro i hi
        rw [List.mem_range] at hi
        intro hp
        have := (h i (by omega)).mp hp
        omega
      have h2 : p k = true := (h k (by omega)).mpr rfl
      simp [h1, h2]
    · have h1 := ih (by omega) (fun i hi => h i (by omega))
      have h2 : p n = false := by
        cases hp : p n with
        | false => rfl
        | true => exact absurd ((h n (by omega)).mp hp).symm hkn
      simp [h1, h2]

theorem filter_range_none (n : Nat) (p : Nat → Bool) (h : ∀ i, i < n → p i = false) :
    (List.range n).filter p = [] := by
  rw [List.filter_eq_nil_iff]
  intro i hi
  rw [List.mem_range] at hi
  simp [h i hi]

end Nrf.Proofs
