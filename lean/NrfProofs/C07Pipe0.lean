/-
C07 — `_begin(a)` for an **arbitrary** number `a` (a mesh node adopts whatever address a
MESH_ADDR_RESPONSE carries): whenever `_begin` gets through, the pipe-0 address it opened is the
address of the level it derived.
-/
import NrfProofs.C07Listen

namespace Nrf.Net
open Nrf Rf24 Nrf.Spec Nrf.Proofs

/-- counting octal digits: the loop of `_pipe_address` in its non-storing mode never fails, and
    counts more than `m` digits for a number `≥ 8^m` -/
theorem pipeAddrLoop_false_count (cfg : AddrCfg) : ∀ (a c : Nat) (r : Bytes),
    ∃ k, pipeAddrLoop cfg false a c r = .ok (r, c + k) ∧ ∀ m, 8 ^ m ≤ a → m < k := by
  intro a
  induction a using Nat.strongRecOn with
  | _ a ih =>
    intro c r
    by_cases ha : a = 0
    · subst ha
      refine ⟨0, by rw [pipeAddrLoop_zero]; rfl, ?_⟩
      intro m hm
      have : 0 < 8 ^ m := Nat.pow_pos (by decide)
      omega
    · obtain ⟨k, hk, hm⟩ := ih (a / 8) (by omega) (c + 1) r
      refine ⟨k + 1, ?_, ?_⟩
      · rw [pipeAddrLoop]
        simp only [ha, ↓reduceIte, Bool.false_eq_true, shr3, pure, Except.pure, bind, Except.bind]
        rw [hk]
        congr 2; omega
      · intro m h8
        cases m with
        | zero => omega
        | succ m =>
          have : 8 ^ m ≤ a / 8 := by
            rw [Nat.pow_succ] at h8
            omega
          have := hm m this
          omega

theorem t32768 {a : Nat} (h : a < 65536) : (a &&& 32768 = 0) = (a < 32768) := by
  have : a &&& 32768 = a / 32768 % 2 * 32768 := and_mask_shift a 1 15
  rw [this]; apply propext; omega

theorem maskInvLoop_5 {a : Nat} (h1 : 4096 ≤ a) (h2 : a < 32768) :
    maskInvLoop BEGIN_FUEL a 0xFFFF 0 = some (0x8000, 5) := by
  have ha : a < 65536 := by omega
  have g1 : ¬ a < 1 := by omega
  have g2 : ¬ a < 8 := by omega
  have g3 : ¬ a < 64 := by omega
  have g4 : ¬ a < 512 := by omega
  have g5 : ¬ a < 4096 := by omega
  simp [BEGIN_FUEL, maskInvLoop, t65535 ha, t65528 ha, t65472 ha, t65024 ha, t61440 ha, t32768 ha, g1, g2, g3, g4,
    g5, h2]

theorem beginAddr_lvl {a : Nat} {na : NodeAddr} (h : beginAddr a = some na) {mi L : Nat}
    (hm : maskInvLoop BEGIN_FUEL a 0xFFFF 0 = some (mi, L)) : na.netLvl = L ∧ na.addr = a := by
  unfold beginAddr at h
  rw [hm] at h
  simp only [Option.bind_eq_bind, Option.bind_some] at h
  cases h1 : maskLoop BEGIN_FUEL mi 0 with
  | none => rw [h1] at h; simp at h
  | some mask =>
    rw [h1] at h
    simp only [Option.bind_some] at h
    cases h2 : parentPipeLoop BEGIN_FUEL (mask >>> 3) a with
    | none => rw [h2] at h; simp at h
    | some pp =>
      rw [h2] at h
      simp only [Option.bind_some, Option.pure_def, Option.some.injEq] at h
      subst h
      exact ⟨rfl, rfl⟩

/-- the multicast pipe-0 address of a number with `L` octal digits (`1 ≤ L ≤ 5`) -/
theorem pipeAddress_mc_num {cfg : AddrCfg} {g : Nat → Nat} (hg : SfxFn cfg.sfx g) {a L : Nat}
    (h1 : 1 ≤ L) (h5 : L ≤ 5) (hlo : 8 ^ (L - 1) ≤ a) (hhi : a < 8 ^ L) (ham : cfg.allowMulticast = true) :
    pipeAddress cfg a 0 = .ok [cfg.pfx, g L, cfg.pfx, cfg.pfx, cfg.pfx] := by
  have hpos : 0 < 8 ^ (L - 1) := Nat.pow_pos (by omega)
  have hv : a ≠ 0 := by omega
  have gl := pyGet_nat (hg L h5)
  unfold pipeAddress
  simp only [ham, hv]
  rw [show (!true || true && (decide ((0 : Nat) ≠ 0) || decide False)) = false from by decide]
  rw [pipeAddrLoop_count cfg L _ _ _ (by omega) (fun _ => ⟨hlo, hhi⟩)]
  have : (1 + (L : Int) - 1) = (L : Int) := by omega
  simp [bind, Except.bind, this, gl, setByte]

/-- **pipe 0 after `_begin(a)`, any `a`**: with multicast allowed, if `_pipe_address(a, 0)` and the
    three loops of `_begin` get through, the address opened on pipe 0 is the address of the level
    `_begin` stored in `_net_lvl` -/
theorem pipe0_begin {cfg : AddrCfg} (hg : GoodCfg cfg) (ham : cfg.allowMulticast = true) {a : Nat}
    {na : NodeAddr} {x0 : Bytes} (hx : pipeAddress cfg a 0 = .ok x0) (hb : beginAddr a = some na) :
    pipeAddress cfg (lvl2addr na.netLvl) 0 = .ok x0 ∧ na.addr = a := by
  by_cases h0 : a = 0
  · subst h0
    have hm : maskInvLoop BEGIN_FUEL 0 0xFFFF 0 = some (0xFFFF, 0) := by decide
    obtain ⟨e1, e2⟩ := beginAddr_lvl hb hm
    rw [e1]
    exact ⟨hx, e2⟩
  · -- at most five digits, else the suffix table has no byte for the level
    have h5 : a < 8 ^ 5 := by
      apply Classical.byContradiction
      intro hn
      obtain ⟨k, hk, hm⟩ := pipeAddrLoop_false_count cfg a 1 (List.replicate 5 cfg.pfx)
      have hk5 := hm 5 (by omega)
      unfold pipeAddress at hx
      simp only [ham, h0] at hx
      rw [show (!true || true && (decide ((0 : Nat) ≠ 0) || decide False)) = false from by decide] at hx
      rw [hk] at hx
      simp only [bind, Except.bind, Bool.false_eq_true, ↓reduceIte, Bool.true_and, Bool.or_false,
        decide_true, Bool.true_or] at hx
      have hlen : cfg.sfx.length = 6 := hg.1.1
      have : pyGet cfg.sfx (((1 + k : Nat) : Int) - 1) = .error .indexError := by
        unfold pyGet
        have e : (((1 + k : Nat) : Int) - 1) = (k : Int) := by omega
        rw [e]
        have : ¬ ((k : Int) < 0) := by omega
        simp only [this, ↓reduceIte, Int.toNat_natCast]
        rw [List.getElem?_eq_none (by omega)]
      rw [this] at hx
      cases hx
    -- the level
    have key : ∀ L, 1 ≤ L → L ≤ 5 → 8 ^ (L - 1) ≤ a → a < 8 ^ L → na.netLvl = L ∧ na.addr = a →
        pipeAddress cfg (lvl2addr na.netLvl) 0 = .ok x0 ∧ na.addr = a := by
      intro L l1 l5 lo hi hna
      rw [hna.1, pipeAddress_lvl hg.hg l1 l5 ham, ← hx, pipeAddress_mc_num hg.hg l1 l5 lo hi ham]
      exact ⟨rfl, hna.2⟩
    have small : ∀ L, 1 ≤ L → L ≤ 4 → 8 ^ (L - 1) ≤ a → a < 8 ^ L → na.netLvl = L ∧ na.addr = a := by
      intro L l1 l4 lo hi
      have := begin_num (a := a) (L := L) ⟨l4, fun h => by omega, fun _ => ⟨lo, hi⟩⟩
      rw [this] at hb
      cases hb
      exact ⟨rfl, rfl⟩
    by_cases c1 : a < 8
    · exact key 1 (by decide) (by decide) (by simp; omega) (by simpa using c1)
        (small 1 (by decide) (by decide) (by simp; omega) (by simpa using c1))
    by_cases c2 : a < 64
    · exact key 2 (by decide) (by decide) (by simp; omega) (by simpa using c2)
        (small 2 (by decide) (by decide) (by simp; omega) (by simpa using c2))
    by_cases c3 : a < 512
    · exact key 3 (by decide) (by decide) (by simp; omega) (by simpa using c3)
        (small 3 (by decide) (by decide) (by simp; omega) (by simpa using c3))
    by_cases c4 : a < 4096
    · exact key 4 (by decide) (by decide) (by simp; omega) (by simpa using c4)
        (small 4 (by decide) (by decide) (by simp; omega) (by simpa using c4))
    · exact key 5 (by decide) (by decide) (by simp; omega) (by simpa using h5)
        (beginAddr_lvl hb (maskInvLoop_5 (by omega) (by simpa using h5)))

theorem pyGet_mem {l : List Nat} {i : Nat} {x : Nat} (h : pyGet l (i : Int) = .ok x) : x ∈ l := by
  unfold pyGet at h
  have : ¬ ((i : Int) < 0) := by omega
  simp only [this, ↓reduceIte, Int.toNat_natCast] at h
  cases hl : l[i]? with
  | none => rw [hl] at h; cases h
  | some y =>
    rw [hl] at h
    cases h
    exact List.mem_of_getElem? hl

/-- the first byte of a pipe-1..5 address is a byte of `address_suffix` -/
theorem pipeAddress_head {cfg : AddrCfg} {a p : Nat} (hp : p ≠ 0) {x : Bytes}
    (h : pipeAddress cfg a p = .ok x) : x.headD 0 ∈ cfg.sfx := by
  unfold pipeAddress at h
  have hc : (!cfg.allowMulticast || cfg.allowMulticast && (decide (p ≠ 0) || decide (a = 0))) = true := by
    cases cfg.allowMulticast <;> simp [hp]
  simp only [hc, bind, Except.bind, ↓reduceIte] at h
  split at h
  · cases h
  · rename_i rc _
    cases hg : pyGet cfg.sfx (p : Int) with
    | error e => rw [hg] at h; cases h
    | ok sb =>
      rw [hg] at h
      simp only at h
      unfold setByte at h
      split at h
      · cases h
        rename_i hlen
        have : (rc.1.set 0 sb).headD 0 = sb := by
          cases hr : rc.1 with
          | nil => rw [hr] at hlen; simp at hlen
          | cons y t => simp
        rw [this]
        exact pyGet_mem hg
      · cases h

/-- `_begin(a)` for any number `a` while the driver object has the `RF24.__init__` shape: if it
    returns, the node listens on the addresses `_pipe_address` computes for `a` -/
theorem n_begin_any {Q : Unit → NetState → Prop} {s : NetState}
    (hcur : s.cur < s.nodes.length) (hw : s.drv.Wf) (hb : Base s.drv.d s.drv.cfg)
    (hg : GoodCfg s.node.cfg) (a : Nat)
    (hQ : ∀ s', NodeListens s' → NFr0 s s' → Q () s') :
    wp anyErr (begin a) Q s := by
  unfold begin
  rw [wp_bind]
  apply n_beginRadio a hcur hw hb
  · intro i hi s' Q' hcfg hq
    rw [hcfg]
    exact wp_liftPy_any _ _ _ (fun x hx => hq x hx)
  · intro i h2 h5 x hx
    have := hg.2.2 _ (pipeAddress_head (by omega) hx)
    omega
  · intro x0 x1 x2 x3 x4 x5 s' h0 h1 h2 h3 h4 h5 hl hf
    cases hba : beginAddr a with
    | none => trivial
    | some na =>
      simp only [wp_modNode]
      have hcur' : s'.cur < s'.nodes.length := hl.1
      have hnode := NetState.node_setNode s' (fun n => { n with a := na }) hcur'
      have hfr : NFr0 s (s'.setNode fun n => { n with a := na }) := by
        refine ⟨hf.cur, by simp [hf.len], hf.closed, ?_, ?_, ?_, hf.active,
          fun k => (rids_modify s' _ hcur' rfl k).trans (hf.rids k)⟩ <;> rw [hnode]
        · exact hf.cfg
        · exact hf.kind
        · exact hf.rid
      apply hQ _ ?_ hfr
      refine ⟨x0, x1, _, ?_, hl.setNode _ (by rfl)⟩
      rw [hnode]
      show AddrOf s'.node.cfg na x0 x1 _
      rw [hf.cfg]
      have hadd : na.addr = a := by
        by_cases ham : s.node.cfg.allowMulticast = true
        · exact (pipe0_begin hg ham h0 hba).2
        · have hm : ∃ mi L, maskInvLoop BEGIN_FUEL a 0xFFFF 0 = some (mi, L) := by
            cases hmm : maskInvLoop BEGIN_FUEL a 0xFFFF 0 with
            | none => unfold beginAddr at hba; rw [hmm] at hba; simp at hba
            | some p => exact ⟨p.1, p.2, rfl⟩
          obtain ⟨mi, L, hm⟩ := hm
          exact (beginAddr_lvl hba hm).2
      refine ⟨?_, by rw [hadd]; exact h1, x2, x3, x4, x5, by rw [hadd]; exact h2, by rw [hadd]; exact h3,
        by rw [hadd]; exact h4, by rw [hadd]; exact h5, rfl⟩
      unfold pipe0Of
      split
      · rename_i ham
        exact (pipe0_begin hg ham h0 hba).1
      · rw [hadd]; exact h0

end Nrf.Net
