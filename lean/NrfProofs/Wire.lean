/-
Helper lemmas for C11: the header/frame codec against the byte layout of `Spec/Wire.lean`.
-/
import NrfModel.Net.Structs
import NrfModel.Spec.Wire

namespace Nrf.Proofs
open Nrf.Net Nrf.Spec

theorem and_fff (x : Nat) : x &&& 0xFFF = x % 4096 := by
  have := Nat.and_two_pow_sub_one_eq_mod x 12
  simpa using this

theorem and_ffff (x : Nat) : x &&& 0xFFFF = x % 65536 := by
  have := Nat.and_two_pow_sub_one_eq_mod x 16
  simpa using this

theorem and_ff (x : Nat) : x &&& 0xFF = x % 256 := by
  have := Nat.and_two_pow_sub_one_eq_mod x 8
  simpa using this

/-- the header a receiver sees: every attribute reduced to its wire width -/
def maskedHeader (h : Header) (t : Nat) : Header :=
  { fromNode := h.fromNode % 4096, toNode := h.toNode % 4096, frameId := h.frameId % 65536,
    msgType := .int (t % 256), reserved := h.reserved % 256 }

/-- the integer `pack()` puts into the type byte (before masking) -/
def typeCode : MsgT → Option Nat
  | .int n => some n
  | .str (c :: _) => some c
  | .str [] => none

theorem pack_eq (h : Header) (t : Nat) (ht : typeCode h.msgType = some t) :
    h.pack = .ok [h.fromNode % 4096 % 256, h.fromNode % 4096 / 256, h.toNode % 4096 % 256,
      h.toNode % 4096 / 256, h.frameId % 65536 % 256, h.frameId % 65536 / 256, t % 256,
      h.reserved % 256] := by
  unfold Header.pack
  cases hm : h.msgType with
  | int n =>
    simp only [hm, typeCode, Option.some.injEq] at ht; subst ht
    simp [le16b, and_fff, and_ffff, and_ff, pure, Except.pure, bind, Except.bind]
  | str cs =>
    cases cs with
    | nil => simp [hm, typeCode] at ht
    | cons c r =>
      simp only [hm, typeCode, Option.some.injEq] at ht; subst ht
      simp [le16b, and_fff, and_ffff, and_ff, pure, Except.pure, bind, Except.bind]

theorem pack_error (h : Header) (ht : typeCode h.msgType = none) : h.pack = .error .typeError := by
  unfold Header.pack
  cases hm : h.msgType with
  | int n => simp [hm, typeCode] at ht
  | str cs =>
    cases cs with
    | nil => simp [bind, Except.bind, throw, throwThe, MonadExceptOf.throw]
    | cons c r => simp [hm, typeCode] at ht

theorem unpack_short (h : Header) (b : Bytes) (hb : b.length < 8) : h.unpack b = (h, false) := by
  unfold Header.unpack
  rcases b with _ | ⟨a0, _ | ⟨a1, _ | ⟨a2, _ | ⟨a3, _ | ⟨a4, _ | ⟨a5, _ | ⟨a6, _ | ⟨a7, r⟩⟩⟩⟩⟩⟩⟩⟩ <;>
    first | rfl | (simp at hb; omega)

theorem unpack_long (h : Header) (a0 a1 a2 a3 a4 a5 a6 a7 : Nat) (r : Bytes) :
    h.unpack (a0 :: a1 :: a2 :: a3 :: a4 :: a5 :: a6 :: a7 :: r) =
      ({ fromNode := a0 + 256 * a1, toNode := a2 + 256 * a3, frameId := a4 + 256 * a5,
         msgType := .int a6, reserved := a7 }, true) := rfl

theorem unpack_pack (h h0 : Header) (t : Nat) (ht : typeCode h.msgType = some t) (b : Bytes)
    (hb : h.pack = .ok b) (rest : Bytes) : h0.unpack (b ++ rest) = (maskedHeader h t, true) := by
  rw [pack_eq h t ht] at hb
  injection hb with hb
  subst hb
  simp only [List.cons_append, List.nil_append, unpack_long, maskedHeader]
  congr 2 <;> omega

/-- the on-air image of a header, as the spec's frame type -/
def wOf (h : Header) (t : Nat) (body : Bytes) : WFrame :=
  { src := h.fromNode, dst := h.toNode, id := h.frameId, ty := t, rsv := h.reserved, body := body }

theorem pack_inrange (h : Header) (t : Nat) (ht : h.msgType = .int t) (hr : (wOf h t []).InRange) :
    h.pack = .ok (headerBytes (wOf h t [])) := by
  rw [pack_eq h t (by simp [ht, typeCode])]
  obtain ⟨h1, h2, h3, h4, h5⟩ := hr
  simp only [wOf] at h1 h2 h3 h4 h5
  simp only [headerBytes, wOf]
  rw [Nat.mod_eq_of_lt h1, Nat.mod_eq_of_lt h2, Nat.mod_eq_of_lt h3, Nat.mod_eq_of_lt h4,
    Nat.mod_eq_of_lt h5]

theorem parse_frameBytes (f : WFrame) (hr : f.InRange) : parseFrame (frameBytes f) = some f := by
  obtain ⟨h1, h2, h3, h4, h5⟩ := hr
  simp only [frameBytes, headerBytes, List.cons_append, List.nil_append, parseFrame]
  congr 1
  cases f
  simp only [WFrame.mk.injEq, and_true]
  simp only at h1 h2 h3
  omega

end Nrf.Proofs
