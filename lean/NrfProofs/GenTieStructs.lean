/-
Tie between the GENERATED translation of `network/structs.py: is_address_valid`
(`NrfGen/Structs.lean`, rewritten from the current source by `tools/py2lean.py` on every run) and the
hand-written model function `Nrf.Net.isValid` the C15 / C04 theorems are about.
-/
import NrfModel.Net.Addr
import NrfGen.Structs

namespace Nrf.Proofs.GenTie
open Nrf Nrf.Net

/-- what the caller of the generated loop does with its outcome: `.inl v` (the body returned `v`) is `v`,
    `.inr _` (the loop ended) falls through to `return True` -/
def loopVerdict : Sum Bool (Nat × Nat) → Bool
  | .inl v => v
  | .inr _ => true

/-- the generated `while address:` loop, given more fuel than the value of `address`, never runs out of
    fuel and ends as the model's well-founded recursion does (so the fuel `address + 1`, which the
    translator derives from the measure `address >>= 3`, suffices) -/
theorem is_address_valid_while1_eq (a c : Nat) : ∀ fuel, a < fuel →
    ∃ r, Gen.is_address_valid_while1 fuel (a, c) = .ok r ∧ loopVerdict r = isValidGo a c := by
  fun_induction isValidGo a c with
  | case1 c =>
    intro fuel hf
    obtain ⟨f, rfl⟩ : ∃ f, fuel = f + 1 := ⟨fuel - 1, by omega⟩
    exact ⟨.inr (0, c), by simp [Gen.is_address_valid_while1, pure, Except.pure], rfl⟩
  | case2 a c ha hbad =>
    intro fuel hf
    obtain ⟨f, rfl⟩ : ∃ f, fuel = f + 1 := ⟨fuel - 1, by omega⟩
    refine ⟨.inl false, ?_, rfl⟩
    have hne : (a != 0) = true := by simpa using ha
    have hb : ((!(decide (0 < (a &&& 7)) && decide ((a &&& 7) ≤ 5))) || decide (c > 3)) = true := hbad
    simp only [Gen.is_address_valid_while1, hne, hb, ↓reduceIte]
    rfl
  | case3 a c ha hok ih =>
    intro fuel hf
    obtain ⟨f, rfl⟩ : ∃ f, fuel = f + 1 := ⟨fuel - 1, by omega⟩
    have hlt : a >>> 3 < f := by
      simp only [Nat.shiftRight_eq_div_pow]; omega
    obtain ⟨r, hr, hv⟩ := ih f hlt
    refine ⟨r, ?_, hv⟩
    have hne : (a != 0) = true := by simpa using ha
    have hb : ((!(decide (0 < (a &&& 7)) && decide ((a &&& 7) ≤ 5))) || decide (c > 3)) = false :=
      (Bool.not_eq_true _).mp hok
    rw [← hr]
    simp only [Gen.is_address_valid_while1, hne, hb, ↓reduceIte, Bool.false_eq_true]

/-- **GenTie, `is_address_valid`**: for every non-negative `int` argument the translation of the current
    source returns normally (never `diverge`) with exactly the model's verdict -/
theorem GenTie_is_address_valid (a : Nat) :
    Gen.is_address_valid (some a) = .ok (isValid a) := by
  obtain ⟨r, hr, hv⟩ := is_address_valid_while1_eq a 0 (a + 1) (Nat.lt_succ_self a)
  unfold Gen.is_address_valid isValid
  by_cases h : a = 64 ∨ a = 8 ∨ a = 512
  · rcases h with h | h | h <;> subst h <;> rfl
  · have h1 : a ≠ 64 := fun e => h (Or.inl e)
    have h2 : a ≠ 8 := fun e => h (Or.inr (Or.inl e))
    have h3 : a ≠ 512 := fun e => h (Or.inr (Or.inr e))
    rw [if_neg (show ¬(a = NETWORK_MULTICAST_ADDR ∨ a = NETWORK_MULTICAST_ADDR_LVL_2
      ∨ a = NETWORK_MULTICAST_ADDR_LVL_4) from h)]
    have e1 : (a == 64) = false := by simpa using h1
    have e2 : (a == 8) = false := by simpa using h2
    have e3 : (a == 512) = false := by simpa using h3
    simp only [e1, e2, e3, Bool.or_self, Bool.false_eq_true, ↓reduceIte, bind, Except.bind, hr]
    rw [← hv]
    cases r <;> rfl

/-- **GenTie, `is_address_valid(None)`**: `False`, as the model's callers assume -/
theorem GenTie_is_address_valid_none : Gen.is_address_valid none = .ok false := rfl

/-- both outcomes occur: a valid address (`0o5`), the reserved multicast address `0o100`, an invalid digit
    (`0o6`), too many digits (`0o11111`) -/
example : Gen.is_address_valid (some 0o5) = .ok true ∧ Gen.is_address_valid (some 0o100) = .ok true
    ∧ Gen.is_address_valid (some 0o6) = .ok false ∧ Gen.is_address_valid (some 0o11111) = .ok false :=
  ⟨rfl, rfl, rfl, rfl⟩

end Nrf.Proofs.GenTie
