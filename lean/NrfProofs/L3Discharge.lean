/-
`L3Contracts` (NrfProofs/C05Link.lean) discharged: the six Hoare-style contracts of `RF24` methods the
network layer relies on — `auto_ack =`, `listen = False`, `listen = True`, `open_tx_pipe`,
`send(.., send_only=True)`, `read()` — are theorems about the driver model (NrfModel/Rf24.lean) over
the chip (Radio.lean) and the air (Air.lean).

Proof files: L3Base (snapshots, exact SPI/CE steps on an idle radio), L3Run (Hoare triples over
snapshots), L3Simple (`auto_ack`, `read`), L3Listen (`listen`, `open_tx_pipe`), L3Air (the transmit
cycle seen by every radio), L3Send (`send`).
-/
import NrfProofs.L3Simple
import NrfProofs.L3Listen
import NrfProofs.L3Send

namespace Nrf

/-- **The driver contracts hold** (for every state, link configuration and address set). -/
theorem l3contracts : L3Contracts where
  setAA := L3.l3_setAA
  listenOff := L3.l3_listenOff
  openTx := L3.l3_openTx
  send := L3.l3_send
  listenOn := L3.l3_listenOn
  read := L3.l3_read

end Nrf
