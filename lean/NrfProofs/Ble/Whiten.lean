/-
Bytewise Galois-form whitening (`fake_ble.whitener`) = bit-serial LFSR whitening of the spec.
-/
import NrfModel.Ble.Bits
import NrfModel.Spec.BleLinkLayer

namespace Nrf.Proofs.Ble
open Nrf.Ble Nrf.Spec.BleLL

/-- the shift register that a Galois coefficient stands for: position `j` = bit `6 - j` -/
def lfsrOf (coef : Nat) : Lfsr :=
  ⟨coef.testBit 6, coef.testBit 5, coef.testBit 4, coef.testBit 3, coef.testBit 2,
   coef.testBit 1, coef.testBit 0⟩

/-- the inner loop only ever xors masks into the byte: factor the byte out -/
theorem iter_whitenStep_factor (n c b m : Nat) :
    iter whitenStep n (c, b, m) =
      ((iter whitenStep n (c, 0, m)).1, b ^^^ (iter whitenStep n (c, 0, m)).2.1,
       (iter whitenStep n (c, 0, m)).2.2) := by
  induction n generalizing c b m with
  | zero => simp [iter]
  | succ n ih =>
    simp only [iter, whitenStep]
    split <;> rename_i h
    · simp only [] at *
      rw [ih (_) (b ^^^ m), ih _ (0 ^^^ m)]
      simp [Nat.xor_assoc]
    · rw [ih]

/-- keystream byte and next coefficient for a start coefficient -/
def ksByte (coef : Nat) : Nat := (whitenByte 0 coef).1
def nextCoef (coef : Nat) : Nat := (whitenByte 0 coef).2

theorem whitenByte_factor (b coef : Nat) :
    whitenByte b coef = (b ^^^ ksByte coef, nextCoef coef) := by
  unfold ksByte nextCoef whitenByte
  rw [iter_whitenStep_factor]
  simp

def clockN : Nat → Lfsr → Lfsr
  | 0, l => l
  | n + 1, l => clockN n l.clock

/-- the table over the 128 seeds: keystream bits and the register after eight clocks -/
theorem seed_table : ∀ coef, coef < 128 →
    lsbFirst (ksByte coef) = whitenBits (lfsrOf coef) (List.replicate 8 false) ∧
    lfsrOf (nextCoef coef) = clockN 8 (lfsrOf coef) ∧ nextCoef coef < 128 ∧ ksByte coef < 256 := by
  decide +kernel


theorem whitenBits_length (l : Lfsr) (x : List Bool) : (whitenBits l x).length = x.length := by
  induction x generalizing l with
  | nil => rfl
  | cons b bs ih => simp [whitenBits, ih]

theorem whitenBits_append (l : Lfsr) (x y : List Bool) :
    whitenBits l (x ++ y) = whitenBits l x ++ whitenBits (clockN x.length l) y := by
  induction x generalizing l with
  | nil => rfl
  | cons b bs ih => simp [whitenBits, clockN, ih]

/-- whitening is an involution -/
theorem whitenBits_invol (l : Lfsr) (x : List Bool) : whitenBits l (whitenBits l x) = x := by
  induction x generalizing l with
  | nil => rfl
  | cons b bs ih => simp [whitenBits, ih]

/-- one byte: the Galois step on the byte = the bit-serial whitening of its LSB-first bits -/
theorem whitenByte_bits (b coef : Nat) (hc : coef < 128) :
    lsbFirst (whitenByte b coef).1 = whitenBits (lfsrOf coef) (lsbFirst b) ∧
    lfsrOf (whitenByte b coef).2 = clockN 8 (lfsrOf coef) ∧ (whitenByte b coef).2 < 128 := by
  obtain ⟨h1, h2, h3, _⟩ := seed_table coef hc
  rw [whitenByte_factor]
  refine ⟨?_, h2, h3⟩
  simp only [lsbFirst, List.replicate, whitenBits, List.cons.injEq, and_true] at h1
  obtain ⟨e0, e1, e2, e3, e4, e5, e6, e7⟩ := h1
  simp only [lsbFirst, whitenBits, Nat.testBit_xor, e0, e1, e2, e3, e4, e5, e6, e7]
  simp

theorem whitenByte_lt (b coef : Nat) (hb : b < 256) (hc : coef < 128) :
    (whitenByte b coef).1 < 256 := by
  rw [whitenByte_factor]
  exact Nat.xor_lt_two_pow (n := 8) hb (seed_table coef hc).2.2.2

theorem lsbFirst_length (b : Nat) : (lsbFirst b).length = 8 := rfl

theorem whitener_length (data : Bytes) (coef : Nat) : (whitener data coef).length = data.length := by
  induction data generalizing coef with
  | nil => rfl
  | cons b bs ih => simp [whitener, ih]

/-- the whole buffer: `whitener` = bit-serial whitening of the LSB-first bit stream -/
theorem whitener_bits (data : Bytes) (coef : Nat) (hc : coef < 128) :
    (whitener data coef).flatMap lsbFirst = whitenBits (lfsrOf coef) (data.flatMap lsbFirst) := by
  induction data generalizing coef with
  | nil => rfl
  | cons b bs ih =>
    obtain ⟨h1, h2, h3⟩ := whitenByte_bits b coef hc
    simp only [whitener, List.flatMap_cons, whitenBits_append, lsbFirst_length]
    rw [ih _ h3, h1, h2]

theorem whitener_wf (data : Bytes) (coef : Nat) (hd : data.wf) (hc : coef < 128) :
    (whitener data coef).wf := by
  induction data generalizing coef with
  | nil => simp [whitener, Bytes.wf]
  | cons b bs ih =>
    have hb : b < 256 := hd b (by simp)
    have hbs : Bytes.wf bs := fun x hx => hd x (by simp [hx])
    intro x hx
    simp only [whitener, List.mem_cons] at hx
    rcases hx with rfl | hx
    · exact whitenByte_lt b coef hb hc
    · exact ih _ hbs (whitenByte_bits b coef hc).2.2 x hx

/-- the coefficient `whiten()` derives from `_curr_freq` is the spec's initial register for
    the advertising channel index `37 + _curr_freq` -/
theorem coef_init : ∀ cf, cf < 3 →
    lfsrOf ((cf + 37) ||| 0x40) = Lfsr.init (37 + cf) ∧ ((cf + 37) ||| 0x40) < 128 := by
  decide

end Nrf.Proofs.Ble
