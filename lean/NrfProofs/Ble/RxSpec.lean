/-
`available()` against the spec receiver: acceptance, rejection, decoding.
-/
import NrfProofs.Ble.Avail
import NrfProofs.Ble.ServiceData

namespace Nrf.Proofs.Ble
open Nrf.Ble Nrf.Spec.BleLL

theorem whiten_length (s : Ble) (b : Bytes) : (s.whiten b).length = b.length := by
  simp [Ble.whiten, whitener_length]

/-- a 32-byte cache splits into header, length and 30 more bytes -/
theorem cache_split (c : Bytes) (h : c.length = 32) :
    ∃ h0 len rest, c = h0 :: len :: rest ∧ rest.length = 30 := by
  match c, h with
  | h0 :: len :: rest, h => exact ⟨h0, len, rest, rfl, by simpa using h⟩

theorem ofBuffer_take_ok (h0 len : Nat) (rest : Bytes) (hfit : len + 3 ≤ rest.length) :
    ∃ q, QueueElement.ofBuffer ((h0 :: len :: rest).take (len + 5)) = .ok q := by
  apply ofBuffer_ok
  · simp
  · intro b1 hb1
    have h1 : pyGet ((h0 :: len :: rest).take (len + 5)) 1 = .ok len := by
      rw [show len + 5 = (len + 3) + 1 + 1 by omega, List.take_succ_cons, List.take_succ_cons]
      exact pyGet_one _ _ _
    rw [h1] at hb1; cases hb1
    simp; omega

/-- everything `available()` does with a 32-byte payload, against the spec receiver -/
theorem available_spec (s : Ble) (rfCh : Nat) (p : Bytes) (hp : p.wf) (hlen : p.length = 32)
    (ht : BLE_FREQ[s.currFreq]? = some rfCh) :
    (bleReceive rfCh (airBits p) = none ∧ (s.available (some p)).1.rxQueue = s.rxQueue ∧
       (s.available (some p)).2 = .ok (!s.rxQueue.isEmpty)) ∨
    (∃ pdu q, bleReceive rfCh (airBits p) = some pdu ∧
       (s.available (some p)).1.rxQueue = s.rxQueue ++ [q] ∧
       (s.available (some p)).2 = .ok true ∧
       (∀ adv, parseAdv pdu = some adv → q = refElement adv)) := by
  obtain ⟨h0, len, rest, hc, hrest⟩ := cache_split (s.whiten (reverseBits p))
    (by rw [whiten_length, reverseBits_length, hlen])
  rw [bleReceive_air s rfCh p hp ht, hc, parseBytes_accepts h0 len rest hrest,
    available_char s p h0 len rest hc]
  by_cases hacc : accepts h0 len rest
  · right
    simp only [hacc, ↓reduceIte]
    have hfit : len + 3 ≤ rest.length := by have := hacc.1; omega
    obtain ⟨q, hq⟩ := ofBuffer_take_ok h0 len rest hfit
    refine ⟨_, q, rfl, ?_, ?_, ?_⟩
    · rw [hq]
    · rw [hq]
    · intro adv hadv
      simp only [parseAdv] at hadv
      split at hadv
      · cases hadv
      · rename_i h6
        cases hpa : parseAds ((rest.take len).drop 6) with
        | none => rw [hpa] at hadv; cases hadv
        | some ads =>
          rw [hpa] at hadv
          simp only [Option.some.injEq] at hadv
          subst hadv
          have henc := parseAds_sound _ _ hpa
          have hpl : rest.take len = (rest.take len).take 6 ++ encodeAds ads := by
            rw [← henc, List.take_append_drop]
          have hmac : ((rest.take len).take 6).length = 6 := by
            simp at h6 ⊢; omega
          have hbuf : (h0 :: len :: rest).take (len + 5)
              = h0 :: len :: ((rest.take len).take 6 ++ encodeAds ads ++ (rest.drop len).take 3) := by
            rw [show len + 5 = (len + 3) + 1 + 1 by omega, List.take_succ_cons, List.take_succ_cons,
              ← hpl]
            congr 2
            rw [List.take_add]
          rw [hbuf, ofBuffer_ads h0 len _ ads _ hmac (by
            have := congrArg List.length hpl
            simp only [List.length_append, hmac] at this
            rw [← this]; simp; omega)] at hq
          cases hq; rfl
  · left
    simp only [hacc, ↓reduceIte]
    exact ⟨trivial, trivial, trivial⟩

/-- the decision logic of `available()` stated outright on the de-whitened bytes -/
theorem available_decision (s : Ble) (p : Bytes) (hlen : p.length = 32) :
    ∃ h0 len rest, s.whiten (reverseBits p) = h0 :: len :: rest ∧ rest.length = 30 ∧
      ((accepts h0 len rest ∧ ∃ q, (s.available (some p)).1.rxQueue = s.rxQueue ++ [q]) ∨
       (¬ accepts h0 len rest ∧ (s.available (some p)).1.rxQueue = s.rxQueue)) ∧
      (s.available (some p)).1.rxCache = (h0 :: len :: rest).take (len + 5) := by
  obtain ⟨h0, len, rest, hc, hrest⟩ := cache_split (s.whiten (reverseBits p))
    (by rw [whiten_length, reverseBits_length, hlen])
  refine ⟨h0, len, rest, hc, hrest, ?_⟩
  rw [available_char s p h0 len rest hc]
  by_cases hacc : accepts h0 len rest
  · simp only [hacc, ↓reduceIte, true_and, not_true_eq_false, false_and, or_false]
    obtain ⟨q, hq⟩ := ofBuffer_take_ok h0 len rest (by have := hacc.1; omega)
    rw [hq]
    exact ⟨⟨q, rfl⟩, rfl⟩
  · simp only [hacc, ↓reduceIte, false_and, not_false_eq_true, true_and, false_or]

end Nrf.Proofs.Ble
