/-
The spec receiver, evaluated on a bit stream that is the LSB-first image of a byte buffer, as a
function of the bytes.
-/
import NrfProofs.Ble.Frame

namespace Nrf.Proofs.Ble
open Nrf.Ble Nrf.Spec.BleLL

/-- what the spec's `parsePdu` computes, stated on bytes -/
def parseBytes (c : Bytes) : Option Pdu :=
  match c with
  | h :: len :: rest =>
    if len + 3 ≤ rest.length ∧ (rest.drop len).take 3 = crc24 (h :: len :: rest.take len) then
      some ⟨h, len, rest.take len⟩
    else none
  | _ => none

theorem parsePdu_bytes (c : Bytes) (hc : c.wf) : parsePdu (c.flatMap lsbFirst) = parseBytes c := by
  match c, hc with
  | [], _ => simp [parsePdu, parseBytes]
  | [h], _ => simp [parsePdu, parseBytes, lsbFirst_length]
  | h :: len :: rest, hc =>
    have hh : h < 256 := (wf_cons.1 hc).1
    have hl : len < 256 := (wf_cons.1 (wf_cons.1 hc).2).1
    have hr : Bytes.wf rest := (wf_cons.1 (wf_cons.1 hc).2).2
    generalize hB : (h :: len :: rest).flatMap lsbFirst = B
    have hlen : B.length = 8 * (rest.length + 2) := by rw [← hB, bits_length]; simp
    have t8 : B.take 8 = lsbFirst h := by
      rw [← hB, show (8 : Nat) = 8 * 1 by rfl, bits_take]; simp
    have d8 : (B.drop 8).take 8 = lsbFirst len := by
      rw [← hB, show (8 : Nat) = 8 * 1 by rfl, bits_drop, bits_take]; simp
    have tn : B.take (16 + 8 * len) = (h :: len :: rest.take len).flatMap lsbFirst := by
      rw [← hB, show 16 + 8 * len = 8 * (len + 2) by omega, bits_take]; simp
    have dn : (B.drop (16 + 8 * len)).take 24 = ((rest.drop len).take 3).flatMap lsbFirst := by
      rw [← hB, show 16 + 8 * len = 8 * (len + 2) by omega, bits_drop,
        show (24 : Nat) = 8 * 3 by rfl, bits_take]; simp
    have dp : (B.drop 16).take (8 * len) = (rest.take len).flatMap lsbFirst := by
      rw [← hB, show (16 : Nat) = 8 * 2 by rfl, bits_drop, bits_take]; simp
    have hwfd : Bytes.wf (h :: len :: rest.take len) :=
      wf_cons.2 ⟨hh, wf_cons.2 ⟨hl, wf_take _ hr⟩⟩
    unfold parsePdu parseBytes
    simp only [hlen, t8, d8, tn, dn, dp, (byte_table h hh).2.2.2.1, (byte_table len hl).2.2.2.1]
    have h16 : ¬ (8 * (rest.length + 2) < 16) := by omega
    simp only [h16, ↓reduceIte]
    rw [show crcOfBits ((h :: len :: rest.take len).flatMap lsbFirst)
        = crc24Reg (h :: len :: rest.take len) from crc24Reg_bits _ hwfd, crcBits_eq]
    by_cases hfit : len + 3 ≤ rest.length
    · have h1 : ¬ (8 * (rest.length + 2) < 16 + 8 * len + 24) := by omega
      simp only [h1, ↓reduceIte, hfit, true_and]
      have hoct : octets len ((rest.take len).flatMap lsbFirst) = rest.take len := by
        have : (rest.take len).length = len := by simp; omega
        have h2 := octets_bits _ (wf_take len hr)
        rwa [this] at h2
      by_cases hcrc : (rest.drop len).take 3 = crc24 (h :: len :: rest.take len)
      · simp [hcrc, hoct]
      · have : ¬ (((rest.drop len).take 3).flatMap lsbFirst
            = (crc24 (h :: len :: rest.take len)).flatMap lsbFirst) := fun e =>
          hcrc (bits_inj _ _ (wf_take _ (wf_drop _ hr)) (crc24_wf _) e)
        simp [hcrc, this]
    · have h1 : 8 * (rest.length + 2) < 16 + 8 * len + 24 := by omega
      simp [h1, hfit]

end Nrf.Proofs.Ble
