/-
`advertise` / `_make_payload` in closed form, and what the spec receiver makes of the result.
-/
import NrfProofs.Ble.Recv
import NrfModel.Ble.Device

namespace Nrf.Proofs.Ble
open Nrf.Ble Nrf.Spec.BleLL

/-- coefficient after `whitener` has processed a buffer -/
def coefAfter : Bytes → Nat → Nat
  | [], c => c
  | b :: bs, c => coefAfter bs (whitenByte b c).2

theorem whitener_append (a b : Bytes) (c : Nat) :
    whitener (a ++ b) c = whitener a c ++ whitener b (coefAfter a c) := by
  induction a generalizing c with
  | nil => rfl
  | cons x xs ih => simp [whitener, coefAfter, ih]

/-- whitening twice with the same coefficient gives the buffer back (bytewise form) -/
theorem whitener_invol (a : Bytes) (c : Nat) :
    whitener (whitener a c) c = a ∧ coefAfter (whitener a c) c = coefAfter a c := by
  induction a generalizing c with
  | nil => exact ⟨rfl, rfl⟩
  | cons x xs ih =>
    have h1 : whitenByte (whitenByte x c).1 c = (x, (whitenByte x c).2) := by
      rw [whitenByte_factor x c, whitenByte_factor (x ^^^ ksByte c) c]
      simp [Nat.xor_assoc]
    simp only [whitener, coefAfter, h1]
    exact ⟨by rw [(ih _).1], (ih _).2⟩

theorem parseBytes_packet (h n : Nat) (body junk : Bytes) (hn : body.length = n) :
    parseBytes ([h, n] ++ body ++ crc24 (h :: n :: body) ++ junk) = some ⟨h, n, body⟩ := by
  have e : [h, n] ++ body ++ crc24 (h :: n :: body) ++ junk
      = h :: n :: (body ++ (crc24 (h :: n :: body) ++ junk)) := by simp
  rw [e]
  unfold parseBytes
  have t : (body ++ (crc24 (h :: n :: body) ++ junk)).take n = body := by
    rw [← hn]; exact List.take_left
  have d : (body ++ (crc24 (h :: n :: body) ++ junk)).drop n = crc24 (h :: n :: body) ++ junk := by
    rw [← hn]; exact List.drop_left
  have t3 : (crc24 (h :: n :: body) ++ junk).take 3 = crc24 (h :: n :: body) := by
    rw [← crc24_length (h :: n :: body)]; exact List.take_left
  simp only [t, d, t3, and_true, List.length_append, crc24_length]
  have : n + 3 ≤ body.length + (3 + junk.length) := by omega
  simp [this]

/-- the receiver's view of what is on the air when the radio is tuned to the frequency the
    whitening index stands for -/
theorem bleReceive_air (s : Ble) (rfCh : Nat) (p : Bytes) (hp : p.wf)
    (ht : BLE_FREQ[s.currFreq]? = some rfCh) :
    bleReceive rfCh (airBits p) = parseBytes (s.whiten (reverseBits p)) := by
  have hcf : s.currFreq < 3 := by
    rcases Nat.lt_or_ge s.currFreq 3 with h | h
    · exact h
    · have : BLE_FREQ[s.currFreq]? = none := List.getElem?_eq_none (by simp [BLE_FREQ]; omega)
      rw [this] at ht; cases ht
  have hch : channelIndex rfCh = some (37 + s.currFreq) := by
    have : s.currFreq = 0 ∨ s.currFreq = 1 ∨ s.currFreq = 2 := by omega
    rcases this with h | h | h <;> rw [h] at ht ⊢ <;> simp [BLE_FREQ] at ht <;> subst ht <;> rfl
  obtain ⟨hinit, hlt⟩ := coef_init s.currFreq hcf
  unfold bleReceive Ble.whiten
  rw [hch]
  simp only []
  rw [airBits_eq p hp, ← hinit, ← whitener_bits _ _ hlt,
    parsePdu_bytes _ (whitener_wf _ _ (reverseBits_wf p hp) hlt)]

/-- the PA-level chunk `_make_payload` inserts -/
def paChunk (s : Ble) (r : Radio) : Bytes :=
  if s.showDbm then [2, 0x0A, (r.paLevel % 256).toNat] else []

/-- the name chunk `_make_payload` inserts -/
def nameChunk (s : Ble) : Bytes :=
  match s.name with
  | some n => [n.length + 1, 0x08] ++ n
  | none => []

/-- the PDU payload: AdvA, flags, optional fields, the caller's chunks -/
def advBody (s : Ble) (r : Radio) (user : Bytes) : Bytes :=
  s.mac ++ [2, 1, 5] ++ paChunk s r ++ nameChunk s ++ user

theorem paLevel_cases (r : Radio) :
    r.paLevel = 0 ∨ r.paLevel = -6 ∨ r.paLevel = -12 ∨ r.paLevel = -18 := by
  unfold Radio.paLevel
  have h1 : r.rfSetup &&& 6 ≤ 6 := Nat.and_le_right
  have h2 : (r.rfSetup &&& 6) >>> 1 ≤ 3 := by rw [Nat.shiftRight_eq_div_pow]; omega
  generalize (r.rfSetup &&& 6) >>> 1 = k at h2
  have : k = 0 ∨ k = 1 ∨ k = 2 ∨ k = 3 := by omega
  rcases this with rfl | rfl | rfl | rfl <;> simp

theorem paChunk_length (s : Ble) (r : Radio) : (paChunk s r).length = showDbm3 s := by
  unfold paChunk showDbm3; cases s.showDbm <;> simp

theorem nameChunk_length (s : Ble) : (nameChunk s).length = s.nameLength := by
  unfold nameChunk Ble.nameLength; cases s.name <;> simp

theorem advBody_length (s : Ble) (r : Radio) (user : Bytes) :
    (advBody s r user).length = s.mac.length + 3 + showDbm3 s + s.nameLength + user.length := by
  simp [advBody, paChunk_length, nameChunk_length]; omega

theorem chunk_ok (buf : Bytes) (t : Nat) (h : buf.length + 1 < 256) :
    chunk buf t = .ok ((buf.length + 1) :: (t &&& 0xFF) :: buf) := by
  have : t &&& 0xFF < 256 := Nat.lt_of_le_of_lt Nat.and_le_right (by decide)
  simp [chunk, bytes2, h, this, bind, Except.bind, pure, Except.pure]

theorem chunk_err (buf : Bytes) (t : Nat) (h : ¬ buf.length + 1 < 256) :
    chunk buf t = .error .valueError := by
  simp [chunk, bytes2, h, bind, Except.bind]

theorem packb_pa (r : Radio) : packb r.paLevel = .ok [(r.paLevel % 256).toNat] := by
  rcases paLevel_cases r with h | h | h | h <;> rw [h] <;> simp [packb]

/-- `_make_payload` in closed form when the payload fits -/
theorem makePayload_ok (s : Ble) (r : Radio) (user : Bytes) (hfit : 0 ≤ s.lenAvailable user) :
    s.makePayload r user =
      .ok ([0x42, 9 + user.length + s.nameLength + showDbm3 s] ++ advBody s r user ++
        crc24 (0x42 :: (9 + user.length + s.nameLength + showDbm3 s) :: advBody s r user)) := by
  have hfit' := hfit
  unfold Ble.lenAvailable at hfit'
  have hsz : 9 + user.length + s.nameLength + showDbm3 s < 256 := by omega
  unfold Ble.makePayload
  have h0 : ¬ (s.lenAvailable user < 0) := by omega
  simp only [h0, ↓reduceIte, bytes2, hsz, show (66 : Nat) < 256 by decide, and_self,
    chunk_ok [5] 1 (by decide), packb_pa, crc24M_eq, bind, Except.bind, pure, Except.pure]
  cases hd : s.showDbm <;> cases hn : s.name
  · simp [advBody, paChunk, nameChunk, hd, hn]
  · rename_i n
    have h1 : n.length + 1 < 256 := by simp [Ble.nameLength, hn] at hsz; omega
    simp [advBody, paChunk, nameChunk, hd, hn, Ble.nameLength, chunk_ok n 8 h1]
  · simp [advBody, paChunk, nameChunk, hd, hn, chunk_ok [(r.paLevel % 256).toNat] 10 (by simp)]
  · rename_i n
    have h1 : n.length + 1 < 256 := by simp [Ble.nameLength, hn] at hsz; omega
    simp [advBody, paChunk, nameChunk, hd, hn, Ble.nameLength, chunk_ok n 8 h1,
      chunk_ok [(r.paLevel % 256).toNat] 10 (by simp)]

theorem makePayload_err (s : Ble) (r : Radio) (user : Bytes) (hfit : s.lenAvailable user < 0) :
    s.makePayload r user = .error .valueError := by
  simp [Ble.makePayload, hfit]


/-- the bytes `advertise` places after the optional fields -/
def userBytes : AdvArg → Option Bytes
  | .bytes buf t => some (if buf = [] then [] else (buf.length + 1) :: (t &&& 0xFF) :: buf)
  | .list cs => some cs.flatten
  | .other => none

/-- the complete de-whitened packet for the user bytes `user` -/
def packet (s : Ble) (r : Radio) (user : Bytes) : Bytes :=
  [0x42, 9 + user.length + s.nameLength + showDbm3 s] ++ advBody s r user ++
    crc24 (0x42 :: (9 + user.length + s.nameLength + showDbm3 s) :: advBody s r user)

theorem foldl_append_flatten (cs : List Bytes) (acc : Bytes) :
    cs.foldl (· ++ ·) acc = acc ++ cs.flatten := by
  induction cs generalizing acc with
  | nil => simp
  | cons c cs ih => simp [ih]

theorem advertise_aux (s : Ble) (r : Radio) (user : Bytes) :
    (s.makePayload r user >>= fun p => (pure (reverseBits (s.whiten p)) : PyM Bytes)) =
      if s.lenAvailable user < 0 then .error .valueError
      else .ok (reverseBits (s.whiten (packet s r user))) := by
  by_cases h : s.lenAvailable user < 0
  · simp [h, makePayload_err, bind, Except.bind]
  · have hk := makePayload_ok s r user (by omega)
    simp [h, hk, packet, bind, Except.bind, pure, Except.pure]

/-- `advertise` completely characterised -/
theorem advertise_char (s : Ble) (r : Radio) (a : AdvArg) :
    s.advertise r a =
      match userBytes a with
      | none => .error .valueError
      | some user =>
        if s.lenAvailable user < 0 then .error .valueError
        else .ok (reverseBits (s.whiten (packet s r user))) := by
  unfold Ble.advertise
  cases a with
  | other => simp [userBytes, bind, Except.bind]
  | list cs =>
    simp only [userBytes, foldl_append_flatten, List.nil_append]
    exact advertise_aux s r cs.flatten
  | bytes buf t =>
    simp only [userBytes]
    by_cases hb : buf = []
    · simp only [hb, ne_eq, not_true_eq_false, ↓reduceIte]
      exact advertise_aux s r []
    · simp only [hb, ne_eq, not_false_eq_true, ↓reduceIte]
      by_cases hl : buf.length + 1 < 256
      · rw [chunk_ok buf t hl]
        exact advertise_aux s r _
      · have : s.lenAvailable ((buf.length + 1) :: (t &&& 0xFF) :: buf) < 0 := by
          simp [Ble.lenAvailable]; omega
        simp [chunk_err buf t hl, bind, Except.bind, this]

theorem packet_length (s : Ble) (r : Radio) (user : Bytes) :
    (packet s r user).length = 2 + s.mac.length + 3 + showDbm3 s + s.nameLength + user.length + 3 := by
  simp [packet, advBody_length, crc24_length]; omega

theorem paByte_lt (r : Radio) : (r.paLevel % 256).toNat < 256 := by omega

theorem packet_wf (s : Ble) (r : Radio) (user : Bytes) (hm : s.mac.wf)
    (hn : ∀ n, s.name = some n → n.wf) (hu : user.wf) (hfit : 0 ≤ s.lenAvailable user) :
    (packet s r user).wf := by
  unfold Ble.lenAvailable at hfit
  have hsz : 9 + user.length + s.nameLength + showDbm3 s < 256 := by omega
  have hpa : (paChunk s r).wf := by
    unfold paChunk; split
    · intro x hx
      simp only [List.mem_cons, List.not_mem_nil, or_false] at hx
      rcases hx with rfl | rfl | rfl
      · decide
      · decide
      · exact paByte_lt r
    · exact wf_nil
  have hnm : (nameChunk s).wf := by
    unfold nameChunk
    cases h : s.name with
    | none => exact wf_nil
    | some n =>
      have : n.length + 1 < 256 := by simp [Ble.nameLength, h] at hsz; omega
      simp only []
      exact wf_append.2 ⟨by intro x hx; simp at hx; rcases hx with rfl | rfl <;> omega, hn n h⟩
  unfold packet advBody
  refine wf_append.2 ⟨wf_append.2 ⟨?_, ?_⟩, crc24_wf _⟩
  · intro x hx; simp at hx; rcases hx with rfl | rfl <;> omega
  · refine wf_append.2 ⟨wf_append.2 ⟨wf_append.2 ⟨wf_append.2 ⟨hm, ?_⟩, hpa⟩, hnm⟩, hu⟩
    intro x hx; simp at hx; rcases hx with rfl | rfl | rfl <;> omega

/-- what a BLE receiver tuned to the same frequency gets from the payload handed to `send`
    (followed by whatever padding the radio adds) -/
theorem receive_packet (s : Ble) (rfCh : Nat) (r : Radio) (user pad : Bytes)
    (hmac : s.mac.length = 6) (hm : s.mac.wf) (hn : ∀ n, s.name = some n → n.wf) (hu : user.wf) (hp : pad.wf)
    (hfit : 0 ≤ s.lenAvailable user) (ht : BLE_FREQ[s.currFreq]? = some rfCh) :
    bleReceive rfCh (airBits (reverseBits (s.whiten (packet s r user)) ++ pad)) =
      some ⟨0x42, 9 + user.length + s.nameLength + showDbm3 s, advBody s r user⟩ ∧
    s.whiten (reverseBits (reverseBits (s.whiten (packet s r user)) ++ pad)) =
      packet s r user ++ whitener (reverseBits pad)
        (coefAfter (packet s r user) ((s.currFreq + 37) ||| 0x40)) := by
  have hcf : s.currFreq < 3 := by
    rcases Nat.lt_or_ge s.currFreq 3 with h | h
    · exact h
    · have : BLE_FREQ[s.currFreq]? = none := List.getElem?_eq_none (by simp [BLE_FREQ]; omega)
      rw [this] at ht; cases ht
  obtain ⟨_, hlt⟩ := coef_init s.currFreq hcf
  have hpw := packet_wf s r user hm hn hu hfit
  have hww : (s.whiten (packet s r user)).wf := whitener_wf _ _ hpw hlt
  have hcache : s.whiten (reverseBits (reverseBits (s.whiten (packet s r user)) ++ pad)) =
      packet s r user ++ whitener (reverseBits pad)
        (coefAfter (packet s r user) ((s.currFreq + 37) ||| 0x40)) := by
    rw [reverseBits_append, reverseBits_invol _ hww]
    unfold Ble.whiten
    rw [whitener_append, (whitener_invol _ _).1, (whitener_invol _ _).2]
  refine ⟨?_, hcache⟩
  rw [bleReceive_air s rfCh _ (wf_append.2 ⟨reverseBits_wf _ hww, hp⟩) ht, hcache]
  unfold packet
  apply parseBytes_packet
  rw [advBody_length]; omega

end Nrf.Proofs.Ble
