/-
The spec transmitter and the spec receiver agree (a foreign, standard-conforming advertiser
heard through an nRF24L01 is accepted by the spec receiver).
-/
import NrfProofs.Ble.Frame

namespace Nrf.Proofs.Ble
open Nrf.Ble Nrf.Spec.BleLL

theorem bits8_table : ∀ b0 b1 b2 b3 b4 b5 b6 b7 : Bool,
    msbFirst (valMsb [b0, b1, b2, b3, b4, b5, b6, b7]) = [b0, b1, b2, b3, b4, b5, b6, b7] ∧
    valMsb [b0, b1, b2, b3, b4, b5, b6, b7] < 256 := by
  decide

theorem msbFirst_valMsb (bs : List Bool) (h : bs.length = 8) :
    msbFirst (valMsb bs) = bs ∧ valMsb bs < 256 := by
  match bs, h with
  | [b0, b1, b2, b3, b4, b5, b6, b7], _ => exact bits8_table b0 b1 b2 b3 b4 b5 b6 b7

/-- the nRF24L01 receiver hands out the first `8 n` bits of the stream, byte by byte -/
theorem airBits_nrfBytes (n : Nat) (bits : List Bool) (h : 8 * n ≤ bits.length) :
    airBits (nrfBytes n bits) = bits.take (8 * n) ∧ (nrfBytes n bits).wf ∧
      (nrfBytes n bits).length = n := by
  induction n generalizing bits with
  | zero => simp [nrfBytes, airBits, Bytes.wf]
  | succ n ih =>
    have hl : ¬ bits.length < 8 := by omega
    simp only [nrfBytes, hl, ↓reduceIte]
    obtain ⟨h1, h2⟩ := msbFirst_valMsb (bits.take 8) (by simp; omega)
    obtain ⟨i1, i2, i3⟩ := ih (bits.drop 8) (by simp; omega)
    refine ⟨?_, ?_, by simp [i3]⟩
    · simp only [airBits, List.flatMap_cons] at i1 ⊢
      rw [h1, i1, show 8 * (n + 1) = 8 + 8 * n by omega, List.take_add]
    · exact wf_cons.2 ⟨h2, i2⟩

theorem whitenBits_take (l : Lfsr) (x : List Bool) (n : Nat) :
    whitenBits l (x.take n) = (whitenBits l x).take n := by
  induction x generalizing l n with
  | nil => simp [whitenBits]
  | cons b bs ih =>
    cases n with
    | zero => simp [whitenBits]
    | succ n => simp [whitenBits, ih]

theorem crcBits_length (r : Nat) : (crcBits r).length = 24 := by simp [crcBits]

/-- the receiver's parser on a transmitted packet followed by arbitrary bits -/
theorem parsePdu_packet_bits (h len : Nat) (body : Bytes) (junk : List Bool)
    (hh : h < 256) (hl : len < 256) (hb : body.wf) (hlen : body.length = len) :
    parsePdu ((h :: len :: body).flatMap lsbFirst ++
      crcBits (crcOfBits ((h :: len :: body).flatMap lsbFirst)) ++ junk) = some ⟨h, len, body⟩ := by
  generalize hB : (h :: len :: body).flatMap lsbFirst = B
  have hBl : B.length = 16 + 8 * len := by rw [← hB, bits_length]; simp [hlen]; omega
  have hB2 : B = lsbFirst h ++ (lsbFirst len ++ body.flatMap lsbFirst) := by
    rw [← hB]; simp
  generalize hC : crcBits (crcOfBits B) = C
  have hCl : C.length = 24 := by rw [← hC, crcBits_length]
  unfold parsePdu
  have h16 : ¬ (B ++ C ++ junk).length < 16 := by simp; omega
  simp only [h16, ↓reduceIte]
  have t8 : (B ++ C ++ junk).take 8 = lsbFirst h := by
    rw [hB2]; simp only [List.append_assoc]
    exact List.take_left' (lsbFirst_length h)
  have d8 : ((B ++ C ++ junk).drop 8).take 8 = lsbFirst len := by
    rw [hB2]; simp only [List.append_assoc]
    rw [List.drop_left' (lsbFirst_length h)]
    exact List.take_left' (lsbFirst_length len)
  rw [t8, d8, (byte_table h hh).2.2.2.1, (byte_table len hl).2.2.2.1]
  have hfit : ¬ (B ++ C ++ junk).length < 16 + 8 * len + 24 := by simp; omega
  simp only [hfit, ↓reduceIte]
  have tn : (B ++ C ++ junk).take (16 + 8 * len) = B := by
    rw [List.append_assoc]; exact List.take_left' hBl
  have dn : ((B ++ C ++ junk).drop (16 + 8 * len)).take 24 = C := by
    rw [List.append_assoc, List.drop_left' hBl]; exact List.take_left' hCl
  rw [tn, dn, hC]
  simp only [↓reduceIte]
  have dp : ((B ++ C ++ junk).drop 16).take (8 * len) = body.flatMap lsbFirst := by
    rw [hB2]; simp only [List.append_assoc]
    rw [show (16 : Nat) = 8 + 8 by rfl, ← List.drop_drop, List.drop_left' (lsbFirst_length h),
      List.drop_left' (lsbFirst_length len)]
    exact List.take_left' (by rw [bits_length, hlen])
  rw [dp]
  have := octets_bits body hb
  rw [hlen] at this
  rw [this]

/-- **spec transmitter → nRF24L01 → spec receiver**: the packet `h, len, body` sent on `rfCh`,
    followed by anything, is received as that PDU from the 32 bytes the radio hands out -/
theorem specEncode_receive (rfCh h len : Nat) (body : Bytes) (tail : List Bool)
    (hh : h < 256) (hl : len < 256) (hb : body.wf) (hlen : body.length = len) (hfit : len ≤ 27)
    (htail : 256 ≤ 8 * (len + 5) + tail.length)
    (hch : (channelIndex rfCh).isSome) :
    ∃ p, specEncode rfCh (h :: len :: body) tail = some p ∧ p.length = 32 ∧ p.wf ∧
      bleReceive rfCh (airBits p) = some ⟨h, len, body⟩ := by
  cases hci : channelIndex rfCh with
  | none => rw [hci] at hch; cases hch
  | some ch =>
    unfold specEncode bleReceive
    simp only [hci]
    generalize hB : (h :: len :: body).flatMap lsbFirst = B
    have hBl : B.length = 16 + 8 * len := by rw [← hB, bits_length]; simp [hlen]; omega
    have hSl : 8 * 32 ≤ (bleTransmit ch (h :: len :: body) ++ tail).length := by
      simp only [bleTransmit, hB, List.length_append, whitenBits_length, crcBits_length, hBl]
      omega
    obtain ⟨a1, a2, a3⟩ := airBits_nrfBytes 32 _ hSl
    refine ⟨_, rfl, a3, a2, ?_⟩
    rw [a1, whitenBits_take]
    simp only [bleTransmit, hB]
    rw [whitenBits_append, whitenBits_invol]
    have hpk := parsePdu_packet_bits h len body
      ((whitenBits (clockN (whitenBits (Lfsr.init ch) (B ++ crcBits (crcOfBits B))).length
        (Lfsr.init ch)) tail).take (8 * 32 - (B ++ crcBits (crcOfBits B)).length)) hh hl hb hlen
    rw [hB] at hpk
    rw [← hpk]
    congr 1
    rw [List.take_append]
    have : (B ++ crcBits (crcOfBits B)).length ≤ 8 * 32 := by
      simp only [List.length_append, crcBits_length, hBl]; omega
    rw [List.take_of_length_le this]

end Nrf.Proofs.Ble
