/-
AD structures: the spec parser inverts the encoding `length, type, data`.
-/
import NrfProofs.Ble.Adv

namespace Nrf.Proofs.Ble
open Nrf.Ble Nrf.Spec.BleLL

/-- one AD structure on the wire -/
def encodeAd (a : Nat × Bytes) : Bytes := (a.2.length + 1) :: a.1 :: a.2

def encodeAds (ads : List (Nat × Bytes)) : Bytes := (ads.map encodeAd).flatten

theorem encodeAds_cons (a : Nat × Bytes) (ads : List (Nat × Bytes)) :
    encodeAds (a :: ads) = (a.2.length + 1) :: a.1 :: (a.2 ++ encodeAds ads) := by
  simp [encodeAds, encodeAd]

theorem encodeAds_append (a b : List (Nat × Bytes)) :
    encodeAds (a ++ b) = encodeAds a ++ encodeAds b := by
  simp [encodeAds]

theorem parseAdsF_encode (ads : List (Nat × Bytes)) (fuel : Nat)
    (h : (encodeAds ads).length ≤ fuel) : parseAdsF fuel (encodeAds ads) = some ads := by
  induction ads generalizing fuel with
  | nil => cases fuel <;> rfl
  | cons a ads ih =>
    obtain ⟨t, d⟩ := a
    rw [encodeAds_cons] at h ⊢
    simp only [List.length_cons, List.length_append] at h
    cases fuel with
    | zero => omega
    | succ fuel =>
      simp only [parseAdsF]
      have h1 : ¬ (d.length + 1 = 0 ∨ (d ++ encodeAds ads).length < d.length) := by
        simp
      simp only [Nat.add_sub_cancel, List.drop_left, List.take_left]
      rw [ih fuel (by omega)]
      simp only [h1, ↓reduceIte]

theorem parseAds_encode (ads : List (Nat × Bytes)) : parseAds (encodeAds ads) = some ads :=
  parseAdsF_encode ads _ (Nat.le_refl _)

/-- AD structures of the optional fields -/
def paAd (s : Ble) (r : Radio) : List (Nat × Bytes) :=
  if s.showDbm then [(0x0A, [(r.paLevel % 256).toNat])] else []

def nameAd (s : Ble) : List (Nat × Bytes) :=
  match s.name with
  | some n => [(0x08, n)]
  | none => []

theorem advBody_ads (s : Ble) (r : Radio) (uads : List (Nat × Bytes)) :
    advBody s r (encodeAds uads) =
      s.mac ++ encodeAds ((0x01, [0x05]) :: (paAd s r ++ nameAd s ++ uads)) := by
  unfold advBody paChunk nameChunk paAd nameAd
  cases s.showDbm <;> cases s.name <;> simp [encodeAds, encodeAd]

theorem txPower_pa (r : Radio) : txPower [(r.paLevel % 256).toNat] = some r.paLevel := by
  rcases paLevel_cases r with h | h | h | h <;> rw [h] <;> decide

end Nrf.Proofs.Ble
