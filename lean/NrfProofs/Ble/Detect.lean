/-
Error detection: the spec receiver rejects every packet that differs from an accepted one in one
or two on-air bits of the PDU / CRC outside the length octet (CRC linearity + a finite table of
syndromes).
-/
import NrfProofs.Ble.Foreign

namespace Nrf.Proofs.Ble
open Nrf.Ble Nrf.Spec.BleLL

/-- invert bit `i` of a stream -/
def flipBit : List Bool → Nat → List Bool
  | [], _ => []
  | b :: t, 0 => (!b) :: t
  | b :: t, i + 1 => b :: flipBit t i

theorem flipBit_length (l : List Bool) (i : Nat) : (flipBit l i).length = l.length := by
  induction l generalizing i with
  | nil => rfl
  | cons b t ih => cases i <;> simp [flipBit, ih]

theorem flipBit_take (l : List Bool) (i m : Nat) :
    (flipBit l i).take m = if i < m then flipBit (l.take m) i else l.take m := by
  induction l generalizing i m with
  | nil => simp [flipBit]
  | cons b t ih =>
    cases m with
    | zero => simp
    | succ m =>
      cases i with
      | zero => simp [flipBit]
      | succ i =>
        simp only [flipBit, List.take_succ_cons, ih, Nat.add_lt_add_iff_right]
        split <;> rfl

theorem flipBit_drop (l : List Bool) (i m : Nat) :
    (flipBit l i).drop m = if i < m then l.drop m else flipBit (l.drop m) (i - m) := by
  induction l generalizing i m with
  | nil => simp [flipBit]
  | cons b t ih =>
    cases m with
    | zero => simp
    | succ m =>
      cases i with
      | zero => simp [flipBit]
      | succ i =>
        simp only [flipBit, List.drop_succ_cons, ih, Nat.add_lt_add_iff_right,
          Nat.add_sub_add_right]

theorem flipBit_ne (l : List Bool) (i : Nat) (h : i < l.length) : flipBit l i ≠ l := by
  induction l generalizing i with
  | nil => simp at h
  | cons b t ih =>
    cases i with
    | zero => simp [flipBit]
    | succ i =>
      simp only [flipBit, ne_eq, List.cons.injEq, true_and]
      exact ih i (by simpa using h)

theorem flipBit_flipBit_ne (l : List Bool) (i j : Nat) (hi : i < l.length) (hj : j < l.length)
    (hij : i ≠ j) : flipBit (flipBit l i) j ≠ l := by
  induction l generalizing i j with
  | nil => simp at hi
  | cons b t ih =>
    cases i with
    | zero =>
      cases j with
      | zero => exact absurd rfl hij
      | succ j => simp [flipBit]
    | succ i =>
      cases j with
      | zero => simp [flipBit]
      | succ j =>
        simp only [flipBit, ne_eq, List.cons.injEq, true_and]
        exact ih i j (by simpa using hi) (by simpa using hj) (by omega)

theorem whitenBits_flipBit (l : Lfsr) (x : List Bool) (i : Nat) :
    whitenBits l (flipBit x i) = flipBit (whitenBits l x) i := by
  induction x generalizing l i with
  | nil => rfl
  | cons b t ih =>
    cases i with
    | zero => cases b <;> cases l.p6 <;> simp [flipBit, whitenBits]
    | succ i => simp [flipBit, whitenBits, ih]

/-- the syndrome of a single inverted data bit that is followed by `d` more data bits -/
def synd (d : Nat) : Nat := iter crcL d crcFeedback

theorem crcL_top : crcL (2 ^ 23) = crcFeedback := by decide

theorem crcClock_not (r : Nat) (b : Bool) : crcClock r (!b) = crcFeedback ^^^ crcClock r b := by
  rw [crcClock_eq, crcClock_eq]
  cases b
  · simp only [Bool.not_false, ↓reduceIte, Bool.false_eq_true, Nat.xor_zero]
    rw [crcL_xor, crcL_top, Nat.xor_comm]
  · simp only [Bool.not_true, Bool.false_eq_true, ↓reduceIte, Nat.xor_zero]
    rw [crcL_xor, crcL_top, ← Nat.xor_assoc, Nat.xor_comm crcFeedback, Nat.xor_assoc,
      Nat.xor_self, Nat.xor_zero]

/-- CRC of a stream with one inverted bit -/
theorem crc_flipBit (B : List Bool) (r i : Nat) (hi : i < B.length) :
    (flipBit B i).foldl crcClock r = synd (B.length - 1 - i) ^^^ B.foldl crcClock r := by
  induction B generalizing r i with
  | nil => simp at hi
  | cons b t ih =>
    cases i with
    | zero =>
      simp only [flipBit, List.foldl_cons, crcClock_not, foldl_crcClock_xor, List.length_cons,
        Nat.add_sub_cancel, Nat.sub_zero]
      rfl
    | succ i =>
      simp only [flipBit, List.foldl_cons, List.length_cons]
      rw [ih _ i (by simpa using hi)]
      congr 2
      omega

/-- successive register states `F, L F, L² F, …` -/
def syndList : Nat → Nat → List Nat
  | 0, _ => []
  | n + 1, r => r :: syndList n (crcL r)

theorem synd_facts :
    (syndList 232 crcFeedback).Nodup ∧
    (∀ x ∈ syndList 232 crcFeedback, x ≠ 0 ∧ x < 2 ^ 24 ∧ ∀ k, k < 24 → x ≠ 2 ^ k) := by
  decide +kernel

theorem iter_succ' {α} (f : α → α) (n : Nat) (a : α) : iter f (n + 1) a = f (iter f n a) := by
  induction n generalizing a with
  | zero => rfl
  | succ n ih => simp only [iter] at ih ⊢; rw [ih]

theorem syndList_getElem (n r k : Nat) (h : k < (syndList n r).length) :
    (syndList n r)[k] = iter crcL k r := by
  induction n generalizing r k with
  | zero => simp [syndList] at h
  | succ n ih =>
    cases k with
    | zero => rfl
    | succ k =>
      simp only [syndList, List.getElem_cons_succ]
      rw [ih]
      rfl

theorem syndList_length (n r : Nat) : (syndList n r).length = n := by
  induction n generalizing r with
  | zero => rfl
  | succ n ih => simp [syndList, ih]

theorem synd_mem (d : Nat) (h : d < 232) : synd d ∈ syndList 232 crcFeedback := by
  have hl : d < (syndList 232 crcFeedback).length := by rw [syndList_length]; exact h
  have := syndList_getElem 232 crcFeedback d hl
  unfold synd
  rw [← this]
  exact List.getElem_mem hl

theorem synd_inj (d1 d2 : Nat) (h1 : d1 < 232) (h2 : d2 < 232) (h : synd d1 = synd d2) :
    d1 = d2 := by
  have hnd := synd_facts.1
  rw [List.Nodup, List.pairwise_iff_getElem] at hnd
  have hl : (syndList 232 crcFeedback).length = 232 := syndList_length _ _
  rcases Nat.lt_trichotomy d1 d2 with hlt | heq | hgt
  · have := hnd d1 d2 (by omega) (by omega) hlt
    rw [syndList_getElem, syndList_getElem] at this
    exact absurd h this
  · exact heq
  · have := hnd d2 d1 (by omega) (by omega) hgt
    rw [syndList_getElem, syndList_getElem] at this
    exact absurd h.symm this

theorem xor_cancel (a b c : Nat) (h : a ^^^ b = a ^^^ c) : b = c := by
  have := congrArg (a ^^^ ·) h
  simp only [← Nat.xor_assoc, Nat.xor_self, Nat.zero_xor] at this
  exact this


theorem flipBit_getElem (l : List Bool) (k m : Nat) (hm : m < (flipBit l k).length) :
    (flipBit l k)[m] = if m = k then !(l[m]'(by rw [flipBit_length] at hm; exact hm))
      else l[m]'(by rw [flipBit_length] at hm; exact hm) := by
  induction l generalizing k m with
  | nil => simp [flipBit] at hm
  | cons b t ih =>
    cases k with
    | zero =>
      cases m with
      | zero => simp [flipBit]
      | succ m => simp [flipBit]
    | succ k =>
      cases m with
      | zero => simp [flipBit]
      | succ m =>
        simp only [flipBit, List.getElem_cons_succ, Nat.add_right_cancel_iff]
        exact ih k m _

theorem crcBits_getElem (x m : Nat) (hm : m < (crcBits x).length) :
    (crcBits x)[m] = x.testBit (23 - m) := by
  simp [crcBits]

theorem crcBits_inj (x y : Nat) (hx : x < 2 ^ 24) (hy : y < 2 ^ 24) (h : crcBits x = crcBits y) :
    x = y := by
  apply Nat.eq_of_testBit_eq
  intro j
  rcases Nat.lt_or_ge j 24 with hj | hj
  · have hm : 23 - j < (crcBits x).length := by rw [crcBits_length]; omega
    have := List.getElem_of_eq h hm
    rw [crcBits_getElem, crcBits_getElem] at this
    rwa [show 23 - (23 - j) = j by omega] at this
  · have h2 : (2 : Nat) ^ 24 ≤ 2 ^ j := Nat.pow_le_pow_right (by decide) hj
    rw [Nat.testBit_lt_two_pow (Nat.lt_of_lt_of_le hx h2),
      Nat.testBit_lt_two_pow (Nat.lt_of_lt_of_le hy h2)]

theorem crcBits_flip (x k : Nat) (hk : k < 24) :
    flipBit (crcBits x) k = crcBits (x ^^^ 2 ^ (23 - k)) := by
  apply List.ext_getElem
  · rw [flipBit_length, crcBits_length, crcBits_length]
  · intro m h1 h2
    rw [flipBit_getElem, crcBits_getElem, crcBits_getElem, Nat.testBit_xor, Nat.testBit_two_pow]
    have hm : m < 24 := by rw [crcBits_length] at h2; exact h2
    by_cases hmk : m = k
    · subst hmk; simp
    · have : ¬ (23 - k = 23 - m) := by omega
      simp [hmk, this]

theorem crcClock_lt (r : Nat) (d : Bool) : crcClock r d < 2 ^ 24 := by
  unfold crcClock
  have h1 : r % 2 ^ 23 * 2 < 2 ^ 24 := by omega
  have h2 : crcFeedback < 2 ^ 24 := by decide
  simp only
  split
  · exact Nat.xor_lt_two_pow h1 h2
  · exact h1

theorem foldl_crcClock_lt (bits : List Bool) (r : Nat) (hr : r < 2 ^ 24) :
    bits.foldl crcClock r < 2 ^ 24 := by
  induction bits generalizing r with
  | nil => exact hr
  | cons b t ih => exact ih _ (crcClock_lt r b)

theorem crcOfBits_lt (bits : List Bool) : crcOfBits bits < 2 ^ 24 :=
  foldl_crcClock_lt bits _ (by decide)

/-- acceptance by the spec parser, spelled out -/
theorem parsePdu_isSome (X : List Bool) :
    (parsePdu X).isSome = true ↔
      16 ≤ X.length ∧ 16 + 8 * valLsb ((X.drop 8).take 8) + 24 ≤ X.length ∧
      (X.drop (16 + 8 * valLsb ((X.drop 8).take 8))).take 24 =
        crcBits (crcOfBits (X.take (16 + 8 * valLsb ((X.drop 8).take 8)))) := by
  unfold parsePdu
  by_cases h1 : X.length < 16
  · simp [h1]; omega
  · simp only [h1, ↓reduceIte]
    by_cases h2 : X.length < 16 + 8 * valLsb ((X.drop 8).take 8) + 24
    · simp [h2]; omega
    · simp only [h2, ↓reduceIte]
      split <;> simp_all <;> omega

theorem parsePdu_len (X : List Bool) (pdu : Pdu) (h : parsePdu X = some pdu) :
    pdu.length = valLsb ((X.drop 8).take 8) := by
  unfold parsePdu at h
  split at h
  · cases h
  · simp only at h
    split at h
    · cases h
    · split at h
      · cases h; rfl
      · cases h

/-- inverting a bit outside the length octet leaves the length field as it was -/
theorem lenbits_flip (D : List Bool) (i : Nat) (h : i < 8 ∨ 16 ≤ i) :
    ((flipBit D i).drop 8).take 8 = (D.drop 8).take 8 := by
  rw [flipBit_drop]
  rcases h with h | h
  · simp [h]
  · have h1 : ¬ i < 8 := by omega
    simp only [h1, ↓reduceIte, flipBit_take]
    have h2 : ¬ i - 8 < 8 := by omega
    simp [h2]

/-- **single-bit errors are detected** -/
theorem detect1 (D : List Bool) (hD : D.length ≤ 256) (pdu : Pdu) (h : parsePdu D = some pdu)
    (i : Nat)
    (hi : i < 16 + 8 * pdu.length + 24) (hnl : i < 8 ∨ 16 ≤ i) :
    parsePdu (flipBit D i) = none := by
  have hlen := parsePdu_len D pdu h
  have hs : (parsePdu D).isSome = true := by rw [h]; rfl
  rw [parsePdu_isSome, ← hlen] at hs
  obtain ⟨h16, hfit, hcrc⟩ := hs
  cases hp : parsePdu (flipBit D i) with
  | none => rfl
  | some pdu' =>
    exfalso
    have hs' : (parsePdu (flipBit D i)).isSome = true := by rw [hp]; rfl
    rw [parsePdu_isSome, lenbits_flip D i hnl, ← hlen] at hs'
    obtain ⟨_, _, hcrc'⟩ := hs'
    generalize hn : 16 + 8 * pdu.length = n at *
    rw [flipBit_take, flipBit_drop] at hcrc'
    by_cases hin : i < n
    · simp only [hin, ↓reduceIte] at hcrc'
      have hBl : (D.take n).length = n := by simp; omega
      rw [hcrc] at hcrc'
      unfold crcOfBits at hcrc'
      rw [crc_flipBit _ _ _ (by omega)] at hcrc'
      have := crcBits_inj _ _ (foldl_crcClock_lt _ _ (by decide))
        (Nat.xor_lt_two_pow (synd_facts.2 _ (synd_mem ((D.take n).length - 1 - i) (by omega))).2.1
          (foldl_crcClock_lt _ _ (by decide))) hcrc'
      have h0 : synd ((D.take n).length - 1 - i) = 0 := by
        have e : (D.take n).foldl crcClock crcPreset ^^^ 0
            = (D.take n).foldl crcClock crcPreset ^^^ synd ((D.take n).length - 1 - i) := by
          rw [Nat.xor_zero, Nat.xor_comm]; exact this
        exact (xor_cancel _ _ _ e).symm
      exact (synd_facts.2 _ (synd_mem _ (by omega))).1 h0
    · simp only [hin, ↓reduceIte] at hcrc'
      rw [flipBit_take] at hcrc'
      have hk : i - n < 24 := by omega
      simp only [hk, ↓reduceIte] at hcrc'
      rw [← hcrc] at hcrc'
      exact flipBit_ne _ _ (by simp; omega) hcrc'

theorem flipBit_comm (l : List Bool) (i j : Nat) :
    flipBit (flipBit l i) j = flipBit (flipBit l j) i := by
  induction l generalizing i j with
  | nil => rfl
  | cons b t ih =>
    cases i <;> cases j <;> simp [flipBit]
    exact ih _ _

/-- **double-bit errors are detected** -/
theorem detect2 (D : List Bool) (hD : D.length ≤ 256) (pdu : Pdu) (h : parsePdu D = some pdu)
    (i j : Nat)
    (hij : i < j) (hj : j < 16 + 8 * pdu.length + 24) (hnli : i < 8 ∨ 16 ≤ i)
    (hnlj : j < 8 ∨ 16 ≤ j) :
    parsePdu (flipBit (flipBit D i) j) = none := by
  have hlen := parsePdu_len D pdu h
  have hs : (parsePdu D).isSome = true := by rw [h]; rfl
  rw [parsePdu_isSome, ← hlen] at hs
  obtain ⟨h16, hfit, hcrc⟩ := hs
  cases hp : parsePdu (flipBit (flipBit D i) j) with
  | none => rfl
  | some pdu' =>
    exfalso
    have hs' : (parsePdu (flipBit (flipBit D i) j)).isSome = true := by rw [hp]; rfl
    rw [parsePdu_isSome, lenbits_flip _ j hnlj, lenbits_flip D i hnli, ← hlen] at hs'
    obtain ⟨_, _, hcrc'⟩ := hs'
    generalize hn : 16 + 8 * pdu.length = n at *
    have hBl : (D.take n).length = n := by simp; omega
    rw [flipBit_take, flipBit_drop, flipBit_take, flipBit_drop] at hcrc'
    by_cases hjn : j < n
    · -- both errors in the PDU
      have hin : i < n := by omega
      simp only [hjn, hin, ↓reduceIte] at hcrc'
      rw [hcrc] at hcrc'
      unfold crcOfBits at hcrc'
      rw [crc_flipBit _ _ _ (by rw [flipBit_length]; omega), crc_flipBit _ _ _ (by omega),
        flipBit_length] at hcrc'
      have hsi := synd_facts.2 _ (synd_mem ((D.take n).length - 1 - i) (by omega))
      have hsj := synd_facts.2 _ (synd_mem ((D.take n).length - 1 - j) (by omega))
      have := crcBits_inj _ _ (foldl_crcClock_lt _ _ (by decide))
        (Nat.xor_lt_two_pow hsj.2.1 (Nat.xor_lt_two_pow hsi.2.1
          (foldl_crcClock_lt _ _ (by decide)))) hcrc'
      have e : (D.take n).foldl crcClock crcPreset ^^^ synd ((D.take n).length - 1 - i)
          = (D.take n).foldl crcClock crcPreset ^^^ synd ((D.take n).length - 1 - j) := by
        have e2 : synd ((D.take n).length - 1 - j) ^^^ (D.take n).foldl crcClock crcPreset
            = synd ((D.take n).length - 1 - j) ^^^
              (synd ((D.take n).length - 1 - j) ^^^
                (synd ((D.take n).length - 1 - i) ^^^ (D.take n).foldl crcClock crcPreset)) := by
          rw [← this]
        rw [← Nat.xor_assoc, Nat.xor_self, Nat.zero_xor] at e2
        rw [Nat.xor_comm, ← e2, Nat.xor_comm]
      have := synd_inj _ _ (by omega) (by omega) (xor_cancel _ _ _ e)
      omega
    · simp only [hjn, ↓reduceIte] at hcrc'
      by_cases hin : i < n
      · -- one error in the PDU, one in the CRC
        simp only [hin, ↓reduceIte] at hcrc'
        rw [flipBit_take] at hcrc'
        have hk : j - n < 24 := by omega
        simp only [hk, ↓reduceIte] at hcrc'
        rw [hcrc, crcBits_flip _ _ hk] at hcrc'
        unfold crcOfBits at hcrc'
        rw [crc_flipBit _ _ _ (by omega)] at hcrc'
        have hsi := synd_facts.2 _ (synd_mem ((D.take n).length - 1 - i) (by omega))
        have hpow : (2 : Nat) ^ (23 - (j - n)) < 2 ^ 24 :=
          Nat.pow_lt_pow_right (by decide) (by omega)
        have := crcBits_inj _ _ (Nat.xor_lt_two_pow (foldl_crcClock_lt _ _ (by decide)) hpow)
          (Nat.xor_lt_two_pow hsi.2.1 (foldl_crcClock_lt _ _ (by decide))) hcrc'
        rw [Nat.xor_comm (synd _)] at this
        exact hsi.2.2 (23 - (j - n)) (by omega) (xor_cancel _ _ _ this).symm
      · -- both errors in the CRC
        simp only [hin, ↓reduceIte] at hcrc'
        rw [flipBit_take, flipBit_take] at hcrc'
        have hk1 : i - n < 24 := by omega
        have hk2 : j - n < 24 := by omega
        simp only [hk1, hk2, ↓reduceIte] at hcrc'
        rw [← hcrc] at hcrc'
        exact flipBit_flipBit_ne _ _ _ (by simp; omega) (by simp; omega) (by omega) hcrc'

end Nrf.Proofs.Ble
