/-
`FakeBLE.available` in closed form on the de-whitened cache.
-/
import NrfProofs.Ble.Decode

namespace Nrf.Proofs.Ble
open Nrf.Ble Nrf.Spec.BleLL

/-- the acceptance test of `available()` on the de-whitened bytes `h, len, rest…` -/
def accepts (h len : Nat) (rest : Bytes) : Prop :=
  len + 2 < 30 ∧ (rest.drop len).take 3 = crc24 (h :: len :: rest.take len)

instance (h len : Nat) (rest : Bytes) : Decidable (accepts h len rest) := by
  unfold accepts; infer_instance

theorem available_char (s : Ble) (p : Bytes) (h len : Nat) (rest : Bytes)
    (hc : s.whiten (reverseBits p) = h :: len :: rest) :
    s.available (some p) =
      if accepts h len rest then
        match QueueElement.ofBuffer ((h :: len :: rest).take (len + 5)) with
        | .error e => ({ s with rxCache := (h :: len :: rest).take (len + 5) }, .error e)
        | .ok q => ({ s with rxCache := (h :: len :: rest).take (len + 5),
                             rxQueue := s.rxQueue ++ [q] }, .ok true)
      else ({ s with rxCache := (h :: len :: rest).take (len + 5) }, .ok (!s.rxQueue.isEmpty)) := by
  unfold Ble.available
  simp only [hc, pyGet_one, crc24M_eq]
  have e1 : pySlice (pySlice (h :: len :: rest) 0 (len + 2 + 3)) 0 (len + 2)
      = h :: len :: rest.take len := by
    simp [pySlice, List.take_take]
  have e2 : pySlice (pySlice (h :: len :: rest) 0 (len + 2 + 3)) (len + 2) (len + 2 + 3)
      = (rest.drop len).take 3 := by
    simp only [pySlice, List.drop_zero, List.take_take, Nat.min_self]
    rw [List.drop_take]
    simp
  have e3 : pySlice (h :: len :: rest) 0 (len + 2 + 3) = (h :: len :: rest).take (len + 5) := by
    simp [pySlice]
  rw [e1, e2, e3]
  by_cases hcond : accepts h len rest
  · have hc' : len + 2 < 30 ∧ (rest.drop len).take 3 = crc24 (h :: len :: rest.take len) := hcond
    simp only [hcond, hc', and_self, ↓reduceIte]
    cases QueueElement.ofBuffer ((h :: len :: rest).take (len + 5)) <;> simp
  · have hc' : ¬ (len + 2 < 30 ∧ (rest.drop len).take 3 = crc24 (h :: len :: rest.take len)) :=
      hcond
    simp only [hcond, hc', ↓reduceIte]

theorem parseBytes_accepts (h len : Nat) (rest : Bytes) (hrest : rest.length = 30) :
    parseBytes (h :: len :: rest) =
      if accepts h len rest then some ⟨h, len, rest.take len⟩ else none := by
  unfold parseBytes accepts
  have : (len + 3 ≤ rest.length) = (len + 2 < 30) := by rw [hrest]; apply propext; omega
  simp only [this]

end Nrf.Proofs.Ble
