/-
What the reference decoding yields for the advertisements `FakeBLE` itself produces, and the
FIFO behaviour of `read()`.
-/
import NrfProofs.Ble.RxSpec

namespace Nrf.Proofs.Ble
open Nrf.Ble Nrf.Spec.BleLL

/-- the data items one AD structure contributes -/
def adItems (a : Nat × Bytes) : List Item := (applyAd { mac := [] } a).data

/-- a data chunk: not a TX-power or name structure -/
def IsDataAd (a : Nat × Bytes) : Prop := a.1 ≠ 0x0A ∧ a.1 ≠ 0x08 ∧ a.1 ≠ 0x09

theorem applyAd_data (q : QueueElement) (a : Nat × Bytes) (h : IsDataAd a) :
    applyAd q a = { q with data := q.data ++ adItems a } := by
  obtain ⟨t, d⟩ := a
  obtain ⟨h1, h2, h3⟩ := h
  simp only at h1 h2 h3
  by_cases h16 : t = 0x16
  · subst h16
    match d with
    | [] => simp [applyAd, adResult, adItems]
    | [x] => simp [applyAd, adResult, adItems]
    | lo :: hi :: rest =>
      simp only [applyAd, adResult, adItems]
      simp
      repeat' split
      all_goals simp_all
  · simp [applyAd, adResult, adItems, h1, h2, h3, h16]

theorem foldl_applyAd_data (q : QueueElement) (uads : List (Nat × Bytes))
    (h : ∀ a ∈ uads, IsDataAd a) :
    uads.foldl applyAd q = { q with data := q.data ++ uads.flatMap adItems } := by
  induction uads generalizing q with
  | nil => simp
  | cons a uads ih =>
    simp only [List.foldl_cons, List.flatMap_cons]
    rw [applyAd_data q a (h a (by simp)), ih _ (fun b hb => h b (by simp [hb]))]
    simp

/-- the element a receiver builds from an advertisement of `FakeBLE` whose user chunks are data
    chunks: MAC, name, PA level as configured; the flags structure raw; then the user's items -/
theorem refElement_own (s : Ble) (r : Radio) (uads : List (Nat × Bytes))
    (h : ∀ a ∈ uads, IsDataAd a) :
    refElement ⟨s.mac, (0x01, [0x05]) :: (paAd s r ++ nameAd s ++ uads)⟩ =
      { mac := s.mac, name := s.name,
        paLevel := if s.showDbm then some r.paLevel else none,
        data := Item.raw [2, 1, 5] :: uads.flatMap adItems } := by
  unfold refElement
  simp only [List.foldl_cons, List.foldl_append]
  rw [foldl_applyAd_data _ _ h]
  have hflags : applyAd { mac := s.mac } (0x01, [0x05]) =
      { mac := s.mac, data := [Item.raw [2, 1, 5]] } := by
    simp [applyAd, adResult, encodeAd]
  rw [hflags]
  have hpa : ∀ q : QueueElement, (paAd s r).foldl applyAd q =
      if s.showDbm then { q with paLevel := some r.paLevel } else q := by
    intro q
    unfold paAd
    cases s.showDbm
    · simp
    · have hx := txPower_pa r
      simp only [txPower, signed] at hx
      simp only [↓reduceIte, List.foldl_cons, List.foldl_nil, applyAd, adResult]
      simp only [Option.some.injEq] at hx
      have hx' : (if (r.paLevel % 256).toNat < 128 then ((r.paLevel % 256).toNat : Int)
          else ((r.paLevel % 256).toNat : Int) - 256) = r.paLevel := by
        simpa using hx
      rw [hx']
  have hnm : ∀ q : QueueElement, (nameAd s).foldl applyAd q =
      match s.name with
      | some n => { q with name := some n }
      | none => q := by
    intro q
    unfold nameAd
    cases s.name <;> simp [applyAd, adResult]
  rw [hpa, hnm]
  cases s.showDbm <;> cases s.name <;> simp

/-- operations of a receive history -/
inductive RxOp where
  /-- `available()` with a payload waiting in the RX FIFO -/
  | rx (p : Bytes)
  /-- `available()` with an empty RX FIFO -/
  | poll
  | read

/-- receiver state with ghost logs: elements ever queued, elements ever returned by `read()` -/
structure RxWorld where
  ble : Ble
  accepted : List QueueElement
  delivered : List QueueElement

def rxStep (w : RxWorld) : RxOp → RxWorld
  | .rx p =>
    let s' := (w.ble.available (some p)).1
    { ble := s', accepted := w.accepted ++ s'.rxQueue.drop w.ble.rxQueue.length,
      delivered := w.delivered }
  | .poll => { w with ble := (w.ble.available none).1 }
  | .read =>
    match w.ble.read with
    | (s', some q) => { ble := s', accepted := w.accepted, delivered := w.delivered ++ [q] }
    | (s', none) => { w with ble := s' }

def rxRun (w : RxWorld) (ops : List RxOp) : RxWorld := ops.foldl rxStep w

/-- `available()` only ever appends to the queue -/
theorem available_appends (s : Ble) (rx : Option Bytes) :
    ∃ l, (s.available rx).1.rxQueue = s.rxQueue ++ l := by
  cases rx with
  | none => exact ⟨[], by simp [Ble.available]⟩
  | some p =>
    unfold Ble.available
    simp only
    cases pyGet (s.whiten (reverseBits p)) 1 with
    | error e => exact ⟨[], by simp⟩
    | ok b1 =>
      simp only [crc24M_eq]
      split
      · cases QueueElement.ofBuffer _ with
        | error e => exact ⟨[], by simp⟩
        | ok q => exact ⟨[q], rfl⟩
      · exact ⟨[], by simp⟩

theorem fifo_inv_step (w : RxWorld) (op : RxOp)
    (h : w.delivered ++ w.ble.rxQueue = w.accepted) :
    (rxStep w op).delivered ++ (rxStep w op).ble.rxQueue = (rxStep w op).accepted := by
  cases op with
  | rx p =>
    obtain ⟨l, hl⟩ := available_appends w.ble (some p)
    simp only [rxStep, hl, List.drop_left, ← h, List.append_assoc]
  | poll =>
    obtain ⟨l, hl⟩ := available_appends w.ble none
    have : l = [] := by
      have h2 : (w.ble.available none).1.rxQueue = w.ble.rxQueue := by simp [Ble.available]
      rw [h2] at hl
      have := congrArg List.length hl
      simp at this
      exact this
    subst this
    simp only [rxStep, hl, List.append_nil, h]
  | read =>
    simp only [rxStep, Ble.read]
    cases hq : w.ble.rxQueue with
    | nil => simp only; rw [hq]; rw [hq] at h; exact h
    | cons q rest => simp only; rw [hq] at h; simp [← h]

theorem fifo_inv_run (w : RxWorld) (ops : List RxOp)
    (h : w.delivered ++ w.ble.rxQueue = w.accepted) :
    (rxRun w ops).delivered ++ (rxRun w ops).ble.rxQueue = (rxRun w ops).accepted := by
  induction ops generalizing w with
  | nil => exact h
  | cons op ops ih => exact ih _ (fifo_inv_step w op h)

end Nrf.Proofs.Ble
