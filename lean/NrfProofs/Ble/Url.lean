/-
`UrlServiceData`: the getter returns the URL the setter encoded, and the encoding is the
Eddystone-URL encoding of the spec.
-/
import NrfModel.Ble.Service
import NrfModel.Spec.BleLinkLayer

namespace Nrf.Proofs.Ble
open Nrf.Ble Nrf.Spec.BleLL

/-- simultaneous expansion of one character -/
def subst (c : Nat) : Str := (codexSuffix[c]?).getD [c]

/-- simultaneous expansion of all suffix codes -/
def decAll (v : Str) : Str := v.flatMap subst

theorem codexSuffix_eq : codexSuffix =
    [[46, 99, 111, 109, 47], [46, 111, 114, 103, 47], [46, 101, 100, 117, 47],
     [46, 110, 101, 116, 47], [46, 105, 110, 102, 111, 47], [46, 98, 105, 122, 47],
     [46, 103, 111, 118, 47], [46, 99, 111, 109], [46, 111, 114, 103], [46, 101, 100, 117],
     [46, 110, 101, 116], [46, 105, 110, 102, 111], [46, 98, 105, 122], [46, 103, 111, 118]] := by
  decide

theorem codexPrefix_eq : codexPrefix =
    [[104, 116, 116, 112, 58, 47, 47, 119, 119, 119, 46],
     [104, 116, 116, 112, 115, 58, 47, 47, 119, 119, 119, 46],
     [104, 116, 116, 112, 58, 47, 47], [104, 116, 116, 112, 115, 58, 47, 47]] := by
  decide

/-- every suffix string is non-empty, starts with '.', and consists of characters ≥ 14 -/
theorem codexSuffix_good : ∀ s ∈ codexSuffix, s ≠ [] ∧ s.head? = some 46 ∧ ∀ c ∈ s, 14 ≤ c := by
  rw [codexSuffix_eq]; decide

theorem codexSuffix_length : codexSuffix.length = 14 := by rw [codexSuffix_eq]; rfl

theorem subst_ge (c : Nat) (h : 14 ≤ c) : subst c = [c] := by
  unfold subst
  rw [List.getElem?_eq_none (by rw [codexSuffix_length]; exact h)]
  rfl

theorem decAll_id (v : Str) (h : ∀ c ∈ v, 14 ≤ c) : decAll v = v := by
  induction v with
  | nil => rfl
  | cons c cs ih =>
    simp only [decAll, List.flatMap_cons] at ih ⊢
    rw [subst_ge c (h c (by simp)), ih (fun x hx => h x (by simp [hx]))]
    rfl

theorem decAll_append (a b : Str) : decAll (a ++ b) = decAll a ++ decAll b := by
  simp [decAll]

theorem startsWith_iff (v p : Str) : startsWith v p = true ↔ v = p ++ v.drop p.length := by
  unfold startsWith
  rw [List.isPrefixOf_iff_prefix]
  constructor
  · intro h
    obtain ⟨t, rfl⟩ := h
    simp
  · intro h
    exact ⟨v.drop p.length, h.symm⟩

/-- single-character patterns: `replace(chr(i), p)` is a character-wise expansion -/
theorem replaceAll_single (i : Nat) (p v : Str) :
    replaceAll [i] p 0 v = v.flatMap (fun c => if c = i then p else [c]) := by
  induction v with
  | nil => rfl
  | cons c cs ih =>
    simp only [replaceAll, startsWith, List.isPrefixOf, List.length_singleton, Nat.sub_self,
      List.flatMap_cons]
    by_cases h : c = i
    · subst h; simp [ih]
    · have : (i == c) = false := by simp; omega
      simp [this, h, ih]

/-- the getter's suffix loop, from code `i` on, is a character-wise expansion -/
theorem urlDecSuffix_flatMap (ps : List Str) (i : Nat) (v : Str)
    (hgood : ∀ s ∈ ps, ∀ c ∈ s, i + ps.length ≤ c) :
    urlDecSuffix ps i v =
      v.flatMap (fun c => if i ≤ c ∧ c < i + ps.length then (ps[c - i]?).getD [c] else [c]) := by
  induction ps generalizing i v with
  | nil => simp [urlDecSuffix]
  | cons p ps ih =>
    simp only [urlDecSuffix]
    rw [ih (i + 1) _ (fun s hs c hc => by
      have := hgood s (by simp [hs]) c hc
      simp at this; omega)]
    rw [replaceAll_single, List.flatMap_assoc]
    congr 1
    funext c
    by_cases hc : c = i
    · subst hc
      simp only [↓reduceIte, Nat.le_refl, List.length_cons, Nat.sub_self, List.getElem?_cons_zero,
        Option.getD_some, true_and]
      have hlt : c < c + (ps.length + 1) := by omega
      simp only [hlt, ↓reduceIte]
      -- the characters of `p` are beyond every remaining code
      have hp : ∀ x ∈ p, c + (ps.length + 1) ≤ x := fun x hx => by
        have := hgood p (by simp) x hx
        simpa using this
      clear ih hgood
      induction p with
      | nil => rfl
      | cons x xs ihx =>
        simp only [List.flatMap_cons]
        have hx := hp x (by simp)
        have : ¬ (c + 1 ≤ x ∧ x < c + 1 + ps.length) := by omega
        simp only [this, ↓reduceIte]
        rw [ihx (fun y hy => hp y (by simp [hy]))]
        rfl
    · simp only [hc, ↓reduceIte, List.flatMap_cons, List.flatMap_nil, List.append_nil,
        List.length_cons]
      by_cases hr : i + 1 ≤ c ∧ c < i + 1 + ps.length
      · have hr2 : i ≤ c ∧ c < i + (ps.length + 1) := by omega
        simp only [hr, hr2, and_self, ↓reduceIte]
        have : c - i = (c - (i + 1)) + 1 := by omega
        rw [this, List.getElem?_cons_succ]
      · have hr2 : ¬ (i ≤ c ∧ c < i + (ps.length + 1)) := by omega
        simp only [hr, hr2, ↓reduceIte]

theorem urlDecSuffix_decAll (v : Str) : urlDecSuffix codexSuffix 0 v = decAll v := by
  rw [urlDecSuffix_flatMap codexSuffix 0 v (fun s hs c hc => by
    have := (codexSuffix_good s hs).2.2 c hc
    rw [codexSuffix_length]; omega)]
  unfold decAll
  congr 1
  funext c
  unfold subst
  by_cases h : c < 14
  · simp [codexSuffix_length, h]
  · simp only [codexSuffix_length, Nat.zero_add, Nat.zero_le, true_and, h, ↓reduceIte]
    rw [List.getElem?_eq_none (by rw [codexSuffix_length]; omega)]
    rfl

theorem replaceAll_skip (pat rep : Str) (k : Nat) (y : Str) :
    replaceAll pat rep k y = replaceAll pat rep 0 (y.drop k) := by
  induction y generalizing k with
  | nil => cases k <;> simp [replaceAll]
  | cons c cs ih =>
    cases k with
    | zero => rfl
    | succ k => simp only [replaceAll, List.drop_succ_cons]; exact ih k

/-- expanding all codes undoes one encoding pass -/
theorem decAll_replaceAll (pat : Str) (j : Nat) (hne : pat ≠ []) (hsub : subst j = pat)
    (hid : decAll pat = pat) (y : Str) (k : Nat) :
    decAll (replaceAll pat [j] k y) = decAll (y.drop k) := by
  induction y generalizing k with
  | nil => cases k <;> simp [replaceAll]
  | cons c cs ih =>
    cases k with
    | succ k => simp only [replaceAll, List.drop_succ_cons]; exact ih k
    | zero =>
      simp only [replaceAll, List.drop_zero]
      by_cases hs : startsWith (c :: cs) pat = true
      · simp only [hs, ↓reduceIte]
        rw [decAll_append, ih]
        have hv := (startsWith_iff _ _).1 hs
        conv => rhs; rw [hv]
        rw [decAll_append, hid]
        have h1 : decAll [j] = pat := by simp [decAll, hsub]
        rw [h1]
        congr 2
        obtain ⟨x, xs, rfl⟩ := List.exists_cons_of_ne_nil hne
        simp
      · simp only [hs, Bool.false_eq_true, ↓reduceIte]
        have := ih 0
        simp only [List.drop_zero] at this
        simp only [decAll, List.flatMap_cons] at this ⊢
        rw [this]

theorem decAll_urlEncSuffix (ps : List Str) (i : Nat) (y : Str)
    (h : ∀ n (hn : n < ps.length), codexSuffix[i + n]? = some ps[n]) :
    decAll (urlEncSuffix ps i y) = decAll y := by
  induction ps generalizing i y with
  | nil => rfl
  | cons p ps ih =>
    simp only [urlEncSuffix]
    rw [ih (i + 1) _ (fun n hn => by
      have := h (n + 1) (by simp; omega)
      rw [show i + 1 + n = i + (n + 1) by omega]
      simpa using this)]
    have hp := h 0 (by simp)
    simp only [Nat.add_zero, List.getElem_cons_zero] at hp
    have hmem : p ∈ codexSuffix := List.mem_of_getElem? hp
    obtain ⟨hne, _, hge⟩ := codexSuffix_good p hmem
    have := decAll_replaceAll p i hne (by simp [subst, hp]) (decAll_id p hge) y 0
    simpa using this

theorem urlEncSuffix_cons (ps : List Str) (i k : Nat) (y : Str)
    (h : ∀ s ∈ ps, s.head? = some 46) (hk : k ≠ 46) :
    urlEncSuffix ps i (k :: y) = k :: urlEncSuffix ps i y := by
  induction ps generalizing i y with
  | nil => rfl
  | cons p ps ih =>
    simp only [urlEncSuffix]
    have hp := h p (by simp)
    have hns : startsWith (k :: y) p = false := by
      match p, hp with
      | x :: xs, hp =>
        simp only [List.head?_cons, Option.some.injEq] at hp
        subst hp
        simp [startsWith, List.isPrefixOf]; omega
    simp only [replaceAll, hns, Bool.false_eq_true, ↓reduceIte]
    exact ih _ _ (fun s hs => h s (by simp [hs]))

theorem mem_replaceAll (pat : Str) (j : Nat) (y : Str) (k : Nat) :
    ∀ c ∈ replaceAll pat [j] k y, c = j ∨ c ∈ y := by
  induction y generalizing k with
  | nil => cases k <;> simp [replaceAll]
  | cons x xs ih =>
    cases k with
    | succ k =>
      intro c hc
      simp only [replaceAll] at hc
      rcases ih k c hc with h | h
      · exact Or.inl h
      · exact Or.inr (by simp [h])
    | zero =>
      intro c hc
      simp only [replaceAll] at hc
      split at hc
      · simp only [List.cons_append, List.nil_append, List.mem_cons] at hc
        rcases hc with h | h
        · exact Or.inl h
        · rcases ih _ c h with h | h
          · exact Or.inl h
          · exact Or.inr (by simp [h])
      · simp only [List.mem_cons] at hc
        rcases hc with h | h
        · exact Or.inr (by simp [h])
        · rcases ih _ c h with h | h
          · exact Or.inl h
          · exact Or.inr (by simp [h])

theorem urlEncSuffix_lt (ps : List Str) (i : Nat) (y : Str) (hi : i + ps.length ≤ 128)
    (hy : ∀ c ∈ y, c < 128) : ∀ c ∈ urlEncSuffix ps i y, c < 128 := by
  induction ps generalizing i y with
  | nil => exact hy
  | cons p ps ih =>
    simp only [urlEncSuffix]
    apply ih (i + 1) _ (by simp at hi; omega)
    intro c hc
    rcases mem_replaceAll p i y 0 c hc with h | h
    · simp at hi; omega
    · exact hy c h

theorem startsWith_code (k : Nat) (e : Str) (x : Nat) (xs : Str) (h : k ≠ x) :
    startsWith (k :: e) (x :: xs) = false := by
  simp [startsWith, List.isPrefixOf]; omega

/-- the prefix loops: encode to the code of the first matching scheme, decode it back -/
theorem url_prefix (u : Str) (h : ∃ p ∈ codexPrefix, startsWith u p = true) :
    ∃ k p rest, k < 4 ∧ u = p ++ rest ∧ (∀ c ∈ p, 14 ≤ c ∧ c < 128) ∧
      urlEncPrefix codexPrefix 0 u = k :: rest ∧
      (∀ e, urlDecPrefix codexPrefix 0 (k :: e) = p ++ e) ∧ urlScheme k = some p := by
  rw [codexPrefix_eq] at h ⊢
  have hcase : ∀ (k : Nat) (p v : Str), p ≠ [] → startsWith v p = true →
      replaceFirst p [k] v = k :: v.drop p.length := by
    intro k p v hp hs
    match v, p, hp with
    | [], x :: xs, _ => simp [startsWith, List.isPrefixOf] at hs
    | c :: cs, x :: xs, _ => simp [replaceFirst, hs]
  by_cases h0 : startsWith u [104, 116, 116, 112, 58, 47, 47, 119, 119, 119, 46] = true
  · refine ⟨0, _, u.drop 11, by omega, (startsWith_iff _ _).1 h0, by decide, ?_, ?_, rfl⟩
    · simp only [urlEncPrefix, h0, ↓reduceIte, hcase 0 _ u (by simp) h0]
      simp [startsWith_code]
    · intro e
      simp [urlDecPrefix, startsWith, List.isPrefixOf, replaceFirst]
  · by_cases h1 : startsWith u [104, 116, 116, 112, 115, 58, 47, 47, 119, 119, 119, 46] = true
    · refine ⟨1, _, u.drop 12, by omega, (startsWith_iff _ _).1 h1, by decide, ?_, ?_, rfl⟩
      · simp only [urlEncPrefix, h0, Bool.false_eq_true, ↓reduceIte, h1,
          hcase 1 _ u (by simp) h1]
        simp [startsWith_code]
      · intro e
        simp [urlDecPrefix, startsWith, List.isPrefixOf, replaceFirst]
    · by_cases h2 : startsWith u [104, 116, 116, 112, 58, 47, 47] = true
      · refine ⟨2, _, u.drop 7, by omega, (startsWith_iff _ _).1 h2, by decide, ?_, ?_, rfl⟩
        · simp only [urlEncPrefix, h0, h1, Bool.false_eq_true, ↓reduceIte, h2,
            hcase 2 _ u (by simp) h2]
          simp [startsWith_code]
        · intro e
          simp [urlDecPrefix, startsWith, List.isPrefixOf, replaceFirst]
      · by_cases h3 : startsWith u [104, 116, 116, 112, 115, 58, 47, 47] = true
        · refine ⟨3, _, u.drop 8, by omega, (startsWith_iff _ _).1 h3, by decide, ?_, ?_, rfl⟩
          · simp only [urlEncPrefix, h0, h1, h2, Bool.false_eq_true, ↓reduceIte, h3,
              hcase 3 _ u (by simp) h3]
            simp
          · intro e
            simp [urlDecPrefix, startsWith, List.isPrefixOf, replaceFirst]
        · obtain ⟨p, hp, hs⟩ := h
          simp only [List.mem_cons, List.not_mem_nil, or_false] at hp
          rcases hp with rfl | rfl | rfl | rfl <;> simp_all

theorem expansion_eq_subst (c : Nat) : (urlExpansion c).getD [c] = subst c := by
  by_cases h : c < 14
  · have : c = 0 ∨ c = 1 ∨ c = 2 ∨ c = 3 ∨ c = 4 ∨ c = 5 ∨ c = 6 ∨ c = 7 ∨ c = 8 ∨ c = 9 ∨
        c = 10 ∨ c = 11 ∨ c = 12 ∨ c = 13 := by omega
    rcases this with rfl | rfl | rfl | rfl | rfl | rfl | rfl | rfl | rfl | rfl | rfl | rfl | rfl | rfl <;>
      (rw [subst, codexSuffix_eq]; decide)
  · rw [subst_ge c (by omega)]
    match c, h with
    | c + 14, _ => rfl

/-- **URL round trip**: for every URL that starts with one of the four schemes and consists of
    characters in 14..127 (in particular every printable ASCII URL), the getter returns the URL
    the setter encoded, and an Eddystone-URL decoder (the spec) reads the same URL -/
theorem url_roundtrip (u : Str) (hp : ∃ p ∈ codexPrefix, startsWith u p = true)
    (hc : ∀ c ∈ u, 14 ≤ c ∧ c < 128) :
    urlGet (urlSet u) = .ok u ∧ urlDecode (urlSet u) = some u := by
  obtain ⟨k, p, rest, hk, hu, hpc, henc, hdec, hsch⟩ := url_prefix u hp
  have hrest : ∀ c ∈ rest, 14 ≤ c ∧ c < 128 := fun c hc' => hc c (by rw [hu]; simp [hc'])
  have hset : urlSet u = k :: urlEncSuffix codexSuffix 0 rest := by
    unfold urlSet
    rw [henc, urlEncSuffix_cons _ _ _ _ (fun s hs => (codexSuffix_good s hs).2.1) (by omega)]
  have hE : decAll (urlEncSuffix codexSuffix 0 rest) = rest := by
    rw [decAll_urlEncSuffix codexSuffix 0 rest (fun n hn => by simp)]
    exact decAll_id rest (fun c hc' => (hrest c hc').1)
  constructor
  · unfold urlGet
    have hascii : decodeAscii (urlSet u) = .ok (urlSet u) := by
      unfold decodeAscii
      have : (urlSet u).all (· < 128) = true := by
        rw [List.all_eq_true]
        intro c hc'
        rw [hset] at hc'
        simp only [List.mem_cons] at hc'
        rcases hc' with rfl | h
        · simp; omega
        · have := urlEncSuffix_lt codexSuffix 0 rest (by rw [codexSuffix_length]; omega)
            (fun c hc'' => (hrest c hc'').2) c h
          simpa using this
      simp [this]
    simp only [hascii, bind, Except.bind, pure, Except.pure]
    rw [hset, hdec, urlDecSuffix_decAll, decAll_append, hE,
      decAll_id p (fun c hc' => (hpc c hc').1), ← hu]
  · rw [hset]
    simp only [urlDecode, hsch]
    have : (urlEncSuffix codexSuffix 0 rest).flatMap (fun c => (urlExpansion c).getD [c])
        = decAll (urlEncSuffix codexSuffix 0 rest) := by
      have hf : (fun c => (urlExpansion c).getD [c]) = subst := funext expansion_eq_subst
      rw [hf]; rfl
    rw [this, hE, ← hu]

end Nrf.Proofs.Ble
