/-
Byte-at-a-time CRC of `fake_ble.crc24_ble` = bit-serial CRC-24 of the spec.
-/
import NrfModel.Ble.Bits
import NrfModel.Spec.BleLinkLayer

namespace Nrf.Proofs.Ble
open Nrf.Ble Nrf.Spec.BleLL

/-- one clock of the spec register with a zero data bit -/
def crcL (reg : Nat) : Nat := crcClock reg false

theorem crcFeedback_eq : crcFeedback = 0x65B := by decide

theorem testBit23 (x : Nat) : x.testBit 23 = decide (x &&& 0x800000 ≠ 0) := by
  have h : (0x800000 : Nat) = 2 ^ 23 := by decide
  rw [h]
  cases hx : x.testBit 23
  · have : x &&& 2 ^ 23 = 0 := by
      apply Nat.eq_of_testBit_eq; intro i
      simp only [Nat.testBit_and, Nat.testBit_two_pow, Nat.zero_testBit]
      by_cases hi : 23 = i
      · subst hi; simp [hx]
      · simp [hi]
    simp [this]
  · have h1 : (x &&& 2 ^ 23).testBit 23 = true := by
      rw [Nat.testBit_and, hx, Nat.testBit_two_pow_self]; rfl
    have : x &&& 2 ^ 23 ≠ 0 := by intro h0; rw [h0] at h1; simp at h1
    simp [this]

/-- masking once per byte is the same as masking after every shift -/
theorem crcShift_mod (x : Nat) : crcShift CRC_POLY x % 2 ^ 24 = crcL (x % 2 ^ 24) := by
  unfold crcShift crcL crcClock
  have hb : (x % 2 ^ 24).testBit 23 = x.testBit 23 := by
    rw [Nat.testBit_mod_two_pow]; simp
  rw [hb, testBit23, crcFeedback_eq]
  have hm : x <<< 1 % 2 ^ 24 = x % 2 ^ 24 % 2 ^ 23 * 2 := by
    rw [Nat.shiftLeft_eq]; omega
  by_cases h : x &&& 0x800000 ≠ 0
  · rw [if_pos h]
    simp only [h, ne_eq, not_false_eq_true, decide_true, Bool.bne_false, ↓reduceIte]
    rw [Nat.xor_mod_two_pow, hm]; rfl
  · rw [if_neg h]
    simp only [h, decide_false, Bool.bne_false, Bool.false_eq_true, ↓reduceIte]
    exact hm

theorem iter_crcShift_mod (n x : Nat) :
    iter (crcShift CRC_POLY) n x % 2 ^ 24 = iter crcL n (x % 2 ^ 24) := by
  induction n generalizing x with
  | zero => rfl
  | succ n ih => simp only [iter]; rw [ih, crcShift_mod]

theorem mul2_xor (a b : Nat) : (a ^^^ b) * 2 = a * 2 ^^^ b * 2 := by
  have := @Nat.shiftLeft_xor_distrib 1 a b
  simpa [Nat.shiftLeft_eq] using this

/-- the register clock is linear over GF(2) -/
theorem crcL_xor (a b : Nat) : crcL (a ^^^ b) = crcL a ^^^ crcL b := by
  unfold crcL crcClock
  simp only [Nat.testBit_xor, Nat.xor_mod_two_pow, mul2_xor, Bool.bne_false]
  cases a.testBit 23 <;> cases b.testBit 23 <;> simp <;>
    (apply Nat.eq_of_testBit_eq; intro i; simp only [Nat.testBit_xor]
     cases (a % 8388608 * 2).testBit i <;> cases (b % 8388608 * 2).testBit i <;>
       cases crcFeedback.testBit i <;> rfl)

theorem crcL_zero : crcL 0 = 0 := by decide

theorem iter_crcL_xor (n a b : Nat) : iter crcL n (a ^^^ b) = iter crcL n a ^^^ iter crcL n b := by
  induction n generalizing a b with
  | zero => rfl
  | succ n ih => simp only [iter]; rw [crcL_xor, ih]

/-- a data bit enters by being xor-ed into position 23 before the clock -/
theorem crcClock_eq (reg : Nat) (d : Bool) :
    crcClock reg d = crcL (reg ^^^ (if d then 2 ^ 23 else 0)) := by
  cases d
  · simp [crcL]
  · unfold crcL crcClock
    simp only [Nat.testBit_xor, Nat.xor_mod_two_pow, Nat.testBit_two_pow, ↓reduceIte]
    simp

theorem crcClock_xor (r1 r2 : Nat) (d : Bool) :
    crcClock (r1 ^^^ r2) d = crcL r1 ^^^ crcClock r2 d := by
  rw [crcClock_eq, crcClock_eq, Nat.xor_assoc, crcL_xor]

theorem foldl_crcClock_xor (ds : List Bool) (r1 r2 : Nat) :
    ds.foldl crcClock (r1 ^^^ r2) = iter crcL ds.length r1 ^^^ ds.foldl crcClock r2 := by
  induction ds generalizing r1 r2 with
  | nil => rfl
  | cons d ds ih => simp only [List.foldl_cons, List.length_cons, iter]; rw [crcClock_xor, ih]

/-- the table over the 256 byte values (register zero) -/
theorem crc_byte_table : ∀ b, b < 256 →
    (lsbFirst b).foldl crcClock 0 = iter crcL 8 (swapBits b <<< 16) ∧ swapBits b < 256 := by
  decide +kernel

theorem and_ffffff (x : Nat) : x &&& 0xFFFFFF = x % 2 ^ 24 := by
  simpa using Nat.and_two_pow_sub_one_eq_mod x 24

/-- one byte: eight bit-serial clocks over the LSB-first bits = the byte step of `crc24_ble` -/
theorem crcByte_bits (reg b : Nat) (hr : reg < 2 ^ 24) (hb : b < 256) :
    (lsbFirst b).foldl crcClock reg = crcByte CRC_POLY reg b := by
  obtain ⟨ht, hs⟩ := crc_byte_table b hb
  unfold crcByte
  have h0 : reg = reg ^^^ 0 := by simp
  rw [and_ffffff]
  rw [iter_crcShift_mod]
  have hlt : reg ^^^ swapBits b <<< 16 < 2 ^ 24 := by
    apply Nat.xor_lt_two_pow hr
    rw [Nat.shiftLeft_eq]; omega
  rw [Nat.mod_eq_of_lt hlt, iter_crcL_xor, ← ht]
  conv => lhs; rw [h0]
  rw [foldl_crcClock_xor]; rfl

theorem crcByte_lt (reg b : Nat) : crcByte CRC_POLY reg b < 2 ^ 24 := by
  unfold crcByte
  rw [and_ffffff]; exact Nat.mod_lt _ (by decide)

theorem foldl_crcByte_lt (data : Bytes) (reg : Nat) (hr : reg < 2 ^ 24) :
    data.foldl (crcByte CRC_POLY) reg < 2 ^ 24 := by
  induction data generalizing reg with
  | nil => exact hr
  | cons b bs ih => exact ih _ (crcByte_lt reg b)

theorem crc24Reg_lt (data : Bytes) : crc24Reg data < 2 ^ 24 :=
  foldl_crcByte_lt data _ (by decide)

/-- the whole buffer -/
theorem foldl_crc_bits (data : Bytes) (reg : Nat) (hr : reg < 2 ^ 24) (hd : data.wf) :
    (data.flatMap lsbFirst).foldl crcClock reg = data.foldl (crcByte CRC_POLY) reg := by
  induction data generalizing reg with
  | nil => rfl
  | cons b bs ih =>
    have hb : b < 256 := hd b (by simp)
    have hbs : Bytes.wf bs := fun x hx => hd x (by simp [hx])
    simp only [List.flatMap_cons, List.foldl_append, List.foldl_cons]
    rw [crcByte_bits reg b hr hb, ih _ (crcByte_lt reg b) hbs]

/-- `crc24_ble` computes the spec's bit-serial CRC of the LSB-first bit stream -/
theorem crc24Reg_bits (data : Bytes) (hd : data.wf) :
    crcOfBits (data.flatMap lsbFirst) = crc24Reg data :=
  foldl_crc_bits data _ (by decide) hd

/-- `to_bytes(3, "big")` never raises in `crc24_ble` -/
theorem crc24M_eq (data : Bytes) : crc24M data = .ok (crc24 data) := by
  unfold crc24M crc24 toBytes3Big
  have := crc24Reg_lt data
  simp only [show (0x1000000 : Nat) = 2 ^ 24 by decide, this, ↓reduceIte]
  rfl

end Nrf.Proofs.Ble
