/-
Bits ↔ bytes: the framing lemmas that connect the byte buffers of `fake_ble.py` with the bit
streams of the spec receiver.
-/
import NrfProofs.Ble.Whiten
import NrfProofs.Ble.Crc

namespace Nrf.Proofs.Ble
open Nrf.Ble Nrf.Spec.BleLL

theorem byte_table : ∀ b, b < 256 →
    msbFirst (swapBits b) = lsbFirst b ∧ lsbFirst (swapBits b) = msbFirst b ∧
    swapBits (swapBits b) = b ∧ valLsb (lsbFirst b) = b ∧ valMsb (msbFirst b) = b := by
  decide +kernel

theorem swapBits_lt (b : Nat) (hb : b < 256) : swapBits b < 256 := (crc_byte_table b hb).2

theorem wf_cons {b : Nat} {bs : Bytes} : Bytes.wf (b :: bs) ↔ b < 256 ∧ Bytes.wf bs := by
  simp [Bytes.wf]

theorem wf_append {a b : Bytes} : Bytes.wf (a ++ b) ↔ Bytes.wf a ∧ Bytes.wf b := by
  simp only [Bytes.wf, List.mem_append]
  constructor
  · intro h; exact ⟨fun x hx => h x (Or.inl hx), fun x hx => h x (Or.inr hx)⟩
  · rintro ⟨h1, h2⟩ x (hx | hx)
    · exact h1 x hx
    · exact h2 x hx

theorem wf_nil : Bytes.wf [] := by simp [Bytes.wf]

theorem wf_take {a : Bytes} (n : Nat) (h : Bytes.wf a) : Bytes.wf (a.take n) :=
  fun x hx => h x (List.mem_of_mem_take hx)

theorem wf_drop {a : Bytes} (n : Nat) (h : Bytes.wf a) : Bytes.wf (a.drop n) :=
  fun x hx => h x (List.mem_of_mem_drop hx)

theorem reverseBits_wf (a : Bytes) (h : a.wf) : (reverseBits a).wf := by
  intro x hx
  simp only [reverseBits, List.mem_map] at hx
  obtain ⟨y, hy, rfl⟩ := hx
  exact swapBits_lt y (h y hy)

theorem reverseBits_length (a : Bytes) : (reverseBits a).length = a.length := by
  simp [reverseBits]

theorem reverseBits_append (a b : Bytes) : reverseBits (a ++ b) = reverseBits a ++ reverseBits b := by
  simp [reverseBits]

theorem reverseBits_invol (a : Bytes) (h : a.wf) : reverseBits (reverseBits a) = a := by
  induction a with
  | nil => rfl
  | cons b bs ih =>
    rw [wf_cons] at h
    simp only [reverseBits, List.map_cons, List.map_map] at ih ⊢
    rw [(byte_table b h.1).2.2.1]
    congr 1
    exact ih h.2

/-- the nRF24L01 sends the bit-reversed bytes MSB first = the original octets LSB first -/
theorem airBits_reverseBits (w : Bytes) (h : w.wf) :
    airBits (reverseBits w) = w.flatMap lsbFirst := by
  induction w with
  | nil => rfl
  | cons b bs ih =>
    rw [wf_cons] at h
    simp only [airBits, reverseBits, List.map_cons, List.flatMap_cons] at ih ⊢
    rw [(byte_table b h.1).1, ih h.2]

theorem airBits_eq (p : Bytes) (h : p.wf) : airBits p = (reverseBits p).flatMap lsbFirst := by
  rw [← airBits_reverseBits _ (reverseBits_wf p h), reverseBits_invol p h]

theorem bits_length (l : Bytes) : (l.flatMap lsbFirst).length = 8 * l.length := by
  induction l with
  | nil => rfl
  | cons b bs ih => simp only [List.flatMap_cons, List.length_append, ih, lsbFirst_length,
      List.length_cons]; omega

theorem bits_take (l : Bytes) (k : Nat) :
    (l.flatMap lsbFirst).take (8 * k) = (l.take k).flatMap lsbFirst := by
  induction l generalizing k with
  | nil => simp
  | cons b bs ih =>
    cases k with
    | zero => simp
    | succ k =>
      simp only [List.flatMap_cons, List.take_succ_cons]
      rw [show 8 * (k + 1) = (lsbFirst b).length + 8 * k by simp [lsbFirst_length]; omega,
        List.take_length_add_append, ih]

theorem bits_drop (l : Bytes) (k : Nat) :
    (l.flatMap lsbFirst).drop (8 * k) = (l.drop k).flatMap lsbFirst := by
  induction l generalizing k with
  | nil => simp
  | cons b bs ih =>
    cases k with
    | zero => simp
    | succ k =>
      simp only [List.flatMap_cons, List.drop_succ_cons]
      rw [show 8 * (k + 1) = (lsbFirst b).length + 8 * k by simp [lsbFirst_length]; omega,
        List.drop_length_add_append, ih]

theorem octets_bits (l : Bytes) (h : l.wf) : octets l.length (l.flatMap lsbFirst) = l := by
  induction l with
  | nil => rfl
  | cons b bs ih =>
    rw [wf_cons] at h
    have hlen : ¬ ((lsbFirst b ++ bs.flatMap lsbFirst).length < 8) := by
      simp [lsbFirst_length]
    simp only [List.length_cons, octets, List.flatMap_cons, hlen, ↓reduceIte]
    rw [show (8 : Nat) = (lsbFirst b).length from rfl, List.take_left, List.drop_left,
      (byte_table b h.1).2.2.2.1, ih h.2]

/-- the LSB-first bit stream determines the octets -/
theorem bits_inj (a b : Bytes) (ha : a.wf) (hb : b.wf)
    (h : a.flatMap lsbFirst = b.flatMap lsbFirst) : a = b := by
  have hl : a.length = b.length := by
    have := congrArg List.length h
    rw [bits_length, bits_length] at this; omega
  rw [← octets_bits a ha, ← octets_bits b hb, h, hl]

/-- the CRC bits on the air (position 23 first) are the three bytes that `crc24_ble` returns,
    sent LSB first -/
theorem crcBits_eq (data : Bytes) : crcBits (crc24Reg data) = (crc24 data).flatMap lsbFirst := by
  have hlt := crc24Reg_lt data
  show crcBits (crc24Reg data) = (reverseBits [crc24Reg data / 0x10000,
    (crc24Reg data / 0x100) % 0x100, crc24Reg data % 0x100]).flatMap lsbFirst
  generalize crc24Reg data = x at hlt
  have h1 : x / 0x10000 < 256 := by omega
  have h2 : x / 0x100 % 0x100 < 256 := by omega
  have h3 : x % 0x100 < 256 := by omega
  simp only [reverseBits, List.map_cons, List.map_nil, List.flatMap_cons, List.flatMap_nil,
    (byte_table _ h1).2.1, (byte_table _ h2).2.1, (byte_table _ h3).2.1]
  have e1 : ∀ i, (x / 0x10000).testBit i = x.testBit (i + 16) := fun i => by
    rw [show (0x10000 : Nat) = 2 ^ 16 by decide, Nat.testBit_div_two_pow]
  have e2 : ∀ i, i < 8 → (x / 0x100 % 0x100).testBit i = x.testBit (i + 8) := fun i hi => by
    rw [show (0x100 : Nat) = 2 ^ 8 by decide, Nat.testBit_mod_two_pow, Nat.testBit_div_two_pow]
    simp [hi]
  have e3 : ∀ i, i < 8 → (x % 0x100).testBit i = x.testBit i := fun i hi => by
    rw [show (0x100 : Nat) = 2 ^ 8 by decide, Nat.testBit_mod_two_pow]
    simp [hi]
  simp [msbFirst, crcBits, e1, e2, e3, List.range, List.range.loop]

theorem crc24_wf (data : Bytes) : (crc24 data).wf := by
  have hlt := crc24Reg_lt data
  show (reverseBits [crc24Reg data / 0x10000,
    (crc24Reg data / 0x100) % 0x100, crc24Reg data % 0x100]).wf
  apply reverseBits_wf
  intro x hx
  simp only [List.mem_cons, List.not_mem_nil, or_false] at hx
  rcases hx with rfl | rfl | rfl <;> omega

theorem crc24_length (data : Bytes) : (crc24 data).length = 3 := by
  simp [crc24, reverseBits]

end Nrf.Proofs.Ble
