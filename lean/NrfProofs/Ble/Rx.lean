/-
`FakeBLE.available` / `QueueElement`: totality and the reference decoding.
-/
import NrfProofs.Ble.Ads

namespace Nrf.Proofs.Ble
open Nrf.Ble Nrf.Spec.BleLL

theorem pySlice_length {α} (l : List α) (a b : Nat) :
    (pySlice l a b).length = min b l.length - a := by
  simp [pySlice]

theorem pyGet_nat {α} (l : List α) (i : Nat) (h : i < l.length) : pyGet l (i : Nat) = .ok l[i] := by
  unfold pyGet
  have h0 : ¬ ((i : Int) < 0) := by omega
  simp [h0, h]

theorem pyGet_zero {α} (x : α) (l : List α) : pyGet (x :: l) 0 = .ok x := by
  have := pyGet_nat (x :: l) 0 (by simp)
  simpa using this

theorem pyGet_one {α} (x y : α) (l : List α) : pyGet (x :: y :: l) 1 = .ok y := by
  have := pyGet_nat (x :: y :: l) 1 (by simp)
  simpa using this

theorem pyGet_lit1 {α} (l : List α) (h : 1 < l.length) : pyGet l (1 : Int) = .ok l[1] := by
  have := pyGet_nat l 1 h
  simpa using this

theorem unpackb_ok (b : Bytes) (h : b.length = 1) : ∃ v, unpackb b = .ok v := by
  match b, h with
  | [x], _ => exact ⟨_, rfl⟩

theorem unpackH_ok (b : Bytes) (h : b.length = 2) : unpackH b = .ok (b[0]! + 256 * b[1]!) := by
  match b, h with
  | [x, y], _ => rfl

/-- reference semantics of one AD structure `(t, d)` for the element under construction:
    the new element and whether the structure was consumed -/
def adResult (q : QueueElement) (t : Nat) (d : Bytes) : QueueElement × Bool :=
  if t = 0x0A then
    (match d with
     | [x] => { q with paLevel := some (if x < 128 then (x : Int) else (x : Int) - 256) }
     | _ => q, true)
  else if t = 0x08 ∨ t = 0x09 then ({ q with name := some d }, true)
  else if t = 0x16 then
    match d with
    | lo :: hi :: rest =>
      let uuid := lo + 256 * hi
      if uuid = 0x1809 then ({ q with data := q.data ++ [Item.temp rest] }, true)
      else if uuid = 0x180F then ({ q with data := q.data ++ [Item.batt rest] }, true)
      else if uuid = 0xFEAA then
        ({ q with data := q.data ++
            [Item.url ([0xAA, 0xFE, 0x10] ++ (rest.drop 1).take 1) (rest.drop 2)] }, true)
      else ({ q with data := q.data ++ [Item.raw (t :: d)] }, true)
    | _ => (q, false)
  else (q, false)

theorem decodeDataStruct_eq (q : QueueElement) (t : Nat) (d : Bytes) :
    decodeDataStruct q (t :: d) = .ok (adResult q t d) := by
  by_cases h10 : t = 0x0A
  · subst h10
    match d with
    | [] => simp [decodeDataStruct, adResult, pyGet_zero]
    | [x] => simp [decodeDataStruct, adResult, pyGet_zero, pySlice, unpackb]
    | x :: y :: r => simp [decodeDataStruct, adResult, pyGet_zero]
  · by_cases h8 : t = 0x08
    · subst h8; simp [decodeDataStruct, adResult, pyGet_zero]
    · by_cases h9 : t = 0x09
      · subst h9; simp [decodeDataStruct, adResult, pyGet_zero]
      · by_cases h16 : t = 0x16
        · subst h16
          match d with
          | [] => simp [decodeDataStruct, adResult, pyGet_zero]
          | [x] => simp [decodeDataStruct, adResult, pyGet_zero]
          | [lo, hi] =>
            simp only [decodeDataStruct, adResult, pyGet_zero, pySlice, unpackH, TEMPERATURE_UUID,
              BATTERY_UUID, EDDYSTONE_UUID, urlSetPaBytes, urlTypeInit]
            simp
            repeat' split
            all_goals first | rfl | (exfalso; omega) | simp_all
          | [lo, hi, a] =>
            simp only [decodeDataStruct, adResult, pyGet_zero, pySlice, unpackH, TEMPERATURE_UUID,
              BATTERY_UUID, EDDYSTONE_UUID, urlSetPaBytes, urlTypeInit]
            simp
            repeat' split
            all_goals first | rfl | (exfalso; omega) | simp_all
          | lo :: hi :: a :: b :: r =>
            simp only [decodeDataStruct, adResult, pyGet_zero, pySlice, unpackH, TEMPERATURE_UUID,
              BATTERY_UUID, EDDYSTONE_UUID, urlSetPaBytes, urlTypeInit]
            simp
            repeat' split
            all_goals first | rfl | (exfalso; omega) | simp_all
        · simp [decodeDataStruct, adResult, pyGet_zero, h10, h8, h9, h16]

/-- `_decode_data_struct` never raises on a non-empty buffer -/
theorem decodeDataStruct_ok (q : QueueElement) (buf : Bytes) (h : buf ≠ []) :
    ∃ r, decodeDataStruct q buf = .ok r := by
  match buf, h with
  | t :: d, _ => exact ⟨_, decodeDataStruct_eq q t d⟩

/-- the loop of `QueueElement.__init__` terminates normally whenever `end ≤ len(buffer)` and the
    fuel covers the distance to `end` -/
theorem qeLoop_ok (buffer : Bytes) (end_ : Nat) (hend : end_ ≤ buffer.length) :
    ∀ (fuel i : Nat) (q : QueueElement), end_ ≤ i + fuel → ∃ q', qeLoop buffer end_ fuel i q = .ok q' := by
  intro fuel
  induction fuel with
  | zero =>
    intro i q h
    have : ¬ i < end_ := by omega
    exact ⟨q, by simp [qeLoop, this]⟩
  | succ fuel ih =>
    intro i q h
    unfold qeLoop
    by_cases hi : i < end_
    · simp only [hi, ↓reduceIte]
      rw [pyGet_nat buffer i (by omega)]
      simp only
      split
      · exact ⟨_, rfl⟩
      · rename_i hc
        have hsz : 1 ≤ buffer[i] ∧ buffer[i] + i + 1 ≤ end_ := by omega
        obtain ⟨r, hr⟩ := decodeDataStruct_ok q (pySlice buffer (i + 1) (i + 1 + buffer[i])) (by
          intro he
          have := congrArg List.length he
          rw [pySlice_length] at this
          simp at this; omega)
        rw [hr]
        obtain ⟨q1, res⟩ := r
        simp only
        exact ih _ _ (by omega)
    · exact ⟨q, by simp [hi]⟩

theorem ofBuffer_ok (buffer : Bytes) (h2 : 2 ≤ buffer.length)
    (hend : ∀ b1, pyGet buffer 1 = .ok b1 → b1 + 2 ≤ buffer.length) :
    ∃ q, QueueElement.ofBuffer buffer = .ok q := by
  unfold QueueElement.ofBuffer
  rw [pyGet_lit1 buffer (by omega)]
  simp only
  have := hend _ (pyGet_lit1 buffer (by omega))
  exact qeLoop_ok buffer _ this _ _ _ (by omega)

/-- **available() never raises** for a received payload of at least two bytes -/
theorem available_total (s : Ble) (p : Bytes) (hp : 2 ≤ p.length) :
    ∃ b, (s.available (some p)).2 = .ok b := by
  unfold Ble.available
  simp only
  have hl : (s.whiten (reverseBits p)).length = p.length := by
    simp [Ble.whiten, whitener_length, reverseBits_length]
  generalize s.whiten (reverseBits p) = cache at hl
  rw [pyGet_lit1 cache (by omega)]
  simp only [crc24M_eq]
  split
  · rename_i hc
    have hlen : cache[1] + 2 + 3 ≤ cache.length := by
      have := congrArg List.length hc.2
      rw [pySlice_length, pySlice_length, crc24_length] at this
      omega
    obtain ⟨q, hq⟩ := ofBuffer_ok (pySlice cache 0 (cache[1] + 2 + 3))
      (by rw [pySlice_length]; omega)
      (by
        intro b1 hb1
        rw [pySlice_length]
        have h1 : pyGet (pySlice cache 0 (cache[1] + 2 + 3)) 1 = .ok cache[1] := by
          rw [pyGet_lit1 _ (by rw [pySlice_length]; omega)]
          simp [pySlice]
        rw [h1] at hb1; cases hb1; omega)
    rw [hq]
    exact ⟨_, rfl⟩
  · exact ⟨_, rfl⟩

end Nrf.Proofs.Ble
