/-
`QueueElement(buffer)` on a buffer whose AD structures are well formed = the reference decoding.
-/
import NrfProofs.Ble.Rx

namespace Nrf.Proofs.Ble
open Nrf.Ble Nrf.Spec.BleLL

/-- reference: effect of one AD structure on the element (undecodable structures are kept raw,
    length octet included) -/
def applyAd (q : QueueElement) (a : Nat × Bytes) : QueueElement :=
  let r := adResult q a.1 a.2
  if r.2 then r.1 else { r.1 with data := r.1.data ++ [Item.raw (encodeAd a)] }

/-- reference decoding of a parsed advertisement -/
def refElement (adv : Adv) : QueueElement := adv.ads.foldl applyAd { mac := adv.mac }

theorem rem_length {α} (buffer : List α) (e i : Nat) (R : List α) (he : e ≤ buffer.length)
    (h : (buffer.take e).drop i = R) : R.length = e - i := by
  rw [← h]; simp; omega

theorem slice_head {α} (buffer : List α) (e i : Nat) (X Y : List α) (he : e ≤ buffer.length)
    (h : (buffer.take e).drop i = X ++ Y) : pySlice buffer i (i + X.length) = X := by
  have hl := rem_length buffer e i _ he h
  simp only [List.length_append] at hl
  unfold pySlice
  rw [List.drop_take, Nat.add_sub_cancel_left]
  rw [List.drop_take] at h
  have : List.take X.length (List.drop i buffer)
      = List.take X.length (List.take (e - i) (List.drop i buffer)) := by
    rw [List.take_take, Nat.min_eq_left (by omega)]
  rw [this, h, List.take_left]

theorem slice_tail {α} (buffer : List α) (e i : Nat) (X Y : List α)
    (h : (buffer.take e).drop i = X ++ Y) : (buffer.take e).drop (i + X.length) = Y := by
  rw [← List.drop_drop, h, List.drop_left]

theorem rem_getElem (buffer : Bytes) (e i x : Nat) (Y : Bytes) (he : e ≤ buffer.length)
    (h : (buffer.take e).drop i = x :: Y) : ∃ hi : i < buffer.length, buffer[i] = x := by
  have hl := rem_length buffer e i _ he h
  simp only [List.length_cons] at hl
  have hi : i < buffer.length := by omega
  refine ⟨hi, ?_⟩
  have h1 : (List.drop i (List.take e buffer))[0]'(by rw [h]; simp) = x := by simp [h]
  rw [List.getElem_drop, List.getElem_take] at h1
  simpa using h1

/-- the loop of `QueueElement.__init__` over well-formed AD structures -/
theorem qeLoop_ads (buffer : Bytes) (e : Nat) (he : e ≤ buffer.length) (ads : List (Nat × Bytes)) :
    ∀ (fuel i : Nat) (q : QueueElement), e ≤ i + fuel →
      (buffer.take e).drop i = encodeAds ads →
      qeLoop buffer e fuel i q = .ok (ads.foldl applyAd q) := by
  induction ads with
  | nil =>
    intro fuel i q _ hrem
    have hl := rem_length buffer e i _ he hrem
    simp [encodeAds] at hl
    have : ¬ i < e := by omega
    cases fuel <;> simp [qeLoop, this]
  | cons a ads ih =>
    intro fuel i q hf hrem
    obtain ⟨t, d⟩ := a
    rw [encodeAds_cons] at hrem
    have hl := rem_length buffer e i _ he hrem
    simp only [List.length_cons, List.length_append] at hl
    have hi : i < e := by omega
    cases fuel with
    | zero => omega
    | succ fuel =>
      obtain ⟨hib, hsize⟩ := rem_getElem buffer e i _ _ he hrem
      unfold qeLoop
      simp only [hi, ↓reduceIte]
      rw [pyGet_nat buffer i hib, hsize]
      simp only
      have hc : ¬ (d.length + 1 + i + 1 > e ∨ i + 1 > e ∨ d.length + 1 = 0) := by omega
      simp only [hc, ↓reduceIte]
      -- the slices
      have h1 : (buffer.take e).drop (i + 1) = (t :: d) ++ encodeAds ads := by
        have := slice_tail buffer e i [d.length + 1] (t :: (d ++ encodeAds ads)) (by simpa using hrem)
        simpa using this
      have hs1 : pySlice buffer (i + 1) (i + 1 + (d.length + 1)) = t :: d := by
        have := slice_head buffer e (i + 1) (t :: d) (encodeAds ads) he h1
        simpa using this
      have hs2 : pySlice buffer i (i + 1 + (d.length + 1)) = (d.length + 1) :: t :: d := by
        have := slice_head buffer e i ((d.length + 1) :: t :: d) (encodeAds ads) he
          (by simpa using hrem)
        simpa [Nat.add_assoc, Nat.add_comm 1] using this
      have h2 : (buffer.take e).drop (i + 1 + (d.length + 1)) = encodeAds ads := by
        have := slice_tail buffer e (i + 1) (t :: d) (encodeAds ads) h1
        simpa using this
      rw [hs1, decodeDataStruct_eq]
      simp only
      rw [hs2, ih fuel (i + 1 + (d.length + 1)) _ (by omega) h2]
      simp only [List.foldl_cons, applyAd, encodeAd]
      cases (adResult q t d).2 <;> simp

/-- the spec's AD parser only accepts byte strings that are an encoding -/
theorem parseAdsF_sound (fuel : Nat) (b : Bytes) (ads : List (Nat × Bytes))
    (h : parseAdsF fuel b = some ads) : b = encodeAds ads := by
  induction fuel generalizing b ads with
  | zero =>
    cases b with
    | nil => simp [parseAdsF] at h; subst h; rfl
    | cons x xs => simp [parseAdsF] at h
  | succ fuel ih =>
    match b with
    | [] => simp [parseAdsF] at h; subst h; rfl
    | [l] => simp [parseAdsF] at h
    | l :: t :: r =>
      simp only [parseAdsF] at h
      split at h
      · cases h
      · rename_i hc
        cases hp : parseAdsF fuel (r.drop (l - 1)) with
        | none => rw [hp] at h; cases h
        | some ads' =>
          rw [hp] at h
          simp only [Option.some.injEq] at h
          subst h
          have := ih _ _ hp
          rw [encodeAds_cons]
          simp only
          have hlen : (r.take (l - 1)).length = l - 1 := by simp; omega
          rw [hlen, ← this, List.take_append_drop]
          congr 1; omega

theorem parseAds_sound (b : Bytes) (ads : List (Nat × Bytes)) (h : parseAds b = some ads) :
    b = encodeAds ads := parseAdsF_sound _ b ads h

/-- `QueueElement(buffer)` for `buffer = header, length, AdvA ‖ AD structures, CRC…` -/
theorem ofBuffer_ads (h len : Nat) (mac : Bytes) (ads : List (Nat × Bytes)) (tail : Bytes)
    (hmac : mac.length = 6) (hlen : len = 6 + (encodeAds ads).length) :
    QueueElement.ofBuffer (h :: len :: (mac ++ encodeAds ads ++ tail)) =
      .ok (refElement ⟨mac, ads⟩) := by
  unfold QueueElement.ofBuffer
  rw [pyGet_one]
  simp only
  have hmacs : pySlice (h :: len :: (mac ++ encodeAds ads ++ tail)) 2 8 = mac := by
    simp only [pySlice, List.take_succ_cons, List.drop_succ_cons, List.drop_zero]
    rw [List.append_assoc, List.take_left' hmac]
  rw [hmacs]
  apply qeLoop_ads _ _ (by simp; omega) ads _ _ _ (by omega)
  rw [show len + 2 = (h :: len :: (mac ++ encodeAds ads)).length by simp [hmac, hlen]]
  rw [show h :: len :: (mac ++ encodeAds ads ++ tail) = (h :: len :: (mac ++ encodeAds ads)) ++ tail
    by simp]
  rw [List.take_left]
  rw [show (8 : Nat) = (h :: len :: mac).length by simp [hmac]]
  rw [show h :: len :: (mac ++ encodeAds ads) = (h :: len :: mac) ++ encodeAds ads by simp]
  rw [List.drop_left]

end Nrf.Proofs.Ble
