/-
Histories of channel-related operations on a `FakeBLE` object that shares its radio with other
objects: the whitening index follows the tuned frequency.
-/
import NrfModel.Ble.Device

namespace Nrf.Proofs.Ble
open Nrf.Ble

/-- operations of a history -/
inductive ChanOp where
  | hop
  | chan (v : Nat)
  /-- leave a `with` block (`FakeBLE.__exit__`) -/
  | exit
  /-- enter a `with` block (`RF24.__enter__` rewrites register 5 from `_channel`) -/
  | enter
  /-- another object sharing the radio programs register 5 (between our `with` blocks) -/
  | foreign (v : Nat)
  | name (a : NameArg)
  | showPa (e : Bool)
  | mac (a : MacArg)
  | pa (level : Int)

/-- object, radio, and the ghost flag "this object was the last to program register 5" -/
structure World where
  ble : Ble
  radio : Radio
  owner : Bool

def World.init (mac : Bytes) : World := ⟨(Ble.init mac).1, (Ble.init mac).2, true⟩

/-- one operation; a Python exception leaves the state as it is (all of these raise before
    they assign) -/
def stepOp (w : World) : ChanOp → World
  | .hop => match w.ble.hopChannel w.radio with
    | .ok (s, r) => ⟨s, r, true⟩
    | .error _ => w
  | .chan v => match w.ble.setChannel w.radio v with
    | .ok (s, r) => ⟨s, r, w.owner || decide (v ∈ BLE_FREQ)⟩
    | .error _ => w
  | .exit => { w with ble := w.ble.exit }
  | .enter => { w with radio := w.ble.enter w.radio, owner := true }
  | .foreign v => { w with radio := { w.radio with rfCh := v }, owner := false }
  | .name a => match w.ble.setName a with
    | .ok s => { w with ble := s }
    | .error _ => w
  | .showPa e => match w.ble.setShowPa e with
    | .ok s => { w with ble := s }
    | .error _ => w
  | .mac a => match w.ble.setMac a with
    | .ok s => { w with ble := s }
    | .error _ => w
  | .pa l => match w.radio.setPaLevel l with
    | .ok r => { w with radio := r }
    | .error _ => w

def runOps (w : World) (ops : List ChanOp) : World := ops.foldl stepOp w

/-- the invariant: the whitening index stands for the shadowed channel, and whenever this
    object was the last to program register 5 the radio is tuned to it -/
def ChanInv (w : World) : Prop :=
  BLE_FREQ[w.ble.currFreq]? = some w.ble.channel ∧ (w.owner = true → w.radio.rfCh = w.ble.channel)

theorem chanInv_cases {w : World} (h : ChanInv w) :
    (w.ble.currFreq = 0 ∧ w.ble.channel = 2) ∨ (w.ble.currFreq = 1 ∧ w.ble.channel = 26) ∨
    (w.ble.currFreq = 2 ∧ w.ble.channel = 80) := by
  obtain ⟨h1, _⟩ := h
  rcases Nat.lt_or_ge w.ble.currFreq 3 with hlt | hge
  · have : w.ble.currFreq = 0 ∨ w.ble.currFreq = 1 ∨ w.ble.currFreq = 2 := by omega
    rcases this with e | e | e <;> rw [e] at h1 <;> simp [BLE_FREQ] at h1 <;> simp [e, h1]
  · have : BLE_FREQ[w.ble.currFreq]? = none := List.getElem?_eq_none (by simp [BLE_FREQ]; omega)
    rw [this] at h1; cases h1

theorem setChannel_valid (s : Ble) (r : Radio) (v : Nat) (hv : v ∈ BLE_FREQ) :
    ∃ i, BLE_FREQ[i]? = some v ∧
      s.setChannel r v = .ok ({ s with currFreq := i, channel := v }, { r with rfCh := v }) := by
  have : v = 2 ∨ v = 26 ∨ v = 80 := by simpa [BLE_FREQ] using hv
  rcases this with rfl | rfl | rfl
  · exact ⟨0, rfl, by simp [Ble.setChannel, BLE_FREQ, indexOf, List.idxOf?, List.findIdx?, List.findIdx?.go, bind, Except.bind, pure, Except.pure]⟩
  · exact ⟨1, rfl, by simp [Ble.setChannel, BLE_FREQ, indexOf, List.idxOf?, List.findIdx?, List.findIdx?.go, bind, Except.bind, pure, Except.pure]⟩
  · exact ⟨2, rfl, by simp [Ble.setChannel, BLE_FREQ, indexOf, List.idxOf?, List.findIdx?, List.findIdx?.go, bind, Except.bind, pure, Except.pure]⟩

theorem setChannel_invalid (s : Ble) (r : Radio) (v : Nat) (hv : v ∉ BLE_FREQ) :
    s.setChannel r v = .ok (s, r) := by
  simp [Ble.setChannel, hv, pure, Except.pure]

theorem hopChannel_ok (s : Ble) (r : Radio) (h : s.currFreq < 3) :
    ∃ i v, BLE_FREQ[i]? = some v ∧
      s.hopChannel r = .ok ({ s with currFreq := i, channel := v }, { r with rfCh := v }) := by
  have : s.currFreq = 0 ∨ s.currFreq = 1 ∨ s.currFreq = 2 := by omega
  rcases this with e | e | e
  · refine ⟨1, 26, rfl, ?_⟩
    obtain ⟨i, hi, hs⟩ := setChannel_valid { s with currFreq := 1 } r 26 (by simp [BLE_FREQ])
    have : i = 1 := by
      rcases Nat.lt_or_ge i 3 with h3 | h3
      · have : i = 0 ∨ i = 1 ∨ i = 2 := by omega
        rcases this with rfl | rfl | rfl <;> simp [BLE_FREQ] at hi ⊢
      · rw [List.getElem?_eq_none (by simp [BLE_FREQ]; omega)] at hi; cases hi
    subst this
    simp [Ble.hopChannel, e, BLE_FREQ, pyGet, bind, Except.bind] at hs ⊢
    exact hs
  · refine ⟨2, 80, rfl, ?_⟩
    obtain ⟨i, hi, hs⟩ := setChannel_valid { s with currFreq := 2 } r 80 (by simp [BLE_FREQ])
    have : i = 2 := by
      rcases Nat.lt_or_ge i 3 with h3 | h3
      · have : i = 0 ∨ i = 1 ∨ i = 2 := by omega
        rcases this with rfl | rfl | rfl <;> simp [BLE_FREQ] at hi ⊢
      · rw [List.getElem?_eq_none (by simp [BLE_FREQ]; omega)] at hi; cases hi
    subst this
    simp [Ble.hopChannel, e, BLE_FREQ, pyGet, bind, Except.bind] at hs ⊢
    exact hs
  · refine ⟨0, 2, rfl, ?_⟩
    obtain ⟨i, hi, hs⟩ := setChannel_valid { s with currFreq := 0 } r 2 (by simp [BLE_FREQ])
    have : i = 0 := by
      rcases Nat.lt_or_ge i 3 with h3 | h3
      · have : i = 0 ∨ i = 1 ∨ i = 2 := by omega
        rcases this with rfl | rfl | rfl <;> simp [BLE_FREQ] at hi ⊢
      · rw [List.getElem?_eq_none (by simp [BLE_FREQ]; omega)] at hi; cases hi
    subst this
    simp [Ble.hopChannel, e, BLE_FREQ, pyGet, bind, Except.bind] at hs ⊢
    exact hs

theorem setName_chan (s s' : Ble) (a : NameArg) (h : s.setName a = .ok s') :
    s'.currFreq = s.currFreq ∧ s'.channel = s.channel := by
  cases a with
  | none => simp only [Ble.setName] at h; cases h; exact ⟨rfl, rfl⟩
  | other => simp only [Ble.setName] at h; cases h
  | bytes b =>
    simp only [Ble.setName] at h
    split at h
    · cases h
    · cases h; exact ⟨rfl, rfl⟩

theorem setShowPa_chan (s s' : Ble) (e : Bool) (h : s.setShowPa e = .ok s') :
    s'.currFreq = s.currFreq ∧ s'.channel = s.channel := by
  unfold Ble.setShowPa at h
  split at h
  · split at h <;> cases h; exact ⟨rfl, rfl⟩
  · cases h; exact ⟨rfl, rfl⟩

theorem setMac_chan (s s' : Ble) (a : MacArg) (h : s.setMac a = .ok s') :
    s'.currFreq = s.currFreq ∧ s'.channel = s.channel := by
  unfold Ble.setMac at h
  cases a with
  | none =>
    simp only [bind, Except.bind, pure, Except.pure] at h
    split at h <;> cases h <;> exact ⟨rfl, rfl⟩
  | bytes b =>
    simp only [bind, Except.bind, pure, Except.pure] at h
    split at h <;> cases h <;> exact ⟨rfl, rfl⟩
  | int n =>
    simp only [bind, Except.bind, pure, Except.pure] at h
    cases hb : toBytes6Little n with
    | error e => rw [hb] at h; cases h
    | ok b =>
      rw [hb] at h
      simp only at h
      split at h <;> cases h <;> exact ⟨rfl, rfl⟩

theorem setPaLevel_rfCh (r r' : Radio) (l : Int) (h : r.setPaLevel l = .ok r') : r'.rfCh = r.rfCh := by
  unfold Radio.setPaLevel at h
  split at h <;> cases h; rfl

theorem chanInv_init (mac : Bytes) : ChanInv (World.init mac) := ⟨rfl, fun _ => rfl⟩

theorem chanInv_step (w : World) (op : ChanOp) (h : ChanInv w) : ChanInv (stepOp w op) := by
  have hc := chanInv_cases h
  have hlt : w.ble.currFreq < 3 := by omega
  cases op with
  | hop =>
    obtain ⟨i, v, hi, hs⟩ := hopChannel_ok w.ble w.radio hlt
    simp only [stepOp, hs]
    exact ⟨hi, fun _ => rfl⟩
  | chan v =>
    by_cases hv : v ∈ BLE_FREQ
    · obtain ⟨i, hi, hs⟩ := setChannel_valid w.ble w.radio v hv
      simp only [stepOp, hs]
      exact ⟨hi, fun _ => rfl⟩
    · simp only [stepOp, setChannel_invalid _ _ _ hv, hv, decide_false, Bool.or_false]
      exact h
  | exit => exact h
  | enter => exact ⟨h.1, fun _ => rfl⟩
  | «foreign» v => exact ⟨h.1, fun hf => by cases hf⟩
  | name a =>
    simp only [stepOp]
    cases hs : w.ble.setName a with
    | error e => exact h
    | ok s' => obtain ⟨e1, e2⟩ := setName_chan _ _ _ hs; exact ⟨by simp [e1, e2, h.1], by simpa [e2] using h.2⟩
  | showPa e =>
    simp only [stepOp]
    cases hs : w.ble.setShowPa e with
    | error e => exact h
    | ok s' => obtain ⟨e1, e2⟩ := setShowPa_chan _ _ _ hs; exact ⟨by simp [e1, e2, h.1], by simpa [e2] using h.2⟩
  | mac a =>
    simp only [stepOp]
    cases hs : w.ble.setMac a with
    | error e => exact h
    | ok s' => obtain ⟨e1, e2⟩ := setMac_chan _ _ _ hs; exact ⟨by simp [e1, e2, h.1], by simpa [e2] using h.2⟩
  | pa l =>
    simp only [stepOp]
    cases hs : w.radio.setPaLevel l with
    | error e => exact h
    | ok r' => have := setPaLevel_rfCh _ _ _ hs; exact ⟨h.1, by simpa [this] using h.2⟩

theorem chanInv_run (w : World) (ops : List ChanOp) (h : ChanInv w) : ChanInv (runOps w ops) := by
  induction ops generalizing w with
  | nil => exact h
  | cons op ops ih => exact ih _ (chanInv_step w op h)

end Nrf.Proofs.Ble
