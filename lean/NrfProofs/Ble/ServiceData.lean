/-
Service data codecs: what the getters return for what the setters stored.
-/
import NrfModel.Ble.Service
import NrfModel.Spec.BleLinkLayer
import NrfProofs.Ble.Crc

namespace Nrf.Proofs.Ble
open Nrf.Ble Nrf.Spec.BleLL

theorem and_800000 (m : Nat) (hm : m < 2 ^ 24) : (m &&& 0x800000 ≠ 0) ↔ 2 ^ 23 ≤ m := by
  have h := testBit23 m
  have h2 : m.testBit 23 = decide (2 ^ 23 ≤ m) := by
    rw [Nat.testBit, Nat.shiftRight_eq_div_pow]
    have : m / 2 ^ 23 < 2 := by omega
    by_cases hge : 2 ^ 23 ≤ m
    · have : m / 2 ^ 23 = 1 := by omega
      simp [this, hge]
    · have : m / 2 ^ 23 = 0 := by omega
      simp [this, hge]
  rw [h2] at h
  constructor
  · intro hne
    have : decide (m &&& 0x800000 ≠ 0) = true := by simp [hne]
    rw [← h] at this; simpa using this
  · intro hge
    have : decide (2 ^ 23 ≤ m) = true := by simp [hge]
    rw [h] at this; simpa using this

theorem packi_nat (m : Nat) (h : m < 2147483648) :
    packi (m : Int) = .ok [m % 256, (m / 256) % 256, (m / 65536) % 256, (m / 16777216) % 256] := by
  unfold packi
  have h1 : (-2147483648 : Int) ≤ (m : Int) ∧ (m : Int) < 2147483648 := by omega
  rw [if_pos h1]
  have hu : ((m : Int) % 4294967296).toNat = m := by omega
  simp only [hu]

/-- temperature: the getter returns (in hundredths) exactly the integer the setter encoded,
    over the whole 24-bit two's-complement range, negatives included -/
theorem temp_roundtrip (h : Int) (hlo : -8388608 ≤ h) (hhi : h < 8388608) :
    ∃ d, tempSet h = .ok d ∧ d.length = 4 ∧ tempGet d = .ok h ∧
      temperatureHundredths d = some h ∧ d = temperatureOctets h := by
  have hm0 : 0 ≤ h % 16777216 := Int.emod_nonneg _ (by omega)
  have hm1 : h % 16777216 < 16777216 := Int.emod_lt_of_pos _ (by omega)
  obtain ⟨m, hm⟩ : ∃ m : Nat, h % 16777216 = (m : Int) := ⟨(h % 16777216).toNat, by omega⟩
  have hmlt : m < 16777216 := by omega
  have hu : ((m : Int) % 4294967296).toNat = m := by omega
  refine ⟨[m % 256, m / 256 % 256, m / 65536 % 256, 0xFE], ?_, rfl, ?_, ?_, ?_⟩
  · simp only [tempSet, hm, packi_nat m (by omega), bind, Except.bind, pure, Except.pure]
    rfl
  · simp only [tempGet, pySlice, unpacki, bind, Except.bind, pure, Except.pure]
    simp only [List.take, List.drop, List.cons_append, List.nil_append]
    have hsum : m % 256 + 256 * (m / 256 % 256) + 65536 * (m / 65536 % 256) + 16777216 * 0 = m := by
      omega
    rw [hsum]
    have hlt : m < 2147483648 := by omega
    simp only [hlt, ↓reduceIte, Int.toNat_natCast]
    by_cases hneg : 2 ^ 23 ≤ m
    · have := (and_800000 m (by omega)).2 hneg
      rw [if_pos this]
      congr 1; omega
    · have : ¬ (m &&& 0x800000 ≠ 0) := fun hc => hneg ((and_800000 m (by omega)).1 hc)
      rw [if_neg this]
      congr 1; omega
  · simp only [temperatureHundredths, signed]
    have h1 : ¬ ((254 : Nat) < 2 ^ (8 - 1)) := by decide
    simp only [h1, ↓reduceIte]
    have h2 : ((254 : Nat) : Int) - 2 ^ 8 = -2 := by simp
    simp only [h2, ↓reduceIte]
    have hsum : m % 256 + 256 * (m / 256 % 256) + 65536 * (m / 65536 % 256) = m := by omega
    rw [hsum]
    by_cases hneg : m < 2 ^ (24 - 1)
    · simp only [hneg, ↓reduceIte]; congr 1; simp at hneg; omega
    · simp only [hneg, ↓reduceIte]; congr 1; simp at hneg; omega
  · simp only [temperatureOctets, hm, Int.toNat_natCast]
    congr 2
    congr 1
    omega

/-- battery level 0..255 -/
theorem batt_roundtrip (v : Nat) (hv : v < 256) :
    battSet (v : Int) = .ok [v] ∧ battGet [v] = .ok v ∧ batteryLevel [v] = some v := by
  refine ⟨?_, ?_, rfl⟩
  · simp [battSet, packB]; omega
  · simp [battGet, pyGet]

/-- Eddystone TX power byte -/
theorem urlpa_roundtrip (p : Int) (hlo : -128 ≤ p) (hhi : p < 128) :
    ∃ t, urlSetPaInt urlTypeInit p = .ok t ∧ t.length = 4 ∧ urlGetPa t = .ok p ∧
      t = [0xAA, 0xFE, 0x10, (p % 256).toNat] ∧ signed 8 (p % 256).toNat = p := by
  refine ⟨[0xAA, 0xFE, 0x10, (p % 256).toNat], ?_, rfl, ?_, rfl, ?_⟩
  · simp [urlSetPaInt, urlTypeInit, packb, hlo, hhi, bind, Except.bind, pure, Except.pure]
  · simp only [urlGetPa, List.length_cons, List.length_nil, List.drop, unpackb]
    congr 1
    split <;> omega
  · simp only [signed]
    split <;> omega

end Nrf.Proofs.Ble
