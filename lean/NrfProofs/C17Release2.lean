/-
C17, release end to end, part 2: the whole `release_address()` with `_begin(0o4444)` on the radio as a
hypothesis about the run's own state (`release_closed`), the master's next `update()` as a top-level call
(`release_master_turn`), and the instance on `lookEx` (kernel evaluation for the `_begin` leg).
-/
import NrfProofs.C17Release1

namespace Nrf.Net.Join
open Nrf Nrf.Net Nrf.Spec Nrf.Proofs

/-- the state after `release_address()` returned `True`, as far as the master's next `update()` needs it:
    `x` unassigned with an empty RX FIFO; the master untouched, the release frame waiting in its RX FIFO -/
structure Released (L : LinkCfg) (Pm : List Bytes) (m x px : Nat) (pk : Bytes) (t : Mesh.Table) (s4 : NetState) :
    Prop where
  cur : s4.cur = x
  len : s4.nodes.length = 2
  closed : s4.closed = true
  faults : s4.w.faults = []
  xaddr : (s4.nodeAt x).a.addr = NETWORK_DEFAULT_ADDR
  fx : (s4.radioAt x).rxFifo = []
  ridm : s4.ridAt m < s4.w.radios.length
  Nm : NodeRadio L Pm true true 0x3E (s4.nodeAt m).rf (s4.radioAt m)
  fm : (s4.radioAt m).rxFifo = [{ pipe := px, data := pk }]
  kind : (s4.nodeAt m).kind = .meshMaster
  mid : (s4.nodeAt m).nodeId = 0
  maddr : (s4.nodeAt m).a.addr = 0
  mret : (s4.nodeAt m).retSysMsg = true
  mdo : (s4.nodeAt m).doDhcp = false
  arrm : (s4.nodeAt m).arrivals = []
  table : (s4.nodeAt m).dhcp = t

/-- **`release_address()` of the connected node, with the `_begin(0o4444)` leg as a hypothesis about the
    state this run produces** (`s1` is determined by `s`: the state the release frame's `_write` ends in). -/
theorem release_closed (s : NetState) (L : LinkCfg) (Pm Px : List Bytes) (m x px ax : Nat) (Am Ax pk : Bytes)
    (P4 : NetState → Prop) (C : Conn L Pm Px m x px ax Am Ax s)
    (hpk : (relFrame (s.nodeAt x).frameBuf.header.frameId (s.nodeAt x).frameBuf.header.reserved ax).pack = .ok pk)
    (hdupm : ∀ pid, (s.radioAt m).lastRx ≠ some { pid := pid, addr := Am, data := pk })
    (Hb : ∀ s1, nexec (nodeWrite F 0 TX_NORMAL) (s.withFrame
        (relFrame (s.nodeAt x).frameBuf.header.frameId (s.nodeAt x).frameBuf.header.reserved ax)) = (.ok true, s1) →
      RelSent L Pm Px m x px ax Am pk s s1 →
      ∃ s4, nexec (begin NETWORK_DEFAULT_ADDR) s1 = (.ok (), s4) ∧ P4 s4) :
    ∃ s4, nexec meshRelease s = (.ok true, s4) ∧ P4 s4 := by
  obtain ⟨s1, R, eW, e⟩ := release_write s L Pm Px m x px ax Am Ax pk C hpk hdupm
  obtain ⟨s4, eb, p4⟩ := Hb s1 eW R
  refine ⟨s4, ?_, p4⟩
  rw [e, eb]

/-- the context switch between two top-level calls, as the driver's `runAs` makes it: the node that
    ran leaves (its clock saved, the call stack cleared), node `m` enters -/
def _root_.Nrf.Net.NetState.turn (s : NetState) (m : Nat) : NetState :=
  let s' : NetState := { s.setNode (fun n => { n with clock := s.w.clock }) with active := [] }
  { s' with cur := m, active := [m], w := { s'.w with clock := (s'.nodes.getD m default).clock } }

theorem turn_nodeAt_ne (s : NetState) (m k : Nat) (h : k ≠ s.cur) : (s.turn m).nodeAt k = s.nodeAt k := by
  show (s.setNode _).nodeAt k = _
  rw [nodeAt_setNode, if_neg (fun hh => h hh.1)]

theorem turn_radioAt (s : NetState) (m k : Nat) : (s.turn m).radioAt k = s.radioAt k :=
  radioAt_setNode s (fun n => { n with clock := s.w.clock }) (fun _ => rfl) k

/-- **the master's next `update()` after a release** (a top-level call from a `Released` state): it returns
    197 and its table is `Mesh.releaseScan t ax t` — C16's release of the lease on `ax`. -/
theorem release_master_turn (s4 : NetState) (L : LinkCfg) (Pm : List Bytes) (m x px fid r ax : Nat) (pk : Bytes)
    (t : Mesh.Table) (R : Released L Pm m x px pk t s4) (hm : m < 2) (hx : x < 2) (hmx : m ≠ x) (hpx : px ≤ 5)
    (hpk : (relFrame fid r ax).pack = .ok pk)
    (hax : ax < 4096) (hfid : fid < 65536) (hr : r < 256) (haxv : isValid ax = true) (hax0 : ax ≠ 0) :
    ∃ s5, nexec (nodeUpdate F) (s4.turn m) = (.ok MESH_ADDR_RELEASE, s5) ∧
      (s5.nodeAt m).dhcp = (Mesh.releaseScan t ax t).1 ∧ s5.nodeAt x = (s4.turn m).nodeAt x := by
  have hmc : m ≠ s4.cur := by rw [R.cur]; exact hmx
  have two : ∀ k, k < 2 → k = m ∨ k = x := by omega
  generalize hsm : s4.turn m = sm
  have smcur : sm.cur = m := by rw [← hsm]; rfl
  have smlen : sm.nodes.length = 2 := by
    rw [← hsm]; show (s4.setNode _).nodes.length = 2
    simpa [NetState.setNode] using R.len
  have smc : sm.cur < sm.nodes.length := by rw [smcur, smlen]; exact hm
  have smnode : sm.node = s4.nodeAt m := by
    rw [node_eq_nodeAt, smcur, ← hsm]; exact turn_nodeAt_ne s4 m m hmc
  have smrad : ∀ k, sm.radioAt k = s4.radioAt k := by intro k; rw [← hsm]; exact turn_radioAt s4 m k
  have smdrvr : sm.drv.radio = s4.radioAt m := by
    show sm.w.radio sm.node.rf.rid = _
    rw [smnode, ← hsm]; rfl
  obtain ⟨D1, e, _, _, _⟩ := master_release (200000 - 4) sm L Pm px fid r ax pk smc (by rw [← hsm]; exact R.closed)
    (by rw [smlen]; decide)
    (by
      intro k hk hkc hka
      rcases two k (by rw [← smlen]; exact hk) with rfl | rfl
      · exact absurd smcur.symm hkc
      · rw [smrad]; exact R.fx)
    (by show sm.node.rf.rid < sm.w.radios.length
        rw [smnode, ← hsm]; exact R.ridm)
    (by rw [smnode, smdrvr]; exact R.Nm)
    (by rw [smnode]; exact R.arrm) (by rw [smdrvr]; exact R.fm) hpx hpk hax hfid hr haxv hax0
    (by rw [smnode]; exact R.kind) (by rw [smnode]; exact R.mid) (by rw [smnode]; exact R.maddr)
    (by rw [smnode]; exact R.mret) (by rw [smnode]; exact R.mdo)
  refine ⟨_, e, ?_, ?_⟩
  · have := nodeAt_putNode_cur (sm.afterRf D1) (freed sm.node D1.d fid r ax) (by simpa using smc)
    rw [show (sm.afterRf D1).cur = m from smcur] at this
    rw [this]
    show (Mesh.releaseScan sm.node.dhcp ax sm.node.dhcp).1 = _
    rw [smnode, R.table]
  · have hxc : x ≠ sm.cur := by rw [smcur]; exact fun h => hmx h.symm
    rw [nodeAt_putNode_ne _ _ _ (by show x ≠ sm.cur; exact hxc), nodeAt_afterRf_ne _ _ _ hxc]

/-! ### the instance on `lookEx` -/

/-- the packed release frame of the node at 0o1 (frame id 0, `reserved` 0 as the fresh `frame_buf` has them) -/
def relPk : Bytes := [1, 0, 0, 0, 0, 0, 197, 0]

def isOkBytes (v : Bytes) : Except PyErr Bytes → Bool
  | .ok w => decide (w = v)
  | _ => false

theorem isOkBytes_eq {v : Bytes} {r : Except PyErr Bytes} (h : isOkBytes v r = true) : r = .ok v := by
  cases r with
  | ok w => exact congrArg Except.ok (of_decide_eq_true h)
  | error e => cases h

theorem relPk_eq : (relFrame 0 0 1).pack = .ok relPk := isOkBytes_eq (by decide +kernel)

/-- the states of `release_address()` on `lookEx`: after the release frame's `_write`, after `_begin(0o4444)` -/
def relEx1 : NetState := (nexec (nodeWrite F 0 TX_NORMAL) (lookEx.withFrame (relFrame 0 0 1))).2
def relEx4 : NetState := (nexec (begin NETWORK_DEFAULT_ADDR) relEx1).2

open Nrf.Net.Example in
theorem relEx4_released : Released L P0 0 1 1 relPk [(7, 1), (9, 4)] relEx4 :=
  { cur := by decide +kernel, len := by decide +kernel, closed := by decide +kernel, faults := by decide +kernel,
    xaddr := by decide +kernel, fx := by decide +kernel, ridm := by decide +kernel, Nm := by decide +kernel,
    fm := by decide +kernel, kind := by decide +kernel, mid := by decide +kernel, maddr := by decide +kernel,
    mret := by decide +kernel, mdo := by decide +kernel, arrm := by decide +kernel, table := by decide +kernel }

theorem relEx4_begin : nexec (begin NETWORK_DEFAULT_ADDR) relEx1 = (.ok (), relEx4) :=
  Prod.ext (isOkUnit_eq (by decide +kernel)) rfl

end Nrf.Net.Join
