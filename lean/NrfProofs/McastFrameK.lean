/-
C14: the node's queue after `_handle_frame_for_other_node` handled a multicast frame — in the
closed system too (other nodes running at every poll point), by the frame theorem.
-/
import NrfProofs.McastNodeK
import NrfProofs.NetFrameTxK

namespace Nrf.Proofs.McastK
open Nrf Nrf.Net Nrf.NetK

theorem relayMulticast_tx {s0 : NetState} (g : Good s0) (f : Nat) (n : Node) :
    NPres (Frame TxKeeps clockLe s0) (relayMulticast f n) := by
  have hst := frame_stable txKeeps_rel clockLe_rel g
  unfold relayMulticast
  npres_k hst [nodeWrite_tx clockLe_rel clockLe_restorable g f _ TX_MULTICAST (Or.inl rfl)]

theorem good_updCur (s : NetState) (g : Good s) (f : Node → Node) : Good (updCur s f) :=
  ⟨g.onStack, by rw [updCur_length]; exact g.exists_⟩

/-- answering a poll turns the header of `frame_buf` around and transmits: the queue is not touched -/
theorem answerPoll_queue (s : NetState) (g : Good s) (f : Nat) (n : Node) :
    (curNode (nexec (answerPoll f n) s).2).queue = (curNode s).queue := by
  unfold answerPoll
  rw [nexec_bind, nexec_setHdr]
  simp only
  generalize hs1 : updCur s (fun m => { m with frameBuf := { m.frameBuf with header :=
      { m.frameBuf.header with toNode := m.frameBuf.header.fromNode, fromNode := n.a.addr } } }) = s1
  have g1 : Good s1 := by rw [← hs1]; exact good_updCur s g _
  have hq1 : (curNode s1).queue = (curNode s).queue := by
    rw [← hs1, curNode_updCur _ _ g.exists_]
  have hst := frame_stable txKeeps_rel clockLe_rel g1
  have hrest : NPres (Frame TxKeeps clockLe s1) (do
      sleepNs (n.a.parentPipe * 1000000)
      let _ ← nodeWrite f (← getNode).frameBuf.header.toNode TX_PHYSICAL) := by
    npres_k hst [nodeWrite_tx clockLe_rel clockLe_restorable g1 f _ TX_PHYSICAL (Or.inr rfl)]
  exact ((hrest.run s1 (Frame.refl txKeeps_rel clockLe_rel s1)).me.queue).trans hq1

/-- `enqueue` keeps the call well placed -/
theorem good_enqueue (s : NetState) (g : Good s) : Good (nexec enqueueFrameBuf s).2 := by
  have hst := frame_stable anyNode_rel clockLe_rel g
  exact ((enqueueFrameBuf_pres hst (fun _ _ => trivial)).run s (Frame.refl anyNode_rel clockLe_rel s)).good g

/-- **C14, queued once — and still queued after the relay.**  After
    `_handle_frame_for_other_node` handled a multicast frame (not a poll to be answered), however
    the call ends (normally, or with an exception out of the re-broadcast), whatever the other
    nodes do meanwhile: the node's queue is the queue before with `frame_buf` enqueued **once**
    (`NetQueue.enqueue`: appended unless the queue is full or holds the same frame already;
    fragments go to the reassembly cache), its address, flags and lease table are untouched. -/
theorem handleOther_multicast_queue (f msgT : Nat) (s : NetState) (g : Good s)
    (ham : (curNode s).cfg.allowMulticast = true)
    (hto : (curNode s).frameBuf.header.toNode = NETWORK_MULTICAST_ADDR)
    (hpoll : ¬ (msgT = NETWORK_POLL ∧ (curNode s).a.addr ≠ NETWORK_DEFAULT_ADDR)) :
    (curNode (nexec (handleOther (f + 1) msgT) s).2).queue =
      ((curNode s).queue.enqueue (curNode s).frameBuf).1 ∧
    (curNode (nexec (handleOther (f + 1) msgT) s).2).a = (curNode s).a ∧
    (curNode (nexec (handleOther (f + 1) msgT) s).2).relayEnabled = (curNode s).relayEnabled ∧
    (nexec (handleOther (f + 1) msgT) s).2.cur = s.cur := by
  rw [nexec_handleOther_multicast f msgT s ham hto hpoll, nexec_bind]
  have hq := nexec_enqueueFrameBuf_node s g.exists_
  have g1 := good_enqueue s g
  -- what `enqueue` leaves alone
  have hkeep : (curNode (nexec enqueueFrameBuf s).2).a = (curNode s).a ∧
      (curNode (nexec enqueueFrameBuf s).2).relayEnabled = (curNode s).relayEnabled ∧
      (nexec enqueueFrameBuf s).2.cur = s.cur := by
    unfold enqueueFrameBuf
    simp only [nexec_bind, nexec_getNode, nexec_modNode]
    split
    · simp only [nexec_bind, nexec_takeId, nexec_pure]
      refine ⟨?_, ?_, rfl⟩
      · show (curNode (updCur s _)).a = _
        rw [curNode_updCur _ _ g.exists_]
      · show (curNode (updCur s _)).relayEnabled = _
        rw [curNode_updCur _ _ g.exists_]
    · simp only [nexec_pure]
      refine ⟨?_, ?_, rfl⟩
      · rw [curNode_updCur _ _ g.exists_]
      · rw [curNode_updCur _ _ g.exists_]
  rcases he : nexec enqueueFrameBuf s with ⟨r, s1⟩
  rw [he] at hq g1 hkeep
  simp only at hq g1 hkeep
  cases r with
  | error e => cases hq.2
  | ok b =>
    simp only
    have hst := frame_stable txKeeps_rel clockLe_rel g1
    have hrest : NPres (Frame TxKeeps clockLe s1) (do
        if (curNode s).relayEnabled then relayMulticast f (curNode s)
        let n' ← getNode
        pure (if n'.frameBuf.header.ty = NETWORK_EXT_DATA then (false, NETWORK_EXT_DATA) else (true, msgT))) := by
      npres_k hst [relayMulticast_tx g1 f _]
    have hfr := hrest.run s1 (Frame.refl txKeeps_rel clockLe_rel s1)
    exact ⟨hfr.me.queue.trans hq.1, hfr.me.a.trans hkeep.1, hfr.me.relayEnabled.trans hkeep.2.1,
      hfr.cur.trans hkeep.2.2⟩

/-- **C14, a NETWORK_POLL multicast is never queued** (on a node that holds an address): after the
    call, however it ends, the queue is what it was. -/
theorem handleOther_poll_queue (f : Nat) (s : NetState) (g : Good s)
    (ham : (curNode s).cfg.allowMulticast = true)
    (hto : (curNode s).frameBuf.header.toNode = NETWORK_MULTICAST_ADDR)
    (haddr : (curNode s).a.addr ≠ NETWORK_DEFAULT_ADDR) :
    (curNode (nexec (handleOther (f + 1) NETWORK_POLL) s).2).queue = (curNode s).queue := by
  rw [nexec_handleOther_poll f s ham hto haddr]
  by_cases hp : (curNode s).parenthood = true
  · simp only [hp, ↓reduceIte, nexec_bind]
    have := answerPoll_queue s g f (curNode s)
    rcases hr : nexec (answerPoll f (curNode s)) s with ⟨r, s1⟩
    rw [hr] at this
    cases r <;> exact this
  · simp only [hp, Bool.false_eq_true, ↓reduceIte, nexec_pure]

/-- **C14, `multicast()` never puts the frame into the sender's own queue**, from whichever node
    (no loop-back for multicasts; closed system included) -/
theorem nodeWrite_multicast_queue (f tgt : Nat) (s : NetState) (g : Good s) :
    (curNode (nexec (nodeWrite f tgt TX_MULTICAST) s).2).queue = (curNode s).queue :=
  ((nodeWrite_tx clockLe_rel clockLe_restorable g f tgt TX_MULTICAST (Or.inl rfl)).run s
    (Frame.refl txKeeps_rel clockLe_rel s)).me.queue

end Nrf.Proofs.McastK
