/-
C13, the air log: the one-hop lemmas of NrfProofs/C05Closed.lean, C13HopsLink.lean, C13HopsSys.lean once more,
each with a clause about `World.air` added (under `AirContracts`, NrfProofs/AirContracts.lean).  The proofs
are those of the original lemmas with the air bookkeeping added.
-/
import NrfProofs.AirContracts
import NrfProofs.C13AirPlan

namespace Nrf.Net.Air
open Nrf Nrf.Spec Nrf.Proofs Nrf.Props.C04 Nrf.Net.Hops

/-- the air record `rec` is one acknowledged single-attempt transmission of the bytes `data` by radio `rid` -/
def OneBy (rid : Nat) (data : Bytes) (rec : AirRec) : Prop :=
  rec.sender = rid ∧ rec.pkt.data = data ∧ rec.attempts = 1 ∧ rec.ok = true

/-- the air clause of the route induction: the run `s → s'` of the router `n` hops from the destination
    appended exactly the transmissions of `ackPlan` from its position on -/
def AirA (tree : Nat → List Nat) (o d : List Nat) (pk pkA : Bytes) (n : Nat) (s s' : NetState) : Prop :=
  ∃ new, s'.w.air = s.w.air ++ new ∧ Forall2 (SentBy tree s) new (ackPlan o d pk pkA (dist o d - n) n)

theorem SentBy.of_eq {tree : Nat → List Nat} {s s' : NetState} (hl : s'.nodes.length = s.nodes.length)
    (hr : ∀ k, s'.ridAt k = s.ridAt k) {r : AirRec} {p : List Nat × Bytes} (h : SentBy tree s r p) :
    SentBy tree s' r p := by
  obtain ⟨j, hj, h1, h2, h3⟩ := h
  exact ⟨j, by rw [hl]; exact hj, h1, by rw [hr]; exact h2, h3⟩

theorem SentBy.of_same {tree : Nat → List Nat} {s s' : NetState} (hs : Same s s') {r : AirRec}
    {p : List Nat × Bytes} : SentBy tree s r p ↔ SentBy tree s' r p :=
  ⟨SentBy.of_eq hs.len (fun k => (hs.stat k).2.2.2.2),
   SentBy.of_eq hs.len.symm (fun k => ((hs.stat k).2.2.2.2).symm)⟩

theorem forall2_sentBy_of_same {tree : Nat → List Nat} {s s' : NetState} (hs : Same s s') {new : List AirRec}
    {plan : List (List Nat × Bytes)} :
    Forall2 (SentBy tree s) new plan ↔ Forall2 (SentBy tree s') new plan := by
  constructor
  · intro h; exact h.imp (fun _ _ h => (SentBy.of_same hs).1 h)
  · intro h; exact h.imp (fun _ _ h => (SentBy.of_same hs).2 h)


/-- **One hop, single frame, closed quiet network, loss-free.**  The running node (listening, on the
    call stack) hands the frame in `frame_buf` (message ≤ 24 bytes) to node `b` — another node, not on
    the call stack, listening with room, whose pipe `p` ∈ 1..5 (and no lower pipe) has the address
    `_pipe_address(tn, tp)`; no third radio listens to that address.  Then `_write_to_pipe` returns
    `True`; the only changes are: the running node's radio object and radio are in the transmit
    role (`D`), node `b`'s radio has stored the packed frame on pipe `p` (once), and the fault script
    is still empty. -/
theorem hop_single_air (hc : L3Contracts) (hair : AirContracts) (f : Nat) (s : NetState) (L : LinkCfg) (Pa Pb : List Bytes)
    (b p tn tp : Nat) (A pk : Bytes)
    (hcur : s.cur < s.nodes.length) (hclosed : s.closed = true)
    (hfuel : s.nodes.length + 2 ≤ f) (hquiet : Quiet s) (hWf : s.drv.Wf)
    (hNa : NodeRadio L Pa true true 0x3E s.node.rf s.drv.radio)
    (hb : b < s.nodes.length) (hbc : b ≠ s.cur) (hba : b ∉ s.active)
    (hrid : ∀ i, i < s.nodes.length → i ≠ s.cur → s.ridAt i ≠ s.ridAt s.cur)
    (hNb : NodeRadio L Pb true true 0x3E (s.nodeAt b).rf (s.radioAt b))
    (haddr : pipeAddress s.node.cfg tn tp = .ok A) (hA : Pb[p]? = some A) (hp1 : 1 ≤ p) (hp5 : p ≤ 5)
    (hlt : ∀ q, q < p → Pb[q]? ≠ some A) (hdup : NotDup (s.radioAt b) pk)
    (hothers : ∀ i pid, i ≠ s.ridAt s.cur → i ≠ s.ridAt b →
      (s.w.radio i).listensTo (unicastPacket L A pk pid) = none)
    (hfaults : s.w.faults = []) (hmsg : s.node.frameBuf.message.length ≤ MAX_FRAG_SIZE)
    (hpk : s.node.frameBuf.pack = .ok pk) (hnl : tn ≠ s.node.a.addr) :
    ∃ D : DrvState, nexec (nodeWriteToPipe (f + 1) tn tp false) s = (.ok true, s.afterRf D) ∧
      D.d.rid = s.node.rf.rid ∧ D.w.radios.length = s.w.radios.length ∧ D.w.faults = [] ∧
      NodeRadio L Pa false true 0x3F D.d D.radio ∧ D.radio.rxFifo = s.drv.radio.rxFifo ∧
      D.radio.lastRx = s.drv.radio.lastRx ∧
      (∃ pid, D.w.radio (s.ridAt b) =
        { (s.radioAt b) with rxFifo := (s.radioAt b).rxFifo ++ [{ pipe := p, data := pk }],
                              flags := (s.radioAt b).flags ||| 0x40, rpd := true,
                              lastRx := some { pid := pid, addr := A, data := pk }, lastAck := none }) ∧
      (∀ i, i ≠ s.ridAt s.cur → i ≠ s.ridAt b → D.w.radio i = s.w.radio i) ∧
      (∃ rec : AirRec, D.w.air = s.w.air ++ [rec] ∧ OneBy (s.ridAt s.cur) pk rec) := by
  have hridc : s.ridAt s.cur = s.drv.d.rid := rfl
  have hjb : s.ridAt b ≠ s.drv.d.rid := hrid b hb hbc
  -- 1. auto-ack on pipe 0
  obtain ⟨D1, e1, F1, N1, x1, _, _⟩ := hc.setAA s.drv L Pa true true 0x3E 0x3F hWf hNa (Or.inr rfl)
  -- 2. stop listening
  obtain ⟨D2, e2, F2, N2, x2⟩ := hc.listenOff D1 L Pa true true 0x3F (F1.wf hWf) N1
  -- 3. transmit address
  have hAlen : A.length = 5 := by
    obtain ⟨_, _, _, _, _, _, _, _, _, _, _, _, _, _, _, _, _, _, _, _, _, hPl, _⟩ := hNb
    exact hPl A (List.mem_of_getElem? hA)
  obtain ⟨D3, e3, F3, N3, x3, a3, t3⟩ := hc.openTx D2 L Pa false A ((F1.trans F2).wf hWf) N2 hAlen
  have F03 : DrvFrame s.drv D3 := (F1.trans F2).trans F3
  have hW3 : D3.Wf := F03.wf hWf
  -- the packet and its reception at `b`
  have hk : D3.packet pk = unicastPacket L A pk D3.radio.nextPid := N3.packet A pk t3 hAlen
  have hrb : D3.w.radio (s.ridAt b) = s.radioAt b := F03.others _ hjb
  have hpkl : pk.length = 8 + s.node.frameBuf.message.length := pack_length hpk
  have hrecv := Radio.receive_idle hNb p A pk D3.radio.nextPid hp1 hp5 hA hlt
    (by
      have := hquiet b hb hbc hba
      rw [this]; decide)
    (fun e => hdup _ e rfl)
  -- 4. send
  obtain ⟨D4, e4, r4, l4, f4, o4, N4, x4, lr4, _, _⟩ := hc.send D3 L Pa false pk (s.ridAt b) hW3 N3
    (by rw [t3, a3]) (by omega) (by unfold MAX_FRAG_SIZE at hmsg; omega)
    (by rw [F03.faults]; exact hfaults) (by rw [F03.rid]; exact hjb)
    (by rw [hrb, hk, hrecv])
  refine ⟨D4, ?_, ?_, ?_, f4, N4, ?_, ?_, ⟨D3.radio.nextPid, ?_⟩, ?_, ?_⟩
  · -- the computation
    rw [nodeWriteToPipe.eq_2, nexec_bind, nexec_getNode]
    have hno : ¬ (tn = s.node.a.addr ∧ (!false) = true) := fun h => hnl h.1
    simp only [if_neg hno, Bool.false_eq_true, if_false]
    have s1c : (s.afterRf D1).cur < (s.afterRf D1).nodes.length := by simpa using hcur
    have s2c : (s.afterRf D2).cur < (s.afterRf D2).nodes.length := by simpa using hcur
    have s3c : (s.afterRf D3).cur < (s.afterRf D3).nodes.length := by simpa using hcur
    have e63 : (62 + 1 : Int) = ((63 : Nat) : Int) := by decide
    rw [e63, nexec_bind, nexec_liftRf_ok _ s _ D1 e1]
    simp only []
    rw [nexec_bind, nexec_liftRf_ok _ _ _ D2 (by rw [afterRf_drv s D1 hcur]; exact e2), afterRf_afterRf]
    simp only []
    have hpa : nexec (pipeAddr tn tp) (s.afterRf D2) = (.ok A, s.afterRf D2) := by
      unfold Nrf.Net.pipeAddr
      rw [nexec_bind, nexec_getNode]
      simp only []
      rw [afterRf_node s D2 hcur]
      simp only []
      rw [haddr, nexec_liftPy_ok]
    rw [nexec_bind, hpa]
    simp only []
    rw [nexec_bind, nexec_liftRf_ok _ _ _ D3 (by rw [afterRf_drv s D2 hcur]; exact e3), afterRf_afterRf]
    simp only []
    rw [nexec_bind, nexec_getNode]
    simp only []
    rw [afterRf_node s D3 hcur]
    simp only [hmsg, if_true]
    have hpk' : ({ header := s.node.frameBuf.header, message := s.node.frameBuf.message } : Frame).pack = .ok pk := hpk
    rw [nexec_bind]
    have : (Frame.pack s.node.frameBuf) = .ok pk := hpk
    rw [this, nexec_liftPy_ok]
    simp only []
    -- `rfSend`
    obtain ⟨f', rfl⟩ : ∃ g, f = g + 1 := ⟨f - 1, by omega⟩
    have hq3 : Quiet (s.afterRf D3) := by
      intro i hi hic hia
      have hi' : i < s.nodes.length := by simpa using hi
      have hic' : i ≠ s.cur := hic
      unfold NetState.radioAt NetState.ridAt
      rw [nodeAt_afterRf_ne s D3 i hic', afterRf_w]
      have := F03.others (s.nodeAt i).rf.rid (hrid i hi' hic')
      rw [this]
      exact hquiet i hi' hic' hia
    have hsend : nexec (rfSend (f' + 1) pk) (s.afterRf D3) = (.ok true, s.afterRf D4) := by
      rw [rfSend.eq_2, nexec_bind, nexec_get]
      simp only [afterRf_closed, hclosed, if_true]
      rw [nexec_bind, runOthers_quiet0 _ hq3 f' (by simp; omega)]
      simp only []
      rw [nexec_bind, nexec_liftRf_ok _ _ _ D4 (by rw [afterRf_drv s D3 hcur]; exact e4), afterRf_afterRf]
      rfl
    rw [nexec_bind, hsend]
    rfl
  · rw [r4, F03.rid]; rfl
  · rw [l4, F03.len]; rfl
  · rw [x4, x3, x2, x1]
  · rw [lr4, F03.lastRx]
  · rw [o4 _ (by rw [F03.rid]; exact hjb), hrb, hk, hrecv]
  · intro i hic hib
    have hi3 : i ≠ D3.d.rid := by rw [F03.rid]; exact hic
    rw [o4 i hi3, F03.others i hic, hk]
    show ((s.w.radio i).receive _).1 = _
    rw [Radio.receive_ignore _ _ (hothers i _ hic hib)]
  · have A1 : D1.w.air = s.w.air := by
      have := hair.setAA s.drv L Pa true true 0x3E 0x3F hWf hNa (Or.inr rfl)
      rw [e1] at this; exact this
    have A2 : D2.w.air = D1.w.air := by
      have := hair.listenOff D1 L Pa true true 0x3F (F1.wf hWf) N1
      rw [e2] at this; exact this
    have A3 : D3.w.air = D2.w.air := by
      have := hair.openTx D2 L Pa false A ((F1.trans F2).wf hWf) N2 hAlen
      rw [e3] at this; exact this
    obtain ⟨rec, A4, q1, q2, q3, q4⟩ := hair.send D3 L Pa false pk (s.ridAt b) hW3 N3
      (by rw [t3, a3]) (by omega) (by unfold MAX_FRAG_SIZE at hmsg; omega)
      (by rw [F03.faults]; exact hfaults) (by rw [F03.rid]; exact hjb)
      (by rw [hrb, hk, hrecv])
    rw [e4] at A4
    refine ⟨rec, ?_, ?_, ?_, q3, q4⟩
    · show D4.w.air = _
      rw [A4, A3, A2, A1]
    · rw [q1, F03.rid]; rfl
    · rw [q2, hk]; rfl

/-- **One hop, single frame, closed quiet network, loss-free — receiver possibly suspended.**  As
    `hop_single`, but the receiver `b` may be on the call stack; it is listening, has room in its RX
    FIFO, and the packet is not a repetition of the last one it took. -/
theorem hop_any_air (hc : L3Contracts) (hair : AirContracts) (f : Nat) (s : NetState) (L : LinkCfg) (Pa Pb : List Bytes)
    (b p tn tp : Nat) (A pk : Bytes)
    (hcur : s.cur < s.nodes.length) (hclosed : s.closed = true)
    (hfuel : s.nodes.length + 2 ≤ f) (hquiet : Quiet s) (hWf : s.drv.Wf)
    (hNa : NodeRadio L Pa true true 0x3E s.node.rf s.drv.radio)
    (hb : b < s.nodes.length) (hbc : b ≠ s.cur)
    (hrid : ∀ i, i < s.nodes.length → i ≠ s.cur → s.ridAt i ≠ s.ridAt s.cur)
    (hNb : NodeRadio L Pb true true 0x3E (s.nodeAt b).rf (s.radioAt b))
    (haddr : pipeAddress s.node.cfg tn tp = .ok A) (hA : Pb[p]? = some A) (hp1 : 1 ≤ p) (hp5 : p ≤ 5)
    (hlt : ∀ q, q < p → Pb[q]? ≠ some A)
    (hroom : (s.radioAt b).rxFifo.length < 3)
    (hdup : ∀ pid, (s.radioAt b).lastRx ≠ some { pid := pid, addr := A, data := pk })
    (hothers : ∀ i pid, i ≠ s.ridAt s.cur → i ≠ s.ridAt b →
      (s.w.radio i).listensTo (unicastPacket L A pk pid) = none)
    (hfaults : s.w.faults = []) (hmsg : s.node.frameBuf.message.length ≤ MAX_FRAG_SIZE)
    (hpk : s.node.frameBuf.pack = .ok pk) (hnl : tn ≠ s.node.a.addr) :
    ∃ D : DrvState, nexec (nodeWriteToPipe (f + 1) tn tp false) s = (.ok true, s.afterRf D) ∧
      D.d.rid = s.node.rf.rid ∧ D.w.radios.length = s.w.radios.length ∧ D.w.faults = [] ∧
      NodeRadio L Pa false true 0x3F D.d D.radio ∧ D.radio.rxFifo = s.drv.radio.rxFifo ∧
      D.radio.lastRx = s.drv.radio.lastRx ∧
      (∃ pid, D.w.radio (s.ridAt b) =
        { (s.radioAt b) with rxFifo := (s.radioAt b).rxFifo ++ [{ pipe := p, data := pk }],
                              flags := (s.radioAt b).flags ||| 0x40, rpd := true,
                              lastRx := some { pid := pid, addr := A, data := pk }, lastAck := none }) ∧
      (∀ i, i ≠ s.ridAt s.cur → i ≠ s.ridAt b → D.w.radio i = s.w.radio i) ∧
      (∃ rec : AirRec, D.w.air = s.w.air ++ [rec] ∧ OneBy (s.ridAt s.cur) pk rec) := by
  have hridc : s.ridAt s.cur = s.drv.d.rid := rfl
  have hjb : s.ridAt b ≠ s.drv.d.rid := hrid b hb hbc
  obtain ⟨D1, e1, F1, N1, x1, _, _⟩ := hc.setAA s.drv L Pa true true 0x3E 0x3F hWf hNa (Or.inr rfl)
  obtain ⟨D2, e2, F2, N2, x2⟩ := hc.listenOff D1 L Pa true true 0x3F (F1.wf hWf) N1
  have hAlen : A.length = 5 := by
    obtain ⟨_, _, _, _, _, _, _, _, _, _, _, _, _, _, _, _, _, _, _, _, _, hPl, _⟩ := hNb
    exact hPl A (List.mem_of_getElem? hA)
  obtain ⟨D3, e3, F3, N3, x3, a3, t3⟩ := hc.openTx D2 L Pa false A ((F1.trans F2).wf hWf) N2 hAlen
  have F03 : DrvFrame s.drv D3 := (F1.trans F2).trans F3
  have hW3 : D3.Wf := F03.wf hWf
  have hk : D3.packet pk = unicastPacket L A pk D3.radio.nextPid := N3.packet A pk t3 hAlen
  have hrb : D3.w.radio (s.ridAt b) = s.radioAt b := F03.others _ hjb
  have hpkl : pk.length = 8 + s.node.frameBuf.message.length := pack_length hpk
  have hrecv := Radio.receive_idle hNb p A pk D3.radio.nextPid hp1 hp5 hA hlt hroom (hdup _)
  obtain ⟨D4, e4, r4, l4, f4, o4, N4, x4, lr4, _, _⟩ := hc.send D3 L Pa false pk (s.ridAt b) hW3 N3
    (by rw [t3, a3]) (by omega) (by unfold MAX_FRAG_SIZE at hmsg; omega)
    (by rw [F03.faults]; exact hfaults) (by rw [F03.rid]; exact hjb)
    (by rw [hrb, hk, hrecv])
  refine ⟨D4, ?_, ?_, ?_, f4, N4, ?_, ?_, ⟨D3.radio.nextPid, ?_⟩, ?_, ?_⟩
  · rw [nodeWriteToPipe.eq_2, nexec_bind, nexec_getNode]
    have hno : ¬ (tn = s.node.a.addr ∧ (!false) = true) := fun h => hnl h.1
    simp only [if_neg hno, Bool.false_eq_true, if_false]
    have e63 : (62 + 1 : Int) = ((63 : Nat) : Int) := by decide
    rw [e63, nexec_bind, nexec_liftRf_ok _ s _ D1 e1]
    simp only []
    rw [nexec_bind, nexec_liftRf_ok _ _ _ D2 (by rw [afterRf_drv s D1 hcur]; exact e2), afterRf_afterRf]
    simp only []
    have hpa : nexec (pipeAddr tn tp) (s.afterRf D2) = (.ok A, s.afterRf D2) := by
      unfold Nrf.Net.pipeAddr
      rw [nexec_bind, nexec_getNode]
      simp only []
      rw [afterRf_node s D2 hcur]
      simp only []
      rw [haddr, nexec_liftPy_ok]
    rw [nexec_bind, hpa]
    simp only []
    rw [nexec_bind, nexec_liftRf_ok _ _ _ D3 (by rw [afterRf_drv s D2 hcur]; exact e3), afterRf_afterRf]
    simp only []
    rw [nexec_bind, nexec_getNode]
    simp only []
    rw [afterRf_node s D3 hcur]
    simp only [hmsg, if_true]
    rw [nexec_bind]
    have : (Frame.pack s.node.frameBuf) = .ok pk := hpk
    rw [this, nexec_liftPy_ok]
    simp only []
    obtain ⟨f', rfl⟩ : ∃ g, f = g + 1 := ⟨f - 1, by omega⟩
    have hq3 : Quiet (s.afterRf D3) := by
      intro i hi hic hia
      have hi' : i < s.nodes.length := by simpa using hi
      have hic' : i ≠ s.cur := hic
      unfold NetState.radioAt NetState.ridAt
      rw [nodeAt_afterRf_ne s D3 i hic', afterRf_w]
      have := F03.others (s.nodeAt i).rf.rid (hrid i hi' hic')
      rw [this]
      exact hquiet i hi' hic' hia
    have hsend : nexec (rfSend (f' + 1) pk) (s.afterRf D3) = (.ok true, s.afterRf D4) := by
      rw [rfSend.eq_2, nexec_bind, nexec_get]
      simp only [afterRf_closed, hclosed, if_true]
      rw [nexec_bind, runOthers_quiet0 _ hq3 f' (by simp; omega)]
      simp only []
      rw [nexec_bind, nexec_liftRf_ok _ _ _ D4 (by rw [afterRf_drv s D3 hcur]; exact e4), afterRf_afterRf]
      rfl
    rw [nexec_bind, hsend]
    rfl
  · rw [r4, F03.rid]; rfl
  · rw [l4, F03.len]; rfl
  · rw [x4, x3, x2, x1]
  · rw [lr4, F03.lastRx]
  · rw [o4 _ (by rw [F03.rid]; exact hjb), hrb, hk, hrecv]
  · intro i hic hib
    have hi3 : i ≠ D3.d.rid := by rw [F03.rid]; exact hic
    rw [o4 i hi3, F03.others i hic, hk]
    show ((s.w.radio i).receive _).1 = _
    rw [Radio.receive_ignore _ _ (hothers i _ hic hib)]
  · have A1 : D1.w.air = s.w.air := by
      have := hair.setAA s.drv L Pa true true 0x3E 0x3F hWf hNa (Or.inr rfl)
      rw [e1] at this; exact this
    have A2 : D2.w.air = D1.w.air := by
      have := hair.listenOff D1 L Pa true true 0x3F (F1.wf hWf) N1
      rw [e2] at this; exact this
    have A3 : D3.w.air = D2.w.air := by
      have := hair.openTx D2 L Pa false A ((F1.trans F2).wf hWf) N2 hAlen
      rw [e3] at this; exact this
    obtain ⟨rec, A4, q1, q2, q3, q4⟩ := hair.send D3 L Pa false pk (s.ridAt b) hW3 N3
      (by rw [t3, a3]) (by omega) (by unfold MAX_FRAG_SIZE at hmsg; omega)
      (by rw [F03.faults]; exact hfaults) (by rw [F03.rid]; exact hjb)
      (by rw [hrb, hk, hrecv])
    rw [e4] at A4
    refine ⟨rec, ?_, ?_, ?_, q3, q4⟩
    · show D4.w.air = _
      rw [A4, A3, A2, A1]
    · rw [q1, F03.rid]; rfl
    · rw [q2, hk]; rfl

/-- `restore` with the air log: listening again adds nothing -/
theorem restore_air (hc : L3Contracts) (hair : AirContracts) (s : NetState) (D : DrvState) (L : LinkCfg)
    (P : List Bytes) (ce : Bool)
    (hcur : s.cur < s.nodes.length) (hWf : D.Wf) (hN : NodeRadio L P false ce 0x3F D.d D.radio) :
    ∃ D' : DrvState, nexec (liftRf (Rf24.setListen true)) (s.afterRf D) = (.ok (), s.afterRf
        (exec (Rf24.setListen true) D).2) ∧
      nexec (liftRf (Rf24.setAutoAckAttr (.i 0x3E))) (s.afterRf (exec (Rf24.setListen true) D).2)
        = (.ok (), s.afterRf D') ∧
      DrvFrame D D' ∧ NodeRadio L P true true 0x3E D'.d D'.radio ∧ D'.radio.rxFifo = D.radio.rxFifo ∧
      D'.w.air = D.w.air := by
  obtain ⟨D1, e1, F1, N1, x1⟩ := hc.listenOn D L P ce 0x3F hWf hN
  obtain ⟨D2, e2, F2, N2, x2, _, _⟩ := hc.setAA D1 L P true true 0x3F 0x3E (F1.wf hWf) N1 (Or.inl rfl)
  have A1 : D1.w.air = D.w.air := by
    have := hair.listenOn D L P ce 0x3F hWf hN
    rw [e1] at this; exact this
  have A2 : D2.w.air = D1.w.air := by
    have := hair.setAA D1 L P true true 0x3F 0x3E (F1.wf hWf) N1 (Or.inl rfl)
    rw [e2] at this; exact this
  refine ⟨D2, ?_, ?_, F1.trans F2, N2, by rw [x2, x1], by rw [A2, A1]⟩
  · rw [nexec_liftRf, afterRf_drv s D hcur, afterRf_afterRf, e1]
  · have e62 : (0x3E : Int) = ((0x3E : Nat) : Int) := by decide
    rw [e1, e62, nexec_liftRf_ok _ _ _ D2 (by rw [afterRf_drv s D1 hcur]; exact e2), afterRf_afterRf]

/-- `rfRead_head` with the air log: a read adds nothing -/
theorem rfRead_head_air (hc : L3Contracts) (hair : AirContracts) (f : Nat) (s : NetState) (L : LinkCfg)
    (P : List Bytes)
    (rx ce : Bool) (aa : Nat) (hcur : s.cur < s.nodes.length) (hclosed : s.closed = true)
    (hfuel : s.nodes.length < f) (hq : Quiet s) (hWf : s.drv.Wf)
    (hN : NodeRadio L P rx ce aa s.node.rf s.drv.radio) (harr : s.node.arrivals = [])
    (hfifo : ∀ e ∈ s.drv.radio.rxFifo, e.pipe ≤ 5 ∧ 1 ≤ e.data.length ∧ e.data.length ≤ 32) :
    ∃ D : DrvState, nexec (rfRead (f + 1)) s = (.ok (s.drv.radio.rxFifo.head?.map (·.data)), s.afterRf D) ∧
      DrvFrame s.drv D ∧ NodeRadio L P rx ce aa D.d D.radio ∧ D.radio.rxFifo = s.drv.radio.rxFifo.tail ∧
      D.w.air = s.w.air := by
  obtain ⟨D, e, F, N, x⟩ := hc.read s.drv L P rx ce aa hWf hN hfifo
  have A : D.w.air = s.w.air := by
    have := hair.read s.drv L P rx ce aa hWf hN hfifo
    rw [e] at this; exact this
  refine ⟨D, ?_, F, N, x, A⟩
  rw [rfRead.eq_2, nexec_bind, deliverDue_nil s harr]
  simp only []
  rw [nexec_bind, nexec_get]
  simp only [hclosed, if_true]
  rw [nexec_bind, runOthers_quiet0 s hq f hfuel]
  simp only []
  exact nexec_liftRf_ok _ s _ D e

/-- **`_write(wd, st)` that neither awaits nor emits a NETWORK_ACK**: the type asks for none, or the
    frame is forwarded (`TX_ROUTED`) to a hop that is not its destination (a router in the middle
    of the route).  One hop (`hop_any`), listening restored, `True`. -/
theorem nodeWrite_hop_plain_air (hc : L3Contracts) (hair : AirContracts) (f : Nat) (s : NetState) (L : LinkCfg) (Pa Pb : List Bytes)
    (b p wd tn tp st t : Nat) (A pk : Bytes)
    (hcur : s.cur < s.nodes.length) (hclosed : s.closed = true)
    (hfuel : s.nodes.length + 2 ≤ f) (hquiet : Quiet s) (hWf : s.drv.Wf)
    (hNa : NodeRadio L Pa true true 0x3E s.node.rf s.drv.radio)
    (hb : b < s.nodes.length) (hbc : b ≠ s.cur)
    (hrid : ∀ i, i < s.nodes.length → i ≠ s.cur → s.ridAt i ≠ s.ridAt s.cur)
    (hNb : NodeRadio L Pb true true 0x3E (s.nodeAt b).rf (s.radioAt b))
    (haddr : pipeAddress s.node.cfg tn tp = .ok A) (hA : Pb[p]? = some A) (hp1 : 1 ≤ p) (hp5 : p ≤ 5)
    (hlt : ∀ q, q < p → Pb[q]? ≠ some A)
    (hroom : (s.radioAt b).rxFifo.length < 3)
    (hdup : ∀ pid, (s.radioAt b).lastRx ≠ some { pid := pid, addr := A, data := pk })
    (hothers : ∀ i pid, i ≠ s.ridAt s.cur → i ≠ s.ridAt b →
      (s.w.radio i).listensTo (unicastPacket L A pk pid) = none)
    (hfaults : s.w.faults = []) (hmsg : s.node.frameBuf.message.length ≤ MAX_FRAG_SIZE)
    (hpk : s.node.frameBuf.pack = .ok pk) (hnl : tn ≠ s.node.a.addr)
    (ht : s.node.frameBuf.header.msgType = .int t)
    (hl2p : logi2phys s.node.a wd st = (tn, tp, false))
    (hplain : ¬ (64 < t ∧ t < 192) ∨ (st = TX_ROUTED ∧ tn ≠ wd)) :
    ∃ D : DrvState, nexec (nodeWrite (f + 2) wd st) s = (.ok true, s.afterRf D) ∧
      D.d.rid = s.node.rf.rid ∧ D.w.radios.length = s.w.radios.length ∧ D.w.faults = [] ∧
      NodeRadio L Pa true true 0x3E D.d D.radio ∧ D.radio.rxFifo = s.drv.radio.rxFifo ∧
      D.radio.lastRx = s.drv.radio.lastRx ∧
      (∃ pid, D.w.radio (s.ridAt b) =
        { (s.radioAt b) with rxFifo := (s.radioAt b).rxFifo ++ [{ pipe := p, data := pk }],
                              flags := (s.radioAt b).flags ||| 0x40, rpd := true,
                              lastRx := some { pid := pid, addr := A, data := pk }, lastAck := none }) ∧
      (∀ i, i ≠ s.ridAt s.cur → i ≠ s.ridAt b → D.w.radio i = s.w.radio i) ∧
      (∃ rec : AirRec, D.w.air = s.w.air ++ [rec] ∧ OneBy (s.ridAt s.cur) pk rec) := by
  obtain ⟨D1, e1, r1, l1, f1, N1, x1, lr1, hrb, hoth, air1⟩ := hop_any_air hc hair f s L Pa Pb b p tn tp A pk hcur hclosed hfuel
    hquiet hWf hNa hb hbc hrid hNb haddr hA hp1 hp5 hlt hroom hdup hothers hfaults hmsg hpk hnl
  have hW1 : D1.Wf := by
    unfold DrvState.Wf at *
    rw [r1, l1]; exact hWf
  obtain ⟨D2, e2, e3, F2, N2, x2, air2⟩ := restore_air hc hair s D1 L Pa true hcur hW1 N1
  have hjb : s.ridAt b ≠ D1.d.rid := by rw [r1]; exact hrid b hb hbc
  refine ⟨D2, ?_, by rw [F2.rid, r1], by rw [F2.len, l1], by rw [F2.faults, f1], N2, by rw [x2, x1],
    by rw [F2.lastRx, lr1], ?_, ?_, ?_⟩
  · rw [show f + 2 = (f + 1) + 1 from rfl, nodeWrite_step_raw (f + 1) wd st s t ht, hl2p]
    have hpre : writePrelude s t wd st = s := by
      unfold writePrelude
      rw [if_neg]
      rintro ⟨h1, h2, h3⟩
      rcases hplain with h | h
      · exact h h3
      · rw [hl2p] at h2; exact h.2 h2.symm
    have hact : (if 64 < t ∧ t < 192 then
          if st = TX_ROUTED ∧ tn = wd ∧ (s.afterRf D1).node.frameBuf.header.fromNode ≠ (s.afterRf D1).node.a.addr
            then AckAction.emit
          else if tn ≠ wd ∧ (st = TX_NORMAL ∨ st = TX_LOGICAL) then AckAction.await
          else AckAction.none
        else AckAction.none) = AckAction.none := by
      rcases hplain with h | h
      · rw [if_neg h]
      · split
        · rw [if_neg (fun hh => h.2 hh.2.1), if_neg]
          rintro ⟨_, h4 | h4⟩ <;> rw [h.1] at h4 <;> exact absurd h4 (by decide)
        · rfl
    simp only [hpre, e1, if_true, hact]
    unfold ackCont
    simp only [Bool.not_false, if_true]
    rw [nexec_bind, e2]
    simp only []
    rw [nexec_bind, e3]
    rfl
  · obtain ⟨pid, hpid⟩ := hrb
    exact ⟨pid, by rw [F2.others _ hjb, hpid]⟩
  · intro i hic hib
    rw [F2.others i (by rw [r1]; exact hic), hoth i hic hib]
  · obtain ⟨rec, h1, h2⟩ := air1
    exact ⟨rec, by rw [air2, h1], h2⟩

/-- `netUpdate_deliver` for every type the destination queues -/
theorem netUpdate_deliver_sys_air (hc : L3Contracts) (hair : AirContracts) (f : Nat) (s : NetState) (L : LinkCfg) (P : List Bytes)
    (p : Nat) (pk : Bytes) (fr : Frame) (t : Nat)
    (hcur : s.cur < s.nodes.length) (hclosed : s.closed = true) (hfuel : s.nodes.length + 2 ≤ f)
    (hq : Quiet s) (hWf : s.drv.Wf) (hN : NodeRadio L P true true 0x3E s.node.rf s.drv.radio)
    (harr : s.node.arrivals = []) (hfifo : s.drv.radio.rxFifo = [{ pipe := p, data := pk }]) (hp : p ≤ 5)
    (hfr : fr.header.msgType = .int t) (hpk : fr.pack = .ok pk) (hmsg : fr.message.length ≤ MAX_FRAG_SIZE)
    (hto : (wireCopy fr).header.toNode = s.node.a.addr)
    (hvt : isValid (wireCopy fr).header.toNode = true) (hvf : isValid (wireCopy fr).header.fromNode = true)
    (hty : SysOk (t &&& 0xFF) s.node.retSysMsg)
    (hroom : (s.node.queue.frames.length : Int) < s.node.queue.maxSize)
    (hnew : ∀ g ∈ s.node.queue.frames, ¬ (g.header.fromNode = (wireCopy fr).header.fromNode ∧
      g.header.frameId = (wireCopy fr).header.frameId ∧ g.header.ty = (wireCopy fr).header.ty)) :
    ∃ D1 D2 : DrvState, nexec (netUpdate (f + 3) 0) s =
        (.ok (t &&& 0xFF), ((((s.afterRf D1).withFrame (wireCopy fr)).enqueued (wireCopy fr)).afterRf D2)) ∧
      DrvFrame s.drv D1 ∧ DrvFrame D1 D2 ∧ NodeRadio L P true true 0x3E D2.d D2.radio ∧ D2.radio.rxFifo = [] ∧
      D2.w.air = s.w.air := by
  have hpkl : pk.length = 8 + fr.message.length := pack_length hpk
  obtain ⟨D1, e1, F1, N1, x1, air1⟩ := rfRead_head_air hc hair (f + 1) s L P true true 0x3E hcur hclosed (by omega) hq hWf hN harr
    (by
      intro e he
      rw [hfifo] at he
      simp only [List.mem_singleton] at he
      subst he
      unfold MAX_FRAG_SIZE at hmsg
      exact ⟨hp, by simp only []; omega, by simp only []; omega⟩)
  rw [hfifo] at e1 x1
  simp only [List.head?_cons, Option.map_some, List.tail_cons] at e1 x1
  have hn1 : (s.afterRf D1).node = { s.node with rf := D1.d } := afterRf_node s D1 hcur
  have hun : (s.afterRf D1).node.frameBuf.unpack pk = (wireCopy fr, true) := unpack_of_pack fr _ t hfr pk hpk
  have hwty : (wireCopy fr).header.ty = t &&& 0xFF := by simp [wireCopy, Header.ty, hfr]
  have hidem : wireCopy (wireCopy fr) = wireCopy fr := by
    unfold wireCopy
    simp only [Header.ty, Nat.and_assoc, Nat.and_self]
  rw [show f + 3 = (f + 2) + 1 from rfl, netUpdate_step, e1]
  simp only [hun, hvt, hvf, Bool.not_true, Bool.or_self, Bool.false_eq_true, if_false]
  have hto' : (wireCopy fr).header.toNode = (s.afterRf D1).node.a.addr := by rw [hn1]; exact hto
  simp only [if_pos hto']
  have hc1 : (s.afterRf D1).cur < (s.afterRf D1).nodes.length := by simpa using hcur
  have hc2 : ((s.afterRf D1).withFrame (wireCopy fr)).cur < ((s.afterRf D1).withFrame (wireCopy fr)).nodes.length := by
    simpa using hcur
  have hn2 : ((s.afterRf D1).withFrame (wireCopy fr)).node = { s.node with rf := D1.d, frameBuf := wireCopy fr } := by
    rw [withFrame_node _ _ hc1, hn1]
  rw [hwty, show f + 2 = (f + 1) + 1 from rfl,
    handleThis_sys_ok (f + 1) (t &&& 0xFF) _ (wireCopy fr) hc2 (by rw [hn2]) hidem hwty (by rw [hn2]; exact hty)
      (by rw [hn2]; exact hroom) (by rw [hn2]; exact hnew)]
  simp only [if_true]
  generalize hs3 : (((s.afterRf D1).withFrame (wireCopy fr)).enqueued (wireCopy fr)) = s3
  have hs3c : s3.cur = s.cur := by rw [← hs3]; rfl
  have hs3a : s3.active = s.active := by rw [← hs3]; rfl
  have hs3l : s3.nodes.length = s.nodes.length := by rw [← hs3]; simp
  have hs3w : s3.w = D1.w := by rw [← hs3]; rfl
  have hs3cl : s3.closed = true := by rw [← hs3]; exact hclosed
  have hs3n : s3.node = Node.pushFrame { s.node with rf := D1.d, frameBuf := wireCopy fr } (wireCopy fr) := by
    rw [← hs3, enqueued_node _ _ hc2, hn2]
  have hs3d : s3.drv = D1 := by
    unfold NetState.drv; rw [hs3n, hs3w]; rfl
  have hs3q : Quiet s3 := by
    apply hq.of_eq hs3l hs3c hs3a
    intro i hi hic hia
    unfold NetState.radioAt NetState.ridAt
    have : s3.nodeAt i = s.nodeAt i := by
      rw [← hs3, nodeAt_enqueued_ne _ _ i (by simpa using hic), nodeAt_withFrame_ne _ _ i (by simpa using hic),
        nodeAt_afterRf_ne s D1 i hic]
    rw [this, hs3w]
    by_cases h : (s.nodeAt i).rf.rid = s.drv.d.rid
    · have h0 := hq i hi hic hia
      unfold NetState.radioAt NetState.ridAt at h0
      rw [h0, h, ← F1.rid]
      exact x1
    · rw [F1.others _ h]; rfl
  obtain ⟨D2, e2, F2, N2, x2, air2⟩ := rfRead_head_air hc hair f s3 L P true true 0x3E (by rw [hs3c, hs3l]; exact hcur) hs3cl
    (by rw [hs3l]; omega) hs3q (by rw [hs3d]; exact F1.wf hWf) (by rw [hs3n, hs3d]; exact N1)
    (by rw [hs3n]; exact harr) (by rw [hs3d, x1]; simp)
  rw [hs3d, x1] at e2 x2
  simp only [List.head?_nil, Option.map_none, List.tail_nil] at e2 x2
  rw [netUpdate_step, e2]
  simp only []
  refine ⟨D1, D2, ?_, F1, hs3d ▸ F2, N2, x2, by rw [air2, hs3w, air1]⟩
  rw [hs3]

/-- `dest_update` for every type the destination queues -/
theorem dest_update_sys_air (hc : L3Contracts) (hair : AirContracts) (f : Nat) (s : NetState) (L : LinkCfg) (P : List Bytes)
    (p : Nat) (pk : Bytes) (fr : Frame) (t : Nat) (d : List Nat)
    (hcur : s.cur < s.nodes.length) (hclosed : s.closed = true) (hfuel : s.nodes.length + 2 ≤ f)
    (hq : Quiet s) (hWf : s.drv.Wf) (hN : NodeRadio L P true true 0x3E s.node.rf s.drv.radio)
    (harr : s.node.arrivals = []) (hkind : s.node.kind ≠ .meshMaster) (haddr : s.node.a = nodeSpec d)
    (hfifo : s.drv.radio.rxFifo = [{ pipe := p, data := pk }]) (hp : p ≤ 5)
    (hwire : wireCopy fr = fr) (hfr : fr.header.msgType = .int t) (hpk : fr.pack = .ok pk)
    (hmsg : fr.message.length ≤ MAX_FRAG_SIZE) (hto : fr.header.toNode = val d) (hd : IsNode d)
    (hvf : isValid fr.header.fromNode = true) (hty : SysOk t s.node.retSysMsg)
    (hacc : Accepts s.node.queue fr) :
    ∃ D1 D2 : DrvState, nexec (nodeUpdate (f + 4)) s = (.ok t, s.delivered fr D1 D2) ∧
      DrvFrame s.drv D1 ∧ DrvFrame D1 D2 ∧ NodeRadio L P true true 0x3E D2.d D2.radio ∧ D2.radio.rxFifo = [] ∧
      D2.w.air = s.w.air := by
  have hm : t &&& 0xFF = t := by
    have h2 : (wireCopy fr).header.ty = t &&& 0xFF := by simp [wireCopy, Header.ty, hfr]
    rw [hwire] at h2
    have h1 : fr.header.ty = t := by simp [Header.ty, hfr]
    rw [h1] at h2; exact h2.symm
  obtain ⟨D1, D2, e, F1, F2, N2, x2, airD⟩ := netUpdate_deliver_sys_air hc hair f s L P p pk fr t hcur hclosed hfuel hq hWf hN harr
    hfifo hp hfr hpk hmsg (by rw [hwire, hto, haddr]; rfl) (by rw [hwire, hto]; exact isValid_val hd)
    (by rw [hwire]; exact hvf) (by rw [hm]; exact hty) hacc.1 (by rw [hwire]; exact hacc.2)
  rw [hm, hwire] at e
  refine ⟨D1, D2, ?_, F1, F2, N2, x2, airD⟩
  show nexec (nodeUpdate ((f + 3) + 1)) s = _
  refine nodeUpdate_plain (f + 3) s _ t e ?_
  have hc1 : (s.afterRf D1).cur < (s.afterRf D1).nodes.length := by simpa using hcur
  have hc2 : ((s.afterRf D1).withFrame fr).cur < ((s.afterRf D1).withFrame fr).nodes.length := by simpa using hcur
  have hc3 : (((s.afterRf D1).withFrame fr).enqueued fr).cur <
      (((s.afterRf D1).withFrame fr).enqueued fr).nodes.length := by simpa using hcur
  unfold NetState.delivered
  rw [afterRf_node _ _ hc3, enqueued_node _ _ hc2, withFrame_node _ _ hc1, afterRf_node _ _ hcur]
  exact hkind

end Nrf.Net.Air
