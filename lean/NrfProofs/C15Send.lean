/-
C15 — discharging `C15Contracts` (NrfProofs/C15Contract.lean), part 1: the world.

What the transmit cycles that a CE edge / an SPI transaction triggers (`World.tryTransmit`) do to
the *transmitter itself*, in ANY world (any other radios, any fault list): with ACK payloads off
(EN_ACK_PAY clear) and only `W_TX_PAYLOAD` entries queued,

* configuration, CE and the RX FIFO of the transmitter are untouched (`Cyc`),
* the TX FIFO only shrinks, entries keep their kind,
* the latched flags only grow, and after one cycle TX_DS or MAX_RT is latched,
* with fuel ≥ the FIFO depth the transmitter ends *drained*: TX FIFO empty or MAX_RT latched.

Nothing here depends on who acknowledges (no `AckEnv`, no `SendPre`): `World.cycle_self` gives
the transmitter after a cycle as `Radio.afterCycle` of *some* result of the attempts.
Then the exact effect of the driver's primitives on a state whose radio is quiet.
-/
import NrfProofs.C15Contract
import NrfProofs.TrafficInv

namespace Nrf
open Rf24

/-! ### bits -/

/-- PWR_UP set, PRIM_RX clear -/
theorem and3_eq2 (c : Nat) (h : c &&& 3 = 2) : c &&& 2 ≠ 0 ∧ c &&& 1 = 0 := by
  have e3 := and_mask_mod c 3 2 (by decide)
  have e2 := and_mask_mod c 2 2 (by decide)
  have e1 := and_mask_mod c 1 2 (by decide)
  simp only [Nat.reducePow] at e3 e2 e1
  rw [e3] at h
  rw [e2, e1]
  have : ∀ x : Fin 4, x.val &&& 3 = 2 → x.val &&& 2 ≠ 0 ∧ x.val &&& 1 = 0 := by decide
  exact this ⟨c % 4, Nat.mod_lt _ (by decide)⟩ h

theorem or20_and30 (x : Nat) : (x ||| 0x20) &&& 0x30 ≠ 0 := by
  rw [Nat.and_or_distrib_right]
  intro h
  have := Nat.or_eq_zero_iff.1 h
  simp at this

theorem or10_and30 (x : Nat) : (x ||| 0x10) &&& 0x30 ≠ 0 := by
  rw [Nat.and_or_distrib_right]
  intro h
  have := Nat.or_eq_zero_iff.1 h
  simp at this

theorem or_and30_mono (x y : Nat) (h : x &&& 0x30 ≠ 0) : (x ||| y) &&& 0x30 ≠ 0 := by
  rw [Nat.and_or_distrib_right]
  intro h0
  exact h (Nat.or_eq_zero_iff.1 h0).1

/-- TX_EMPTY in FIFO_STATUS -/
theorem fifoStatus_txEmpty (r : Radio) : (r.fifoStatus &&& 0x10 ≠ 0) ↔ r.txFifo = [] := by
  have key : ∀ a b c d : Bool,
      ((((if a then 0x20 else 0) ||| (if b then 0x10 else 0) ||| (if c then 0x02 else 0)
        ||| (if d then 0x01 else 0) : Nat) &&& 0x10 ≠ 0) ↔ b = true) := by decide
  unfold Radio.fifoStatus
  have h1 : r.txFifo.isEmpty = true ↔ r.txFifo = [] := List.isEmpty_iff
  rw [← h1]
  have := key r.txFull r.txFifo.isEmpty (decide (r.rxFifo.length ≥ 3)) r.rxFifo.isEmpty
  simpa using this

/-! ### one radio -/

namespace Radio

/-- without ACK payloads an acknowledged cycle stores nothing in the RX FIFO -/
theorem txDoneAcked_noPay (r : Radio) (rest : List TxEntry) (made : Nat) (a : Option Bytes)
    (hf : r.feature &&& 2 = 0) :
    r.txDoneAcked rest made a = { r with txFifo := rest, arcCnt := made - 1, flags := r.flags ||| 0x20 } := by
  unfold txDoneAcked
  cases a <;> simp [hf]

/-- what transmit cycles do to the transmitter (ACK payloads off) -/
structure Cyc (r r' : Radio) : Prop where
  config : r'.config = r.config
  feature : r'.feature = r.feature
  ce : r'.ce = r.ce
  rx : r'.rxFifo = r.rxFifo
  kinds : (∀ e ∈ r.txFifo, e.kind = TxKind.payload) → ∀ e ∈ r'.txFifo, e.kind = TxKind.payload
  len : r'.txFifo.length ≤ r.txFifo.length
  f30 : r.flags &&& 0x30 ≠ 0 → r'.flags &&& 0x30 ≠ 0

theorem Cyc.refl (r : Radio) : Cyc r r := ⟨rfl, rfl, rfl, rfl, id, Nat.le_refl _, id⟩

theorem Cyc.trans {a b c : Radio} (h1 : Cyc a b) (h2 : Cyc b c) : Cyc a c :=
  ⟨h2.config.trans h1.config, h2.feature.trans h1.feature, h2.ce.trans h1.ce, h2.rx.trans h1.rx,
   fun h => h2.kinds (h1.kinds h), Nat.le_trans h2.len h1.len, fun h => h2.f30 (h1.f30 h)⟩

theorem Cyc.txMode {a b : Radio} (h : Cyc a b) : b.txMode = a.txMode := by
  unfold Radio.txMode Radio.pwrUp Radio.primRx
  rw [h.config, h.ce]

/-- the transmitter after one cycle, whatever the attempts gave -/
theorem afterCycle_tx (r0 : Radio) (e : TxEntry) (rest : List TxEntry) (res : Nat × Option (Option Bytes))
    (hf : r0.feature &&& 2 = 0) :
    (r0.afterCycle e rest res).config = r0.config ∧ (r0.afterCycle e rest res).feature = r0.feature ∧
    (r0.afterCycle e rest res).ce = r0.ce ∧ (r0.afterCycle e rest res).rxFifo = r0.rxFifo ∧
    (((r0.afterCycle e rest res).txFifo = rest ∧ (r0.afterCycle e rest res).flags = r0.flags ||| 0x20) ∨
     ((r0.afterCycle e rest res).txFifo = { e with pid := some (r0.pidFor e) } :: rest ∧
      (r0.afterCycle e rest res).flags = r0.flags ||| 0x10)) := by
  unfold afterCycle
  split
  · exact ⟨rfl, rfl, rfl, rfl, Or.inl ⟨rfl, rfl⟩⟩
  · split
    · rw [txDoneAcked_noPay _ _ _ _ (by exact hf)]
      exact ⟨rfl, rfl, rfl, rfl, Or.inl ⟨rfl, rfl⟩⟩
    · exact ⟨rfl, rfl, rfl, rfl, Or.inr ⟨rfl, rfl⟩⟩

theorem afterCycle_cyc (r0 : Radio) (e : TxEntry) (rest : List TxEntry) (res : Nat × Option (Option Bytes))
    (hf : r0.feature &&& 2 = 0) (ht : r0.txFifo = e :: rest) :
    Cyc r0 (r0.afterCycle e rest res) ∧ (r0.afterCycle e rest res).flags &&& 0x30 ≠ 0 ∧
    ((r0.afterCycle e rest res).txFifo = rest ∨ (r0.afterCycle e rest res).flags &&& 0x10 ≠ 0) := by
  obtain ⟨h1, h2, h3, h4, h5⟩ := afterCycle_tx r0 e rest res hf
  rcases h5 with ⟨h5, h6⟩ | ⟨h5, h6⟩
  · refine ⟨⟨h1, h2, h3, h4, ?_, ?_, ?_⟩, ?_, Or.inl h5⟩
    · intro hk x hx
      rw [h5] at hx
      exact hk x (by rw [ht]; exact List.mem_cons_of_mem _ hx)
    · rw [h5, ht]; simp
    · intro h; rw [h6]; exact or_and30_mono _ _ h
    · rw [h6]; exact or20_and30 _
  · refine ⟨⟨h1, h2, h3, h4, ?_, ?_, ?_⟩, ?_, Or.inr ?_⟩
    · intro hk x hx
      rw [h5] at hx
      rcases List.mem_cons.1 hx with hx | hx
      · subst hx
        exact hk e (by rw [ht]; exact List.mem_cons_self)
      · exact hk x (by rw [ht]; exact List.mem_cons_of_mem _ hx)
    · rw [h5, ht]; simp
    · intro h; rw [h6]; exact or_and30_mono _ _ h
    · rw [h6]; exact or10_and30 _
    · rw [h6]; exact or10_and10 _

/-- a radio in TX mode that is not about to transmit, with payloads only: nothing queued, or
    MAX_RT latched -/
theorem idle_drained (r : Radio) (hm : r.txMode = true) (hi : r.Idle)
    (hk : ∀ e ∈ r.txFifo, e.kind = TxKind.payload) : r.txFifo = [] ∨ r.flags &&& 0x10 ≠ 0 := by
  by_cases hfl : r.flags &&& 0x10 = 0
  · left
    cases ht : r.txFifo with
    | nil => rfl
    | cons e rest =>
      exfalso
      have hke := hk e (by rw [ht]; exact List.mem_cons_self)
      simp [Idle, txReady, headSendable, hm, hfl, ht, hke] at hi
  · exact Or.inr hfl

theorem ready_cons (r : Radio) (h : r.txReady = true) :
    ∃ e rest, r.txFifo = e :: rest ∧ r.txMode = true ∧ r.flags &&& 0x10 = 0 := by
  unfold txReady at h
  simp only [Bool.and_eq_true, decide_eq_true_eq] at h
  obtain ⟨⟨h1, h2⟩, h3⟩ := h
  cases ht : r.txFifo with
  | nil => rw [ht] at h3; simp [headSendable] at h3
  | cons e rest => exact ⟨e, rest, rfl, h1, h2⟩

theorem txReady_of (r : Radio) (hm : r.txMode = true) (h0 : r.flags &&& 0x10 = 0) (e : TxEntry)
    (rest : List TxEntry) (ht : r.txFifo = e :: rest) (hk : e.kind = TxKind.payload) : r.txReady = true := by
  simp [txReady, hm, h0, ht, headSendable, hk]

theorem drained_idle (r : Radio) (h : r.txFifo = [] ∨ r.flags &&& 0x10 ≠ 0) : r.Idle := by
  rcases h with h | h
  · exact idle_of_empty r h
  · exact idle_of_maxrt r h

end Radio

/-! ### the world: draining the TX FIFO -/

namespace World
open Radio

/-- **`tryTransmit` on a transmitter without ACK payloads**, any world, any fuel -/
theorem tryTransmit_drain (j : Nat) : ∀ (f : Nat) (w : World), j < w.radios.length →
    (w.radio j).feature &&& 2 = 0 → (∀ e ∈ (w.radio j).txFifo, e.kind = TxKind.payload) →
    (tryTransmit j f w).radios.length = w.radios.length ∧
    Cyc (w.radio j) ((tryTransmit j f w).radio j) ∧
    ((w.radio j).txMode = true → ((w.radio j).txFifo.length ≤ f ∨ (w.radio j).flags &&& 0x10 ≠ 0) →
      ((tryTransmit j f w).radio j).txFifo = [] ∨ ((tryTransmit j f w).radio j).flags &&& 0x10 ≠ 0) ∧
    ((w.radio j).txReady = true → 1 ≤ f → ((tryTransmit j f w).radio j).flags &&& 0x30 ≠ 0) := by
  intro f
  induction f with
  | zero =>
    intro w _ _ _
    refine ⟨rfl, Cyc.refl _, ?_, fun _ h => by omega⟩
    intro _ h
    show (w.radio j).txFifo = [] ∨ (w.radio j).flags &&& 0x10 ≠ 0
    rcases h with h | h
    · exact Or.inl (List.eq_nil_of_length_eq_zero (by omega))
    · exact Or.inr h
  | succ f ih =>
    intro w hj hf hk
    cases hr : (w.radio j).txReady with
    | false =>
      rw [tryTransmit_idle j (f + 1) w hr]
      refine ⟨rfl, Cyc.refl _, fun hm _ => idle_drained _ hm hr hk, fun h _ => by cases h⟩
    | true =>
      obtain ⟨e, rest, ht, hm, h10⟩ := ready_cons _ hr
      rw [tryTransmit_ready j f w e rest ht hr]
      have hself := cycle_self w j e rest hj
      obtain ⟨hc, h30, hprog⟩ := afterCycle_cyc (w.radio j) e rest (w.cycleRes j e) hf ht
      rw [← hself] at hc h30 hprog
      have hlen := cycle_length w j e rest
      obtain ⟨i1, i2, i3, _⟩ := ih (w.cycle j e rest) (by rw [hlen]; exact hj) (by rw [hc.feature]; exact hf)
        (hc.kinds hk)
      refine ⟨i1.trans hlen, hc.trans i2, ?_, fun _ _ => i2.f30 h30⟩
      intro _ hb
      apply i3 (by rw [hc.txMode]; exact hm)
      rcases hprog with hp | hp
      · left
        rw [hp]
        rcases hb with hb | hb
        · rw [ht] at hb; simp only [List.length_cons] at hb; omega
        · exact absurd h10 hb
      · exact Or.inr hp

end World

/-! ### driver states: quiet steps -/

theorem ceStep_rid (s : DrvState) (v : Bool) : (s.ceStep v).d = s.d := rfl

theorem ceStep_wf' (s : DrvState) (v : Bool) (hw : s.Wf) : (s.ceStep v).Wf := by
  unfold DrvState.Wf DrvState.ceStep
  simp only [World.setCE_length]
  exact hw

/-- lowering CE: only the pin changes -/
theorem ceStep_false_rad (s : DrvState) (hw : s.Wf) : (s.ceStep false).rad = { s.rad with ce := false } := by
  show (s.w.setCE s.d.rid false).radio s.d.rid = _
  rw [World.setCE_false _ _ hw]
  exact World.setCEQ_radio_self _ _ _ hw

/-- an SPI transaction after which the radio is not about to transmit -/
theorem spiStep_quiet (s : DrvState) (c : Nat) (out : Bytes) (hw : s.Wf) (h : (s.rad.xfer (c :: out)).1.Idle) :
    (s.spiStep (c :: out)).Wf ∧ (s.spiStep (c :: out)).rad = (s.rad.xfer (c :: out)).1 ∧
    (s.spiStep (c :: out)).d = { s.d with status := s.rad.status } := by
  rw [spiStep_idle s _ hw h]
  exact ⟨(spiQ_wf _ _).2 hw, spiQ_rad _ _ hw, spiQ_shadow _ _ _⟩

/-- raising CE on a transmitter (PWR_UP, PRIM_RX clear) without ACK payloads, payloads only, at
    most four of them (the fuel of `tryTransmit`), MAX_RT clear: the TX FIFO is drained -/
theorem ceStep_true_fire (s : DrvState) (hw : s.Wf) (hf : s.rad.feature &&& 2 = 0)
    (hc : s.rad.config &&& 3 = 2) (hk : ∀ e ∈ s.rad.txFifo, e.kind = TxKind.payload)
    (hl : s.rad.txFifo.length ≤ 4) (hne : s.rad.txFifo ≠ []) (h0 : s.rad.flags &&& 0x10 = 0) :
    (s.ceStep true).Wf ∧ (s.ceStep true).d = s.d ∧
    Radio.Cyc { s.rad with ce := true } (s.ceStep true).rad ∧
    ((s.ceStep true).rad.txFifo = [] ∨ (s.ceStep true).rad.flags &&& 0x10 ≠ 0) ∧
    (s.ceStep true).rad.flags &&& 0x30 ≠ 0 := by
  have hs : s.d.rid < (s.w.setCEQ s.d.rid true).radios.length := by rw [World.setCEQ_length]; exact hw
  have hr : (s.w.setCEQ s.d.rid true).radio s.d.rid = { s.rad with ce := true } :=
    World.setCEQ_radio_self _ _ _ hw
  obtain ⟨c2, c1⟩ := and3_eq2 _ hc
  have hm : ({ s.rad with ce := true } : Radio).txMode = true := by
    simp [Radio.txMode, Radio.pwrUp, Radio.primRx, c1, c2]
  have hready : ({ s.rad with ce := true } : Radio).txReady = true := by
    cases ht : s.rad.txFifo with
    | nil => exact absurd ht hne
    | cons e rest =>
      have hke := hk e (by rw [ht]; exact List.mem_cons_self)
      exact Radio.txReady_of _ hm h0 e rest ht hke
  obtain ⟨d1, d2, d3, d4⟩ := World.tryTransmit_drain s.d.rid 4 (s.w.setCEQ s.d.rid true) hs
    (by rw [hr]; exact hf) (by rw [hr]; exact hk)
  rw [hr] at d2 d3 d4
  have hrad : (s.ceStep true).rad = (World.tryTransmit s.d.rid 4 (s.w.setCEQ s.d.rid true)).radio s.d.rid := rfl
  refine ⟨ceStep_wf' s true hw, rfl, ?_, ?_, ?_⟩
  · rw [hrad]; exact d2
  · rw [hrad]; exact d3 hm (Or.inl hl)
  · rw [hrad]; exact d4 hready (by decide)

/-! ### the polling loop -/

theorem pollFlags_done (f : Nat) (s : DrvState) (h : s.d.status &&& 0x30 ≠ 0) :
    exec (pollFlags (f + 1)) s = (.ok (), s) := by
  unfold pollFlags
  simp only [exec_bind, exec_getD, h, ↓reduceIte, exec_pure]

theorem exec_update (s : DrvState) : exec update s = (.ok true, s.spiStep [0xFF]) := by
  unfold update
  simp only [exec_bind, exec_regCmd, exec_pure]

theorem pollFlags_one (f : Nat) (s : DrvState) (h0 : s.d.status &&& 0x30 = 0)
    (h1 : (s.spiStep [0xFF]).d.status &&& 0x30 ≠ 0) :
    exec (pollFlags (f + 2)) s = (.ok (), s.spiStep [0xFF]) := by
  have : pollFlags (f + 2) = (do
      if (← getD).status &&& 0x30 = 0 then
        let _ ← update
        pollFlags (f + 1)
      else pure ()) := rfl
  rw [this]
  simp only [exec_bind, exec_getD, h0, ↓reduceIte, exec_update]
  exact pollFlags_done f _ h1

/-! ### the end: a drained transmitter whose status byte has just been read -/

theorem txs_of_drained (s : DrvState) (hst : s.d.status = s.rad.status)
    (hd : s.rad.txFifo = [] ∨ s.rad.flags &&& 0x10 ≠ 0)
    (hk : ∀ e ∈ s.rad.txFifo, e.kind = TxKind.payload) (hl : s.rad.txFifo.length ≤ 3)
    (hp : ∀ e ∈ s.rad.rxFifo, e.pipe ≤ 5) : TxS s :=
  ⟨⟨hd, hk, hl⟩, fun h => by rw [hst]; exact status_bit4 _ h, hp⟩

end Nrf
