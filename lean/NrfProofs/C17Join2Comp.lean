/-
C17, end-to-end join, part 10: frames 1–4 of a direct join composed through `_request_address`.

* `leg_request2` — the request leg with the two fuels it has in the model;
* `request_head`  — `_make_contact(0)` and the first contact's request / response exchange of
  `_request_address(0)`, with the model's own fuel `F` everywhere: the poll leg's final state satisfies
  the request leg's preconditions (the packets differ, so neither radio takes the next one for a
  repetition).
-/
import NrfProofs.C17Join2Leg
import NrfProofs.C17JoinExample

namespace Nrf.Net.Join
open Nrf Nrf.Net Nrf.Spec Nrf.Proofs

/-- `leg_request` (NrfProofs/C17JoinReq.lean) with separate fuels for the `_write` and the `_net_update()`
    (in `_request_address` both are the literal `F`) -/
theorem leg_request2 (f f1 : Nat) (s : NetState) (L : LinkCfg) (Pm Px : List Bytes) (m x i a fid : Nat)
    (Am Ax pk pk' : Bytes)
    (hlen : s.nodes.length = 2) (hm : m < 2) (hx : x < 2) (hmx : m ≠ x)
    (hcur : s.cur = x) (hact : s.active = [x]) (hclosed : s.closed = true) (hfaults : s.w.faults = [])
    (hfuel : 4 ≤ f) (hfuel1 : 4 ≤ f1)
    (hridm : s.ridAt m < s.w.radios.length) (hridx : s.ridAt x < s.w.radios.length)
    (hridne : s.ridAt m ≠ s.ridAt x)
    (hNm : NodeRadio L Pm true true 0x3E (s.nodeAt m).rf (s.radioAt m))
    (hNx : NodeRadio L Px true true 0x3E (s.nodeAt x).rf (s.radioAt x))
    (hfm : (s.radioAt m).rxFifo = []) (hfx : (s.radioAt x).rxFifo = [])
    (hdupm : ∀ pid, (s.radioAt m).lastRx ≠ some { pid := pid, addr := Am, data := pk })
    (hdupx : ∀ pid, (s.radioAt x).lastRx ≠ some { pid := pid, addr := Ax, data := pk' })
    (harrm : (s.nodeAt m).arrivals = []) (harrx : (s.nodeAt x).arrivals = [])
    (hAm : Pm[0]? = some Am) (hAx : Px[0]? = some Ax)
    -- the joiner
    (hxfb : (s.nodeAt x).frameBuf = reqFrame fid i 0) (hxaddr : (s.nodeAt x).a.addr = NETWORK_DEFAULT_ADDR)
    (hxret : (s.nodeAt x).retSysMsg = true) (hxcfg : pipeAddress (s.nodeAt x).cfg 0 0 = .ok Am)
    -- the master
    (hkind : (s.nodeAt m).kind = .meshMaster) (hid : (s.nodeAt m).nodeId = 0) (hmaddr : (s.nodeAt m).a.addr = 0)
    (hmret : (s.nodeAt m).retSysMsg = true) (hdo : (s.nodeAt m).doDhcp = false)
    (hmcfg : pipeAddress (s.nodeAt m).cfg NETWORK_DEFAULT_ADDR 0 = .ok Ax)
    (hfind : dhcpFind (s.nodeAt m).dhcp i 0 0 (Mesh.MESH_MAX_CHILDREN + 1) = some a) (ha : a < 65536)
    -- the frames
    (hi0 : i ≠ 0) (hi : i ≤ 255) (hfid : fid < 65536)
    (hpk : (reqFrame fid i 0).pack = .ok pk) (hpk' : (respFrame fid i a).pack = .ok pk') :
    ∃ s1 s2 : NetState,
      nexec (nodeWrite (f1 + 2) 0 TX_PHYSICAL) s = (.ok true, s1) ∧
      nexec (netUpdate (f + 7 + m) 0) s1 = (.ok MESH_ADDR_RESPONSE, s2) ∧
      s2.cur = x ∧ s2.active = [x] ∧ s2.nodes.length = 2 ∧ s2.closed = true ∧ s2.w.faults = [] ∧
      (s2.nodeAt x).body = { (s.nodeAt x).body with frameBuf := respFrame fid i a } ∧
      (s2.nodeAt m).body = { (s.nodeAt m).body with frameBuf := respFrame fid i a,
                                                    dhcp := Mesh.setAddress (s.nodeAt m).dhcp i a, doDhcp := false } ∧
      NodeRadio L Pm true true 0x3E (s2.nodeAt m).rf (s2.radioAt m) ∧
      NodeRadio L Px true true 0x3E (s2.nodeAt x).rf (s2.radioAt x) ∧
      (s2.radioAt m).rxFifo = [] ∧ (s2.radioAt x).rxFifo = [] ∧
      s2.ridAt m = s.ridAt m ∧ s2.ridAt x = s.ridAt x ∧
      (∃ pid1 pid2, (s2.radioAt m).lastRx = some { pid := pid1, addr := Am, data := pk } ∧
        (s2.radioAt x).lastRx = some { pid := pid2, addr := Ax, data := pk' }) := by
  have hcl : s.cur < s.nodes.length := by rw [hcur, hlen]; exact hx
  have hnode : s.node = s.nodeAt x := by rw [node_eq_nodeAt, hcur]
  have hdrvr : s.drv.radio = s.radioAt x := by
    show s.w.radio s.node.rf.rid = _
    rw [hnode]; rfl
  have two : ∀ k, k < 2 → k = m ∨ k = x := by omega
  have hAmlen : Am.length = 5 := by
    obtain ⟨_, _, _, _, _, _, _, _, _, _, _, _, _, _, _, _, _, _, _, _, _, hPl, _⟩ := hNm
    exact hPl Am (List.mem_of_getElem? hAm)
  have hAxlen : Ax.length = 5 := by
    obtain ⟨_, _, _, _, _, _, _, _, _, _, _, _, _, _, _, _, _, _, _, _, _, hPl, _⟩ := hNx
    exact hPl Ax (List.mem_of_getElem? hAx)
  -- 1. the joiner's write
  have hq : Quiet s := by
    intro k hk hkc hka
    rcases two k (by rw [← hlen]; exact hk) with rfl | rfl
    · exact hfm
    · exact absurd hcur.symm hkc
  have hrid : ∀ k, k < s.nodes.length → k ≠ s.cur → s.ridAt k ≠ s.ridAt s.cur := by
    intro k hk hkc
    rcases two k (by rw [← hlen]; exact hk) with rfl | rfl
    · rw [hcur]; exact hridne
    · exact absurd hcur.symm hkc
  obtain ⟨D1, e1, r1, l1, f1, N1, x1, lr1, pid1, o1⟩ := mc_write f1 s L Px 0 TX_PHYSICAL MESH_ADDR_REQUEST Am pk
    hcl hclosed (by rw [hlen]; omega) hq (by show s.node.rf.rid < _; rw [hnode]; exact hridx)
    (by rw [hnode, hdrvr]; exact hNx) hrid (by rw [hnode]; exact hxcfg) hAmlen hfaults
    (by rw [hnode, hxfb]; simp [reqFrame, MAX_FRAG_SIZE]) (by rw [hnode, hxfb]; exact hpk)
    (by rw [hnode, hxfb]; rfl) (by decide)
  refine ⟨s.afterRf D1, ?_⟩
  -- the world after the write
  have hD1m : D1.w.radio (s.ridAt m) = (s.radioAt m).got0 Am pk pid1 := by
    rw [o1 _ (by rw [hcur]; exact hridne)]
    show ((s.radioAt m).receive _).1 = _
    rw [receive_pipe0 hNm Am pk pid1 hAm (by rw [hfm]; decide) (hdupm pid1)]
    rfl
  have hD1x : D1.radio = D1.w.radio (s.ridAt x) := by
    show D1.w.radio D1.d.rid = _
    rw [r1, hnode]; rfl
  generalize hs1 : s.afterRf D1 = s1 at e1
  have s1cur : s1.cur = x := by rw [← hs1]; exact hcur
  have s1act : s1.active = [x] := by rw [← hs1]; exact hact
  have s1len : s1.nodes.length = 2 := by rw [← hs1]; simpa using hlen
  have s1m : s1.nodeAt m = s.nodeAt m := by
    rw [← hs1]; exact nodeAt_afterRf_ne s D1 m (by rw [hcur]; exact hmx)
  have s1xb : (s1.nodeAt x).body = (s.nodeAt x).body := by rw [← hs1]; exact body_afterRf s D1 x
  have s1xrf : (s1.nodeAt x).rf = D1.d := by rw [← hs1, ← hcur]; exact rf_afterRf_cur s D1 hcl
  have s1w : s1.w = D1.w := by rw [← hs1]; rfl
  have s1node : s1.node = s1.nodeAt x := by rw [node_eq_nodeAt, s1cur]
  have s1radm : s1.radioAt m = (s.radioAt m).got0 Am pk pid1 := by
    show s1.w.radio (s1.nodeAt m).rf.rid = _
    rw [s1m, s1w]; exact hD1m
  -- 2. the master's `update()`
  generalize hsm : s1.switchTo m = sm
  have smcur : sm.cur = m := by rw [← hsm]; rfl
  have smlen : sm.nodes.length = 2 := by rw [← hsm]; simpa using s1len
  have smact : sm.active = [m, x] := by rw [← hsm]; show m :: s1.active = _; rw [s1act]
  have smw : ∀ r, sm.w.radio r = D1.w.radio r := by intro r; rw [← hsm]; show s1.w.radio r = _; rw [s1w]
  have smnode : sm.node = s.nodeAt m := by
    rw [node_eq_nodeAt, smcur, ← hsm, nodeAt_switchTo_eq, nodeAt_setNode, if_neg, s1m]
    rintro ⟨h, _⟩
    rw [s1cur] at h; exact hmx h
  have smrad : sm.drv.radio = (s.radioAt m).got0 Am pk pid1 := by
    show sm.w.radio sm.node.rf.rid = _
    rw [smnode, smw]; exact hD1m
  have smxrf : (sm.nodeAt x).rf = D1.d := by rw [← hsm, rf_switchTo, s1xrf]
  have smridx : sm.ridAt x = s.ridAt x := by
    show (sm.nodeAt x).rf.rid = _
    rw [smxrf, r1, hnode]; rfl
  have smridm : sm.ridAt sm.cur = s.ridAt m := by
    show sm.node.rf.rid = _
    rw [smnode]; rfl
  obtain ⟨Da, Db, eU, Fa, xa, rb, lb, fb, Nb, xb, lrb, pid2, ob⟩ := master_request f sm L Pm 0 i a fid Ax pk pk'
    (by rw [smcur, smlen]; exact hm) (by rw [← hsm, ← hs1]; exact hclosed) (by rw [smlen]; omega)
    (by
      intro k hk hkc hka
      rcases two k (by rw [← smlen]; exact hk) with rfl | rfl
      · exact absurd smcur.symm hkc
      · rw [smact] at hka; simp at hka)
    (by show sm.node.rf.rid < sm.w.radios.length
        rw [smnode, ← hsm]; show _ < s1.w.radios.length; rw [s1w, l1]; exact hridm)
    (by rw [smnode, smrad]; exact got0_nodeRadio hNm Am pk pid1)
    (by
      intro k hk hkc
      rcases two k (by rw [← smlen]; exact hk) with rfl | rfl
      · exact absurd smcur.symm hkc
      · rw [smridx, smridm]; exact fun h => hridne h.symm)
    (by rw [smnode]; exact harrm) (by rw [smrad]; show (s.radioAt m).rxFifo ++ _ = _; rw [hfm]; rfl) (by omega)
    (by rw [← hsm]; show s1.w.faults = []; rw [s1w]; exact f1)
    hpk hi0 hi hfid (by rw [smnode]; exact hkind) (by rw [smnode]; exact hid) (by rw [smnode]; exact hmaddr)
    (by rw [smnode]; exact hmret) (by rw [smnode]; exact hdo) (by rw [smnode]; exact hmcfg) hAxlen
    (by rw [smnode]; exact hfind) ha hpk'
  rw [smnode] at eU
  generalize hsj : ((sm.afterRf Da).putNode (leased (s.nodeAt m) Da.d fid i a)).afterRf Db = sj at eU
  have smc : sm.cur < sm.nodes.length := by rw [smcur, smlen]; exact hm
  have sjcur : sj.cur = m := by rw [← hsj]; exact smcur
  have sjact : sj.active = [m, x] := by rw [← hsj]; exact smact
  have sjlen : sj.nodes.length = 2 := by rw [← hsj]; simpa using smlen
  have sjw : sj.w = Db.w := by rw [← hsj]; rfl
  have sjx : sj.nodeAt x = sm.nodeAt x := by
    rw [← hsj, nodeAt_afterRf_ne _ _ _ (by show x ≠ sm.cur; rw [smcur]; exact fun h => hmx h.symm),
      nodeAt_putNode_ne _ _ _ (by show x ≠ sm.cur; rw [smcur]; exact fun h => hmx h.symm),
      nodeAt_afterRf_ne _ _ _ (by rw [smcur]; exact fun h => hmx h.symm)]
  have sjmb : (sj.nodeAt m).body = (leased (s.nodeAt m) Da.d fid i a).body := by
    rw [← hsj, body_afterRf]
    have := nodeAt_putNode_cur (sm.afterRf Da) (leased (s.nodeAt m) Da.d fid i a) (by simpa using smc)
    rw [show (sm.afterRf Da).cur = m from smcur] at this
    rw [this]
  have sjmrf : (sj.nodeAt m).rf = Db.d := by
    rw [← hsj]
    have := rf_afterRf_cur ((sm.afterRf Da).putNode (leased (s.nodeAt m) Da.d fid i a)) Db (by simpa using smc)
    rw [show ((sm.afterRf Da).putNode (leased (s.nodeAt m) Da.d fid i a)).cur = m from smcur] at this
    exact this
  have hDbrid : Db.d.rid = s.ridAt m := by rw [rb, smnode]; rfl
  -- the joiner's radio after the master's run
  have hNx1 : NodeRadio L Px true true 0x3E D1.d D1.radio := N1
  have hDbx : Db.w.radio (s.ridAt x) = D1.radio.got0 Ax pk' pid2 := by
    rw [ob _ (by rw [smridm]; exact fun h => hridne h.symm), smw, ← hD1x]
    rw [receive_pipe0 hNx1 Ax pk' pid2 hAx (by rw [x1, hdrvr, hfx]; decide)
      (by rw [lr1, hdrvr]; exact hdupx pid2)]
    rfl
  -- 3. the joiner's read
  generalize hs5 : sj.switchBack s1.cur m = s5
  have s5cur : s5.cur = x := by rw [← hs5]; exact s1cur
  have s5act : s5.active = [x] := by
    rw [← hs5]; show sj.active.erase m = _; rw [sjact, List.erase_cons_head]
  have s5len : s5.nodes.length = 2 := by rw [← hs5]; simpa using sjlen
  have s5rad : ∀ k, s5.radioAt k = sj.radioAt k := by intro k; rw [← hs5]; exact radioAt_switchBack sj _ m k
  have s5rf : ∀ k, (s5.nodeAt k).rf = (sj.nodeAt k).rf := by intro k; rw [← hs5]; exact rf_switchBack sj _ m k
  have s5body : ∀ k, (s5.nodeAt k).body = (sj.nodeAt k).body := by
    intro k; rw [← hs5]; exact body_switchBack sj _ m k
  have s5node : s5.node = s5.nodeAt x := by rw [node_eq_nodeAt, s5cur]
  have s5xrf : (s5.nodeAt x).rf = D1.d := by rw [s5rf, sjx, smxrf]
  have s5radx : s5.radioAt x = D1.radio.got0 Ax pk' pid2 := by
    rw [s5rad]
    show sj.w.radio (sj.nodeAt x).rf.rid = _
    rw [sjx, smxrf, sjw, r1, hnode]
    exact hDbx
  have s5radm : s5.radioAt m = Db.radio := by
    rw [s5rad]
    show sj.w.radio (sj.nodeAt m).rf.rid = _
    rw [sjmrf, sjw]; rfl
  have s5drvr : s5.drv.radio = s5.radioAt x := by
    show s5.w.radio s5.node.rf.rid = _
    rw [s5node]; rfl
  have s5w : s5.w.radios.length = s.w.radios.length ∧ s5.w.faults = [] := by
    rw [← hs5]
    show sj.w.radios.length = _ ∧ sj.w.faults = []
    rw [sjw, lb]
    refine ⟨?_, fb⟩
    rw [← hsm]; show s1.w.radios.length = _; rw [s1w, l1]
  have hpkl' : pk'.length = 8 + (respFrame fid i a).message.length := pack_length hpk'
  have hrunm : s1.runnable m := by
    refine ⟨by rw [s1cur]; exact hmx, by rw [s1act]; simp [hmx], ?_, ?_⟩
    · show (!(s1.radioAt m).rxFifo.isEmpty) = true
      rw [s1radm]; simp [Radio.got0]
    · show (s1.radioAt m).rxMode = true
      rw [s1radm]; exact (got0_nodeRadio hNm Am pk pid1).rxMode
  obtain ⟨D6, e6, F6, N6, x6⟩ := read_nested2 s1 sj m (f + 4) (.ok MESH_ADDR_REQUEST) L Px true true 0x3E
    (by rw [← hs1]; exact hclosed)
    (by
      have : s1.node.arrivals = (s1.nodeAt x).body.arrivals := by rw [s1node]; rfl
      rw [this, s1xb]; exact harrx)
    (by rw [s1len]; exact hm) hrunm
    (by
      intro k hk hr
      rcases two k (by omega) with rfl | rfl
      · omega
      · exact hr.1 s1cur.symm)
    (by rw [hsm]; exact eU) (by rw [sjlen, s1len]) (by rw [s1len]; omega)
    (by
      intro k hk hkl hr
      rw [hs5] at hr
      rcases two k (by rw [← s1len]; exact hkl) with rfl | rfl
      · omega
      · exact hr.1 s5cur.symm)
    (by rw [hs5]; show s5.node.rf.rid < s5.w.radios.length; rw [s5node, s5xrf, r1, hnode, s5w.1]; exact hridx)
    (by rw [hs5, s5node, s5drvr, s5xrf, s5radx]; exact got0_nodeRadio hNx1 Ax pk' pid2)
    (by
      rw [hs5, s5drvr, s5radx]
      intro e he
      have : e ∈ D1.radio.rxFifo ++ [{ pipe := 0, data := pk' }] := he
      rw [x1, hdrvr, hfx] at this
      simp only [List.nil_append, List.mem_singleton] at this
      subst this
      exact ⟨Nat.zero_le _, by simp only []; rw [hpkl']; simp [respFrame], by simp only []; rw [hpkl']; simp [respFrame]⟩)
  rw [hs5] at e6 F6 x6
  have hhead : s5.drv.radio.rxFifo = [{ pipe := 0, data := pk' }] := by
    rw [s5drvr, s5radx]
    show D1.radio.rxFifo ++ _ = _
    rw [x1, hdrvr, hfx]; rfl
  rw [hhead] at e6 x6
  simp only [List.head?_cons, Option.map_some, List.tail_cons] at e6 x6
  -- 4. `_net_update()` of the joiner
  have s5c : s5.cur < s5.nodes.length := by rw [s5cur, s5len]; exact hx
  have s6c : (s5.afterRf D6).cur < (s5.afterRf D6).nodes.length := by simpa using s5c
  have s6node : (s5.afterRf D6).node = { s5.node with rf := D6.d } := afterRf_node s5 D6 s5c
  have s5xb : (s5.nodeAt x).body = (s.nodeAt x).body := by
    rw [s5body, sjx, ← hsm, body_switchTo, s1xb]
  have s5addr : s5.node.a.addr = NETWORK_DEFAULT_ADDR := by
    have : s5.node.a = (s5.nodeAt x).body.a := by rw [s5node]; rfl
    rw [this, s5xb]; exact hxaddr
  have s5ret : s5.node.retSysMsg = true := by
    have : s5.node.retSysMsg = (s5.nodeAt x).body.retSysMsg := by rw [s5node]; rfl
    rw [this, s5xb]; exact hxret
  have hwire : wireCopy (respFrame fid i a) = respFrame fid i a := by
    unfold wireCopy respFrame
    simp only [Header.ty, NETWORK_DEFAULT_ADDR, MESH_ADDR_RESPONSE]
    have e1 : i &&& 0xFF = i := by rw [and_ff]; omega
    have e2 : fid &&& 0xFFFF = fid := by rw [and_ffff]; omega
    rw [e1, e2]
    rfl
  have hnu := netUpdate_sys (f + 4 + 1 + m) s1 (s5.afterRf D6) pk' (respFrame fid i a) MESH_ADDR_RESPONSE s6c
    (by rw [show f + 4 + 1 + m + 1 = f + 4 + 2 + m from by omega]; exact e6) rfl hpk' hwire
    (by rw [s6node]; exact s5addr.symm) validDefault validDefault (by decide)
    (by rw [s6node]; rintro ⟨_, h⟩; exact h s5addr.symm) (fun h => absurd h.1 (by decide))
    (by rw [s6node]; exact s5ret) (by decide) (by decide)
  refine ⟨(s5.afterRf D6).withFrame (respFrame fid i a), e1, ?_, ?_, ?_, ?_, ?_, ?_, ?_, ?_, ?_, ?_, ?_, ?_, ?_, ?_, ?_⟩
  · rw [show f + 7 + m = f + 4 + 1 + m + 2 from by omega]; exact hnu
  · exact s5cur
  · exact s5act
  · simpa using s5len
  · show s5.closed = true
    rw [← hs5, ← hsj, ← hsm, ← hs1]; exact hclosed
  · show D6.w.faults = []
    rw [F6.faults]; exact s5w.2
  · -- the joiner's node object
    have h1 : ((s5.afterRf D6).withFrame (respFrame fid i a)).nodeAt x =
        { (s5.afterRf D6).nodeAt x with frameBuf := respFrame fid i a } := by
      unfold NetState.withFrame
      rw [nodeAt_setNode, if_pos ⟨by show x = s5.cur; exact s5cur.symm, s6c⟩]
    rw [h1]
    have h2 := body_afterRf s5 D6 x
    rw [s5xb] at h2
    show ({ ((s5.afterRf D6).nodeAt x).body with frameBuf := respFrame fid i a } : Node) = _
    rw [h2]
  · -- the master's node object
    have hne : m ≠ (s5.afterRf D6).cur := by show m ≠ s5.cur; rw [s5cur]; exact hmx
    rw [nodeAt_withFrame_ne _ _ _ hne, body_afterRf, s5body, sjmb]
    rfl
  · have hne : m ≠ (s5.afterRf D6).cur := by show m ≠ s5.cur; rw [s5cur]; exact hmx
    have hne5 : m ≠ s5.cur := by rw [s5cur]; exact hmx
    rw [radioAt_withFrame, nodeAt_withFrame_ne _ _ _ hne, radioAt_afterRf_ne _ _ _ hne5, nodeAt_afterRf_ne _ _ _ hne5]
    have hrm : s5.ridAt m = Db.d.rid := by show (s5.nodeAt m).rf.rid = _; rw [s5rf, sjmrf]
    have hne6 : s5.ridAt m ≠ s5.drv.d.rid := by
      show _ ≠ s5.node.rf.rid
      rw [hrm, hDbrid, s5node, s5xrf, r1, hnode]; exact hridne
    rw [F6.others _ hne6]
    show NodeRadio L Pm true true 0x3E (s5.nodeAt m).rf (s5.radioAt m)
    rw [s5rf, sjmrf, s5radm]; exact Nb
  · rw [radioAt_withFrame]
    have h1 : ((s5.afterRf D6).withFrame (respFrame fid i a)).nodeAt x =
        { (s5.afterRf D6).nodeAt x with frameBuf := respFrame fid i a } := by
      unfold NetState.withFrame
      rw [nodeAt_setNode, if_pos ⟨by show x = s5.cur; exact s5cur.symm, s6c⟩]
    rw [h1]
    show NodeRadio L Px true true 0x3E ((s5.afterRf D6).nodeAt x).rf ((s5.afterRf D6).radioAt x)
    rw [← s5cur, rf_afterRf_cur s5 D6 s5c, radioAt_afterRf_cur s5 D6 s5c]
    exact N6
  · have hne5 : m ≠ s5.cur := by rw [s5cur]; exact hmx
    rw [radioAt_withFrame, radioAt_afterRf_ne _ _ _ hne5]
    have hrm : s5.ridAt m = Db.d.rid := by show (s5.nodeAt m).rf.rid = _; rw [s5rf, sjmrf]
    have hne6 : s5.ridAt m ≠ s5.drv.d.rid := by
      show _ ≠ s5.node.rf.rid
      rw [hrm, hDbrid, s5node, s5xrf, r1, hnode]; exact hridne
    rw [F6.others _ hne6]
    show (s5.radioAt m).rxFifo = []
    rw [s5radm]; exact xb
  · rw [radioAt_withFrame, ← s5cur, radioAt_afterRf_cur s5 D6 s5c]
    exact x6
  · have hne : m ≠ (s5.afterRf D6).cur := by show m ≠ s5.cur; rw [s5cur]; exact hmx
    have hne5 : m ≠ s5.cur := by rw [s5cur]; exact hmx
    show (((s5.afterRf D6).withFrame (respFrame fid i a)).nodeAt m).rf.rid = _
    rw [nodeAt_withFrame_ne _ _ _ hne, nodeAt_afterRf_ne _ _ _ hne5, s5rf, sjmrf]; exact hDbrid
  · show (((s5.afterRf D6).withFrame (respFrame fid i a)).nodeAt x).rf.rid = _
    rw [rf_withFrame, ← s5cur, rf_afterRf_cur s5 D6 s5c, F6.rid]
    show s5.node.rf.rid = _
    rw [s5node, s5cur, s5xrf, r1, hnode]; rfl
  · -- what each radio accepted last: the master's the request, the joiner's the response
    refine ⟨pid1, pid2, ?_, ?_⟩
    · have hne5 : m ≠ s5.cur := by rw [s5cur]; exact hmx
      rw [radioAt_withFrame, radioAt_afterRf_ne _ _ _ hne5]
      have hrm : s5.ridAt m = Db.d.rid := by show (s5.nodeAt m).rf.rid = _; rw [s5rf, sjmrf]
      have hne6 : s5.ridAt m ≠ s5.drv.d.rid := by
        show _ ≠ s5.node.rf.rid
        rw [hrm, hDbrid, s5node, s5xrf, r1, hnode]; exact hridne
      rw [F6.others _ hne6]
      show (s5.radioAt m).lastRx = _
      rw [s5radm, lrb, smrad]; rfl
    · rw [radioAt_withFrame, ← s5cur, radioAt_afterRf_cur s5 D6 s5c, F6.lastRx, s5drvr, s5radx]; rfl


/-! ### frames 1–4 through `_request_address(0)`, the rest as explicit hypotheses -/

/-- two packed single frames of different content are different packets -/
theorem pack_ne {fr fr' : Frame} {t t' : Nat} {pk pk' : Bytes} (ht : fr.header.msgType = .int t)
    (ht' : fr'.header.msgType = .int t') (hw : wireCopy fr = fr) (hw' : wireCopy fr' = fr') (hne : fr ≠ fr')
    (hp : fr.pack = .ok pk) (hp' : fr'.pack = .ok pk') : pk ≠ pk' := by
  intro h
  subst h
  have h1 := unpack_of_pack fr default t ht pk hp
  have h2 := unpack_of_pack fr' default t' ht' pk hp'
  rw [h1, hw, hw'] at h2
  exact hne (congrArg Prod.fst h2)

theorem reqFrame_wire (fid i : Nat) (hi : i ≤ 255) (hfid : fid < 65536) : wireCopy (reqFrame fid i 0) = reqFrame fid i 0 := by
  unfold wireCopy reqFrame
  simp only [Header.ty, NETWORK_DEFAULT_ADDR, MESH_ADDR_REQUEST]
  have e1 : i &&& 0xFF = i := by rw [and_ff]; omega
  have e2 : fid &&& 0xFFFF = fid := by rw [and_ffff]; omega
  rw [e1, e2]
  rfl

theorem respFrame_wire (fid i a : Nat) (hi : i ≤ 255) (hfid : fid < 65536) :
    wireCopy (respFrame fid i a) = respFrame fid i a := by
  unfold wireCopy respFrame
  simp only [Header.ty, NETWORK_DEFAULT_ADDR, MESH_ADDR_RESPONSE]
  have e1 : i &&& 0xFF = i := by rw [and_ff]; omega
  have e2 : fid &&& 0xFFFF = fid := by rw [and_ffff]; omega
  rw [e1, e2]
  rfl

/-- the state after frames 1–4 of a direct join (relative to the state `s` before `_request_address`):
    the joiner holds the response offering `a`; the master has recorded the lease; each radio's
    `lastRx` is the packet it accepted last (pid free).  Clocks, `busyUntil`, `nextId`, the air log
    are not described: theorems that take the later legs as hypotheses therefore state them about the
    run's own state, not about every state satisfying this predicate. -/
structure AfterRequest (s : NetState) (L : LinkCfg) (Pm Px : List Bytes) (m x fid i a : Nat) (s3 : NetState) : Prop where
  cur : s3.cur = x
  active : s3.active = [x]
  len : s3.nodes.length = 2
  closed : s3.closed = true
  faults : s3.w.faults = []
  joiner : (s3.nodeAt x).body = { (s.nodeAt x).body with frameBuf := respFrame fid i a }
  master : (s3.nodeAt m).body =
    { (s.nodeAt m).body with frameBuf := respFrame fid i a, dhcp := Mesh.setAddress (s.nodeAt m).dhcp i a, doDhcp := false }
  radioM : NodeRadio L Pm true true 0x3E (s3.nodeAt m).rf (s3.radioAt m)
  radioX : NodeRadio L Px true true 0x3E (s3.nodeAt x).rf (s3.radioAt x)
  fifoM : (s3.radioAt m).rxFifo = []
  fifoX : (s3.radioAt x).rxFifo = []
  ridM : s3.ridAt m = s.ridAt m
  ridX : s3.ridAt x = s.ridAt x
  /-- what the master's radio accepted last is the address REQUEST (on its pipe 0) -/
  lastM : ∃ pid A pk, Pm[0]? = some A ∧ (reqFrame fid i 0).pack = .ok pk ∧
    (s3.radioAt m).lastRx = some { pid := pid, addr := A, data := pk }
  /-- what the joiner's radio accepted last is the address RESPONSE (on its pipe 0) -/
  lastX : ∃ pid A pk, Px[0]? = some A ∧ (respFrame fid i a).pack = .ok pk ∧
    (s3.radioAt x).lastRx = some { pid := pid, addr := A, data := pk }

theorem getLevel0 : getLevel 0 = 0 := by
  unfold getLevel
  simp

/-- **Frames 1–4 of a direct join, composed with the model's own fuel `F`**: `_make_contact(0)`
    returns `[0]`; with the address request in `frame_buf`, `_write(0, TX_PHYSICAL)` returns `True` and
    the next `_net_update()` returns 128; the state afterwards is `AfterRequest` (joiner holds the
    response offering `a`, master has recorded the lease, both listening, FIFOs empty). -/
theorem frames_1_4 (s : NetState) (L : LinkCfg) (Pm Px : List Bytes) (m x fid r i a : Nat)
    (Am Ax pk pk' pq pq' : Bytes)
    (hlen : s.nodes.length = 2) (hm : m < 2) (hx : x < 2) (hmx : m ≠ x)
    (hcur : s.cur = x) (hact : s.active = [x]) (hclosed : s.closed = true) (hfaults : s.w.faults = [])
    (hridm : s.ridAt m < s.w.radios.length) (hridx : s.ridAt x < s.w.radios.length)
    (hridne : s.ridAt m ≠ s.ridAt x)
    (hNm : NodeRadio L Pm true true 0x3E (s.nodeAt m).rf (s.radioAt m))
    (hNx : NodeRadio L Px true true 0x3E (s.nodeAt x).rf (s.radioAt x))
    (hfm : (s.radioAt m).rxFifo = []) (hfx : (s.radioAt x).rxFifo = [])
    (hdupm : ∀ pid, (s.radioAt m).lastRx ≠ some { pid := pid, addr := Am, data := pk })
    (hdupx : ∀ pid, (s.radioAt x).lastRx ≠ some { pid := pid, addr := Ax, data := pk' })
    (harrm : (s.nodeAt m).arrivals = []) (harrx : (s.nodeAt x).arrivals = [])
    (hAm : Pm[0]? = some Am) (hAx : Px[0]? = some Ax)
    (hxfid : (s.nodeAt x).frameBuf.header.frameId = fid) (hxres : (s.nodeAt x).frameBuf.header.reserved = r)
    (hxid : (s.nodeAt x).nodeId = i)
    (hxaddr : (s.nodeAt x).a.addr = NETWORK_DEFAULT_ADDR)
    (hxret : (s.nodeAt x).retSysMsg = true) (hxcfg : pipeAddress (s.nodeAt x).cfg 0 0 = .ok Am)
    (hkind : (s.nodeAt m).kind = .meshMaster) (hid : (s.nodeAt m).nodeId = 0) (hmaddr : (s.nodeAt m).a.addr = 0)
    (hmret : (s.nodeAt m).retSysMsg = true)
    (hmmc : (s.nodeAt m).cfg.allowMulticast = true) (hmpar : (s.nodeAt m).parenthood = true)
    (hdo : (s.nodeAt m).doDhcp = false)
    (hmcfg : pipeAddress (s.nodeAt m).cfg NETWORK_DEFAULT_ADDR 0 = .ok Ax)
    (hfind : dhcpFind (s.nodeAt m).dhcp i 0 0 (Mesh.MESH_MAX_CHILDREN + 1) = some a) (ha : a < 65536)
    (hr : r ≤ 255) (hfid : fid < 65536) (hi0 : i ≠ 0) (hi : i ≤ 255)
    (hpk : (pollFrame fid r).pack = .ok pk) (hpk' : (pollReply fid r 0).pack = .ok pk')
    (hpq : (reqFrame fid i 0).pack = .ok pq) (hpq' : (respFrame fid i a).pack = .ok pq') :
    ∃ s2 sW s3 : NetState,
      nexec (makeContact 0) s = (.ok [0], s2) ∧ s2.cur = x ∧ s2.nodes.length = 2 ∧
      (s2.nodeAt x).body = { (s.nodeAt x).body with frameBuf := pollReply fid r 0 } ∧
      nexec (nodeWrite F 0 TX_PHYSICAL) (s2.withFrame (reqFrame fid i 0)) = (.ok true, sW) ∧
      nexec (netUpdate F 0) sW = (.ok MESH_ADDR_RESPONSE, s3) ∧
      AfterRequest s L Pm Px m x fid i a s3 := by
  obtain ⟨s2, pid1, pid2, eP, c2, a2, n2, cl2, fl2, _, rl2, bx2, bm2, Nm2, Nx2, fm2, fx2, rm2, rx2, lm2, lx2⟩ :=
    leg_poll s L Pm Px m x fid r Am Ax pk pk' hlen hm hx hmx hcur hact hclosed hfaults hridm hridx hridne hNm hNx
      hfm hfx hdupm hdupx harrm harrx hAm hAx hxfid hxres hxaddr hxret hxcfg hkind hid hmaddr hmmc hmpar hdo hmcfg
      hr hfid hpk hpk'
  have hF : F = 200000 := rfl
  have s2c : s2.cur < s2.nodes.length := by rw [c2, n2]; exact hx
  have s2node : s2.node = s2.nodeAt x := by rw [node_eq_nodeAt, c2]
  have s2fb : s2.node.frameBuf = pollReply fid r 0 := by
    have : s2.node.frameBuf = (s2.nodeAt x).body.frameBuf := by rw [s2node]; rfl
    rw [this, bx2]
  have s2id : s2.node.nodeId = i := by
    have : s2.node.nodeId = (s2.nodeAt x).body.nodeId := by rw [s2node]; rfl
    rw [this, bx2]; exact hxid
  -- the request in `frame_buf`
  generalize hsB : s2.withFrame (reqFrame fid i 0) = sB
  have sBcur : sB.cur = x := by rw [← hsB]; exact c2
  have sBm : sB.nodeAt m = s2.nodeAt m := by
    rw [← hsB]; exact nodeAt_withFrame_ne s2 _ m (by rw [c2]; exact hmx)
  have sBx : sB.nodeAt x = { s2.nodeAt x with frameBuf := reqFrame fid i 0 } := by
    have : sB.nodeAt x = sB.node := by rw [node_eq_nodeAt, sBcur]
    rw [this, ← hsB, withFrame_node s2 _ s2c, s2node]
  have sBrad : ∀ k, sB.radioAt k = s2.radioAt k := by intro k; rw [← hsB]; exact radioAt_withFrame s2 _ k
  have sBrid : ∀ k, sB.ridAt k = s2.ridAt k := by
    intro k; show (sB.nodeAt k).rf.rid = _; rw [← hsB, rf_withFrame]; rfl
  have bodyM : (sB.nodeAt m).body = { (s.nodeAt m).body with frameBuf := pollReply fid r 0 } := by rw [sBm, bm2]
  have fieldM : ∀ {α : Type} (g : Node → α), (∀ n : Node, g n = g n.body) →
      (∀ n : Node, ∀ fb, g { n with frameBuf := fb } = g n) → g (sB.nodeAt m) = g (s.nodeAt m) := by
    intro α g h1 h2
    rw [h1 (sB.nodeAt m), bodyM, h2, ← h1]
  have fieldX : ∀ {α : Type} (g : Node → α), (∀ n : Node, g n = g n.body) →
      (∀ n : Node, ∀ fb, g { n with frameBuf := fb } = g n) → g (sB.nodeAt x) = g (s.nodeAt x) := by
    intro α g h1 h2
    rw [sBx, h2, h1 (s2.nodeAt x), bx2, h2, ← h1]
  have hne1 : pk ≠ pq := pack_ne (t := NETWORK_POLL) (t' := MESH_ADDR_REQUEST) rfl rfl (pollFrame_wire fid r hr hfid)
    (reqFrame_wire fid i hi hfid)
    (fun h => by
      have := congrArg (fun f : Frame => f.header.msgType) h
      simp [pollFrame, reqFrame, NETWORK_POLL, MESH_ADDR_REQUEST] at this) hpk hpq
  have hne2 : pk' ≠ pq' := pack_ne (t := NETWORK_POLL) (t' := MESH_ADDR_RESPONSE) rfl rfl (pollReply_wire fid r hr hfid)
    (respFrame_wire fid i a hi hfid)
    (fun h => by
      have := congrArg (fun f : Frame => f.header.msgType) h
      simp [pollReply, respFrame, NETWORK_POLL, MESH_ADDR_RESPONSE] at this) hpk' hpq'
  obtain ⟨sW, s3, eW, eN, c3, a3, n3, cl3, fl3, bx3, bm3, Nm3, Nx3, fm3, fx3, rm3, rx3, q1, q2, lrm, lrx⟩ :=
    leg_request2 (200000 - 7 - m) (200000 - 2) sB L Pm Px m x i a fid Am Ax pq pq'
      (by rw [← hsB]; simpa using n2) hm hx hmx sBcur (by rw [← hsB]; exact a2) (by rw [← hsB]; exact cl2)
      (by rw [← hsB]; exact fl2) (by omega) (by omega)
      (by rw [sBrid, rm2, ← hsB]; show s.ridAt m < s2.w.radios.length; rw [rl2]; exact hridm)
      (by rw [sBrid, rx2, ← hsB]; show s.ridAt x < s2.w.radios.length; rw [rl2]; exact hridx)
      (by rw [sBrid, sBrid, rm2, rx2]; exact hridne)
      (by rw [sBm, sBrad]; exact Nm2)
      (by rw [sBx, sBrad]; exact Nx2)
      (by rw [sBrad]; exact fm2) (by rw [sBrad]; exact fx2)
      (by intro pid; rw [sBrad, lm2]; intro h; injection h with h; injection h with _ _ h; exact hne1 h)
      (by intro pid; rw [sBrad, lx2]; intro h; injection h with h; injection h with _ _ h; exact hne2 h)
      (by rw [fieldM (·.arrivals) (fun _ => rfl) (fun _ _ => rfl)]; exact harrm)
      (by rw [fieldX (·.arrivals) (fun _ => rfl) (fun _ _ => rfl)]; exact harrx)
      hAm hAx (by rw [sBx])
      (by rw [fieldX (·.a.addr) (fun _ => rfl) (fun _ _ => rfl)]; exact hxaddr)
      (by rw [fieldX (·.retSysMsg) (fun _ => rfl) (fun _ _ => rfl)]; exact hxret)
      (by rw [fieldX (·.cfg) (fun _ => rfl) (fun _ _ => rfl)]; exact hxcfg)
      (by rw [fieldM (·.kind) (fun _ => rfl) (fun _ _ => rfl)]; exact hkind)
      (by rw [fieldM (·.nodeId) (fun _ => rfl) (fun _ _ => rfl)]; exact hid)
      (by rw [fieldM (·.a.addr) (fun _ => rfl) (fun _ _ => rfl)]; exact hmaddr)
      (by rw [fieldM (·.retSysMsg) (fun _ => rfl) (fun _ _ => rfl)]; exact hmret)
      (by rw [fieldM (·.doDhcp) (fun _ => rfl) (fun _ _ => rfl)]; exact hdo)
      (by rw [fieldM (·.cfg) (fun _ => rfl) (fun _ _ => rfl)]; exact hmcfg)
      (by rw [fieldM (·.dhcp) (fun _ => rfl) (fun _ _ => rfl)]; exact hfind) ha hi0 hi hfid hpq hpq'
  have hAR : AfterRequest s L Pm Px m x fid i a s3 := by
    refine ⟨c3, a3, n3, cl3, fl3, ?_, ?_, Nm3, Nx3, fm3, fx3, ?_, ?_, ⟨q1, Am, pq, hAm, hpq, lrm⟩,
      ⟨q2, Ax, pq', hAx, hpq', lrx⟩⟩
    · rw [bx3, sBx]
      have : ({ s2.nodeAt x with frameBuf := reqFrame fid i 0 } : Node).body =
          { (s2.nodeAt x).body with frameBuf := reqFrame fid i 0 } := rfl
      rw [this, bx2]
    · rw [bm3, bodyM]
      have : (sB.nodeAt m).dhcp = (s.nodeAt m).dhcp := fieldM (·.dhcp) (fun _ => rfl) (fun _ _ => rfl)
      rw [this]
    · rw [rm3, sBrid, rm2]
    · rw [rx3, sBrid, rx2]
  refine ⟨s2, sW, s3, eP, c2, n2, bx2, ?_, ?_, hAR⟩
  · rw [hsB, hF]; exact eW
  · rw [hF, show (200000 : Nat) = 200000 - 7 - m + 7 + m from by omega]; exact eN

/-- frames 3–4 from the state after `_make_contact` (any `frame_buf` whose header carries the id `fid`):
    `leg_request2` on the state with the request in `frame_buf`, with the model's own fuel `F` -/
theorem frames_3_4 (s : NetState) (L : LinkCfg) (Pm Px : List Bytes) (m x fid i a : Nat)
    (Am Ax pq pq' : Bytes)
    (hlen : s.nodes.length = 2) (hm : m < 2) (hx : x < 2) (hmx : m ≠ x)
    (hcur : s.cur = x) (hact : s.active = [x]) (hclosed : s.closed = true) (hfaults : s.w.faults = [])
    (hridm : s.ridAt m < s.w.radios.length) (hridx : s.ridAt x < s.w.radios.length)
    (hridne : s.ridAt m ≠ s.ridAt x)
    (hNm : NodeRadio L Pm true true 0x3E (s.nodeAt m).rf (s.radioAt m))
    (hNx : NodeRadio L Px true true 0x3E (s.nodeAt x).rf (s.radioAt x))
    (hfm : (s.radioAt m).rxFifo = []) (hfx : (s.radioAt x).rxFifo = [])
    (hdupm : ∀ pid, (s.radioAt m).lastRx ≠ some { pid := pid, addr := Am, data := pq })
    (hdupx : ∀ pid, (s.radioAt x).lastRx ≠ some { pid := pid, addr := Ax, data := pq' })
    (harrm : (s.nodeAt m).arrivals = []) (harrx : (s.nodeAt x).arrivals = [])
    (hAm : Pm[0]? = some Am) (hAx : Px[0]? = some Ax)
    (hxaddr : (s.nodeAt x).a.addr = NETWORK_DEFAULT_ADDR)
    (hxret : (s.nodeAt x).retSysMsg = true) (hxcfg : pipeAddress (s.nodeAt x).cfg 0 0 = .ok Am)
    (hkind : (s.nodeAt m).kind = .meshMaster) (hid : (s.nodeAt m).nodeId = 0) (hmaddr : (s.nodeAt m).a.addr = 0)
    (hmret : (s.nodeAt m).retSysMsg = true) (hdo : (s.nodeAt m).doDhcp = false)
    (hmcfg : pipeAddress (s.nodeAt m).cfg NETWORK_DEFAULT_ADDR 0 = .ok Ax)
    (hfind : dhcpFind (s.nodeAt m).dhcp i 0 0 (Mesh.MESH_MAX_CHILDREN + 1) = some a) (ha : a < 65536)
    (hi0 : i ≠ 0) (hi : i ≤ 255) (hfid : fid < 65536)
    (hpq : (reqFrame fid i 0).pack = .ok pq) (hpq' : (respFrame fid i a).pack = .ok pq') :
    ∃ sW s3 : NetState,
      nexec (nodeWrite F 0 TX_PHYSICAL) (s.withFrame (reqFrame fid i 0)) = (.ok true, sW) ∧
      nexec (netUpdate F 0) sW = (.ok MESH_ADDR_RESPONSE, s3) ∧
      AfterRequest s L Pm Px m x fid i a s3 := by
  have hF : F = 200000 := rfl
  have sc : s.cur < s.nodes.length := by rw [hcur, hlen]; exact hx
  have snode : s.node = s.nodeAt x := by rw [node_eq_nodeAt, hcur]
  generalize hsB : s.withFrame (reqFrame fid i 0) = sB
  have sBcur : sB.cur = x := by rw [← hsB]; exact hcur
  have sBm : sB.nodeAt m = s.nodeAt m := by
    rw [← hsB]; exact nodeAt_withFrame_ne s _ m (by rw [hcur]; exact hmx)
  have sBx : sB.nodeAt x = { s.nodeAt x with frameBuf := reqFrame fid i 0 } := by
    have : sB.nodeAt x = sB.node := by rw [node_eq_nodeAt, sBcur]
    rw [this, ← hsB, withFrame_node s _ sc, snode]
  have sBrad : ∀ k, sB.radioAt k = s.radioAt k := by intro k; rw [← hsB]; exact radioAt_withFrame s _ k
  have sBrid : ∀ k, sB.ridAt k = s.ridAt k := by
    intro k; show (sB.nodeAt k).rf.rid = _; rw [← hsB, rf_withFrame]; rfl
  obtain ⟨sW, s3, eW, eN, c3, a3, n3, cl3, fl3, bx3, bm3, Nm3, Nx3, fm3, fx3, rm3, rx3, q1, q2, lrm, lrx⟩ :=
    leg_request2 (200000 - 7 - m) (200000 - 2) sB L Pm Px m x i a fid Am Ax pq pq'
      (by rw [← hsB]; simpa using hlen) hm hx hmx sBcur (by rw [← hsB]; exact hact) (by rw [← hsB]; exact hclosed)
      (by rw [← hsB]; exact hfaults) (by omega) (by omega)
      (by rw [sBrid, ← hsB]; exact hridm) (by rw [sBrid, ← hsB]; exact hridx)
      (by rw [sBrid, sBrid]; exact hridne)
      (by rw [sBm, sBrad]; exact hNm) (by rw [sBx, sBrad]; exact hNx)
      (by rw [sBrad]; exact hfm) (by rw [sBrad]; exact hfx)
      (by intro pid; rw [sBrad]; exact hdupm pid) (by intro pid; rw [sBrad]; exact hdupx pid)
      (by rw [sBm]; exact harrm) (by rw [sBx]; exact harrx)
      hAm hAx (by rw [sBx]) (by rw [sBx]; exact hxaddr) (by rw [sBx]; exact hxret) (by rw [sBx]; exact hxcfg)
      (by rw [sBm]; exact hkind) (by rw [sBm]; exact hid) (by rw [sBm]; exact hmaddr) (by rw [sBm]; exact hmret)
      (by rw [sBm]; exact hdo) (by rw [sBm]; exact hmcfg) (by rw [sBm]; exact hfind) ha hi0 hi hfid hpq hpq'
  refine ⟨sW, s3, ?_, ?_, ⟨c3, a3, n3, cl3, fl3, ?_, ?_, Nm3, Nx3, fm3, fx3, ?_, ?_, ⟨q1, Am, pq, hAm, hpq, lrm⟩,
    ⟨q2, Ax, pq', hAx, hpq', lrx⟩⟩⟩
  · rw [hF]; exact eW
  · rw [hF, show (200000 : Nat) = 200000 - 7 - m + 7 + m from by omega]; exact eN
  · rw [bx3, sBx]; rfl
  · rw [bm3, sBm]
  · rw [rm3, sBrid]
  · rw [rx3, sBrid]

/-- the control flow of `requestLoop [0] none` (the body of `_request_address` for the single contact 0)
    along one run: request written, response accepted (type 128, own ID, any address lies below contact
    0), `_begin(a)`, first double-check lookup returns the ID ⇒ `True` -/
theorem request_loop_flow (s2 sW s3 s4 s5 : NetState) (fid i a : Nat) (ha : a < 65536)
    (hfid : s2.node.frameBuf.header.frameId = fid) (hid : s2.node.nodeId = i)
    (eW : nexec (nodeWrite F 0 TX_PHYSICAL) (s2.withFrame (reqFrame fid i 0)) = (.ok true, sW))
    (eN : nexec (netUpdate F 0) sW = (.ok MESH_ADDR_RESPONSE, s3))
    (s3fb : s3.node.frameBuf = respFrame fid i a) (s3id : s3.node.nodeId = i)
    (eB : nexec (begin a) s3 = (.ok (), s4)) (hb1 : s4.node.a.addr = a) (hb2 : s4.node.nodeId = i)
    (eC : nexec (meshLookupNodeId (some (a : Int))) s4 = (.ok (i : Int), s5)) :
    nexec (requestLoop [0] none) s2 = (.ok true, s5) := by
  have hF : F = 200000 := rfl
  rw [requestLoop.eq_2, nexec_bind, nexec_getNode]
  simp only []
  rw [nexec_bind, nexec_setHdr]
  simp only []
  rw [nexec_bind, nexec_modNode]
  simp only []
  have hst : (s2.setNode fun n => { n with frameBuf := { n.frameBuf with header :=
        { (n.frameBuf.header.setTy MESH_ADDR_REQUEST) with toNode := 0, fromNode := NETWORK_DEFAULT_ADDR,
                                                             reserved := s2.node.nodeId } } }).setNode
      (fun nd => { nd with frameBuf := { nd.frameBuf with message := [] } }) = s2.withFrame (reqFrame fid i 0) := by
    rw [setNode_setNode]
    unfold NetState.withFrame
    apply setNode_congr
    simp only [Function.comp, Header.setTy, reqFrame, hfid, hid]
  rw [hst, nexec_bind, eW]
  simp only []
  rw [nexec_bind, nexec_nowNs]
  simp only []
  rw [nexec_bind, hF, show (200000 : Nat) = 199999 + 1 from rfl, responseWait.eq_2, nexec_bind, nexec_nowNs]
  simp only []
  have hlt : sW.w.clock < 225000000 + sW.w.clock := by omega
  rw [nexec_ite, if_pos hlt, nexec_bind, eN]
  simp only []
  rw [nexec_bind, nexec_getNode]
  simp only []
  have hres : s3.node.frameBuf.header.reserved = s3.node.nodeId := by rw [s3fb, s3id]; rfl
  simp only [hres, and_self, if_true]
  have hacc : unpackH (pySlice (respFrame fid i a).message 0 2) = .ok a := (respFrame_accept fid i a ha).2.2
  rw [nexec_bind, s3fb, hacc, nexec_liftPy_ok]
  simp only []
  have htest : ¬ (a % 2 ^ (getLevel 0 * 3) ≠ 0) := by
    rw [getLevel0]; simp [Nat.mod_one]
  rw [nexec_ite, if_neg htest, nexec_pure]
  simp only []
  rw [nexec_bind, eB]
  simp only []
  rw [nexec_bind, nexec_getNode]
  simp only []
  rw [nexec_bind, hb1, eC]
  simp only []
  have hfin : ¬ ((i : Int) ≠ (s4.node.nodeId : Int)) := by rw [hb2]; simp
  rw [nexec_ite, if_neg hfin]
  rfl

/-- **The contact loop of `_request_address` for the single contact 0** (`requestLoop [0] none`, from the
    state after `_make_contact`): frames 3–4 proved (`frames_3_4`), the control flow proved
    (`request_loop_flow`), the two remaining legs as hypotheses **about the one state this run produces**:
    `Hb` — on the state `s3` the request write and the next `_net_update()` of *this* run end in,
    `_begin(a)` ends normally with address attribute `a` and the ID kept (`P4` = whatever else is
    recorded about the state it ends in); `Hc` — the double-check `lookup_node_id(a)` from a state
    satisfying `P4` returns the ID (`P5`).  `sW`, `s3` are determined by `s` (the model is a function):
    with `P4 := (· = the state _begin ends in)` both hypotheses speak about exactly one state each. -/
theorem request_loop_partial (s : NetState) (L : LinkCfg) (Pm Px : List Bytes) (m x fid i a : Nat)
    (Am Ax pq pq' : Bytes) (P4 P5 : NetState → Prop)
    (hlen : s.nodes.length = 2) (hm : m < 2) (hx : x < 2) (hmx : m ≠ x)
    (hcur : s.cur = x) (hact : s.active = [x]) (hclosed : s.closed = true) (hfaults : s.w.faults = [])
    (hridm : s.ridAt m < s.w.radios.length) (hridx : s.ridAt x < s.w.radios.length)
    (hridne : s.ridAt m ≠ s.ridAt x)
    (hNm : NodeRadio L Pm true true 0x3E (s.nodeAt m).rf (s.radioAt m))
    (hNx : NodeRadio L Px true true 0x3E (s.nodeAt x).rf (s.radioAt x))
    (hfm : (s.radioAt m).rxFifo = []) (hfx : (s.radioAt x).rxFifo = [])
    (hdupm : ∀ pid, (s.radioAt m).lastRx ≠ some { pid := pid, addr := Am, data := pq })
    (hdupx : ∀ pid, (s.radioAt x).lastRx ≠ some { pid := pid, addr := Ax, data := pq' })
    (harrm : (s.nodeAt m).arrivals = []) (harrx : (s.nodeAt x).arrivals = [])
    (hAm : Pm[0]? = some Am) (hAx : Px[0]? = some Ax)
    (hxfid : (s.nodeAt x).frameBuf.header.frameId = fid) (hxid : (s.nodeAt x).nodeId = i)
    (hxaddr : (s.nodeAt x).a.addr = NETWORK_DEFAULT_ADDR)
    (hxret : (s.nodeAt x).retSysMsg = true) (hxcfg : pipeAddress (s.nodeAt x).cfg 0 0 = .ok Am)
    (hkind : (s.nodeAt m).kind = .meshMaster) (hid : (s.nodeAt m).nodeId = 0) (hmaddr : (s.nodeAt m).a.addr = 0)
    (hmret : (s.nodeAt m).retSysMsg = true) (hdo : (s.nodeAt m).doDhcp = false)
    (hmcfg : pipeAddress (s.nodeAt m).cfg NETWORK_DEFAULT_ADDR 0 = .ok Ax)
    (hfind : dhcpFind (s.nodeAt m).dhcp i 0 0 (Mesh.MESH_MAX_CHILDREN + 1) = some a) (ha : a < 65536)
    (hi0 : i ≠ 0) (hi : i ≤ 255) (hfid : fid < 65536)
    (hpq : (reqFrame fid i 0).pack = .ok pq) (hpq' : (respFrame fid i a).pack = .ok pq')
    (Hb : ∀ sW s3, nexec (nodeWrite F 0 TX_PHYSICAL) (s.withFrame (reqFrame fid i 0)) = (.ok true, sW) →
      nexec (netUpdate F 0) sW = (.ok MESH_ADDR_RESPONSE, s3) → AfterRequest s L Pm Px m x fid i a s3 →
      ∃ s4, nexec (begin a) s3 = (.ok (), s4) ∧ s4.node.a.addr = a ∧ s4.node.nodeId = i ∧ P4 s4)
    (Hc : ∀ s4, P4 s4 → ∃ s5, nexec (meshLookupNodeId (some (a : Int))) s4 = (.ok (i : Int), s5) ∧ P5 s5) :
    ∃ s5, nexec (requestLoop [0] none) s = (.ok true, s5) ∧ P5 s5 := by
  obtain ⟨sW, s3, eW, eN, hAR⟩ := frames_3_4 s L Pm Px m x fid i a Am Ax pq pq'
    hlen hm hx hmx hcur hact hclosed hfaults hridm hridx hridne hNm hNx hfm hfx hdupm hdupx harrm harrx hAm hAx
    hxaddr hxret hxcfg hkind hid hmaddr hmret hdo hmcfg hfind ha hi0 hi hfid hpq hpq'
  obtain ⟨s4, eB, hb1, hb2, hP4⟩ := Hb sW s3 eW eN hAR
  obtain ⟨s5, eC, hP5⟩ := Hc s4 hP4
  have snode : s.node = s.nodeAt x := by rw [node_eq_nodeAt, hcur]
  have s3node : s3.node = s3.nodeAt x := by rw [node_eq_nodeAt, hAR.cur]
  have s3fb : s3.node.frameBuf = respFrame fid i a := by
    have : s3.node.frameBuf = (s3.nodeAt x).body.frameBuf := by rw [s3node]; rfl
    rw [this, hAR.joiner]
  have s3id : s3.node.nodeId = i := by
    have : s3.node.nodeId = (s3.nodeAt x).body.nodeId := by rw [s3node]; rfl
    rw [this, hAR.joiner]; exact hxid
  exact ⟨s5, request_loop_flow s sW s3 s4 s5 fid i a ha (by rw [snode]; exact hxfid) (by rw [snode]; exact hxid)
    eW eN s3fb s3id eB hb1 hb2 eC, hP5⟩

/-- **`_request_address(0)` of a direct join**, frames 1–4 proved (`leg_poll`, `leg_request2`), the two
    remaining legs as hypotheses **about the one state this run produces** (`s2`, `sW`, `s3` are
    determined by `s`): `Hb` — `_begin(a)` from the state after the response ends normally, sets the
    address attribute and leaves the ID (`P4` = whatever else is recorded about the state it ends in);
    `Hc` — the double-check `lookup_node_id(a)` from a state satisfying `P4` returns the ID (`P5`).  Then
    `_request_address(0)` returns `True` in a state satisfying `P5`. -/
theorem request_address_partial (s : NetState) (L : LinkCfg) (Pm Px : List Bytes) (m x fid r i a : Nat)
    (Am Ax pk pk' pq pq' : Bytes) (P4 P5 : NetState → Prop)
    (hlen : s.nodes.length = 2) (hm : m < 2) (hx : x < 2) (hmx : m ≠ x)
    (hcur : s.cur = x) (hact : s.active = [x]) (hclosed : s.closed = true) (hfaults : s.w.faults = [])
    (hridm : s.ridAt m < s.w.radios.length) (hridx : s.ridAt x < s.w.radios.length)
    (hridne : s.ridAt m ≠ s.ridAt x)
    (hNm : NodeRadio L Pm true true 0x3E (s.nodeAt m).rf (s.radioAt m))
    (hNx : NodeRadio L Px true true 0x3E (s.nodeAt x).rf (s.radioAt x))
    (hfm : (s.radioAt m).rxFifo = []) (hfx : (s.radioAt x).rxFifo = [])
    (hdupm : ∀ pid, (s.radioAt m).lastRx ≠ some { pid := pid, addr := Am, data := pk })
    (hdupx : ∀ pid, (s.radioAt x).lastRx ≠ some { pid := pid, addr := Ax, data := pk' })
    (harrm : (s.nodeAt m).arrivals = []) (harrx : (s.nodeAt x).arrivals = [])
    (hAm : Pm[0]? = some Am) (hAx : Px[0]? = some Ax)
    (hxfid : (s.nodeAt x).frameBuf.header.frameId = fid) (hxres : (s.nodeAt x).frameBuf.header.reserved = r)
    (hxid : (s.nodeAt x).nodeId = i)
    (hxaddr : (s.nodeAt x).a.addr = NETWORK_DEFAULT_ADDR)
    (hxret : (s.nodeAt x).retSysMsg = true) (hxcfg : pipeAddress (s.nodeAt x).cfg 0 0 = .ok Am)
    (hkind : (s.nodeAt m).kind = .meshMaster) (hid : (s.nodeAt m).nodeId = 0) (hmaddr : (s.nodeAt m).a.addr = 0)
    (hmret : (s.nodeAt m).retSysMsg = true)
    (hmmc : (s.nodeAt m).cfg.allowMulticast = true) (hmpar : (s.nodeAt m).parenthood = true)
    (hdo : (s.nodeAt m).doDhcp = false)
    (hmcfg : pipeAddress (s.nodeAt m).cfg NETWORK_DEFAULT_ADDR 0 = .ok Ax)
    (hfind : dhcpFind (s.nodeAt m).dhcp i 0 0 (Mesh.MESH_MAX_CHILDREN + 1) = some a) (ha : a < 65536)
    (hr : r ≤ 255) (hfid : fid < 65536) (hi0 : i ≠ 0) (hi : i ≤ 255)
    (hpk : (pollFrame fid r).pack = .ok pk) (hpk' : (pollReply fid r 0).pack = .ok pk')
    (hpq : (reqFrame fid i 0).pack = .ok pq) (hpq' : (respFrame fid i a).pack = .ok pq')
    (Hb : ∀ s2 sW s3, nexec (makeContact 0) s = (.ok [0], s2) →
      nexec (nodeWrite F 0 TX_PHYSICAL) (s2.withFrame (reqFrame fid i 0)) = (.ok true, sW) →
      nexec (netUpdate F 0) sW = (.ok MESH_ADDR_RESPONSE, s3) → AfterRequest s L Pm Px m x fid i a s3 →
      ∃ s4, nexec (begin a) s3 = (.ok (), s4) ∧ s4.node.a.addr = a ∧ s4.node.nodeId = i ∧ P4 s4)
    (Hc : ∀ s4, P4 s4 → ∃ s5, nexec (meshLookupNodeId (some (a : Int))) s4 = (.ok (i : Int), s5) ∧ P5 s5) :
    ∃ s5, nexec (requestAddress 0) s = (.ok true, s5) ∧ P5 s5 := by
  obtain ⟨s2, sW, s3, eP, c2, n2, bx2, eW, eN, hAR⟩ := frames_1_4 s L Pm Px m x fid r i a Am Ax pk pk' pq pq'
    hlen hm hx hmx hcur hact hclosed hfaults hridm hridx hridne hNm hNx hfm hfx hdupm hdupx harrm harrx hAm hAx
    hxfid hxres hxid hxaddr hxret hxcfg hkind hid hmaddr hmret hmmc hmpar hdo hmcfg hfind ha hr hfid hi0 hi
    hpk hpk' hpq hpq'
  have s2node : s2.node = s2.nodeAt x := by rw [node_eq_nodeAt, c2]
  have s2fb : s2.node.frameBuf = pollReply fid r 0 := by
    have : s2.node.frameBuf = (s2.nodeAt x).body.frameBuf := by rw [s2node]; rfl
    rw [this, bx2]
  have s2id : s2.node.nodeId = i := by
    have : s2.node.nodeId = (s2.nodeAt x).body.nodeId := by rw [s2node]; rfl
    rw [this, bx2]; exact hxid
  obtain ⟨s4, eB, hb1, hb2, hP4⟩ := Hb s2 sW s3 eP eW eN hAR
  obtain ⟨s5, eC, hP5⟩ := Hc s4 hP4
  have s3node : s3.node = s3.nodeAt x := by rw [node_eq_nodeAt, hAR.cur]
  have s3fb : s3.node.frameBuf = respFrame fid i a := by
    have : s3.node.frameBuf = (s3.nodeAt x).body.frameBuf := by rw [s3node]; rfl
    rw [this, hAR.joiner]
  have s3id : s3.node.nodeId = i := by
    have : s3.node.nodeId = (s3.nodeAt x).body.nodeId := by rw [s3node]; rfl
    rw [this, hAR.joiner]; exact hxid
  refine ⟨s5, ?_, hP5⟩
  unfold requestAddress
  rw [nexec_bind, eP]
  simp only [List.isEmpty_cons, Bool.false_eq_true, if_false]
  exact request_loop_flow s2 sW s3 s4 s5 fid i a ha (by rw [s2fb]; rfl) s2id eW eN s3fb s3id eB hb1 hb2 eC

end Nrf.Net.Join
