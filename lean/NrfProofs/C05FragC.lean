/-
C05 helper lemmas, part 9 (fragmented messages end to end, closed system), C: the fragment loop.

* `rfSend_frag` — one `self._rf24.send(fragment)` of the node layer: at its scheduling point the receiver
  drains the fragment sent before (if any) into its reassembly cache, then the new fragment is sent,
  acknowledged and stored; it is no repetition of the previous one, so the radio's duplicate filter stays
  silent.  The RX FIFO of the receiver therefore never holds more than one fragment.
* `sendFrags_closed` — induction over the fragment plan (`Spec/Delivery.lean: sendFrags`): every `send`
  succeeds at once (no 2 ms pauses, no `_tx_standby` rounds); afterwards the receiver's queue object has
  been fed all fragments but the last, which waits in its RX FIFO.
* `hop_frag` / `nodeWrite_frag` — `_write_to_pipe` and `_write(to, TX_NORMAL)` of a message longer than
  24 bytes to a direct neighbour.
-/
import NrfProofs.C05FragB

namespace Nrf.Net
open Nrf Nrf.Spec Nrf.Proofs

/-- the payload `pl` is what a receiver with address `me` unpacks to the frame `g`, addressed to it -/
def FragOk (me : Nat) (pl : Bytes) (g : Frame) : Prop :=
  1 ≤ pl.length ∧ pl.length ≤ 32 ∧ (∀ f0 : Frame, f0.unpack pl = (g, true)) ∧ g.header.toNode = me ∧
  isValid g.header.toNode = true ∧ isValid g.header.fromNode = true

/-- a plan (header shown in `frame_buf`, payload, frame as received) whose frames all are for `me`, every
    frame differs from the one before (`pv` before the first), and all but the last are FIRST or MORE
    fragments -/
def PlanOk (me : Nat) : Option Frame → List (Header × Bytes × Frame) → Prop
  | _, [] => True
  | pv, (_, pl, g) :: rest =>
    pv ≠ some g ∧ FragOk me pl g ∧
    (rest ≠ [] → g.header.ty = MSG_FRAG_FIRST ∨ g.header.ty = MSG_FRAG_MORE) ∧ PlanOk me (some g) rest

theorem feed_append (q : NetQueue) (l1 l2 : List Frame) : feed q (l1 ++ l2) = feed (feed q l1) l2 := by
  unfold feed; rw [List.foldl_append]

theorem feed_frag (q : NetQueue) (l : List Frame) : (feed q l).frag = q.frag := by
  induction l generalizing q with
  | nil => rfl
  | cons g l ih =>
    show (feed (q.enqueue g).1 l).frag = _
    rw [ih, enqueue_frag]

/-- `fragRetry` after a successful `send`: nothing to retry -/
theorem fragRetry_true (f n : Nat) (s : NetState) : nexec (fragRetry (f + 1) n true) s = (.ok true, s) := by
  rw [fragRetry.eq_2]
  simp

section
variable {L : LinkCfg} {Pa Pb : List Bytes} {A : Bytes} {p a b : Nat} {s0 s : NetState} {q : NetQueue}

/-- **One `send` of the fragment loop** (see the head of the file). -/
theorem rfSend_frag (hc : L3Contracts) (E : FragEnv L Pb A p a b s0) {ce : Bool} (prev : Option (Bytes × Frame))
    {last : Option Bytes}
    (h : FragSt L Pa Pb A p a b s0 s (false, ce, 0x3F) (prev.map (·.1)) last q) (buf : Bytes) (f : Nat)
    (hprev : ∀ x, prev = some x → FragOk (s0.nodeAt b).a.addr x.1 x.2 ∧
      (x.2.header.ty = MSG_FRAG_FIRST ∨ x.2.header.ty = MSG_FRAG_MORE))
    (hl1 : 1 ≤ buf.length) (hl32 : buf.length ≤ 32) (hdup : last ≠ some buf)
    (hfuel : s0.nodes.length + b + 8 ≤ f) :
    ∃ s', nexec (rfSend (f + 1) buf) s = (.ok true, s') ∧
      FragSt L Pa Pb A p a b s0 s' (false, true, 0x3F) (some buf) (some buf) (feed q (prev.toList.map (·.2))) := by
  rw [rfSend.eq_2, nexec_bind, nexec_get]
  simp only [h.closed, if_true]
  cases prev with
  | none =>
    rw [nexec_bind, runOthers_quiet0 s (h.quiet E) f (by rw [h.len]; omega)]
    simp only []
    obtain ⟨s', e, hs'⟩ := FragSt.send hc E h buf hl1 hl32 hdup
    rw [nexec_bind, e]
    exact ⟨s', rfl, hs'⟩
  | some x =>
    obtain ⟨p0, g0⟩ := x
    obtain ⟨⟨k1, k32, kun, kto, kvt, kvf⟩, kty⟩ := hprev (p0, g0) rfl
    obtain ⟨g, rfl⟩ : ∃ g, f = g + 1 + b := ⟨f - 1 - b, by omega⟩
    obtain ⟨s1, e1, h1⟩ := FragSt.drain hc E (p0 := p0) h g0 g k1 k32 kun kto kvt kvf kty (by omega)
    rw [nexec_bind, e1]
    simp only []
    obtain ⟨s', e, hs'⟩ := FragSt.send hc E h1 buf hl1 hl32 hdup
    rw [nexec_bind, e]
    exact ⟨s', rfl, hs'⟩

/-- **The fragment loop in the closed system** (see the head of the file): `prev` = the fragment sent just
    before the plan `tr` starts (none at the start of a message); `last` = the bytes of the packet the
    receiver's radio accepted last — `prev`'s payload inside a message, and at the start of a message
    anything but the payload of the first fragment (the radio's duplicate filter must stay silent). -/
theorem sendFrags_closed (hc : L3Contracts) (E : FragEnv L Pb A p a b s0) :
    ∀ (tr : List (Header × Bytes × Frame)) (f : Nat) (s : NetState) (ce : Bool) (prev : Option (Bytes × Frame))
      (last : Option Bytes) (q : NetQueue), tr ≠ [] →
    FragSt L Pa Pb A p a b s0 s (false, ce, 0x3F) (prev.map (·.1)) last q →
    (∀ x, prev = some x → last = some x.1) →
    (prev = none → ∀ t, tr.head? = some t → last ≠ some t.2.1) →
    (∀ x, prev = some x → FragOk (s0.nodeAt b).a.addr x.1 x.2 ∧
      (x.2.header.ty = MSG_FRAG_FIRST ∨ x.2.header.ty = MSG_FRAG_MORE)) →
    PlanOk (s0.nodeAt b).a.addr (prev.map (·.2)) tr → s0.nodes.length + b + 10 + tr.length ≤ f →
    ∃ s' x, tr.getLast? = some x ∧
      nexec (sendFrags f (tr.map fun t => (t.1, t.2.1))) s = (.ok true, s') ∧
      FragSt L Pa Pb A p a b s0 s' (false, true, 0x3F) (some x.2.1) (some x.2.1)
        (feed q (prev.toList.map (·.2) ++ (tr.map (·.2.2)).dropLast)) := by
  intro tr
  induction tr with
  | nil => intro _ _ _ _ _ _ h; exact absurd rfl h
  | cons t rest ih =>
    intro f s ce prev last q _ h hlast hfirst hprev hplan hfuel
    obtain ⟨hd, pl, g⟩ := t
    obtain ⟨hne, hok, hfm, hrest⟩ := hplan
    obtain ⟨k1, k32, kun, kto, kvt, kvf⟩ := hok
    obtain ⟨f2, rfl⟩ : ∃ f2, f = f2 + 2 := ⟨f - 2, by simp only [List.length_cons] at hfuel; omega⟩
    simp only [List.length_cons] at hfuel
    -- the header of this fragment is shown in `frame_buf`
    have h1 := h.setNode E (fun n => { n with frameBuf := { n.frameBuf with header := hd } }) (fun _ => ⟨rfl, rfl⟩)
    -- the send
    have hdup : last ≠ some pl := by
      cases prev with
      | none => exact hfirst rfl (hd, pl, g) rfl
      | some x =>
        intro e
        obtain ⟨⟨_, _, jun, _⟩, _⟩ := hprev x rfl
        rw [hlast x rfl] at e
        simp only [Option.some.injEq] at e
        have := (jun default).symm.trans (e ▸ kun default)
        simp only [Prod.mk.injEq, and_true] at this
        apply hne
        simp only [Option.map_some, this]
    obtain ⟨s2, e2, h2⟩ := rfSend_frag hc E prev h1 pl f2 hprev k1 k32 hdup (by omega)
    have step : nexec (sendFrags (f2 + 2) (((hd, pl, g) :: rest).map fun t => (t.1, t.2.1))) s =
        if (rest.map fun t => (t.1, t.2.1)).isEmpty = true then (.ok true, s2)
        else nexec (sendFrags (f2 + 1) (rest.map fun t => (t.1, t.2.1))) s2 := by
      rw [List.map_cons, sendFrags]
      simp only [nexec_bind, nexec_setHdr, e2, fragRetry_true, Bool.not_true, Bool.false_eq_true, if_false,
        nexec_ite, nexec_pure]
    rw [step]
    cases rest with
    | nil =>
      refine ⟨s2, (hd, pl, g), rfl, by simp, ?_⟩
      simpa using h2
    | cons y ys =>
      have hne' : ¬ ((List.map (fun t : Header × Bytes × Frame => (t.1, t.2.1)) (y :: ys)).isEmpty = true) := by simp
      rw [if_neg hne']
      obtain ⟨s', x, hx, ex, hs'⟩ := ih (f2 + 1) s2 true (some (pl, g)) (some pl) _ (by simp) h2
        (by intro x hx; cases hx; rfl) (fun e => nomatch e)
        (by
          intro x hx
          simp only [Option.some.injEq] at hx
          subst hx
          exact ⟨⟨k1, k32, kun, kto, kvt, kvf⟩, hfm (by simp)⟩)
        hrest (by simp only [List.length_cons] at hfuel ⊢; omega)
      refine ⟨s', x, by rw [List.getLast?_cons_cons]; exact hx, ex, ?_⟩
      have : feed q (prev.toList.map (·.2) ++ (((hd, pl, g) :: y :: ys).map (·.2.2)).dropLast) =
          feed (feed q (prev.toList.map (·.2)))
            ((some (pl, g)).toList.map (·.2) ++ ((y :: ys).map (·.2.2)).dropLast) := by
        rw [← feed_append]
        rfl
      rw [this]
      exact hs'

end

end Nrf.Net
