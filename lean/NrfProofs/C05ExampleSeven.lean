/-
A concrete tree network of SEVEN nodes, depth 3, with branching at two levels —

        0o0 ─┬─ 0o1 ─┬─ 0o11 ── 0o111
             │       └─ 0o21
             └─ 0o2 ─── 0o12

(node index / radio index 0..6 in the order 0o0, 0o1, 0o2, 0o11, 0o21, 0o12, 0o111) — built by RUNNING THE MODEL'S
CONSTRUCTORS (`construct .network rid addr`, one node after the other, each on its own default chip), then the clock
and the SPI counter reset to 0 (as in the other `Example` states).  Nothing is copied by hand.  For the all-pairs
instance theorem of fragmented messages (`C05_route_frag_all_pairs_instance_partial`).
-/
import NrfProofs.C05Example3

namespace Nrf.Net.Example
open Nrf Nrf.Net Nrf.Spec Nrf.Proofs Nrf.Props.C04

/-- node `i` is tree node `tree7 i` (root-first digit paths) -/
def tree7 : Nat → List Nat
  | 0 => []
  | 1 => [1]
  | 2 => [2]
  | 3 => [1, 1]
  | 4 => [1, 2]
  | 5 => [2, 1]
  | 6 => [1, 1, 1]
  | n + 7 => [5, 5, 5, 5 - (n % 4)]   -- never used: there are seven nodes

/-- run the constructor of node `i` (a full `RF24Network` node on radio `i`) in state `s` -/
def constructed (s : NetState) (i : Nat) : NetState :=
  let s' := (nexec (construct .network i (val (tree7 i))) { s with cur := i, active := [i] }).2
  { s' with active := [] }

/-- the seven nodes constructed one after the other on seven default chips; node `a` about to call `write()` -/
def sevenAt (a : Nat) : NetState :=
  let s0 : NetState := { nodes := List.replicate 7 {}, closed := true,
                         w := { radios := List.replicate 7 default, busyUntil := List.replicate 7 0 } }
  let s := (List.range 7).foldl constructed s0
  { s with cur := a, active := [a], w := { s.w with clock := 0, spiCount := 0 } }

/-- index of the node with tree address `p` -/
def idx7 (p : List Nat) : Nat := ((List.range 7).find? fun j => decide (tree7 j = p)).getD 7

/-- the node polled after `write()`: the first hop -/
def hop7 (a d : Nat) : Nat := idx7 (nextHopSpec (tree7 a) (tree7 d))

/-- the radios a fragment is sent from on its way: origin, then the routers in route order -/
def rids7 (a d : Nat) : List Nat :=
  (List.range (dist (tree7 a) (tree7 d))).map fun k => idx7 (hops k (tree7 a) (tree7 d))

end Nrf.Net.Example
