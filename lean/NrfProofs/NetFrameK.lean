/-
Frame reasoning for the node layer (`NrfModel/Net/Node.lean`).

`Frame K W s0 s`: the state `s` was reached from `s0` by code running *as* node `s0.cur` — possibly
with other nodes running `update()` in between (closed system) — in such a way that

* the running node, the call stack (`active`), the number of nodes, the open/closed flag are the same;
* every *other* node on the call stack is bit-for-bit unchanged (its saved clock included);
* the running node changed only as `K` allows;  * the world changed only as `W` allows.

Main results: every function of the mutual block respects `Frame ⊤ clockLe` (`frameAll`): code of
one node never touches another active node, never moves its own clock backwards, never changes
the number of radios; `runOthers` respects `Frame K W` for every `K` that tolerates a change of
the saved clock (`runOthers_frame`): letting the other nodes run changes nothing of the running node.
-/
import NrfProofs.NetExecK
import NrfProofs.DrvPresK

namespace Nrf.NetK
open Nrf Nrf.Net

/-- every run of `m` from a state satisfying `I` ends (normally or with an exception) in a state
    satisfying `I` -/
structure NPres {α} (I : NetState → Prop) (m : NetM α) : Prop where
  run : ∀ s, I s → I (nexec m s).2

section rules
variable {I : NetState → Prop}

theorem NPres.pure {α} (a : α) : NPres I (pure a : NetM α) := ⟨fun _ h => h⟩
theorem NPres.throw {α} (e : PyErr) : NPres I (throw e : NetM α) := ⟨fun _ h => h⟩
theorem NPres.get : NPres I (get : NetM NetState) := ⟨fun _ h => h⟩
theorem NPres.getNode : NPres I getNode := ⟨fun _ h => h⟩
theorem NPres.nowNs : NPres I nowNs := ⟨fun _ h => h⟩
theorem NPres.liftPy {α} (x : PyM α) : NPres I (liftPy x) := by
  constructor; intro s h; cases x <;> exact h

theorem NPres.bind {α β} {m : NetM α} {f : α → NetM β}
    (h1 : NPres I m) (h2 : ∀ a, NPres I (f a)) : NPres I (m >>= f) := by
  constructor
  intro s hs
  rw [nexec_bind]
  have := h1.run s hs
  rcases hm : nexec m s with ⟨r, s'⟩
  rw [hm] at this
  cases r with
  | error e => exact this
  | ok a => exact (h2 a).run s' this

theorem NPres.ite {α} {c : Prop} [Decidable c] {a b : NetM α}
    (h1 : NPres I a) (h2 : NPres I b) : NPres I (if c then a else b) := by
  split <;> assumption

theorem NPres.tryCatch {α} {m : NetM α} {h : PyErr → NetM α}
    (h1 : NPres I m) (h2 : ∀ e, NPres I (h e)) : NPres I (tryCatch m h) := by
  constructor
  intro s hs
  rw [nexec_tryCatch]
  have := h1.run s hs
  rcases hm : nexec m s with ⟨r, s'⟩
  rw [hm] at this
  cases r with
  | error e => exact (h2 e).run s' this
  | ok a => exact this

theorem NPres.pipeAddr (a p : Nat) : NPres I (pipeAddr a p) := by
  unfold Net.pipeAddr
  exact NPres.bind NPres.getNode (fun _ => NPres.liftPy _)

theorem NPres.forIn_list {α β} (l : List α) (f : α → β → NetM (ForInStep β))
    (hf : ∀ a b, NPres I (f a b)) : ∀ init, NPres I (forIn l init f) := by
  induction l with
  | nil => intro init; exact NPres.pure _
  | cons a l ih =>
    intro init
    rw [List.forIn_cons]
    refine NPres.bind (hf a init) ?_
    intro r
    cases r with
    | done b => exact NPres.pure _
    | yield b => exact ih b

end rules

/-- decompose a `do` block along binds / ifs / matches; close the leaves with the given lemmas -/
syntax "npres" "[" term,* "]" : tactic
macro_rules
  | `(tactic| npres [$ts,*]) => `(tactic| repeat' (first
      | with_reducible apply NPres.bind
      | intro _
      | with_reducible apply NPres.ite
      | with_reducible exact NPres.pure _ | with_reducible exact NPres.throw _
      | with_reducible exact NPres.getNode | with_reducible exact NPres.get
      | with_reducible exact NPres.nowNs | with_reducible exact NPres.liftPy _
      | with_reducible exact NPres.pipeAddr _ _
      $[| with_reducible exact $ts]*
      | with_reducible apply NPres.tryCatch
      | split
      | (dsimp only)))

/-! ### the frame relation -/

/-- what may happen to the running node -/
structure NodeRel (K : Node → Node → Prop) : Prop where
  refl : ∀ n, K n n
  trans : ∀ a b c, K a b → K b c → K a c
  rf : ∀ n r, K n { n with rf := r }
  clock : ∀ n c, K n { n with clock := c }
  arrivals : ∀ n a, K n { n with arrivals := a }

/-- no restriction on the running node -/
def anyNode : Node → Node → Prop := fun _ _ => True

theorem anyNode_all : ∀ a b, anyNode a b := fun _ _ => trivial

theorem anyNode_rel : NodeRel anyNode :=
  ⟨fun _ => trivial, fun _ _ _ _ _ => trivial, fun _ _ => trivial, fun _ _ => trivial, fun _ _ => trivial⟩

/-- the call is running as an existing node that is on the call stack -/
structure Good (s : NetState) : Prop where
  onStack : s.cur ∈ s.active
  exists_ : s.cur < s.nodes.length

structure Frame (K : Node → Node → Prop) (W : World → World → Prop) (s0 s : NetState) : Prop where
  cur : s.cur = s0.cur
  active : s.active = s0.active
  len : s.nodes.length = s0.nodes.length
  closed : s.closed = s0.closed
  others : ∀ j, j ∈ s0.active → j ≠ s0.cur → s.nodes.getD j default = s0.nodes.getD j default
  me : K (curNode s0) (curNode s)
  world : W s0.w s.w

theorem Frame.refl {K W} (hK : NodeRel K) (hW : WorldRel W) (s : NetState) : Frame K W s s :=
  ⟨rfl, rfl, rfl, rfl, fun _ _ _ => rfl, hK.refl _, hW.refl _⟩

theorem Frame.trans {K W} (hK : NodeRel K) (hW : WorldRel W) {a b c : NetState}
    (h1 : Frame K W a b) (h2 : Frame K W b c) : Frame K W a c :=
  ⟨h2.cur.trans h1.cur, h2.active.trans h1.active, h2.len.trans h1.len, h2.closed.trans h1.closed,
   fun j hj hne => (h2.others j (h1.active ▸ hj) (h1.cur ▸ hne)).trans (h1.others j hj hne),
   hK.trans _ _ _ h1.me h2.me, hW.trans _ _ _ h1.world h2.world⟩

theorem Frame.good {K W} {s0 s : NetState} (h : Frame K W s0 s) (g : Good s0) : Good s :=
  ⟨by rw [h.cur, h.active]; exact g.onStack, by rw [h.cur, h.len]; exact g.exists_⟩

theorem Frame.hasCur {K W} {s0 s : NetState} (h : Frame K W s0 s) (g : Good s0) : HasCur s :=
  (h.good g).exists_

theorem getD_modify_ne (l : List Node) (i j : Nat) (f : Node → Node) (h : j ≠ i) :
    (l.modify i f).getD j default = l.getD j default := by
  simp only [List.getD_eq_getElem?_getD, List.getElem?_modify]
  have : ¬ i = j := fun e => h e.symm
  simp [this]

theorem getD_modify_self (l : List Node) (i : Nat) (f : Node → Node) (h : i < l.length) :
    (l.modify i f).getD i default = f (l.getD i default) := by
  simp [List.getD_eq_getElem?_getD, List.getElem?_modify, h]

/-- a change of the running node that `K` allows, and of the world that `W` allows, keeps the frame -/
theorem Frame.step {K W} (hK : NodeRel K) (hW : WorldRel W) {s0 s : NetState} (g : Good s0)
    (h : Frame K W s0 s) (f : Node → Node) (hf : K (curNode s) (f (curNode s))) (w' : World)
    (hw : W s.w w') (nid : Nat) :
    Frame K W s0 { s with nodes := s.nodes.modify s.cur f, w := w', nextId := nid } := by
  have hc := h.hasCur g
  refine ⟨h.cur, h.active, by simp [h.len], h.closed, ?_, ?_, hW.trans _ _ _ h.world hw⟩
  · intro j hj hne
    show (s.nodes.modify s.cur f).getD j default = _
    rw [getD_modify_ne _ _ _ _ (by rw [h.cur]; exact hne)]
    exact h.others j hj hne
  · show K (curNode s0) ((s.nodes.modify s.cur f).getD s.cur default)
    rw [getD_modify_self _ _ _ hc]
    exact hK.trans _ _ _ h.me hf

/-- the primitives of the node layer, for an invariant of the form `Frame K W s0` -/
structure NetStable (K : Node → Node → Prop) (I : NetState → Prop) : Prop where
  modNode : ∀ f : Node → Node, (∀ n, K n (f n)) → NPres I (Net.modNode f)
  liftRf : ∀ {α} (m : DrvM α), (∀ J, DrvStable J → DPres J m) → NPres I (Net.liftRf m)
  sleep : ∀ n, NPres I (Net.sleepNs n)
  takeId : NPres I Net.takeId
  deliverDue : NPres I Net.deliverDue

theorem foldl_inject_rel {W} (hW : WorldRel W) (rid : Nat) :
    ∀ (l : List (Nat × Nat × Bytes)) (w : World),
      W w (l.foldl (fun w a => w.inject rid a.2.1 a.2.2) w) := by
  intro l
  induction l with
  | nil => intro w; exact hW.refl _
  | cons a l ih =>
    intro w
    simp only [List.foldl_cons]
    exact hW.trans _ _ _ (hW.inject _ _ _ _) (ih _)

theorem frame_stable {K W} (hK : NodeRel K) (hW : WorldRel W) {s0 : NetState} (g : Good s0) :
    NetStable K (Frame K W s0) := by
  refine ⟨?_, ?_, ?_, ?_, ?_⟩
  · intro f hf
    constructor
    intro s hs
    rw [nexec_modNode]
    have := Frame.step hK hW g hs f (hf _) s.w (hW.refl _) s.nextId
    exact this
  · intro α m hm
    constructor
    intro s hs
    rw [nexec_liftRf]
    have hd := (hm _ (stable_world hW s.w (curNode s).rf.rid)).run (drvOf s) ⟨hW.refl _, rfl⟩
    have := Frame.step hK hW g hs (fun n => { n with rf := (exec m (drvOf s)).2.d })
      (hK.rf _ _) (exec m (drvOf s)).2.w hd.1 s.nextId
    exact this
  · intro n
    constructor
    intro s hs
    rw [nexec_sleepNs]
    have := Frame.step hK hW g hs id (hK.refl _) (s.w.sleep n) (hW.sleep _ _) s.nextId
    simpa using this
  · constructor
    intro s hs
    rw [nexec_takeId]
    have := Frame.step hK hW g hs id (hK.refl _) s.w (hW.refl _) ((s.nextId + 1) &&& 0xFFFF)
    simpa using this
  · constructor
    intro s hs
    unfold Net.deliverDue
    simp only [nexec_bind, nexec_get, nexec_set]
    exact Frame.step hK hW g hs _ (hK.arrivals _ _) _ (foldl_inject_rel hW _ _ _) s.nextId

theorem NetStable.setHdr {K I} (h : NetStable K I) (f : Header → Header)
    (hf : ∀ n : Node, K n { n with frameBuf := { n.frameBuf with header := f n.frameBuf.header } }) :
    NPres I (Net.setHdr f) := h.modNode _ hf

end Nrf.NetK
