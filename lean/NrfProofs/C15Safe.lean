/-
C15 — what the `RF24` methods other than `send` / `resend` do to the parts of the world that are
not configuration: as long as the radio has nothing to transmit (`TxQ`: TX FIFO empty, or MAX_RT
latched) no SPI command the network layer issues outside `send` / `resend` starts a transmission,
so: the air log is unchanged, the RX FIFO only shrinks, the clock only advances, `TxQ` persists.
Proved once for every program built from "safe" primitives (`SafeProg`), then for the methods.
-/
import NrfProofs.C07Frame

namespace Nrf
open Rf24 Nrf.Net

/-- the transmitter is idle and will stay so: nothing to send, or MAX_RT latched; no ACK
    payload sits in the TX FIFO; and the TX FIFO holds what the chip can hold (three levels —
    without this bound `resend()` does not re-establish the first clause:
    `tools/c15_contract_counterexamples.lean`, CE2 / CE3) -/
def TxQ (r : Radio) : Prop :=
  (r.txFifo = [] ∨ r.flags &&& 0x10 ≠ 0) ∧ (∀ e ∈ r.txFifo, e.kind = TxKind.payload) ∧
    r.txFifo.length ≤ 3

theorem txq_default : TxQ (default : Radio) := ⟨Or.inl rfl, fun _ h => (by cases h), Nat.zero_le _⟩

theorem tryTransmit_idle (j f : Nat) (w : World)
    (h : (w.radio j).txFifo = [] ∨ (w.radio j).flags &&& 0x10 ≠ 0) : World.tryTransmit j f w = w := by
  cases f with
  | zero => rfl
  | succ f =>
    unfold World.tryTransmit
    dsimp only
    rcases h with h | h
    · split
      · rw [h]
      · rfl
    · have : ((w.radio j).txMode && decide ((w.radio j).flags &&& 0x10 = 0)) = false := by simp [h]
      rw [this]; rfl

/-- commands that leave an idle transmitter idle, only shrink the RX FIFO -/
def SafeCmd (out : Bytes) : Prop :=
  out ≠ [] ∧ ∀ r : Radio, TxQ r → TxQ (r.xfer out).1 ∧ (r.xfer out).1.rxFifo <:+ r.rxFifo ∧
    (r.xfer out).1.flags &&& 0x10 = r.flags &&& 0x10

theorem safeCmd_read (reg : Nat) (d : Bytes) (h : reg < 0x20) : SafeCmd (reg :: d) := by
  refine ⟨by simp, ?_⟩
  intro r hq; rw [xfer_rreg_cfg r reg d h]; exact ⟨hq, List.suffix_refl _, rfl⟩

/-- W_REGISTER to anything but STATUS -/
theorem safeCmd_wreg (reg : Nat) (d : Bytes) (h : reg < 0x20) (h7 : reg ≠ 7) : SafeCmd ((0x20 ||| reg) :: d) := by
  refine ⟨by simp, ?_⟩
  intro r hq
  unfold Radio.xfer
  simp only [decodeCmd_w reg h, Radio.runCmd]
  split
  · exact ⟨hq, List.suffix_refl _, rfl⟩
  · have : (r.writeReg reg d).txFifo = r.txFifo ∧ (r.writeReg reg d).flags = r.flags ∧
        (r.writeReg reg d).rxFifo = r.rxFifo := by
      unfold Radio.writeReg
      split <;> first | exact ⟨rfl, rfl, rfl⟩ | omega | (split <;> exact ⟨rfl, rfl, rfl⟩)
    obtain ⟨a, b, c⟩ := this
    exact ⟨by unfold TxQ; rw [a, b]; exact hq, by rw [c]; exact List.suffix_refl _, by rw [b]⟩

/-- W_REGISTER STATUS that does not clear MAX_RT -/
theorem safeCmd_status (v : Nat) (hv : v &&& 0x10 = 0) : SafeCmd [0x27, v] := by
  refine ⟨by simp, ?_⟩
  intro r hq
  have e : (0x27 : Nat) = 0x20 ||| 7 := by decide
  rw [e, xfer_wreg_cfg r 7 v (by decide)]
  have hf : (r.writeReg 7 [v]).flags &&& 0x10 = r.flags &&& 0x10 := by
    show (r.flags &&& (0x70 ^^^ (v &&& 0x70))) &&& 0x10 = r.flags &&& 0x10
    rw [Nat.and_assoc]
    congr 1
    apply Nat.eq_of_testBit_eq
    intro i
    have hb : (v &&& 0x10).testBit i = false := by rw [hv]; simp
    simp only [Nat.testBit_and, Nat.testBit_xor] at hb ⊢
    by_cases h4 : i = 4
    · subst h4
      have : (16 : Nat).testBit 4 = true := by decide
      have h70 : (112 : Nat).testBit 4 = true := by decide
      rw [this] at hb
      simp only [Bool.and_true] at hb
      simp [this, h70, hb]
    · have : (16 : Nat).testBit i = false := by
        have : (16 : Nat) = 2 ^ 4 := by decide
        rw [this, Nat.testBit_two_pow]
        simp; omega
      simp [this]
  refine ⟨⟨?_, hq.2⟩, List.suffix_refl _, hf⟩
  rcases hq.1 with h | h
  · exact Or.inl h
  · right
    show (r.writeReg 7 [v]).flags &&& 0x10 ≠ 0
    rw [hf]; exact h

theorem safeCmd_cmd (c : Nat) (d : Bytes) (h : c = 0x60 ∨ c = 0x61 ∨ c = 0xE1 ∨ c = 0xE2 ∨ c = 0xFF) :
    SafeCmd (c :: d) := by
  refine ⟨by simp, ?_⟩
  intro r hq
  rcases h with rfl | rfl | rfl | rfl | rfl
  · exact ⟨hq, List.suffix_refl _, rfl⟩
  · unfold Radio.xfer
    have : Radio.decodeCmd 0x61 = .rRxPayload := by decide
    simp only [this, Radio.runCmd]
    unfold Radio.readPayload
    split
    · exact ⟨hq, List.suffix_refl _, rfl⟩
    · rename_i e rest he
      exact ⟨hq, by simp only; rw [he]; exact List.suffix_cons _ _, rfl⟩
  · exact ⟨⟨Or.inl rfl, fun _ h => (by cases h), Nat.zero_le _⟩, List.suffix_refl _, rfl⟩
  · exact ⟨hq, List.nil_suffix, rfl⟩
  · exact ⟨hq, List.suffix_refl _, rfl⟩

/-- the transmitter is idle, the driver's cached status byte shows a latched MAX_RT (so the
    next `send()` flushes the stale payload), and every payload in the RX FIFO is tagged with a
    pipe number 0..5 (so that the RX_P_NO field of STATUS stays within its three bits and
    `send()` does not mistake it for TX_DS / MAX_RT: `tools/c15_contract_counterexamples.lean`, CE1) -/
def TxS (s : DrvState) : Prop :=
  TxQ (s.w.radio s.d.rid) ∧ ((s.w.radio s.d.rid).flags &&& 0x10 ≠ 0 → s.d.status &&& 0x10 ≠ 0) ∧
    ∀ e ∈ (s.w.radio s.d.rid).rxFifo, e.pipe ≤ 5

theorem status_bit4 (r : Radio) (h : r.flags &&& 0x10 ≠ 0) : r.status &&& 0x10 ≠ 0 := by
  unfold Radio.status
  intro h0
  apply h
  apply Nat.eq_of_testBit_eq
  intro i
  have := congrArg (fun x => Nat.testBit x i) h0
  simp only [Nat.testBit_and, Nat.testBit_or, Nat.zero_testBit] at this ⊢
  by_cases h4 : i = 4
  · subst h4
    have e1 : (16 : Nat).testBit 4 = true := by decide
    have e2 : (112 : Nat).testBit 4 = true := by decide
    rw [e1, e2] at this
    rw [e1]
    simp only [Bool.and_true, Bool.or_eq_false_iff] at this ⊢
    exact this.1.1
  · have : (16 : Nat).testBit i = false := by
      have : (16 : Nat) = 2 ^ 4 := by decide
      rw [this, Nat.testBit_two_pow]
      simp; omega
    simp [this]

/-- nothing transmitted, RX FIFO only shrunk, transmitter still idle, time not run backwards —
    relative to a state `s` with an idle transmitter (`TxS s`) -/
structure Prog (s s' : DrvState) : Prop where
  rid : s'.d.rid = s.d.rid
  clock : s.w.clock ≤ s'.w.clock
  txs : TxS s → TxS s'
  rxq : TxS s → (s'.w.radio s.d.rid).rxFifo <:+ (s.w.radio s.d.rid).rxFifo
  air : TxS s → s'.w.air = s.w.air
  flt : TxS s → s'.w.faults = s.w.faults
  /-- the shadows of DYNPD and FEATURE -/
  shd : s'.d.dynPl = s.d.dynPl ∧ s'.d.features = s.d.features

theorem Prog.refl (s : DrvState) : Prog s s :=
  ⟨rfl, Nat.le_refl _, id, fun _ => List.suffix_refl _, fun _ => rfl, fun _ => rfl, rfl, rfl⟩

theorem Prog.trans {a b c : DrvState} (h1 : Prog a b) (h2 : Prog b c) : Prog a c := by
  have e := h1.rid
  refine ⟨h2.rid.trans h1.rid, Nat.le_trans h1.clock h2.clock, fun h => h2.txs (h1.txs h), ?_, ?_, ?_,
    h2.shd.1.trans h1.shd.1, h2.shd.2.trans h1.shd.2⟩
  · intro h
    have := h2.rxq (h1.txs h); rw [e] at this
    exact List.IsSuffix.trans this (h1.rxq h)
  · intro h; exact (h2.air (h1.txs h)).trans (h1.air h)
  · intro h; exact (h2.flt (h1.txs h)).trans (h1.flt h)

theorem radio_default (w : World) (j : Nat) (h : ¬ j < w.radios.length) : w.radio j = default := by
  unfold World.radio
  rw [List.getD_eq_getElem?_getD, List.getElem?_eq_none (by omega)]
  rfl

/-- an SPI transaction with a safe command -/
theorem Prog.spi (s : DrvState) (out : Bytes) (hc : SafeCmd out) : Prog s (s.spiStep out) := by
  obtain ⟨hne, hc⟩ := hc
  have key : ∀ (w : World) (j : Nat), TxQ (w.radio j) →
      TxQ ((w.spi j out).1.radio j) ∧ ((w.spi j out).1.radio j).rxFifo <:+ (w.radio j).rxFifo ∧
      (w.spi j out).1.air = w.air ∧ (w.spi j out).1.faults = w.faults ∧
      ((w.spi j out).1.radio j).flags &&& 0x10 = (w.radio j).flags &&& 0x10 ∧
      (w.spi j out).2.headD 0 = (w.radio j).status := by
    intro w j hq
    unfold World.spi
    dsimp only
    have hr : ∀ (w' : World) (c n : Nat), ({ w' with clock := c, spiCount := n } : World).radio j = w'.radio j :=
      fun _ _ _ => rfl
    have hx := hc (w.radio j) hq
    have e1 : ((w.jump j).setRadio j ((w.jump j).radio j |>.xfer out).1).radio j
        = if j < w.radios.length then ((w.radio j).xfer out).1 else w.radio j := by
      rw [World.radio_setRadio]
      have : (w.jump j).radios.length = w.radios.length := rfl
      simp only [this, true_and]
      rfl
    have hidle : TxQ (({ ((w.jump j).setRadio j ((w.jump j).radio j |>.xfer out).1) with
        clock := (w.jump j).clock + SPI_COST_NS, spiCount := (w.jump j).spiCount + 1 } : World).radio j) := by
      rw [hr, e1]; split
      · exact hx.1
      · exact hq
    rw [tryTransmit_idle _ _ _ hidle.1]
    refine ⟨hidle, ?_, rfl, rfl, ?_, ?_⟩
    · rw [hr, e1]; split
      · exact hx.2.1
      · exact List.suffix_refl _
    · rw [hr, e1]; split
      · exact hx.2.2
      · rfl
    · show (((w.jump j).radio j).xfer out).2.headD 0 = (w.radio j).status
      cases out with
      | nil => exact absurd rfl hne
      | cons c d => rfl
  have hst : (s.spiStep out).d.status = (s.w.spi s.d.rid out).2.headD s.d.status := rfl
  have hhd : ∀ (l : Bytes) (a b : Nat), l ≠ [] → l.headD a = l.headD b := by
    intro l a b h; cases l with
    | nil => exact absurd rfl h
    | cons _ _ => rfl
  have hinb : (s.w.spi s.d.rid out).2 ≠ [] := by
    unfold World.spi
    dsimp only
    cases out with
    | nil => exact absurd rfl hne
    | cons c d => simp [Radio.xfer]
  refine ⟨rfl, ?_, ?_, fun h => (key _ _ h.1).2.1, fun h => (key _ _ h.1).2.2.1,
    fun h => (key _ _ h.1).2.2.2.1, rfl, rfl⟩
  · show s.w.clock ≤ (s.w.spi s.d.rid out).1.clock
    rw [spi_clock]; omega
  · intro h
    obtain ⟨k1, k2, _, _, k5, k6⟩ := key s.w s.d.rid h.1
    refine ⟨k1, ?_, fun e he => h.2.2 e (k2.subset he)⟩
    intro hf
    show (s.spiStep out).d.status &&& 0x10 ≠ 0
    rw [hst, hhd _ _ 0 hinb, k6]
    apply status_bit4
    have : ((s.spiStep out).w.radio (s.spiStep out).d.rid).flags &&& 0x10 = (s.w.radio s.d.rid).flags &&& 0x10 := k5
    rw [← this]; exact hf

theorem Prog.ce (s : DrvState) (v : Bool) : Prog s (s.ceStep v) := by
  have key : ∀ (w : World) (j : Nat), TxQ (w.radio j) →
      TxQ ((w.setCE j v).radio j) ∧ ((w.setCE j v).radio j).rxFifo <:+ (w.radio j).rxFifo ∧
      (w.setCE j v).air = w.air ∧ (w.setCE j v).faults = w.faults ∧
      ((w.setCE j v).radio j).flags = (w.radio j).flags := by
    intro w j hq
    unfold World.setCE
    dsimp only
    have e1 : ((w.jump j).setRadio j { (w.jump j).radio j with ce := v }).radio j
        = if j < w.radios.length then { w.radio j with ce := v } else w.radio j := by
      rw [World.radio_setRadio]
      have : (w.jump j).radios.length = w.radios.length := rfl
      simp only [this, true_and]
      rfl
    have hidle : TxQ (((w.jump j).setRadio j { (w.jump j).radio j with ce := v }).radio j) := by
      rw [e1]; split
      · exact hq
      · exact hq
    rw [tryTransmit_idle _ _ _ hidle.1]
    refine ⟨hidle, ?_, rfl, rfl, ?_⟩
    · rw [e1]; split <;> exact List.suffix_refl _
    · rw [e1]; split <;> rfl
  refine ⟨rfl, ?_, ?_, fun h => (key _ _ h.1).2.1, fun h => (key _ _ h.1).2.2.1,
    fun h => (key _ _ h.1).2.2.2.1, rfl, rfl⟩
  · show s.w.clock ≤ (s.w.setCE s.d.rid v).clock
    rw [setCE_clock]; omega
  · intro h
    obtain ⟨k1, k2, _, _, k5⟩ := key s.w s.d.rid h.1
    refine ⟨k1, ?_, fun e he => h.2.2 e (k2.subset he)⟩
    intro hf
    have : ((s.ceStep v).w.radio (s.ceStep v).d.rid).flags = (s.w.radio s.d.rid).flags := k5
    rw [this] at hf
    exact h.2.1 hf

theorem Prog.sleep (s : DrvState) (n : Nat) : Prog s (s.sleepStep n) :=
  ⟨rfl, by show s.w.clock ≤ s.w.clock + n; omega, id, fun _ => List.suffix_refl _, fun _ => rfl, fun _ => rfl,
   rfl, rfl⟩

theorem Prog.modShadow (s : DrvState) (f : Rf24 → Rf24) (hf : (f s.d).rid = s.d.rid)
    (hst : (f s.d).status = s.d.status) (hsh : (f s.d).dynPl = s.d.dynPl ∧ (f s.d).features = s.d.features) :
    Prog s (s.modShadow f) :=
  ⟨hf, Nat.le_refl _, fun h => by
      refine ⟨?_, ?_, ?_⟩
      · show TxQ (s.w.radio (f s.d).rid); rw [hf]; exact h.1
      · show (s.w.radio (f s.d).rid).flags &&& 0x10 ≠ 0 → (f s.d).status &&& 0x10 ≠ 0
        rw [hf, hst]; exact h.2.1
      · show ∀ e ∈ (s.w.radio (f s.d).rid).rxFifo, e.pipe ≤ 5
        rw [hf]; exact h.2.2,
    fun _ => List.suffix_refl _, fun _ => rfl, fun _ => rfl, hsh.1, hsh.2⟩

/-! ### programs made of safe steps -/

inductive SafeProg : {α : Type} → DrvM α → Prop
  | pure {α : Type} (a : α) : SafeProg (pure a : DrvM α)
  | bind {α β : Type} {x : DrvM α} {f : α → DrvM β} : SafeProg x → (∀ a, SafeProg (f a)) → SafeProg (x >>= f)
  | ite {α : Type} {c : Prop} [Decidable c] {a b : DrvM α} : SafeProg a → SafeProg b → SafeProg (if c then a else b)
  | throw {α : Type} (e : PyErr) : SafeProg (throw e : DrvM α)
  | getD : SafeProg Rf24.getD
  | modD (f : Rf24 → Rf24) : (∀ d, (f d).rid = d.rid ∧ (f d).status = d.status ∧ (f d).dynPl = d.dynPl ∧
      (f d).features = d.features) → SafeProg (Rf24.modD f)
  | nowNs : SafeProg Rf24.nowNs
  | sleepNs (n : Nat) : SafeProg (Rf24.sleepNs n)
  | setCE (v : Bool) : SafeProg (Rf24.setCE v)
  | xfer (out : Bytes) : SafeCmd out → SafeProg (Rf24.xfer out)

theorem SafeProg.sound {α : Type} {m : DrvM α} (h : SafeProg m) : ∀ s, Prog s (exec m s).2 := by
  induction h with
  | pure a => intro s; exact Prog.refl s
  | bind _ _ ih1 ih2 =>
    intro s
    rw [exec_bind]
    have h1 := ih1 s
    rcases hx : exec _ s with ⟨r, s'⟩
    rw [hx] at h1
    cases r with
    | error e => exact h1
    | ok a => exact h1.trans (ih2 a s')
  | ite _ _ ih1 ih2 =>
    intro s
    rw [exec_ite]
    split
    · exact ih1 s
    · exact ih2 s
  | throw e => intro s; exact Prog.refl s
  | getD => intro s; exact Prog.refl s
  | modD f hf => intro s; exact Prog.modShadow s f (hf _).1 (hf _).2.1 (hf _).2.2
  | nowNs => intro s; exact Prog.refl s
  | sleepNs n => intro s; exact Prog.sleep s n
  | setCE v => intro s; exact Prog.ce s v
  | xfer out hc => intro s; rw [exec_xfer]; exact Prog.spi s out hc

theorem safe_regRead (reg : Nat) (h : reg < 0x20) : SafeProg (regRead reg) := by
  unfold regRead
  exact .bind (.xfer _ (safeCmd_read _ _ h)) (fun _ => .pure _)

theorem safe_regWrite (reg : Nat) (v : Int) (h : reg < 0x20) (h7 : reg ≠ 7) : SafeProg (regWrite reg v) := by
  unfold regWrite
  have h50 : reg ≠ 0x50 := by omega
  have hx : SafeProg (xfer [(if reg ≠ 80 then 32 else 0) ||| reg, v.toNat]) := by
    simp only [h50, ne_eq, not_false_eq_true, ↓reduceIte]
    exact .xfer _ (safeCmd_wreg _ _ h h7)
  dsimp only
  apply SafeProg.ite
  · exact .bind (.throw _) (fun _ => .bind hx (fun _ => .pure _))
  · exact .bind hx (fun _ => .pure _)

theorem safe_regWriteBytes (reg : Nat) (b : Bytes) (h : reg < 0x20) (h7 : reg ≠ 7) : SafeProg (regWriteBytes reg b) := by
  unfold regWriteBytes
  exact .bind (.xfer _ (safeCmd_wreg _ _ h h7)) (fun _ => .pure _)

theorem safe_regCmd (c : Nat) (h : c = 0x60 ∨ c = 0x61 ∨ c = 0xE1 ∨ c = 0xE2 ∨ c = 0xFF) : SafeProg (regCmd c) := by
  unfold regCmd
  exact .bind (.xfer _ (safeCmd_cmd _ _ h)) (fun _ => .pure _)

macro "safe_prog" : tactic => `(tactic| repeat' (first
    | with_reducible exact SafeProg.pure _
    | with_reducible exact SafeProg.throw _
    | exact (SafeProg.throw _ : SafeProg (Rf24.raise _))
    | with_reducible exact SafeProg.setCE _
    | with_reducible exact SafeProg.getD
    | with_reducible exact SafeProg.nowNs
    | with_reducible exact SafeProg.sleepNs _
    | with_reducible exact safe_regWrite _ _ (by decide) (by decide)
    | with_reducible exact safe_regWriteBytes _ _ (by decide) (by decide)
    | with_reducible exact safe_regRead _ (by decide)
    | with_reducible exact safe_regCmd _ (by decide)
    | (with_reducible apply SafeProg.modD; intro _; exact ⟨rfl, rfl, rfl, rfl⟩)
    | with_reducible apply SafeProg.bind
    | intro _
    | with_reducible apply SafeProg.ite
    | split
    | dsimp only))

theorem safe_regReadBytes61 (n : Nat) : SafeProg (regReadBytes 0x61 n) := by
  unfold regReadBytes
  exact .bind (.xfer _ (safeCmd_cmd _ _ (by decide))) (fun _ => .pure _)

theorem safe_flushTx : SafeProg flushTx := safe_regCmd _ (by decide)

theorem safe_address (i : Int) : SafeProg (address i) := by
  unfold address
  safe_prog

theorem safe_assignPrefix (i : Nat) (a : Bytes) : SafeProg (assignPrefix i a) := by
  unfold assignPrefix
  have hs : ∀ (d : Rf24) (b : Bytes), (setPipes d i b).rid = d.rid ∧ (setPipes d i b).status = d.status ∧
      (setPipes d i b).dynPl = d.dynPl ∧ (setPipes d i b).features = d.features := by
    intro d b; unfold setPipes; split <;> exact ⟨rfl, rfl, rfl, rfl⟩
  refine .bind .getD (fun d => ?_)
  split
  · exact .modD _ (fun d => hs d _)
  · exact .bind (.modD _ (fun d => hs d _)) (fun _ => .throw _)

theorem safe_setListen (b : Bool) : SafeProg (setListen b) := by
  unfold setListen
  cases b <;> safe_prog <;>
    first | with_reducible exact safe_flushTx | with_reducible exact safe_address _
          | with_reducible exact safe_assignPrefix _ _

theorem safe_setAutoAck (v : Int) : SafeProg (setAutoAckAttr (.i v)) := by
  unfold setAutoAckAttr
  safe_prog

theorem safe_openTxPipe (a : Bytes) : SafeProg (openTxPipe a) := by
  unfold openTxPipe
  safe_prog <;> first | with_reducible exact safe_assignPrefix _ _ | (apply SafeProg.modD; intro _; exact ⟨rfl, rfl, rfl, rfl⟩)

theorem safe_setAutoRetries (d c : Int) : SafeProg (setAutoRetries d c) := by
  unfold setAutoRetries
  safe_prog

theorem safe_clearRx : SafeProg (clearStatusFlags true false false) := by
  unfold clearStatusFlags
  have : ((b2n true <<< 6 ||| b2n false <<< 5 ||| b2n false <<< 4 : Nat) : Int) = ((0x40 : Nat) : Int) := by decide
  rw [this]
  unfold regWrite
  have hx : SafeProg (xfer [(if (7 : Nat) ≠ 80 then 32 else 0) ||| 7, ((0x40 : Nat) : Int).toNat]) :=
    .xfer _ (safeCmd_status 0x40 (by decide))
  dsimp only
  apply SafeProg.ite
  · exact .bind (.throw _) (fun _ => .bind hx (fun _ => .pure _))
  · exact .bind hx (fun _ => .pure _)

theorem safe_any : SafeProg Rf24.any := by
  unfold Rf24.any
  refine .bind ?_ (fun _ => ?_)
  · unfold regRead
    exact .bind (.xfer _ (safeCmd_cmd _ _ (by decide))) (fun _ => .pure _)
  · safe_prog

theorem safe_read : SafeProg (Rf24.read none) := by
  unfold Rf24.read
  refine .bind safe_any (fun size => ?_)
  apply SafeProg.ite
  · exact .pure _
  · exact .bind (safe_regReadBytes61 _) (fun _ => .bind safe_clearRx (fun _ => .pure _))

theorem safe_available : SafeProg available := by
  unfold available update
  exact .bind (.bind (safe_regCmd _ (by decide)) (fun _ => .pure _)) (fun _ => .bind .getD (fun _ => .pure _))

theorem safe_openRxPipe (p : Nat) (hp : p ≤ 5) (a : Bytes) : SafeProg (openRxPipe (p : Int) a) := by
  have : p = 0 ∨ p = 1 ∨ p = 2 ∨ p = 3 ∨ p = 4 ∨ p = 5 := by omega
  rcases this with rfl | rfl | rfl | rfl | rfl | rfl <;> unfold openRxPipe <;>
    (safe_prog <;> first | with_reducible exact safe_assignPrefix _ _ | (apply SafeProg.modD; intro _; exact ⟨rfl, rfl, rfl, rfl⟩))

/-! ### time: `read()` and `resend()` cost at least one SPI transaction -/

theorem read_clock (s : DrvState) : s.w.clock + SPI_COST_NS ≤ (exec (Rf24.read none) s).2.w.clock := by
  have h : Rf24.read none = (xfer [0x60, 0] >>= fun inb => (do
      let lastDyn := inb.getD 1 0
      let size ← (do
        let d ← getD
        if rxPipeField d < 6 then
          if d.features &&& 4 ≠ 0 then return lastDyn
          return d.plLen.getD (rxPipeField d) 0
        return 0 : DrvM Nat)
      if size = 0 then return none
      let r ← regReadBytes 0x61 size
      clearStatusFlags true false false
      return some r)) := by
    unfold Rf24.read Rf24.any regRead
    simp only [bind_assoc, pure_bind]
  rw [h, exec_bind, exec_xfer]
  simp only
  have hs : ∀ inb : Bytes, SafeProg (do
      let lastDyn := inb.getD 1 0
      let size ← (do
        let d ← getD
        if rxPipeField d < 6 then
          if d.features &&& 4 ≠ 0 then return lastDyn
          return d.plLen.getD (rxPipeField d) 0
        return 0 : DrvM Nat)
      if size = 0 then return none
      let r ← regReadBytes 0x61 size
      clearStatusFlags true false false
      return some r : DrvM (Option Bytes)) := by
    intro inb
    safe_prog <;> first | with_reducible exact safe_regReadBytes61 _ | with_reducible exact safe_clearRx
  have := (hs (s.w.spi s.d.rid [0x60, 0]).2).sound (s.spiStep [0x60, 0])
  have h1 := spiStep_clock s [0x60, 0]
  have h2 := this.clock
  exact Nat.le_trans h1 h2

end Nrf
