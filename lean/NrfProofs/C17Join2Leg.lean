/-
C17, end-to-end join, part 9: the poll leg of a direct join, composed in the closed system.

Two nodes, loss-free.  `_make_contact(0)` of the unassigned joiner `x`: the NETWORK_POLL multicast
(frame 1) reaches pipe 0 of the master `m`; at the joiner's next `read()` the master's `update()`
answers (frame 2) to pipe 0 of the unassigned address; the joiner's `_net_update()` returns 194 and
the master's address 0 joins the set of responders; after that every `_net_update()` is idle — one
SPI transaction each — until the 55 ms window has passed: `_make_contact` returns `[0]`.

* `read_nested2c` — `read_nested2` with the clock clause;
* `poll_first`    — the joiner's first `_net_update()` after the multicast;
* `leg_poll`      — `_make_contact(0)` as a whole.
-/
import NrfProofs.C17Join2Poll

namespace Nrf.Net.Join
open Nrf Nrf.Net Nrf.Spec Nrf.Proofs

/-- `read_nested2` with the clock: the `read()` itself costs at least one SPI transaction on the
    running node's clock as it is after the switch back -/
theorem read_nested2c (s sj' : NetState) (j g : Nat) (ru : Except PyErr Nat) (L : LinkCfg) (P : List Bytes)
    (rx ce : Bool) (aa : Nat)
    (hclosed : s.closed = true) (harr : s.node.arrivals = [])
    (hj : j < s.nodes.length) (hrun : s.runnable j) (hbefore : ∀ k, k < j → ¬ s.runnable k)
    (hu : nexec (nodeUpdate g) (s.switchTo j) = (ru, sj'))
    (hlen : sj'.nodes.length = s.nodes.length) (hg : s.nodes.length < g)
    (hafter : ∀ k, j < k → k < s.nodes.length → ¬ (sj'.switchBack s.cur j).runnable k)
    (hWf : (sj'.switchBack s.cur j).drv.Wf)
    (hN : NodeRadio L P rx ce aa (sj'.switchBack s.cur j).node.rf (sj'.switchBack s.cur j).drv.radio)
    (hfifo : ∀ e ∈ (sj'.switchBack s.cur j).drv.radio.rxFifo, e.pipe ≤ 5 ∧ 1 ≤ e.data.length ∧ e.data.length ≤ 32) :
    ∃ D : DrvState, nexec (rfRead (g + 2 + j)) s =
        (.ok ((sj'.switchBack s.cur j).drv.radio.rxFifo.head?.map (·.data)), (sj'.switchBack s.cur j).afterRf D) ∧
      DrvFrame (sj'.switchBack s.cur j).drv D ∧ NodeRadio L P rx ce aa D.d D.radio ∧
      D.radio.rxFifo = (sj'.switchBack s.cur j).drv.radio.rxFifo.tail ∧
      (sj'.switchBack s.cur j).w.clock + SPI_COST_NS ≤ D.w.clock := by
  obtain ⟨D, e, F, N, x⟩ := l3contracts.read (sj'.switchBack s.cur j).drv L P rx ce aa hWf hN hfifo
  refine ⟨D, ?_, F, N, x, ?_⟩
  · have hro := runOthers_one g s sj' j ru hj hrun hbefore hu hlen hg hafter
    rw [show g + 2 + j = (g + 1 + j) + 1 from by omega, rfRead.eq_2, nexec_bind, deliverDue_nil s harr]
    simp only []
    rw [nexec_bind, nexec_get]
    simp only [hclosed, if_true]
    rw [nexec_bind, hro]
    simp only []
    exact nexec_liftRf_ok _ _ _ D e
  · have := L3.read_clock_mono (sj'.switchBack s.cur j).drv
    rw [e] at this
    exact this

/-- the clock a node finds when `runOthers` switches back to it: the one it left -/
theorem switchBack_clock (s : NetState) (me j : Nat) : (s.switchBack me j).w.clock = (s.nodeAt me).clock := rfl

theorem switchTo_clock_saved (s : NetState) (j : Nat) (h : s.cur < s.nodes.length) :
    ((s.switchTo j).nodeAt s.cur).clock = s.w.clock := by
  rw [nodeAt_switchTo_eq, nodeAt_setNode, if_pos ⟨rfl, h⟩]

/-- **The joiner's first `_net_update()` after its poll multicast** (frame 2 of the join): the master,
    holding the poll on pipe 0, answers within the joiner's `read()`; the joiner gets the answer:
    194, `frame_buf` = the answer; both nodes listen again with empty RX FIFOs; the joiner's clock
    has advanced by at least one SPI transaction. -/
theorem poll_first (f : Nat) (s : NetState) (L : LinkCfg) (Pm Px : List Bytes) (m x fid r pid1 : Nat)
    (Am Ax pk pk' : Bytes) (Rm : Radio)
    (hlen : s.nodes.length = 2) (hm : m < 2) (hx : x < 2) (hmx : m ≠ x)
    (hcur : s.cur = x) (hact : s.active = [x]) (hclosed : s.closed = true) (hfaults : s.w.faults = [])
    (hfuel : 4 ≤ f)
    (hridm : s.ridAt m < s.w.radios.length) (hridx : s.ridAt x < s.w.radios.length)
    (hridne : s.ridAt m ≠ s.ridAt x)
    (hNm : NodeRadio L Pm true true 0x3E (s.nodeAt m).rf Rm) (hRm : Rm.rxFifo = [])
    (hradm : s.radioAt m = Rm.got0 Am pk pid1)
    (hNx : NodeRadio L Px true true 0x3E (s.nodeAt x).rf (s.radioAt x))
    (hfx : (s.radioAt x).rxFifo = [])
    (hdupx : ∀ pid, (s.radioAt x).lastRx ≠ some { pid := pid, addr := Ax, data := pk' })
    (harrm : (s.nodeAt m).arrivals = []) (harrx : (s.nodeAt x).arrivals = [])
    (hAx : Px[0]? = some Ax)
    (hxaddr : (s.nodeAt x).a.addr = NETWORK_DEFAULT_ADDR) (hxret : (s.nodeAt x).retSysMsg = true)
    (hkind : (s.nodeAt m).kind = .meshMaster) (hid : (s.nodeAt m).nodeId = 0) (hmaddr : (s.nodeAt m).a.addr = 0)
    (hmmc : (s.nodeAt m).cfg.allowMulticast = true) (hmpar : (s.nodeAt m).parenthood = true)
    (hdo : (s.nodeAt m).doDhcp = false)
    (hmcfg : pipeAddress (s.nodeAt m).cfg NETWORK_DEFAULT_ADDR 0 = .ok Ax)
    (hr : r ≤ 255) (hfid : fid < 65536)
    (hpk : (pollFrame fid r).pack = .ok pk) (hpk' : (pollReply fid r 0).pack = .ok pk') :
    ∃ (s6 : NetState) (pid2 : Nat),
      nexec (netUpdate (f + 8 + m) 0) s = (.ok NETWORK_POLL, s6) ∧
      s6.cur = x ∧ s6.active = [x] ∧ s6.nodes.length = 2 ∧ s6.closed = true ∧ s6.w.faults = [] ∧
      s6.nextId = s.nextId ∧ s6.w.radios.length = s.w.radios.length ∧
      (s6.nodeAt x).body = { (s.nodeAt x).body with frameBuf := pollReply fid r 0 } ∧
      (s6.nodeAt m).body = { (s.nodeAt m).body with frameBuf := pollReply fid r 0 } ∧
      NodeRadio L Pm true true 0x3E (s6.nodeAt m).rf (s6.radioAt m) ∧
      NodeRadio L Px true true 0x3E (s6.nodeAt x).rf (s6.radioAt x) ∧
      (s6.radioAt m).rxFifo = [] ∧ (s6.radioAt x).rxFifo = [] ∧
      s6.ridAt m = s.ridAt m ∧ s6.ridAt x = s.ridAt x ∧
      (s6.radioAt m).lastRx = some { pid := pid1, addr := Am, data := pk } ∧
      (s6.radioAt x).lastRx = some { pid := pid2, addr := Ax, data := pk' } ∧
      s.w.clock + SPI_COST_NS ≤ s6.w.clock := by
  have hcl : s.cur < s.nodes.length := by rw [hcur, hlen]; exact hx
  have hnode : s.node = s.nodeAt x := by rw [node_eq_nodeAt, hcur]
  have two : ∀ k, k < 2 → k = m ∨ k = x := by omega
  have hAxlen : Ax.length = 5 := by
    obtain ⟨_, _, _, _, _, _, _, _, _, _, _, _, _, _, _, _, _, _, _, _, _, hPl, _⟩ := hNx
    exact hPl Ax (List.mem_of_getElem? hAx)
  -- the master's `update()`
  generalize hsm : s.switchTo m = sm
  have smcur : sm.cur = m := by rw [← hsm]; rfl
  have smlen : sm.nodes.length = 2 := by rw [← hsm]; simpa using hlen
  have smact : sm.active = [m, x] := by rw [← hsm]; show m :: s.active = _; rw [hact]
  have smw : ∀ q, sm.w.radio q = s.w.radio q := by intro q; rw [← hsm]; rfl
  have smnode : sm.node = s.nodeAt m := by
    rw [node_eq_nodeAt, smcur, ← hsm, nodeAt_switchTo_eq, nodeAt_setNode, if_neg]
    rintro ⟨h, _⟩
    rw [hcur] at h; exact hmx h
  have smrad : sm.drv.radio = Rm.got0 Am pk pid1 := by
    show sm.w.radio sm.node.rf.rid = _
    rw [smnode, smw]; exact hradm
  have smxrf : (sm.nodeAt x).rf = (s.nodeAt x).rf := by rw [← hsm, rf_switchTo]
  have smxclock : (sm.nodeAt x).clock = s.w.clock := by
    rw [← hsm, ← hcur]; exact switchTo_clock_saved s m hcl
  have smxbody : (sm.nodeAt x).body = (s.nodeAt x).body := by rw [← hsm, body_switchTo]
  have smridx : sm.ridAt x = s.ridAt x := by
    show (sm.nodeAt x).rf.rid = _
    rw [smxrf]; rfl
  have smridm : sm.ridAt sm.cur = s.ridAt m := by
    show sm.node.rf.rid = _
    rw [smnode]; rfl
  have smc : sm.cur < sm.nodes.length := by rw [smcur, smlen]; exact hm
  obtain ⟨sj, eU, jcur, jact, jclosed, jnext, jlen, jothers, jbody, jclock, jrid, jrlen, jfaults, jN, jfifo, jlast,
    pid2, joth⟩ := master_poll f sm L Pm 0 fid r Ax pk pk' smc (by rw [← hsm]; exact hclosed) (by rw [smlen]; omega)
    (by
      intro k hk hkc
      rcases two k (by rw [← smlen]; exact hk) with rfl | rfl
      · exact absurd smcur.symm hkc
      · rw [smact]; simp)
    (by show sm.node.rf.rid < sm.w.radios.length
        rw [smnode, ← hsm]; exact hridm)
    (by rw [smnode, smrad]; exact got0_nodeRadio hNm Am pk pid1)
    (by
      intro k hk hkc
      rcases two k (by rw [← smlen]; exact hk) with rfl | rfl
      · exact absurd smcur.symm hkc
      · rw [smridx, smridm]; exact fun h => hridne h.symm)
    (by rw [smnode]; exact harrm) (by rw [smrad]; show Rm.rxFifo ++ _ = _; rw [hRm]; rfl) (by omega)
    (by rw [← hsm]; exact hfaults)
    hpk hr hfid (by rw [smnode]; exact hkind) (by rw [smnode]; exact hid) (by rw [smnode]; exact hmaddr)
    (by rw [smnode]; exact hmmc) (by rw [smnode]; exact hmpar) (by rw [smnode]; exact hdo)
    (by rw [smnode]; exact hmcfg) hAxlen hpk'
  rw [smcur] at jcur
  rw [smact] at jact
  rw [smlen] at jlen
  have sjnode : sj.node = sj.nodeAt m := by rw [node_eq_nodeAt, jcur]
  have sjx : sj.nodeAt x = sm.nodeAt x := jothers x (by rw [smcur]; exact fun h => hmx h.symm)
  have sjridm : sj.ridAt m = s.ridAt m := by
    show (sj.nodeAt m).rf.rid = _
    rw [← sjnode, jrid, smnode]; rfl
  have sjradx : sj.w.radio (s.ridAt x) = (s.radioAt x).got0 Ax pk' pid2 := by
    rw [joth _ (by rw [smridm]; exact fun h => hridne h.symm), smw]
    show ((s.radioAt x).receive _).1 = _
    rw [receive_pipe0 hNx Ax pk' pid2 hAx (by rw [hfx]; decide) (hdupx pid2)]
    rfl
  -- the joiner's read
  generalize hs5 : sj.switchBack s.cur m = s5
  have s5cur : s5.cur = x := by rw [← hs5]; exact hcur
  have s5act : s5.active = [x] := by
    rw [← hs5]; show sj.active.erase m = _; rw [jact, List.erase_cons_head]
  have s5len : s5.nodes.length = 2 := by rw [← hs5]; simpa using jlen
  have s5rad : ∀ k, s5.radioAt k = sj.radioAt k := by intro k; rw [← hs5]; exact radioAt_switchBack sj _ m k
  have s5rf : ∀ k, (s5.nodeAt k).rf = (sj.nodeAt k).rf := by intro k; rw [← hs5]; exact rf_switchBack sj _ m k
  have s5body : ∀ k, (s5.nodeAt k).body = (sj.nodeAt k).body := by
    intro k; rw [← hs5]; exact body_switchBack sj _ m k
  have s5node : s5.node = s5.nodeAt x := by rw [node_eq_nodeAt, s5cur]
  have s5xrf : (s5.nodeAt x).rf = (s.nodeAt x).rf := by rw [s5rf, sjx, smxrf]
  have s5clock : s5.w.clock = s.w.clock := by
    rw [← hs5, switchBack_clock, hcur, sjx, smxclock]
  have s5radx : s5.radioAt x = (s.radioAt x).got0 Ax pk' pid2 := by
    rw [s5rad]
    show sj.w.radio (sj.nodeAt x).rf.rid = _
    rw [sjx, smxrf]
    exact sjradx
  have s5radm : s5.radioAt m = sj.drv.radio := by
    rw [s5rad]
    show sj.w.radio (sj.nodeAt m).rf.rid = sj.w.radio sj.node.rf.rid
    rw [sjnode]
  have s5drvr : s5.drv.radio = s5.radioAt x := by
    show s5.w.radio s5.node.rf.rid = _
    rw [s5node]; rfl
  have s5w : s5.w.radios.length = s.w.radios.length ∧ s5.w.faults = [] := by
    rw [← hs5]
    show sj.w.radios.length = _ ∧ sj.w.faults = []
    rw [jrlen]
    refine ⟨?_, jfaults⟩
    rw [← hsm]; rfl
  have hpkl' : pk'.length = 8 + (pollReply fid r 0).message.length := pack_length hpk'
  have hrunm : s.runnable m := by
    refine ⟨by rw [hcur]; exact hmx, by rw [hact]; simp [hmx], ?_, ?_⟩
    · show (!(s.radioAt m).rxFifo.isEmpty) = true
      rw [hradm]; simp [Radio.got0]
    · show (s.radioAt m).rxMode = true
      rw [hradm]; exact (got0_nodeRadio hNm Am pk pid1).rxMode
  have hNx5 : NodeRadio L Px true true 0x3E (s5.nodeAt x).rf (s5.radioAt x) := by
    rw [s5xrf, s5radx]; exact got0_nodeRadio hNx Ax pk' pid2
  obtain ⟨D6, e6, F6, N6, x6, c6⟩ := read_nested2c s sj m (f + 5) (.ok 0) L Px true true 0x3E
    hclosed (by rw [hnode]; exact harrx) (by rw [hlen]; exact hm) hrunm
    (by
      intro k hk hr
      rcases two k (by omega) with rfl | rfl
      · omega
      · exact hr.1 hcur.symm)
    (by rw [hsm]; exact eU) (by rw [jlen, hlen]) (by rw [hlen]; omega)
    (by
      intro k hk hkl hr
      rw [hs5] at hr
      rcases two k (by rw [← hlen]; exact hkl) with rfl | rfl
      · omega
      · exact hr.1 s5cur.symm)
    (by rw [hs5]; show s5.node.rf.rid < s5.w.radios.length; rw [s5node, s5xrf, s5w.1]; exact hridx)
    (by rw [hs5, s5node, s5drvr]; exact hNx5)
    (by
      rw [hs5, s5drvr, s5radx]
      intro e he
      have : e ∈ (s.radioAt x).rxFifo ++ [{ pipe := 0, data := pk' }] := he
      rw [hfx] at this
      simp only [List.nil_append, List.mem_singleton] at this
      subst this
      exact ⟨Nat.zero_le _, by simp only []; rw [hpkl']; simp [pollReply], by simp only []; rw [hpkl']; simp [pollReply]⟩)
  rw [hs5] at e6 F6 x6 c6
  have hhead : s5.drv.radio.rxFifo = [{ pipe := 0, data := pk' }] := by
    rw [s5drvr, s5radx]
    show (s.radioAt x).rxFifo ++ _ = _
    rw [hfx]; rfl
  rw [hhead] at e6 x6
  simp only [List.head?_cons, Option.map_some, List.tail_cons] at e6 x6
  -- `_net_update()` of the joiner
  have s5c : s5.cur < s5.nodes.length := by rw [s5cur, s5len]; exact hx
  have s6c : (s5.afterRf D6).cur < (s5.afterRf D6).nodes.length := by simpa using s5c
  have s6node : (s5.afterRf D6).node = { s5.node with rf := D6.d } := afterRf_node s5 D6 s5c
  have s5xb : (s5.nodeAt x).body = (s.nodeAt x).body := by rw [s5body, sjx, smxbody]
  have s5addr : s5.node.a.addr = NETWORK_DEFAULT_ADDR := by
    have : s5.node.a = (s5.nodeAt x).body.a := by rw [s5node]; rfl
    rw [this, s5xb]; exact hxaddr
  have s5ret : s5.node.retSysMsg = true := by
    have : s5.node.retSysMsg = (s5.nodeAt x).body.retSysMsg := by rw [s5node]; rfl
    rw [this, s5xb]; exact hxret
  have hnu := netUpdate_sys (f + 5 + 1 + m) s (s5.afterRf D6) pk' (pollReply fid r 0) NETWORK_POLL s6c
    (by rw [show f + 5 + 1 + m + 1 = f + 5 + 2 + m from by omega]; exact e6) rfl hpk' (pollReply_wire fid r hr hfid)
    (by rw [s6node]; exact s5addr.symm) validDefault valid0 (by decide)
    (fun h => absurd h.1 (by decide)) (fun h => absurd h.1 (by decide))
    (by rw [s6node]; exact s5ret) (by decide) (by decide)
  have hne5 : m ≠ s5.cur := by rw [s5cur]; exact hmx
  have hne6 : m ≠ (s5.afterRf D6).cur := hne5
  have hrm : s5.ridAt m = s.ridAt m := by
    show (s5.nodeAt m).rf.rid = _
    rw [s5rf]; exact sjridm
  have hrx : s5.drv.d.rid = s.ridAt x := by
    show s5.node.rf.rid = _
    rw [s5node, s5xrf]; rfl
  have hnem : s5.ridAt m ≠ s5.drv.d.rid := by rw [hrm, hrx]; exact hridne
  have h1x : ((s5.afterRf D6).withFrame (pollReply fid r 0)).nodeAt x =
      { (s5.afterRf D6).nodeAt x with frameBuf := pollReply fid r 0 } := by
    unfold NetState.withFrame
    rw [nodeAt_setNode, if_pos ⟨by show x = s5.cur; exact s5cur.symm, s6c⟩]
  have hradm6 : ((s5.afterRf D6).withFrame (pollReply fid r 0)).radioAt m = sj.drv.radio := by
    rw [radioAt_withFrame, radioAt_afterRf_ne _ _ _ hne5]
    show D6.w.radio (s5.ridAt m) = _
    rw [F6.others _ hnem]
    exact s5radm
  have hradx6 : ((s5.afterRf D6).withFrame (pollReply fid r 0)).radioAt x = D6.radio := by
    rw [radioAt_withFrame, ← s5cur, radioAt_afterRf_cur s5 D6 s5c]
  refine ⟨(s5.afterRf D6).withFrame (pollReply fid r 0), pid2, ?_, s5cur, s5act, by simpa using s5len, ?_, ?_, ?_, ?_,
    ?_, ?_, ?_, ?_, ?_, ?_, ?_, ?_, ?_, ?_, ?_⟩
  · rw [show f + 8 + m = f + 5 + 1 + m + 2 from by omega]; exact hnu
  · show s5.closed = true
    rw [← hs5]; exact jclosed
  · show D6.w.faults = []
    rw [F6.faults]; exact s5w.2
  · show s5.nextId = s.nextId
    rw [← hs5]; show sj.nextId = _; rw [jnext, ← hsm]; rfl
  · show D6.w.radios.length = _
    rw [F6.len]; exact s5w.1
  · rw [h1x]
    have h2 := body_afterRf s5 D6 x
    rw [s5xb] at h2
    show ({ ((s5.afterRf D6).nodeAt x).body with frameBuf := pollReply fid r 0 } : Node) = _
    rw [h2]
  · rw [nodeAt_withFrame_ne _ _ _ hne6, body_afterRf, s5body, ← sjnode, jbody, smnode]
  · rw [hradm6, nodeAt_withFrame_ne _ _ _ hne6, nodeAt_afterRf_ne _ _ _ hne5, s5rf, ← sjnode]
    exact jN
  · rw [hradx6, h1x]
    show NodeRadio L Px true true 0x3E ((s5.afterRf D6).nodeAt x).rf D6.radio
    rw [← s5cur, rf_afterRf_cur s5 D6 s5c]
    exact N6
  · rw [hradm6]; exact jfifo
  · rw [hradx6]; exact x6
  · show (((s5.afterRf D6).withFrame (pollReply fid r 0)).nodeAt m).rf.rid = _
    rw [nodeAt_withFrame_ne _ _ _ hne6, nodeAt_afterRf_ne _ _ _ hne5]
    exact hrm
  · show (((s5.afterRf D6).withFrame (pollReply fid r 0)).nodeAt x).rf.rid = _
    rw [rf_withFrame, ← s5cur, rf_afterRf_cur s5 D6 s5c, F6.rid, s5cur]
    exact hrx
  · rw [hradm6, jlast, smrad]; rfl
  · rw [hradx6, F6.lastRx, s5drvr, s5radx]; rfl
  · show s.w.clock + SPI_COST_NS ≤ D6.w.clock
    rw [← s5clock]; exact c6

/-- the fuel of the node layer's loops, as a sum (the only place its value is looked at) -/
theorem F_split (m : Nat) (hm : m < 2) : ∃ f, F = f + 8 + m ∧ 4 ≤ f ∧ f + 8 + m = 200000 :=
  ⟨200000 - 8 - m, by show 200000 = _; omega, by omega, by omega⟩

theorem slots0_items : (pySetItems (List.replicate 8 none)).length < 4 := by decide
theorem slots1_items : pySetItems (pySetAdd (List.replicate 8 none) 0) = [0] := by decide

/-- 55 ms are over after fewer idle polls than the loop has fuel for -/
theorem window_fuel (n : Nat) (hn : n + 2 = 200000) : 55000000 ≤ (n + 1) * SPI_COST_NS := by
  have : n = 199998 := by omega
  subst this
  decide

/-- **The poll leg of a join, end to end**: `_make_contact(0)` of the unassigned joiner returns `[0]`. -/
theorem leg_poll (s : NetState) (L : LinkCfg) (Pm Px : List Bytes) (m x fid r : Nat)
    (Am Ax pk pk' : Bytes)
    (hlen : s.nodes.length = 2) (hm : m < 2) (hx : x < 2) (hmx : m ≠ x)
    (hcur : s.cur = x) (hact : s.active = [x]) (hclosed : s.closed = true) (hfaults : s.w.faults = [])
    (hridm : s.ridAt m < s.w.radios.length) (hridx : s.ridAt x < s.w.radios.length)
    (hridne : s.ridAt m ≠ s.ridAt x)
    (hNm : NodeRadio L Pm true true 0x3E (s.nodeAt m).rf (s.radioAt m))
    (hNx : NodeRadio L Px true true 0x3E (s.nodeAt x).rf (s.radioAt x))
    (hfm : (s.radioAt m).rxFifo = []) (hfx : (s.radioAt x).rxFifo = [])
    (hdupm : ∀ pid, (s.radioAt m).lastRx ≠ some { pid := pid, addr := Am, data := pk })
    (hdupx : ∀ pid, (s.radioAt x).lastRx ≠ some { pid := pid, addr := Ax, data := pk' })
    (harrm : (s.nodeAt m).arrivals = []) (harrx : (s.nodeAt x).arrivals = [])
    (hAm : Pm[0]? = some Am) (hAx : Px[0]? = some Ax)
    (hxfid : (s.nodeAt x).frameBuf.header.frameId = fid) (hxres : (s.nodeAt x).frameBuf.header.reserved = r)
    (hxaddr : (s.nodeAt x).a.addr = NETWORK_DEFAULT_ADDR)
    (hxret : (s.nodeAt x).retSysMsg = true) (hxcfg : pipeAddress (s.nodeAt x).cfg 0 0 = .ok Am)
    (hkind : (s.nodeAt m).kind = .meshMaster) (hid : (s.nodeAt m).nodeId = 0) (hmaddr : (s.nodeAt m).a.addr = 0)
    (hmmc : (s.nodeAt m).cfg.allowMulticast = true) (hmpar : (s.nodeAt m).parenthood = true)
    (hdo : (s.nodeAt m).doDhcp = false)
    (hmcfg : pipeAddress (s.nodeAt m).cfg NETWORK_DEFAULT_ADDR 0 = .ok Ax)
    (hr : r ≤ 255) (hfid : fid < 65536)
    (hpk : (pollFrame fid r).pack = .ok pk) (hpk' : (pollReply fid r 0).pack = .ok pk') :
    ∃ (s' : NetState) (pid1 pid2 : Nat),
      nexec (makeContact 0) s = (.ok [0], s') ∧
      s'.cur = x ∧ s'.active = [x] ∧ s'.nodes.length = 2 ∧ s'.closed = true ∧ s'.w.faults = [] ∧
      s'.nextId = s.nextId ∧ s'.w.radios.length = s.w.radios.length ∧
      (s'.nodeAt x).body = { (s.nodeAt x).body with frameBuf := pollReply fid r 0 } ∧
      (s'.nodeAt m).body = { (s.nodeAt m).body with frameBuf := pollReply fid r 0 } ∧
      NodeRadio L Pm true true 0x3E (s'.nodeAt m).rf (s'.radioAt m) ∧
      NodeRadio L Px true true 0x3E (s'.nodeAt x).rf (s'.radioAt x) ∧
      (s'.radioAt m).rxFifo = [] ∧ (s'.radioAt x).rxFifo = [] ∧
      s'.ridAt m = s.ridAt m ∧ s'.ridAt x = s.ridAt x ∧
      (s'.radioAt m).lastRx = some { pid := pid1, addr := Am, data := pk } ∧
      (s'.radioAt x).lastRx = some { pid := pid2, addr := Ax, data := pk' } := by
  have hcl : s.cur < s.nodes.length := by rw [hcur, hlen]; exact hx
  have hnode : s.node = s.nodeAt x := by rw [node_eq_nodeAt, hcur]
  have two : ∀ k, k < 2 → k = m ∨ k = x := by omega
  have hAmlen : Am.length = 5 := by
    obtain ⟨_, _, _, _, _, _, _, _, _, _, _, _, _, _, _, _, _, _, _, _, _, hPl, _⟩ := hNm
    exact hPl Am (List.mem_of_getElem? hAm)
  obtain ⟨f, hF, hf4, hF2⟩ := F_split m hm
  -- the frame `_make_contact` builds
  generalize hsA : s.withFrame (pollFrame fid r) = sA
  have sAc : sA.cur < sA.nodes.length := by rw [← hsA]; simpa using hcl
  have sAcur : sA.cur = x := by rw [← hsA]; exact hcur
  have sAlen : sA.nodes.length = 2 := by rw [← hsA]; simpa using hlen
  have sAnode : sA.node = { s.node with frameBuf := pollFrame fid r } := by rw [← hsA]; exact withFrame_node s _ hcl
  have sAdrv : sA.drv = s.drv := by
    rw [← hsA]; exact drv_setNode s _ hcl rfl
  have sAm : sA.nodeAt m = s.nodeAt m := by
    rw [← hsA]; exact nodeAt_withFrame_ne s _ m (by rw [hcur]; exact hmx)
  have sAxb : (sA.nodeAt x).body = { (s.nodeAt x).body with frameBuf := pollFrame fid r } := by
    have : sA.nodeAt x = sA.node := by rw [node_eq_nodeAt, sAcur]
    rw [this, sAnode, hnode]; rfl
  have sArad : ∀ k, sA.radioAt k = s.radioAt k := by intro k; rw [← hsA]; exact radioAt_withFrame s _ k
  have sArid : ∀ k, sA.ridAt k = s.ridAt k := by
    intro k; show (sA.nodeAt k).rf.rid = _; rw [← hsA, rf_withFrame]; rfl
  have hdrvr : s.drv.radio = s.radioAt x := by
    show s.w.radio s.node.rf.rid = _
    rw [hnode]; rfl
  have hqA : Quiet sA := by
    intro k hk hkc hka
    rcases two k (by rw [← sAlen]; exact hk) with rfl | rfl
    · rw [sArad]; exact hfm
    · exact absurd sAcur.symm hkc
  have hridA : ∀ k, k < sA.nodes.length → k ≠ sA.cur → sA.ridAt k ≠ sA.ridAt sA.cur := by
    intro k hk hkc
    rcases two k (by rw [← sAlen]; exact hk) with rfl | rfl
    · rw [sAcur, sArid, sArid]; exact hridne
    · exact absurd sAcur.symm hkc
  obtain ⟨D1, e1, r1, l1, f1, N1, x1, lr1, pid1, o1⟩ := mc_write (f + 6 + m) sA L Px 0 TX_MULTICAST NETWORK_POLL Am pk
    sAc (by rw [← hsA]; exact hclosed) (by rw [sAlen]; omega) hqA
    (by rw [sAdrv]; show s.node.rf.rid < _; rw [hnode]; exact hridx)
    (by rw [sAnode, sAdrv, hdrvr, hnode]; exact hNx) hridA
    (by rw [sAnode, hnode]; exact hxcfg) hAmlen (by rw [← hsA]; exact hfaults)
    (by rw [sAnode]; simp [pollFrame, MAX_FRAG_SIZE]) (by rw [sAnode]; exact hpk)
    (by rw [sAnode]; rfl) (by decide)
  -- the world after the multicast
  generalize hs1 : sA.afterRf D1 = s1 at e1
  have s1cur : s1.cur = x := by rw [← hs1]; exact sAcur
  have s1act : s1.active = [x] := by rw [← hs1, ← hsA]; exact hact
  have s1len : s1.nodes.length = 2 := by rw [← hs1]; simpa using sAlen
  have s1m : s1.nodeAt m = s.nodeAt m := by
    rw [← hs1, nodeAt_afterRf_ne sA D1 m (by rw [sAcur]; exact hmx)]; exact sAm
  have s1xb : (s1.nodeAt x).body = { (s.nodeAt x).body with frameBuf := pollFrame fid r } := by
    rw [← hs1, body_afterRf]; exact sAxb
  have s1xrf : (s1.nodeAt x).rf = D1.d := by rw [← hs1, ← sAcur]; exact rf_afterRf_cur sA D1 sAc
  have s1w : s1.w = D1.w := by rw [← hs1]; rfl
  have hD1rid : D1.d.rid = s.ridAt x := by rw [r1, sAnode, hnode]; rfl
  have s1radm : s1.radioAt m = (s.radioAt m).got0 Am pk pid1 := by
    show s1.w.radio (s1.nodeAt m).rf.rid = _
    rw [s1m, s1w, o1 _ (by rw [sAcur, sArid]; exact hridne), ← hsA]
    show ((s.radioAt m).receive _).1 = _
    rw [receive_pipe0 hNm Am pk pid1 hAm (by rw [hfm]; decide) (hdupm pid1)]
    rfl
  have s1radx : s1.radioAt x = D1.radio := by
    show s1.w.radio (s1.nodeAt x).rf.rid = _
    rw [s1xrf, s1w]; rfl
  have hxlast : D1.radio.lastRx = (s.radioAt x).lastRx := by rw [lr1, sAdrv, hdrvr]
  have hxfifo : D1.radio.rxFifo = [] := by rw [x1, sAdrv, hdrvr]; exact hfx
  have s1rlen : s1.w.radios.length = s.w.radios.length := by rw [s1w, l1, ← hsA]; rfl
  -- the first `_net_update()`
  obtain ⟨s6, pid2, e6, c6, a6, n6, cl6, fl6, nx6, rl6, bx6, bm6, Nm6, Nx6, fm6, fx6, rm6, rx6, lm6, lx6, ck6⟩ :=
    poll_first f s1 L Pm Px m x fid r pid1 Am Ax pk pk' (s.radioAt m) s1len hm hx hmx s1cur s1act
      (by rw [← hs1, ← hsA]; exact hclosed) (by rw [s1w]; exact f1) hf4
      (by show (s1.nodeAt m).rf.rid < _; rw [s1m, s1rlen]; exact hridm)
      (by show (s1.nodeAt x).rf.rid < _; rw [s1xrf, hD1rid, s1rlen]; exact hridx)
      (by show (s1.nodeAt m).rf.rid ≠ (s1.nodeAt x).rf.rid; rw [s1m, s1xrf, hD1rid]; exact hridne)
      (by rw [s1m]; exact hNm) hfm s1radm (by rw [s1xrf, s1radx]; exact N1) (by rw [s1radx]; exact hxfifo)
      (by intro pid; rw [s1radx, hxlast]; exact hdupx pid)
      (by rw [s1m]; exact harrm)
      (by have : (s1.nodeAt x).arrivals = (s1.nodeAt x).body.arrivals := rfl
          rw [this, s1xb]; exact harrx)
      hAx
      (by have : (s1.nodeAt x).a = (s1.nodeAt x).body.a := rfl
          rw [this, s1xb]; exact hxaddr)
      (by have : (s1.nodeAt x).retSysMsg = (s1.nodeAt x).body.retSysMsg := rfl
          rw [this, s1xb]; exact hxret)
      (by rw [s1m]; exact hkind) (by rw [s1m]; exact hid) (by rw [s1m]; exact hmaddr) (by rw [s1m]; exact hmmc)
      (by rw [s1m]; exact hmpar) (by rw [s1m]; exact hdo) (by rw [s1m]; exact hmcfg) hr hfid hpk hpk'
  -- idle from here on
  have s6node : s6.node = s6.nodeAt x := by rw [node_eq_nodeAt, c6]
  have s6drvr : s6.drv.radio = s6.radioAt x := by
    show s6.w.radio s6.node.rf.rid = _
    rw [s6node]; rfl
  have hidle : IdleSt L Px s6 := by
    refine ⟨by rw [c6, n6]; exact hx, cl6, ?_, ?_, ?_, ?_, ?_⟩
    · intro k hk hkc hka
      rcases two k (by rw [← n6]; exact hk) with rfl | rfl
      · exact fm6
      · exact absurd c6.symm hkc
    · show s6.node.rf.rid < s6.w.radios.length
      rw [s6node, rl6]
      show s6.ridAt x < _
      rw [rx6]
      show (s1.nodeAt x).rf.rid < _
      rw [s1xrf, hD1rid, s1rlen]; exact hridx
    · rw [s6drvr, s6node]; exact Nx6
    · have : s6.node.arrivals = (s6.nodeAt x).body.arrivals := by rw [s6node]; rfl
      rw [this, bx6]
      have : (s1.nodeAt x).body.arrivals = (s.nodeAt x).arrivals := by rw [s1xb]; rfl
      show (s1.nodeAt x).body.arrivals = []
      rw [this]; exact harrx
    · rw [s6drvr]; exact fx6
  have hfrom : s6.node.frameBuf.header.fromNode = 0 := by
    have : s6.node.frameBuf = (s6.nodeAt x).body.frameBuf := by rw [s6node]; rfl
    rw [this, bx6]; rfl
  have hfuelw := window_fuel (f + 6 + m) (by omega)
  obtain ⟨k, _, eL, hdl⟩ := contactLoop_idle (L := L) (P := Px) (55000000 + s1.w.clock)
    (pySetAdd (List.replicate 8 none) 0) (by rw [slots1_items]; decide) (f + 6 + m) (by rw [hF]; omega) (f + 6 + m) s6 hidle
    (by rw [n6]; omega) (by rw [Nat.succ_mul] at hfuelw; omega)
  have hsame := SameButClock.tickN k s6
  have hidle' := IdleSt.tickN k hidle
  generalize hs' : tickN k s6 = s' at eL hdl hsame hidle'
  have s'node : s'.node = s'.nodeAt x := by rw [node_eq_nodeAt, hsame.cur, c6]
  have s'drvr : s'.drv.radio = s'.radioAt x := by
    show s'.w.radio s'.node.rf.rid = _
    rw [s'node]; rfl
  have hmne : m ≠ s6.cur := by rw [c6]; exact hmx
  refine ⟨s', pid1, pid2, ?_, by rw [hsame.cur, c6], by rw [hsame.active, a6], by rw [hsame.len, n6],
    by rw [hsame.closed, cl6], by rw [hsame.faults, fl6], ?_, ?_, ?_, ?_, ?_, ?_, ?_, ?_, ?_, ?_, ?_, ?_⟩
  · -- the computation
    unfold makeContact
    rw [nexec_bind, nexec_setHdr]
    simp only []
    rw [nexec_bind, nexec_modNode]
    simp only []
    have hst : (s.setNode fun n => { n with frameBuf := { n.frameBuf with header :=
          { (n.frameBuf.header.setTy NETWORK_POLL) with toNode := NETWORK_MULTICAST_ADDR,
                                                        fromNode := NETWORK_DEFAULT_ADDR } } }).setNode
        (fun nd => { nd with frameBuf := { nd.frameBuf with message := [] } }) = sA := by
      rw [← hsA, setNode_setNode]
      unfold NetState.withFrame
      apply setNode_congr
      rw [hnode]
      simp only [Function.comp, Header.setTy, pollFrame, hxfid, hxres]
    rw [hst]
    have hl0 : lvl2addr 0 = 0 := rfl
    rw [hl0, nexec_bind, hF, show f + 8 + m = (f + 6 + m) + 2 from by omega, e1]
    simp only []
    rw [nexec_bind, nexec_nowNs]
    simp only []
    rw [nexec_bind, show f + 6 + m + 2 = (f + 6 + m + 1) + 1 from rfl, contactLoop.eq_2, nexec_bind, nexec_nowNs]
    simp only []
    have hc0 : s1.w.clock < 55000000 + s1.w.clock ∧ (pySetItems (List.replicate 8 (none : Option Nat))).length < 4 :=
      ⟨by omega, slots0_items⟩
    rw [nexec_ite, if_pos hc0, nexec_bind, hF, e6]
    simp only []
    rw [nexec_bind, nexec_getNode]
    simp only [hfrom, if_true]
    rw [eL]
    simp only [nexec_pure, slots1_items]
  · rw [hsame.nextId, nx6, ← hs1, ← hsA]; rfl
  · rw [hsame.radios, rl6]; exact s1rlen
  · rw [hsame.body, bx6, s1xb]
  · rw [hsame.body, bm6, s1m]
  · rw [hsame.others m hmne, hsame.radioAt]; exact Nm6
  · have := hidle'.radio
    rw [s'drvr, s'node] at this
    exact this
  · rw [hsame.radioAt]; exact fm6
  · rw [← s'drvr]; exact hidle'.fifo
  · rw [hsame.rid, rm6]; show (s1.nodeAt m).rf.rid = _; rw [s1m]; rfl
  · rw [hsame.rid, rx6]; show (s1.nodeAt x).rf.rid = _; rw [s1xrf]; exact hD1rid
  · rw [hsame.radioAt]; exact lm6
  · rw [hsame.radioAt]; exact lx6

end Nrf.Net.Join
