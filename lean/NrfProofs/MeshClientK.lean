/-
C17, the mesh client calls as decisions: `lookup_address` / `lookup_node_id` / `_lookup_2_master`,
`check_connection`, `release_address`, `send`, the acceptance test of `_request_address`.
-/
import NrfProofs.NetExecK
import NrfProofs.LeaseJudge
import NrfModel.Spec.MeshProtocol
import NrfProofs.Tree

namespace Nrf.Proofs.MeshK
open Nrf Nrf.Net Nrf.NetK Nrf.Spec Nrf.Spec.MeshProtocol

/-! ### the master's table against the spec's finite map -/

theorem getAddress_addr (id : Nat) (t : Mesh.Table) :
    Mesh.getAddress id MESH_ADDR_LOOKUP t = tableAddress t id :=
  Nrf.Proofs.Lease.getAddress_addr_lookup id t

theorem getAddress_id (a : Nat) (t : Mesh.Table) :
    Mesh.getAddress a MESH_ID_LOOKUP t = tableNodeId t a :=
  Nrf.Proofs.Lease.getAddress_id_lookup a t

/-! ### decoding a reply -/

/-- the reply decoder of `_lookup_2_master` is total and is the spec's `replyValue` -/
theorem decode_total (m : Bytes) (s : NetState) :
    nexec (if m.length ≥ 2 then liftPy (unpackSH (pySlice m 0 2))
           else match m with
             | b :: _ => pure (b : Int)
             | [] => pure (-1) : NetM Int) s = (.ok (replyValue m), s) := by
  match m with
  | [] => rfl
  | [b] => rfl
  | lo :: hi :: rest =>
    have : (lo :: hi :: rest).length ≥ 2 := by simp
    simp only [this, ↓reduceIte]
    rfl

/-! ### `_lookup_2_master` -/

/-- the state in which `_lookup_2_master` calls `_write(0, TX_NORMAL)`: a fresh header (new frame
    id) to the master with the lookup type, from the node's address, and the packed number -/
def lookupSent (s : NetState) (ty : Nat) (body : Bytes) : NetState :=
  updCur { s with nextId := (s.nextId + 1) &&& 0xFFFF } fun n =>
    { n with frameBuf := { header := { fromNode := (curNode s).a.addr, toNode := 0, frameId := s.nextId,
                                       msgType := .int ty, reserved := 0 },
                           message := body } }

/-- the request body: `struct.pack("<H", address)` / `bytes([node_id])` -/
def lookupBody (number : Int) (ty : Nat) : PyM Bytes :=
  if ty = MESH_ID_LOOKUP then packH number else bytes1 number

/-- **C17, `_lookup_2_master`.**  With a request body that can be built: `-1` when `_write` fails;
    `-1` when no frame of type 196/198 is returned by `_net_update` before the deadline (135 ms
    after the write); otherwise the decoded reply — whatever bytes it holds. -/
theorem nexec_lookup2Master (number : Int) (ty : Nat) (s : NetState) (body : Bytes)
    (hb : lookupBody number ty = .ok body) :
    nexec (lookup2Master number ty) s =
      match nexec (nodeWrite F 0 TX_NORMAL) (lookupSent s ty body) with
      | (.error e, s1) => (.error e, s1)
      | (.ok false, s1) => (.ok NO_ANSWER, s1)
      | (.ok true, s1) =>
        match nexec (lookupWait (135 * 1000000 + s1.w.clock) F) s1 with
        | (.error e, s2) => (.error e, s2)
        | (.ok false, s2) => (.ok NO_ANSWER, s2)
        | (.ok true, s2) => (.ok (replyValue (curNode s2).frameBuf.message), s2) := by
  unfold lookup2Master
  unfold lookupBody at hb
  simp only [nexec_bind, nexec_getNode, nexec_takeId, nexec_setHdr, nexec_modNode, hb, nexec_liftPy_ok,
    updCur_updCur]
  have hs : (updCur { s with nextId := (s.nextId + 1) &&& 65535 }
      ((fun nd : Node => { nd with frameBuf := { nd.frameBuf with message := body } }) ∘
        fun n : Node => { n with frameBuf := { n.frameBuf with header :=
          ({ fromNode := (curNode s).a.addr, toNode := 0, frameId := s.nextId, msgType := .int ty,
             reserved := 0 } : Header) } })) = lookupSent s ty body := rfl
  rw [hs]
  rcases nexec (nodeWrite F 0 TX_NORMAL) (lookupSent s ty body) with ⟨r1, s1⟩
  cases r1 with
  | error e => rfl
  | ok b =>
    cases b with
    | false => rfl
    | true =>
      simp only [Bool.not_true, Bool.false_eq_true, ↓reduceIte, nexec_bind, nexec_nowNs]
      rcases nexec (lookupWait (135 * 1000000 + s1.w.clock) F) s1 with ⟨r2, s2⟩
      cases r2 with
      | error e => rfl
      | ok b2 =>
        cases b2 with
        | false => rfl
        | true =>
          simp only [Bool.not_true, Bool.false_eq_true, ↓reduceIte, nexec_bind, nexec_getNode]
          exact decode_total _ _

/-- a number that cannot be packed (`node_id` outside a byte, `address` outside 16 bits) raises
    before anything is transmitted -/
theorem nexec_lookup2Master_bad (number : Int) (ty : Nat) (s : NetState) (e : PyErr)
    (hb : lookupBody number ty = .error e) :
    (nexec (lookup2Master number ty) s).1 = .error e ∧ (nexec (lookup2Master number ty) s).2.w = s.w := by
  unfold lookup2Master
  unfold lookupBody at hb
  simp only [nexec_bind, nexec_getNode, nexec_takeId, nexec_setHdr, hb, nexec_liftPy_error]
  exact ⟨trivial, rfl⟩

theorem lookupBody_id (id : Int) (h : 0 ≤ id ∧ id < 256) :
    lookupBody id MESH_ADDR_LOOKUP = .ok [id.toNat] := by
  unfold lookupBody bytes1
  simp [MESH_ADDR_LOOKUP, MESH_ID_LOOKUP, h]

theorem lookupBody_addr (a : Int) (h : 0 ≤ a ∧ a < 65536) :
    lookupBody a MESH_ID_LOOKUP = .ok [a.toNat % 256, a.toNat / 256] := by
  unfold lookupBody packH
  simp [h]

/-- the waiting loop of a lookup, one round: `_net_update()`; a frame of type 196/198 ends it with
    success, a passed deadline with failure -/
theorem lookupWait_succ (deadline f : Nat) :
    lookupWait deadline (f + 1) = (do
      let t ← netUpdate F 0
      if t = MESH_ID_LOOKUP ∨ t = MESH_ADDR_LOOKUP then return true
      if (← nowNs) > deadline then return false
      lookupWait deadline f) := by
  rw [lookupWait]

/-! ### `lookup_address` / `lookup_node_id` -/

/-- the role the lookups see -/
def roleAddr (n : Node) : Role :=
  if n.a.addr = NETWORK_DEFAULT_ADDR then .unassigned
  else if n.kind = .meshMaster ∧ n.nodeId = 0 then .master else .connected

/-- (`lookup_node_id` recognises the master by its address 0, `lookup_address` by its ID 0; the two
    agree as long as the master has not abandoned address 0) -/
def roleId (n : Node) : Role :=
  if n.a.addr = NETWORK_DEFAULT_ADDR then .unassigned
  else if n.kind = .meshMaster ∧ n.a.addr = 0 then .master else .connected

/-- **C17, `lookup_address`: the answers that need no transmission** — ID 0, an unassigned asker,
    the master's own table: the state (radio, air, time, queues) is untouched; a connected node
    asks the master. -/
theorem nexec_meshLookupAddress (nodeId : Int) (s : NetState) :
    nexec (meshLookupAddress nodeId) s =
      if nodeId = 0 then (.ok 0, s)
      else match roleAddr (curNode s) with
        | .unassigned => (.ok NOT_ASSIGNED, s)
        | .master => (.ok (tableAddress (curNode s).dhcp nodeId.toNat), s)
        | .connected => nexec (lookup2Master nodeId MESH_ADDR_LOOKUP) s := by
  unfold meshLookupAddress roleAddr
  simp only [nexec_bind, nexec_getNode, nexec_ite, nexec_pure]
  by_cases h0 : nodeId = 0
  · simp only [h0, ↓reduceIte]
  · simp only [h0, ↓reduceIte]
    by_cases h1 : (curNode s).a.addr = NETWORK_DEFAULT_ADDR
    · simp only [h1, ↓reduceIte]; rfl
    · simp only [h1, ↓reduceIte]
      by_cases h2 : (curNode s).kind = .meshMaster ∧ (curNode s).nodeId = 0
      · simp only [h2, and_self, ↓reduceIte, getAddress_addr]
      · simp only [h2, ↓reduceIte]

theorem nexec_meshLookupNodeId (address : Option Int) (s : NetState) :
    nexec (meshLookupNodeId address) s =
      match address with
      | none => (.ok ((curNode s).nodeId : Int), s)
      | some a =>
        if a = 0 then (.ok 0, s)
        else match roleId (curNode s) with
          | .unassigned => (.ok NOT_ASSIGNED, s)
          | .master => (.ok (tableNodeId (curNode s).dhcp a.toNat), s)
          | .connected => nexec (lookup2Master a MESH_ID_LOOKUP) s := by
  unfold meshLookupNodeId roleId
  cases address with
  | none => simp only [nexec_bind, nexec_getNode, nexec_pure]
  | some a =>
    simp only [nexec_bind, nexec_getNode, nexec_ite, nexec_pure]
    by_cases h0 : a = 0
    · simp only [h0, ↓reduceIte]
    · simp only [h0, ↓reduceIte]
      by_cases h1 : (curNode s).a.addr = NETWORK_DEFAULT_ADDR
      · simp only [h1, ↓reduceIte]; rfl
      · simp only [h1, ↓reduceIte]
        by_cases h2 : (curNode s).kind = .meshMaster ∧ (curNode s).a.addr = 0
        · simp only [h2, and_self, ↓reduceIte, getAddress_id]
        · simp only [h2, ↓reduceIte]

/-! ### `check_connection` -/

/-- **C17, `check_connection`: the cases decided without transmission** -/
theorem nexec_meshCheckConnection (attempts : Nat) (pingMaster : Bool) (s : NetState) :
    nexec (meshCheckConnection attempts pingMaster) s =
      if (curNode s).nodeId = 0 then (.ok true, s)
      else if (curNode s).a.addr = NETWORK_DEFAULT_ADDR then (.ok false, s)
      else nexec (meshCheckConnection.go pingMaster attempts) s := by
  unfold meshCheckConnection
  simp only [nexec_bind, nexec_getNode, nexec_ite, nexec_pure]

/-- no attempt left: `False` -/
theorem nexec_checkGo_zero (pingMaster : Bool) (s : NetState) :
    nexec (meshCheckConnection.go pingMaster 0) s = (.ok false, s) := by
  rw [meshCheckConnection.go.eq_1]; rfl

/-- one attempt with `ping_master`: ask the master for the own ID; `-2` ⇒ `False`, the own
    address ⇒ `True`, anything else (another address, `-1`) ⇒ next attempt -/
theorem nexec_checkGo_ping (k : Nat) (s : NetState) :
    nexec (meshCheckConnection.go true (k + 1)) s =
      match nexec (meshLookupAddress ((curNode s).nodeId : Int)) s with
      | (.error e, s1) => (.error e, s1)
      | (.ok r, s1) =>
        match pingVerdict (curNode s).a.addr r with
        | .notConnected => (.ok false, s1)
        | .connected => (.ok true, s1)
        | .retry => nexec (meshCheckConnection.go true k) s1 := by
  rw [meshCheckConnection.go.eq_2]
  simp only [nexec_bind, nexec_getNode, ↓reduceIte]
  rcases nexec (meshLookupAddress ((curNode s).nodeId : Int)) s with ⟨r, s1⟩
  cases r with
  | error e => rfl
  | ok v =>
    simp only [nexec_ite, nexec_pure, pingVerdict, NOT_ASSIGNED]
    by_cases h1 : v = -2
    · simp only [h1, ↓reduceIte]
    · simp only [h1, ↓reduceIte]
      by_cases h2 : v = ((curNode s).a.addr : Int)
      · simp only [h2, ↓reduceIte]
      · simp only [h2, ↓reduceIte]

/-- one attempt without `ping_master`: a NETWORK_PING written to the parent; delivered ⇒ `True` -/
theorem nexec_checkGo_parent (k : Nat) (s : NetState) :
    nexec (meshCheckConnection.go false (k + 1)) s =
      match nexec (meshWrite (curNode s).a.parent (NETWORK_PING : Nat) []) s with
      | (.error e, s1) => (.error e, s1)
      | (.ok true, s1) => (.ok true, s1)
      | (.ok false, s1) => nexec (meshCheckConnection.go false k) s1 := by
  rw [meshCheckConnection.go.eq_2]
  simp only [nexec_bind, nexec_getNode, Bool.false_eq_true, ↓reduceIte]
  rcases nexec (meshWrite (curNode s).a.parent (NETWORK_PING : Nat) []) s with ⟨r, s1⟩
  cases r with
  | error e => rfl
  | ok b => cases b <;> rfl

/-! ### `release_address` (non-master) -/

/-- the state in which `release_address()` calls `_write(0, TX_NORMAL)`: type 197 to the master,
    from the node's address, empty body -/
def releaseSent (s : NetState) : NetState :=
  updCur s fun n => { n with frameBuf :=
    { header := { n.frameBuf.header with msgType := .int MESH_ADDR_RELEASE, toNode := 0,
                                         fromNode := (curNode s).a.addr },
      message := [] } }

/-- **C17, `release_address()`**: an unassigned node returns `False` and sends nothing; an assigned
    one sends the release frame to the master; if that is delivered it re-begins at 0o4444 and
    returns `True`, else `False` (keeping its address) -/
theorem nexec_meshRelease (s : NetState) :
    nexec meshRelease s =
      if (curNode s).a.addr = NETWORK_DEFAULT_ADDR then (.ok false, s)
      else match nexec (nodeWrite F 0 TX_NORMAL) (releaseSent s) with
        | (.error e, s1) => (.error e, s1)
        | (.ok false, s1) => (.ok false, s1)
        | (.ok true, s1) =>
          match nexec (begin NETWORK_DEFAULT_ADDR) s1 with
          | (.error e, s2) => (.error e, s2)
          | (.ok _, s2) => (.ok true, s2) := by
  unfold meshRelease
  simp only [nexec_bind, nexec_getNode, nexec_ite, nexec_pure, ne_eq, ite_not, nexec_setHdr, nexec_modNode,
    updCur_updCur]
  by_cases h : (curNode s).a.addr = NETWORK_DEFAULT_ADDR
  · simp only [h, ↓reduceIte]
  · simp only [h, ↓reduceIte]
    have hs : updCur s ((fun nd : Node => { nd with frameBuf := { nd.frameBuf with message := [] } }) ∘
        fun n : Node => { n with frameBuf := { n.frameBuf with header :=
          { (n.frameBuf.header.setTy MESH_ADDR_RELEASE) with toNode := 0, fromNode := (curNode s).a.addr } } })
        = releaseSent s := rfl
    rw [hs]
    rcases nexec (nodeWrite F 0 TX_NORMAL) (releaseSent s) with ⟨r, s1⟩
    cases r with
    | error e => rfl
    | ok b =>
      cases b with
      | false => rfl
      | true =>
        simp only [↓reduceIte, nexec_bind]
        rcases nexec (begin NETWORK_DEFAULT_ADDR) s1 with ⟨r2, s2⟩
        cases r2 <;> rfl

/-! ### mesh `send` -/

/-- **C17, `send(to_node_id, …)`**: an unassigned node sends nothing; the own ID maps to the own
    address; ID 0 to address 0; any other ID is resolved by the lookup loop and the frame is written
    to *the looked-up address, whatever its value* — it is not compared with the node's ID again
    (fix 9861807) -/
theorem nexec_meshSend (toId : Nat) (ty : Int) (msg : Bytes) (s : NetState) :
    nexec (meshSend toId ty msg) s =
      if (curNode s).a.addr = NETWORK_DEFAULT_ADDR then (.ok false, s)
      else if toId ≠ 0 ∧ toId ≠ (curNode s).nodeId then
        match nexec (sendLookupLoop toId (115 * 1000000 + s.w.clock) 1000 5) s with
        | (.error e, s1) => (.error e, s1)
        | (.ok none, s1) => (.ok false, s1)
        | (.ok (some a), s1) => nexec (meshWrite a.toNat ty msg) s1
      else if toId = (curNode s).nodeId then nexec (meshWrite (curNode s).a.addr ty msg) s
      else nexec (meshWrite toId ty msg) s := by
  unfold meshSend
  simp only [nexec_bind, nexec_getNode, nexec_ite, nexec_pure, nexec_nowNs]
  by_cases h : (curNode s).a.addr = NETWORK_DEFAULT_ADDR
  · simp only [h, ↓reduceIte]
  · simp only [h, ↓reduceIte]
    by_cases h2 : toId ≠ 0 ∧ toId ≠ (curNode s).nodeId
    · simp only [h2, and_self, ↓reduceIte]
      rcases nexec (sendLookupLoop toId (115 * 1000000 + s.w.clock) 1000 5) s with ⟨r, s1⟩
      cases r with
      | error e => rfl
      | ok o => cases o <;> rfl
    · simp only [h2, ↓reduceIte]

/-- one round of the lookup loop of `send()` -/
theorem sendLookupLoop_succ (toId deadline f retryDelay : Nat) :
    sendLookupLoop toId deadline (f + 1) retryDelay = (do
      let a ← meshLookupAddress toId
      if (← nowNs) ≥ deadline then return none
      if a < 0 then
        sleepNs (retryDelay * 1000000)
        sendLookupLoop toId deadline f (retryDelay + 10)
      else return some a) := by
  rw [sendLookupLoop]

/-! ### the lookup loop of `send()` ends by its deadline -/

/-- the loop of `send()` over an arbitrary lookup computation -/
def lookupLoopG (look : NetM Int) (deadline : Nat) : Nat → Nat → NetM (Option Int)
  | 0, _ => throw .diverge
  | f + 1, retryDelay => do
    let a ← look
    if (← nowNs) ≥ deadline then return none
    if a < 0 then
      sleepNs (retryDelay * 1000000)
      lookupLoopG look deadline f (retryDelay + 10)
    else return some a

theorem sendLookupLoop_eq (toId deadline : Nat) : ∀ f retryDelay,
    sendLookupLoop toId deadline f retryDelay = lookupLoopG (meshLookupAddress toId) deadline f retryDelay := by
  intro f
  induction f with
  | zero => intro _; rfl
  | succ f ih => intro rd; rw [sendLookupLoop, lookupLoopG, ih]

/-- time slept before the loop would run out of `f` further rounds -/
def sleepBudget : Nat → Nat → Nat
  | 0, _ => 0
  | f + 1, rd => rd * 1000000 + sleepBudget f (rd + 10)

theorem sleepBudget_ge (f rd : Nat) : f * (rd * 1000000) ≤ sleepBudget f rd := by
  induction f generalizing rd with
  | zero => simp [sleepBudget]
  | succ f ih =>
    have := ih (rd + 10)
    simp only [sleepBudget]
    have h2 : f * (rd * 1000000) ≤ f * ((rd + 10) * 1000000) :=
      Nat.mul_le_mul_left _ (Nat.mul_le_mul_right _ (by omega))
    rw [Nat.succ_mul]
    omega

/-- **C17, the lookup loop of `send()` terminates.**  Let `P` be a property of states that the
    lookup and sleeping keep, and under which a lookup never moves the clock backwards.  Then with
    the deadline at most `sleepBudget f retryDelay` ns away the loop ends within `f + 1` rounds: it
    never runs out of fuel — an exception can only be one the lookup itself raised. -/
theorem lookupLoopG_terminates (look : NetM Int) (P : NetState → Prop)
    (hP : ∀ s, P s → P (nexec look s).2 ∧ s.w.clock ≤ (nexec look s).2.w.clock)
    (hsl : ∀ s n, P s → P { s with w := s.w.sleep n }) (deadline : Nat) :
    ∀ f rd s, P s → deadline ≤ s.w.clock + sleepBudget f rd →
      ∀ e, (nexec (lookupLoopG look deadline (f + 1) rd) s).1 = .error e →
        ∃ s', P s' ∧ (nexec look s').1 = .error e := by
  intro f
  induction f with
  | zero =>
    intro rd s hs hd e he
    rw [lookupLoopG] at he
    simp only [nexec_bind, nexec_nowNs] at he
    have hmono := (hP s hs).2
    rcases hl : nexec look s with ⟨r, s1⟩
    rw [hl] at he hmono
    cases r with
    | error e' => exact ⟨s, hs, by rw [hl]; simpa using he⟩
    | ok a =>
      simp only [sleepBudget, Nat.add_zero] at hd
      have : s1.w.clock ≥ deadline := by simp only at hmono; omega
      simp only [this, ↓reduceIte, nexec_pure] at he
      cases he
  | succ f ih =>
    intro rd s hs hd e he
    rw [lookupLoopG] at he
    simp only [nexec_bind, nexec_nowNs] at he
    have hmono := (hP s hs).2
    have hs1 := (hP s hs).1
    rcases hl : nexec look s with ⟨r, s1⟩
    rw [hl] at he hmono hs1
    cases r with
    | error e' => exact ⟨s, hs, by rw [hl]; simpa using he⟩
    | ok a =>
      simp only at he hmono hs1
      by_cases h1 : s1.w.clock ≥ deadline
      · simp only [h1, ↓reduceIte, nexec_pure] at he
        cases he
      · simp only [h1, ↓reduceIte] at he
        by_cases h2 : a < 0
        · simp only [h2, ↓reduceIte, nexec_bind, nexec_sleepNs] at he
          refine ih (rd + 10) _ (hsl s1 (rd * 1000000) hs1) ?_ e he
          simp only [sleepBudget] at hd
          show deadline ≤ s1.w.clock + rd * 1000000 + sleepBudget f (rd + 10)
          omega
        · simp only [h2, ↓reduceIte, nexec_pure] at he
          cases he

/-- the instance used by `send()`: fuel 1000, first delay 5 ms, deadline 115 ms after the start -/
theorem sendLookupLoop_terminates (toId : Nat) (P : NetState → Prop)
    (hP : ∀ s, P s → P (nexec (meshLookupAddress toId) s).2 ∧
      s.w.clock ≤ (nexec (meshLookupAddress toId) s).2.w.clock)
    (hsl : ∀ s n, P s → P { s with w := s.w.sleep n }) (s : NetState) (hs : P s) (e : PyErr)
    (he : (nexec (sendLookupLoop toId (115 * 1000000 + s.w.clock) 1000 5) s).1 = .error e) :
    ∃ s', P s' ∧ (nexec (meshLookupAddress toId) s').1 = .error e := by
  rw [sendLookupLoop_eq] at he
  refine lookupLoopG_terminates _ P hP hsl _ 999 5 s hs ?_ e he
  have := sleepBudget_ge 999 5
  omega

/-- the loop makes at most six lookups (5 + 15 + 25 + 35 + 45 ms of sleeping exceed 115 ms) -/
example : 115 * 1000000 ≤ sleepBudget 5 5 := by decide

/-! ### the acceptance test of `_request_address` -/

theorem getLevel_eq_octLen (a : Nat) : getLevel a = octLen a := by
  induction a using Nat.strongRecOn with
  | _ a ih =>
    rw [getLevel, octLen]
    by_cases h : a = 0
    · simp [h]
    · simp only [h, ↓reduceIte]
      rw [Nat.shiftRight_eq_div_pow, ih (a / 2 ^ 3) (by omega)]

/-- **the level of an address is the number of its octal digits** -/
theorem octLen_val {ds : List Nat} (h : DigitsOk ds) : octLen (val ds) = ds.length := by
  induction ds with
  | nil => rw [octLen]; simp [val]
  | cons d ds ih =>
    have hd := h d (by simp)
    have h' : DigitsOk ds := fun x hx => h x (by simp [hx])
    rw [octLen]
    have h0 : val (d :: ds) ≠ 0 := by simp only [val]; omega
    have hdiv : val (d :: ds) / 8 = val ds := by simp only [val]; omega
    simp only [h0, ↓reduceIte, hdiv, ih h', List.length_cons]
    omega

/-- the mask the code applies, `new_addr & ~(0xFFFF << (level * 3))`, keeps the low `level` octal
    digits -/
theorem test_eq_below (contact v : Nat) :
    decide (v % 2 ^ (getLevel contact * 3) = contact) = below contact v := by
  unfold below
  rw [getLevel_eq_octLen, Nat.mul_comm, Nat.pow_mul]
  by_cases h : v % (2 ^ 3) ^ octLen contact = contact
  · have : v % 8 ^ octLen contact = contact := h
    simp [this]
  · have : ¬ v % 8 ^ octLen contact = contact := h
    simp [this]

/-- **a direct child offered below a valid contact passes the test** (the master's side, C16_child,
    offers `via + i·8^level(via)`) -/
theorem below_child {via : List Nat} (h : DigitsOk via) (i : Nat) :
    below (val via) (child via i) = true := by
  unfold below child
  rw [octLen_val h, Nrf.Proofs.Lease.val_append_single, Nat.add_mul_mod_self_left,
    Nat.mod_eq_of_lt (Nrf.Proofs.Lease.val_lt h)]
  simp

/-- what the joining node found in `frame_buf` when it accepted the address `v` from `contact` -/
structure Accepted (contact v : Nat) (s : NetState) : Prop where
  /-- the state is the one a `_net_update()` that returned MESH_ADDR_RESPONSE (128) ended in -/
  response : ∃ s1, nexec (netUpdate F 0) s1 = (.ok MESH_ADDR_RESPONSE, s)
  ownId : (curNode s).frameBuf.header.reserved = (curNode s).nodeId
  offered : unpackH (pySlice (curNode s).frameBuf.message 0 2) = .ok v
  lies : below contact v = true

/-- **C17, acceptance.**  Whatever arrives and whenever: if the waiting loop for `contact` ends with
    an address, that address is either the one carried over from an earlier contact of the same
    `_request_address` call (Python does not reset `new_addr`), or it was taken from a frame for
    which `_net_update()` returned type 128, whose `reserved` byte is the node's own ID and whose
    16-bit body lies below the contact. -/
theorem responseWait_accepts (contact deadline : Nat) :
    ∀ fuel carried s v s', nexec (responseWait contact deadline fuel carried) s = (.ok (some v), s') →
      carried = some v ∨ Accepted contact v s' := by
  intro fuel
  induction fuel with
  | zero =>
    intro carried s v s' h
    rw [responseWait.eq_1] at h
    cases h
  | succ f ih =>
    intro carried s v s' h
    rw [responseWait.eq_2] at h
    simp only [nexec_bind, nexec_nowNs] at h
    by_cases hd : s.w.clock < deadline
    · simp only [hd, ↓reduceIte, nexec_bind] at h
      rcases hn : nexec (netUpdate F 0) s with ⟨r, s1⟩
      rw [hn] at h
      cases r with
      | error e => cases h
      | ok t =>
        simp only [nexec_getNode] at h
        by_cases hc : t = MESH_ADDR_RESPONSE ∧ (curNode s1).frameBuf.header.reserved = (curNode s1).nodeId
        · simp only [hc, and_self, ↓reduceIte, nexec_bind] at h
          cases hu : unpackH (pySlice (curNode s1).frameBuf.message 0 2) with
          | error e => rw [hu] at h; cases h
          | ok x =>
            rw [hu] at h
            simp only [nexec_liftPy_ok, ne_eq, ite_not, nexec_ite, nexec_pure] at h
            by_cases ht : x % 2 ^ (getLevel contact * 3) = contact
            · simp only [ht, ↓reduceIte] at h
              cases h
              right
              refine ⟨⟨s, by rw [hn, hc.1]⟩, hc.2, hu, ?_⟩
              rw [← test_eq_below]; simpa using ht
            · simp only [ht, ↓reduceIte] at h
              rcases ih none s1 v s' h with h1 | h1
              · cases h1
              · exact Or.inr h1
        · simp only [hc, ↓reduceIte] at h
          exact ih carried s1 v s' h
    · simp only [hd, ↓reduceIte, nexec_pure] at h
      cases h
      exact Or.inl rfl

end Nrf.Proofs.MeshK
