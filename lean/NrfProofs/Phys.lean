/-
`_pipe_address` on tree nodes and level addresses, and injectivity of the physical address spec.
-/
import NrfProofs.Route

namespace Nrf.Proofs
open Nrf.Net Nrf.Spec

/-- `g` reads the suffix table on 0..5 -/
def SfxFn (sfx : List Nat) (g : Nat → Nat) : Prop := ∀ i, i ≤ 5 → sfx[i]? = some (g i)

theorem pyGet_nat {l : List Nat} {i x : Nat} (h : l[i]? = some x) : pyGet l (i : Int) = .ok x := by
  unfold pyGet
  have h1 : ¬ ((i : Int) < 0) := by omega
  simp [h1, h]

theorem pipeAddrLoop_zero (cfg : AddrCfg) (store : Bool) (c : Nat) (r : Bytes) :
    pipeAddrLoop cfg store 0 c r = .ok (r, c) := by
  rw [pipeAddrLoop]; simp

theorem pipeAddrLoop_cons_true (cfg : AddrCfg) {d : Nat} (ds : List Nat) (c : Nat)
    (r : Bytes) (h1 : 1 ≤ d) (h8 : d < 8) :
    pipeAddrLoop cfg true (val (d :: ds)) c r =
      (do let s ← pyGet cfg.sfx (d : Nat)
          let r' ← setByte r c s
          pipeAddrLoop cfg true (val ds) (c + 1) r') := by
  rw [pipeAddrLoop]
  have h0 : val (d :: ds) ≠ 0 := by rw [val_cons]; omega
  have hm : val (d :: ds) % 8 = d := by rw [val_cons]; omega
  have hs : val (d :: ds) >>> 3 = val ds := by rw [shr3, val_cons]; omega
  simp only [h0, ↓reduceIte, hm, hs]

theorem pipeAddrLoop_cons_false (cfg : AddrCfg) {d : Nat} (ds : List Nat) (c : Nat)
    (r : Bytes) (h1 : 1 ≤ d) (h8 : d < 8) :
    pipeAddrLoop cfg false (val (d :: ds)) c r = pipeAddrLoop cfg false (val ds) (c + 1) r := by
  rw [pipeAddrLoop]
  have h0 : val (d :: ds) ≠ 0 := by rw [val_cons]; omega
  have hs : val (d :: ds) >>> 3 = val ds := by rw [shr3, val_cons]; omega
  simp [h0, hs]

/-- counting digits only (the multicast pipe-0 branch) -/
theorem pipeAddrLoop_false (cfg : AddrCfg) {ds : List Nat} (h : DigitsOk ds) (c : Nat) (r : Bytes) :
    pipeAddrLoop cfg false (val ds) c r = .ok (r, c + ds.length) := by
  induction ds generalizing c with
  | nil => simp [val, pipeAddrLoop_zero]
  | cons d ds ih =>
    rw [digitsOk_cons] at h
    rw [pipeAddrLoop_cons_false cfg ds c r (by omega) (by omega), ih h.2]
    simp; omega

/-- the unicast physical address as a function of the suffix reader -/
def physFn (pfx : Nat) (g : Nat → Nat) (ds : List Nat) (p : Nat) : Bytes :=
  g p :: (ds.map g ++ List.replicate (4 - ds.length) pfx)

theorem pipeAddress_node {cfg : AddrCfg} {g : Nat → Nat} (hg : SfxFn cfg.sfx g) {ds : List Nat}
    (hn : IsNode ds) {p : Nat} (hp : p ≤ 5)
    (hc : cfg.allowMulticast = false ∨ p ≠ 0 ∨ ds = []) :
    pipeAddress cfg (val ds) p = .ok (physFn cfg.pfx g ds p) := by
  have hcond : (!cfg.allowMulticast || (cfg.allowMulticast && (decide (p ≠ 0) || decide (val ds = 0))))
      = true := by
    rcases hc with h | h | h
    · simp [h]
    · cases cfg.allowMulticast <;> simp [h]
    · subst h; cases cfg.allowMulticast <;> simp [val]
  unfold pipeAddress
  simp only [hcond]
  obtain ⟨hok, hlen⟩ := hn
  have gp := pyGet_nat (hg p hp)
  have v0 : val ([] : List Nat) = 0 := rfl
  rcases ds with _ | ⟨a, _ | ⟨b, _ | ⟨c, _ | ⟨d, _ | ⟨e, tl⟩⟩⟩⟩⟩
  · simp [v0, pipeAddrLoop_zero, gp, setByte, physFn, bind, Except.bind]
  · have ha := hok a (by simp)
    have ga := pyGet_nat (hg a (by omega))
    simp [pipeAddrLoop_cons_true cfg _ _ _ ha.1 (by omega), v0, pipeAddrLoop_zero, gp, ga, setByte, physFn, bind, Except.bind]
  · have ha := hok a (by simp)
    have hb := hok b (by simp)
    have ga := pyGet_nat (hg a (by omega))
    have gb := pyGet_nat (hg b (by omega))
    simp [pipeAddrLoop_cons_true cfg _ _ _ ha.1 (by omega),
      pipeAddrLoop_cons_true cfg _ _ _ hb.1 (by omega), v0, pipeAddrLoop_zero, gp, ga, gb, setByte,
      physFn, bind, Except.bind]
  · have ha := hok a (by simp)
    have hb := hok b (by simp)
    have hc' := hok c (by simp)
    have ga := pyGet_nat (hg a (by omega))
    have gb := pyGet_nat (hg b (by omega))
    have gc := pyGet_nat (hg c (by omega))
    simp [pipeAddrLoop_cons_true cfg _ _ _ ha.1 (by omega),
      pipeAddrLoop_cons_true cfg _ _ _ hb.1 (by omega),
      pipeAddrLoop_cons_true cfg _ _ _ hc'.1 (by omega), v0, pipeAddrLoop_zero, gp, ga, gb, gc,
      setByte, physFn, bind, Except.bind]
  · have ha := hok a (by simp)
    have hb := hok b (by simp)
    have hc' := hok c (by simp)
    have hd := hok d (by simp)
    have ga := pyGet_nat (hg a (by omega))
    have gb := pyGet_nat (hg b (by omega))
    have gc := pyGet_nat (hg c (by omega))
    have gd := pyGet_nat (hg d (by omega))
    simp [pipeAddrLoop_cons_true cfg _ _ _ ha.1 (by omega),
      pipeAddrLoop_cons_true cfg _ _ _ hb.1 (by omega),
      pipeAddrLoop_cons_true cfg _ _ _ hc'.1 (by omega),
      pipeAddrLoop_cons_true cfg _ _ _ hd.1 (by omega), v0, pipeAddrLoop_zero, gp, ga, gb, gc, gd,
      setByte, physFn, bind, Except.bind]
  · simp at hlen

/-- pipe 0 of a node below the master when multicast is allowed: only byte 1 is set, to the
    suffix byte numbered like the node's level -/
theorem pipeAddress_mc {cfg : AddrCfg} {g : Nat → Nat} (hg : SfxFn cfg.sfx g) {ds : List Nat}
    (hn : IsNode ds) (hne : ds ≠ []) (ham : cfg.allowMulticast = true) :
    pipeAddress cfg (val ds) 0 = .ok [cfg.pfx, g ds.length, cfg.pfx, cfg.pfx, cfg.pfx] := by
  have hpos : 0 < ds.length := List.length_pos_iff.mpr hne
  have hv : val ds ≠ 0 := by
    have := val_ge hn.1 hne
    have : 0 < 8 ^ (ds.length - 1) := Nat.pow_pos (by omega)
    omega
  have gl := pyGet_nat (hg ds.length (by have := hn.2; omega))
  unfold pipeAddress
  simp only [ham, hv]
  rw [show (!true || true && (decide ((0 : Nat) ≠ 0) || decide False)) = false from by decide]
  rw [pipeAddrLoop_false cfg hn.1]
  have : (1 + (ds.length : Int) - 1) = (ds.length : Int) := by omega
  simp [bind, Except.bind, this, gl, setByte]

/-- counting digits, for any number whose most significant octal digit is digit `L-1` -/
theorem pipeAddrLoop_count (cfg : AddrCfg) (L : Nat) : ∀ (a c : Nat) (r : Bytes),
    (L = 0 → a = 0) → (0 < L → 8 ^ (L - 1) ≤ a ∧ a < 8 ^ L) →
    pipeAddrLoop cfg false a c r = .ok (r, c + L) := by
  induction L with
  | zero => intro a c r h0 _; rw [h0 rfl, pipeAddrLoop_zero]; rfl
  | succ L ih =>
    intro a c r _ h
    obtain ⟨hlo, hhi⟩ := h (by omega)
    simp only [Nat.add_sub_cancel] at hlo
    have hpos : 0 < 8 ^ L := Nat.pow_pos (by omega)
    have ha : a ≠ 0 := by omega
    rw [pipeAddrLoop]
    simp only [ha, ↓reduceIte, Bool.false_eq_true, shr3]
    have := ih (a / 8) (c + 1) r
      (by intro hL; subst hL; simp at hhi; omega)
      (by
        intro hL
        have e : 8 ^ L = 8 * 8 ^ (L - 1) := by
          have : L = (L - 1) + 1 := by omega
          rw [this, Nat.pow_succ]; simp; omega
        rw [Nat.pow_succ] at hhi
        omega)
    simp only [pure, Except.pure, bind, Except.bind]
    rw [this]
    congr 2; omega

theorem lvl2addr_eq {L : Nat} (h : 0 < L) : lvl2addr L = 8 ^ (L - 1) := by
  have h0 : L ≠ 0 := by omega
  have : (8 : Nat) ^ (L - 1) = 2 ^ ((L - 1) * 3) := by rw [Nat.mul_comm, Nat.pow_mul]
  simp [lvl2addr, h0, Nat.shiftLeft_eq, this]

/-- `_pipe_address(_lvl_2_addr(L), 0)` with multicast allowed -/
theorem pipeAddress_lvl {cfg : AddrCfg} {g : Nat → Nat} (hg : SfxFn cfg.sfx g) {L : Nat}
    (h1 : 1 ≤ L) (h5 : L ≤ 5) (ham : cfg.allowMulticast = true) :
    pipeAddress cfg (lvl2addr L) 0 = .ok [cfg.pfx, g L, cfg.pfx, cfg.pfx, cfg.pfx] := by
  have hpos : 0 < 8 ^ (L - 1) := Nat.pow_pos (by omega)
  have hlt : 8 ^ (L - 1) < 8 ^ L := Nat.pow_lt_pow_right (by omega) (by omega)
  have hv : lvl2addr L ≠ 0 := by rw [lvl2addr_eq h1]; omega
  have gl := pyGet_nat (hg L h5)
  unfold pipeAddress
  simp only [ham, hv]
  rw [show (!true || true && (decide ((0 : Nat) ≠ 0) || decide False)) = false from by decide]
  rw [pipeAddrLoop_count cfg L _ _ _ (by omega) (fun _ => by rw [lvl2addr_eq h1]; omega)]
  have : (1 + (L : Int) - 1) = (L : Int) := by omega
  simp [bind, Except.bind, this, gl, setByte]

theorem pipeAddress_lvl0 {cfg : AddrCfg} {g : Nat → Nat} (hg : SfxFn cfg.sfx g) :
    pipeAddress cfg (lvl2addr 0) 0 = .ok (physFn cfg.pfx g [] 0) :=
  pipeAddress_node (ds := []) hg (by decide) (by omega) (Or.inr (Or.inr rfl))

/-! ### the suffix table as a function; the spec in closed form -/

/-- `address_suffix` has 6 pairwise distinct bytes, none equal to the prefix byte -/
def SfxOk (pfx : Nat) (sfx : List Nat) : Prop := sfx.length = 6 ∧ sfx.Nodup ∧ pfx ∉ sfx

/-- suffix byte `i` (only used below 6, where it is `sfx[i]`) -/
def sfxFn (sfx : List Nat) (i : Nat) : Nat := sfx[i]?.getD 0

theorem sfxFn_spec {sfx : List Nat} (h : sfx.length = 6) : SfxFn sfx (sfxFn sfx) := by
  intro i hi
  have hlt : i < sfx.length := by omega
  simp [sfxFn, List.getElem?_eq_getElem hlt]

theorem sfxFn_inj {pfx : Nat} {sfx : List Nat} (h : SfxOk pfx sfx) {i j : Nat} (hi : i ≤ 5)
    (hj : j ≤ 5) (he : sfxFn sfx i = sfxFn sfx j) : i = j := by
  obtain ⟨hl, hnd, _⟩ := h
  have hi' : i < sfx.length := by omega
  have hj' : j < sfx.length := by omega
  simp only [sfxFn, List.getElem?_eq_getElem hi', List.getElem?_eq_getElem hj', Option.getD_some] at he
  rw [List.nodup_iff_pairwise_ne, List.pairwise_iff_getElem] at hnd
  by_cases h1 : i < j
  · exact absurd he (hnd i j hi' hj' h1)
  · by_cases h2 : j < i
    · exact absurd he.symm (hnd j i hj' hi' h2)
    · omega

theorem sfxFn_ne_pfx {pfx : Nat} {sfx : List Nat} (h : SfxOk pfx sfx) {i : Nat} (hi : i ≤ 5) :
    sfxFn sfx i ≠ pfx := by
  obtain ⟨hl, _, hp⟩ := h
  have hi' : i < sfx.length := by omega
  simp only [sfxFn, List.getElem?_eq_getElem hi', Option.getD_some]
  intro he
  exact hp (he ▸ List.getElem_mem hi')

theorem mapSfx_eq {sfx : List Nat} {g : Nat → Nat} (hg : SfxFn sfx g) {ds : List Nat}
    (h : DigitsOk ds) : mapSfx sfx ds = some (ds.map g) := by
  induction ds with
  | nil => rfl
  | cons d ds ih =>
    rw [digitsOk_cons] at h
    simp [mapSfx, hg d (by omega), ih h.2]

theorem physAddrSpec_eq {pfx : Nat} {sfx : List Nat} {g : Nat → Nat} (hg : SfxFn sfx g)
    {ds : List Nat} (h : DigitsOk ds) {p : Nat} (hp : p ≤ 5) :
    physAddrSpec pfx sfx ds p = some (physFn pfx g ds p) := by
  simp [physAddrSpec, hg p hp, mapSfx_eq hg h, physFn]

theorem levelAddrSpec_eq {pfx : Nat} {sfx : List Nat} {g : Nat → Nat} (hg : SfxFn sfx g) {L : Nat}
    (h1 : 1 ≤ L) (h5 : L ≤ 5) : levelAddrSpec pfx sfx L = some [pfx, g L, pfx, pfx, pfx] := by
  have : L ≠ 0 := by omega
  simp [levelAddrSpec, this, hg L h5]

theorem levelAddrSpec_zero {pfx : Nat} {sfx : List Nat} {g : Nat → Nat} (hg : SfxFn sfx g) :
    levelAddrSpec pfx sfx 0 = some (physFn pfx g [] 0) := by
  simp [levelAddrSpec, physAddrSpec_eq (ds := []) hg (by simp [DigitsOk]) (Nat.zero_le 5)]

/-! ### injectivity -/

theorem pad_inj {pfx : Nat} {g : Nat → Nat}
    (ginj : ∀ i j, 1 ≤ i → i ≤ 5 → 1 ≤ j → j ≤ 5 → g i = g j → i = j)
    (gne : ∀ i, 1 ≤ i → i ≤ 5 → g i ≠ pfx) :
    ∀ (n : Nat) (a b : List Nat), DigitsOk a → DigitsOk b → a.length ≤ n → b.length ≤ n →
      a.map g ++ List.replicate (n - a.length) pfx = b.map g ++ List.replicate (n - b.length) pfx →
      a = b := by
  intro n a
  induction a generalizing n with
  | nil =>
    intro b _ hb _ hbn h
    cases b with
    | nil => rfl
    | cons y ys =>
      rw [digitsOk_cons] at hb
      have hn : n = (n - 1) + 1 := by simp at hbn; omega
      rw [hn] at h
      simp [List.replicate_succ] at h
      exact absurd h.1.symm (gne y hb.1.1 hb.1.2)
  | cons x xs ih =>
    intro b ha hb han hbn h
    rw [digitsOk_cons] at ha
    cases b with
    | nil =>
      have hn : n = (n - 1) + 1 := by simp at han; omega
      rw [hn] at h
      simp [List.replicate_succ] at h
      exact absurd h.1 (gne x ha.1.1 ha.1.2)
    | cons y ys =>
      rw [digitsOk_cons] at hb
      simp only [List.map_cons, List.cons_append, List.length_cons, List.cons.injEq] at h
      have hxy := ginj x y ha.1.1 ha.1.2 hb.1.1 hb.1.2 h.1
      have e1 : n - (xs.length + 1) = (n - 1) - xs.length := by omega
      have e2 : n - (ys.length + 1) = (n - 1) - ys.length := by omega
      rw [e1, e2] at h
      have := ih (n - 1) ys ha.2 hb.2 (by simp at han; omega) (by simp at hbn; omega) h.2
      rw [hxy, this]

/-- distinct (node, pipe) pairs have distinct physical addresses -/
theorem physFn_inj {pfx : Nat} {sfx : List Nat} (h : SfxOk pfx sfx) {a b : List Nat}
    (ha : IsNode a) (hb : IsNode b) {p q : Nat} (hp : p ≤ 5) (hq : q ≤ 5)
    (he : physFn pfx (sfxFn sfx) a p = physFn pfx (sfxFn sfx) b q) : a = b ∧ p = q := by
  simp only [physFn, List.cons.injEq] at he
  refine ⟨?_, sfxFn_inj h hp hq he.1⟩
  exact pad_inj (fun i j _ hi _ hj => sfxFn_inj h hi hj) (fun i _ hi => sfxFn_ne_pfx h hi)
    4 a b ha.1 hb.1 ha.2 hb.2 he.2

/-! ### what a node listens on -/

/-- closed form of the address node `ds` opens on pipe `p` -/
def listenFn (pfx : Nat) (g : Nat → Nat) (am : Bool) (ds : List Nat) (p : Nat) : Bytes :=
  if p = 0 ∧ am = true ∧ ds ≠ [] then [pfx, g ds.length, pfx, pfx, pfx] else physFn pfx g ds p

theorem pipeAddress_listen {cfg : AddrCfg} {g : Nat → Nat} (hg : SfxFn cfg.sfx g) {ds : List Nat}
    (hn : IsNode ds) {p : Nat} (hp : p ≤ 5) :
    pipeAddress cfg (val ds) p = .ok (listenFn cfg.pfx g cfg.allowMulticast ds p) := by
  unfold listenFn
  split
  · rename_i h
    obtain ⟨rfl, ham, hne⟩ := h
    exact pipeAddress_mc hg hn hne ham
  · rename_i h
    apply pipeAddress_node hg hn hp
    by_cases h1 : cfg.allowMulticast = false
    · exact Or.inl h1
    · by_cases h2 : p = 0
      · right; right
        have ham : cfg.allowMulticast = true := by simpa using h1
        apply Classical.byContradiction
        intro hne
        exact h ⟨h2, ham, hne⟩
      · exact Or.inr (Or.inl h2)

theorem listenSpec_eq {pfx : Nat} {sfx : List Nat} {g : Nat → Nat} (hg : SfxFn sfx g) (am : Bool)
    {ds : List Nat} (hn : IsNode ds) {p : Nat} (hp : p ≤ 5) :
    listenSpec pfx sfx am ds p = some (listenFn pfx g am ds p) := by
  unfold listenSpec listenFn
  by_cases h0 : p = 0 ∧ am = true
  · rw [if_pos h0]
    by_cases hne : ds = []
    · subst hne
      rw [if_neg (by simp), List.length_nil, levelAddrSpec_zero hg, h0.1]
    · have hpos : 0 < ds.length := List.length_pos_iff.mpr hne
      rw [if_pos ⟨h0.1, h0.2, hne⟩, levelAddrSpec_eq hg hpos (by have := hn.2; omega)]
  · rw [if_neg h0, if_neg (fun h => h0 ⟨h.1, h.2.1⟩), physAddrSpec_eq hg hn.1 hp]

theorem beginPipes_eq {cfg : AddrCfg} {g : Nat → Nat} (hg : SfxFn cfg.sfx g) {ds : List Nat}
    (hn : IsNode ds) :
    beginPipes cfg (val ds) =
      .ok ([0, 1, 2, 3, 4, 5].map (listenFn cfg.pfx g cfg.allowMulticast ds)) := by
  simp [beginPipes, pipeAddress_listen hg hn, pure, Except.pure, bind, Except.bind]

theorem listenFn_length (pfx : Nat) (g : Nat → Nat) (am : Bool) {ds : List Nat} (h : ds.length ≤ 4)
    (p : Nat) : (listenFn pfx g am ds p).length = 5 := by
  unfold listenFn physFn
  split <;> simp <;> omega

theorem listenFn_tail {pfx : Nat} {g : Nat → Nat} {am : Bool} {ds : List Nat} {p q : Nat}
    (hp : 1 ≤ p) (hq : 1 ≤ q) :
    (listenFn pfx g am ds p).drop 1 = (listenFn pfx g am ds q).drop 1 := by
  have h1 : p ≠ 0 := by omega
  have h2 : q ≠ 0 := by omega
  simp [listenFn, physFn, h1, h2]

theorem listenFn_take {pfx : Nat} {g : Nat → Nat} {am : Bool} {ds : List Nat} {p : Nat}
    (hp : 1 ≤ p) : (listenFn pfx g am ds p).take 1 = [g p] := by
  have h1 : p ≠ 0 := by omega
  simp [listenFn, physFn, h1]

/-- a unicast pipe address (pipe 1..5) is never what some node listens on with pipe 0 when
    multicast is allowed, and otherwise determines node and pipe -/
theorem listenFn_inj {pfx : Nat} {sfx : List Nat} (h : SfxOk pfx sfx) (am : Bool) {a b : List Nat}
    (ha : IsNode a) (hb : IsNode b) {p q : Nat} (hp1 : 1 ≤ p) (hp : p ≤ 5) (hq : q ≤ 5)
    (he : listenFn pfx (sfxFn sfx) am a p = listenFn pfx (sfxFn sfx) am b q) : a = b ∧ p = q := by
  have hp0 : p ≠ 0 := by omega
  unfold listenFn at he
  rw [if_neg (fun h => hp0 h.1)] at he
  split at he
  · have := sfxFn_ne_pfx h hp
    simp [physFn] at he
    exact absurd he.1 this
  · exact physFn_inj h ha hb hp hq he

/-- pipe-0 addresses (multicast allowed) coincide exactly for nodes of the same level -/
theorem listenFn0_eq_iff {pfx : Nat} {sfx : List Nat} (h : SfxOk pfx sfx) {a b : List Nat}
    (ha : IsNode a) (hb : IsNode b) :
    listenFn pfx (sfxFn sfx) true a 0 = listenFn pfx (sfxFn sfx) true b 0 ↔ a.length = b.length := by
  have g0 := sfxFn_ne_pfx h (Nat.zero_le 5)
  by_cases ha0 : a = [] <;> by_cases hb0 : b = []
  · subst ha0 hb0; simp
  · subst ha0
    have : 0 < b.length := List.length_pos_iff.mpr hb0
    simp [listenFn, physFn, hb0, g0]; omega
  · subst hb0
    have : 0 < a.length := List.length_pos_iff.mpr ha0
    simp [listenFn, physFn, ha0, Ne.symm g0]
  · simp only [listenFn, ha0, hb0, ne_eq, not_false_eq_true, and_self, ↓reduceIte, List.cons.injEq,
      true_and, and_true]
    constructor
    · exact sfxFn_inj h (by have := ha.2; omega) (by have := hb.2; omega)
    · intro e; rw [e]

/-- the level address, model against spec, levels 0..5 -/
theorem pipeAddress_level {cfg : AddrCfg} {g : Nat → Nat} (hg : SfxFn cfg.sfx g)
    (ham : cfg.allowMulticast = true) {L : Nat} (hL : L ≤ 5) :
    ∃ x, levelAddrSpec cfg.pfx cfg.sfx L = some x ∧ pipeAddress cfg (lvl2addr L) 0 = .ok x := by
  by_cases h0 : L = 0
  · subst h0; exact ⟨_, levelAddrSpec_zero hg, pipeAddress_lvl0 hg⟩
  · exact ⟨_, levelAddrSpec_eq hg (by omega) hL, pipeAddress_lvl hg (by omega) hL ham⟩

/-- a node's pipe 0 (multicast allowed) is the address of its level -/
theorem pipeAddress_zero_eq_level {cfg : AddrCfg} {g : Nat → Nat} (hg : SfxFn cfg.sfx g)
    (ham : cfg.allowMulticast = true) {ds : List Nat} (hn : IsNode ds) :
    pipeAddress cfg (val ds) 0 = pipeAddress cfg (lvl2addr ds.length) 0 := by
  by_cases h0 : ds = []
  · subst h0; rfl
  · have hpos : 0 < ds.length := List.length_pos_iff.mpr h0
    rw [pipeAddress_mc hg hn h0 ham, pipeAddress_lvl hg hpos (by have := hn.2; omega) ham]

/-- a level address is a node's own logical address only for the master (level 0) and for node
    `0o1` (level 1) -/
theorem lvl2addr_eq_val_iff {s : List Nat} (hs : IsNode s) {L : Nat} :
    lvl2addr L = val s ↔ (L = 0 ∧ s = []) ∨ (L = 1 ∧ s = [1]) := by
  constructor
  · intro h
    by_cases h0 : L = 0
    · subst h0
      left; refine ⟨rfl, ?_⟩
      exact val_inj hs.1 (by simp [DigitsOk]) (by simpa [lvl2addr, val] using h.symm)
    · right
      rw [lvl2addr_eq (by omega)] at h
      cases s with
      | nil =>
        have : 0 < 8 ^ (L - 1) := Nat.pow_pos (by omega)
        simp [val] at h
      | cons a t =>
        have hok := hs.1
        rw [digitsOk_cons] at hok
        rw [val_cons] at h
        by_cases h1 : L = 1
        · subst h1
          simp at h
          have hv : val t = val [] := by simp [val]; omega
          have := val_inj hok.2 (by simp [DigitsOk]) hv
          subst this
          exact ⟨rfl, by simp [val] at h; rw [← h]⟩
        · have : L - 1 = (L - 2) + 1 := by omega
          rw [this, Nat.pow_succ] at h
          omega
  · rintro (⟨rfl, rfl⟩ | ⟨rfl, rfl⟩) <;> decide

end Nrf.Proofs
