/-
The calls of the spec's attribute alphabet (`Spec.Lite.Setter` / `Getter`) on the lite driver, and
the per-call theorems in that vocabulary.
-/
import NrfProofs.LiteWrite

namespace Nrf
open Lite Spec.Lite

/-- `nrf.<attr> = value` -/
def Lite.runSetter : Setter → LiteM Unit
  | .channel ch => Lite.setChannel ch
  | .arc c => Lite.setArc c
  | .ard d => Lite.setArd d
  | .payloadLength l => Lite.setPayloadLength l
  | .dynamicPayloads b => Lite.setDynamicPayloads b
  | .dataRate sp => Lite.setDataRate sp
  | .paLevel dbm => Lite.setPaLevel (.i dbm)
  | .power b => Lite.setPower b
  | .addressLength len => Lite.setAddressLength len
  | .ack b => Lite.setAck b
  | .interruptConfig dr ds df => Lite.interruptConfig dr ds df

/-- `nrf.<attr>` -/
def Lite.runGetter : Getter → LiteM Val
  | .channel => Val.n <$> Lite.getChannel
  | .arc => Val.n <$> Lite.getArc
  | .ard => Val.n <$> Lite.getArd
  | .payloadLength => Val.n <$> Lite.getPayloadLength
  | .dynamicPayloads => Val.b <$> Lite.getDynamicPayloads
  | .dataRate => Val.n <$> Lite.getDataRate
  | .paLevel => Val.i <$> Lite.getPaLevel
  | .power => Val.b <$> Lite.getPower
  | .addressLength => Val.n <$> Lite.getAddressLength
  | .ack => Val.b <$> Lite.getAck
  | .listen => Val.b <$> Lite.getListen

theorem LiteState.Does.map {α β} {s : LiteState} {m : LiteM α} {a : α} {f : Radio → Radio} (g : α → β)
    (h : s.Does m (.ok a) f) : s.Does (g <$> m) (.ok (g a)) f := by
  obtain ⟨s', e, c, p, o⟩ := h
  refine ⟨s', ?_, c, p, o⟩
  rw [lexec_map, e]

/-- every accepted assignment has exactly its documented effect -/
theorem lite_runSetter_ok (s : LiteState) (h : s.Ok) (st : Setter) (hok : setterOk st = true) :
    s.Does (runSetter st) (.ok ()) (fun r => applySetter r st) := by
  cases st with
  | channel ch => exact lite_setChannel_ok s h ch hok
  | arc c => exact lite_setArc_does s h c
  | ard d => exact lite_setArd_does s h d
  | payloadLength l => exact lite_setPayloadLength_does s h l
  | dynamicPayloads b => exact lite_setDynamicPayloads_does s h b
  | dataRate sp => exact lite_setDataRate_does s h sp
  | paLevel dbm =>
    have hc : (paCode dbm).isSome = true := hok
    obtain ⟨c, hc'⟩ := Option.isSome_iff_exists.mp hc
    have := lite_setPaLevel_ok s h dbm c hc'
    show s.Does (setPaLevel (.i dbm)) (.ok ()) (fun r => Spec.Lite.setPaLevel r ((paCode dbm).getD 0))
    rw [hc']
    exact this
  | power b => exact lite_setPower_does s h b
  | addressLength len => exact lite_setAddressLength_does s h len
  | ack b => exact lite_setAck_does s h b
  | interruptConfig dr ds df => exact lite_interruptConfig_does s h dr ds df

/-- every rejected assignment raises `ValueError` and changes nothing at all -/
theorem lite_runSetter_bad (s : LiteState) (st : Setter) (hok : setterOk st = false) :
    lexec (runSetter st) s = (.error .valueError, s) := by
  cases st with
  | channel ch => exact lite_setChannel_bad s ch hok
  | paLevel dbm =>
    have : paCode dbm = none := by
      have h : (paCode dbm).isSome = false := hok
      cases hp : paCode dbm with
      | none => rfl
      | some c => rw [hp] at h; cases h
    exact lite_setPaLevel_bad s dbm this
  | _ => cases hok

/-- every getter returns the value in effect and changes no configuration -/
theorem lite_runGetter_does (s : LiteState) (h : s.Ok) (g : Getter) :
    s.Does (runGetter g) (.ok (getterVal s.cfg g)) id := by
  cases g with
  | channel => exact (lite_getChannel_does s h).map Val.n
  | arc => exact (lite_getArc_does s h).map Val.n
  | ard => exact (lite_getArd_does s h).map Val.n
  | payloadLength => exact (lite_getPayloadLength_does s h).map Val.n
  | dynamicPayloads => exact (lite_getDynamicPayloads_does s h).map Val.b
  | dataRate => exact (lite_getDataRate_does s h).map Val.n
  | paLevel => exact (lite_getPaLevel_does s h).map Val.i
  | power => exact (lite_getPower_does s h).map Val.b
  | addressLength => exact (lite_getAddressLength_does s h).map Val.n
  | ack => exact (lite_getAck_does s h).map Val.b
  | listen => exact (lite_getListen_does s h).map Val.b

/-- the documented decoding of the documented encoding is the documented meaning (register level) -/
theorem lite_readBack_spec (r : Radio) (hr : r.LiteRegWf) (st : Setter) (hok : setterOk st = true)
    (g : Getter) (v : Val) (hrb : readBack st = some (g, v)) :
    getterVal (applySetter r st) g = v := by
  cases st with
  | channel ch =>
    simp only [readBack, Option.some.injEq, Prod.mk.injEq] at hrb
    obtain ⟨rfl, rfl⟩ := hrb; rfl
  | arc c =>
    simp only [readBack, Option.some.injEq, Prod.mk.injEq] at hrb
    obtain ⟨rfl, rfl⟩ := hrb
    show Val.n (field (setField r.setupRetr 0 4 (arcOf c)) 0 4) = _
    rw [LiteBits.arc_rt _ hr.setupRetr _ (lite_arcOf_lt c)]
  | ard d =>
    simp only [readBack, Option.some.injEq, Prod.mk.injEq] at hrb
    obtain ⟨rfl, rfl⟩ := hrb
    show Val.n ((field (setField r.setupRetr 4 4 (ardCodeOf d)) 4 4 + 1) * 250) = _
    rw [LiteBits.ard_rt _ hr.setupRetr _ (lite_ardCodeOf_lt d)]
  | payloadLength l =>
    simp only [readBack, Option.some.injEq, Prod.mk.injEq] at hrb
    obtain ⟨rfl, rfl⟩ := hrb; rfl
  | dynamicPayloads b =>
    simp only [readBack, Option.some.injEq, Prod.mk.injEq] at hrb
    obtain ⟨rfl, rfl⟩ := hrb
    show Val.b (decide (field (setField r.feature 2 1 (bit b)) 2 1 = 1)) = _
    rw [LiteBits.dpl_rt _ hr.feature _ (by cases b <;> decide)]
    cases b <;> rfl
  | dataRate sp =>
    simp only [readBack, Option.some.injEq, Prod.mk.injEq] at hrb
    obtain ⟨rfl, rfl⟩ := hrb
    obtain ⟨_, hlo, hhi⟩ := lite_rate_code sp
    obtain ⟨e1, e2⟩ := LiteBits.rate_rt _ hr.rfSetup.1 _ hlo _ hhi
    show Val.n (rateOf (field (setField (setField r.rfSetup 5 1 (rateBits sp).1) 3 1 (rateBits sp).2) 5 1)
      (field (setField (setField r.rfSetup 5 1 (rateBits sp).1) 3 1 (rateBits sp).2) 3 1)) = _
    rw [e1, e2]
    unfold rateBits rateOf
    by_cases h1 : sp = 1
    · simp [h1]
    · by_cases h2 : sp = 2
      · simp [h2]
      · simp [h1, h2]
  | paLevel dbm =>
    simp only [readBack, Option.some.injEq, Prod.mk.injEq] at hrb
    obtain ⟨rfl, rfl⟩ := hrb
    have hc : (paCode dbm).isSome = true := hok
    obtain ⟨c, hc'⟩ := Option.isSome_iff_exists.mp hc
    obtain ⟨_, _, hc4⟩ := lite_paCode_cases dbm c hc'
    show Val.i (paOf (field (setField (setField r.rfSetup 1 2 ((paCode dbm).getD 0)) 0 1 1) 1 2)) = _
    rw [hc', Option.getD_some, LiteBits.pa_rt _ hr.rfSetup.1 _ hc4]
    unfold paCode at hc'
    unfold paOf
    congr 1
    by_cases h1 : dbm = -18
    · subst h1; simp at hc'; subst hc'; rfl
    · by_cases h2 : dbm = -12
      · subst h2; simp at hc'; subst hc'; rfl
      · by_cases h3 : dbm = -6
        · subst h3; simp at hc'; subst hc'; rfl
        · by_cases h4 : dbm = 0
          · subst h4; simp at hc'; subst hc'; rfl
          · simp [h1, h2, h3, h4] at hc'
  | power b =>
    simp only [readBack, Option.some.injEq, Prod.mk.injEq] at hrb
    obtain ⟨rfl, rfl⟩ := hrb
    show Val.b (decide (field (setField r.config 1 1 (bit b)) 1 1 = 1)) = _
    rw [LiteBits.power_rt _ hr.config _ (by cases b <;> decide)]
    cases b <;> rfl
  | addressLength len =>
    simp only [readBack, Option.some.injEq, Prod.mk.injEq] at hrb
    obtain ⟨rfl, rfl⟩ := hrb; rfl
  | ack b =>
    simp only [readBack, Option.some.injEq, Prod.mk.injEq] at hrb
    obtain ⟨rfl, rfl⟩ := hrb
    cases b with
    | true =>
      obtain ⟨e1, e2⟩ := LiteBits.ack_on_rt _ hr.feature
      show Val.b (decide (field (setField (setField r.feature 1 1 1) 2 1 1) 1 1 = 1) &&
        decide (field (setField (setField r.feature 1 1 1) 2 1 1) 2 1 = 1) && decide ((0x3F : Nat) ≠ 0)) = _
      rw [e1, e2]; rfl
    | false =>
      have e1 := LiteBits.ack_off_rt _ hr.feature
      show Val.b (decide (field (setField r.feature 1 1 0) 1 1 = 1) &&
        decide (field (setField r.feature 1 1 0) 2 1 = 1) && decide (r.dynpd ≠ 0)) = _
      rw [e1]; rfl
  | interruptConfig dr ds df => simp [readBack] at hrb

end Nrf
