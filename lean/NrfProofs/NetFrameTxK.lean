/-
Consequences of the frame theorem:

* `runOthers_frame`: letting the other nodes run changes nothing of the running node but its saved
  clock — for every relation `K` on the running node that tolerates that, and every world relation
  that only looks at the clock and the number of radios;
* `TxKeeps`: the transmitting functions (`rfSend` … `nodeWriteToPipe` as a multicast / direct
  write, `_write` for `TX_MULTICAST` / `TX_PHYSICAL`) change only the driver object, the clock, the
  scripted arrivals and the *header* of `frame_buf` of the running node: its queue, its address, its
  flags, its lease table and the body of `frame_buf` are as before;
* `TabKeeps`: everything `_write` / `_net_update` can do (the 14 functions below `update()`) leaves
  the class, the node ID, the address constants, the addressing configuration, the lease table and
  `_do_dhcp` of the running node as they were.
-/
import NrfProofs.NetFrameAllK

namespace Nrf.NetK
open Nrf Nrf.Net

/-- **other nodes running do not touch the running node** -/
theorem runOthers_frame {K W} (hK : NodeRel K) (hW : WorldRel W) (hR : Restorable W) :
    ∀ f i s0, Good s0 → NPres (Frame K W s0) (runOthers f i) := by
  intro f
  induction f with
  | zero => intro i s0 _; rw [runOthers.eq_1]; exact NPres.throw _
  | succ f ih =>
    intro i s0 g
    exact runOthers_step hK hW hR f i (fun s0' g' => (frameAll f s0' g').nodeUpdate) g (ih (i + 1) s0 g)

/-! ### the transmitting functions -/

/-- what a transmission leaves of the running node: everything but the driver object, the saved
    clock, the scripted arrivals, and type / `reserved` of the header in `frame_buf` -/
structure TxKeeps (n n' : Node) : Prop where
  kind : n'.kind = n.kind
  a : n'.a = n.a
  cfg : n'.cfg = n.cfg
  relayEnabled : n'.relayEnabled = n.relayEnabled
  fragEnabled : n'.fragEnabled = n.fragEnabled
  txTimeout : n'.txTimeout = n.txTimeout
  routeTimeout : n'.routeTimeout = n.routeTimeout
  retSysMsg : n'.retSysMsg = n.retSysMsg
  parenthood : n'.parenthood = n.parenthood
  maxMessageLength : n'.maxMessageLength = n.maxMessageLength
  queue : n'.queue = n.queue
  message : n'.frameBuf.message = n.frameBuf.message
  fromNode : n'.frameBuf.header.fromNode = n.frameBuf.header.fromNode
  toNode : n'.frameBuf.header.toNode = n.frameBuf.header.toNode
  frameId : n'.frameBuf.header.frameId = n.frameBuf.header.frameId
  nodeId : n'.nodeId = n.nodeId
  dhcp : n'.dhcp = n.dhcp
  doDhcp : n'.doDhcp = n.doDhcp

theorem txKeeps_rel : NodeRel TxKeeps := by
  refine ⟨?_, ?_, ?_, ?_, ?_⟩
  · intro n; constructor <;> rfl
  · intro a b c h1 h2
    exact ⟨h2.kind.trans h1.kind, h2.a.trans h1.a, h2.cfg.trans h1.cfg,
      h2.relayEnabled.trans h1.relayEnabled, h2.fragEnabled.trans h1.fragEnabled,
      h2.txTimeout.trans h1.txTimeout, h2.routeTimeout.trans h1.routeTimeout,
      h2.retSysMsg.trans h1.retSysMsg, h2.parenthood.trans h1.parenthood,
      h2.maxMessageLength.trans h1.maxMessageLength, h2.queue.trans h1.queue,
      h2.message.trans h1.message, h2.fromNode.trans h1.fromNode, h2.toNode.trans h1.toNode,
      h2.frameId.trans h1.frameId, h2.nodeId.trans h1.nodeId, h2.dhcp.trans h1.dhcp,
      h2.doDhcp.trans h1.doDhcp⟩
  · intro n r; constructor <;> rfl
  · intro n c; constructor <;> rfl
  · intro n a; constructor <;> rfl

/-- the leaves of a function that changes the running node only as `K` allows (`kt`: a tactic-made
    proof of each obligation) -/
syntax "npres_k" term:max "[" term,* "]" : tactic
macro_rules
  | `(tactic| npres_k $hst [$ts,*]) => `(tactic| npres [
      NetStable.setHdr $hst _ (fun _ => by constructor <;> with_unfolding_all rfl),
      NetStable.modNode $hst _ (fun _ => by constructor <;> with_unfolding_all rfl),
      NetStable.sleep $hst _, NetStable.takeId $hst, NetStable.deliverDue $hst,
      NetStable.liftRf $hst _ (fun _ hJ => setListen_pres hJ _),
      NetStable.liftRf $hst _ (fun _ hJ => setAutoAckAttr_pres hJ _),
      NetStable.liftRf $hst _ (fun _ hJ => setAutoRetries_pres hJ _ _),
      NetStable.liftRf $hst _ (fun _ hJ => openRxPipe_pres hJ _ _),
      NetStable.liftRf $hst _ (fun _ hJ => openTxPipe_pres hJ _),
      NetStable.liftRf $hst _ (fun _ hJ => send_pres hJ _ _ _ _ _),
      NetStable.liftRf $hst _ (fun _ hJ => resend_pres hJ _),
      NetStable.liftRf $hst _ (fun _ hJ => read_pres hJ _),
      NetStable.liftRf $hst _ (fun _ hJ => available_pres hJ),
      $ts,*])

/-- `_write_to_pipe` after the loop-back test: set the radio up and transmit `frame_buf` -/
def wtpRest (f a p : Nat) (mc : Bool) : NetM Bool := do
  liftRf (Rf24.setAutoAckAttr (.i (0x3E + (if mc then 0 else 1))))
  liftRf (Rf24.setListen false)
  let addr ← pipeAddr a p
  liftRf (Rf24.openTxPipe addr)
  let n ← getNode
  if n.frameBuf.message.length ≤ MAX_FRAG_SIZE then
    let pk ← liftPy n.frameBuf.pack
    if (← rfSend f pk) then return true
    txStandbyFor f n.txTimeout
  else
    let msgLen := n.frameBuf.message.length
    let total := (if msgLen % MAX_FRAG_SIZE ≠ 0 then 1 else 0) + msgLen / MAX_FRAG_SIZE
    let msgT := n.frameBuf.header.ty
    let result ← nodeFragLoop f total msgT total
    setHdr fun h => h.setTy msgT
    return result

section tx
variable {W : World → World → Prop} (hW : WorldRel W) (hR : Restorable W) {s0 : NetState} (g : Good s0)
include hW hR g

theorem rfSend_tx (f : Nat) (buf : Bytes) : NPres (Frame TxKeeps W s0) (rfSend f buf) := by
  have hst := frame_stable txKeeps_rel hW g
  cases f with
  | zero => rw [rfSend.eq_1]; exact NPres.throw _
  | succ f => rw [rfSend.eq_2]; npres_k hst [runOthers_frame txKeeps_rel hW hR f _ s0 g]

theorem rfResend_tx (f : Nat) : NPres (Frame TxKeeps W s0) (rfResend f) := by
  have hst := frame_stable txKeeps_rel hW g
  cases f with
  | zero => rw [rfResend.eq_1]; exact NPres.throw _
  | succ f => rw [rfResend.eq_2]; npres_k hst [runOthers_frame txKeeps_rel hW hR f _ s0 g]

theorem txStandby_tx : ∀ f d, NPres (Frame TxKeeps W s0) (txStandby f d) := by
  have hst := frame_stable txKeeps_rel hW g
  intro f
  induction f with
  | zero => intro _; rw [txStandby.eq_1]; exact NPres.throw _
  | succ f ih => intro _; rw [txStandby.eq_2]; npres_k hst [rfResend_tx hW hR g f, ih _]

theorem txStandbyFor_tx (f ms : Nat) : NPres (Frame TxKeeps W s0) (txStandbyFor f ms) := by
  have hst := frame_stable txKeeps_rel hW g
  cases f with
  | zero => rw [txStandbyFor.eq_1]; exact NPres.throw _
  | succ f => rw [txStandbyFor.eq_2]; npres_k hst [txStandby_tx hW hR g f _]

theorem fragRetry_tx : ∀ f r b, NPres (Frame TxKeeps W s0) (fragRetry f r b) := by
  have hst := frame_stable txKeeps_rel hW g
  intro f
  induction f with
  | zero => intro _ _; rw [fragRetry.eq_1]; exact NPres.throw _
  | succ f ih => intro _ _; rw [fragRetry.eq_2]; npres_k hst [txStandbyFor_tx hW hR g f _, ih _ _]

theorem nodeFragLoop_tx : ∀ f t m l, NPres (Frame TxKeeps W s0) (nodeFragLoop f t m l) := by
  have hst := frame_stable txKeeps_rel hW g
  intro f
  induction f with
  | zero => intro _ _ _; rw [nodeFragLoop.eq_1]; exact NPres.throw _
  | succ f ih =>
    intro _ _ _; rw [nodeFragLoop.eq_2]
    npres_k hst [rfSend_tx hW hR g f _, fragRetry_tx hW hR g f _ _, ih _ _ _]

omit hW hR g in
theorem nodeWriteToPipe_split (f a p : Nat) (mc : Bool) :
    nodeWriteToPipe (f + 1) a p mc = (do
      let n ← getNode
      if a = n.a.addr ∧ !mc then enqueueFrameBuf else wtpRest f a p mc) := by
  rw [nodeWriteToPipe.eq_2]
  rfl

/-- `_write_to_pipe` when nothing is looped back (a multicast / direct write, or a unicast to
    another node) -/
theorem nodeWriteToPipe_tx (f a p : Nat) (mc : Bool) (hno : mc = true ∨ a ≠ (curNode s0).a.addr) :
    NPres (Frame TxKeeps W s0) (nodeWriteToPipe f a p mc) := by
  have hst := frame_stable txKeeps_rel hW g
  cases f with
  | zero => rw [nodeWriteToPipe.eq_1]; exact NPres.throw _
  | succ f =>
    rw [nodeWriteToPipe_split]
    constructor
    intro s hs
    have hcond : ¬ (a = (curNode s).a.addr ∧ (!mc) = true) := by
      rintro ⟨h1, h2⟩
      rcases hno with h | h
      · rw [h] at h2; cases h2
      · exact h (by rw [h1, hs.me.a])
    simp only [nexec_bind, nexec_getNode, hcond, ↓reduceIte]
    have hrest : NPres (Frame TxKeeps W s0) (wtpRest f a p mc) := by
      unfold wtpRest
      npres_k hst [rfSend_tx hW hR g f _, txStandbyFor_tx hW hR g f _, nodeFragLoop_tx hW hR g f _ _ _]
    exact hrest.run s hs

/-- `_write(target, send_type)` for the two send types that neither route nor wait for a
    NETWORK_ACK: `TX_MULTICAST`, `TX_PHYSICAL` -/
theorem nodeWrite_tx (f tgt st : Nat) (hst2 : st = TX_MULTICAST ∨ st = TX_PHYSICAL) :
    NPres (Frame TxKeeps W s0) (nodeWrite f tgt st) := by
  have hst := frame_stable txKeeps_rel hW g
  cases f with
  | zero => rw [nodeWrite.eq_1]; exact NPres.throw _
  | succ f =>
    rw [nodeWrite.eq_2]
    constructor
    intro s hs
    have hl : logi2phys (curNode s).a tgt st = (tgt, 0, true) := by
      rcases hst2 with rfl | rfl <;> simp [logi2phys, TX_MULTICAST, TX_PHYSICAL, TX_ROUTED]
    have h41 : ¬ (st = TX_ROUTED) := by rcases hst2 with rfl | rfl <;> decide
    simp only [nexec_bind, nexec_getNode]
    cases hack : (curNode s).frameBuf.isAckType with
    | error e => simp only [nexec_liftPy_error]; exact hs
    | ok b =>
      simp only [nexec_liftPy_ok, hl, h41, false_and, ↓reduceIte, ne_eq, not_true_eq_false,
        Bool.not_true, Bool.false_eq_true, ite_self]
      have hrest : NPres (Frame TxKeeps W s0) (do
          let result ← nodeWriteToPipe f tgt 0 true
          let _ ← getNode
          liftRf (Rf24.setListen true)
          pure result) := by
        npres_k hst [nodeWriteToPipe_tx hW hR g f tgt 0 true (Or.inl rfl)]
      exact hrest.run s hs

end tx

/-! ### what `_write` and `_net_update` never change -/

/-- class, ID, address constants, addressing configuration, lease table, `_do_dhcp` -/
structure TabKeeps (n n' : Node) : Prop where
  kind : n'.kind = n.kind
  a : n'.a = n.a
  cfg : n'.cfg = n.cfg
  relayEnabled : n'.relayEnabled = n.relayEnabled
  fragEnabled : n'.fragEnabled = n.fragEnabled
  txTimeout : n'.txTimeout = n.txTimeout
  routeTimeout : n'.routeTimeout = n.routeTimeout
  retSysMsg : n'.retSysMsg = n.retSysMsg
  parenthood : n'.parenthood = n.parenthood
  maxMessageLength : n'.maxMessageLength = n.maxMessageLength
  nodeId : n'.nodeId = n.nodeId
  dhcp : n'.dhcp = n.dhcp
  doDhcp : n'.doDhcp = n.doDhcp

theorem tabKeeps_rel : NodeRel TabKeeps := by
  refine ⟨?_, ?_, ?_, ?_, ?_⟩
  · intro n; constructor <;> rfl
  · intro a b c h1 h2
    exact ⟨h2.kind.trans h1.kind, h2.a.trans h1.a, h2.cfg.trans h1.cfg,
      h2.relayEnabled.trans h1.relayEnabled, h2.fragEnabled.trans h1.fragEnabled,
      h2.txTimeout.trans h1.txTimeout, h2.routeTimeout.trans h1.routeTimeout,
      h2.retSysMsg.trans h1.retSysMsg, h2.parenthood.trans h1.parenthood,
      h2.maxMessageLength.trans h1.maxMessageLength, h2.nodeId.trans h1.nodeId, h2.dhcp.trans h1.dhcp,
      h2.doDhcp.trans h1.doDhcp⟩
  · intro n r; constructor <;> rfl
  · intro n c; constructor <;> rfl
  · intro n a; constructor <;> rfl

/-- the 14 functions below `update()` -/
structure WritePres (I : NetState → Prop) (f : Nat) : Prop where
  rfSend : ∀ buf, NPres I (rfSend f buf)
  rfResend : NPres I (rfResend f)
  txStandby : ∀ d, NPres I (txStandby f d)
  txStandbyFor : ∀ ms, NPres I (txStandbyFor f ms)
  fragRetry : ∀ r b, NPres I (fragRetry f r b)
  nodeFragLoop : ∀ t m l, NPres I (nodeFragLoop f t m l)
  nodeWriteToPipe : ∀ a p mc, NPres I (nodeWriteToPipe f a p mc)
  rfRead : NPres I (rfRead f)
  netUpdate : ∀ r, NPres I (netUpdate f r)
  handleThis : ∀ t, NPres I (handleThis f t)
  handleOther : ∀ t, NPres I (handleOther f t)
  ackWait : ∀ d, NPres I (ackWait f d)
  nodeWrite : ∀ a t, NPres I (nodeWrite f a t)

theorem enqueueFrameBuf_tab {I : NetState → Prop} (hst : NetStable TabKeeps I) : NPres I enqueueFrameBuf := by
  unfold enqueueFrameBuf
  npres_k hst []

/-- **`_write` / `_net_update` keep the node's identity and the master's table.** -/
theorem writePres_tab {W : World → World → Prop} (hW : WorldRel W) (hR : Restorable W) :
    ∀ f s0, Good s0 → WritePres (Frame TabKeeps W s0) f := by
  intro f
  induction f with
  | zero =>
    intro s0 _
    refine ⟨?_, ?_, ?_, ?_, ?_, ?_, ?_, ?_, ?_, ?_, ?_, ?_, ?_⟩
    · intro _; rw [rfSend.eq_1]; exact NPres.throw _
    · rw [rfResend.eq_1]; exact NPres.throw _
    · intro _; rw [txStandby.eq_1]; exact NPres.throw _
    · intro _; rw [txStandbyFor.eq_1]; exact NPres.throw _
    · intro _ _; rw [fragRetry.eq_1]; exact NPres.throw _
    · intro _ _ _; rw [nodeFragLoop.eq_1]; exact NPres.throw _
    · intro _ _ _; rw [nodeWriteToPipe.eq_1]; exact NPres.throw _
    · rw [rfRead.eq_1]; exact NPres.throw _
    · intro _; rw [netUpdate.eq_1]; exact NPres.throw _
    · intro _; rw [handleThis.eq_1]; exact NPres.throw _
    · intro _; rw [handleOther.eq_1]; exact NPres.throw _
    · intro _; rw [ackWait.eq_1]; exact NPres.throw _
    · intro _ _; rw [nodeWrite.eq_1]; exact NPres.throw _
  | succ f ih0 =>
    intro s0 g
    have ih := ih0 s0 g
    have hst := frame_stable tabKeeps_rel hW g
    have hro : ∀ i, NPres (Frame TabKeeps W s0) (runOthers f i) :=
      fun i => runOthers_frame tabKeeps_rel hW hR f i s0 g
    refine ⟨?_, ?_, ?_, ?_, ?_, ?_, ?_, ?_, ?_, ?_, ?_, ?_, ?_⟩
    · intro _; rw [rfSend.eq_2]; npres_k hst [hro _]
    · rw [rfResend.eq_2]; npres_k hst [hro _]
    · intro _; rw [txStandby.eq_2]; npres_k hst [ih.rfResend, ih.txStandby _]
    · intro _; rw [txStandbyFor.eq_2]; npres_k hst [ih.txStandby _]
    · intro _ _; rw [fragRetry.eq_2]; npres_k hst [ih.txStandbyFor _, ih.fragRetry _ _]
    · intro _ _ _; rw [nodeFragLoop.eq_2]
      npres_k hst [ih.rfSend _, ih.fragRetry _ _, ih.nodeFragLoop _ _ _]
    · intro _ _ _; rw [nodeWriteToPipe.eq_2]
      npres_k hst [enqueueFrameBuf_tab hst, ih.rfSend _, ih.txStandbyFor _, ih.nodeFragLoop _ _ _]
    · rw [rfRead.eq_2]; npres_k hst [hro _]
    · intro _; rw [netUpdate.eq_2]
      npres_k hst [ih.rfRead, ih.netUpdate _, ih.handleThis _, ih.handleOther _]
    · intro _; rw [handleThis.eq_2]
      npres_k hst [enqueueFrameBuf_tab hst, ih.nodeWrite _ _]
    · intro _; rw [handleOther.eq_2]
      npres_k hst [enqueueFrameBuf_tab hst, ih.nodeWrite _ _]
    · intro _; rw [ackWait.eq_2]; npres_k hst [ih.netUpdate _, ih.ackWait _]
    · intro _ _; rw [nodeWrite.eq_2]
      npres_k hst [ih.nodeWriteToPipe _ _ _, ih.ackWait _]

end Nrf.NetK
