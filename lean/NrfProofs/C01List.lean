/-
C01 helper lemmas, part 3: `send([b₁, …, bₙ])` (list / tuple input) to a compatible listening peer
with room: results AND delivery.  Built on the link invariant `LinkInv` of part 2.
-/
import NrfProofs.C01Order

namespace Nrf
open Rf24 Spec.Link

/-- a peer that takes the packet on an auto-ack pipe and has room (or sees a duplicate) acknowledges
    (the statement of `Radio.receive_acks` of C08, re-proved here to keep C01's import closure small) -/
theorem receive_acks' (p : Radio) (k : Packet) (q : Nat) (h1 : p.listensTo k = some q) (h2 : k.esb = true)
    (h3 : Radio.bit p.enAA q = true) (h4 : k.noAck = false) (h5 : p.rxFifo.length < 3) :
    (p.receive k).2.isSome = true := by
  unfold Radio.receive
  rw [h1]
  simp only [h2, h3, h4, Bool.true_and, Bool.not_false, Bool.and_true]
  have h5' : ¬ (p.rxFifo.length ≥ 3) := by omega
  by_cases hdup : (p.lastRx == some { pid := k.pid, addr := k.addr, data := k.data }) = true
  · simp [hdup]
  · simp only [hdup, Bool.not_false, Bool.true_and, decide_eq_true_eq, h5', ↓reduceIte, Bool.false_eq_true,
      Bool.not_true]
    split
    · rfl
    · split <;> rfl

/-- "the acknowledgements work": if the transmitter (registers `R`) waits for acknowledgements at
    all (ESB packet format and auto-ack on its pipe 0), then it can hear them (pipe 0 open on the TX
    address) and the receiver `r` auto-acknowledges on pipe `p` -/
def AcksWork (R r : Radio) (p : Nat) : Prop :=
  (R.esb && Radio.bit R.enAA 0) = true → World.canHear R = true ∧ Radio.bit r.enAA p = true

/-- what the link invariant gives in front of a `send` with room: the hypotheses of the C02 theorems,
    the receiver takes the packet on pipe `p`, it is not a duplicate -/
theorem link_send_pre (R : Radio) (j p : Nat) (dyn : Bool) (L : Link) (pend : List Bytes)
    (h : LinkInv R j p dyn L pend) (buf : Bytes) (a : Bool) (so : Bool)
    (hbuf : dyn = true → buf ≠ [] ∧ buf.length ≤ 32) :
    SendPre L.tx buf so ∧ AckEnv L.tx.rad (L.tx.sendPacket a buf) L.tx ∧
    (L.w.radio j).listensTo (L.tx.sendPacket a buf) = some p ∧
    (L.w.radio j).isDup (L.tx.sendPacket a buf) = false := by
  have hc := h.compat
  have hmd : (decide (L.d1.dynPl &&& 1 ≠ 0)) = dyn := hc.modeDrv
  have hlenOk : L.tx.d.dynPl &&& 1 ≠ 0 → buf ≠ [] ∧ buf.length ≤ 32 := by
    intro hd
    have hd' : L.d1.dynPl &&& 1 ≠ 0 := hd
    apply hbuf; rw [← hmd]; exact decide_eq_true hd'
  have hpadOk : L.tx.d.dynPl &&& 1 = 0 → 1 ≤ L.tx.d.plLen.getD 0 0 := by
    intro hd
    have hd' : ¬ (L.d1.dynPl &&& 1 ≠ 0) := fun hh => hh hd
    have : dyn = false := by rw [← hmd]; exact decide_eq_false hd'
    exact (hc.width this).2.1
  have hpre := h.hist.sendPre h.ptx buf so hlenOk hpadOk
  have hregs0 : L.tx.rad.regs = R.regs := h.hist.regs
  have henv : AckEnv L.tx.rad (L.tx.sendPacket a buf) L.tx :=
    ackEnv_of_ackOk _ _ _ h.acks (by intro hcan; apply h.feat; rw [← Radio.ackPayRx_regs _ _ hregs0]; exact hcan)
  have hlen32 : dyn = true → buf.length ≤ 32 := fun hd => (hbuf hd).2
  have hl := compat_listens L.tx j p dyn a buf hc hlen32
  have hkpid : (L.tx.sendPacket a buf).pid = (L.w.radio L.d1.rid).nextPid := rfl
  have hkesb : (L.tx.sendPacket a buf).esb = (L.w.radio j).esb := by
    have : (L.tx.sendPacket a buf).esb = (L.w.radio L.d1.rid).esb := rfl
    rw [this]; exact hc.esb.symm
  have hnd : (L.w.radio j).isDup (L.tx.sendPacket a buf) = false := by
    unfold Radio.isDup
    cases hesb : (L.w.radio j).esb with
    | false => rw [hkesb, hesb]; rfl
    | true =>
      cases hlr : (L.w.radio j).lastRx with
      | none => simp
      | some l =>
        have := h.nodup hesb l hlr
        have hne : (some l == some (⟨(L.tx.sendPacket a buf).pid, (L.tx.sendPacket a buf).addr,
            (L.tx.sendPacket a buf).data⟩ : LastRx)) = false := by
          rw [beq_eq_false_iff_ne]
          intro heq
          cases heq
          exact this hkpid
        rw [hne, Bool.and_false]
  exact ⟨hpre, henv, hl, hnd⟩

/-- **the result of a `send` over a working link**: with room at the receiver, undisturbed air and
    working acknowledgements `send()` does not return `False`; it returns `True` when `send_only` is
    on or the transmitter does not take ACK payloads; the caller's buffer comes back; the receiver's
    configuration is untouched -/
theorem link_send_result (R : Radio) (j p : Nat) (dyn : Bool) (L : Link) (pend : List Bytes)
    (h : LinkInv R j p dyn L pend) (buf : Bytes) (m a : Bool) (n : Nat) (so : Bool)
    (hroom : pend.length < 3) (hbuf : dyn = true → buf ≠ [] ∧ buf.length ≤ 32)
    (hack : AcksWork R (L.w.radio j) p) :
    ∃ r, (exec (send buf m a (n : Int) so) L.tx).1 = .ok (r, buf) ∧ r ≠ .bool false ∧
      ((so = true ∨ R.ackPayRx = false) → r = .bool true) ∧
      ((exec (send buf m a (n : Int) so) L.tx).2.w.radio j).cfgOf = (L.w.radio j).cfgOf := by
  obtain ⟨hpre, henv, hl, hnd⟩ := link_send_pre R j p dyn L pend h buf a so hbuf
  have hc := h.compat
  have hregs0 : L.tx.rad.regs = R.regs := h.hist.regs
  have hroom' : (L.w.radio j).rxFifo.length < 3 := by rw [h.rxq, List.length_map]; exact hroom
  have hsucc : sendSucceedsB (L.tx.sendAwaits a buf) (L.tx.sendAcked a buf) L.tx.w.faults (World.arcOf L.tx.rad) n = true := by
    unfold sendSucceedsB
    cases haw : L.tx.sendAwaits a buf with
    | false => rfl
    | true =>
      have hfl : L.tx.w.faults = [] := hc.faults
      obtain ⟨b, hb⟩ : ∃ b, budget (World.arcOf L.tx.rad) n = b + 1 := by
        unfold budget
        refine ⟨(1 + World.arcOf L.tx.rad) * (1 + n) - 1, ?_⟩
        have : 1 ≤ (1 + World.arcOf L.tx.rad) * (1 + n) := Nat.mul_pos (by omega) (by omega)
        omega
      rw [hfl, hb]
      have hD : hasDeliveredB [] (b + 1) = true := rfl
      rw [hD, Bool.and_true, Bool.not_true, Bool.false_or]
      -- the transmitter waits for an acknowledgement: ESB, auto-ack on pipe 0, NO_ACK not honoured
      have haw' : (L.tx.rad.esb && Radio.bit L.tx.rad.enAA 0 && !L.tx.rad.noAckFor (L.tx.sendEntry a buf)) = true := haw
      simp only [Bool.and_eq_true, Bool.not_eq_true'] at haw'
      obtain ⟨⟨h1, h2⟩, h3⟩ := haw'
      have e1 : R.esb = L.tx.rad.esb := by
        have : L.tx.rad.esb = L.tx.rad.regs.esb := rfl
        rw [this, hregs0]; rfl
      have e2 : R.enAA = L.tx.rad.enAA := by
        have : L.tx.rad.enAA = L.tx.rad.regs.enAA := rfl
        rw [this, hregs0]; rfl
      obtain ⟨hhear, haa⟩ := hack (by rw [e1, e2, h1, h2]; rfl)
      unfold DrvState.sendAcked ackedR
      rw [Radio.canHear_regs _ _ hregs0, hhear, Bool.true_and]
      refine (World.deliver_ack_isSome _ _ _).2 ⟨j, hc.lt, hc.ne, ?_⟩
      exact receive_acks' _ _ p hl h1 haa h3 hroom'
  obtain ⟨hres, _, _, _⟩ := send_final L.tx buf m a n so hpre henv
  rw [hsucc] at hres
  refine ⟨_, hres, ?_, ?_, ?_⟩
  · unfold sendExpected okResult
    cases so <;> cases L.tx.sendAckPayload a buf <;> simp
  · intro hcase
    unfold sendExpected okResult
    rcases hcase with hso | hap
    · rw [hso]; rfl
    · have : L.tx.sendAckPayload a buf = none := by
        unfold DrvState.sendAckPayload ackTaken
        rw [Radio.ackPayRx_regs _ _ hregs0, hap]
        simp
      rw [this]
      cases so <;> rfl
  · rw [send_receiver L.tx buf m a n so hpre henv hc.faults j hc.lt hc.ne]
    exact Radio.receive_cfgOf _ _

/-- the link after `d1.send([b₁, …])`'s loop body has run on the listed payloads -/
def Link.afterSends (L : Link) (a : Bool) (n : Nat) (so : Bool) : List (Bool × Bytes) → Link
  | [] => L
  | mb :: rest => ((L.step (.send mb.2 mb.1 a n so)).1).afterSends a n so rest

/-- **the loop of `send([b₁, …, bₙ])` over a working link**, by induction on the list: as long as the
    receiver has room for all of them, every payload is delivered in order and none yields `False` -/
theorem link_mapM_send (R : Radio) (j p : Nat) (dyn : Bool) (a : Bool) (n : Nat) (so : Bool) :
    ∀ (bufs : List (Bool × Bytes)) (L : Link) (pend : List Bytes), LinkInv R j p dyn L pend →
      pend.length + bufs.length ≤ 3 → (∀ mb ∈ bufs, dyn = true → mb.2 ≠ [] ∧ mb.2.length ≤ 32) →
      AcksWork R (L.w.radio j) p →
      ∃ rs, (exec (bufs.mapM fun mb => send mb.2 mb.1 a (n : Int) so) L.tx).1 = .ok rs ∧
        rs.map (·.2) = bufs.map (·.2) ∧ (∀ r ∈ rs, r.1 ≠ .bool false) ∧
        ((so = true ∨ R.ackPayRx = false) → ∀ r ∈ rs, r.1 = .bool true) ∧
        (exec (bufs.mapM fun mb => send mb.2 mb.1 a (n : Int) so) L.tx).2 = (L.afterSends a n so bufs).tx ∧
        LinkInv R j p dyn (L.afterSends a n so bufs)
          (pend ++ bufs.map fun mb => expectedPayload dyn (L.d1.plLen.getD 0 0) mb.2) ∧
        (L.afterSends a n so bufs).d2 = L.d2 := by
  intro bufs
  induction bufs with
  | nil =>
    intro L pend h _ _ _
    refine ⟨[], rfl, rfl, (fun r hr => by cases hr), (fun _ r hr => by cases hr), rfl, ?_, rfl⟩
    simpa [Link.afterSends] using h
  | cons mb rest ih =>
    intro L pend h hlen hbufs hack
    have hroom : pend.length < 3 := by simp only [List.length_cons] at hlen; omega
    have hbuf := hbufs mb List.mem_cons_self
    obtain ⟨r, hr1, hr2, hr3, hcfg⟩ := link_send_result R j p dyn L pend h mb.2 mb.1 a n so hroom hbuf hack
    have hinv := linkInv_send R j p dyn L pend h mb.2 mb.1 a n so hroom hbuf
    have hpl : (L.step (.send mb.2 mb.1 a n so)).1.d1.plLen.getD 0 0 = L.d1.plLen.getD 0 0 := by
      obtain ⟨hpre, henv, _, _⟩ := link_send_pre R j p dyn L pend h mb.2 a so hbuf
      obtain ⟨_, ⟨_, _, _, _, hrun⟩, _, _⟩ := send_final L.tx mb.2 mb.1 a n so hpre henv
      have hd1 : (L.step (.send mb.2 mb.1 a n so)).1.d1 = (exec (send mb.2 mb.1 a (n : Int) so) L.tx).2.d := rfl
      rw [hd1, hrun.d]; rfl
    have hack' : AcksWork R ((L.step (.send mb.2 mb.1 a n so)).1.w.radio j) p := by
      intro hh
      obtain ⟨x1, x2⟩ := hack hh
      refine ⟨x1, ?_⟩
      have e : ∀ r : Radio, r.enAA = r.cfgOf.enAA := fun _ => rfl
      have hw : (L.step (.send mb.2 mb.1 a n so)).1.w = (exec (send mb.2 mb.1 a (n : Int) so) L.tx).2.w := rfl
      rw [e, hw, hcfg, ← e]; exact x2
    obtain ⟨rs, i1, i2, i3, i4, i5, i6, i7⟩ := ih (L.step (.send mb.2 mb.1 a n so)).1 _ hinv
      (by simp only [List.length_append, List.length_cons, List.length_nil] at hlen ⊢; omega)
      (fun mb' hmb' => hbufs mb' (List.mem_cons_of_mem _ hmb')) hack'
    have hstx : (exec (send mb.2 mb.1 a (n : Int) so) L.tx).2 = (L.step (.send mb.2 mb.1 a n so)).1.tx := rfl
    refine ⟨(r, mb.2) :: rs, ?_, ?_, ?_, ?_, ?_, ?_, ?_⟩
    · rw [List.mapM_cons, exec_bind_ok hr1, hstx, exec_bind_ok i1, exec_pure]
    · simp only [List.map_cons, i2]
    · intro r' hr'
      rcases List.mem_cons.1 hr' with rfl | hr'
      · exact hr2
      · exact i3 r' hr'
    · intro hcase r' hr'
      rcases List.mem_cons.1 hr' with rfl | hr'
      · exact hr3 hcase
      · exact i4 hcase r' hr'
    · rw [List.mapM_cons, exec_bind_ok hr1, hstx, exec_bind_ok i1, exec_pure]
      exact i5
    · rw [hpl] at i6
      simpa [Link.afterSends, List.append_assoc] using i6
    · rw [Link.afterSends, i7]; rfl

/-- CE low on the transmitter (the first statement of `send()` for a list) keeps the link invariant -/
theorem linkInv_ceLow (R : Radio) (j p : Nat) (dyn : Bool) (L : Link) (pend : List Bytes)
    (h : LinkInv R j p dyn L pend) :
    LinkInv R j p dyn { L with w := (L.tx.ceQ false).w } pend := by
  have hc := h.compat
  have hwf : L.tx.Wf := h.hist.wf
  have ho : World.Only L.d1.rid L.w (L.tx.ceQ false).w := ceQ_only L.tx false
  have hne : j ≠ L.d1.rid := hc.ne
  have hrj : (L.tx.ceQ false).w.radio j = L.w.radio j := ho.1 j hne
  have hlen : (L.tx.ceQ false).w.radios.length = L.w.radios.length := ho.2.2.2.2.1
  have hrad : (L.tx.ceQ false).rad = { L.tx.rad with ce := false } := ceQ_rad L.tx false hwf
  have htx : Link.tx { L with w := (L.tx.ceQ false).w } = L.tx.ceQ false := rfl
  have hwf' : (L.tx.ceQ false).Wf := ceQ_wf L.tx false hwf
  refine ⟨?_, h.ptx, ?_, h.rid2, ?_, h.pendOk, h.pendLen, ?_, ?_, h.feat, h.shadow⟩
  · rw [htx]
    rcases h.hist with ⟨e, k, hf, hfr⟩ | ⟨hw, h1, h2, h3, h4⟩
    · refine Or.inl ⟨e, k, ⟨hwf', ?_, ?_, ?_, ?_, ?_, hf.sendable, hf.hpid, ?_⟩, ?_⟩
      · rw [hrad]; exact hf.regs
      · rw [hrad]; exact hf.fifo
      · rw [hrad]; exact hf.flags
      · rw [hrad]; exact hf.pipes
      · rw [hrad]; exact hf.pkt
      · rw [hrad]; exact hf.npid
      · rw [hrad]; exact hfr
    · refine Or.inr ⟨hwf', ?_, ?_, ?_, ?_⟩
      · rw [hrad]; exact h1
      · rw [hrad]; exact h2
      · rw [hrad]; exact h3
      · rw [hrad]; exact h4
  · rw [htx]
    exact compat_congr L.tx _ j p dyn hc rfl (by rw [hrad]; rfl) (by rw [hrj]; rfl) rfl rfl
      (by rw [ho.2.1]; exact hc.faults) hlen
  · show ((L.tx.ceQ false).w.radio j).rxFifo = _
    rw [hrj]; exact h.rxq
  · intro hesb l hl
    have hesb0 : (L.w.radio j).esb = true := by rw [← hrj]; exact hesb
    have hl0 : (L.w.radio j).lastRx = some l := by rw [← hrj]; exact hl
    show l.pid ≠ ((L.tx.ceQ false).w.radio L.d1.rid).nextPid
    have : (L.tx.ceQ false).w.radio L.d1.rid = (L.tx.ceQ false).rad := rfl
    rw [this, hrad]
    exact h.nodup hesb0 l hl0
  · intro q hq hqs
    show AckOk ((L.tx.ceQ false).w.radio q)
    rw [ho.1 q hqs]
    exact h.acks q (by rw [← hlen]; exact hq) hqs

/-- the link after `d1.send([b₁, …], ask_no_ack, force_retry, send_only)` -/
def Link.sendList (L : Link) (bufs : List (Bool × Bytes)) (a : Bool) (n : Nat) (so : Bool) : Link :=
  { L with d1 := (exec (Rf24.sendList bufs a (n : Int) so) L.tx).2.d, w := (exec (Rf24.sendList bufs a (n : Int) so) L.tx).2.w }

/-- **`send([b₁, …, bₙ])` over a working link** (statement: `C01_send_list`) -/
theorem link_sendList (R : Radio) (j p : Nat) (dyn : Bool) (L : Link) (pend : List Bytes)
    (h : LinkInv R j p dyn L pend) (bufs : List (Bool × Bytes)) (a : Bool) (n : Nat) (so : Bool)
    (hlen : pend.length + bufs.length ≤ 3) (hbufs : ∀ mb ∈ bufs, dyn = true → mb.2 ≠ [] ∧ mb.2.length ≤ 32)
    (hack : AcksWork R (L.w.radio j) p) :
    ∃ rs, (exec (Rf24.sendList bufs a (n : Int) so) L.tx).1 = .ok rs ∧
      rs.map (·.2) = bufs.map (·.2) ∧ (∀ r ∈ rs, r.1 ≠ .bool false) ∧
      ((so = true ∨ R.ackPayRx = false) → ∀ r ∈ rs, r.1 = .bool true) ∧
      LinkInv R j p dyn (L.sendList bufs a n so)
        (pend ++ bufs.map fun mb => expectedPayload dyn (L.d1.plLen.getD 0 0) mb.2) := by
  have hwf : L.tx.Wf := h.hist.wf
  have hinv := linkInv_ceLow R j p dyn L pend h
  have hrj : (L.tx.ceQ false).w.radio j = L.w.radio j := (ceQ_only L.tx false).1 j h.compat.ne
  have hack' : AcksWork R (({ L with w := (L.tx.ceQ false).w } : Link).w.radio j) p := by
    show AcksWork R ((L.tx.ceQ false).w.radio j) p
    rw [hrj]; exact hack
  obtain ⟨rs, i1, i2, i3, i4, i5, i6, i7⟩ := link_mapM_send R j p dyn a n so bufs _ pend hinv hlen hbufs hack'
  have hex : exec (Rf24.sendList bufs a (n : Int) so) L.tx =
      exec (bufs.mapM fun mb => send mb.2 mb.1 a (n : Int) so) (Link.tx { L with w := (L.tx.ceQ false).w }) := by
    have : Rf24.sendList bufs a (n : Int) so =
        (setCE false >>= fun _ => bufs.mapM fun mb => send mb.2 mb.1 a (n : Int) so) := rfl
    rw [this, exec_bind, exec_setCE_false L.tx hwf]
    rfl
  refine ⟨rs, by rw [hex]; exact i1, i2, i3, i4, ?_⟩
  have hL : L.sendList bufs a n so = ({ L with w := (L.tx.ceQ false).w } : Link).afterSends a n so bufs := by
    generalize hA : ({ L with w := (L.tx.ceQ false).w } : Link).afterSends a n so bufs = A at *
    unfold Link.sendList
    rw [hex, i5]
    have hd2 : A.d2 = L.d2 := i7
    cases A
    simp only at hd2
    subst hd2
    rfl
  rw [hL]
  exact i6

/-- reading everything back: `q.length + 1` reads of a queue `q` return its payloads in order,
    then `None` -/
theorem orderSpec_reads (dyn : Bool) (pl : Nat) (q : List Bytes) :
    orderSpec dyn pl q (List.replicate (q.length + 1) .read) = some (q.map some ++ [none]) := by
  induction q with
  | nil => rfl
  | cons b rest ih =>
    simp only [List.length_cons, List.replicate_succ, orderSpec] at ih ⊢
    rw [ih]
    rfl

end Nrf
