/-
C14, closed system, part 10: **one relay level, composed end to end.**  `multicast()` to a level `Lv`
(1..3) on which exactly one other node `j` sits, `j` having `multicast_relay` on (`multicast_sent_air`,
NrfProofs/C14Closed5c.lean), then `update()` entered by `j` (`multicast_relay_step`,
NrfProofs/C14Closed9.lean): `j` queues the frame and re-multicasts it once to level `Lv + 1`; every other node of
level `Lv + 1` — the original sender included when it sits there — queues it once; two records on the air.
-/
import NrfProofs.C14Closed9
import NrfProofs.C13HopsExample

namespace Nrf.Net
open Nrf Nrf.Spec Nrf.Proofs Nrf.Proofs.McastK Nrf.Props.C04

theorem multicast_relay_closed (hc : L3Contracts) (cfg : AddrCfg) (hcfg : CfgOk cfg) (ham : cfg.allowMulticast = true)
    (L : LinkCfg) (tree : Nat → List Nat) (s : NetState) (ty : Int) (msg : Bytes) (level : Option Int) (j : Nat)
    (hok : NetOk cfg L tree s) (hcur : s.cur < s.nodes.length) (hsize : s.nodes.length ≤ 400)
    (hquiet : ∀ i, i < s.nodes.length → (s.radioAt i).rxFifo = [])
    (hty : 0 ≤ ty ∧ ty ≤ 127) (hlen : msg.length ≤ MAX_FRAG_SIZE) (hmax : msg.length ≤ s.node.maxMessageLength)
    (hdup : ∀ i, i < s.nodes.length → ∀ l, (s.radioAt i).lastRx = some l →
      (mcCaller s.node ty msg).pack ≠ .ok l.data)
    (hj : j < s.nodes.length) (hjc : j ≠ s.cur)
    (hjl : (tree j).length = Nrf.Spec.Multicast.targetLevel (tree s.cur).length level)
    (hone : ∀ i, i < s.nodes.length → i ≠ s.cur →
      (tree i).length = Nrf.Spec.Multicast.targetLevel (tree s.cur).length level → i = j)
    (hlvl : 1 ≤ (tree j).length ∧ (tree j).length ≤ 3)
    (hrelj : (s.nodeAt j).relayEnabled = true)
    (haccj : Accepts (s.nodeAt j).queue (mcQueued s.node ty msg))
    (hnext : ∀ i, i < s.nodes.length → i ≠ j → (tree i).length = (tree j).length + 1 →
      Accepts (s.nodeAt i).queue (mcQueued s.node ty msg) ∧ (s.nodeAt i).relayEnabled = false) :
    ∃ (s1 s2 : NetState) (pk : Bytes) (k k' : Packet),
      nexec (apiMulticast msg ty level) s = (.ok true, s1) ∧
      nexec apiUpdate ((s1.ret).callAs j) = (.ok ty.toNat, s2) ∧
      (mcQueued s.node ty msg).pack = .ok pk ∧
      levelAddrSpec cfg.pfx cfg.sfx (tree j).length = some k.addr ∧ k.data = pk ∧
      levelAddrSpec cfg.pfx cfg.sfx ((tree j).length + 1) = some k'.addr ∧ k'.data = pk ∧
      s2.w.air = s.w.air ++ [{ sender := s.ridAt s.cur, pkt := k, attempts := 1, ok := true },
                             { sender := s.ridAt j, pkt := k', attempts := 1, ok := true }] ∧
      NetOk cfg L tree s2 ∧
      (∀ i, i < s.nodes.length →
        (s2.nodeAt i).queue.frames = (s.nodeAt i).queue.frames ++
          (if i = j ∨ (i ≠ j ∧ (tree i).length = (tree j).length + 1) then [mcQueued s.node ty msg] else [])) ∧
      (∀ i, i < s.nodes.length → (s2.radioAt i).rxFifo = []) := by
  rw [← mcLevel_eq_target] at hjl hone
  obtain ⟨s1, pk, k, e, hpk, T, hA, hkd, ok1, c1, a1, len1, hq1, hf1, hr1, hair1, hcpk, hlast, hrid1⟩ :=
    multicast_sent_air hc cfg hcfg ham L tree s ty msg level hok hcur (by omega) hquiet hty hlen hmax hdup
  rw [← hjl] at hA hf1 hlast
  have hrecv : ∀ i, i < s.nodes.length → ((i ≠ s.cur ∧ (tree i).length = (tree j).length) ↔ i = j) := by
    intro i hi
    constructor
    · rintro ⟨h1, h2⟩
      exact hone i hi h1 (h2.trans hjl)
    · rintro rfl
      exact ⟨hjc, rfl⟩
  have hrid : s1.ridAt j = s.ridAt j := hrid1 j
  obtain ⟨s2, k', e2, ok2, hA', hkd', air2, q2, f2⟩ := multicast_relay_step hc cfg hcfg ham L tree
    (mcQueued s.node ty msg) pk ty.toNat (tree s.cur) T s1 j ok1 (by rw [len1]; exact hj) (by rw [len1]; exact hsize) hlvl
    (by
      intro i hi
      rw [len1] at hi
      rw [hf1 i hi]
      by_cases h : i = j
      · rw [if_pos ((hrecv i hi).mpr h), if_pos h]
      · rw [if_neg (fun hh => h ((hrecv i hi).mp hh)), if_neg h])
    (by rw [(hq1 j).1]; exact haccj) (by rw [(hq1 j).2]; exact hrelj)
    (by
      intro i hi hij hl
      rw [len1] at hi
      rw [(hq1 i).1, (hq1 i).2]
      exact hnext i hi hij hl)
    (by
      intro i hi hij l hl
      rw [len1] at hi
      rw [hlast i hi (fun hh => hij ((hrecv i hi).mp hh))] at hl
      intro hd
      exact hdup i hi l hl (by rw [hcpk, hd]))
  refine ⟨s1, s2, pk, k, k', e, e2, hpk, hA, hkd, hA', hkd', ?_, ok2, ?_, ?_⟩
  · rw [air2, hair1, hrid, List.append_assoc]
    rfl
  · intro i hi
    rw [q2 i (by rw [len1]; exact hi), (hq1 i).1]
  · intro i hi
    exact f2 i (by rw [len1]; exact hi)

end Nrf.Net

/-! ### a concrete network for the non-vacuity example: the chain of NrfProofs/C13HopsExample.lean with the
relay switched on at node `0o1` -/

namespace Nrf.Net.Example.Hops
open Nrf Nrf.Net Nrf.Net.Example Nrf.Spec Nrf.Proofs Nrf.Props.C04

/-- `four` with `multicast_relay = True` on node object 1 (address 0o1, level 1) -/
def fourRelay : NetState :=
  { four with
    nodes := [{ rf := rf0, a := nodeSpec [] }, { rf := rf1, a := nodeSpec [1], relayEnabled := true },
              { rf := rf2, a := nodeSpec [1, 1] }, { rf := rf3, a := nodeSpec [1, 1, 1] }] }

theorem fourRelay_lt (i : Nat) (hi : i < fourRelay.nodes.length) : i = 0 ∨ i = 1 ∨ i = 2 ∨ i = 3 := by
  have : i < 4 := hi
  omega

theorem fourRelay_ok : NetOk {} L tree4 fourRelay := by
  refine ⟨rfl, rfl, ?_, ?_, ?_, ?_⟩
  · intro i hi
    rcases fourRelay_lt i hi with rfl | rfl | rfl | rfl <;> decide
  · intro i j hi hj hij
    rcases fourRelay_lt i hi with rfl | rfl | rfl | rfl <;> rcases fourRelay_lt j hj with rfl | rfl | rfl | rfl <;>
      first | exact absurd rfl hij | decide
  · intro i hi
    rcases fourRelay_lt i hi with rfl | rfl | rfl | rfl
    · exact ⟨P0, two_pipes0, by decide⟩
    · exact ⟨P1, two_pipes1, by decide⟩
    · exact ⟨P2, three_pipes2, by decide⟩
    · exact ⟨P3, four_pipes3, by decide⟩
  · intro r k hr
    have h0 : r ≠ 0 := fun e => hr 0 (by decide) (by rw [e]; rfl)
    have h1 : r ≠ 1 := fun e => hr 1 (by decide) (by rw [e]; rfl)
    have h2 : r ≠ 2 := fun e => hr 2 (by decide) (by rw [e]; rfl)
    have h3 : r ≠ 3 := fun e => hr 3 (by decide) (by rw [e]; rfl)
    have : fourRelay.w.radio r = default := by
      unfold World.radio
      have : fourRelay.w.radios.length ≤ r := by
        show 4 ≤ r
        omega
      rw [List.getD_eq_getElem?_getD, List.getElem?_eq_none this]
      rfl
    rw [this]
    exact Radio.listensTo_not_rx _ _ (by decide)

end Nrf.Net.Example.Hops
