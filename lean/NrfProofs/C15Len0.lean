/-
C15 — a payload of length 0 at the head of the RX FIFO (review item "C15 length 0").

A radio with dynamic payloads can in principle deliver a 0-byte payload (R_RX_PL_WID = 0).  The
model's radio never does (`World.inject` refuses it, `Radio.writePayload` never queues one), but
the DRIVER's behaviour on such a FIFO is determined by the code: `any()` returns 0, `read()` returns
`None` WITHOUT issuing R_RX_PAYLOAD, and `_net_update()` takes `None` for "FIFO empty".
-/
import NrfProofs.C15Env

namespace Nrf
open Rf24 Nrf.Net

/-- **`read()` on a 0-byte head entry**: idle transmitter, dynamic payloads in the driver's
    shadow, head of the RX FIFO has 0 bytes.  One SPI transaction (R_RX_PL_WID), result `None`, and
    the radio — its RX FIFO included — is exactly as before: the entry is NOT removed. -/
theorem read_len0 (s : DrvState) (hw : s.Wf) (hq : TxS s) (hfe : s.d.features &&& 4 ≠ 0)
    (e : RxEntry) (rest : List RxEntry) (hf : (s.w.radio s.d.rid).rxFifo = e :: rest) (he : e.data = []) :
    exec (Rf24.read none) s = (.ok none, s.spiStep [0x60, 0]) ∧
    (s.spiStep [0x60, 0]).w.radio s.d.rid = s.w.radio s.d.rid ∧
    TxS (s.spiStep [0x60, 0]) ∧ (s.spiStep [0x60, 0]).Wf := by
  have c60 : SafeCmd [0x60, 0] := safeCmd_cmd _ _ (by decide)
  obtain ⟨r1, i1⟩ := spi_idle_eq s.w s.d.rid [0x60, 0] hw hq.1 c60
  have p1 := Prog.spi s [0x60, 0] c60
  have hr1 : (s.spiStep [0x60, 0]).w.radio s.d.rid = s.w.radio s.d.rid := by
    show (s.w.spi s.d.rid [0x60, 0]).1.radio s.d.rid = _
    rw [r1]; rfl
  have hv1 : (s.w.spi s.d.rid [0x60, 0]).2.getD 1 0
      = (match (s.w.radio s.d.rid).rxFifo with | [] => 0 | e :: _ => e.data.length) := by
    rw [i1]
    show (Radio.clockOut [match (s.w.radio s.d.rid).rxFifo with | [] => 0 | e :: _ => e.data.length] 1).getD 0 0 = _
    rfl
  have q1 : TxS (s.spiStep [0x60, 0]) := p1.txs hq
  have hw1 : (s.spiStep [0x60, 0]).Wf := (spiStep_wf _ _).2 hw
  refine ⟨?_, hr1, q1, hw1⟩
  unfold Rf24.read Rf24.any
  simp only [exec_bind, exec_regRead, exec_getD, exec_pure, exec_ite, exec_regReadBytes, exec_clearRx]
  have hfe1 : (s.spiStep [0x60, 0]).d.features &&& 4 ≠ 0 := hfe
  rw [if_pos hfe1]
  by_cases hp : (s.spiStep [0x60, 0]).d.rxPipeField < 6
  · rw [if_pos hp]
    simp only
    rw [hv1, hf]
    simp only [he, List.length_nil, ↓reduceIte]
  · rw [if_neg hp]
    simp only [↓reduceIte]

/-- a radio whose RX FIFO is not empty exists -/
theorem wf_of_rx (s : DrvState) (e : RxEntry) (rest : List RxEntry)
    (hf : (s.w.radio s.d.rid).rxFifo = e :: rest) : s.Wf := by
  show s.d.rid < s.w.radios.length
  apply Classical.byContradiction
  intro hn
  have : s.w.radio s.d.rid = default := by
    unfold World.radio
    rw [List.getD_eq_getElem?_getD, List.getElem?_eq_none (by omega)]
    rfl
  rw [this] at hf
  exact absurd (show ([] : List RxEntry) = e :: rest from hf) (by simp)

end Nrf

namespace Nrf.Net
open Nrf Rf24

/-- The situation: open system, the running node exists, its driver believes dynamic payloads are on
    (`_features & 4`, what `RF24.__init__` leaves), its transmitter is idle (`TxS`), and the entry
    `e` at the head of its radio's RX FIFO has **0 bytes**. -/
structure Len0Head (s : NetState) (e : RxEntry) : Prop where
  open_ : s.closed = false
  cur : s.cur < s.nodes.length
  feat : s.node.rf.features &&& 4 ≠ 0
  txs : TxS s.drv
  head : ∃ rest, s.rxq = e :: rest
  len0 : e.data = []

/-- **`_net_update()` with a 0-byte payload at the head of the RX FIFO** — every fuel ≥ 2, every
    return value carried in, every arrival script (arrivals of any length, due or not), every other
    content of the FIFO behind the head, every world: the call **returns** `rv` (for `update()`: 0)
    after one `read()`; the 0-byte entry is **still at the head** afterwards (the same situation
    `Len0Head` holds again — so this repeats for every later call: frames behind the entry, and all
    later arrivals, are never read until somebody calls `flush_rx()`); nothing is queued, `frame_buf`
    and the header-id counter are untouched; the node object changes only in its radio driver's
    shadows and its arrival script. -/
theorem netUpdate_len0 (f rv : Nat) (s : NetState) (e : RxEntry) (h : Len0Head s e) :
    ∃ s', nexec (netUpdate (f + 2) rv) s = (.ok rv, s') ∧ Len0Head s' e ∧
      (∃ add, s'.rxq = s.rxq ++ add) ∧
      s'.node.queue = s.node.queue ∧ s'.node.frameBuf = s.node.frameBuf ∧ s'.nextId = s.nextId ∧
      s'.node.kind = s.node.kind ∧ s'.node.dhcp = s.node.dhcp ∧ s'.node.doDhcp = s.node.doDhcp ∧
      s'.node.nodeId = s.node.nodeId ∧ nexec (rfRead (f + 1)) s = (.ok none, s') := by
  obtain ⟨rest, hrest⟩ := h.head
  -- after the due arrivals were delivered
  have hn1 : (afterDue s).node
      = { s.node with arrivals := s.node.arrivals.dropWhile (fun a => decide (a.1 ≤ s.w.clock)) } :=
    NetState.node_setNode ({ s with w := dueWorld s }) _ h.cur
  obtain ⟨add, a1, _, _⟩ := injects_rx (s.node.arrivals.takeWhile (fun a => decide (a.1 ≤ s.w.clock)))
    s.node.rf.rid s.w
  have hrx1 : (afterDue s).rxq = s.rxq ++ add := by
    unfold NetState.rxq
    rw [hn1]
    exact a1
  have hcur1 : (afterDue s).cur < (afterDue s).nodes.length := by
    show s.cur < (s.nodes.modify s.cur _).length
    simpa using h.cur
  have htx1 : TxS (afterDue s).drv := by
    have := injects_txs (s.node.arrivals.takeWhile (fun a => decide (a.1 ≤ s.w.clock))) s.node.rf.rid s.drv h.txs
    show TxS { d := (afterDue s).node.rf, w := dueWorld s }
    rw [hn1]
    exact this
  have hfe1 : (afterDue s).drv.d.features &&& 4 ≠ 0 := by
    show (afterDue s).node.rf.features &&& 4 ≠ 0
    rw [hn1]; exact h.feat
  have hf1 : ((afterDue s).drv.w.radio (afterDue s).drv.d.rid).rxFifo = e :: (rest ++ add) := by
    have := hrx1
    rw [hrest] at this
    exact this
  obtain ⟨hex, hrad, htx2, _⟩ := read_len0 (afterDue s).drv (wf_of_rx _ _ _ hf1) htx1 hfe1 e _ hf1 h.len0
  -- the state after the call
  let s' := (afterDue s).putDrv ((afterDue s).drv.spiStep [0x60, 0])
  have hn2 : s'.node = { (afterDue s).node with rf := ((afterDue s).drv.spiStep [0x60, 0]).d } :=
    NetState.node_putDrv (afterDue s) _ hcur1
  have hdrv2 : s'.drv = (afterDue s).drv.spiStep [0x60, 0] := NetState.drv_putDrv (afterDue s) _ hcur1
  have hrid2 : s'.node.rf.rid = (afterDue s).drv.d.rid := by rw [hn2]; rfl
  have hrx2 : s'.rxq = s.rxq ++ add := by
    rw [← hrx1]
    show (((afterDue s).drv.spiStep [0x60, 0]).w.radio s'.node.rf.rid).rxFifo = _
    rw [hrid2, hrad]
    rfl
  have hread : nexec (rfRead (f + 1)) s = (.ok none, s') := by
    rw [rfRead, nexec_bind7]
    have hd : nexec deliverDue s = (.ok (), afterDue s) := rfl
    rw [hd]
    simp only
    rw [nexec_bind7]
    have hg : nexec (get : NetM NetState) (afterDue s) = (.ok (afterDue s), afterDue s) := rfl
    rw [hg]
    simp only
    have hc1 : (afterDue s).closed = false := h.open_
    simp only [hc1, Bool.false_eq_true, ↓reduceIte]
    rw [nexec_liftRf7, hex]
  have hrun : nexec (netUpdate (f + 2) rv) s = (.ok rv, s') := by
    rw [netUpdate, nexec_bind7, hread]
    rfl
  have hcur2 : s'.cur < s'.nodes.length := by
    show (afterDue s).cur < ((afterDue s).nodes.modify (afterDue s).cur _).length
    simpa using hcur1
  refine ⟨s', hrun, ⟨h.open_, hcur2, ?_, ?_, ⟨rest ++ add, by rw [hrx2, hrest]; rfl⟩, h.len0⟩, ⟨add, hrx2⟩,
    ?_, ?_, rfl, ?_, ?_, ?_, ?_, hread⟩
  · rw [hn2]; exact hfe1
  · rw [hdrv2]; exact htx2
  all_goals rw [hn2, hn1]

/-- **`update()` with a 0-byte payload at the head of the RX FIFO**, for EVERY node role (routing
    only, network, mesh node, mesh master with `_do_dhcp` clear): returns 0, and everything
    `netUpdate_len0` says: the entry stays at the head (`Len0Head` again), nothing is queued, the
    lease table, `frame_buf`, the id counter are untouched. -/
theorem nodeUpdate_len0 (f : Nat) (s : NetState) (e : RxEntry) (h : Len0Head s e)
    (hd : s.node.kind = .meshMaster → s.node.nodeId = 0 → s.node.doDhcp = false) :
    ∃ s', nexec (nodeUpdate (f + 3)) s = (.ok 0, s') ∧ Len0Head s' e ∧
      (∃ add, s'.rxq = s.rxq ++ add) ∧
      s'.node.queue = s.node.queue ∧ s'.node.frameBuf = s.node.frameBuf ∧ s'.nextId = s.nextId ∧
      s'.node.kind = s.node.kind ∧ s'.node.dhcp = s.node.dhcp ∧ s'.node.doDhcp = s.node.doDhcp ∧
      s'.node.nodeId = s.node.nodeId ∧ nexec (rfRead (f + 1)) s = (.ok none, s') := by
  obtain ⟨s', hrun, h', hadd, hq, hfb, hid, hk, hdh, hdd, hnid, hread⟩ := netUpdate_len0 f 0 s e h
  refine ⟨s', ?_, h', hadd, hq, hfb, hid, hk, hdh, hdd, hnid, hread⟩
  rw [nodeUpdate, nexec_bind7, hrun]
  simp only [nexec_bind7, nexec_getNode7]
  by_cases hkind : s'.node.kind = .meshMaster
  · have h0 : ((0 : Nat) = MESH_ADDR_REQUEST) = False := by simp [MESH_ADDR_REQUEST]
    have h1 : ((0 : Nat) = MESH_ADDR_LOOKUP) = False := by simp [MESH_ADDR_LOOKUP]
    have h1' : ((0 : Nat) = MESH_ID_LOOKUP) = False := by simp [MESH_ID_LOOKUP]
    have h2 : ((0 : Nat) = MESH_ADDR_RELEASE) = False := by simp [MESH_ADDR_RELEASE]
    simp only [hkind, ne_eq, not_true_eq_false, ↓reduceIte, h0, h1, h1', h2, false_and, or_self, nexec_pure7,
      nexec_bind7]
    by_cases hz : s'.node.nodeId = 0
    · have hdd' : s'.node.doDhcp = false := by
        rw [hdd]; exact hd (hk ▸ hkind) (hnid ▸ hz)
      simp only [hz, ↓reduceIte, nexec_bind7, masterDhcp, nexec_getNode7, hdd', Bool.not_false, nexec_pure7]
    · simp only [hz, ↓reduceIte, nexec_pure7]
  · simp only [ne_eq, hkind, not_false_eq_true, ↓reduceIte, nexec_pure7]

/-! the moves of the environment keep the situation (whatever they script or inject) -/

theorem Len0Head.arrive {s : NetState} {e : RxEntry} (h : Len0Head s e) (due pipe : Nat) (data : Bytes) :
    Len0Head (s.setNode fun n => { n with arrivals := n.arrivals ++ [(due, pipe, data)] }) e ∧
    (s.setNode fun n => { n with arrivals := n.arrivals ++ [(due, pipe, data)] }).node
      = { s.node with arrivals := s.node.arrivals ++ [(due, pipe, data)] } ∧
    (s.setNode fun n => { n with arrivals := n.arrivals ++ [(due, pipe, data)] }).rxq = s.rxq := by
  have hn := NetState.node_setNode s (fun n => { n with arrivals := n.arrivals ++ [(due, pipe, data)] }) h.cur
  have hdrv : (s.setNode fun n => { n with arrivals := n.arrivals ++ [(due, pipe, data)] }).drv = s.drv :=
    NetState.drv_setNode _ h.cur rfl
  have hrx : (s.setNode fun n => { n with arrivals := n.arrivals ++ [(due, pipe, data)] }).rxq = s.rxq := by
    unfold NetState.rxq; rw [hn]; rfl
  refine ⟨⟨h.open_, by simpa using h.cur, by rw [hn]; exact h.feat, by rw [hdrv]; exact h.txs, ?_, h.len0⟩, hn, hrx⟩
  rw [hrx]; exact h.head

theorem Len0Head.inject {s : NetState} {e : RxEntry} (h : Len0Head s e) (pipe : Nat) (data : Bytes) :
    Len0Head { s with w := s.w.inject s.node.rf.rid pipe data } e ∧
    ∃ add, ({ s with w := s.w.inject s.node.rf.rid pipe data } : NetState).rxq = s.rxq ++ add := by
  obtain ⟨add, h1, _, _⟩ := injects_rx [(0, pipe, data)] s.node.rf.rid s.w
  have hrx : ({ s with w := s.w.inject s.node.rf.rid pipe data } : NetState).rxq = s.rxq ++ add := h1
  obtain ⟨rest, hrest⟩ := h.head
  exact ⟨⟨h.open_, h.cur, h.feat, inject_txs s.drv s.node.rf.rid pipe data h.txs,
    ⟨rest ++ add, by rw [hrx, hrest]; rfl⟩, h.len0⟩, add, hrx⟩

theorem Len0Head.faults {s : NetState} {e : RxEntry} (h : Len0Head s e) (l : List Nrf.Outcome) :
    Len0Head { s with w := { s.w with faults := l } } e :=
  ⟨h.open_, h.cur, h.feat, h.txs, h.head, h.len0⟩

end Nrf.Net
