/-
C07 — the mesh entry points of `NrfModel/Net/Api.lean` keep "the node listens", open system.
-/
import NrfProofs.C07Api

namespace Nrf.Net
open Nrf Rf24 Nrf.Spec Nrf.Proofs

section
variable {s0 : NetState} (h0 : Quiet7 s0) (hg : GoodCfg s0.node.cfg)
include h0 hg

omit hg in
theorem nl_meshWrite (to : Nat) (ty : Int) (msg : Bytes) {s : NetState} (h : NL s0 s) :
    wp anyErr (meshWrite to ty msg) (fun _ s' => NL s0 s') s := by
  unfold meshWrite
  simp only [wp_bind, wp_getNode, wp_ite, wp_pure, wp_takeId, wp_modNode]
  apply any_validate; intro ok
  split
  · exact h
  · refine (nl_nodeWrite F to TX_NORMAL h0 ?_).post (fun _ _ h => h)
    nl_node h

theorem nl_meshRelease {s : NetState} (h : NL s0 s) :
    wp anyErr meshRelease (fun _ s' => NL s0 s') s := by
  unfold meshRelease
  simp only [wp_bind, wp_getNode, wp_ite, wp_pure, wp_modNode]
  split
  · apply st_setHdr (stable_nl s0) h; intro s1 h1
    have h2 := (stable_nl s0).setNode s1 (fun nd => { nd with frameBuf := { nd.frameBuf with message := [] } }) h1
      ⟨rfl, rfl, rfl, rfl⟩
    refine (nl_nodeWrite F 0 TX_NORMAL h0 h2).post (fun r s3 h3 => ?_)
    split
    · rw [default_is_tree]
      exact nl_begin h3 hg (by decide) (fun s4 h4 _ => h4)
    · exact h3
  · exact h

omit hg in
theorem nl_lookupWait (dl : Nat) : ∀ (f : Nat) {s : NetState}, NL s0 s →
    wp anyErr (lookupWait dl f) (fun _ s' => NL s0 s') s := by
  intro f
  induction f with
  | zero => intro s _; rw [lookupWait]; trivial
  | succ f ih =>
    intro s h
    rw [lookupWait]
    simp only [wp_bind, wp_ite, wp_pure, wp_nowNs]
    refine (nl_netUpdate F 0 h0 h).post (fun t s1 h1 => ?_)
    split
    · exact h1
    · split
      · exact h1
      · exact ih h1

omit hg in
theorem nl_lookup2Master (number : Int) (lt : Nat) {s : NetState} (h : NL s0 s) :
    wp anyErr (lookup2Master number lt) (fun _ s' => NL s0 s') s := by
  unfold lookup2Master
  simp only [wp_bind, wp_getNode, wp_takeId]
  have h1 := (stable_nl s0).nextId s ((s.nextId + 1) &&& 0xFFFF) h
  apply st_setHdr (stable_nl s0) h1; intro s2 h2
  apply wp_liftPy_any; intro msg _
  simp only [wp_modNode, wp_ite, wp_pure, wp_bind, wp_nowNs]
  have h3 := (stable_nl s0).setNode s2 (fun nd => { nd with frameBuf := { nd.frameBuf with message := msg } }) h2
    ⟨rfl, rfl, rfl, rfl⟩
  refine (nl_nodeWrite F 0 TX_NORMAL h0 h3).post (fun r s4 h4 => ?_)
  split
  · exact h4
  · refine (nl_lookupWait h0 _ F h4).post (fun r s5 h5 => ?_)
    split
    · exact h5
    · simp only [wp_getNode, wp_ite, wp_bind, wp_pure]
      split
      · apply wp_liftPy_any; intro v _; exact h5
      · split <;> exact h5

omit hg in
theorem nl_meshLookupAddress (nodeId : Int) {s : NetState} (h : NL s0 s) :
    wp anyErr (meshLookupAddress nodeId) (fun _ s' => NL s0 s') s := by
  unfold meshLookupAddress
  simp only [wp_bind, wp_getNode, wp_ite, wp_pure]
  split
  · exact h
  split
  · exact h
  split
  · exact h
  exact nl_lookup2Master h0 _ _ h

omit hg in
theorem nl_meshLookupNodeId (address : Option Int) {s : NetState} (h : NL s0 s) :
    wp anyErr (meshLookupNodeId address) (fun _ s' => NL s0 s') s := by
  unfold meshLookupNodeId
  simp only [wp_bind, wp_getNode]
  cases address with
  | none => exact h
  | some a =>
    simp only [wp_ite, wp_pure]
    split
    · exact h
    split
    · exact h
    split
    · exact h
    exact nl_lookup2Master h0 _ _ h

omit hg in
theorem nl_contactLoop (dl : Nat) : ∀ (f : Nat) (slots : List (Option Nat)) {s : NetState}, NL s0 s →
    wp anyErr (contactLoop dl f slots) (fun _ s' => NL s0 s') s := by
  intro f
  induction f with
  | zero => intro _ s _; rw [contactLoop]; trivial
  | succ f ih =>
    intro slots s h
    rw [contactLoop]
    simp only [wp_bind, wp_ite, wp_pure, wp_nowNs, wp_getNode]
    split
    · refine (nl_netUpdate F 0 h0 h).post (fun t s1 h1 => ?_)
      exact ih _ h1
    · exact h

omit hg in
theorem nl_makeContact (lvl : Nat) {s : NetState} (h : NL s0 s) :
    wp anyErr (makeContact lvl) (fun _ s' => NL s0 s') s := by
  unfold makeContact
  simp only [wp_bind, wp_modNode, wp_nowNs, wp_pure]
  apply st_setHdr (stable_nl s0) h; intro s1 h1
  have h2 := (stable_nl s0).setNode s1 (fun nd => { nd with frameBuf := { nd.frameBuf with message := [] } }) h1
    ⟨rfl, rfl, rfl, rfl⟩
  refine (nl_nodeWrite F _ TX_MULTICAST h0 h2).post (fun r s3 h3 => ?_)
  exact (nl_contactLoop h0 _ F _ h3).post (fun _ _ h => h)

omit hg in
theorem nl_responseWait (contact dl : Nat) : ∀ (f : Nat) (na : Option Nat) {s : NetState}, NL s0 s →
    wp anyErr (responseWait contact dl f na) (fun _ s' => NL s0 s') s := by
  intro f
  induction f with
  | zero => intro _ s _; rw [responseWait]; trivial
  | succ f ih =>
    intro na s h
    rw [responseWait]
    simp only [wp_bind, wp_ite, wp_pure, wp_nowNs, wp_getNode]
    split
    · refine (nl_netUpdate F 0 h0 h).post (fun t s1 h1 => ?_)
      split
      · apply wp_liftPy_any; intro v _
        split
        · exact ih _ h1
        · exact h1
      · exact ih _ h1
    · exact h

/-- the `for contact in contacts:` loop of `_request_address`: `_begin(new_addr)` with whatever
    address the response carried, `_begin(NETWORK_DEFAULT_ADDR)` when the master does not confirm -/
theorem nl_requestLoop : ∀ (contacts : List Nat) (carried : Option Nat) {s : NetState}, NL s0 s →
    wp anyErr (requestLoop contacts carried) (fun _ s' => NL s0 s') s := by
  intro contacts
  induction contacts with
  | nil => intro _ s h; rw [requestLoop]; exact h
  | cons contact rest ih =>
    intro carried s h
    rw [requestLoop]
    simp only [wp_bind, wp_getNode, wp_modNode, wp_nowNs]
    apply st_setHdr (stable_nl s0) h; intro s1 h1
    have h2 := (stable_nl s0).setNode s1 (fun nd => { nd with frameBuf := { nd.frameBuf with message := [] } }) h1
      ⟨rfl, rfl, rfl, rfl⟩
    refine (nl_nodeWrite F contact TX_PHYSICAL h0 h2).post (fun r s3 h3 => ?_)
    refine (nl_responseWait h0 contact _ F carried h3).post (fun newAddr s4 h4 => ?_)
    cases newAddr with
    | none => exact ih none h4
    | some a =>
      simp only [wp_bind, wp_getNode]
      refine (nl_begin_any hg a h4).post (fun _ s5 h5 => ?_)
      refine (nl_meshLookupNodeId h0 _ h5).post (fun id1 s6 h6 => ?_)
      simp only [wp_ite, wp_bind, wp_pure]
      split
      · refine (nl_meshLookupNodeId h0 _ h6).post (fun id2 s7 h7 => ?_)
        split
        · rw [default_is_tree]
          apply nl_begin h7 hg (by decide)
          intro s8 h8 _
          exact (ih (some a) h8).post (fun _ _ h => h)
        · exact h7
      · exact h6

theorem nl_requestAddress (level : Nat) {s : NetState} (h : NL s0 s) :
    wp anyErr (requestAddress level) (fun _ s' => NL s0 s') s := by
  unfold requestAddress
  simp only [wp_bind, wp_ite, wp_pure]
  refine (nl_makeContact h0 level h).post (fun contacts s1 h1 => ?_)
  split
  · exact h1
  · exact nl_requestLoop h0 hg contacts none h1

theorem nl_renewLoop (endTimer : Nat) : ∀ (f total count : Nat) {s : NetState}, NL s0 s →
    wp anyErr (renewLoop endTimer f total count) (fun _ s' => NL s0 s') s := by
  intro f
  induction f with
  | zero => intro _ _ s _; rw [renewLoop]; trivial
  | succ f ih =>
    intro total count s h
    rw [renewLoop]
    simp only [wp_bind, wp_ite, wp_pure, wp_nowNs, wp_getNode]
    refine (nl_requestAddress h0 hg count h).post (fun r s1 h1 => ?_)
    split
    · exact h1
    · split
      · exact h1
      · apply st_sleepNs (stable_nl s0) h1; intro s2 h2
        exact ih _ _ h2

theorem nl_meshRenew (timeoutMs : Nat) {s : NetState} (h : NL s0 s) :
    wp anyErr (meshRenew timeoutMs) (fun _ s' => NL s0 s') s := by
  unfold meshRenew
  simp only [wp_bind, wp_getNode, wp_ite, wp_pure, wp_nowNs]
  split
  · exact h
  · refine (nl_available h).post (fun av s1 h1 => ?_)
    have rest : ∀ s2, NL s0 s2 →
        (if s2.node.a.addr ≠ NETWORK_DEFAULT_ADDR then
          wp anyErr (begin NETWORK_DEFAULT_ADDR)
            (fun a s' => wp anyErr (renewLoop (timeoutMs * 1000000 + s'.w.clock) 100000 0 0) (fun _ s' => NL s0 s') s') s2
        else wp anyErr (renewLoop (timeoutMs * 1000000 + s2.w.clock) 100000 0 0) (fun _ s' => NL s0 s') s2) := by
      intro s2 h2
      split
      · rw [default_is_tree]
        apply nl_begin h2 hg (by decide)
        intro s3 h3 _
        exact nl_renewLoop h0 hg _ _ _ _ h3
      · exact nl_renewLoop h0 hg _ _ _ _ h2
    split
    · refine (nl_apiUpdate h0 hg h1).post (fun _ s2 h2 => ?_)
      exact rest s2 h2
    · exact rest s1 h1

omit hg in
theorem nl_checkGo (pm : Bool) : ∀ (k : Nat) {s : NetState}, NL s0 s →
    wp anyErr (meshCheckConnection.go pm k) (fun _ s' => NL s0 s') s := by
  intro k
  induction k with
  | zero => intro s h; rw [meshCheckConnection.go]; exact h
  | succ k ih =>
    intro s h
    rw [meshCheckConnection.go]
    simp only [wp_bind, wp_getNode, wp_ite, wp_pure]
    split
    · refine (nl_meshLookupAddress h0 _ h).post (fun r s1 h1 => ?_)
      split
      · exact h1
      · split
        · exact h1
        · exact ih h1
    · refine (nl_meshWrite h0 _ _ _ h).post (fun r s1 h1 => ?_)
      split
      · exact h1
      · exact ih h1

omit hg in
theorem nl_meshCheckConnection (attempts : Nat) (pm : Bool) {s : NetState} (h : NL s0 s) :
    wp anyErr (meshCheckConnection attempts pm) (fun _ s' => NL s0 s') s := by
  unfold meshCheckConnection
  simp only [wp_bind, wp_getNode, wp_ite, wp_pure]
  split
  · exact h
  split
  · exact h
  exact nl_checkGo h0 pm attempts h

omit hg in
theorem nl_sendLookupLoop (toId dl : Nat) : ∀ (f rd : Nat) {s : NetState}, NL s0 s →
    wp anyErr (sendLookupLoop toId dl f rd) (fun _ s' => NL s0 s') s := by
  intro f
  induction f with
  | zero => intro _ s _; rw [sendLookupLoop]; trivial
  | succ f ih =>
    intro rd s h
    rw [sendLookupLoop]
    simp only [wp_bind, wp_ite, wp_pure, wp_nowNs]
    refine (nl_meshLookupAddress h0 _ h).post (fun a s1 h1 => ?_)
    split
    · exact h1
    · split
      · apply st_sleepNs (stable_nl s0) h1; intro s2 h2
        exact ih _ h2
      · exact h1

omit hg in
theorem nl_meshSend (toId : Nat) (ty : Int) (msg : Bytes) {s : NetState} (h : NL s0 s) :
    wp anyErr (meshSend toId ty msg) (fun _ s' => NL s0 s') s := by
  unfold meshSend
  simp only [wp_bind, wp_getNode, wp_ite, wp_pure, wp_nowNs]
  split
  · exact h
  · split
    · refine (nl_sendLookupLoop h0 _ _ _ _ h).post (fun r s1 h1 => ?_)
      cases r with
      | none => exact h1
      | some a => exact nl_meshWrite h0 _ _ _ h1
    · split <;> exact nl_meshWrite h0 _ _ _ h

theorem nl_masterReleaseApi (address : Nat) {s : NetState} (h : NL s0 s) :
    wp anyErr (masterReleaseApi address) (fun _ s' => NL s0 s') s := by
  unfold masterReleaseApi
  simp only [wp_ite, wp_bind, wp_getNode, wp_modNode, wp_pure]
  split
  · exact nl_meshRelease h0 hg h
  · nl_node h

end

end Nrf.Net
