/-
C17, lookups end to end, part 2: the exchange, composed in the closed system.

Two nodes, loss-free: the asker `x` (a mesh node connected at address `ax`, on the call stack,
listening) holds a lookup frame in `frame_buf`; the master `m` (address 0, listening, nothing pending)
is off the call stack.  `_write(0, TX_NORMAL)` of the asker — one acknowledged hop to the master's pipe
`px` — followed by its next `_net_update()`: the master's `update()` runs at the asker's next `read()`
(`runOthers`), answers from its table — one acknowledged hop to pipe 5 of the asker —, the asker reads
the answer: `_net_update()` returns the lookup type with the answer in `frame_buf`.
-/
import NrfProofs.C17Lookup1

namespace Nrf.Net.Join
open Nrf Nrf.Net Nrf.Spec Nrf.Proofs

/-- **The lookup exchange, end to end** (separate fuels for the `_write` and the `_net_update()`; in
    `_lookup_2_master` both are the literal `F`). -/
theorem leg_lookup (f f1 : Nat) (s : NetState) (L : LinkCfg) (Pm Px : List Bytes) (m x px fid ax ty : Nat)
    (body Am Ax pk pk' : Bytes)
    (hlen : s.nodes.length = 2) (hm : m < 2) (hx : x < 2) (hmx : m ≠ x)
    (hcur : s.cur = x) (hact : s.active = [x]) (hclosed : s.closed = true) (hfaults : s.w.faults = [])
    (hfuel : 4 ≤ f) (hfuel1 : 4 ≤ f1)
    (hridm : s.ridAt m < s.w.radios.length) (hridx : s.ridAt x < s.w.radios.length)
    (hridne : s.ridAt m ≠ s.ridAt x)
    (hothers : ∀ i, i ≠ s.ridAt m → i ≠ s.ridAt x → (s.w.radio i).rxMode = false)
    (hNm : NodeRadio L Pm true true 0x3E (s.nodeAt m).rf (s.radioAt m))
    (hNx : NodeRadio L Px true true 0x3E (s.nodeAt x).rf (s.radioAt x))
    (hfm : (s.radioAt m).rxFifo = []) (hfx : (s.radioAt x).rxFifo = [])
    (hdupm : ∀ pid, (s.radioAt m).lastRx ≠ some { pid := pid, addr := Am, data := pk })
    (hdupx : ∀ pid, (s.radioAt x).lastRx ≠ some { pid := pid, addr := Ax, data := pk' })
    (harrm : (s.nodeAt m).arrivals = []) (harrx : (s.nodeAt x).arrivals = [])
    (hAm : Pm[px]? = some Am) (hpx1 : 1 ≤ px) (hpx5 : px ≤ 5) (hltm : ∀ q, q < px → Pm[q]? ≠ some Am)
    (hAx : Px[5]? = some Ax) (hltx : ∀ q, q < 5 → Px[q]? ≠ some Ax)
    -- the asker
    (hxfb : (s.nodeAt x).frameBuf = lookFrame fid ax ty body) (hxaddr : (s.nodeAt x).a.addr = ax)
    (hxret : (s.nodeAt x).retSysMsg = true) (hxcfg : pipeAddress (s.nodeAt x).cfg 0 px = .ok Am)
    (hxl2p : logi2phys (s.nodeAt x).a 0 TX_NORMAL = (0, px, false))
    -- the master
    (hkind : (s.nodeAt m).kind = .meshMaster) (hid : (s.nodeAt m).nodeId = 0) (hmaddr : (s.nodeAt m).a.addr = 0)
    (hmret : (s.nodeAt m).retSysMsg = true) (hdo : (s.nodeAt m).doDhcp = false)
    (hsmall : Nrf.Proofs.MeshK.TableSmall (s.nodeAt m).dhcp)
    (hml2p : logi2phys (s.nodeAt m).a ax TX_NORMAL = (ax, 5, false))
    (hmcfg : pipeAddress (s.nodeAt m).cfg ax 5 = .ok Ax)
    -- the frames
    (hty : ty = MESH_ADDR_LOOKUP ∨ ty = MESH_ID_LOOKUP)
    (hlong : Mesh.lookupLongEnough ty body = true) (hbody : body.length ≤ MAX_FRAG_SIZE)
    (hax : ax < 4096) (hfid : fid < 65536) (haxv : isValid ax = true) (hax0 : ax ≠ 0)
    (hpk : (lookFrame fid ax ty body).pack = .ok pk)
    (hpk' : (lookReply fid ax ty (MeshProtocol.replyBytes (lookVal (s.nodeAt m) fid ax ty body))).pack = .ok pk') :
    ∃ s1 s2 : NetState,
      nexec (nodeWrite (f1 + 2) 0 TX_NORMAL) s = (.ok true, s1) ∧
      nexec (netUpdate (f + 7 + m) 0) s1 = (.ok ty, s2) ∧
      s2.cur = x ∧ s2.active = [x] ∧ s2.nodes.length = 2 ∧ s2.closed = true ∧ s2.w.faults = [] ∧
      s2.nextId = s.nextId ∧
      (s2.nodeAt x).body = { (s.nodeAt x).body with
        frameBuf := lookReply fid ax ty (MeshProtocol.replyBytes (lookVal (s.nodeAt m) fid ax ty body)) } ∧
      (s2.nodeAt m).body = { (s.nodeAt m).body with
        frameBuf := lookReply fid ax ty (MeshProtocol.replyBytes (lookVal (s.nodeAt m) fid ax ty body)) } ∧
      NodeRadio L Pm true true 0x3E (s2.nodeAt m).rf (s2.radioAt m) ∧
      NodeRadio L Px true true 0x3E (s2.nodeAt x).rf (s2.radioAt x) ∧
      (s2.radioAt m).rxFifo = [] ∧ (s2.radioAt x).rxFifo = [] ∧
      s2.ridAt m = s.ridAt m ∧ s2.ridAt x = s.ridAt x ∧ s2.w.radios.length = s.w.radios.length ∧
      (∀ i, i ≠ s.ridAt m → i ≠ s.ridAt x → s2.w.radio i = s.w.radio i) ∧
      (∃ pid1 pid2, (s2.radioAt m).lastRx = some { pid := pid1, addr := Am, data := pk } ∧
        (s2.radioAt x).lastRx = some { pid := pid2, addr := Ax, data := pk' }) := by
  have hcl : s.cur < s.nodes.length := by rw [hcur, hlen]; exact hx
  have hnode : s.node = s.nodeAt x := by rw [node_eq_nodeAt, hcur]
  have hdrvr : s.drv.radio = s.radioAt x := by
    show s.w.radio s.node.rf.rid = _
    rw [hnode]; rfl
  have two : ∀ k, k < 2 → k = m ∨ k = x := by omega
  have hty256 : ty < 256 := by rcases hty with rfl | rfl <;> decide
  generalize hans : MeshProtocol.replyBytes (lookVal (s.nodeAt m) fid ax ty body) = ans at hpk' ⊢
  have hansl : ans.length = 2 := by rw [← hans]; rfl
  -- 1. the asker's write
  have hq : Quiet s := by
    intro k hk hkc hka
    rcases two k (by rw [← hlen]; exact hk) with rfl | rfl
    · exact hfm
    · exact absurd hcur.symm hkc
  have hrid : ∀ k, k < s.nodes.length → k ≠ s.cur → s.ridAt k ≠ s.ridAt s.cur := by
    intro k hk hkc
    rcases two k (by rw [← hlen]; exact hk) with rfl | rfl
    · rw [hcur]; exact hridne
    · exact absurd hcur.symm hkc
  obtain ⟨D1, e1, r1, l1, fl1, N1, x1, lr1, ⟨pid1, hgot1⟩, hoth1⟩ := Hops.nodeWrite_hop_plain l3contracts f1 s L Px Pm
    m px 0 0 px TX_NORMAL ty Am pk hcl hclosed (by rw [hlen]; omega) hq
    (by show s.node.rf.rid < _; rw [hnode]; exact hridx)
    (by rw [hnode, hdrvr]; exact hNx) (by rw [hlen]; exact hm) (by rw [hcur]; exact hmx) hrid hNm
    (by rw [hnode]; exact hxcfg) hAm hpx1 hpx5 hltm (by rw [hfm]; decide) hdupm
    (by
      intro i pid hi him
      rw [hcur] at hi
      exact Radio.listensTo_not_rx _ _ (by rw [hothers i him hi]))
    hfaults (by rw [hnode, hxfb]; exact hbody) (by rw [hnode, hxfb]; exact hpk)
    (by rw [hnode, hxaddr]; exact fun h => hax0 h.symm) (by rw [hnode, hxfb]; rfl) (by rw [hnode]; exact hxl2p)
    (Or.inl (by rcases hty with rfl | rfl <;> decide))
  refine ⟨s.afterRf D1, ?_⟩
  -- the world after the write
  generalize hRm : (s.radioAt m).withRx [{ pipe := px, data := pk }] { pid := pid1, addr := Am, data := pk } = Rm
  have hD1m : D1.w.radio (s.ridAt m) = Rm := by
    rw [hgot1, ← hRm, hfm]; rfl
  have hNRm : NodeRadio L Pm true true 0x3E (s.nodeAt m).rf Rm := by
    rw [← hRm]; exact hNm.withRx px pk _ hpx5
  have hRmfifo : Rm.rxFifo = [{ pipe := px, data := pk }] := by rw [← hRm]; rfl
  have hRmlast : Rm.lastRx = some { pid := pid1, addr := Am, data := pk } := by rw [← hRm]; rfl
  have hD1x : D1.radio = D1.w.radio (s.ridAt x) := by
    show D1.w.radio D1.d.rid = _
    rw [r1, hnode]; rfl
  generalize hs1 : s.afterRf D1 = s1 at e1
  have s1cur : s1.cur = x := by rw [← hs1]; exact hcur
  have s1act : s1.active = [x] := by rw [← hs1]; exact hact
  have s1len : s1.nodes.length = 2 := by rw [← hs1]; simpa using hlen
  have s1m : s1.nodeAt m = s.nodeAt m := by
    rw [← hs1]; exact nodeAt_afterRf_ne s D1 m (by rw [hcur]; exact hmx)
  have s1xb : (s1.nodeAt x).body = (s.nodeAt x).body := by rw [← hs1]; exact body_afterRf s D1 x
  have s1xrf : (s1.nodeAt x).rf = D1.d := by rw [← hs1, ← hcur]; exact rf_afterRf_cur s D1 hcl
  have s1w : s1.w = D1.w := by rw [← hs1]; rfl
  have s1node : s1.node = s1.nodeAt x := by rw [node_eq_nodeAt, s1cur]
  have s1radm : s1.radioAt m = Rm := by
    show s1.w.radio (s1.nodeAt m).rf.rid = _
    rw [s1m, s1w]; exact hD1m
  -- 2. the master's `update()`
  generalize hsm : s1.switchTo m = sm
  have smcur : sm.cur = m := by rw [← hsm]; rfl
  have smlen : sm.nodes.length = 2 := by rw [← hsm]; simpa using s1len
  have smact : sm.active = [m, x] := by rw [← hsm]; show m :: s1.active = _; rw [s1act]
  have smw : ∀ r, sm.w.radio r = D1.w.radio r := by intro r; rw [← hsm]; show s1.w.radio r = _; rw [s1w]
  have smnode : sm.node = s.nodeAt m := by
    rw [node_eq_nodeAt, smcur, ← hsm, nodeAt_switchTo_eq, nodeAt_setNode, if_neg, s1m]
    rintro ⟨h, _⟩
    rw [s1cur] at h; exact hmx h
  have smrad : sm.drv.radio = Rm := by
    show sm.w.radio sm.node.rf.rid = _
    rw [smnode, smw]; exact hD1m
  have smxrf : (sm.nodeAt x).rf = D1.d := by rw [← hsm, rf_switchTo, s1xrf]
  have smridx : sm.ridAt x = s.ridAt x := by
    show (sm.nodeAt x).rf.rid = _
    rw [smxrf, r1, hnode]; rfl
  have smridm : sm.ridAt sm.cur = s.ridAt m := by
    show sm.node.rf.rid = _
    rw [smnode]; rfl
  have smradx : sm.radioAt x = D1.radio := by
    show sm.w.radio (sm.ridAt x) = _
    rw [smridx, smw, ← hD1x]
  have hmne : x ≠ sm.cur := by rw [smcur]; exact fun h => hmx h.symm
  obtain ⟨Da, Db, eU, Fa, xa, rb, lb, fb, Nb, xb, lrb, ⟨pid2, hgot2⟩, hoth2⟩ := master_lookup f sm L Pm Px x px fid ax ty
    body Ax pk pk'
    (by rw [smcur, smlen]; exact hm) (by rw [← hsm, ← hs1]; exact hclosed) (by rw [smlen]; omega)
    (by
      intro k hk hkc hka
      rcases two k (by rw [← smlen]; exact hk) with rfl | rfl
      · exact absurd smcur.symm hkc
      · rw [smact] at hka; simp at hka)
    (by show sm.node.rf.rid < sm.w.radios.length
        rw [smnode, ← hsm]; show _ < s1.w.radios.length; rw [s1w, l1]; exact hridm)
    (by rw [smnode, smrad]; exact hNRm)
    (by
      intro k hk hkc
      rcases two k (by rw [← smlen]; exact hk) with rfl | rfl
      · exact absurd smcur.symm hkc
      · rw [smridx, smridm]; exact fun h => hridne h.symm)
    (by rw [smnode]; exact harrm) (by rw [smrad]; exact hRmfifo) hpx5
    (by rw [← hsm]; show s1.w.faults = []; rw [s1w]; exact fl1)
    (by rw [smlen]; exact hx) hmne
    (by rw [smxrf, smradx]; exact N1)
    (by rw [smradx, x1, hdrvr, hfx]; decide)
    (by intro pid; rw [smradx, lr1, hdrvr]; exact hdupx pid)
    (by
      intro i hi hix
      rw [smridm] at hi
      rw [smridx] at hix
      rw [smw, hoth1 i (by rw [hcur]; exact hix) hi]
      exact hothers i hi hix)
    hpk hty hlong hbody hax hfid haxv hax0
    (by rw [smnode]; exact hkind) (by rw [smnode]; exact hid) (by rw [smnode]; exact hmaddr)
    (by rw [smnode]; exact hmret) (by rw [smnode]; exact hdo) (by rw [smnode]; exact hsmall)
    (by rw [smnode]; exact hml2p) (by rw [smnode]; exact hmcfg) hAx hltx
    (by rw [smnode, hans]; exact hpk')
  rw [smnode] at eU
  generalize hsj : ((sm.afterRf Da).putNode (answered (s.nodeAt m) Da.d fid ax ty body)).afterRf Db = sj at eU
  have smc : sm.cur < sm.nodes.length := by rw [smcur, smlen]; exact hm
  have sjcur : sj.cur = m := by rw [← hsj]; exact smcur
  have sjact : sj.active = [m, x] := by rw [← hsj]; exact smact
  have sjlen : sj.nodes.length = 2 := by rw [← hsj]; simpa using smlen
  have sjw : sj.w = Db.w := by rw [← hsj]; rfl
  have sjx : sj.nodeAt x = sm.nodeAt x := by
    rw [← hsj, nodeAt_afterRf_ne _ _ _ (by show x ≠ sm.cur; exact hmne),
      nodeAt_putNode_ne _ _ _ (by show x ≠ sm.cur; exact hmne),
      nodeAt_afterRf_ne _ _ _ hmne]
  have sjmb : (sj.nodeAt m).body = (answered (s.nodeAt m) Da.d fid ax ty body).body := by
    rw [← hsj, body_afterRf]
    have := nodeAt_putNode_cur (sm.afterRf Da) (answered (s.nodeAt m) Da.d fid ax ty body) (by simpa using smc)
    rw [show (sm.afterRf Da).cur = m from smcur] at this
    rw [this]
  have sjmrf : (sj.nodeAt m).rf = Db.d := by
    rw [← hsj]
    have := rf_afterRf_cur ((sm.afterRf Da).putNode (answered (s.nodeAt m) Da.d fid ax ty body)) Db (by simpa using smc)
    rw [show ((sm.afterRf Da).putNode (answered (s.nodeAt m) Da.d fid ax ty body)).cur = m from smcur] at this
    exact this
  have hDbrid : Db.d.rid = s.ridAt m := by rw [rb, smnode]; rfl
  -- the asker's radio after the master's run
  generalize hRx : D1.radio.withRx [{ pipe := 5, data := pk' }] { pid := pid2, addr := Ax, data := pk' } = Rx
  have hD1fifo : D1.radio.rxFifo = [] := by rw [x1, hdrvr, hfx]
  have hDbx : Db.w.radio (s.ridAt x) = Rx := by
    rw [← smridx, hgot2, smradx, ← hRx, hD1fifo]; rfl
  have hNRx : NodeRadio L Px true true 0x3E D1.d Rx := by
    rw [← hRx]; exact N1.withRx 5 pk' _ (by decide)
  have hRxfifo : Rx.rxFifo = [{ pipe := 5, data := pk' }] := by rw [← hRx]; rfl
  have hRxlast : Rx.lastRx = some { pid := pid2, addr := Ax, data := pk' } := by rw [← hRx]; rfl
  -- 3. the asker's read
  generalize hs5 : sj.switchBack s1.cur m = s5
  have s5cur : s5.cur = x := by rw [← hs5]; exact s1cur
  have s5act : s5.active = [x] := by
    rw [← hs5]; show sj.active.erase m = _; rw [sjact, List.erase_cons_head]
  have s5len : s5.nodes.length = 2 := by rw [← hs5]; simpa using sjlen
  have s5rad : ∀ k, s5.radioAt k = sj.radioAt k := by intro k; rw [← hs5]; exact radioAt_switchBack sj _ m k
  have s5rf : ∀ k, (s5.nodeAt k).rf = (sj.nodeAt k).rf := by intro k; rw [← hs5]; exact rf_switchBack sj _ m k
  have s5body : ∀ k, (s5.nodeAt k).body = (sj.nodeAt k).body := by
    intro k; rw [← hs5]; exact body_switchBack sj _ m k
  have s5node : s5.node = s5.nodeAt x := by rw [node_eq_nodeAt, s5cur]
  have s5xrf : (s5.nodeAt x).rf = D1.d := by rw [s5rf, sjx, smxrf]
  have s5radx : s5.radioAt x = Rx := by
    rw [s5rad]
    show sj.w.radio (sj.nodeAt x).rf.rid = _
    rw [sjx, smxrf, sjw, r1, hnode]
    exact hDbx
  have s5radm : s5.radioAt m = Db.radio := by
    rw [s5rad]
    show sj.w.radio (sj.nodeAt m).rf.rid = _
    rw [sjmrf, sjw]; rfl
  have s5drvr : s5.drv.radio = s5.radioAt x := by
    show s5.w.radio s5.node.rf.rid = _
    rw [s5node]; rfl
  have s5wr : ∀ i, s5.w.radio i = Db.w.radio i := by
    intro i; rw [← hs5]; show sj.w.radio i = _; rw [sjw]
  have s5w : s5.w.radios.length = s.w.radios.length ∧ s5.w.faults = [] := by
    rw [← hs5]
    show sj.w.radios.length = _ ∧ sj.w.faults = []
    rw [sjw, lb]
    refine ⟨?_, fb⟩
    rw [← hsm]; show s1.w.radios.length = _; rw [s1w, l1]
  have hpkl' : pk'.length = 8 + (lookReply fid ax ty ans).message.length := pack_length hpk'
  have hrunm : s1.runnable m := by
    refine ⟨by rw [s1cur]; exact hmx, by rw [s1act]; simp [hmx], ?_, ?_⟩
    · show (!(s1.radioAt m).rxFifo.isEmpty) = true
      rw [s1radm, hRmfifo]; rfl
    · show (s1.radioAt m).rxMode = true
      rw [s1radm]; exact hNRm.rxMode
  obtain ⟨D6, e6, F6, N6, x6⟩ := read_nested2 s1 sj m (f + 4) (.ok ty) L Px true true 0x3E
    (by rw [← hs1]; exact hclosed)
    (by
      have : s1.node.arrivals = (s1.nodeAt x).body.arrivals := by rw [s1node]; rfl
      rw [this, s1xb]; exact harrx)
    (by rw [s1len]; exact hm) hrunm
    (by
      intro k hk hr
      rcases two k (by omega) with rfl | rfl
      · omega
      · exact hr.1 s1cur.symm)
    (by rw [hsm]; exact eU) (by rw [sjlen, s1len]) (by rw [s1len]; omega)
    (by
      intro k hk hkl hr
      rw [hs5] at hr
      rcases two k (by rw [← s1len]; exact hkl) with rfl | rfl
      · omega
      · exact hr.1 s5cur.symm)
    (by rw [hs5]; show s5.node.rf.rid < s5.w.radios.length; rw [s5node, s5xrf, r1, hnode, s5w.1]; exact hridx)
    (by rw [hs5, s5node, s5drvr, s5xrf, s5radx]; exact hNRx)
    (by
      rw [hs5, s5drvr, s5radx, hRxfifo]
      intro e he
      simp only [List.mem_singleton] at he
      subst he
      have : (lookReply fid ax ty ans).message.length = 2 := hansl
      exact ⟨Nat.le_refl 5, by simp only []; rw [hpkl', this]; decide, by simp only []; rw [hpkl', this]; decide⟩)
  rw [hs5] at e6 F6 x6
  have hhead : s5.drv.radio.rxFifo = [{ pipe := 5, data := pk' }] := by
    rw [s5drvr, s5radx]; exact hRxfifo
  rw [hhead] at e6 x6
  simp only [List.head?_cons, Option.map_some, List.tail_cons] at e6 x6
  -- 4. `_net_update()` of the asker
  have s5c : s5.cur < s5.nodes.length := by rw [s5cur, s5len]; exact hx
  have s6c : (s5.afterRf D6).cur < (s5.afterRf D6).nodes.length := by simpa using s5c
  have s6node : (s5.afterRf D6).node = { s5.node with rf := D6.d } := afterRf_node s5 D6 s5c
  have s5xb : (s5.nodeAt x).body = (s.nodeAt x).body := by
    rw [s5body, sjx, ← hsm, body_switchTo, s1xb]
  have s5addr : s5.node.a.addr = ax := by
    have : s5.node.a = (s5.nodeAt x).body.a := by rw [s5node]; rfl
    rw [this, s5xb]; exact hxaddr
  have s5ret : s5.node.retSysMsg = true := by
    have : s5.node.retSysMsg = (s5.nodeAt x).body.retSysMsg := by rw [s5node]; rfl
    rw [this, s5xb]; exact hxret
  have hwire := lookReply_wire fid ax ty ans hax hfid hty256
  have hnu := netUpdate_sys (f + 4 + 1 + m) s1 (s5.afterRf D6) pk' (lookReply fid ax ty ans) ty s6c
    (by rw [show f + 4 + 1 + m + 1 = f + 4 + 2 + m from by omega]; exact e6) rfl hpk' hwire
    (by rw [s6node]; exact s5addr.symm) haxv haxv
    (by rcases hty with rfl | rfl <;> decide)
    (by rcases hty with rfl | rfl <;> exact fun h => absurd h.1 (by decide))
    (by rcases hty with rfl | rfl <;> exact fun h => absurd h.1 (by decide))
    (by rw [s6node]; exact s5ret)
    (by rcases hty with rfl | rfl <;> decide) (by rcases hty with rfl | rfl <;> decide)
  have hne5 : m ≠ s5.cur := by rw [s5cur]; exact hmx
  have hne6 : m ≠ (s5.afterRf D6).cur := hne5
  have hrm : s5.ridAt m = Db.d.rid := by show (s5.nodeAt m).rf.rid = _; rw [s5rf, sjmrf]
  have hrx5 : s5.drv.d.rid = s.ridAt x := by
    show s5.node.rf.rid = _
    rw [s5node, s5xrf, r1, hnode]; rfl
  have hnem : s5.ridAt m ≠ s5.drv.d.rid := by rw [hrm, hDbrid, hrx5]; exact hridne
  have h1x : ((s5.afterRf D6).withFrame (lookReply fid ax ty ans)).nodeAt x =
      { (s5.afterRf D6).nodeAt x with frameBuf := lookReply fid ax ty ans } := by
    unfold NetState.withFrame
    rw [nodeAt_setNode, if_pos ⟨by show x = s5.cur; exact s5cur.symm, s6c⟩]
  have hradm6 : ((s5.afterRf D6).withFrame (lookReply fid ax ty ans)).radioAt m = Db.radio := by
    rw [radioAt_withFrame, radioAt_afterRf_ne _ _ _ hne5]
    show D6.w.radio (s5.ridAt m) = _
    rw [F6.others _ hnem]
    exact s5radm
  have hradx6 : ((s5.afterRf D6).withFrame (lookReply fid ax ty ans)).radioAt x = D6.radio := by
    rw [radioAt_withFrame, ← s5cur, radioAt_afterRf_cur s5 D6 s5c]
  refine ⟨(s5.afterRf D6).withFrame (lookReply fid ax ty ans), e1, ?_, s5cur, s5act, by simpa using s5len, ?_, ?_,
    ?_, ?_, ?_, ?_, ?_, ?_, ?_, ?_, ?_, ?_, ?_, pid1, pid2, ?_, ?_⟩
  · rw [show f + 7 + m = f + 4 + 1 + m + 2 from by omega]; exact hnu
  · show s5.closed = true
    rw [← hs5, ← hsj, ← hsm, ← hs1]; exact hclosed
  · show D6.w.faults = []
    rw [F6.faults]; exact s5w.2
  · show s5.nextId = s.nextId
    rw [← hs5, ← hsj, ← hsm, ← hs1]; rfl
  · rw [h1x]
    have h2 := body_afterRf s5 D6 x
    rw [s5xb] at h2
    show ({ ((s5.afterRf D6).nodeAt x).body with frameBuf := lookReply fid ax ty ans } : Node) = _
    rw [h2]
  · rw [nodeAt_withFrame_ne _ _ _ hne6, body_afterRf, s5body, sjmb, ← hans]
    rfl
  · rw [hradm6, nodeAt_withFrame_ne _ _ _ hne6, nodeAt_afterRf_ne _ _ _ hne5, s5rf, sjmrf]
    exact Nb
  · rw [hradx6, h1x]
    show NodeRadio L Px true true 0x3E ((s5.afterRf D6).nodeAt x).rf D6.radio
    rw [← s5cur, rf_afterRf_cur s5 D6 s5c]
    exact N6
  · rw [hradm6]; exact xb
  · rw [hradx6]; exact x6
  · show (((s5.afterRf D6).withFrame (lookReply fid ax ty ans)).nodeAt m).rf.rid = _
    rw [nodeAt_withFrame_ne _ _ _ hne6, nodeAt_afterRf_ne _ _ _ hne5, s5rf, sjmrf]; exact hDbrid
  · show (((s5.afterRf D6).withFrame (lookReply fid ax ty ans)).nodeAt x).rf.rid = _
    rw [rf_withFrame, ← s5cur, rf_afterRf_cur s5 D6 s5c, F6.rid, s5cur]
    exact hrx5
  · show D6.w.radios.length = _
    rw [F6.len]; exact s5w.1
  · intro i him hix
    show D6.w.radio i = _
    rw [F6.others i (by rw [hrx5]; exact hix)]
    show s5.w.radio i = _
    rw [s5wr,
      hoth2 i (by rw [smridm]; exact him) (by rw [smridx]; exact hix), smw,
      hoth1 i (by rw [hcur]; exact hix) him]
  · rw [hradm6, lrb, smrad]; exact hRmlast
  · rw [hradx6, F6.lastRx, s5drvr, s5radx]; exact hRxlast

end Nrf.Net.Join
