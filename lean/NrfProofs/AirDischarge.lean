/-
Discharging `AirContracts` (NrfProofs/AirContracts.lean): what the six RF24 calls of the network layer do to
the air log `World.air`.  The five calls that transmit nothing are "air kept" computations (`AK`,
NrfProofs/C14Closed5.lean).  The acknowledged `send(buf, send_only=True)` is `l3_send` (NrfProofs/L3Send.lean)
redone over triples that also carry the air log (`RunWA`, NrfProofs/C14Closed5b.lean): the CE edge runs
the one acknowledged cycle, which logs one record — one attempt, reported sent.
-/
import NrfProofs.AirContracts
import NrfProofs.C14Closed5b

set_option linter.unusedSimpArgs false
set_option linter.unusedVariables false

namespace Nrf.L3
open Nrf Nrf.Rf24

/-! ### the five calls that transmit nothing -/

theorem air_setAA (s : DrvState) (L : LinkCfg) (P : List Bytes) (rx ce : Bool) (aa v : Nat)
    (hN : NodeRadio L P rx ce aa s.d s.radio) :
    (exec (setAutoAckAttr (.i v)) s).2.w.air = s.w.air :=
  ((AK.setAutoAckAttr (.i v)) s hN.txEmpty).2.2

theorem air_listenOff (s : DrvState) (L : LinkCfg) (P : List Bytes) (rx ce : Bool) (aa : Nat)
    (hN : NodeRadio L P rx ce aa s.d s.radio) :
    (exec (setListen false) s).2.w.air = s.w.air :=
  ((AK.setListen false) s hN.txEmpty).2.2

theorem air_openTx (s : DrvState) (L : LinkCfg) (P : List Bytes) (rx ce : Bool) (aa : Nat) (a : Bytes)
    (hN : NodeRadio L P rx ce aa s.d s.radio) :
    (exec (openTxPipe a) s).2.w.air = s.w.air :=
  ((AK.openTxPipe a) s hN.txEmpty).2.2

theorem air_listenOn (s : DrvState) (L : LinkCfg) (P : List Bytes) (rx ce : Bool) (aa : Nat)
    (hN : NodeRadio L P rx ce aa s.d s.radio) :
    (exec (setListen true) s).2.w.air = s.w.air :=
  ((AK.setListen true) s hN.txEmpty).2.2

theorem air_read (s : DrvState) (L : LinkCfg) (P : List Bytes) (rx ce : Bool) (aa : Nat)
    (hN : NodeRadio L P rx ce aa s.d s.radio) :
    (exec (Rf24.read none) s).2.w.air = s.w.air :=
  read_keeps_air s hN.txEmpty

/-! ### the acknowledged cycle, with the air log -/

/-- `cycle_acked` (NrfProofs/L3Air.lean), the air clause: one record — one attempt, reported sent -/
theorem cycle_acked_air (w : World) (a b : Nat) (e : TxEntry) (rest : List TxEntry) (ha : a < w.radios.length)
    (hf : w.faults = []) (haw : (w.radio a).awaitsAck e = true) (hcan : canHear (w.radio a) = true)
    (hb : b < w.radios.length) (hba : b ≠ a)
    (hack : ((w.radio b).receive ((w.radio a).packetFor e)).2.isSome = true) :
    (w.cycle a e rest).air =
      w.air ++ [{ sender := a, pkt := (w.radio a).packetFor e, attempts := 1, ok := true }] := by
  unfold World.cycle
  simp only [haw, Bool.not_true, Bool.false_eq_true, ↓reduceIte]
  generalize hw1 : w.updRadio a (fun x => x.takePid e) = w1
  have hlen1 : w1.radios.length = w.radios.length := by rw [← hw1]; exact updRadio_length _ _ _
  have hf1 : w1.faults = [] := by rw [← hw1]; exact hf
  have hra : w1.radio a = (w.radio a).takePid e := by rw [← hw1]; exact updRadio_radio_self _ _ _ ha
  have hro : ∀ i, i ≠ a → w1.radio i = w.radio i := by
    intro i hi; rw [← hw1]; exact updRadio_radio_other _ _ _ _ hi
  have hair1 : w1.air = w.air := by rw [← hw1]; rfl
  have hcan1 : canHear (w1.radio a) = true := by rw [hra]; exact hcan
  have hack1 : (w1.deliver a ((w.radio a).packetFor e)).2.isSome = true :=
    deliver_ack w1 a b _ (by rw [hlen1]; exact hb) hba (by rw [hro b hba]; exact hack)
  rw [attemptLoop_first a ((w.radio a).packetFor e) ((w.radio a).setupRetr &&& 0x0F) 0 w1 hf1 hcan1 hack1]
  obtain ⟨x, hx⟩ := Option.isSome_iff_exists.mp hack1
  simp only [hx, Nat.zero_add]
  show ((w1.deliver a ((w.radio a).packetFor e)).1.updRadio a fun r => r.txDoneAcked rest 1 x).air ++ _ = _
  have : ((w1.deliver a ((w.radio a).packetFor e)).1.updRadio a fun r => r.txDoneAcked rest 1 x).air = w1.air := rfl
  rw [this, hair1]

/-- `setCE_transmit` (NrfProofs/L3Air.lean), the air clause -/
theorem setCE_transmit_air (w : World) (a b : Nat) (e : TxEntry) (ha : a < w.radios.length) (hf : w.faults = [])
    (hfifo : (w.radio a).txFifo = [e]) (hkind : e.kind = .payload)
    (hpwr : (w.radio a).pwrUp = true) (hrole : (w.radio a).primRx = false) (hfl : (w.radio a).flags &&& 0x10 = 0)
    (haw : (w.radio a).awaitsAck e = true) (hcan : canHear (w.radio a) = true)
    (hb : b < w.radios.length) (hba : b ≠ a)
    (hack : ((w.radio b).receive ((w.radio a).packetFor e)).2.isSome = true) :
    (w.setCE a true).air =
      w.air ++ [{ sender := a, pkt := (w.radio a).packetFor e, attempts := 1, ok := true }] := by
  have hl : a < (w.jump a).radios.length := ha
  unfold World.setCE
  simp only [jump_radio]
  generalize hw0 : (w.jump a).setRadio a { (w.radio a) with ce := true } = w0
  have hr0 : w0.radio a = { (w.radio a) with ce := true } := by rw [← hw0, World.radio_setRadio]; simp [hl]
  have hro : ∀ i, i ≠ a → w0.radio i = w.radio i := by
    intro i hi; rw [← hw0, World.radio_setRadio]; simp [hi]; rfl
  have hlen0 : w0.radios.length = w.radios.length := by rw [← hw0]; simp [World.setRadio, World.jump]
  have hf0 : w0.faults = [] := by rw [← hw0]; exact hf
  have hair0 : w0.air = w.air := by rw [← hw0]; rfl
  have htx : (w0.radio a).txMode = true := by
    rw [hr0]; unfold Radio.txMode Radio.pwrUp Radio.primRx at *
    simp only at hpwr hrole ⊢
    rw [hpwr, hrole]; rfl
  have hfl0 : (w0.radio a).flags &&& 0x10 = 0 := by rw [hr0]; exact hfl
  have hfifo0 : (w0.radio a).txFifo = [e] := by rw [hr0]; exact hfifo
  have hpk : (w0.radio a).packetFor e = (w.radio a).packetFor e := by rw [hr0]; rfl
  obtain ⟨x, hx, hfx, hlx, hox⟩ := cycle_acked w0 a b e [] (by rw [hlen0]; exact ha) hf0
    (by rw [hr0]; exact haw) (by rw [hr0]; exact hcan) (by rw [hlen0]; exact hb) hba
    (by rw [hro b hba, hpk]; exact hack)
  have hax := cycle_acked_air w0 a b e [] (by rw [hlen0]; exact ha) hf0
    (by rw [hr0]; exact haw) (by rw [hr0]; exact hcan) (by rw [hlen0]; exact hb) hba
    (by rw [hro b hba, hpk]; exact hack)
  show (World.tryTransmit a 4 w0).air = _
  have hstep : World.tryTransmit a 4 w0 = w0.cycle a e [] := by
    unfold World.tryTransmit
    simp only [htx, hfl0, decide_true, Bool.and_self, ↓reduceIte, hfifo0, hkind]
    exact tryTransmit_idle a 3 _ (Or.inl (by rw [hx]; rfl))
  rw [hstep, hax, hair0, hpk]

/-! ### `send`, acknowledged, over triples with the air log -/

/-- CE high on a transmitter with one payload queued and an acknowledging peer: the one transmit cycle,
    one record on the air -/
theorem runWA_transmit {w0 : World} {A : List AirRec} {d : Rf24} {r : Radio} (e : TxEntry) (b : Nat)
    (hf : w0.faults = []) (hfifo : r.txFifo = [e]) (hkind : e.kind = .payload) (hpwr : r.pwrUp = true)
    (hrole : r.primRx = false) (hfl : r.flags &&& 0x10 = 0) (haw : r.awaitsAck e = true)
    (hcan : canHear r = true) (hb : b < w0.radios.length) (hbd : b ≠ d.rid)
    (hack : ((w0.radio b).receive (r.packetFor e)).2.isSome = true) :
    RunWA w0 A (setCE true) d r (fun _ d' r' w1 A1 => d = d' ∧
      (∃ x, (({ r with ce := true } : Radio).takePid e).txDoneAcked [] 1 x = r') ∧
      w1.faults = [] ∧ w1.radios.length = w0.radios.length ∧
      (∀ i, i ≠ d.rid → w1.radio i = ((w0.radio i).receive (r.packetFor e)).1) ∧
      A1 = A ++ [{ sender := d.rid, pkt := r.packetFor e, attempts := 1, ok := true }]) := by
  intro s hs hA
  obtain ⟨hd, hwf, hr, ho, hfl', hl⟩ := hs
  have ha : s.d.rid < s.w.radios.length := by rw [hd, hl]; exact hwf
  have hr' : s.w.radio s.d.rid = r := by rw [hd]; exact hr
  obtain ⟨x, h1, h2, h3, h4⟩ := setCE_transmit s.w s.d.rid b e ha (hfl'.trans hf) (by rw [hr']; exact hfifo) hkind
    (by rw [hr']; exact hpwr) (by rw [hr']; exact hrole) (by rw [hr']; exact hfl) (by rw [hr']; exact haw)
    (by rw [hr']; exact hcan) (by rw [hl]; exact hb) (by rw [hd]; exact hbd)
    (by rw [hr', ho b hbd]; exact hack)
  have h5 := setCE_transmit_air s.w s.d.rid b e ha (hfl'.trans hf) (by rw [hr']; exact hfifo) hkind
    (by rw [hr']; exact hpwr) (by rw [hr']; exact hrole) (by rw [hr']; exact hfl) (by rw [hr']; exact haw)
    (by rw [hr']; exact hcan) (by rw [hl]; exact hb) (by rw [hd]; exact hbd)
    (by rw [hr', ho b hbd]; exact hack)
  rw [hr'] at h1 h4 h5
  refine ⟨(), { s with w := s.w.setCE s.d.rid true }, d, _, s.w.setCE s.d.rid true, exec_setCE true s,
    ⟨hd, by rw [h3, hl]; exact hwf, by rw [← hd]; exact h1, fun _ _ => rfl, rfl, rfl⟩,
    rfl, ⟨x, rfl⟩, h2, h3.trans hl, ?_, ?_⟩
  · intro i hi
    rw [h4 i (by rw [hd]; exact hi), ho i hi]
  · show (s.w.setCE s.d.rid true).air = _
    rw [h5, hA, hd]

/-- `runW_write` (NrfProofs/L3Send.lean) with the air log: one record -/
theorem runWA_write {w0 : World} {A : List AirRec} {d : Rf24} {r : Radio} (buf : Bytes) (b : Nat)
    (hl1 : 1 ≤ buf.length) (hl32 : buf.length ≤ 32) (hdyn : d.dynPl &&& 1 ≠ 0)
    (hce : r.ce = false) (ht : r.txFifo = []) (hp : r.rxPNo ≤ 7)
    (hf : w0.faults = []) (hpwr : r.pwrUp = true) (hrole : r.primRx = false)
    (haa : r.enAA = 0x3F) (hfe : r.feature &&& 2 = 0) (hcan : canHear r = true)
    (hb : b < w0.radios.length) (hbd : b ≠ d.rid)
    (hack : ((w0.radio b).receive (r.packetFor { kind := .payload, data := buf })).2.isSome = true) :
    RunWA w0 A (write buf false) d r (fun a d' r' w1 A1 =>
      a = (true, buf) ∧ d' = { d with status := ({ r with flags := 0 } : Radio).status } ∧
      r' = sentRadio r ∧
      w1.faults = [] ∧ w1.radios.length = w0.radios.length ∧
      (∀ i, i ≠ d.rid → w1.radio i = ((w0.radio i).receive (r.packetFor { kind := .payload, data := buf })).1) ∧
      A1 = A ++ [{ sender := d.rid, pkt := r.packetFor { kind := .payload, data := buf }, attempts := 1, ok := true }]) := by
  unfold write
  refine RunWA.bind (run_getD.toWA AK.getD ht) ?_
  rintro _ _ _ _ _ ⟨rfl, rfl, rfl, rfl, rfl⟩
  have hlen : ¬ (d.dynPl &&& 1 ≠ 0 ∧ (buf.isEmpty = true ∨ buf.length > 32)) := by
    rintro ⟨_, h | h⟩
    · cases buf <;> simp at h hl1
    · omega
  simp only [hlen, hdyn, ↓reduceIte]
  -- clear_status_flags()
  have hcs : (clearStatusFlags : DrvM Unit) = regWrite 7 ((0x70 : Nat) : Int) := rfl
  rw [hcs]
  refine RunWA.bind ((run_regWrite 7 0x70 (by decide) (by decide) ht).toWA (AK.regWrite _ _ (by decide)) ht) ?_
  rintro _ _ _ _ _ ⟨rfl, rfl, rfl, rfl⟩
  have hclr : r.writeReg 7 [0x70] = { r with flags := 0 } := by simp [Radio.writeReg]
  rw [hclr]
  refine RunWA.bind (run_getD.toWA AK.getD ht) ?_
  rintro _ _ _ _ _ ⟨rfl, rfl, rfl, rfl, rfl⟩
  have hst1 : ¬ (r.status &&& 1 ≠ 0) := by rw [(status_bits r ht hp).1]; simp
  simp only [hst1, ↓reduceIte]
  -- W_TX_PAYLOAD
  have hreg : (160 ||| b2n false <<< 4) = 0xA0 := by decide
  rw [hreg]
  have hbne : buf ≠ [] := by intro h; rw [h] at hl1; simp at hl1
  have hx : ({ r with flags := 0 } : Radio).xfer ((0x20 ||| 0xA0) :: buf) = _ :=
    xfer_wTx ({ r with flags := 0 } : Radio) buf ht hbne
  rw [List.take_of_length_le hl32] at hx
  refine RunWA.bind (runWA_cmdBytes 0xA0 buf (Or.inr (by rw [hx]; simp [Radio.txMode, hce]))) ?_
  rintro _ _ _ _ _ ⟨rfl, rfl, rfl, rfl⟩
  rw [hx]
  simp only [Bool.not_false, ↓reduceIte]
  -- CE high
  have haw : ({ r with flags := 0, txFifo := [{ kind := .payload, data := buf }] } : Radio).awaitsAck
      { kind := .payload, data := buf } = true := by
    simp [Radio.awaitsAck, Radio.esb, Radio.noAckFor, Radio.bit, haa]
  refine RunWA.bind (runWA_transmit { kind := .payload, data := buf } b hf rfl rfl hpwr hrole
    (Nat.zero_and 16) haw hcan hb hbd hack) ?_
  rintro _ _ _ _ _ ⟨rfl, ⟨x, rfl⟩, hf1, hlen1, ho1, rfl⟩
  rw [txDone_shape ({ r with flags := 0, txFifo := [{ kind := .payload, data := buf }] } : Radio) _ x hfe]
  exact RunWA.pure _ ⟨rfl, rfl, by first | rfl | simp, hf1, hlen1, ho1, rfl⟩

/-- `runW_sendTail` (NrfProofs/L3Send.lean) with the air log: `True`, one record -/
theorem runWA_sendTail {w0 : World} {A : List AirRec} {d : Rf24} {r : Radio} (buf : Bytes) (b : Nat)
    (hl1 : 1 ≤ buf.length) (hl32 : buf.length ≤ 32) (hdyn : d.dynPl &&& 1 ≠ 0)
    (hce : r.ce = false) (ht : r.txFifo = []) (hp : r.rxPNo ≤ 7)
    (hf : w0.faults = []) (hpwr : r.pwrUp = true) (hrole : r.primRx = false)
    (haa : r.enAA = 0x3F) (hfe : r.feature &&& 2 = 0) (hcan : canHear r = true)
    (hb : b < w0.radios.length) (hbd : b ≠ d.rid)
    (hack : ((w0.radio b).receive (r.packetFor { kind := .payload, data := buf })).2.isSome = true) :
    RunWA w0 A (sendTail buf) d r (fun a d' r' w1 A1 =>
      a = (.bool true, buf) ∧ (∃ st, d' = { d with status := st }) ∧
      r' = sentRadio r ∧
      w1.faults = [] ∧ w1.radios.length = w0.radios.length ∧
      (∀ i, i ≠ d.rid → w1.radio i = ((w0.radio i).receive (r.packetFor { kind := .payload, data := buf })).1) ∧
      A1 = A ++ [{ sender := d.rid, pkt := r.packetFor { kind := .payload, data := buf }, attempts := 1, ok := true }]) := by
  unfold sendTail
  refine RunWA.bind (run_getD.toWA AK.getD ht) ?_
  rintro _ _ _ _ _ ⟨rfl, rfl, rfl, rfl, rfl⟩
  refine RunWA.bind (runWA_write buf b hl1 hl32 hdyn hce ht hp hf hpwr hrole haa hfe hcan hb hbd hack) ?_
  rintro _ _ _ w1 A1 ⟨rfl, rfl, rfl, hf1, hlen1, ho1, hA1⟩
  have h0 : ({ r with flags := 0 } : Radio).status &&& 0x30 = 0 :=
    (status_bits ({ r with flags := 0 } : Radio) ht hp).2.1.trans (Nat.zero_and _)
  have hb2 := status_bits (sentRadio r) rfl hp
  have h1 : (sentRadio r).status &&& 0x30 ≠ 0 := by rw [hb2.2.1]; show (0x20 : Nat) &&& 0x30 ≠ 0; decide
  have h2 : decide ((sentRadio r).status &&& 32 ≠ 0) = true := by rw [hb2.2.2]; show decide ((0x20 : Nat) &&& 32 ≠ 0) = true; decide
  unfold POLL_FUEL
  refine RunWA.bind ((run_poll_once 6 h0 h1 rfl).toWA (AK.pollFlags _) rfl) ?_
  rintro _ _ _ _ _ ⟨rfl, rfl, rfl, rfl⟩
  refine RunWA.bind (run_getD.toWA AK.getD rfl) ?_
  rintro _ _ _ _ _ ⟨rfl, rfl, rfl, rfl, rfl⟩
  simp only [h2]
  refine RunWA.bind ((run_forceRetry0 true _ _).toWA (AK.forceRetry0 _ _ _) rfl) ?_
  rintro _ _ _ _ _ ⟨rfl, rfl, rfl, rfl, rfl⟩
  refine RunWA.bind (run_getD.toWA AK.getD rfl) ?_
  rintro _ _ _ _ _ ⟨rfl, rfl, rfl, rfl, rfl⟩
  exact RunWA.pure _ ⟨rfl, ⟨_, rfl⟩, rfl, hf1, hlen1, ho1, hA1⟩

/-- **the acknowledged `send(buf, send_only=True)` with the air log**: the conclusion of `l3_send_pid`
    (NrfProofs/L3Send.lean), and **exactly one record** was appended to the air log — this radio, the
    packet `s.packet buf`, one attempt, reported sent. -/
theorem l3_send_air (s : DrvState) (L : LinkCfg) (P : List Bytes) (ce : Bool) (buf : Bytes) (j : Nat) (hw : s.Wf)
    (hN : NodeRadio L P false ce 0x3F s.d s.radio) (hta : s.radio.txAddr = s.radio.rxAddr0)
    (hl1 : 1 ≤ buf.length) (hl32 : buf.length ≤ 32) (hflt : s.w.faults = []) (hj : j ≠ s.d.rid)
    (hack : ((s.w.radio j).receive (s.packet buf)).2 = some none) :
    ∃ s', exec (Rf24.send buf false false 0 true) s = (.ok (.bool true, buf), s') ∧
      s'.d.rid = s.d.rid ∧ s'.w.radios.length = s.w.radios.length ∧ s'.w.faults = [] ∧
      (∀ i, i ≠ s.d.rid → s'.w.radio i = ((s.w.radio i).receive (s.packet buf)).1) ∧
      NodeRadio L P false true 0x3F s'.d s'.radio ∧ s'.radio.rxFifo = s.radio.rxFifo ∧
      s'.radio.lastRx = s.radio.lastRx ∧ s'.radio.rxAddr0 = s.radio.rxAddr0 ∧
      s'.radio.txAddr = s.radio.txAddr ∧
      (s.packet buf).pid = s.radio.nextPid ∧ s'.radio.nextPid = (s.radio.nextPid + 1) % 4 ∧
      s'.w.air = s.w.air ++ [{ sender := s.d.rid, pkt := s.packet buf, attempts := 1, ok := true }] := by
  obtain ⟨h1, h2, h3, h4, h5, h6, h7, h8, h9, h10, h11, h12, h13, h14, h15, h16, h17, h18, h19, h20, h21, h22,
    h23, h24, h25, h26, h27, h28, h29⟩ := hN
  have key : RunWA s.w s.w.air (Rf24.send buf false false 0 true) s.d s.radio (fun a d' r' w1 A1 =>
      a = (.bool true, buf) ∧ d'.rid = s.d.rid ∧ w1.radios.length = s.w.radios.length ∧ w1.faults = [] ∧
      (∀ i, i ≠ s.d.rid → w1.radio i = ((s.w.radio i).receive (s.packet buf)).1) ∧
      NodeRadio L P false true 0x3F d' r' ∧ r'.rxFifo = s.radio.rxFifo ∧ r'.lastRx = s.radio.lastRx ∧
      r'.rxAddr0 = s.radio.rxAddr0 ∧ r'.txAddr = s.radio.txAddr ∧
      r'.nextPid = (s.radio.nextPid + 1) % 4 ∧
      A1 = s.w.air ++ [{ sender := s.d.rid, pkt := s.packet buf, attempts := 1, ok := true }]) := by
    -- the peer exists
    have hjl : j < s.w.radios.length := by
      apply Classical.byContradiction
      intro h
      rw [radio_default _ _ h, default_receive] at hack
      cases hack
    have hp : s.radio.rxPNo ≤ 7 := by
      unfold Radio.rxPNo
      cases hfifo : s.radio.rxFifo with
      | nil => exact Nat.le_refl 7
      | cons e rest => exact Nat.le_trans (h29 e (by rw [hfifo]; exact List.mem_cons_self)) (by decide)
    -- the common tail of both branches
    have tail : ∀ (st : Nat) (tf : List TxEntry), tf = [] →
        RunWA s.w s.w.air (sendTail buf) { s.d with status := st } { s.radio with ce := false, txFifo := tf }
          (fun a d' r' w1 A1 =>
            a = (.bool true, buf) ∧ d'.rid = s.d.rid ∧ w1.radios.length = s.w.radios.length ∧ w1.faults = [] ∧
            (∀ i, i ≠ s.d.rid → w1.radio i = ((s.w.radio i).receive (s.packet buf)).1) ∧
            NodeRadio L P false true 0x3F d' r' ∧ r'.rxFifo = s.radio.rxFifo ∧ r'.lastRx = s.radio.lastRx ∧
            r'.rxAddr0 = s.radio.rxAddr0 ∧ r'.txAddr = s.radio.txAddr ∧
            r'.nextPid = (s.radio.nextPid + 1) % 4 ∧
            A1 = s.w.air ++ [{ sender := s.d.rid, pkt := s.packet buf, attempts := 1, ok := true }]) := by
      intro st tf htf
      subst htf
      refine (runWA_sendTail (d := { s.d with status := st }) (r := { s.radio with ce := false, txFifo := [] }) buf j hl1 hl32
        (by rw [h15]; decide) rfl rfl hp hflt
        (by simp [Radio.pwrUp, h2]) h3 h9 (by rw [h13]; decide) (by simp [canHear, Radio.bit, h11, hta]) hjl hj
        (by
          show ((s.w.radio j).receive (s.packet buf)).2.isSome = true
          rw [hack]; rfl)).conseq ?_
      rintro _ _ _ w1 A1 ⟨rfl, ⟨st', rfl⟩, rfl, hf1, hlen1, ho1, hA1⟩
      exact ⟨rfl, rfl, hlen1, hf1, ho1, ⟨h1, h2, h3, rfl, h5, h6, h7, h8, h9, h10, h11, h12, h13, h14, h15, h16,
        h17, h18, h19, h20, h21, h22, h23, h24, h25, rfl, h27, h28, h29⟩, rfl, rfl, rfl, rfl, rfl, hA1⟩
    unfold Rf24.send
    simp only [Bool.not_true, Bool.false_eq_true, false_and, and_false, ↓reduceIte]
    refine RunWA.bind ((run_setCE false (Or.inl h26)).toWA (AK.setCE _) h26) ?_
    rintro _ _ _ _ _ ⟨rfl, rfl, rfl, rfl⟩
    refine RunWA.bind (run_getD.toWA AK.getD h26) ?_
    rintro _ _ _ _ _ ⟨rfl, rfl, rfl, rfl, rfl⟩
    split
    · unfold flushTx
      refine RunWA.bind ((run_regCmd 0xE1 (Or.inl (by rw [xfer_flushTx]))).toWA (AK.regCmd _ (by decide)) h26) ?_
      rintro _ _ _ _ _ ⟨rfl, rfl, rfl, rfl⟩
      rw [xfer_flushTx]
      exact tail _ [] rfl
    · exact tail s.d.status s.radio.txFifo h26
  obtain ⟨_, s', w1, e, S, rfl, q1, q2, q3, q4, q5, q6, q7, q8, q9, q10, q11⟩ := key.start hw
  refine ⟨s', e, q1, S.len.trans q2, S.faults.trans q3, ?_, q5, q6, q7, q8, q9, rfl, q10, q11⟩
  intro i hi
  rw [S.others i (by rw [q1]; exact hi)]
  exact q4 i hi

end Nrf.L3

namespace Nrf
open Rf24

/-- **`AirContracts` holds** of the driver model over the chip and the air. -/
theorem airContracts : AirContracts where
  setAA := fun s L P rx ce aa v _ hN _ => L3.air_setAA s L P rx ce aa v hN
  listenOff := fun s L P rx ce aa _ hN => L3.air_listenOff s L P rx ce aa hN
  openTx := fun s L P ce a _ hN _ => L3.air_openTx s L P false ce 0x3F a hN
  send := fun s L P ce buf j hw hN hta hl1 hl32 hflt hj hack => by
    obtain ⟨s', e, _, _, _, _, _, _, _, _, _, _, _, hair⟩ :=
      L3.l3_send_air s L P ce buf j hw hN hta hl1 hl32 hflt hj hack
    refine ⟨{ sender := s.d.rid, pkt := s.packet buf, attempts := 1, ok := true }, ?_, rfl, rfl, rfl, rfl⟩
    rw [e]
    exact hair
  listenOn := fun s L P ce aa _ hN => L3.air_listenOn s L P false ce aa hN
  read := fun s L P rx ce aa _ hN _ => L3.air_read s L P rx ce aa hN

end Nrf

