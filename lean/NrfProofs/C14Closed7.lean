/-
C14, closed system, part 7: the next scheduling point after a multicast is the `update()` of a
*receiver* itself (entered like the session driver's `runAs`, not by the scheduler).  The receiver is on
the call stack, so at its first `read()` the *other* receivers run `update()` to completion
(`mc_runOthers` for `R.erase y`); then the caller's own `read()` takes its own packet, the frame is
queued once, and `update()` returns the frame's type.
-/
import NrfProofs.C14Closed4

namespace Nrf.Net
open Nrf Nrf.Spec Nrf.Proofs Nrf.Proofs.McastK Nrf.Props.C04

/-- **The next scheduling point, entered by a receiver**: `update()` called as a node `y ∈ R`.  Every
    other receiver runs `update()` to completion inside `y`'s first `read()` and queues the frame once;
    `y` itself then reads its own packet and queues the frame once; the call returns the frame's type
    `t`; all RX FIFOs are empty, the network is the same tree network. -/
theorem multicast_polled_recv (hc : L3Contracts) (cfg : AddrCfg) (ham : cfg.allowMulticast = true)
    (L : LinkCfg) (tree : Nat → List Nat) (fr : Frame) (pk : Bytes) (t : Nat) (o : List Nat)
    (T : McFrame fr pk t o) (s1 : NetState) (R : List Nat) (hR : R.Nodup) (y : Nat)
    (hok : NetOk cfg L tree s1) (hy : y < s1.nodes.length) (hyR : y ∈ R) (hsize : s1.nodes.length ≤ 400)
    (hRl : ∀ j, j ∈ R → j < s1.nodes.length) (hRlen : R.length ≤ s1.nodes.length)
    (hfifo : ∀ j, j < s1.nodes.length → (s1.radioAt j).rxFifo = if j ∈ R then [{ pipe := 0, data := pk }] else [])
    (hacc : ∀ j, j ∈ R → Accepts (s1.nodeAt j).queue fr ∧ (s1.nodeAt j).relayEnabled = false) :
    ∃ s2, nexec apiUpdate ((s1.ret).callAs y) = (.ok t, s2) ∧ NetOk cfg L tree s2 ∧
      (∀ j, j < s1.nodes.length →
        (s2.nodeAt j).queue.frames = (s1.nodeAt j).queue.frames ++ (if j ∈ R then [fr] else [])) ∧
      (∀ j, j < s1.nodes.length → (s2.radioAt j).rxFifo = []) := by
  obtain ⟨hm1, hm2⟩ := T.tyMask
  generalize hu : (s1.ret).callAs y = u
  have ucur : u.cur = y := by rw [← hu]; rfl
  have uact : u.active = [y] := by rw [← hu]; rfl
  have sameu : Same s1 u := by rw [← hu]; exact (Same.ret s1).trans (Same.callAs _ y)
  have ulen : u.nodes.length = s1.nodes.length := sameu.len
  have urf : ∀ k, (u.nodeAt k).rf = (s1.nodeAt k).rf := by
    intro k; rw [← hu, nodeAt_callAs]; exact (ret_facts s1 k).1
  have uq : ∀ k, (u.nodeAt k).queue = (s1.nodeAt k).queue := by
    intro k; rw [← hu, nodeAt_callAs]; exact (ret_facts s1 k).2.1
  have urad : ∀ k, u.radioAt k = s1.radioAt k := by
    intro k
    unfold NetState.radioAt
    rw [(sameu.stat k).2.2.2.2]
    rw [← hu]; rfl
  have urel : ∀ k, (u.nodeAt k).relayEnabled = (s1.nodeAt k).relayEnabled := by
    intro k
    rw [← hu, nodeAt_callAs, nodeAt_ret]
    split <;> rfl
  have uw : u.w.faults = s1.w.faults := by rw [← hu]; rfl
  have oku : NetOk cfg L tree u :=
    hok.of_same sameu (by rw [uw]; exact hok.faults) (fun i _ P _ hN => by rw [urf, urad]; exact hN)
  have hyl : y < u.nodes.length := by rw [ulen]; exact hy
  have hyact : y ∈ u.active := by rw [uact]; exact List.mem_singleton.mpr rfl
  have hmemE : ∀ k, k ≠ y → (k ∈ R.erase y ↔ k ∈ R) := fun k hk => List.mem_erase_of_ne hk
  have hyE : y ∉ R.erase y := fun h => (List.Nodup.mem_erase_iff hR).mp h |>.1 rfl
  have hifE : ∀ {α : Type} (k : Nat) (a b : α), k ≠ y →
      (if k ∈ R.erase y then a else b) = (if k ∈ R then a else b) := by
    intro α k a b hky
    by_cases hkR : k ∈ R
    · rw [if_pos hkR, if_pos ((hmemE k hky).mpr hkR)]
    · rw [if_neg hkR, if_neg (fun h => hkR ((hmemE k hky).mp h))]
  -- the other receivers wait; the caller is on the call stack
  have W : McWait cfg L tree fr pk (R.erase y) u := by
    refine ⟨oku, by rw [ucur]; exact hyl, by rw [ucur]; exact hyact, hR.erase y, ?_, ?_, ?_⟩
    · intro k hk hka
      rw [uact] at hka
      have hky : k ≠ y := fun e => hka (List.mem_singleton.mpr e)
      rw [urad, hfifo k (by rw [← ulen]; exact hk), hifE k _ _ hky]
    · intro k hk
      have hkR : k ∈ R := List.mem_of_mem_erase hk
      have hky : k ≠ y := fun e => hyE (e ▸ hk)
      refine ⟨by rw [ulen]; exact hRl k hkR, ?_⟩
      rw [uact]
      intro h
      exact hky (List.mem_singleton.mp h)
    · intro k hk
      rw [uq, urel]; exact hacc k (List.mem_of_mem_erase hk)
  -- fuel
  obtain ⟨g4, hg4⟩ : ∃ x : Nat, x = 199996 := ⟨_, rfl⟩
  have hF : F = ((g4 + 3) + 1) := by rw [hg4]; rfl
  have hElen : (R.erase y).length ≤ 400 := by
    have := List.length_erase_of_mem hyR
    omega
  have hfu : mcFuel u.nodes.length (R.erase y).length ≤ g4 + 1 := by
    unfold mcFuel
    rw [ulen, hg4]
    have h1 : (R.erase y).length * (s1.nodes.length + 10) ≤ 400 * 410 :=
      Nat.mul_le_mul hElen (by omega)
    omega
  -- (STATE 1) the other receivers run at the first scheduling point
  obtain ⟨t1, hro, D01⟩ := mc_runOthers hc cfg ham L tree fr pk t o T (R.erase y).length (R.erase y) rfl u (g4 + 1) W hfu
  obtain ⟨ok1, cur1, act1, same1, fifo1, stay1, queue1, attrs1⟩ := D01
  have t1len : t1.nodes.length = s1.nodes.length := by rw [same1.len, ulen]
  have t1cur : t1.cur = y := by rw [cur1, ucur]
  have hjl1 : t1.cur < t1.nodes.length := by rw [t1cur, t1len]; exact hy
  have hq1 : Quiet t1 := by
    intro i hi hic hia
    rw [t1len] at hi
    rw [act1] at hia
    exact fifo1 i (by rw [ulen]; exact hi) hia
  have hqro : nexec (runOthers (g4 + 1) 0) t1 = (.ok (), t1) :=
    runOthers_quiet0 t1 hq1 (g4 + 1) (by rw [t1len, hg4]; omega)
  obtain ⟨n1, n2, n3, n4, n5, n6⟩ := ok1.node y (by rw [t1len]; exact hy)
  obtain ⟨m1, m2, m3, m4, m5, m6⟩ := oku.node y hyl
  have t1node : t1.node = t1.nodeAt y := by rw [node_eq_nodeAt, t1cur]
  have unode : u.node = u.nodeAt y := by rw [node_eq_nodeAt, ucur]
  have hshift := netUpdate_shift (g4 + 1) 0 u t1 (by rw [unode]; exact m4) (by rw [t1node]; exact n4)
    oku.closed ok1.closed hro hqro
  -- the caller's own packet
  obtain ⟨P, hP, hN⟩ := ok1.radio y (by rw [t1len]; exact hy)
  obtain ⟨st1, st2⟩ := stay1 y hyl hyact
  have hdrvrad : t1.drv.radio = t1.radioAt y := by
    unfold DrvState.radio NetState.drv NetState.radioAt NetState.ridAt
    rw [t1node]
  have hfifo1 : t1.drv.radio.rxFifo = [{ pipe := 0, data := pk }] := by
    rw [hdrvrad, st1, urad, hfifo y hy, if_pos hyR]
  have hq1j : (t1.nodeAt y).queue.frames = (s1.nodeAt y).queue.frames := by
    rw [queue1 y hyl, if_neg hyE, List.append_nil, uq]
  have hmax1j : (t1.nodeAt y).queue.maxSize = (s1.nodeAt y).queue.maxSize := by
    rw [(attrs1 y).2, uq]
  have hrel1j : (t1.nodeAt y).relayEnabled = false := by
    rw [(attrs1 y).1, urel]; exact (hacc y hyR).2
  obtain ⟨hroom, hnew⟩ := (hacc y hyR).1
  -- (STATE 2) the caller's `_net_update()` from the quiet state
  obtain ⟨D1, D2, e, F1, F2, N2, x2⟩ := netUpdate_mc_deliver hc g4 t1 L P 0 pk fr t hjl1 ok1.closed
    (by rw [t1len, hg4]; omega) hq1
    (by
      show t1.node.rf.rid < t1.w.radios.length
      rw [t1node]; exact n6)
    (by rw [t1node, hdrvrad]; exact hN)
    (by rw [t1node]; exact n4) hfifo1 (by omega) T.ty T.pack T.len
    (by rw [T.wire]; exact T.dst)
    (by rw [t1node, n2]; exact val_ne_multicast n1)
    (by rw [T.wire, T.src]; exact isValid_val T.ho)
    (by rw [hm1]; exact T.usr)
    (by rw [t1node, n3]; exact ham)
    (by rw [t1node]; exact hrel1j)
    (by rw [t1node, hq1j, hmax1j]; exact hroom)
    (by rw [t1node, hq1j, T.wire]; exact hnew)
  rw [hm1, T.wire] at e
  generalize hs2 : ((((t1.afterRf D1).withFrame fr).enqueued fr).afterRf D2) = t2 at e
  -- facts about the state after the caller's `update()`
  have hc1 : (t1.afterRf D1).cur < (t1.afterRf D1).nodes.length := by simpa using hjl1
  have hc2 : ((t1.afterRf D1).withFrame fr).cur < ((t1.afterRf D1).withFrame fr).nodes.length := by simpa using hjl1
  have hc3 : (((t1.afterRf D1).withFrame fr).enqueued fr).cur < (((t1.afterRf D1).withFrame fr).enqueued fr).nodes.length := by
    simpa using hjl1
  have hnode2 : t2.node = (Node.pushFrame { t1.node with rf := D1.d, frameBuf := fr } fr).withRf D2.d := by
    rw [← hs2, afterRf_node _ _ hc3, enqueued_node _ _ hc2, withFrame_node _ _ hc1, afterRf_node _ _ hjl1]
    rfl
  have hat2 : ∀ k, k ≠ y → t2.nodeAt k = t1.nodeAt k := by
    intro k hk
    have hk' : k ≠ t1.cur := by rw [t1cur]; exact hk
    rw [← hs2, nodeAt_afterRf_ne _ _ _ (by simpa using hk'), nodeAt_enqueued_ne _ _ _ (by simpa using hk'),
      nodeAt_withFrame_ne _ _ _ (by simpa using hk'), nodeAt_afterRf_ne _ _ _ hk']
  have cur2 : t2.cur = y := by rw [← hs2]; exact t1cur
  have hw2 : t2.w = D2.w := by rw [← hs2]; rfl
  have F02 : DrvFrame t1.drv D2 := F1.trans F2
  have hnodej2 : t2.nodeAt y = t2.node := by rw [node_eq_nodeAt, cur2]
  have same12 : Same t1 t2 := by
    refine ⟨by rw [← hs2]; rfl, by rw [← hs2]; simp, ?_, by rw [hw2, F02.len]; rfl, ?_⟩
    · intro k
      by_cases hk : k = y
      · subst hk
        unfold NetState.ridAt
        rw [hnodej2, hnode2, ← t1node]
        refine ⟨rfl, rfl, rfl, rfl, ?_⟩
        show D2.d.rid = _
        rw [F02.rid]; rfl
      · unfold NetState.ridAt; rw [hat2 k hk]; exact ⟨rfl, rfl, rfl, rfl, rfl⟩
    · intro r hr
      rw [hw2, F02.others r (fun e => hr t1.cur hjl1 e.symm)]; rfl
  have hrad2_j : t2.radioAt y = D2.radio := by
    unfold NetState.radioAt
    rw [(same12.stat y).2.2.2.2, hw2]
    show D2.w.radio (t1.nodeAt y).rf.rid = _
    rw [← t1node]
    show D2.w.radio t1.drv.d.rid = _
    rw [← F02.rid]; rfl
  have hrad2_ne : ∀ k, k < s1.nodes.length → k ≠ y → t2.radioAt k = t1.radioAt k := by
    intro k hk hkj
    unfold NetState.radioAt
    rw [(same12.stat k).2.2.2.2, hw2, F02.others _ (by
      have := (ok1.inj k y (by rw [t1len]; exact hk) (by rw [t1len]; exact hy) hkj).2
      show t1.ridAt k ≠ t1.node.rf.rid
      rw [t1node]; exact this)]
    rfl
  have ok2 : NetOk cfg L tree t2 := by
    refine ok1.of_same same12 (by rw [hw2, F02.faults]; exact ok1.faults) ?_
    intro i hi P' hP' hN'
    by_cases hic : i = y
    · subst hic
      have : P' = P := Except.ok.inj (hP'.symm.trans hP)
      subst this
      rw [hnodej2, hnode2, hrad2_j]
      exact N2
    · rw [hat2 i hic, hrad2_ne i (by rw [← t1len]; exact hi) hic]; exact hN'
  have hkind2 : t2.node.kind ≠ .meshMaster := by
    rw [hnode2]
    show t1.node.kind ≠ _
    rw [t1node]; exact n5
  have hupd : nexec (nodeUpdate ((g4 + 3) + 1)) u = (.ok t, t2) := by
    refine nodeUpdate_plain (g4 + 3) u t2 t ?_ hkind2
    rw [show g4 + 3 = (g4 + 1) + 2 from rfl, hshift]
    exact e
  have hup : nexec apiUpdate u = (.ok t, t2) := by
    unfold apiUpdate
    rw [hF]
    exact hupd
  refine ⟨t2, hup, ok2, ?_, ?_⟩
  · intro k hk
    by_cases hkj : k = y
    · subst hkj
      rw [hnodej2, hnode2, if_pos hyR]
      show t1.node.queue.frames ++ [fr] = _
      rw [t1node, hq1j]
    · rw [hat2 k hkj, queue1 k (by rw [ulen]; exact hk), uq, hifE k _ _ hkj]
  · intro k hk
    by_cases hkj : k = y
    · subst hkj; rw [hrad2_j]; exact x2
    · rw [hrad2_ne k hk hkj]
      exact fifo1 k (by rw [ulen]; exact hk) (by
        rw [uact]
        intro h
        exact hkj (List.mem_singleton.mp h))

end Nrf.Net
