import NrfModel.Net.Addr
import NrfModel.Spec.Tree

namespace Nrf.Proofs
open Nrf.Net Nrf.Spec

theorem and7 (a : Nat) : a &&& 7 = a % 8 := by
  have := Nat.and_two_pow_sub_one_eq_mod a 3
  simpa using this

theorem shr3 (a : Nat) : a >>> 3 = a / 8 := by
  simp [Nat.shiftRight_eq_div_pow]

theorem val_cons (d : Nat) (ds : List Nat) : val (d :: ds) = d + 8 * val ds := rfl

theorem digitsOk_cons {d : Nat} {ds : List Nat} :
    DigitsOk (d :: ds) ↔ (1 ≤ d ∧ d ≤ 5) ∧ DigitsOk ds := by
  simp [DigitsOk]

/-- the loop of `is_address_valid`, for every start value and every counter -/
theorem isValidGo_iff (a k : Nat) :
    isValidGo a k = true ↔
      ∃ ds, DigitsOk ds ∧ val ds = a ∧ (ds = [] ∨ ds.length + k ≤ VALID_DIGIT_LIMIT + 1) := by
  constructor
  · intro h
    induction a using Nat.strongRecOn generalizing k with
    | _ a ih =>
      unfold isValidGo at h
      by_cases ha : a = 0
      · exact ⟨[], by simp [DigitsOk], by simp [val, ha], Or.inl rfl⟩
      · simp only [ha, ↓reduceIte] at h
        split at h
        · simp at h
        · rename_i hc
          rw [and7] at hc
          have hc1 : 0 < a % 8 ∧ a % 8 ≤ 5 ∧ k ≤ VALID_DIGIT_LIMIT := by
            simp at hc; omega
          obtain ⟨ds, hok, hv, hl⟩ := ih (a >>> 3) (by rw [shr3]; omega) (k + 1) h
          refine ⟨(a % 8) :: ds, ?_, ?_, ?_⟩
          · rw [digitsOk_cons]; exact ⟨by omega, hok⟩
          · rw [val_cons, hv, shr3]; omega
          · right
            rcases hl with rfl | hl
            · simp; omega
            · simp; omega
  · rintro ⟨ds, hok, hv, hl⟩
    induction ds generalizing a k with
    | nil => simp [val] at hv; subst hv; unfold isValidGo; simp
    | cons d ds ih =>
      rw [digitsOk_cons] at hok
      rw [val_cons] at hv
      have hd : 1 ≤ d ∧ d ≤ 5 := hok.1
      have hl' : (ds.length + 1) + k ≤ VALID_DIGIT_LIMIT + 1 := by
        rcases hl with h | h
        · simp at h
        · simpa using h
      unfold isValidGo
      have ha : a ≠ 0 := by omega
      simp only [ha, ↓reduceIte]
      have h7 : a &&& 7 = d := by rw [and7]; omega
      have h3 : a >>> 3 = val ds := by rw [shr3]; omega
      rw [h7, h3]
      have : ¬ (k > VALID_DIGIT_LIMIT) := by omega
      have hd1 : 0 < d := by omega
      simp only [hd1, hd.2, this, decide_true, Bool.and_self, Bool.not_true, decide_false,
        Bool.or_self, Bool.false_eq_true, ↓reduceIte]
      apply ih _ _ hok.2 rfl
      by_cases hds : ds = []
      · exact Or.inl hds
      · right; omega

end Nrf.Proofs
