/-
Concrete one-node states for the non-vacuity examples of C13 (open system: `closed = false`).
-/
import NrfProofs.C13Trace

namespace Nrf.Net.Example
open Nrf Nrf.Net

/-- a node at address 0 on a fresh radio, nothing received, no arrivals -/
def sNone : NetState := { nodes := [{}], active := [0], w := World.fresh 1, closed := false }

/-- a NETWORK_ACK frame from node `0o1` for node `0o0` -/
def ackFrame : Bytes := [1, 0, 0, 0, 0, 0, 193, 0]

/-- the same node with that frame waiting in its RX FIFO -/
def sAck : NetState :=
  { nodes := [{}], active := [0], closed := false,
    w := { radios := [{ rxFifo := [{ pipe := 1, data := ackFrame }] }], busyUntil := [0] } }

theorem isValid_0 : isValid 0 = true := by
  simp [isValid, isValidGo, NETWORK_MULTICAST_ADDR, NETWORK_MULTICAST_ADDR_LVL_2, NETWORK_MULTICAST_ADDR_LVL_4]

theorem isValid_1 : isValid 1 = true := by
  simp [isValid, isValidGo, NETWORK_MULTICAST_ADDR, NETWORK_MULTICAST_ADDR_LVL_2, NETWORK_MULTICAST_ADDR_LVL_4,
    VALID_DIGIT_LIMIT]

/-- nothing arrives: the wait loop gives up after its first `_net_update()`, past the deadline 0 -/
theorem run_none : ∃ s', nexec (ackWaitT 3 0) sNone = (.ok (false, [⟨0, [], 0, 10000⟩]), s') := by
  refine ⟨(nexec (ackWaitT 3 0) sNone).2, ?_⟩
  apply Prod.ext
  · simp only [ackWaitT, netUpdateT, rfRead.eq_2, nexec_bind, nexec_nowNs]
    rfl
  · rfl

/-- the acknowledgement is waiting: the loop reads it in its first `_net_update()` and says `True` -/
theorem run_ack : ∃ s', nexec (ackWaitT 3 1000000000) sAck = (.ok (true, [⟨0, [ackFrame], 193, 30000⟩]), s') := by
  refine ⟨(nexec (ackWaitT 3 1000000000) sAck).2, ?_⟩
  apply Prod.ext
  · simp only [ackWaitT, netUpdateT, rfRead.eq_2, handleThis.eq_2, nexec_bind, nexec_nowNs]
    have h1 : nexec deliverDue sAck = (.ok (), sAck) := rfl
    simp only [h1, nexec_get]
    have h2 : sAck.closed = false := rfl
    simp only [h2, Bool.false_eq_true, if_false]
    have h3 : nexec (liftRf (Rf24.read none)) sAck
        = (.ok (some ackFrame), (nexec (liftRf (Rf24.read none)) sAck).2) := Prod.ext rfl rfl
    rw [h3]
    simp only [nexec_bind, nexec_getNode, nexec_modNode]
    generalize hX : (nexec (liftRf (Rf24.read none)) sAck).2 = X
    have hu : X.node.frameBuf.unpack ackFrame = (⟨⟨1, 0, 0, .int 193, 0⟩, []⟩, true) := by rw [← hX]; rfl
    simp only [hu, isValid_0, isValid_1, Bool.not_true, Bool.or_self, Bool.false_eq_true, if_false, nexec_ite]
    have ha : X.node.a.addr = 0 := by rw [← hX]; rfl
    simp only [ha, if_true, nexec_bind, nexec_getNode, Header.ty]
    have c1 : (193 = NETWORK_PING) = False := eq_false (by decide)
    have c2 : (193 = MESH_ADDR_RESPONSE) = False := eq_false (by decide)
    have c3 : (193 = MESH_ADDR_REQUEST) = False := eq_false (by decide)
    have c4 : (193 = NETWORK_ACK) = True := eq_true (by decide)
    have c5 : (193 ≠ MSG_FRAG_FIRST ∧ 193 ≠ MSG_FRAG_MORE ∧ 193 ≠ MSG_FRAG_LAST ∧ 193 ≠ NETWORK_EXT_DATA) = True :=
      eq_true (by decide)
    simp only [c1, c2, c3, c4, c5, false_and, if_false, or_true, if_true, nexec_pure, Bool.not_false]
    rw [← hX]
    rfl
  · rfl

end Nrf.Net.Example
