/-
Tie between the GENERATED translation of `fake_ble.py: whitener` (`NrfGen/FakeBle.lean`) and the model
function `Nrf.Ble.whitener`.  The Python iterates over the bytearray it stores into
(`for i, byte in enumerate(data): … data[i] = …`); the translation keeps that (index loop reading
`data[i]` from the current contents, explicit `IndexError` / `ValueError` outcomes of the accesses), so
the tie needs the typing fact of a `bytes` argument: every item is `< 256`.
-/
import NrfModel.Ble.Bits
import NrfGen.FakeBle
import NrfProofs.GenTieBle

namespace Nrf.Proofs.GenTie
open Nrf Nrf.Ble

theorem whitener_for2_eq : Gen.whitener_for2 = whitenStep := by
  funext s
  obtain ⟨c, b, m⟩ := s
  unfold Gen.whitener_for2 whitenStep
  by_cases h : c &&& 1 = 0 <;> simp [h]

/-- the inner loop keeps the byte below 256: it only xors the masks `2^j, …, 2^(j+n-1)`, `j + n ≤ 8` -/
theorem iter_whitenStep_byte_lt (n j c b : Nat) (hb : b < 256) (hj : j + n ≤ 8) :
    (Ble.iter whitenStep n (c, b, 2 ^ j)).2.1 < 256 := by
  induction n generalizing j c b with
  | zero => exact hb
  | succ n ih =>
    have hm : (2 : Nat) ^ j < 2 ^ 8 := Nat.pow_lt_pow_right (by decide) (by omega)
    have hx : b ^^^ 2 ^ j < 256 := Nat.xor_lt_two_pow (n := 8) hb hm
    have hs : (2 : Nat) ^ j <<< 1 = 2 ^ (j + 1) := by
      simp [Nat.shiftLeft_eq, Nat.pow_succ]
    simp only [Ble.iter, whitenStep]
    split <;> rename_i hc
    · simp only [hs]; exact ih (j + 1) _ _ hx (by omega)
    · simp only [hs]; exact ih (j + 1) _ _ hb (by omega)

theorem whitenByte_fst_lt (b c : Nat) (hb : b < 256) : (whitenByte b c).1 < 256 := by
  have := iter_whitenStep_byte_lt 8 0 c b hb (by decide)
  simpa [whitenByte] using this

/-- one pass of the generated outer loop on `pre ++ x :: xs` at index `pre.length` -/
theorem whitener_for1_step (c : Nat) (pre xs : List Nat) (x : Nat) (hx : x < 256) :
    Gen.whitener_for1 (c, pre ++ x :: xs) pre.length
      = .ok ((whitenByte x c).2, (pre ++ [(whitenByte x c).1]) ++ xs) := by
  have hlt := whitenByte_fst_lt x c hx
  have hlt' : (Ble.iter whitenStep 8 (c, x, 1)).2.1 < 256 := by simpa [whitenByte] using hlt
  simp [Gen.whitener_for1, Gen.getItem, Gen.setItem, whitener_for2_eq, gen_iter_eq, whitenByte, hlt',
    bind, Except.bind, pure, Except.pure]

/-- `for i in range(n + 1)` = first pass, then the remaining `n` passes with the index shifted -/
theorem forRangeM_succ_front {σ} (f : Nat → σ → Gen.M σ) (n : Nat) (s : σ) :
    Gen.forRangeM f (n + 1) s = f 0 s >>= Gen.forRangeM (fun i => f (i + 1)) n := by
  induction n with
  | zero => simp [Gen.forRangeM]
  | succ n ih =>
    rw [Gen.forRangeM, ih]
    simp only [bind_assoc]
    rfl

theorem whitener_loop (l : List Nat) (hl : ∀ x ∈ l, x < 256) (pre : List Nat) (c k : Nat)
    (hk : k = pre.length) :
    ∃ c', Gen.forRangeM (fun i st => Gen.whitener_for1 st (k + i)) l.length (c, pre ++ l)
      = .ok (c', pre ++ whitener l c) := by
  induction l generalizing pre c k with
  | nil => exact ⟨c, rfl⟩
  | cons x xs ih =>
    have hx : x < 256 := hl x (List.mem_cons_self ..)
    have hxs : ∀ y ∈ xs, y < 256 := fun y hy => hl y (List.mem_cons_of_mem _ hy)
    obtain ⟨c', hc'⟩ := ih hxs (pre ++ [(whitenByte x c).1]) (whitenByte x c).2 (k + 1)
      (by simp [hk])
    refine ⟨c', ?_⟩
    have hf : (fun i st => Gen.whitener_for1 st (k + (i + 1)))
        = (fun i st => Gen.whitener_for1 st (k + 1 + i)) := by
      funext i st; congr 1; omega
    rw [List.length_cons, forRangeM_succ_front]
    simp only [Nat.add_zero, hk, whitener_for1_step c pre xs x hx, bind, Except.bind]
    rw [← hk, hf, hc']
    simp [whitener]

/-- **GenTie, `whitener`**: for every `bytes` argument (all items `< 256` — the typing fact; without it
    the Python would raise on the item store, which the model does not show) and every non-negative
    coefficient the translation returns normally (no `IndexError` / `ValueError`) with the model's bytes -/
theorem GenTie_whitener (buf : Bytes) (coef : Nat) (hb : buf.wf) :
    Gen.whitener buf coef = .ok (whitener buf coef) := by
  obtain ⟨c', hc'⟩ := whitener_loop buf hb [] coef 0 rfl
  have hf : (fun idx_ st_ => Gen.whitener_for1 st_ idx_)
      = (fun i st => Gen.whitener_for1 st (0 + i)) := by
    funext i st; rw [Nat.zero_add]
  simp only [List.nil_append] at hc'
  simp only [Gen.whitener, hf, hc', bind, Except.bind]
  rfl

/-- the hypothesis of `GenTie_whitener` is satisfiable and the conclusion non-trivial: a three-byte buffer
    whitened with the coefficient of BLE channel 37 -/
example : Bytes.wf [0x42, 0x00, 0xFF] ∧ Gen.whitener [0x42, 0x00, 0xFF] 0x65 = .ok (whitener [0x42, 0x00, 0xFF] 0x65)
    ∧ whitener [0x42, 0x00, 0xFF] 0x65 ≠ [0x42, 0x00, 0xFF] := by
  refine ⟨by decide, GenTie_whitener _ _ (by decide), by decide⟩

/-- without the typing fact the translation shows the `ValueError` of the item store -/
example : Gen.whitener [256] 0 = .error .valueError := rfl

end Nrf.Proofs.GenTie
