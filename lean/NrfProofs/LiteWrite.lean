/-
`write()` of the lite driver with CE low (as `send()` calls it): what exactly ends up in the TX FIFO.
-/
import NrfProofs.LiteRadio

namespace Nrf
open Lite
open Rf24 (b2n staticPayload)

/-- the implementation's padding / truncation is the spec's -/
theorem lite_staticPayload_eq (buf : Bytes) (pl : Nat) : staticPayload buf pl = Spec.Lite.expectedPayload false pl buf := by
  unfold staticPayload Spec.Lite.expectedPayload zeros
  simp only [Bool.false_eq_true, ↓reduceIte]
  by_cases h1 : buf.length < pl
  · simp only [h1, ↓reduceIte]
    rw [List.take_append]
    rw [List.take_of_length_le (by omega)]
    simp [List.take_replicate]
  · simp only [h1, ↓reduceIte]
    by_cases h2 : buf.length > pl
    · simp only [h2, ↓reduceIte]
      rw [List.take_append_of_le_length (by omega)]
    · simp only [h2, ↓reduceIte]
      have : buf.length = pl := by omega
      rw [List.take_append_of_le_length (by omega), List.take_of_length_le (by omega)]

theorem lite_staticPayload_length (buf : Bytes) (pl : Nat) : (staticPayload buf pl).length = pl := by
  unfold staticPayload zeros
  split
  · simp; omega
  · split
    · simp; omega
    · omega

namespace Radio

/-- the command byte `write()` uses -/
theorem txCmd_l (noack : Bool) :
    decodeCmd (0x20 ||| (0xA0 ||| (b2n noack <<< 4))) = (if noack then .wTxPayloadNoAck else .wTxPayload) ∧
    0x20 ||| (0xA0 ||| (b2n noack <<< 4)) ≠ 0x20 := by
  cases noack <;> decide

theorem xfer_tx_l (r : Radio) (noack : Bool) (b : Bytes) :
    (r.xfer ((0x20 ||| (0xA0 ||| (b2n noack <<< 4))) :: b)).1 =
      r.writePayload (if noack then .payloadNoAck else .payload) b := by
  unfold xfer
  dsimp only
  rw [(txCmd_l noack).1]
  cases noack <;> rfl

/-- STATUS bit 4 is MAX_RT (for a sane RX_P_NO field) -/
theorem status_and_16_l (r : Radio) (h : r.rxPNo ≤ 7) : r.status &&& 0x10 = r.flags &&& 0x10 := by
  unfold status
  have key : ∀ g, g < 128 → ∀ p, p ≤ 7 → ∀ t : Bool,
      (g ||| (p <<< 1) ||| (if t then 1 else 0)) &&& 0x10 = g &&& 0x10 := by decide +kernel
  rw [key _ (lite_and_lt_of_mask _ _ _ (by decide)) _ h, Nat.and_assoc]
  rfl

/-- clearing all three flags -/
theorem writeReg_clear_l (r : Radio) : r.writeReg 7 [112] = { r with flags := 0 } := by
  simp [writeReg]

theorem rxPNo_congr_l {r r' : Radio} (h : r'.rxFifo = r.rxFifo) : r'.rxPNo = r.rxPNo := by
  unfold rxPNo; rw [h]

end Radio

/-- what `write(buf, ask_no_ack, write_only=True)` does with CE low.  `dyn` / `pl` are what the radio's
    FEATURE.EN_DPL and RX_PW_P0 say (the lite driver reads them, it keeps no copy). -/
theorem lite_write_spec (s : LiteState) (hw : s.Wf) (hce : s.radio.ce = false)
    (buf : Bytes) (m noack : Bool) {res : Except PyErr (Bool × Bytes)} {s' : LiteState}
    (hrun : lexec (write buf m noack true) s = (res, s')) :
    let r := s.radio
    let dyn := decide ((r.readReg 0x1D).headD 0 &&& 4 = 4)
    let pl := (r.readReg 0x11).headD 0
    let payload := Spec.Lite.expectedPayload dyn pl buf
    s'.Wf ∧ s'.radio.ce = false ∧ s'.radio.rxFifo = r.rxFifo ∧
    (if dyn = true ∧ Spec.Lite.dynLenOk buf.length = false then
      res = .error .valueError ∧ s'.radio = r
     else if r.txFull = true then
      res = .ok (false, buf) ∧ s'.radio = { r with flags := 0 }
     else
      (∃ x, res = .ok (x, buf) ∧ (r.rxPNo ≤ 7 → x = true)) ∧
      s'.radio = { r with
        flags := 0,
        config := (if r.config &&& 3 ≠ 2 then (r.config &&& 0x7C) ||| 2 else r.config),
        txFifo := (if payload.isEmpty then r.txFifo
          else r.txFifo ++ [{ kind := if noack then .payloadNoAck else .payload, data := payload.take 32 }]) }) := by
  intro r dyn pl payload
  have hq : r.txMode = false := Radio.txMode_of_ce_low_l hce
  have v0 := LiteState.View.mk' s hw
  obtain ⟨v1, e1⟩ := v0.read 0x1D (by decide) hq
  have hfl : ((b2n true <<< 6 ||| b2n true <<< 5 ||| b2n true <<< 4 : Nat) : Int) = ((112 : Nat) : Int) := by decide
  -- everything after the payload has been chosen
  have tail : ∀ (s2 : LiteState) (d2 : Lite) (b : Bytes), LiteState.View s2 d2 r →
      ∀ {res : Except PyErr (Bool × Bytes)} {s' : LiteState},
      lexec (writeTail buf b noack true) s2 = (res, s') →
      s'.Wf ∧ s'.radio.ce = false ∧ s'.radio.rxFifo = r.rxFifo ∧
      (if r.txFull = true then res = .ok (false, buf) ∧ s'.radio = { r with flags := 0 }
       else (∃ x, res = .ok (x, buf) ∧ (r.rxPNo ≤ 7 → x = true)) ∧
        s'.radio = { r with
          flags := 0,
          config := (if r.config &&& 3 ≠ 2 then (r.config &&& 0x7C) ||| 2 else r.config),
          txFifo := (if b.isEmpty then r.txFifo
            else r.txFifo ++ [{ kind := if noack then .payloadNoAck else .payload, data := b.take 32 }]) }) := by
    intro s2 d2 b v2 res s' hr
    unfold writeTail writeFinish clearStatusFlags at hr
    rw [hfl] at hr
    simp only [lexec_bind, lexec_regWriteNat 7 112 _ (by decide) (by decide), lexec_getD, lexec_ite, lexec_pure,
      lexec_regRead, Bool.not_true, Bool.false_eq_true, ↓reduceIte, lexec_regWriteBytes] at hr
    have v3 := v2.write 7 112 (by decide) (by decide) hq
    rw [Radio.writeReg_clear_l] at v3
    have hce3 : ({ r with flags := 0 } : Radio).ce = false := hce
    have hq3 : ({ r with flags := 0 } : Radio).txMode = false := Radio.txMode_of_ce_low_l hce3
    rw [v3.d] at hr
    simp only [Radio.status_and_one_l] at hr
    by_cases hfull : r.txFull = true
    · rw [if_pos hfull]
      have h10 : (if r.txFull = true then 1 else 0 : Nat) ≠ 0 := by simp [hfull]
      rw [if_pos h10] at hr
      obtain ⟨rfl, rfl⟩ := Prod.mk.inj hr
      exact ⟨v3.wf, by rw [v3.r]; exact hce, by rw [v3.r], rfl, v3.r⟩
    · rw [if_neg hfull]
      have hfull' : r.txFull = false := by simpa using hfull
      have h10 : ¬ ((if r.txFull = true then 1 else 0 : Nat) ≠ 0) := by simp [hfull']
      rw [if_neg h10] at hr
      obtain ⟨v4, e4⟩ := v3.read 0 (by decide) hq3
      have ecfg : (s2.spiStep [0x20 ||| 7, 112]).readVal 0 = r.config := e4
      rw [ecfg] at hr
      -- the final payload write, from a state whose radio is `r` with the flags cleared and CONFIG = `c5`
      have fin : ∀ (s5 : LiteState) (d5 : Lite) (c5 : Nat),
          LiteState.View s5 d5 { r with flags := 0, config := c5 } →
          ∀ {res : Except PyErr (Bool × Bytes)} {s' : LiteState},
          (Except.ok (decide ((s5.spiStep ((0x20 ||| (0xA0 ||| (b2n noack <<< 4))) :: b)).d.status &&& 0x10 = 0), buf),
            s5.spiStep ((0x20 ||| (0xA0 ||| (b2n noack <<< 4))) :: b)) = (res, s') →
          s'.Wf ∧ s'.radio.ce = false ∧ s'.radio.rxFifo = r.rxFifo ∧
          (∃ x, res = .ok (x, buf) ∧ (r.rxPNo ≤ 7 → x = true)) ∧
          s'.radio = { r with flags := 0, config := c5, txFifo := (if b.isEmpty then r.txFifo
            else r.txFifo ++ [{ kind := if noack then .payloadNoAck else .payload, data := b.take 32 }]) } := by
        intro s5 d5 c5 v5 res s' hr
        have c5' : ({ r with flags := 0, config := c5 } : Radio).ce = false := hce
        have v6 := v5.cmd _ b (Radio.txCmd_l noack).2 (Radio.txMode_of_ce_low_l c5')
        rw [Radio.xfer_tx_l] at v6
        obtain ⟨rfl, rfl⟩ := Prod.mk.inj hr
        have hst : r.rxPNo ≤ 7 → (s5.spiStep ((0x20 ||| (0xA0 ||| (b2n noack <<< 4))) :: b)).d.status &&& 0x10 = 0 := by
          intro hpno
          rw [v6.d]
          show ({ r with flags := 0, config := c5 } : Radio).status &&& 0x10 = 0
          rw [Radio.status_and_16_l _ (show ({ r with flags := 0, config := c5 } : Radio).rxPNo ≤ 7 from hpno)]
          exact Nat.zero_and _
        have hnf : ({ r with flags := 0, config := c5 } : Radio).txFull = false := by
          exact hfull'
        have hwp : ({ r with flags := 0, config := c5 } : Radio).writePayload (if noack then .payloadNoAck else .payload) b =
            { r with flags := 0, config := c5, txFifo := (if b.isEmpty then r.txFifo
              else r.txFifo ++ [{ kind := if noack then .payloadNoAck else .payload, data := b.take 32 }]) } := by
          unfold Radio.writePayload
          by_cases hb : b.isEmpty = true
          · simp [hb]
          · simp [hb, hnf]
        rw [hwp] at v6
        refine ⟨v6.wf, ?_, ?_, ?_, v6.r⟩
        · rw [v6.r]; exact hce
        · rw [v6.r]
        · exact ⟨_, rfl, fun hp => by simp [hst hp]⟩
      by_cases hcfg : r.config &&& 3 ≠ 2
      · rw [if_pos hcfg] at hr ⊢
        have hv : (r.config &&& 0x7C) ||| 2 < 128 :=
          Nat.or_lt_two_pow (n := 7) (lite_and_lt_of_mask _ _ _ (by decide)) (by decide)
        rw [lexec_regWriteNat _ _ _ (by omega) (by decide)] at hr
        simp only [lexec_sleepNs] at hr
        have v5 := (v4.writeConfig ((r.config &&& 0x7C) ||| 2) hce3).sleep 150000
        rw [Radio.writeReg_config_l _ _ hv (Or.inl hce3)] at v5
        obtain ⟨a1, a2, a3, a4, a5⟩ := fin _ _ _ v5 hr
        exact ⟨a1, a2, a3, a4, a5⟩
      · rw [if_neg hcfg] at hr ⊢
        obtain ⟨a1, a2, a3, a4, a5⟩ := fin _ _ r.config v4 hr
        exact ⟨a1, a2, a3, a4, a5⟩
  unfold write writePayloadOf at hrun
  have eg : lexec getDynamicPayloads s = (.ok dyn, s.spiStep [0x1D, 0]) := by
    unfold getDynamicPayloads
    simp only [lexec_bind, lexec_regRead, lexec_pure, e1]
    rfl
  rw [lexec_bind, lexec_bind, eg] at hrun
  dsimp only at hrun
  by_cases hdyn : dyn = true
  · simp only [hdyn, ↓reduceIte, lexec_ite] at hrun
    by_cases hbad : buf.isEmpty = true ∨ buf.length > 32
    · have hlen : Spec.Lite.dynLenOk buf.length = false := by
        unfold Spec.Lite.dynLenOk
        rcases hbad with h | h
        · have : buf.length = 0 := by rw [List.isEmpty_iff] at h; rw [h]; rfl
          simp [this]
        · simp; omega
      simp only [hbad, ↓reduceIte, lexec_raise] at hrun
      obtain ⟨rfl, rfl⟩ := Prod.mk.inj hrun
      refine ⟨v1.wf, by rw [v1.r]; exact hce, by rw [v1.r], ?_⟩
      rw [if_pos ⟨hdyn, hlen⟩]
      exact ⟨rfl, v1.r⟩
    · have hlen : Spec.Lite.dynLenOk buf.length = true := by
        unfold Spec.Lite.dynLenOk
        have h1 : buf.length ≠ 0 := by
          intro h0; apply hbad; left; rw [List.isEmpty_iff]; exact List.eq_nil_of_length_eq_zero h0
        simp; omega
      simp only [hbad, ↓reduceIte, lexec_pure] at hrun
      obtain ⟨a1, a2, a3, a4⟩ := tail _ _ buf v1 hrun
      refine ⟨a1, a2, a3, ?_⟩
      rw [if_neg (by simp [hlen])]
      have : payload = buf := by show Spec.Lite.expectedPayload dyn pl buf = buf; rw [hdyn]; rfl
      rw [this]
      exact a4
  · have hd : dyn = false := by simpa using hdyn
    simp only [hd, Bool.false_eq_true, ↓reduceIte, getPayloadLength, lexec_bind, lexec_regRead, lexec_pure] at hrun
    obtain ⟨v2, e2⟩ := v1.read 0x11 (by decide) hq
    rw [e2] at hrun
    obtain ⟨a1, a2, a3, a4⟩ := tail _ _ _ v2 hrun
    refine ⟨a1, a2, a3, ?_⟩
    rw [if_neg (by simp [hdyn])]
    have : payload = staticPayload buf pl := by
      show Spec.Lite.expectedPayload dyn pl buf = _
      rw [lite_staticPayload_eq, hd]
    rw [this]
    exact a4

end Nrf
