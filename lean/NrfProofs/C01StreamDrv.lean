/-
C01 helper lemmas, part 5 (streaming), driver level: `write(buf, write_only=True)` with CE low
queues one more payload (up to three); then `ce = True` and one `update()`.
-/
import NrfProofs.C01Stream

namespace Nrf
open Rf24 Spec.Link

/-- `write(buf, ask_no_ack, write_only=True)` after its argument check -/
def writeTailQ (buf b : Bytes) (askNoAck : Bool) : DrvM (Bool × Bytes) := do
  clearStatusFlags
  if (← getD).status &&& 1 ≠ 0 then return (false, buf)
  regWriteBytes (0xA0 ||| (b2n askNoAck <<< 4)) b
  return (true, buf)

theorem writeQ_eq (buf : Bytes) (m askNoAck : Bool) :
    write buf m askNoAck true = (do
      let d ← getD
      if d.dynPl &&& 1 ≠ 0 ∧ (buf.isEmpty ∨ buf.length > 32) then raise .valueError
      else writeTailQ buf (writeBytes d buf) askNoAck) := by
  unfold write writeTailQ writeBytes
  simp only [Bool.not_true, Bool.false_eq_true, ↓reduceIte]
  rfl

theorem writeBytes_ne' (d : Rf24) (buf : Bytes) (hlenOk : d.dynPl &&& 1 ≠ 0 → buf ≠ [] ∧ buf.length ≤ 32)
    (hpadOk : d.dynPl &&& 1 = 0 → 1 ≤ d.plLen.getD 0 0) : writeBytes d buf ≠ [] := by
  unfold writeBytes
  split
  · rename_i hd
    have := hpadOk hd
    unfold staticPayload
    intro hc
    have hl := congrArg List.length hc
    split at hl
    · simp only [List.length_append, zeros, List.length_replicate, List.length_nil] at hl; omega
    · split at hl
      · simp only [List.length_take, List.length_nil] at hl; omega
      · simp only [List.length_nil] at hl; omega
  · rename_i hd
    exact (hlenOk hd).1

/-- W_TX_PAYLOAD / W_TX_PAYLOAD_NOACK of a non-empty payload into a TX FIFO that is not full -/
theorem xfer_write_append (r : Radio) (askNoAck : Bool) (b : Bytes) (hb : b ≠ []) (hf : r.txFifo.length < 3) :
    (r.xfer ((0xA0 ||| (b2n askNoAck <<< 4)) :: b)).1 = { r with txFifo := r.txFifo ++ [txEntryOf askNoAck b] } := by
  have hne : b.isEmpty = false := by cases b with | nil => exact absurd rfl hb | cons a t => rfl
  have hfull : r.txFull = false := by unfold Radio.txFull; simp; omega
  cases askNoAck with
  | false =>
    have hc : (0xA0 ||| (b2n false <<< 4)) = 0xA0 := rfl
    rw [hc, Radio.xfer_wTx]
    unfold Radio.writePayload
    simp only [hfull, hne, Bool.false_eq_true, or_self, ↓reduceIte]
    rfl
  | true =>
    have hc : (0xA0 ||| (b2n true <<< 4)) = 0xB0 := rfl
    rw [hc, Radio.xfer_wTxNoAck]
    unfold Radio.writePayload
    simp only [hfull, hne, Bool.false_eq_true, or_self, ↓reduceIte]
    rfl

/-- **`write(buf, write_only=True)` with CE low and fewer than three payloads queued**: returns
    `True` with the caller's buffer; all flags cleared; the payload appended to the TX FIFO; two
    transactions; nothing else in the world changes -/
theorem write_queue (k : Packet) (s : DrvState) (buf : Bytes) (m askNoAck : Bool)
    (hw : s.Wf) (hpi : s.rad.RxPipes) (hce : s.rad.ce = false) (hlen : s.rad.txFifo.length < 3)
    (hlenOk : s.d.dynPl &&& 1 ≠ 0 → buf ≠ [] ∧ buf.length ≤ 32) (hpadOk : s.d.dynPl &&& 1 = 0 → 1 ≤ s.d.plLen.getD 0 0) :
    (exec (write buf m askNoAck true) s).1 = .ok (true, buf) ∧
    Rel k s (exec (write buf m askNoAck true) s).2 2 ∧
    (exec (write buf m askNoAck true) s).2.rad =
      { s.rad with flags := 0, txFifo := s.rad.txFifo ++ [s.sendEntry askNoAck buf] } := by
  have hbne := writeBytes_ne' s.d buf hlenOk hpadOk
  rw [writeQ_eq]
  have hnr : ¬ (s.d.dynPl &&& 1 ≠ 0 ∧ (buf.isEmpty = true ∨ buf.length > 32)) := by
    rintro ⟨h1, h2⟩
    obtain ⟨h3, h4⟩ := hlenOk h1
    rcases h2 with h2 | h2
    · cases buf with
      | nil => exact h3 rfl
      | cons a t => cases h2
    · omega
  unfold writeTailQ
  simp only [exec_bind, exec_getD, hnr, ↓reduceIte, exec_clearStatusFlags]
  have hx4 : (s.rad.xfer [0x27, clearMask true true true]).1 = { s.rad with flags := 0 } := by
    rw [show (0x27 : Nat) = 0x20 ||| 7 from rfl, Radio.xfer_wreg _ 7 _ (by decide), Radio.writeReg_status]
    have : s.rad.flags &&& (0x70 ^^^ (clearMask true true true &&& 0x70)) = 0 := by
      have : (0x70 ^^^ (clearMask true true true &&& 0x70)) = 0 := by decide
      rw [this, Nat.and_zero]
    rw [this]
  obtain ⟨hrel4, hr4, hst4⟩ := step_spi k s 0x27 [clearMask true true true] hw
    (by rw [hx4]; exact Radio.idle_of_ce _ hce)
  rw [hx4] at hr4
  generalize s.spiStep [0x27, clearMask true true true] = s4 at *
  have htf : ¬ (s4.d.status &&& 1 ≠ 0) := by
    rw [hst4]
    intro hc
    have := (Radio.status_decodeP s.rad hpi).2.1.1 hc
    unfold Radio.txFull at this
    simp at this
    omega
  simp only [htf, ↓reduceIte, exec_bind, exec_regWriteBytes, exec_pure]
  have htx4 : s4.rad.txFifo.length < 3 := by rw [hr4]; exact hlen
  have hwx := xfer_write_append s4.rad askNoAck (writeBytes s.d buf) hbne htx4
  have hcmd : (0x20 ||| (0xA0 ||| (b2n askNoAck <<< 4))) = (0xA0 ||| (b2n askNoAck <<< 4)) := by
    cases askNoAck <;> rfl
  rw [hcmd]
  have hce4 : s4.rad.ce = false := by rw [hr4]; exact hce
  obtain ⟨hrel5, hr5, _⟩ := step_spi k s4 (0xA0 ||| (b2n askNoAck <<< 4)) (writeBytes s.d buf) hrel4.wf
    (by rw [hwx]; exact Radio.idle_of_ce _ hce4)
  rw [hwx] at hr5
  refine ⟨trivial, by simpa using hrel4.trans hrel5, ?_⟩
  rw [hr5, hr4]
  rfl

/-- **`k` calls of `write(bufᵢ, write_only=True)` with CE low** queue `k` payloads behind what is
    queued (at most three in all), by induction on the list of calls -/
theorem writes_queue (k : Packet) :
    ∀ (ws : List (Bool × Bool × Bytes)) (s : DrvState), s.Wf → s.rad.RxPipes → s.rad.ce = false →
      s.rad.txFifo.length + ws.length ≤ 3 →
      (∀ x ∈ ws, s.d.dynPl &&& 1 ≠ 0 → x.2.2 ≠ [] ∧ x.2.2.length ≤ 32) → (s.d.dynPl &&& 1 = 0 → 1 ≤ s.d.plLen.getD 0 0) →
      ∃ s' fl, exec (ws.mapM fun x => write x.2.2 x.1 x.2.1 true) s = (.ok (ws.map fun x => (true, x.2.2)), s') ∧
        Rel k s s' (2 * ws.length) ∧
        s'.rad = { s.rad with flags := fl, txFifo := s.rad.txFifo ++ ws.map fun x => s.sendEntry x.2.1 x.2.2 } ∧
        (ws ≠ [] → fl = 0) ∧ (ws = [] → fl = s.rad.flags) := by
  intro ws
  induction ws with
  | nil =>
    intro s hw _ _ _ _ _
    refine ⟨s, s.rad.flags, rfl, Rel.refl k s hw, ?_, fun hc => absurd rfl hc, fun _ => rfl⟩
    rw [List.map_nil, List.append_nil]
  | cons x rest ih =>
    intro s hw hpi hce hlen hbufs hpad
    simp only [List.length_cons] at hlen
    obtain ⟨q1, q2, q3⟩ := write_queue k s x.2.2 x.1 x.2.1 hw hpi hce (by omega) (hbufs x List.mem_cons_self) hpad
    generalize hs1 : (exec (write x.2.2 x.1 x.2.1 true) s).2 = s1 at q2 q3
    have hd1 : s1.d = { s.d with status := s1.d.status } := q2.d
    have hdyn : s1.d.dynPl = s.d.dynPl := by rw [hd1]
    have hpl : s1.d.plLen = s.d.plLen := by rw [hd1]
    obtain ⟨s', fl, i1, i2, i3, i4, i5⟩ := ih s1 q2.wf (by rw [q3]; exact rxPipes_congr _ _ rfl hpi) (by rw [q3]; exact hce)
      (by rw [q3]; simp only [List.length_append, List.length_cons, List.length_nil]; omega)
      (fun y hy => by rw [hdyn]; exact hbufs y (List.mem_cons_of_mem _ hy)) (by rw [hdyn, hpl]; exact hpad)
    have hse : ∀ a b, s1.sendEntry a b = s.sendEntry a b := by
      intro a b
      show txEntryOf a (writeBytes s1.d b) = txEntryOf a (writeBytes s.d b)
      unfold writeBytes; rw [hdyn, hpl]
    have hfl : fl = 0 := by
      cases rest with
      | nil => rw [i5 rfl, q3]
      | cons y ys => exact i4 (by intro hc; cases hc)
    refine ⟨s', 0, ?_, ?_, ?_, fun _ => rfl, fun hc => by cases hc⟩
    · have e1 : (exec (rest.mapM fun x => write x.2.2 x.1 x.2.1 true) (exec (write x.2.2 x.1 x.2.1 true) s).2).1 =
          .ok (rest.map fun x => (true, x.2.2)) := by rw [hs1, i1]
      rw [List.mapM_cons, exec_bind_ok q1, exec_bind_ok e1, exec_pure, hs1, i1]
      rfl
    · have := q2.trans i2
      simp only [List.length_cons]
      exact this.mono (by omega)
    · rw [i3, q3, hfl]
      simp only [List.map_cons, List.append_assoc, List.singleton_append]
      congr 3
      apply List.map_congr_left
      intro y _
      exact hse _ _

/-- the streaming program of the caller: `k` × `write(bufᵢ, ask_no_ackᵢ, write_only=True)`, then
    `ce = True`, then one `update()` -/
def streamProg (ws : List (Bool × Bool × Bytes)) : DrvM (List (Bool × Bytes)) := do
  let rs ← ws.mapM fun x => write x.2.2 x.1 x.2.1 true
  setCE true
  let _ ← update
  return rs

/-- the link after the transmitter object ran the streaming program -/
def Link.stream (L : Link) (ws : List (Bool × Bool × Bytes)) : Link :=
  { L with d1 := (exec (streamProg ws) L.tx).2.d, w := (exec (streamProg ws) L.tx).2.w }

/-- **streaming over a working link** (statement: `C01_stream`) -/
theorem link_stream (R : Radio) (j p : Nat) (dyn : Bool) (L : Link) (pend : List Bytes)
    (h : LinkInv R j p dyn L pend) (ws : List (Bool × Bool × Bytes)) (hne : ws ≠ [])
    (hce : L.tx.rad.ce = false) (htx : L.tx.rad.txFifo = [])
    (hlen : pend.length + ws.length ≤ 3) (hbufs : ∀ x ∈ ws, dyn = true → x.2.2 ≠ [] ∧ x.2.2.length ≤ 32)
    (hack : AcksWork R (L.w.radio j) p) :
    (exec (streamProg ws) L.tx).1 = .ok (ws.map fun x => (true, x.2.2)) ∧
    (exec (streamProg ws) L.tx).2.rad.txFifo = [] ∧
    (exec (streamProg ws) L.tx).2.d.status &&& 0x20 ≠ 0 ∧ (exec (streamProg ws) L.tx).2.d.status &&& 0x10 = 0 ∧
    LinkInv R j p dyn (L.stream ws) (pend ++ ws.map fun x => expectedPayload dyn (L.d1.plLen.getD 0 0) x.2.2) := by
  have hc := h.compat
  have hmd : (decide (L.d1.dynPl &&& 1 ≠ 0)) = dyn := hc.modeDrv
  have hlenOk : ∀ x ∈ ws, L.tx.d.dynPl &&& 1 ≠ 0 → x.2.2 ≠ [] ∧ x.2.2.length ≤ 32 := by
    intro x hx hd
    have hd' : L.d1.dynPl &&& 1 ≠ 0 := hd
    apply hbufs x hx; rw [← hmd]; exact decide_eq_true hd'
  have hpadOk : L.tx.d.dynPl &&& 1 = 0 → 1 ≤ L.tx.d.plLen.getD 0 0 := by
    intro hd
    have hd' : ¬ (L.d1.dynPl &&& 1 ≠ 0) := fun hh => hh hd
    have : dyn = false := by rw [← hmd]; exact decide_eq_false hd'
    exact (hc.width this).2.1
  have hwf : L.tx.Wf := h.hist.wf
  have hregs0 : L.tx.rad.regs = R.regs := h.hist.regs
  have hpi : L.tx.rad.RxPipes := by
    rcases h.hist with ⟨e, k, hf, _⟩ | ⟨_, _, hpi, _, _⟩
    · have := hf.fifo; rw [htx] at this; cases this
    · exact hpi
  have k : Packet := default
  obtain ⟨s1, fl, w1, w2, w3, w4, _⟩ := writes_queue k ws L.tx hwf hpi hce
    (by rw [htx]; simp only [List.length_nil]; omega) hlenOk hpadOk
  have hfl : fl = 0 := w4 hne
  subst hfl
  rw [htx, List.nil_append] at w3
  generalize hes : (ws.map fun x => L.tx.sendEntry x.2.1 x.2.2) = es at w3
  have hrid1 : s1.d.rid = L.d1.rid := w2.rid
  have hd1 : s1.d = { L.d1 with status := s1.d.status } := w2.d
  have hjs : j ≠ s1.d.rid := by rw [hrid1]; exact hc.ne
  -- CE high: the cycles
  have hq : (s1.w.setCEQ s1.d.rid true).radio s1.d.rid = { s1.rad with ce := true } :=
    World.setCEQ_radio_self _ _ _ w2.wf
  have hqj : (s1.w.setCEQ s1.d.rid true).radio j = L.w.radio j := by
    rw [World.setCEQ_radio_ne _ _ _ _ hjs]; exact w2.kept.others j hc.ne
  have hesbR : R.esb = (L.w.radio j).esb := by
    have e1 : L.tx.rad.esb = L.tx.rad.regs.esb := rfl
    have e2 : R.esb = R.regs.esb := rfl
    rw [e2, ← hregs0, ← e1]; exact hc.esb.symm
  have hlenEs : es.length = ws.length := by rw [← hes, List.length_map]
  have hinv0 : StreamInv R (L.w.radio j) s1.d.rid j (s1.w.setCEQ s1.d.rid true) es := by
    refine ⟨?_, ?_, ?_, ?_, ?_, ?_, ?_, ?_, ?_, ?_, ?_⟩
    · rw [World.setCEQ_length]; exact w2.wf
    · rw [World.setCEQ_length, w2.kept.len]; exact hc.lt
    · rw [World.setCEQ_faults, w2.kept.faults]; exact hc.faults
    · rw [hq, w3]; exact hregs0
    · rw [hq]
    · rw [hq, w3]; exact Nat.zero_and _
    · rw [hq, w3]
    · rw [hqj]
    · rw [hqj, h.rxq, List.length_map, hlenEs]; exact hlen
    · intro hesb l hl
      rw [hqj] at hl
      rw [hq]
      show l.pid ≠ s1.rad.nextPid
      rw [w2.npid]
      exact h.nodup (by rw [← hesbR]; exact hesb) l hl
    · rw [hq, w3]; exact hpi
  have hents : ∀ e ∈ es, e.pid = none ∧ Radio.headSendable [e] = true ∧
      (L.w.radio j).listensTo (R.packetFor e) = some p := by
    intro e he
    rw [← hes] at he
    obtain ⟨x, hx, rfl⟩ := List.mem_map.1 he
    refine ⟨rfl, sendable_txEntryOf _ _, ?_⟩
    have := compat_listens L.tx j p dyn x.2.1 x.2.2 hc (fun hd => (hbufs x hx hd).2)
    rw [← Radio.listensTo_packetFor_regs _ _ _ _ hregs0]
    exact this
  obtain ⟨c1, c2, c3⟩ := stream_cycles R (L.w.radio j) s1.d.rid j p hjs h.ptx hack es 4 _ (by rw [hlenEs]; omega)
    hinv0 hents
  rw [← World.setCE_eq] at c1 c2 c3
  have hesne : es ≠ [] := by
    intro hc'; rw [hc', List.length_nil] at hlenEs
    exact hne (List.length_eq_zero_iff.1 hlenEs.symm)
  have c3 := c3 hesne
  -- the other radios keep `AckOk`
  obtain ⟨o1, o2⟩ := World.tryTransmit_others AckOk receive_ackOk s1.d.rid 4 (s1.w.setCEQ s1.d.rid true)
    (fun q hq' hqs => by
      have hq1 : q ≠ L.d1.rid := by rw [← hrid1]; exact hqs
      rw [World.setCEQ_radio_ne _ _ _ _ hqs, w2.kept.others q hq1]
      refine h.acks q ?_ hq1
      rw [World.setCEQ_length, w2.kept.len] at hq'; exact hq')
  rw [← World.setCE_eq] at o1 o2
  -- update()
  generalize hs2 : ({ d := s1.d, w := s1.w.setCE s1.d.rid true } : DrvState) = s2
  have hs2d : s2.d = s1.d := by rw [← hs2]
  have hs2w : s2.w = s1.w.setCE s1.d.rid true := by rw [← hs2]
  have hs2rad : s2.rad = (s1.w.setCE s1.d.rid true).radio s1.d.rid := by rw [← hs2]; rfl
  have hwf2 : s2.Wf := by
    show s2.d.rid < s2.w.radios.length
    rw [hs2d, hs2w]; exact c1.hs
  have hx : (s2.rad.xfer [0xFF]).1 = s2.rad := by rw [Radio.xfer_nop]
  obtain ⟨u1, u2, u3⟩ := step_spi k s2 0xFF [] hwf2 (by rw [hx]; exact Radio.idle_of_empty _ (by rw [hs2rad]; exact c1.fifo))
  rw [hx] at u2
  have hprog : exec (streamProg ws) L.tx = (.ok (ws.map fun x => (true, x.2.2)), s2.spiStep [0xFF]) := by
    unfold streamProg
    simp only [exec_bind, w1, exec_setCE, exec_update, exec_pure, hs2]
  generalize hs3 : s2.spiStep [0xFF] = s3 at u1 u2 u3 hprog
  have hpi3 : s3.rad.RxPipes := by rw [u2, hs2rad]; exact c1.pipesS
  have hst3 : s3.d.status = s3.rad.status := by rw [u3, u2]
  have hd3 : s3.d = { L.d1 with status := s3.d.status } := by rw [u1.d, hs2d, hd1]
  have hrid3 : s3.d.rid = L.d1.rid := by rw [hd3]
  have hrj3 : s3.w.radio j = (s1.w.setCE s1.d.rid true).radio j := by
    rw [u1.kept.others j (by rw [hs2d]; exact hjs), hs2w]
  have hlen3 : s3.w.radios.length = L.w.radios.length := by
    rw [u1.kept.len, hs2w, o1, World.setCEQ_length, w2.kept.len]
    rfl
  have hL : L.stream ws = { L with d1 := s3.d, w := s3.w } := by unfold Link.stream; rw [hprog]
  have htx3 : Link.tx { L with d1 := s3.d, w := s3.w } = s3 := rfl
  have hdata : ∀ x ∈ ws, (L.tx.sendEntry x.2.1 x.2.2).data = expectedPayload dyn (L.d1.plLen.getD 0 0) x.2.2 :=
    fun x hx' => sendEntry_data L.tx j p dyn x.2.1 x.2.2 hc (fun hd => (hbufs x hx' hd).2)
  rw [hprog]
  refine ⟨rfl, by rw [u2, hs2rad]; exact c1.fifo, ?_, ?_, ?_⟩
  · show s3.d.status &&& 0x20 ≠ 0
    rw [hst3, (Radio.status_decodeP _ hpi3).2.2.2.2.1, u2, hs2rad]; exact c3
  · show s3.d.status &&& 0x10 = 0
    rw [hst3, (Radio.status_decodeP _ hpi3).2.2.2.2.2.1, u2, hs2rad]; exact c1.noMaxRt
  · rw [hL]
    refine ⟨?_, h.ptx, ?_, h.rid2, ?_, ?_, ?_, ?_, ?_, ?_, ?_⟩
    · rw [htx3]
      exact Or.inr ⟨u1.wf, by rw [u2, hs2rad]; exact c1.regs, hpi3, by rw [u2, hs2rad]; exact c1.fifo,
        Or.inr (fresh_rx s3 hpi3 hst3)⟩
    · rw [htx3]
      refine compat_congr L.tx s3 j p dyn hc hrid3 (by rw [u2, hs2rad, c1.regs, hregs0]) ?_ (by rw [hd3]; rfl)
        (by rw [hd3]; rfl) (by rw [u1.kept.faults, hs2w]; exact c1.faults) hlen3
      rw [hrj3]; exact c1.cfg
    · show (s3.w.radio j).rxFifo = _
      rw [hrj3, c2, hqj, h.rxq, List.map_append, ← hes, List.map_map, List.map_map]
      congr 1
      apply List.map_congr_left
      intro x hx'
      show (⟨p, (L.tx.sendEntry x.2.1 x.2.2).data⟩ : RxEntry) = ⟨p, _⟩
      rw [hdata x hx']
    · intro b hb
      rcases List.mem_append.1 hb with hb | hb
      · exact h.pendOk b hb
      · obtain ⟨x, hx', rfl⟩ := List.mem_map.1 hb
        exact expected_ne dyn _ _ (fun hd => (hbufs x hx' hd).1) (fun hd => (hc.width hd).2.1)
    · intro hd b hb
      show b.length = s3.d.plLen.getD 0 0
      rw [hd3]
      rcases List.mem_append.1 hb with hb | hb
      · exact h.pendLen hd b hb
      · obtain ⟨x, _, rfl⟩ := List.mem_map.1 hb
        subst hd
        exact expected_len _ _
    · intro hesb l hl
      show l.pid ≠ (s3.w.radio s3.d.rid).nextPid
      have e0 : s3.w.radio s3.d.rid = s3.rad := rfl
      rw [e0, u2, hs2rad]
      have hl' : (s3.w.radio j).lastRx = some l := hl
      rw [hrj3] at hl'
      refine c1.nodup ?_ l hl'
      have hesb' : (s3.w.radio j).esb = true := hesb
      rw [hrj3] at hesb'
      have e1 : ∀ r : Radio, r.esb = r.cfgOf.esb := fun _ => rfl
      rw [hesbR, e1 (L.w.radio j), ← c1.cfg, ← e1]; exact hesb'
    · intro q hq' hqs
      show AckOk (s3.w.radio q)
      have hqs0 : q ≠ L.d1.rid := by
        have : q ≠ s3.d.rid := hqs
        rw [hrid3] at this; exact this
      have hqs' : q ≠ s1.d.rid := by rw [hrid1]; exact hqs0
      rw [u1.kept.others q (by rw [hs2d]; exact hqs'), hs2w]
      refine o2 q ?_ hqs'
      have hq0 : q < L.w.radios.length := by rw [← hlen3]; exact hq'
      rw [World.setCEQ_length, w2.kept.len]; exact hq0
    · intro hcan; show s3.d.features &&& 4 ≠ 0; rw [hd3]; exact h.feat hcan
    · intro hf; show dyn = false ∧ L.d2.plLen.getD p 0 = s3.d.plLen.getD 0 0
      rw [hd3]; exact h.shadow hf

/-! ### the variant: the last `write()` with `write_only=False` instead of `ce = True` -/

/-- `write(buf, write_only=False)` is `write(buf, write_only=True)` followed by `ce = True`, whenever
    the latter returns `True` -/
theorem write_false_of_true (s : DrvState) (buf : Bytes) (m a : Bool)
    (h : (exec (write buf m a true) s).1 = .ok (true, buf)) :
    exec (write buf m a false) s =
      (.ok (true, buf), { (exec (write buf m a true) s).2 with
        w := (exec (write buf m a true) s).2.w.setCE (exec (write buf m a true) s).2.d.rid true }) := by
  rw [write_eq]
  rw [writeQ_eq] at h ⊢
  simp only [exec_bind, exec_getD, exec_ite] at h ⊢
  by_cases hbad : s.d.dynPl &&& 1 ≠ 0 ∧ (buf.isEmpty = true ∨ buf.length > 32)
  · rw [if_pos hbad, exec_raise] at h
    cases h
  · rw [if_neg hbad] at h ⊢
    unfold writeTail
    unfold writeTailQ at h ⊢
    simp only [exec_bind, exec_clearStatusFlags, exec_getD, exec_ite] at h ⊢
    by_cases hfull : (s.spiStep [0x27, clearMask true true true]).d.status &&& 1 ≠ 0
    · rw [if_pos hfull, exec_pure] at h
      injection h with h
      have := congrArg Prod.fst h
      cases this
    · rw [if_neg hfull]
      simp only [exec_bind, exec_regWriteBytes, exec_setCE, exec_pure, if_neg hbad, if_neg hfull]

theorem exec_mapM_snoc {α β} (f : α → DrvM β) (x : α) :
    ∀ (ws : List α) (s : DrvState),
      exec ((ws ++ [x]).mapM f) s =
        match exec (ws.mapM f) s with
        | (.ok rs, s') =>
          (match exec (f x) s' with
           | (.ok r, s'') => (.ok (rs ++ [r]), s'')
           | (.error e, s'') => (.error e, s''))
        | (.error e, s') => (.error e, s') := by
  intro ws
  induction ws with
  | nil =>
    intro s
    simp only [List.nil_append, List.mapM_cons, List.mapM_nil, exec_bind, exec_pure]
    rcases exec (f x) s with ⟨r, s'⟩
    cases r <;> rfl
  | cons y ys ih =>
    intro s
    simp only [List.cons_append, List.mapM_cons, exec_bind]
    rcases exec (f y) s with ⟨r, s1⟩
    cases r with
    | error e => rfl
    | ok v =>
      simp only
      rw [ih s1]
      rcases exec (ys.mapM f) s1 with ⟨r2, s2⟩
      cases r2 with
      | error e => rfl
      | ok rs =>
        simp only [exec_pure]
        rcases exec (f x) s2 with ⟨r3, s3⟩
        cases r3 <;> rfl

/-- the streaming program with the last payload written by a normal `write()` (which raises CE) -/
def streamProgLast (ws : List (Bool × Bool × Bytes)) (last : Bool × Bool × Bytes) : DrvM (List (Bool × Bytes)) := do
  let rs ← ws.mapM fun x => write x.2.2 x.1 x.2.1 true
  let r ← write last.2.2 last.1 last.2.1 false
  let _ ← update
  return rs ++ [r]

/-- whenever all the `write(…, write_only=True)` of `ws ++ [last]` return `True`, the two programs are
    the same computation -/
theorem streamProgLast_eq (ws : List (Bool × Bool × Bytes)) (last : Bool × Bool × Bytes) (s s' : DrvState)
    (h : exec ((ws ++ [last]).mapM fun x => write x.2.2 x.1 x.2.1 true) s =
      (.ok ((ws ++ [last]).map fun x => (true, x.2.2)), s')) :
    exec (streamProgLast ws last) s = exec (streamProg (ws ++ [last])) s := by
  rw [exec_mapM_snoc] at h
  unfold streamProgLast streamProg
  simp only [exec_bind]
  rw [exec_mapM_snoc]
  rcases hx : exec (ws.mapM fun x => write x.2.2 x.1 x.2.1 true) s with ⟨r, s1⟩
  rw [hx] at h
  try rw [hx]
  cases r with
  | error e => simp only at h; cases h
  | ok rs =>
    simp only at h ⊢
    rcases hy : exec (write last.2.2 last.1 last.2.1 true) s1 with ⟨r2, s2⟩
    rw [hy] at h
    try rw [hy]
    cases r2 with
    | error e => simp only at h; cases h
    | ok v =>
      simp only at h ⊢
      injection h with h1 h2
      injection h1 with h1
      have hv : v = (true, last.2.2) := by
        simp only [List.map_append, List.map_cons, List.map_nil] at h1
        have := List.append_inj_right' h1 rfl
        injection this
      subst hv
      have hw := write_false_of_true s1 last.2.2 last.1 last.2.1 (by rw [hy])
      rw [hw, hy]
      simp only [exec_setCE, exec_update, exec_pure]

/-- under the hypotheses of `link_stream` all the `write(…, write_only=True)` return `True` -/
theorem link_writes_ok (R : Radio) (j p : Nat) (dyn : Bool) (L : Link) (pend : List Bytes)
    (h : LinkInv R j p dyn L pend) (ws : List (Bool × Bool × Bytes))
    (hce : L.tx.rad.ce = false) (htx : L.tx.rad.txFifo = [])
    (hlen : pend.length + ws.length ≤ 3) (hbufs : ∀ x ∈ ws, dyn = true → x.2.2 ≠ [] ∧ x.2.2.length ≤ 32) :
    ∃ s', exec (ws.mapM fun x => write x.2.2 x.1 x.2.1 true) L.tx = (.ok (ws.map fun x => (true, x.2.2)), s') := by
  have hc := h.compat
  have hmd : (decide (L.d1.dynPl &&& 1 ≠ 0)) = dyn := hc.modeDrv
  have hlenOk : ∀ x ∈ ws, L.tx.d.dynPl &&& 1 ≠ 0 → x.2.2 ≠ [] ∧ x.2.2.length ≤ 32 := by
    intro x hx hd
    have hd' : L.d1.dynPl &&& 1 ≠ 0 := hd
    apply hbufs x hx; rw [← hmd]; exact decide_eq_true hd'
  have hpadOk : L.tx.d.dynPl &&& 1 = 0 → 1 ≤ L.tx.d.plLen.getD 0 0 := by
    intro hd
    have hd' : ¬ (L.d1.dynPl &&& 1 ≠ 0) := fun hh => hh hd
    have : dyn = false := by rw [← hmd]; exact decide_eq_false hd'
    exact (hc.width this).2.1
  have hpi : L.tx.rad.RxPipes := by
    rcases h.hist with ⟨e, k, hf, _⟩ | ⟨_, _, hpi, _, _⟩
    · have := hf.fifo; rw [htx] at this; cases this
    · exact hpi
  obtain ⟨s1, fl, w1, _⟩ := writes_queue default ws L.tx h.hist.wf hpi hce
    (by rw [htx]; simp only [List.length_nil]; omega) hlenOk hpadOk
  exact ⟨s1, w1⟩

/-- **the variant is the same computation** under the hypotheses of `link_stream` for `ws ++ [last]` -/
theorem link_streamLast_eq (R : Radio) (j p : Nat) (dyn : Bool) (L : Link) (pend : List Bytes)
    (h : LinkInv R j p dyn L pend) (ws : List (Bool × Bool × Bytes)) (last : Bool × Bool × Bytes)
    (hce : L.tx.rad.ce = false) (htx : L.tx.rad.txFifo = [])
    (hlen : pend.length + (ws ++ [last]).length ≤ 3)
    (hbufs : ∀ x ∈ ws ++ [last], dyn = true → x.2.2 ≠ [] ∧ x.2.2.length ≤ 32) :
    exec (streamProgLast ws last) L.tx = exec (streamProg (ws ++ [last])) L.tx := by
  obtain ⟨s', hs'⟩ := link_writes_ok R j p dyn L pend h (ws ++ [last]) hce htx hlen hbufs
  exact streamProgLast_eq ws last L.tx s' hs'

end Nrf
