/-
C07 — every entry point of `NrfModel/Net/Api.lean` (and `update()` of the four node classes) keeps
"the node listens on its addresses", in an open system (`closed = false`), for every fuel, every
argument, every world.  Partial correctness (`wp anyErr`).
-/
import NrfProofs.C07Pipe0

namespace Nrf.Net
open Nrf Rf24 Nrf.Spec Nrf.Proofs

/-- the node listens, and nothing but its address attributes changed since `s0` -/
def NL (s0 s : NetState) : Prop := NodeListens s ∧ NFr0 s0 s

theorem addrOf_frame {s s' : NetState} (f : NFr s s') {p0 a1 aN} (h : AddrOf s.node.cfg s.node.a p0 a1 aN) :
    AddrOf s'.node.cfg s'.node.a p0 a1 aN := by rw [f.cfg, f.a]; exact h

theorem stable_nl (s0 : NetState) : Stable (NL s0) where
  inb := fun _ h => by obtain ⟨⟨_, _, _, _, hl⟩, _⟩ := h; exact hl.1
  setNode := fun s f h hf => by
    obtain ⟨⟨p0, a1, aN, ha, hl⟩, hfr⟩ := h
    have hcur := hl.1
    have nf := NFr.setNode s f hcur hf
    exact ⟨⟨p0, a1, aN, addrOf_frame nf ha, hl.setNode f hf.2.2.2⟩, hfr.trans nf.to0⟩
  nextId := fun s n h => by
    obtain ⟨⟨p0, a1, aN, ha, hl⟩, hfr⟩ := h
    exact ⟨⟨p0, a1, aN, ha, hl.nextId n⟩, hfr.trans (NFr.nextId s n).to0⟩
  sleep := fun s ns h => by
    obtain ⟨⟨p0, a1, aN, ha, hl⟩, hfr⟩ := h
    exact ⟨⟨p0, a1, aN, ha, hl.world _ (sleep_same s ns hl.2.1)⟩, hfr.trans (NFr.world s _).to0⟩

/-- `NL` of a state reached by changes of the current node that leave address, configuration,
    kind and driver object alone, and by header-id consumption -/
macro "nl_node " h:term : tactic =>
  `(tactic| repeat' (first
      | exact $h
      | exact ⟨rfl, rfl, rfl, rfl⟩
      | apply Stable.nextId (stable_nl _)
      | apply Stable.setNode (stable_nl _)))

/-- anything proved for fixed addresses holds for the node's own -/
theorem nl_lift {α} {X : NetM α}
    (hX : ∀ p0 a1 aN s0 s, Quiet7 s0 → LstF p0 a1 aN 0x3E s0 s →
      wp anyErr X (fun _ s' => LstF p0 a1 aN 0x3E s0 s') s)
    {s0 s : NetState} (h0 : Quiet7 s0) (h : NL s0 s) :
    wp anyErr X (fun _ s' => NL s0 s') s := by
  obtain ⟨⟨p0, a1, aN, ha, hl⟩, hfr⟩ := h
  refine (hX p0 a1 aN s s (h0.nfr0 hfr) ⟨hl, NFr.refl s⟩).post (fun _ s' h' => ?_)
  exact ⟨⟨p0, a1, aN, addrOf_frame h'.2 ha, h'.1⟩, hfr.trans h'.2.to0⟩

theorem nl_netUpdate (f rv : Nat) {s0 s : NetState} (h0 : Quiet7 s0) (h : NL s0 s) :
    wp anyErr (netUpdate f rv) (fun _ s' => NL s0 s') s :=
  nl_lift (fun p0 a1 aN s0 s c l => (openAll p0 a1 aN f).netUpdate rv s0 s c l) h0 h

theorem nl_nodeWrite (f wd st : Nat) {s0 s : NetState} (h0 : Quiet7 s0) (h : NL s0 s) :
    wp anyErr (nodeWrite f wd st) (fun _ s' => NL s0 s') s :=
  nl_lift (fun p0 a1 aN s0 s c l => (openAll p0 a1 aN f).nodeWrite 0x3E wd st s0 s c l.midF) h0 h

theorem nl_available {s0 s : NetState} (h : NL s0 s) :
    wp anyErr (liftRf Rf24.available) (fun _ s' => NL s0 s') s := by
  obtain ⟨⟨p0, a1, aN, ha, hl⟩, hfr⟩ := h
  apply n_keeps_lst (keeps_available false) hl
  · intro e s' _ _; trivial
  · intro a s' g1 g2
    exact ⟨⟨p0, a1, aN, addrOf_frame g2 ha, g1⟩, hfr.trans g2.to0⟩

theorem default_is_tree : NETWORK_DEFAULT_ADDR = val [4, 4, 4, 4] := by decide

/-- `_begin(NETWORK_DEFAULT_ADDR)` / `_begin(a tree node)` while listening -/
theorem nl_begin {E : PyErr → NetState → Prop} {s0 s : NetState} (h : NL s0 s) (hg : GoodCfg s0.node.cfg)
    {ds : List Nat} (hn : IsNode ds) {Q : Unit → NetState → Prop}
    (hQ : ∀ s', NL s0 s' → s'.node.a = nodeOf (val ds) ds.length → Q () s') :
    wp E (begin (val ds)) Q s := by
  obtain ⟨⟨p0, a1, aN, ha, hl⟩, hfr⟩ := h
  apply n_begin hl.1 hl.2.1 hl.2.2.toMid.toBase (by rw [hfr.cfg]; exact hg) hn
  intro s' h1 h2 h3
  exact hQ s' ⟨h1, hfr.trans h2⟩ h3

/-- `RF24Mesh.update()` after `_do_dhcp` was set: the lookup / release branch, then `_dhcp()` -/
def masterTail (f msgT : Nat) (n : Node) : NetM Nat := do
  if n.nodeId = 0 then
    if (msgT = MESH_ADDR_LOOKUP ∨ msgT = MESH_ID_LOOKUP) ∧ Mesh.lookupLongEnough msgT n.frameBuf.message then
      setHdr fun h => { h with toNode := h.fromNode }
      let n ← getNode
      let m : Mesh.Master := { table := n.dhcp, abandoned := n.a.addr = NETWORK_DEFAULT_ADDR }
      let msg ← liftPy (masterLookupReply m n msgT)
      modNode fun n => { n with frameBuf := { n.frameBuf with message := msg } }
      let _ ← nodeWrite f (← getNode).frameBuf.header.toNode TX_NORMAL
    else if msgT = MESH_ADDR_RELEASE then
      masterRelease f (← getNode).frameBuf.header.fromNode
    masterDhcp f
  return msgT

theorem nodeUpdate_eq (f : Nat) : nodeUpdate (f + 1) = (do
    let msgT ← netUpdate f 0
    let n ← getNode
    if n.kind ≠ .meshMaster then return msgT
    if msgT = MESH_ADDR_REQUEST ∧ n.frameBuf.header.reserved ≠ 0 then do
      modNode fun n => { n with doDhcp := true }
      masterTail f msgT n
    else masterTail f msgT n) := by
  rw [nodeUpdate]
  rfl

section
variable {s0 : NetState} (h0 : Quiet7 s0) (hg : GoodCfg s0.node.cfg)
include h0 hg

/-- master `release_address(address)` as `update()` calls it -/
theorem nl_masterRelease (f address : Nat) {s : NetState} (h : NL s0 s) :
    wp anyErr (masterRelease f address) (fun _ s' => NL s0 s') s := by
  cases f with
  | zero => rw [masterRelease]; trivial
  | succ f =>
    rw [masterRelease]
    simp only [wp_ite, wp_bind, wp_getNode, wp_pure]
    split
    · split
      · apply st_setHdr (stable_nl s0) h; intro s1 h1
        rw [wp_modNode]
        have h2 := (stable_nl s0).setNode s1 (fun n => { n with frameBuf := { n.frameBuf with message := [] } }) h1
          ⟨rfl, rfl, rfl, rfl⟩
        refine (nl_nodeWrite f 0 TX_NORMAL h0 h2).post (fun r s3 h3 => ?_)
        split
        · rw [default_is_tree]
          exact nl_begin h3 hg (by decide) (fun s4 h4 _ => h4)
        · exact h3
      · exact h
    · rw [wp_modNode]
      exact (stable_nl s0).setNode s _ h ⟨rfl, rfl, rfl, rfl⟩

omit hg in
/-- `_dhcp()` -/
theorem nl_masterDhcp (f : Nat) {s : NetState} (h : NL s0 s) :
    wp anyErr (masterDhcp f) (fun _ s' => NL s0 s') s := by
  cases f with
  | zero => rw [masterDhcp]; trivial
  | succ f =>
    rw [masterDhcp]
    simp only [wp_ite, wp_bind, wp_getNode, wp_pure, wp_modNode]
    split
    · exact h
    · have h1 := (stable_nl s0).setNode s (fun n => { n with doDhcp := false }) h ⟨rfl, rfl, rfl, rfl⟩
      split
      · exact h1
      · rename_i newAddr _
        have h2 := (stable_nl s0).setNode _
          (fun n => { n with dhcp := Mesh.setAddress n.dhcp s.node.frameBuf.header.reserved newAddr }) h1
          ⟨rfl, rfl, rfl, rfl⟩
        simp only [wp_bind, wp_modNode]
        apply st_setHdr (stable_nl s0) h2; intro s3 h3
        apply wp_liftPy_any; intro msg _
        simp only [wp_modNode, wp_getNode, wp_ite, wp_bind, wp_pure]
        have h4 := (stable_nl s0).setNode s3 (fun n => { n with frameBuf := { n.frameBuf with message := msg } }) h3
          ⟨rfl, rfl, rfl, rfl⟩
        split
        · apply wp_liftPy_any; intro resp _
          refine (nl_nodeWrite f _ TX_NORMAL h0 h4).post (fun r s5 h5 => ?_)
          split
          · have h6 := (stable_nl s0).setNode s5 (fun n => { n with frameBuf := (n.frameBuf.unpack resp).1 }) h5
              ⟨rfl, rfl, rfl, rfl⟩
            exact (nl_nodeWrite f _ TX_NORMAL h0 h6).post (fun _ _ h => h)
          · exact h5
        · exact (nl_nodeWrite f _ TX_PHYSICAL h0 h4).post (fun _ _ h => h)

theorem nl_masterTail (f msgT : Nat) (n : Node) {s : NetState} (h : NL s0 s) :
    wp anyErr (masterTail f msgT n) (fun _ s' => NL s0 s') s := by
  unfold masterTail
  simp only [wp_getNode, wp_ite, wp_pure, wp_bind, wp_modNode]
  split
  · split
    · apply st_setHdr (stable_nl s0) h; intro s3 h3
      apply wp_liftPy_any; intro msg _
      have h4 := (stable_nl s0).setNode s3 (fun n => { n with frameBuf := { n.frameBuf with message := msg } }) h3
        ⟨rfl, rfl, rfl, rfl⟩
      refine (nl_nodeWrite f _ TX_NORMAL h0 h4).post (fun r s5 h5 => ?_)
      exact (nl_masterDhcp h0 f h5).post (fun _ _ h => h)
    · split
      · refine (nl_masterRelease h0 hg f _ h).post (fun _ s3 h3 => ?_)
        exact (nl_masterDhcp h0 f h3).post (fun _ _ h => h)
      · exact (nl_masterDhcp h0 f h).post (fun _ _ h => h)
  · exact h

/-- `update()` of any node class -/
theorem nl_nodeUpdate (f : Nat) {s : NetState} (h : NL s0 s) :
    wp anyErr (nodeUpdate f) (fun _ s' => NL s0 s') s := by
  cases f with
  | zero => rw [nodeUpdate]; trivial
  | succ f =>
    rw [nodeUpdate_eq]
    simp only [wp_bind]
    refine (nl_netUpdate f 0 h0 h).post (fun msgT s1 h1 => ?_)
    simp only [wp_getNode, wp_ite, wp_pure, wp_bind, wp_modNode]
    split
    · exact h1
    · split
      · exact nl_masterTail h0 hg f msgT _
          ((stable_nl s0).setNode s1 (fun n => { n with doDhcp := true }) h1 ⟨rfl, rfl, rfl, rfl⟩)
      · exact nl_masterTail h0 hg f msgT _ h1

/-! ### the entry points of `Api.lean` -/

omit h0 hg in
theorem any_validate (l : Nat) {s : NetState} {Q : Bool → NetState → Prop} (hQ : ∀ b, Q b s) :
    wp anyErr (nodeValidateMsgLen l) Q s := by
  unfold nodeValidateMsgLen
  simp only [wp_bind, wp_getNode, wp_ite, wp_throw, wp_pure]
  split
  · trivial
  · split <;> exact hQ _

theorem nl_apiUpdate {s : NetState} (h : NL s0 s) : wp anyErr apiUpdate (fun _ s' => NL s0 s') s :=
  nl_nodeUpdate h0 hg F h

omit hg in
theorem nl_apiNetWrite (to ty : Int) (msg : Bytes) (direct : Nat) {s : NetState} (h : NL s0 s) :
    wp anyErr (apiNetWrite to ty msg direct) (fun _ s' => NL s0 s') s := by
  unfold apiNetWrite
  simp only [wp_bind, wp_takeId, wp_ite, wp_throw, wp_pure, wp_getNode, wp_modNode]
  have h1 := (stable_nl s0).nextId s ((s.nextId + 1) &&& 0xFFFF) h
  split
  · trivial
  · apply any_validate; intro ok
    have h2 := (stable_nl s0).nextId _ (((s.nextId + 1) &&& 0xFFFF) + 1 &&& 0xFFFF) h1
    have h3 := fun (fb : Frame) => (stable_nl s0).setNode _ (fun nd => { nd with frameBuf := fb }) h2 ⟨rfl, rfl, rfl, rfl⟩
    split
    · exact (nl_nodeWrite F _ _ h0 (h3 _)).post (fun _ _ h => h)
    · exact (nl_nodeWrite F _ _ h0 (h3 _)).post (fun _ _ h => h)

omit hg in
theorem nl_apiMulticast (msg : Bytes) (ty : Int) (level : Option Int) {s : NetState} (h : NL s0 s) :
    wp anyErr (apiMulticast msg ty level) (fun _ s' => NL s0 s') s := by
  unfold apiMulticast
  simp only [wp_bind, wp_getNode]
  apply any_validate; intro ok
  apply st_setHdr (stable_nl s0) h; intro s1 h1
  rw [wp_modNode]
  have h2 := fun (m : Bytes) => (stable_nl s0).setNode s1 (fun n => { n with frameBuf := { n.frameBuf with message := m } }) h1
    ⟨rfl, rfl, rfl, rfl⟩
  exact (nl_nodeWrite F _ _ h0 (h2 _)).post (fun _ _ h => h)

omit h0 in
/-- `node_address = val` for a tree node (the other values `is_address_valid` accepts are the
    three reserved multicast addresses) -/
theorem nl_apiSetNodeAddress {ds : List Nat} (hn : IsNode ds) {s : NetState} (h : NL s0 s) :
    wp anyErr (apiSetNodeAddress (val ds)) (fun _ s' => NL s0 s') s := by
  unfold apiSetNodeAddress
  simp only [wp_bind, wp_ite, wp_pure]
  split
  · exact h
  · exact nl_begin h hg hn (fun s' h' _ => h')

omit h0 hg in
theorem nl_apiSetFragmentation (en : Bool) {s : NetState} (h : NL s0 s) :
    wp anyErr (apiSetFragmentation en) (fun _ s' => NL s0 s') s := by
  unfold apiSetFragmentation
  simp only [wp_bind, wp_getNode, wp_ite, wp_pure, wp_modNode, wp_takeId]
  split
  · split <;> nl_node h
  · exact h

omit h0 in
/-- `_begin(a)` for any number `a` (partial correctness) -/
theorem nl_begin_any (a : Nat) {s : NetState} (h : NL s0 s) :
    wp anyErr (begin a) (fun _ s' => NL s0 s') s := by
  obtain ⟨⟨p0, a1, aN, ha, hl⟩, hfr⟩ := h
  apply n_begin_any hl.1 hl.2.1 hl.2.2.toMid.toBase (by rw [hfr.cfg]; exact hg) a
  intro s' h1 h2
  exact ⟨h1, hfr.trans h2⟩

end

/-! ### `multicast_level = lvl` -/

theorem _root_.Nrf.Mid.open0 {p0 a1 : Bytes} {aN : List Nat} {v : Nat} {d : Rf24} {c : Radio} (h : Mid p0 a1 aN v d c)
    (a : Bytes) (hl : a.length = 5) : Mid a a1 aN v (dOpen0 d c a) (cOpen0 c a) := by
  have ho : Radio.overlay c.rxAddr0 a = a := overlay5' _ _ hl h.r0len
  have e1 : c.enRxAddr ||| 1 = 0x3F := by rw [h.rxen]; decide
  exact
    { dyn := h.dyn, feat := h.feat
      r0len := by show (Radio.overlay c.rxAddr0 a).length = 5; rw [ho]; exact hl
      r1len := h.r1len, rNlen := h.rNlen
      rxenR := and63_lt _
      sh0 := by
        show a ++ d.pipes0.drop a.length = Radio.overlay c.rxAddr0 a
        rw [ho, append_drop5 _ _ hl (by rw [h.sh0]; exact h.r0len)]
      p1len := h.p1len
      openR := by show c.enRxAddr ||| 1 < 256; rw [e1]; decide
      txlen := h.txlen
      aw := h.aw
      rxen := by show (c.enRxAddr ||| 1) &&& 0x3F = 0x3F; rw [e1]; rfl
      a1 := h.a1, aN := h.aN, aa := h.aa, s_aa := h.s_aa
      s_read := rfl
      p0len := hl
      s_open := e1 }

/-- `multicast_level = lvl`: the node listens — with multicast allowed pipe 0 on the address of
    the new level, without on the node's own pipe-0 address as before (`pipe0Of` has exactly the
    case split of the repaired setter; before fix 6a18625 this needed `allowMulticast = true`) -/
theorem nl_apiSetMulticastLevel (lvl : Int) {s0 s : NetState} (h : NL s0 s) :
    wp anyErr (apiSetMulticastLevel lvl)
      (fun _ s' => NL s0 s' ∧ s'.node.a = { s.node.a with netLvl := (min 4 (max lvl 0)).toNat }) s := by
  obtain ⟨⟨p0, a1, aN, ha, hl⟩, hfr⟩ := h
  unfold apiSetMulticastLevel
  simp only [wp_bind, wp_modNode, pipeAddr, wp_getNode]
  -- the new level
  have hcur := hl.1
  have hn1 := NetState.node_setNode s (fun n => { n with a := { n.a with netLvl := (min 4 (max lvl 0)).toNat } }) hcur
  have l1 : (s.setNode fun n => { n with a := { n.a with netLvl := (min 4 (max lvl 0)).toNat } }).LstS p0 a1 aN 0x3E :=
    hl.setNode _ (by rfl)
  have f1 : NFr0 s (s.setNode fun n => { n with a := { n.a with netLvl := (min 4 (max lvl 0)).toNat } }) := by
    refine ⟨rfl, by simp, rfl, ?_, ?_, ?_, rfl, fun k => rids_modify s _ hcur rfl k⟩ <;> rw [hn1]
  generalize (s.setNode fun n => { n with a := { n.a with netLvl := (min 4 (max lvl 0)).toNat } }) = s1 at hn1 l1 f1
  apply n_setListen_false l1.mid; intro s2 l2 f2
  apply wp_liftPy_any; intro x hx
  have hxl := pipeAddress_length _ _ _ _ hx
  have hne : x ≠ [] := by intro e; rw [e] at hxl; simp at hxl
  -- open_rx_pipe(0, x)
  rw [wp_liftRf]
  apply at_openRxPipe0 (At.start s2.drv l2.2.1) x hne (by rw [hxl, l2.2.2.sh0, l2.2.2.r0len]; exact Nat.le_refl _)
    l2.2.2.rxenR
  intro ds3 a3
  have m3 : ds3.IsMid x a1 aN 0x3E := a3.isMid (l2.2.2.open0 x hxl)
  have c3 : (s2.putDrv ds3).MidS x a1 aN 0x3E :=
    ⟨by simpa using l2.1, by rw [NetState.drv_putDrv s2 ds3 l2.1]; exact m3⟩
  have f3 : NFr s2 (s2.putDrv ds3) := NFr.putDrv s2 ds3 l2.1 (by have := a3.fr.rid; exact this)
  apply n_setListen_true c3; intro s4 l4 f4
  have F : NFr s1 s4 := (f2.trans f3).trans f4
  refine ⟨⟨⟨x, a1, aN, ?_, l4⟩, (hfr.trans f1).trans F.to0⟩, by rw [F.a, hn1]⟩
  rw [F.cfg, F.a, hn1]
  have hcfg : s2.node.cfg = s.node.cfg := by rw [f2.cfg, f1.cfg]
  have ha2 : s2.node.a = { s.node.a with netLvl := (min 4 (max lvl 0)).toNat } := by rw [f2.a, hn1]
  refine ⟨?_, ha.h1, ha.hN⟩
  unfold pipe0Of
  rw [hcfg, ha2] at hx
  cases ham : s.node.cfg.allowMulticast
  · rw [ham] at hx; simpa using hx
  · rw [ham] at hx; simpa using hx

end Nrf.Net
