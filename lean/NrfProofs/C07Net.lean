/-
C07 — the invariants lifted to session states (`NetState`), the frame relation `NFr` between
session states, and the node-layer view of each `RF24` call.
-/
import NrfProofs.C07Inv
import NrfProofs.C07Closed

namespace Nrf.Net
open Nrf Rf24

/-! ### structure of session states -/

theorem NetState.node_setNode (s : NetState) (f : Node → Node) (h : s.cur < s.nodes.length) :
    (s.setNode f).node = f s.node := by
  unfold NetState.setNode NetState.node
  simp only [List.getD_eq_getElem?_getD, List.getElem?_modify, h, List.getElem?_eq_getElem,
    Option.getD_some, ↓reduceIte]
  rfl

theorem NetState.node_putDrv (s : NetState) (ds : DrvState) (h : s.cur < s.nodes.length) :
    (s.putDrv ds).node = { s.node with rf := ds.d } := by
  unfold NetState.putDrv NetState.node
  simp only [List.getD_eq_getElem?_getD, List.getElem?_modify, h, List.getElem?_eq_getElem,
    Option.getD_some, ↓reduceIte]
  rfl

theorem NetState.drv_putDrv (s : NetState) (ds : DrvState) (h : s.cur < s.nodes.length) :
    (s.putDrv ds).drv = ds := by
  unfold NetState.drv
  rw [NetState.node_putDrv s ds h]
  rfl

@[simp] theorem NetState.cur_putDrv (s : NetState) (ds : DrvState) : (s.putDrv ds).cur = s.cur := rfl
@[simp] theorem NetState.cur_setNode (s : NetState) (f : Node → Node) : (s.setNode f).cur = s.cur := rfl
@[simp] theorem NetState.closed_putDrv (s : NetState) (ds : DrvState) : (s.putDrv ds).closed = s.closed := rfl
@[simp] theorem NetState.closed_setNode (s : NetState) (f : Node → Node) : (s.setNode f).closed = s.closed := rfl
@[simp] theorem NetState.w_setNode (s : NetState) (f : Node → Node) : (s.setNode f).w = s.w := rfl
@[simp] theorem NetState.len_putDrv (s : NetState) (ds : DrvState) :
    (s.putDrv ds).nodes.length = s.nodes.length := by simp [NetState.putDrv]
@[simp] theorem NetState.len_setNode (s : NetState) (f : Node → Node) :
    (s.setNode f).nodes.length = s.nodes.length := by simp [NetState.setNode]

/-- the parts of the current node that only `_begin` / attribute setters change, and the session
    bookkeeping -/
structure NFr (s s' : NetState) : Prop where
  cur : s'.cur = s.cur
  len : s'.nodes.length = s.nodes.length
  closed : s'.closed = s.closed
  cfg : s'.node.cfg = s.node.cfg
  a : s'.node.a = s.node.a
  kind : s'.node.kind = s.node.kind
  rid : s'.node.rf.rid = s.node.rf.rid
  /-- the call stack (closed system) -/
  active : s'.active = s.active
  /-- every node stays on its radio -/
  rids : ∀ k, (s'.nodes.getD k default).rf.rid = (s.nodes.getD k default).rf.rid

theorem NFr.refl (s : NetState) : NFr s s := ⟨rfl, rfl, rfl, rfl, rfl, rfl, rfl, rfl, fun _ => rfl⟩

theorem NFr.trans {a b c : NetState} (h1 : NFr a b) (h2 : NFr b c) : NFr a c :=
  ⟨h2.cur.trans h1.cur, h2.len.trans h1.len, h2.closed.trans h1.closed, h2.cfg.trans h1.cfg,
   h2.a.trans h1.a, h2.kind.trans h1.kind, h2.rid.trans h1.rid, h2.active.trans h1.active,
   fun k => (h2.rids k).trans (h1.rids k)⟩

/-- a change of the current node's record that keeps its radio keeps every node on its radio -/
theorem rids_modify (s : NetState) (f : Node → Node) (h : s.cur < s.nodes.length)
    (hf : (f s.node).rf.rid = s.node.rf.rid) (k : Nat) :
    ((s.nodes.modify s.cur f).getD k default).rf.rid = (s.nodes.getD k default).rf.rid := by
  by_cases hk : k = s.cur
  · subst hk
    rw [NetK.getD_modify_self _ _ _ h]
    exact hf
  · rw [NetK.getD_modify_ne _ _ _ _ hk]

theorem NFr.putDrv (s : NetState) (ds : DrvState) (h : s.cur < s.nodes.length) (hr : ds.d.rid = s.node.rf.rid) :
    NFr s (s.putDrv ds) := by
  refine ⟨rfl, by simp, rfl, ?_, ?_, ?_, ?_, rfl, rids_modify s _ h hr⟩ <;> rw [NetState.node_putDrv s ds h]
  exact hr

/-- a change of the current node that leaves address, configuration and driver object alone -/
theorem NFr.setNode (s : NetState) (f : Node → Node) (h : s.cur < s.nodes.length)
    (hf : (f s.node).cfg = s.node.cfg ∧ (f s.node).a = s.node.a ∧ (f s.node).kind = s.node.kind
      ∧ (f s.node).rf = s.node.rf) : NFr s (s.setNode f) := by
  refine ⟨rfl, by simp, rfl, ?_, ?_, ?_, ?_, rfl, rids_modify s f h (by rw [hf.2.2.2])⟩ <;>
    rw [NetState.node_setNode s f h]
  · exact hf.1
  · exact hf.2.1
  · exact hf.2.2.1
  · rw [hf.2.2.2]

/-! ### open or closed system -/

/-- the hypothesis on the session the call starts in: an open system, or a closed one in which the
    call runs as a node that is on the call stack and distinct nodes drive distinct radios -/
def Quiet7 (s : NetState) : Prop := s.closed = false ∨ (NetK.Good s ∧ NetK.Distinct s)

theorem Quiet7.nfr {s s' : NetState} (h : Quiet7 s) (hf : NFr s s') : Quiet7 s' := by
  rcases h with h | ⟨g, d⟩
  · exact Or.inl (hf.closed.trans h)
  · refine Or.inr ⟨⟨by rw [hf.cur, hf.active]; exact g.onStack, by rw [hf.cur, hf.len]; exact g.exists_⟩, ?_⟩
    intro a b ha hb hab
    rw [hf.rids, hf.rids]
    exact d a b (by rw [← hf.len]; exact ha) (by rw [← hf.len]; exact hb) hab

/-- in a closed system the hypothesis is the second alternative -/
theorem Quiet7.closed {s : NetState} (h : Quiet7 s) (hc : s.closed = true) : NetK.Good s ∧ NetK.Distinct s := by
  rcases h with h | h
  · rw [h] at hc; cases hc
  · exact h

/-! ### the invariants on session states -/

def NetState.MidS (p0 a1 : Bytes) (aN : List Nat) (v : Nat) (s : NetState) : Prop :=
  s.cur < s.nodes.length ∧ s.drv.IsMid p0 a1 aN v

def NetState.LstS (p0 a1 : Bytes) (aN : List Nat) (v : Nat) (s : NetState) : Prop :=
  s.cur < s.nodes.length ∧ s.drv.IsLst p0 a1 aN v

theorem NetState.LstS.mid {p0 a1 aN v} {s : NetState} (h : s.LstS p0 a1 aN v) : s.MidS p0 a1 aN v :=
  ⟨h.1, h.2.mid⟩

section
variable {p0 a1 : Bytes} {aN : List Nat} {v : Nat} {s : NetState}

theorem NetState.drv_setNode (f : Node → Node) (h : s.cur < s.nodes.length) (hf : (f s.node).rf = s.node.rf) :
    (s.setNode f).drv = s.drv := by
  unfold NetState.drv
  rw [NetState.node_setNode s f h, hf]
  rfl

theorem NetState.MidS.setNode (h : s.MidS p0 a1 aN v) (f : Node → Node) (hf : (f s.node).rf = s.node.rf) :
    (s.setNode f).MidS p0 a1 aN v :=
  ⟨by simpa using h.1, by rw [NetState.drv_setNode f h.1 hf]; exact h.2⟩

theorem NetState.LstS.setNode (h : s.LstS p0 a1 aN v) (f : Node → Node) (hf : (f s.node).rf = s.node.rf) :
    (s.setNode f).LstS p0 a1 aN v :=
  ⟨by simpa using h.1, by rw [NetState.drv_setNode f h.1 hf]; exact h.2⟩

/-- a change of the world that is a `Same` step of the driver state -/
theorem NetState.MidS.world (h : s.MidS p0 a1 aN v) (w' : World) {b : Bool}
    (hs : Same b s.drv { s.drv with w := w' }) : ({ s with w := w' } : NetState).MidS p0 a1 aN v :=
  ⟨h.1, hs.isMid h.2⟩

theorem NetState.LstS.world (h : s.LstS p0 a1 aN v) (w' : World)
    (hs : Same false s.drv { s.drv with w := w' }) : ({ s with w := w' } : NetState).LstS p0 a1 aN v :=
  ⟨h.1, hs.isLst h.2⟩

theorem NFr.world (s : NetState) (w' : World) : NFr s { s with w := w' } :=
  ⟨rfl, rfl, rfl, rfl, rfl, rfl, rfl, rfl, fun _ => rfl⟩

theorem NFr.nextId (s : NetState) (n : Nat) : NFr s { s with nextId := n } :=
  ⟨rfl, rfl, rfl, rfl, rfl, rfl, rfl, rfl, fun _ => rfl⟩

theorem NetState.MidS.nextId (h : s.MidS p0 a1 aN v) (n : Nat) : ({ s with nextId := n } : NetState).MidS p0 a1 aN v := h
theorem NetState.LstS.nextId (h : s.LstS p0 a1 aN v) (n : Nat) : ({ s with nextId := n } : NetState).LstS p0 a1 aN v := h

end

/-! ### the `RF24` calls of the network layer, seen from the session -/

section
variable {E : PyErr → NetState → Prop} {p0 a1 : Bytes} {aN : List Nat} {v : Nat} {s : NetState}

theorem MidS_putDrv (h : s.MidS p0 a1 aN v) {ds : DrvState} {v' : Nat} (hd : ds.IsMid p0 a1 aN v')
    (hf : Fr s.drv ds) : (s.putDrv ds).MidS p0 a1 aN v' ∧ NFr s (s.putDrv ds) :=
  ⟨⟨by simpa using h.1, by rw [NetState.drv_putDrv s ds h.1]; exact hd⟩, NFr.putDrv s ds h.1 hf.rid⟩

theorem LstS_putDrv (h : s.MidS p0 a1 aN v) {ds : DrvState} {v' : Nat} (hd : ds.IsLst p0 a1 aN v')
    (hf : Fr s.drv ds) : (s.putDrv ds).LstS p0 a1 aN v' ∧ NFr s (s.putDrv ds) :=
  ⟨⟨by simpa using h.1, by rw [NetState.drv_putDrv s ds h.1]; exact hd⟩, NFr.putDrv s ds h.1 hf.rid⟩

theorem n_setListen_false (h : s.MidS p0 a1 aN v) {Q : Unit → NetState → Prop}
    (hQ : ∀ s', s'.MidS p0 a1 aN v → NFr s s' → Q () s') : wp E (liftRf (setListen false)) Q s := by
  rw [wp_liftRf]
  apply setListen_false_mid h.2
  intro ds hd hf
  obtain ⟨h1, h2⟩ := MidS_putDrv h hd hf
  exact hQ _ h1 h2

theorem n_setListen_true (h : s.MidS p0 a1 aN v) {Q : Unit → NetState → Prop}
    (hQ : ∀ s', s'.LstS p0 a1 aN v → NFr s s' → Q () s') : wp E (liftRf (setListen true)) Q s := by
  rw [wp_liftRf]
  apply setListen_true_lst h.2
  intro ds hd hf
  obtain ⟨h1, h2⟩ := LstS_putDrv h hd hf
  exact hQ _ h1 h2

theorem n_setAutoAck_mid (h : s.MidS p0 a1 aN v) (v' : Nat) (hv : v' < 64) {Q : Unit → NetState → Prop}
    (hQ : ∀ s', s'.MidS p0 a1 aN v' → NFr s s' → Q () s') :
    wp E (liftRf (setAutoAckAttr (.i (v' : Int)))) Q s := by
  rw [wp_liftRf]
  apply setAutoAck_mid h.2 v' hv
  intro ds hd hf
  obtain ⟨h1, h2⟩ := MidS_putDrv h hd hf
  exact hQ _ h1 h2

theorem n_setAutoAck_lst (h : s.LstS p0 a1 aN v) (v' : Nat) (hv : v' < 64) {Q : Unit → NetState → Prop}
    (hQ : ∀ s', s'.LstS p0 a1 aN v' → NFr s s' → Q () s') :
    wp E (liftRf (setAutoAckAttr (.i (v' : Int)))) Q s := by
  rw [wp_liftRf]
  apply setAutoAck_lst h.2 v' hv
  intro ds hd hf
  obtain ⟨h1, h2⟩ := LstS_putDrv h.mid hd hf
  exact hQ _ h1 h2

theorem n_openTxPipe (h : s.MidS p0 a1 aN v) (addr : Bytes) (hl : addr.length = 5) {Q : Unit → NetState → Prop}
    (hQ : ∀ s', s'.MidS p0 a1 aN v → NFr s s' → Q () s') : wp E (liftRf (openTxPipe addr)) Q s := by
  rw [wp_liftRf]
  apply openTxPipe_mid h.2 addr hl
  intro ds hd hf
  obtain ⟨h1, h2⟩ := MidS_putDrv h hd hf
  exact hQ _ h1 h2

/-- `send` / `resend` from the session: whatever happens, `Mid` stays -/
theorem n_keeps_mid {α} {m : DrvM α} {b : Bool} (hk : Keeps b m) (h : s.MidS p0 a1 aN v)
    {Q : α → NetState → Prop} (hE : ∀ e s', s'.MidS p0 a1 aN v → NFr s s' → E e s')
    (hQ : ∀ a s', s'.MidS p0 a1 aN v → NFr s s' → Q a s') : wp E (liftRf m) Q s := by
  rw [wp_liftRf]
  apply keeps_mid hk h.2
  · intro e ds hd hf
    obtain ⟨h1, h2⟩ := MidS_putDrv h hd hf
    exact hE _ _ h1 h2
  · intro a ds hd hf
    obtain ⟨h1, h2⟩ := MidS_putDrv h hd hf
    exact hQ _ _ h1 h2

/-- `read` / `available` from the session: whatever happens, the node keeps listening -/
theorem n_keeps_lst {α} {m : DrvM α} (hk : Keeps false m) (h : s.LstS p0 a1 aN v)
    {Q : α → NetState → Prop} (hE : ∀ e s', s'.LstS p0 a1 aN v → NFr s s' → E e s')
    (hQ : ∀ a s', s'.LstS p0 a1 aN v → NFr s s' → Q a s') : wp E (liftRf m) Q s := by
  rw [wp_liftRf]
  apply keeps_lst hk h.2
  · intro e ds hd hf
    obtain ⟨h1, h2⟩ := LstS_putDrv h.mid hd hf
    exact hE _ _ h1 h2
  · intro a ds hd hf
    obtain ⟨h1, h2⟩ := LstS_putDrv h.mid hd hf
    exact hQ _ _ h1 h2

end

end Nrf.Net
