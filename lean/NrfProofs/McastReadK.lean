/-
C14, receiver: `self._rf24.read()` on a listening radio (dynamic payloads) — the head of the RX FIFO
is returned and removed; on an empty FIFO `None` — and what `_net_update()` makes of a received
multicast frame in the open system: `_handle_frame_for_other_node` is run on exactly that frame.
-/
import NrfProofs.McastFrameK

namespace Nrf.Proofs.McastK
open Nrf Nrf.Net Nrf.NetK Nrf.Rf24

/-! ### SPI on a radio that is receiving -/

theorem txMode_of_rxMode {r : Radio} (h : r.rxMode = true) : r.txMode = false := by
  unfold Radio.rxMode at h
  unfold Radio.txMode
  cases hp : r.pwrUp <;> cases hr : r.primRx <;> cases hc : r.ce <;> simp_all

theorem tryTransmit_noTx (s f : Nat) (w : World) (h : (w.radio s).txMode = false) :
    World.tryTransmit s f w = w := by
  cases f with
  | zero => rfl
  | succ f =>
    unfold World.tryTransmit
    simp [h]

/-- a command that leaves CONFIG and CE alone -/
def KeepsMode (out : Bytes) : Prop := ∀ r : Radio, (r.xfer out).1.config = r.config ∧ (r.xfer out).1.ce = r.ce

theorem rxMode_xfer {out : Bytes} (hk : KeepsMode out) (r : Radio) : (r.xfer out).1.rxMode = r.rxMode := by
  obtain ⟨h1, h2⟩ := hk r
  unfold Radio.rxMode Radio.pwrUp Radio.primRx
  rw [h1, h2]

/-- one SPI transaction on a receiving radio: the command acts on the radio, nothing is transmitted -/
theorem spi_rx (w : World) (s : Nat) (out : Bytes) (hs : s < w.radios.length) (hk : KeepsMode out)
    (hrx : (w.radio s).rxMode = true) :
    (w.spi s out).2 = ((w.radio s).xfer out).2 ∧
    (w.spi s out).1.radio s = ((w.radio s).xfer out).1 ∧
    (∀ j, j ≠ s → (w.spi s out).1.radio j = w.radio j) ∧
    (w.spi s out).1.radios.length = w.radios.length ∧
    (w.spi s out).1.air = w.air := by
  have hj : (w.jump s).radio s = w.radio s := rfl
  have hlen : s < (w.jump s).radios.length := hs
  have hnew : ∀ W : World, W = { ((w.jump s).setRadio s ((w.radio s).xfer out).1) with
      clock := (w.jump s).clock + SPI_COST_NS, spiCount := (w.jump s).spiCount + 1 } →
      (W.radio s) = ((w.radio s).xfer out).1 := by
    intro W hW
    rw [hW]
    show ((w.jump s).setRadio s _).radio s = _
    rw [World.radio_setRadio]
    simp [hlen]
  have hno : World.tryTransmit s 4 { ((w.jump s).setRadio s ((w.radio s).xfer out).1) with
      clock := (w.jump s).clock + SPI_COST_NS, spiCount := (w.jump s).spiCount + 1 } =
      { ((w.jump s).setRadio s ((w.radio s).xfer out).1) with
        clock := (w.jump s).clock + SPI_COST_NS, spiCount := (w.jump s).spiCount + 1 } := by
    apply tryTransmit_noTx
    rw [hnew _ rfl]
    apply txMode_of_rxMode
    rw [rxMode_xfer hk]; exact hrx
  unfold World.spi
  simp only [hj]
  rw [hno]
  refine ⟨trivial, hnew _ rfl, ?_, ?_, rfl⟩
  · intro j hjs
    show ((w.jump s).setRadio s _).radio j = _
    rw [World.radio_setRadio]
    simp [hjs]
    rfl
  · show ((w.jump s).setRadio s _).radios.length = _
    simp [World.setRadio, World.jump]

/-! ### the three commands of `read()` -/

theorem keeps_plWid : KeepsMode [0x60, 0] := by
  intro r
  have : Radio.decodeCmd 0x60 = .rRxPlWid := by decide
  simp [Radio.xfer, this, Radio.runCmd]

theorem keeps_rxPayload (n : Nat) : KeepsMode (0x61 :: zeros n) := by
  intro r
  have : Radio.decodeCmd 0x61 = .rRxPayload := by decide
  simp only [Radio.xfer, this, Radio.runCmd, Radio.readPayload]
  split <;> exact ⟨rfl, rfl⟩

theorem keeps_status (v : Nat) : KeepsMode [0x27, v] := by
  intro r
  have : Radio.decodeCmd 0x27 = .wRegister 7 := by decide
  simp [Radio.xfer, this, Radio.runCmd, Radio.writeReg]

theorem rxField (k p t : Nat) (hk : k < 8) (hp : p < 8) (ht : t < 2) :
    (((16 * k) ||| (p <<< 1) ||| t) >>> 1) &&& 7 = p := by
  have : ∀ k : Fin 8, ∀ p : Fin 8, ∀ t : Fin 2,
      (((16 * k.val) ||| (p.val <<< 1) ||| t.val) >>> 1) &&& 7 = p.val := by decide
  exact this ⟨k, hk⟩ ⟨p, hp⟩ ⟨t, ht⟩

theorem and70 (f : Nat) : ∃ k, k < 8 ∧ f &&& 0x70 = 16 * k := by
  refine ⟨(f &&& 0x70) / 16, ?_, ?_⟩
  · have : f &&& 0x70 ≤ 0x70 := Nat.and_le_right
    omega
  · have h : (f &&& 0x70) % 16 = 0 := by
      have : (f &&& 0x70) &&& 15 = 0 := by rw [Nat.and_assoc]; simp
      rw [← Nat.and_two_pow_sub_one_eq_mod _ 4]; exact this
    omega

/-- the RX_P_NO field of the STATUS byte as the driver extracts it -/
theorem status_field (r : Radio) (hp : r.rxPNo < 8) : (r.status >>> 1) &&& 7 = r.rxPNo := by
  unfold Radio.status
  obtain ⟨k, hk, he⟩ := and70 r.flags
  rw [he]
  exact rxField k _ _ hk hp (by split <;> omega)

/-! ### `read()` -/

/-- the driver of a listening node between calls: its radio exists and is receiving, dynamic
    payloads are on in the shadow (`_features & 4`, as `RF24.__init__` leaves it) -/
structure RxReady (t : DrvState) : Prop where
  wf : t.Wf
  rx : (t.w.radio t.d.rid).rxMode = true
  feat : t.d.features &&& 4 ≠ 0

/-- **`read()` with an empty RX FIFO**: `None`; one R_RX_PL_WID transaction, nothing else changes -/
theorem exec_read_empty (t : DrvState) (h : RxReady t) (he : (t.w.radio t.d.rid).rxFifo = []) :
    (exec (Rf24.read none) t).1 = .ok none ∧
    RxReady (exec (Rf24.read none) t).2 ∧
    (exec (Rf24.read none) t).2.d.rid = t.d.rid ∧
    ((exec (Rf24.read none) t).2.w.radio t.d.rid).rxFifo = [] ∧
    (exec (Rf24.read none) t).2.w.air = t.w.air := by
  obtain ⟨i1, i2, _, i4, i5⟩ := spi_rx t.w t.d.rid [0x60, 0] h.wf keeps_plWid h.rx
  have hx : (t.w.radio t.d.rid).xfer [0x60, 0] = (t.w.radio t.d.rid, [(t.w.radio t.d.rid).status, 0]) := by
    have : Radio.decodeCmd 0x60 = .rRxPlWid := by decide
    simp [Radio.xfer, this, Radio.runCmd, he, Radio.clockOut, zeros]
  rw [hx] at i1 i2
  have hpno : (t.w.radio t.d.rid).rxPNo = 7 := by unfold Radio.rxPNo; rw [he]
  have hfield : ((t.w.radio t.d.rid).status >>> 1) &&& 7 = 7 := by
    rw [status_field _ (by rw [hpno]; omega), hpno]
  unfold Rf24.read any
  simp only [exec_bind, exec_regRead, exec_getD, exec_pure, exec_ite, DrvState.spiStep, i1, List.getD_cons_succ,
    List.getD_cons_zero, List.headD_cons, rxPipeField, hfield, Nat.lt_irrefl, ↓reduceIte,
    (by decide : ¬ (7 : Nat) < 6)]
  refine ⟨trivial, ⟨?_, ?_, h.feat⟩, trivial, ?_, i5⟩
  · show t.d.rid < (t.w.spi t.d.rid [0x60, 0]).1.radios.length
    rw [i4]; exact h.wf
  · show ((t.w.spi t.d.rid [0x60, 0]).1.radio t.d.rid).rxMode = true
    rw [i2]; exact h.rx
  · show ((t.w.spi t.d.rid [0x60, 0]).1.radio t.d.rid).rxFifo = []
    rw [i2]; exact he

/-- one transaction of the driver on its receiving radio -/
theorem spiStep_rx (t : DrvState) (h : RxReady t) (out : Bytes) (hk : KeepsMode out) :
    (t.w.spi t.d.rid out).2 = ((t.w.radio t.d.rid).xfer out).2 ∧
    RxReady (t.spiStep out) ∧ (t.spiStep out).d.rid = t.d.rid ∧
    (t.spiStep out).w.radio t.d.rid = ((t.w.radio t.d.rid).xfer out).1 ∧
    (t.spiStep out).w.air = t.w.air ∧
    (t.spiStep out).d.status = (((t.w.radio t.d.rid).xfer out).2).headD t.d.status ∧
    (t.spiStep out).d.features = t.d.features := by
  obtain ⟨i1, i2, _, i4, i5⟩ := spi_rx t.w t.d.rid out h.wf hk h.rx
  refine ⟨i1, ⟨?_, ?_, h.feat⟩, rfl, i2, i5, ?_, rfl⟩
  · show t.d.rid < (t.w.spi t.d.rid out).1.radios.length
    rw [i4]; exact h.wf
  · show ((t.w.spi t.d.rid out).1.radio t.d.rid).rxMode = true
    rw [i2, rxMode_xfer hk]; exact h.rx
  · show ((t.w.spi t.d.rid out).2).headD t.d.status = _
    rw [i1]

theorem exec_regReadBytes (reg n : Nat) (s : DrvState) :
    exec (regReadBytes reg n) s = (.ok ((s.w.spi s.d.rid (reg :: zeros n)).2.drop 1), s.spiStep (reg :: zeros n)) := by
  unfold regReadBytes
  simp only [exec_bind, exec_xfer, exec_pure]
  rfl

/-- **`read()` with a payload at the head of the RX FIFO** (dynamic payloads): the payload is
    returned whole and removed; the radio keeps receiving; nothing is transmitted -/
theorem exec_read_head (t : DrvState) (h : RxReady t) (e : RxEntry) (rest : List RxEntry)
    (hf : (t.w.radio t.d.rid).rxFifo = e :: rest) (hp : e.pipe ≤ 5) (hl : 1 ≤ e.data.length) :
    (exec (Rf24.read none) t).1 = .ok (some e.data) ∧
    RxReady (exec (Rf24.read none) t).2 ∧
    (exec (Rf24.read none) t).2.d.rid = t.d.rid ∧
    ((exec (Rf24.read none) t).2.w.radio t.d.rid).rxFifo = rest ∧
    (exec (Rf24.read none) t).2.w.air = t.w.air := by
  -- R_RX_PL_WID
  obtain ⟨a1, a2, a3, a4, a5, a6, a7⟩ := spiStep_rx t h [0x60, 0] keeps_plWid
  have hx1 : (t.w.radio t.d.rid).xfer [0x60, 0] =
      (t.w.radio t.d.rid, [(t.w.radio t.d.rid).status, e.data.length]) := by
    have : Radio.decodeCmd 0x60 = .rRxPlWid := by decide
    simp [Radio.xfer, this, Radio.runCmd, hf, Radio.clockOut, zeros]
  rw [hx1] at a1 a4 a6
  have hpno : (t.w.radio t.d.rid).rxPNo = e.pipe := by unfold Radio.rxPNo; rw [hf]
  have hfield : ((t.w.radio t.d.rid).status >>> 1) &&& 7 = e.pipe := by
    rw [status_field _ (by rw [hpno]; omega), hpno]
  generalize ht1 : t.spiStep [0x60, 0] = t1 at a2 a3 a4 a5 a6 a7
  -- R_RX_PAYLOAD
  have hrid1 : t1.d.rid = t.d.rid := a3
  obtain ⟨b1, b2, b3, b4, b5, _, _⟩ := spiStep_rx t1 a2 (0x61 :: zeros e.data.length) (keeps_rxPayload _)
  have hf1 : (t1.w.radio t1.d.rid).rxFifo = e :: rest := by rw [hrid1, a4]; exact hf
  have hx2 : ((t1.w.radio t1.d.rid).xfer (0x61 :: zeros e.data.length)).1.rxFifo = rest ∧
      ((t1.w.radio t1.d.rid).xfer (0x61 :: zeros e.data.length)).2 =
        (t1.w.radio t1.d.rid).status :: e.data := by
    have : Radio.decodeCmd 0x61 = .rRxPayload := by decide
    simp only [Radio.xfer, this, Radio.runCmd, Radio.readPayload, hf1, zeros, List.length_replicate]
    rw [List.take_left' rfl]
    refine ⟨?_, ?_⟩ <;> first | rfl | trivial
  rw [hx2.2] at b1
  generalize ht2 : t1.spiStep (0x61 :: zeros e.data.length) = t2 at b2 b3 b4 b5
  have hrid2 : t2.d.rid = t.d.rid := b3.trans hrid1
  -- W_REGISTER STATUS
  obtain ⟨_, c2, c3, c4, c5, _, _⟩ := spiStep_rx t2 b2 [0x27, 64] (keeps_status _)
  have hx3 : ((t2.w.radio t2.d.rid).xfer [0x27, 64]).1.rxFifo = (t2.w.radio t2.d.rid).rxFifo := by
    have : Radio.decodeCmd 0x27 = .wRegister 7 := by decide
    simp [Radio.xfer, this, Radio.runCmd, Radio.writeReg]
  -- the call
  have hne : ¬ e.data.length = 0 := by omega
  have hlt : e.pipe < 6 := by omega
  have hcs : exec (clearStatusFlags true false false) t2 = (.ok (), t2.spiStep [0x27, 64]) := by
    unfold clearStatusFlags
    rw [exec_regWrite _ _ _ (by decide) (by decide)]
    rfl
  unfold Rf24.read any
  simp only [exec_bind, exec_regRead, exec_getD, exec_pure, ht1, a1, List.getD_cons_succ, List.getD_cons_zero,
    rxPipeField, a6, List.headD_cons, hfield, hlt, ↓reduceIte, a7, h.feat, ne_eq, not_false_eq_true, hne,
    exec_regReadBytes, ht2, b1, List.drop_succ_cons, List.drop_zero, hcs]
  refine ⟨trivial, c2, c3.trans hrid2, ?_, c5.trans (b5.trans a5)⟩
  rw [← hrid2, c4, hx3, b3, b4]
  exact hx2.1

/-! ### `_net_update()` on a received multicast frame (open system) -/

theorem modify_self (l : List Node) (i : Nat) (f : Node → Node) (h : ∀ n, l[i]? = some n → f n = n) :
    l.modify i f = l := by
  apply List.ext_getElem?
  intro j
  rw [List.getElem?_modify]
  by_cases hij : i = j
  · subst hij
    simp only [↓reduceIte]
    cases hg : l[i]? with
    | none => rfl
    | some n => simp [h n hg]
  · simp [hij]

/-- no scripted arrival pending: `deliverDue` does nothing -/
theorem nexec_deliverDue_none (s : NetState) (ha : (curNode s).arrivals = []) :
    nexec deliverDue s = (.ok (), s) := by
  unfold deliverDue
  simp only [nexec_bind, nexec_get, nexec_set]
  have ha' : (s.nodes.getD s.cur default).arrivals = [] := ha
  rw [ha']
  simp only [List.takeWhile_nil, List.foldl_nil, List.dropWhile_nil]
  congr 1
  have : s.nodes.modify s.cur (fun n => { n with arrivals := [] }) = s.nodes := by
    apply modify_self
    intro n hn
    have : s.nodes.getD s.cur default = n := by simp [List.getD_eq_getElem?_getD, hn]
    rw [this] at ha'
    cases n
    simp only at ha'
    subst ha'
    rfl
  rw [this]

/-- in the open system with nothing scripted, `rfRead` is the driver's `read()` -/
theorem nexec_rfRead_open (f : Nat) (s : NetState) (ho : s.closed = false) (ha : (curNode s).arrivals = []) :
    nexec (rfRead (f + 1)) s = nexec (liftRf (Rf24.read none)) s := by
  rw [rfRead.eq_2]
  simp only [nexec_bind, nexec_deliverDue_none s ha, nexec_get, ho, Bool.false_eq_true, ↓reduceIte, nexec_pure]

/-- the receiving node between calls, open system: it runs as an existing node on the call stack,
    nothing is scripted, its driver is `RxReady` -/
structure RxNode (s : NetState) : Prop where
  good : Good s
  open_ : s.closed = false
  quiet : (curNode s).arrivals = []
  drv : RxReady (drvOf s)

theorem rxNode_updCur {s : NetState} (h : RxNode s) (f : Node → Node)
    (hrf : ∀ n, (f n).rf = n.rf) (har : ∀ n, (f n).arrivals = n.arrivals) : RxNode (updCur s f) := by
  have hc := h.good.exists_
  have hd : drvOf (updCur s f) = drvOf s := by
    unfold drvOf; rw [curNode_updCur _ _ hc, hrf]; rfl
  exact ⟨⟨h.good.onStack, by rw [updCur_length]; exact hc⟩, h.open_,
    by rw [curNode_updCur _ _ hc, har]; exact h.quiet, by rw [hd]; exact h.drv⟩

/-- `enqueue` keeps the receiving node receiving and leaves the radio alone -/
theorem rxNode_enqueue {s : NetState} (h : RxNode s) :
    RxNode (nexec enqueueFrameBuf s).2 ∧ (nexec enqueueFrameBuf s).2.w = s.w ∧
    drvOf (nexec enqueueFrameBuf s).2 = drvOf s := by
  unfold enqueueFrameBuf
  simp only [nexec_bind, nexec_getNode, nexec_modNode]
  have hu := rxNode_updCur h (fun n => { n with
      queue := ((curNode s).queue.enqueue (curNode s).frameBuf).1,
      frameBuf := ((curNode s).queue.enqueue (curNode s).frameBuf).2.2 }) (fun _ => rfl) (fun _ => rfl)
  have hd : drvOf (updCur s (fun n => { n with
      queue := ((curNode s).queue.enqueue (curNode s).frameBuf).1,
      frameBuf := ((curNode s).queue.enqueue (curNode s).frameBuf).2.2 })) = drvOf s := by
    unfold drvOf; rw [curNode_updCur _ _ h.good.exists_]; rfl
  split
  · simp only [nexec_bind, nexec_takeId, nexec_pure]
    exact ⟨⟨⟨hu.good.onStack, hu.good.exists_⟩, hu.open_, hu.quiet, hu.drv⟩, rfl, hd⟩
  · simp only [nexec_pure]
    exact ⟨hu, rfl, hd⟩

/-- **C14, from the RX FIFO to the queue** (open system, relay off).  A listening node whose radio
    holds exactly one received payload — a frame for `0o100` from a valid address, not a poll to be
    answered — calls `_net_update()`: the frame is read, handed to `_handle_frame_for_other_node`,
    **queued once**; the FIFO is empty afterwards, nothing was transmitted; the call returns the
    frame's type (or NETWORK_EXT_DATA). -/
theorem netUpdate_multicast_once (f rv : Nat) (s : NetState) (h : RxNode s)
    (e : RxEntry) (hf : (s.w.radio (curNode s).rf.rid).rxFifo = [e]) (hp : e.pipe ≤ 5)
    (hl : 1 ≤ e.data.length)
    (hok : ((curNode s).frameBuf.unpack e.data).2 = true)
    (hto : ((curNode s).frameBuf.unpack e.data).1.header.toNode = NETWORK_MULTICAST_ADDR)
    (hfrom : isValid ((curNode s).frameBuf.unpack e.data).1.header.fromNode = true)
    (hself : (curNode s).a.addr ≠ NETWORK_MULTICAST_ADDR)
    (ham : (curNode s).cfg.allowMulticast = true) (hrel : (curNode s).relayEnabled = false)
    (hpoll : ¬ (((curNode s).frameBuf.unpack e.data).1.header.ty = NETWORK_POLL ∧
      (curNode s).a.addr ≠ NETWORK_DEFAULT_ADDR)) :
    (curNode (nexec (netUpdate (f + 4) rv) s).2).queue =
      ((curNode s).queue.enqueue ((curNode s).frameBuf.unpack e.data).1).1 ∧
    ((nexec (netUpdate (f + 4) rv) s).2.w.radio (curNode s).rf.rid).rxFifo = [] ∧
    (nexec (netUpdate (f + 4) rv) s).2.w.air = s.w.air ∧
    (∃ v, (nexec (netUpdate (f + 4) rv) s).1 = .ok v) := by
  have hc := h.good.exists_
  -- the read
  obtain ⟨r1, r2, r3, r4, r5⟩ := exec_read_head (drvOf s) h.drv e [] hf hp hl
  rw [netUpdate.eq_2, nexec_bind, nexec_rfRead_open _ _ h.open_ h.quiet, nexec_liftRf]
  rcases hrd : exec (Rf24.read none) (drvOf s) with ⟨res, t1⟩
  rw [hrd] at r1 r2 r3 r4 r5
  simp only at r1 r2 r3 r4 r5
  subst r1
  simp only
  generalize hs1 : putDrv s t1 = s1
  have hc1 : HasCur s1 := by rw [← hs1]; exact (hasCur_putDrv _ _).2 hc
  have hn1 : curNode s1 = { curNode s with rf := t1.d } := by rw [← hs1, curNode_putDrv _ _ hc]
  have hd1 : drvOf s1 = t1 := by rw [← hs1, drvOf_putDrv _ _ hc]
  have hrx1 : RxNode s1 := by
    refine ⟨⟨by rw [← hs1]; exact h.good.onStack, hc1⟩, by rw [← hs1]; exact h.open_, by rw [hn1]; exact h.quiet,
      by rw [hd1]; exact r2⟩
  simp only [nexec_bind, nexec_getNode, nexec_modNode]
  -- the frame
  have hfb : (curNode s1).frameBuf = (curNode s).frameBuf := by rw [hn1]
  rw [hfb]
  generalize hun : (curNode s).frameBuf.unpack e.data = un at hok hto hfrom hpoll
  obtain ⟨fb, ok⟩ := un
  simp only at hok hto hfrom hpoll
  subst hok
  have htov : isValid fb.header.toNode = true := by rw [hto]; decide
  simp only [Bool.not_true, htov, hfrom, Bool.or_self, Bool.false_eq_true, ↓reduceIte]
  generalize hs2 : updCur s1 (fun n => { n with frameBuf := fb }) = s2
  have hn2 : curNode s2 = { curNode s1 with frameBuf := fb } := by rw [← hs2, curNode_updCur _ _ hc1]
  have hrx2 : RxNode s2 := by rw [← hs2]; exact rxNode_updCur hrx1 _ (fun _ => rfl) (fun _ => rfl)
  have hne : ¬ (fb.header.toNode = (curNode s1).a.addr) := by
    rw [hto, hn1]; exact fun hx => hself hx.symm
  simp only [hne, ↓reduceIte]
  -- the handler
  have ham2 : (curNode s2).cfg.allowMulticast = true := by rw [hn2, hn1]; exact ham
  have hto2 : (curNode s2).frameBuf.header.toNode = NETWORK_MULTICAST_ADDR := by rw [hn2]; exact hto
  have hpoll2 : ¬ (fb.header.ty = NETWORK_POLL ∧ (curNode s2).a.addr ≠ NETWORK_DEFAULT_ADDR) := by
    rw [hn2, hn1]; exact hpoll
  have hrel2 : (curNode s2).relayEnabled = false := by rw [hn2, hn1]; exact hrel
  rw [show f + 3 = (f + 2) + 1 from rfl, nexec_bind, nexec_handleOther_multicast (f + 2) _ s2 ham2 hto2 hpoll2]
  simp only [nexec_bind, hrel2, Bool.false_eq_true, ↓reduceIte, nexec_pure, nexec_getNode]
  obtain ⟨e1, e2, e3⟩ := rxNode_enqueue hrx2
  have hq := (nexec_enqueueFrameBuf_node s2 hrx2.good.exists_).1
  have hqok := (nexec_enqueueFrameBuf_node s2 hrx2.good.exists_).2
  rcases hen : nexec enqueueFrameBuf s2 with ⟨re, s3⟩
  rw [hen] at e1 e2 e3 hq hqok
  simp only at e1 e2 e3 hq hqok
  rw [hqok]
  simp only
  have hq3 : (curNode s3).queue = ((curNode s).queue.enqueue fb).1 := by
    rw [hq, hn2, hn1]
  have hrid3 : (curNode s3).rf.rid = (curNode s).rf.rid := by
    have : (drvOf s3).d.rid = (drvOf s2).d.rid := by rw [e3]
    have h2 : (drvOf s2).d.rid = (curNode s).rf.rid := by
      show (curNode s2).rf.rid = _
      rw [hn2, hn1]; exact r3
    exact this.trans h2
  have hfifo3 : (s3.w.radio (curNode s).rf.rid).rxFifo = [] := by
    have hw2 : s2.w = s1.w := by rw [← hs2]; rfl
    have hw1 : s1.w = t1.w := by rw [← hs1]; rfl
    rw [e2, hw2, hw1]; exact r4
  have hair3 : s3.w.air = s.w.air := by
    have hw2 : s2.w = s1.w := by rw [← hs2]; rfl
    have hw1 : s1.w = t1.w := by rw [← hs1]; rfl
    rw [e2, hw2, hw1]; exact r5
  by_cases hext : (curNode s3).frameBuf.header.ty = NETWORK_EXT_DATA
  · simp only [hext, ↓reduceIte, Bool.not_false]
    exact ⟨hq3, hfifo3, hair3, ⟨_, rfl⟩⟩
  · simp only [hext, ↓reduceIte, Bool.not_true, Bool.false_eq_true]
    -- the second read: the FIFO is empty
    rw [show f + 3 = (f + 2) + 1 from rfl, netUpdate.eq_2, nexec_bind,
      nexec_rfRead_open _ _ e1.open_ e1.quiet, nexec_liftRf]
    have hfifo3' : ((drvOf s3).w.radio (drvOf s3).d.rid).rxFifo = [] := by
      show (s3.w.radio (curNode s3).rf.rid).rxFifo = []
      rw [hrid3]; exact hfifo3
    obtain ⟨q1, _, q3, q4, q5⟩ := exec_read_empty (drvOf s3) e1.drv hfifo3'
    rcases hrd2 : exec (Rf24.read none) (drvOf s3) with ⟨res2, t4⟩
    rw [hrd2] at q1 q3 q4 q5
    simp only at q1 q3 q4 q5
    subst q1
    simp only [nexec_pure]
    refine ⟨?_, ?_, ?_, ⟨_, rfl⟩⟩
    · rw [curNode_putDrv _ _ e1.good.exists_]; exact hq3
    · show (t4.w.radio (curNode s).rf.rid).rxFifo = []
      have : (drvOf s3).d.rid = (curNode s).rf.rid := hrid3
      rw [← this]; exact q4
    · show t4.w.air = s.w.air
      rw [q5]; exact hair3

end Nrf.Proofs.McastK
