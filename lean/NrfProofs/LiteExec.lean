/-
Symbolic execution of `LiteM` computations (the lite driver): `lexec m s = (result, final state)`,
the rewrite rules that push `lexec` through the monad operations, `LiteState.spiStep` and the
register-level Hoare lemmas for the lite SPI primitives (the lite analogues of `Exec.lean` /
`Hoare.lean`; the frame lemmas of `Frame.lean` are about `World` and are used as they are).
-/
import NrfProofs.Hoare
import NrfModel.Rf24Lite

namespace Nrf
open Lite

/-- run a lite-driver computation from state `s` -/
def lexec {α} (m : LiteM α) (s : LiteState) : Except PyErr α × LiteState := (m.run).run s

@[simp] theorem lexec_pure {α} (a : α) (s : LiteState) : lexec (pure a : LiteM α) s = (.ok a, s) := rfl

@[simp] theorem lexec_bind {α β} (x : LiteM α) (f : α → LiteM β) (s : LiteState) :
    lexec (x >>= f) s =
      match lexec x s with
      | (.ok a, s') => lexec (f a) s'
      | (.error e, s') => (.error e, s') := by
  unfold lexec
  simp only [ExceptT.run_bind]
  show (x.run >>= _).run s = _
  rw [StateT.run_bind]
  show (match x.run.run s with | (a, s') => _) = _
  rcases h : x.run.run s with ⟨r, s'⟩
  cases r <;> rfl

@[simp] theorem lexec_throw {α} (e : PyErr) (s : LiteState) : lexec (throw e : LiteM α) s = (.error e, s) := rfl
@[simp] theorem lexec_raise {α} (e : PyErr) (s : LiteState) : lexec (Lite.raise e : LiteM α) s = (.error e, s) := rfl
@[simp] theorem lexec_get (s : LiteState) : lexec (get : LiteM LiteState) s = (.ok s, s) := rfl
@[simp] theorem lexec_getD (s : LiteState) : lexec Lite.getD s = (.ok s.d, s) := rfl
@[simp] theorem lexec_set (s' s : LiteState) : lexec (set s' : LiteM Unit) s = (.ok (), s') := rfl
@[simp] theorem lexec_modify (f : LiteState → LiteState) (s : LiteState) :
    lexec (modify f : LiteM Unit) s = (.ok (), f s) := rfl
@[simp] theorem lexec_modD (f : Lite → Lite) (s : LiteState) :
    lexec (Lite.modD f) s = (.ok (), { s with d := f s.d }) := rfl

@[simp] theorem lexec_ite {α} (c : Prop) [Decidable c] (a b : LiteM α) (s : LiteState) :
    lexec (if c then a else b) s = if c then lexec a s else lexec b s := by
  split <;> rfl

@[simp] theorem lexec_map {α β} (f : α → β) (x : LiteM α) (s : LiteState) :
    lexec (f <$> x) s =
      match lexec x s with
      | (.ok a, s') => (.ok (f a), s')
      | (.error e, s') => (.error e, s') := by
  rw [← bind_pure_comp, lexec_bind]
  rcases lexec x s with ⟨r, s'⟩
  cases r <;> rfl

/-- the state after one SPI transaction of the lite driver: `_status` is refreshed, the world moves on -/
def LiteState.spiStep (s : LiteState) (out : Bytes) : LiteState :=
  { d := { s.d with status := (s.w.spi s.d.rid out).2.headD s.d.status },
    w := (s.w.spi s.d.rid out).1 }

/-- the state after the driver drives its CE pin -/
def LiteState.ceStep (s : LiteState) (v : Bool) : LiteState := { s with w := s.w.setCE s.d.rid v }

/-- the state after `time.sleep` -/
def LiteState.sleepStep (s : LiteState) (n : Nat) : LiteState := { s with w := s.w.sleep n }

/-- data byte returned by an SPI register read in state `s` -/
def LiteState.readVal (s : LiteState) (reg : Nat) : Nat := (s.w.spi s.d.rid [reg, 0]).2.getD 1 0

@[simp] theorem lexec_setCE (v : Bool) (s : LiteState) : lexec (Lite.setCE v) s = (.ok (), s.ceStep v) := rfl
@[simp] theorem lexec_sleepNs (n : Nat) (s : LiteState) : lexec (Lite.sleepNs n) s = (.ok (), s.sleepStep n) := rfl
@[simp] theorem lexec_getCE (s : LiteState) : lexec Lite.getCE s = (.ok (s.w.radio s.d.rid).ce, s) := rfl

/-- one SPI transaction -/
theorem lexec_xfer (out : Bytes) (s : LiteState) :
    lexec (Lite.xfer out) s = (.ok (s.w.spi s.d.rid out).2, s.spiStep out) := rfl

/-- `_reg_write(reg, v)` for an in-range byte -/
theorem lexec_regWrite (reg : Nat) (v : Int) (s : LiteState) (hv : 0 ≤ v ∧ v ≤ 255) (hr : reg ≠ 0x50) :
    lexec (Lite.regWrite reg v) s = (.ok (), s.spiStep [0x20 ||| reg, v.toNat]) := by
  unfold Lite.regWrite
  have h : ¬ (v < 0 ∨ v > 255) := by omega
  simp only [lexec_bind, h, ↓reduceIte, lexec_pure, lexec_xfer, hr, ne_eq, not_false_eq_true]

/-- `_reg_write(reg, n)` for a natural number below 256 -/
theorem lexec_regWriteNat (reg n : Nat) (s : LiteState) (hn : n ≤ 255) (hr : reg ≠ 0x50) :
    lexec (Lite.regWrite reg (n : Int)) s = (.ok (), s.spiStep [0x20 ||| reg, n]) := by
  rw [lexec_regWrite reg n s (by omega) hr]
  simp

/-- `bytes([reg, v])` with `v` outside a byte raises before any SPI traffic -/
theorem lexec_regWrite_bad (reg : Nat) (v : Int) (s : LiteState) (hv : v < 0 ∨ v > 255) :
    lexec (Lite.regWrite reg v) s = (.error .valueError, s) := by
  unfold Lite.regWrite
  simp only [lexec_bind, hv, ↓reduceIte, lexec_raise]

theorem lexec_regCmd (c : Nat) (s : LiteState) : lexec (Lite.regCmd c) s = (.ok (), s.spiStep [c]) := by
  unfold Lite.regCmd
  simp only [lexec_bind, lexec_xfer, lexec_pure]

theorem lexec_regRead (reg : Nat) (s : LiteState) :
    lexec (Lite.regRead reg) s = (.ok (s.readVal reg), s.spiStep [reg, 0]) := by
  unfold Lite.regRead
  simp only [lexec_bind, lexec_xfer, lexec_pure]
  rfl

theorem lexec_regReadBytes (reg n : Nat) (s : LiteState) :
    lexec (Lite.regReadBytes reg n) s =
      (.ok ((s.w.spi s.d.rid (reg :: zeros n)).2.drop 1), s.spiStep (reg :: zeros n)) := by
  unfold Lite.regReadBytes
  simp only [lexec_bind, lexec_xfer, lexec_pure]

theorem lexec_regWriteBytes (reg : Nat) (b : Bytes) (s : LiteState) :
    lexec (Lite.regWriteBytes reg b) s = (.ok (), s.spiStep ((0x20 ||| reg) :: b)) := by
  unfold Lite.regWriteBytes
  simp only [lexec_bind, lexec_xfer, lexec_pure]

/-- configuration part of the radio driven by the object -/
def LiteState.cfg (s : LiteState) : Radio := (s.w.radio s.d.rid).cfgOf
/-- configuration part of radio `j` -/
def LiteState.cfgAt (s : LiteState) (j : Nat) : Radio := (s.w.radio j).cfgOf
/-- the driver object's radio exists -/
def LiteState.Wf (s : LiteState) : Prop := s.d.rid < s.w.radios.length

@[simp] theorem LiteState.spiStep_rid (s : LiteState) (out : Bytes) : (s.spiStep out).d.rid = s.d.rid := rfl
@[simp] theorem LiteState.ceStep_d (s : LiteState) (v : Bool) : (s.ceStep v).d = s.d := rfl
@[simp] theorem LiteState.sleepStep_d (s : LiteState) (n : Nat) : (s.sleepStep n).d = s.d := rfl
@[simp] theorem LiteState.spiStep_p0r (s : LiteState) (out : Bytes) :
    (s.spiStep out).d.pipe0ReadAddr = s.d.pipe0ReadAddr := rfl

@[simp] theorem LiteState.spiStep_wf (s : LiteState) (out : Bytes) : (s.spiStep out).Wf ↔ s.Wf := by
  unfold LiteState.Wf LiteState.spiStep
  simp only [World.spi_length]

@[simp] theorem LiteState.ceStep_wf (s : LiteState) (v : Bool) : (s.ceStep v).Wf ↔ s.Wf := by
  unfold LiteState.Wf LiteState.ceStep
  simp only [World.setCE_length]

@[simp] theorem LiteState.sleepStep_wf (s : LiteState) (n : Nat) : (s.sleepStep n).Wf ↔ s.Wf := Iff.rfl

@[simp] theorem LiteState.sleepStep_cfg (s : LiteState) (n : Nat) : (s.sleepStep n).cfg = s.cfg := rfl
@[simp] theorem LiteState.sleepStep_cfgAt (s : LiteState) (n j : Nat) : (s.sleepStep n).cfgAt j = s.cfgAt j := rfl

/-- the configuration part after an SPI transaction: the command applied to the configuration
    part before it — whatever is in the FIFOs, on the air or in the fault list -/
theorem LiteState.spiStep_cfg (s : LiteState) (out : Bytes) (hw : s.Wf) :
    (s.spiStep out).cfg = (s.cfg.xfer out).1.cfgOf := by
  unfold LiteState.cfg LiteState.spiStep
  simp only
  rw [World.spi_cfgOf _ _ _ hw]
  simp

theorem LiteState.spiStep_cfgAt (s : LiteState) (out : Bytes) (hw : s.Wf) (j : Nat) (hj : j ≠ s.d.rid) :
    (s.spiStep out).cfgAt j = s.cfgAt j := by
  unfold LiteState.cfgAt LiteState.spiStep
  simp only
  rw [World.spi_cfgOf _ _ _ hw]
  simp [hj]

theorem LiteState.ceStep_cfg (s : LiteState) (v : Bool) (hw : s.Wf) :
    (s.ceStep v).cfg = { s.cfg with ce := v } := by
  unfold LiteState.cfg LiteState.ceStep
  simp only
  rw [World.setCE_cfgOf _ _ _ hw]
  simp

theorem LiteState.ceStep_cfgAt (s : LiteState) (v : Bool) (hw : s.Wf) (j : Nat) (hj : j ≠ s.d.rid) :
    (s.ceStep v).cfgAt j = s.cfgAt j := by
  unfold LiteState.cfgAt LiteState.ceStep
  simp only
  rw [World.setCE_cfgOf _ _ _ hw]
  simp [hj]

/-- the byte an SPI read of a configuration register returns is that register of the
    configuration part -/
theorem LiteState.readVal_cfg (s : LiteState) (reg : Nat) (hr : reg < 0x20)
    (hc : reg ≠ 7 ∧ reg ≠ 8 ∧ reg ≠ 9 ∧ reg ≠ 0x17) :
    s.readVal reg = (s.cfg.readReg reg).headD 0 :=
  spi_read_cfg s.w s.d.rid reg hr hc

/-- a register read leaves the configuration part alone -/
theorem LiteState.spiStep_read_cfg (s : LiteState) (reg : Nat) (d : Bytes) (hw : s.Wf) (hr : reg < 0x20) :
    (s.spiStep (reg :: d)).cfg = s.cfg := by
  rw [LiteState.spiStep_cfg _ _ hw, xfer_rreg_cfg _ _ _ hr]
  exact Radio.cfgOf_cfgOf _

/-- a one-byte register write, on the configuration part -/
theorem LiteState.spiStep_write_cfg (s : LiteState) (reg v : Nat) (hw : s.Wf) (hr : reg < 0x20) :
    (s.spiStep [0x20 ||| reg, v]).cfg = (s.cfg.writeReg reg [v]).cfgOf := by
  rw [LiteState.spiStep_cfg _ _ hw, xfer_wreg_cfg _ _ _ hr]

end Nrf
