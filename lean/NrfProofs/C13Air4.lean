/-
C13, the air log: the route induction of NrfProofs/C13HopsRoute.lean once more, with the air clause `AirA`
(NrfProofs/C13Air1.lean) added to the outcome: the run of the router `n` hops from the destination appends
exactly the transmissions `ackPlan` lists from its position on.  The proofs are those of the original
lemmas with the air bookkeeping added.
-/
import NrfProofs.C13Air2
import NrfProofs.C13Air3

namespace Nrf.Net.Air
open Nrf Nrf.Spec Nrf.Proofs Nrf.Props.C04 Nrf.Net.Hops

/-- **The last router** (`router_ack_any`) in the terms of the induction. -/
theorem route_ack_base_air (hc : L3Contracts) (hair : AirContracts) (cfg : AddrCfg) (hcfg : CfgOk cfg) (L : LinkCfg) (tree : Nat → List Nat)
    (fr : Frame) (pk pkA : Bytes) (t : Nat) (o d : List Nat) (T : AckTransitS fr pk t o d)
    (hpkA : (ackOf fr).pack = .ok pkA) (hndef : ∀ i, val (tree i) ≠ NETWORK_DEFAULT_ADDR)
    (s : NetState) (f b : Nat) (H : HoldingA cfg L tree o d fr pk pkA t 1 b s)
    (hf : 2 * (s.nodes.length + 16) ≤ f) :
    ∃ s', nexec (nodeUpdate f) s = (.ok 0, s') ∧ ArrivedA cfg L tree d fr pkA b s s' ∧
      AirA tree o d pk pkA 1 s s' := by
  have hdist := H.dist_cur
  obtain ⟨hok, hcur, hact, ⟨m, hm1, hmn, hm⟩, hahead, ⟨hb, htb, hbact⟩, ⟨p, hp, hfifo⟩, hempty, hnodup, hacc, hsys⟩ := H
  obtain ⟨jd, hjd, htjd, hjda, hjdl⟩ := hahead 1 (by omega) (by omega)
  have hyd : tree s.cur ≠ d := by
    intro e; rw [e, dist_self] at hdist; omega
  have hy2 : nextHopSpec (tree s.cur) d = d := by
    have h1 := dist_nextHop hyd
    exact dist_eq_zero (by omega)
  have htjd' : tree jd = d := by rw [htjd]; exact hy2
  have hoy : o ≠ tree s.cur := by
    rw [hm]; exact fun e => hops_ne_start (o := o) (d := d) hm1 (by omega) e.symm
  -- the node before: position `m - 1`
  obtain ⟨m', rfl⟩ : ∃ m', m = m' + 1 := ⟨m - 1, by omega⟩
  have hbackm : nextHopSpec (tree s.cur) o = hops m' o d := by
    rw [hm]; exact nextHop_back_route (by omega)
  have hxad : nextHopSpec (tree s.cur) o ≠ d := by
    rw [hbackm]; exact hops_ne_before (by omega)
  obtain ⟨g, rfl⟩ : ∃ g, f = g + 11 + jd := ⟨f - 11 - jd, by omega⟩
  obtain ⟨s', e, ok', c', a', same', fifoa, fifoo, q', keep', ⟨r1, r2, airE, hr1, hr2⟩⟩ := router_ack_any_air hc hair cfg hcfg L tree fr pk pkA t o
    (tree s.cur) d (nextHopSpec (tree s.cur) o) T hpkA hndef s s.cur b jd g hok rfl hcur hb hjd rfl htb htjd' rfl hy2
    hoy hyd hxad hjda hact hbact p hp hfifo hempty hjdl (hnodup b hb hbact) (hacc jd hjd htjd') (hsys jd hjd htjd')
    (by omega)
  refine ⟨s', e, ⟨ok', c', a', same', ⟨_, fifoa⟩, fifoo, ?_, keep'⟩, ?_⟩
  · intro k hk
    rw [q' k hk]
    by_cases hkj : k = jd
    · subst hkj; rw [if_pos rfl, if_pos htjd']
    · rw [if_neg hkj, if_neg (fun e => (hok.inj k jd hk hjd hkj).1 (e.trans htjd'.symm))]
  · refine ⟨[r1, r2], airE, ?_⟩
    have hm0 : dist o d - 1 = m' + 1 := by omega
    rw [hm0]
    have hsb : ∀ (rr : AirRec) (dat : Bytes), OneBy (s.ridAt s.cur) dat rr →
        SentBy tree s rr (hops (m' + 1) o d, dat) :=
      fun rr dat h => ⟨s.cur, hcur, hm, h.1, h.2.1, h.2.2.1, h.2.2.2⟩
    show Forall2 _ _ [(hops (m' + 1) o d, pk), (hops (m' + 1) o d, pkA)]
    exact .cons (hsb _ _ hr1) (.cons (hsb _ _ hr2) .nil)

/-- **A router in the middle of the route**: forwards the frame, lets its successor run (induction
    hypothesis) inside its second `read()`, finds the NETWORK_ACK in its own RX FIFO, relays it to
    its predecessor, reads nothing more, returns. -/
theorem route_ack_step_air (hc : L3Contracts) (hair : AirContracts) (cfg : AddrCfg) (hcfg : CfgOk cfg) (L : LinkCfg) (tree : Nat → List Nat)
    (fr : Frame) (pk pkA : Bytes) (t : Nat) (o d : List Nat) (T : AckTransitS fr pk t o d)
    (hpkA : (ackOf fr).pack = .ok pkA) (hndef : ∀ i, val (tree i) ≠ NETWORK_DEFAULT_ADDR) (n : Nat)
    (IH : ∀ (s : NetState) (f b : Nat), HoldingA cfg L tree o d fr pk pkA t (n + 1) b s →
      (n + 2) * (s.nodes.length + 16) ≤ f →
      ∃ s', nexec (nodeUpdate f) s = (.ok 0, s') ∧ ArrivedA cfg L tree d fr pkA b s s' ∧
        AirA tree o d pk pkA (n + 1) s s')
    (s : NetState) (f b : Nat) (H : HoldingA cfg L tree o d fr pk pkA t (n + 2) b s)
    (hf : (n + 3) * (s.nodes.length + 16) ≤ f) :
    ∃ s', nexec (nodeUpdate f) s = (.ok 0, s') ∧ ArrivedA cfg L tree d fr pkA b s s' ∧
      AirA tree o d pk pkA (n + 2) s s' := by
  have hdist := H.dist_cur
  obtain ⟨hok, hcur, hact, ⟨m, hm1, hmn, hm⟩, hahead, ⟨hb, htb, hbact⟩, ⟨p, hp, hfifo⟩, hempty, hnodup, hacc, hsys⟩ := H
  generalize hi : s.cur = i at *
  generalize hx : tree i = x at *
  have R : Relay fr pk t o d := ackTransit_relay T
  have RA : Relay (ackOf fr) pkA NETWORK_ACK o o := ackTransit_ackRelay T hpkA
  have hpkne : pk ≠ pkA := fun e => pack_ackOf_ne T.wire T.ty T.ack.2 T.pack hpkA e.symm
  obtain ⟨hn1, hn2, hn3, hn4, hn5, hn6⟩ := hok.node i hcur
  rw [hx] at hn1 hn2
  have hxd : x ≠ d := by
    intro e; rw [e, dist_self] at hdist; omega
  have hxo : x ≠ o := by
    rw [hm]; exact hops_ne_start hm1 (by omega)
  -- the next hop
  obtain ⟨j, hj, htj, hja, hjl⟩ := hahead 1 (by omega) (by omega)
  have hy : hops 1 x d = nextHopSpec x d := rfl
  rw [hy] at htj
  have hji : j ≠ i := by
    intro e; rw [e, hx] at htj; exact nextHop_ne_self hxd htj.symm
  have hdisty : dist (nextHopSpec x d) d = n + 1 := by have := dist_nextHop hxd; omega
  have hnotlast : nextHopSpec x d ≠ d := by
    intro e; rw [e, dist_self] at hdisty; omega
  have hbi : b ≠ i := by
    intro e; rw [e, hx] at htb; exact nextHop_ne_self hxo htb.symm
  have hbj : b ≠ j := fun e => hja (e ▸ hbact)
  -- fuel
  have hprod : (n + 3) * (s.nodes.length + 16) = (n + 2) * (s.nodes.length + 16) + (s.nodes.length + 16) :=
    Nat.succ_mul (n + 2) _
  have hge : s.nodes.length + 16 ≤ (n + 2) * (s.nodes.length + 16) := Nat.le_mul_of_pos_left _ (by omega)
  obtain ⟨g, rfl⟩ : ∃ g, f = g + 6 + j := ⟨f - 6 - j, by omega⟩
  have hgIH : (n + 2) * (s.nodes.length + 16) ≤ g + 1 := by omega
  have hq : Quiet s := fun k hk hkc _ => hempty k hk (by rw [hi] at hkc; exact hkc)
  have hpkl := R.pkLen
  have hpkAl := RA.pkLen
  -- 1. the first read: the frame
  obtain ⟨s1, e1, ok1, c1, a1, same1, x1, lr1, rad1, q1, nd1, air1⟩ := read_ok_air hc hair s i (g + 3 + j) hok hi hcur hq (by omega)
    (by
      intro e he
      rw [hfifo] at he
      simp only [List.mem_singleton] at he
      subst he
      exact hpkl)
  rw [hfifo] at e1 x1
  simp only [List.head?_cons, Option.map_some, List.tail_cons] at e1 x1
  have l1 : s1.nodes.length = s.nodes.length := same1.len
  have hfifo1 : ∀ k, k < s.nodes.length → (s1.radioAt k).rxFifo = [] := by
    intro k hk
    by_cases hki : k = i
    · subst hki; exact x1
    · rw [rad1 k hk hki]; exact hempty k hk hki
  -- 2. the frame is forwarded
  obtain ⟨s3, pid, A, e3, ok3, c3, a3, same3, rj3, x3, lr3, rad3, q3, nd3, ⟨rc3, air3, hrc3⟩⟩ := relay_step_air hc hair cfg hcfg L tree fr pk t o d R
    hndef s s1 i j (g + 1 + j) 0 (by rw [show g + 1 + j + 3 = g + 3 + j + 1 from by omega]; exact e1) ok1 c1
    (by rw [l1]; exact hcur) (by rw [hx]; exact hxd) (by rw [l1]; exact hj) (by rw [hx]; exact htj)
    (Or.inr (by rw [hx]; exact hnotlast))
    (fun k hk _ _ => hfifo1 k (by rw [← l1]; exact hk)) (hfifo1 j hj)
    (by rw [rad1 j hj hji]; exact hjl)
    (by rw [l1]; omega)
  rw [hx] at rj3
  rw [l1] at rad3
  have l3 : s3.nodes.length = s.nodes.length := by rw [same3.len, l1]
  have hp5 : hopPipe x d ≤ 5 := (C04_listens cfg hcfg x d hn1 T.hd hxd TX_ROUTED (Or.inr rfl)).2.1
  have hrad3 : ∀ k, k < s.nodes.length → k ≠ i → k ≠ j → s3.radioAt k = s.radioAt k := by
    intro k hk hki hkj
    rw [rad3 k hk hki hkj, rad1 k hk hki]
  have hq3 : ∀ k, (s3.nodeAt k).queue = (s.nodeAt k).queue := by intro k; rw [q3, q1]
  -- 3. the next node's turn
  generalize hsj : s3.switchTo j = sj
  have hsjc : sj.cur = j := by rw [← hsj]; rfl
  have hsja : sj.active = j :: s.active := by rw [← hsj]; show j :: s3.active = _; rw [a3, a1]
  have hsjl : sj.nodes.length = s.nodes.length := by rw [← hsj, (Same.switchTo s3 j).len, l3]
  have hsjrad : ∀ k, sj.radioAt k = s3.radioAt k := by intro k; rw [← hsj]; exact radioAt_switchTo s3 j k
  have hsjq : ∀ k, (sj.nodeAt k).queue = (s.nodeAt k).queue := by
    intro k; rw [← hsj, queue_switchTo, hq3]
  have hmlt : m < dist o d := by omega
  have Hj : HoldingA cfg L tree o d fr pk pkA t (n + 1) i sj := by
    refine ⟨by rw [← hsj]; exact netOk_switchTo ok3 j, by rw [hsjc, hsjl]; exact hj,
      by rw [hsjc, hsja]; exact List.mem_cons_self, ⟨m + 1, by omega, by omega, ?_⟩, ?_, ⟨by rw [hsjl]; exact hcur, ?_, ?_⟩,
      ⟨hopPipe x d, hp5, by rw [hsjc, hsjrad, rj3]; rfl⟩, ?_, ?_, ?_, ?_⟩
    · rw [hsjc, htj, hops_succ, ← hm]
    · intro k hk1 hkn
      obtain ⟨j', hj', htj', hja', hjl'⟩ := hahead (k + 1) (by omega) (by omega)
      have hj'j : j' ≠ j := by
        intro e
        rw [e, htj] at htj'
        exact hops_ne_origin (s := nextHopSpec x d) (d := d) (n := k) (by omega) (by omega) htj'.symm
      have hj'i : j' ≠ i := by
        intro e
        rw [e, hx] at htj'
        exact hops_ne_origin (s := x) (d := d) (n := k + 1) (by omega) (by omega) htj'.symm
      refine ⟨j', by rw [hsjl]; exact hj', by rw [hsjc, htj]; exact htj', ?_, ?_⟩
      · rw [hsja]; simp only [List.mem_cons, not_or]; exact ⟨hj'j, hja'⟩
      · rw [hsjrad, hrad3 j' hj' hj'i hj'j]; exact hjl'
    · rw [hsjc, htj, hx, hm, ← hops_succ]
      exact (nextHop_back_route hmlt).symm
    · rw [hsja]; exact List.mem_cons_of_mem _ hact
    · intro k hk hkj
      rw [hsjl] at hk; rw [hsjc] at hkj
      rw [hsjrad]
      by_cases hki : k = i
      · subst hki; rw [x3]; exact x1
      · rw [hrad3 k hk hki hkj]; exact hempty k hk hki
    · intro k hk hka l hl
      rw [hsjl] at hk
      rw [hsja] at hka
      rw [hsjrad] at hl
      by_cases hkj : k = j
      · subst hkj
        rw [rj3] at hl
        have : l = { pid := pid, addr := A, data := pk } := (Option.some.inj hl).symm
        rw [this]; exact hpkne
      · have hka' : k ∈ s.active := by
          rcases List.mem_cons.mp hka with h | h
          · exact absurd h hkj
          · exact h
        by_cases hki : k = i
        · subst hki
          rw [lr3, lr1] at hl
          exact hnodup k hk hka' l hl
        · rw [hrad3 k hk hki hkj] at hl
          exact hnodup k hk hka' l hl
    · intro k hk htk
      rw [hsjl] at hk
      rw [hsjq]; exact hacc k hk htk
    · intro k hk htk
      rw [hsjl] at hk
      have hki : k ≠ i := fun e => hxd (by rw [← hx, ← e]; exact htk)
      rw [← hsj, nodeAt_switchTo_ne s3 j k (by rw [c3]; exact hki), nd3 k hki, nd1 k hki]
      exact hsys k hk htk
  obtain ⟨sj', ej, ⟨Aok, Acur, Aact, Asame, ⟨qA, Afifob⟩, Afifo, Aqueue, Akeep⟩, ⟨newj, airj, hnewj⟩⟩ := IH sj (g + 1) i Hj (by rw [hsjl]; exact hgIH)
  rw [hsjl] at Afifo Aqueue Akeep
  rw [hsjc] at Akeep
  -- 4. the second read: the next node runs, then the acknowledgement is there
  obtain ⟨s6, e6, ok6, c6, a6, same6, x6, lr6, rad6, q6, air6⟩ := read_nested_air hc hair s3 sj' i j (g + 1) 0 ok3 c3
    (by rw [l3]; exact hcur) (by rw [l3]; exact hj) hji (by rw [a3, a1]; exact hja)
    (by rw [rj3]; rfl)
    (by
      intro k hk hki hkj _
      rw [l3] at hk
      rw [hrad3 k hk hki hkj]; exact hempty k hk hki)
    (by rw [hsj]; exact ej) Aok (by rw [Aact, hsja, a3, a1]) (by rw [hsj]; exact Asame)
    (by
      intro k hk hki _
      rw [l3] at hk
      exact Afifo k hk hki)
    (by rw [l3]; omega)
    (by
      intro e he
      rw [Afifob] at he
      simp only [List.mem_singleton] at he
      subst he
      exact hpkAl)
  rw [Afifob] at e6 x6
  simp only [List.head?_cons, Option.map_some, List.tail_cons] at e6 x6
  rw [l3] at rad6
  have l6 : s6.nodes.length = s.nodes.length := by rw [same6.len, l3]
  have hfifo6 : ∀ k, k < s.nodes.length → (s6.radioAt k).rxFifo = [] := by
    intro k hk
    by_cases hki : k = i
    · subst hki; exact x6
    · rw [rad6 k hk hki]; exact Afifo k hk hki
  have hradb6 : s6.radioAt b = s.radioAt b := by
    rw [rad6 b hb hbi, Akeep b hb (by rw [hsja]; exact List.mem_cons_of_mem _ hbact) hbj hbi, hsjrad,
      hrad3 b hb hbi hbj]
  -- 5. the acknowledgement is relayed
  have hqA5 : hopPipe x o ≤ 5 := (C04_listens cfg hcfg x o hn1 T.hx hxo TX_ROUTED (Or.inr rfl)).2.1
  obtain ⟨s8, pidA, AA, e8, ok8, c8, a8, same8, rb8, x8, lr8, rad8, q8, _, ⟨rc8, air8, hrc8⟩⟩ := relay_step_air hc hair cfg hcfg L tree (ackOf fr) pkA
    NETWORK_ACK o o RA hndef s3 s6 i b (g + j) 0
    (by rw [show g + j + 3 = g + 1 + 2 + j from by omega]; exact e6) ok6 c6
    (by rw [l6]; exact hcur) (by rw [hx]; exact hxo) (by rw [l6]; exact hb) (by rw [hx]; exact htb)
    (Or.inl (by unfold NETWORK_ACK; omega))
    (fun k hk _ _ => hfifo6 k (by rw [← l6]; exact hk)) (hfifo6 b hb)
    (by
      intro l hl
      rw [hradb6] at hl
      exact hnodup b hb hbact l hl)
    (by rw [l6]; omega)
  rw [hx] at rb8
  rw [l6] at rad8
  have l8 : s8.nodes.length = s.nodes.length := by rw [same8.len, l6]
  -- 6. the third read: nothing
  have hq8 : Quiet s8 := by
    intro k hk hkc hka
    rw [l8] at hk; rw [c8] at hkc; rw [a8, a6, a3, a1] at hka
    have hkb : k ≠ b := fun e => hka (e ▸ hbact)
    rw [rad8 k hk hkc hkb]; exact hfifo6 k hk
  have hx8 : (s8.radioAt i).rxFifo = [] := by rw [x8]; exact x6
  obtain ⟨s9, e9, ok9, c9, a9, same9, x9, lr9, rad9, q9, _, air9⟩ := read_ok_air hc hair s8 i (g + 1 + j) ok8 c8 (by rw [l8]; exact hcur)
    hq8 (by rw [l8]; omega) (by rw [hx8]; intro e he; cases he)
  rw [hx8] at e9 x9
  simp only [List.head?_nil, Option.map_none, List.tail_nil] at e9 x9
  rw [l8] at rad9
  -- the computation
  have hnu : nexec (netUpdate (g + 5 + j) 0) s = (.ok 0, s9) := by
    rw [show g + 5 + j = (g + 1 + j) + 4 from by omega, e3, show g + 1 + j + 3 = (g + j) + 4 from by omega, e8,
      show g + j + 3 = (g + 2 + j) + 1 from by omega, netUpdate_step,
      show g + 2 + j = (g + 1 + j) + 1 from by omega, e9]
  have l9 : s9.nodes.length = s.nodes.length := by rw [same9.len, l8]
  refine ⟨s9, ?_, ⟨ok9, by rw [c9, hi], by rw [a9, a8, a6, a3, a1],
    (((same1.trans same3).trans same6).trans same8).trans same9, ⟨hopPipe x o, ?_⟩, ?_, ?_, ?_⟩, ?_⟩
  · rw [show g + 6 + j = (g + 5 + j) + 1 from by omega]
    refine nodeUpdate_plain (g + 5 + j) s s9 0 hnu ?_
    have := (ok9.node i (by rw [l9]; exact hcur)).2.2.2.2.1
    rw [← c9] at this
    exact this
  · rw [rad9 b hb hbi, rb8]; rfl
  · intro k hk hkb
    by_cases hki : k = i
    · subst hki; exact x9
    · rw [rad9 k hk hki, rad8 k hk hki hkb]; exact hfifo6 k hk
  · intro k hk
    rw [q9, q8, q6, Aqueue k hk, hsjq]
  · intro k hk hka hki hkb
    rw [hi] at hki
    have hkj : k ≠ j := fun e => hja (e ▸ hka)
    rw [rad9 k hk hki, rad8 k hk hki hkb, rad6 k hk hki,
      Akeep k hk (by rw [hsja]; exact List.mem_cons_of_mem _ hka) hkj hki, hsjrad, hrad3 k hk hki hkj]
  · have hsjs : Same s sj := by rw [← hsj]; exact (same1.trans same3).trans (Same.switchTo s3 j)
    have hsjair : sj.w.air = s3.w.air := by rw [← hsj]; rfl
    refine ⟨rc3 :: (newj ++ [rc8]), ?_, ?_⟩
    · rw [air9, air8, air6, airj, hsjair, air3, air1]; simp
    · have hm2 : dist o d - (n + 2) = m := by omega
      have hm1' : dist o d - (n + 1) = m + 1 := by omega
      rw [hm2]; rw [hm1'] at hnewj
      have hsb : ∀ (rr : AirRec) (dat : Bytes) (s0 : NetState), Same s s0 → OneBy (s0.ridAt i) dat rr →
          SentBy tree s rr (hops m o d, dat) := by
        intro rr dat s0 h0 h
        exact ⟨i, hcur, hx.trans hm, h.1.trans (h0.stat i).2.2.2.2, h.2.1, h.2.2.1, h.2.2.2⟩
      show Forall2 _ _ ((hops m o d, pk) :: (ackPlan o d pk pkA (m + 1) (n + 1) ++ [(hops m o d, pkA)]))
      exact .cons (hsb _ _ s1 same1 hrc3) (((forall2_sentBy_of_same hsjs).2 hnewj).append
        (.cons (hsb _ _ s6 ((same1.trans same3).trans same6) hrc8) .nil))

/-- **The acknowledged journey**: whichever router holds the frame `n + 1` hops from its destination —
    the rest of the route present, idle, not having `pk` as the packet accepted last; the node before it
    suspended on the call stack — its `update()` brings the frame to the destination's queue,
    exactly once, and the NETWORK_ACK of the last router back into the RX FIFO of the node before it;
    the network listens and is otherwise quiet.  Induction over the remaining distance. -/
theorem route_ack_all_air (hc : L3Contracts) (hair : AirContracts) (cfg : AddrCfg) (hcfg : CfgOk cfg) (L : LinkCfg) (tree : Nat → List Nat)
    (fr : Frame) (pk pkA : Bytes) (t : Nat) (o d : List Nat) (T : AckTransitS fr pk t o d)
    (hpkA : (ackOf fr).pack = .ok pkA) (hndef : ∀ i, val (tree i) ≠ NETWORK_DEFAULT_ADDR) :
    ∀ (n : Nat) (s : NetState) (f b : Nat), HoldingA cfg L tree o d fr pk pkA t (n + 1) b s →
      (n + 2) * (s.nodes.length + 16) ≤ f →
      ∃ s', nexec (nodeUpdate f) s = (.ok 0, s') ∧ ArrivedA cfg L tree d fr pkA b s s' ∧
        AirA tree o d pk pkA (n + 1) s s' := by
  intro n
  induction n with
  | zero =>
    intro s f b H hf
    exact route_ack_base_air hc hair cfg hcfg L tree fr pk pkA t o d T hpkA hndef s f b H (by omega)
  | succ n ih =>
    intro s f b H hf
    exact route_ack_step_air hc hair cfg hcfg L tree fr pk pkA t o d T hpkA hndef n ih s f b H (by
      rw [show n + 3 = n + 1 + 2 from rfl]; exact hf)

end Nrf.Net.Air
