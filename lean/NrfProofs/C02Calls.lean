/-
C02 helper lemmas, part 7: the induction over a LIST OF CALLS drawn from
{`send(buf, ask_no_ack, force_retry, send_only)`, `resend(send_only)`}, each call with the fault
pattern the environment chooses for it (`some F`: the pattern is replaced by `F` before the call;
`none`: the call runs on what its predecessors left of the pattern).
-/
import NrfProofs.C02Hist

namespace Nrf
open Rf24 Spec.Link

/-- the environment picks the fault pattern of the next call (`none`: leaves what is left) -/
def DrvState.withFaults (s : DrvState) : Option (List Outcome) → DrvState
  | none => s
  | some F => { s with w := { s.w with faults := F } }

theorem DrvState.withFaults_rad (s : DrvState) (F : Option (List Outcome)) : (s.withFaults F).rad = s.rad := by
  cases F <;> rfl

theorem DrvState.withFaults_d (s : DrvState) (F : Option (List Outcome)) : (s.withFaults F).d = s.d := by
  cases F <;> rfl

/-- the history invariant does not mention the fault pattern -/
theorem Hist.withFaults {R : Radio} {s : DrvState} (h : Hist R s) (F : Option (List Outcome)) :
    Hist R (s.withFaults F) := by
  cases F with
  | none => exact h
  | some F =>
    rcases h with ⟨e, k, hf, hfr⟩ | ⟨hw, hr, hpi, htx, hrx⟩
    · exact Or.inl ⟨e, k, ⟨hf.wf, hf.regs, hf.fifo, hf.flags, hf.pipes, hf.pkt, hf.sendable, hf.hpid, hf.npid⟩, hfr⟩
    · exact Or.inr ⟨hw, hr, hpi, htx, hrx⟩

/-- the invariant depends on `R` through its registers only -/
theorem Hist.congr {R R' : Radio} {s : DrvState} (h : Hist R s) (hr : R'.regs = R.regs) : Hist R' s := by
  rcases h with ⟨e, k, hf, hfr⟩ | ⟨hw, hr', hpi, htx, hrx⟩
  · exact Or.inl ⟨e, k, ⟨hf.wf, by rw [hr]; exact hf.regs, hf.fifo, hf.flags, hf.pipes, hf.pkt, hf.sendable, hf.hpid,
      hf.npid⟩, hfr⟩
  · exact Or.inr ⟨hw, by rw [hr]; exact hr', hpi, htx, hrx⟩

/-- one call of a send/resend history -/
inductive Call where
  | send (faults : Option (List Outcome)) (buf : Bytes) (mutableBuf askNoAck : Bool) (forceRetry : Nat) (sendOnly : Bool)
  | resend (faults : Option (List Outcome)) (sendOnly : Bool)
  deriving Repr, Inhabited

def Call.faults : Call → Option (List Outcome)
  | .send F _ _ _ _ _ => F
  | .resend F _ => F

/-- run one call from `s` (the fault pattern already chosen): the result (for `send` without the
    caller's buffer) and the state after -/
def Call.run : Call → DrvState → Except PyErr SendRes × DrvState
  | .send _ buf m a n so, s =>
    ((match (exec (Rf24.send buf m a (n : Int) so) s).1 with | .ok r => .ok r.1 | .error e => .error e),
     (exec (Rf24.send buf m a (n : Int) so) s).2)
  | .resend _ so, s => exec (Rf24.resend so) s

/-- the ground truth of `resend()` in state `s`: `False` when nothing is queued, else one cycle of
    `1 + ARC` attempts for the head entry judged by the fault pattern and the world -/
def resendExpected (s : DrvState) (sendOnly : Bool) : SendRes :=
  match s.rad.txFifo with
  | [] => .bool false
  | e :: _ =>
    sendExpected (cycleOkSpec (s.rad.awaitsAck e) (ackedR s.rad s.w s.d.rid (s.rad.packetFor e)) s.w.faults
        (World.arcOf s.rad + 1))
      sendOnly (ackTaken (s.rad.awaitsAck e) (s.w.deliver s.d.rid (s.rad.packetFor e)).2 s.rad.ackPayRx true)

/-- what the call must return from `s` (the fault pattern already chosen) -/
def Call.expected : Call → DrvState → SendRes
  | .send _ buf _ a n so, s => expectedOne s a n so buf
  | .resend _ so, s => resendExpected s so

/-- the per-call hypotheses in the state the call runs in: a `send` payload passes `write()`'s
    check; the ACK-payload environment condition `AckEnv` for the packet concerned -/
def Call.ok : Call → DrvState → Prop
  | .send _ buf _ a _ _, s =>
    (s.d.dynPl &&& 1 ≠ 0 → buf ≠ [] ∧ buf.length ≤ 32) ∧ (s.d.dynPl &&& 1 = 0 → 1 ≤ s.d.plLen.getD 0 0) ∧
    AckEnv s.rad (s.sendPacket a buf) s
  | .resend _ _, s => ∀ e rest, s.rad.txFifo = e :: rest → AckEnv s.rad (s.rad.packetFor e) s

/-- `AckEnv` from two evaluable facts (for concrete states) -/
theorem ackEnv_of_eval (R : Radio) (k : Packet) (s : DrvState) (hf : R.ackPayRx = true → s.d.features &&& 4 ≠ 0)
    (hn : (match (s.w.deliver s.d.rid k).2 with | some (some d) => !d.isEmpty | _ => true) = true) : AckEnv R k s := by
  refine ⟨hf, fun d hd => ?_⟩
  rw [hd] at hn
  intro hc
  rw [hc] at hn
  cases hn

/-- run a list of calls; before each call the environment installs the call's fault pattern -/
def runCalls : List Call → DrvState → List (Except PyErr SendRes) × DrvState
  | [], s => ([], s)
  | c :: rest, s =>
    let x := c.run (s.withFaults c.faults)
    let y := runCalls rest x.2
    (x.1 :: y.1, y.2)

/-- the ground-truth results of a list of calls: each call judged in the state its predecessors
    leave behind, under its own fault pattern -/
def expectedCalls : List Call → DrvState → List SendRes
  | [], _ => []
  | c :: rest, s => c.expected (s.withFaults c.faults) :: expectedCalls rest (c.run (s.withFaults c.faults)).2

/-- every call meets its per-call hypotheses when its turn comes -/
def callsOk : List Call → DrvState → Prop
  | [], _ => True
  | c :: rest, s => c.ok (s.withFaults c.faults) ∧ callsOk rest (c.run (s.withFaults c.faults)).2

/-- **one call**: truthful result, invariant kept; for a `send`, its precondition held -/
theorem call_step (R : Radio) (hp : R.Ptx) (c : Call) (s : DrvState) (h : Hist R s) (hok : c.ok s) :
    (c.run s).1 = .ok (c.expected s) ∧ Hist R (c.run s).2 := by
  cases c with
  | send F buf m a n so =>
    obtain ⟨h1, h2, h3⟩ := hok
    have hpre := h.sendPre hp buf so h1 h2
    have hres := (send_final s buf m a n so hpre h3).1
    refine ⟨?_, hist_send R s h hp buf m a n so h1 h2 h3⟩
    simp only [Call.run, hres, Call.expected, expectedOne]
  | resend F so =>
    have hregs : s.rad.regs = R.regs := h.regs
    have hp' : s.rad.Ptx := Radio.ptx_regs _ _ hregs hp
    have h' : Hist s.rad s := h.congr hregs
    refine ⟨?_, (hist_resend s.rad s h' hp' so (fun e k hf => by
      have := hok e [] hf.fifo
      rw [hf.pkt] at this
      exact this)).congr hregs.symm⟩
    rcases h with ⟨e, k, hf, hfr⟩ | ⟨hw, hr, hpi, htx, hrx⟩
    · have hf' : FailedSt s.rad e k s := ⟨hf.wf, rfl, hf.fifo, hf.flags, hf.pipes, hf.pkt, hf.sendable, hf.hpid, hf.npid⟩
      have henv : AckEnv s.rad k s := by
        have := hok e [] hf.fifo
        rw [hf.pkt] at this
        exact this
      obtain ⟨s', r1, _⟩ := resend_spec s.rad e k s so hp' hf' henv
      simp only [Call.run, Call.expected, resendExpected, hf.fifo, hf.pkt, r1, sendExpected]
    · have := (resend_empty s so hw htx).1
      simp only [Call.run, Call.expected, resendExpected, htx, this]

/-- **induction over the list of calls** -/
theorem calls_hist (R : Radio) (hp : R.Ptx) :
    ∀ (calls : List Call) (s : DrvState), Hist R s → callsOk calls s →
      (runCalls calls s).1 = (expectedCalls calls s).map .ok ∧ Hist R (runCalls calls s).2 := by
  intro calls
  induction calls with
  | nil => intro s h _; exact ⟨rfl, h⟩
  | cons c rest ih =>
    intro s h hok
    obtain ⟨h1, h2⟩ := hok
    obtain ⟨r1, r2⟩ := call_step R hp c (s.withFaults c.faults) (h.withFaults _) h1
    obtain ⟨i1, i2⟩ := ih _ r2 h2
    refine ⟨?_, i2⟩
    simp only [runCalls, expectedCalls, List.map_cons, r1, i1]

theorem runCalls_length (calls : List Call) (s : DrvState) : (runCalls calls s).1.length = calls.length := by
  induction calls generalizing s with
  | nil => rfl
  | cons c rest ih => simp only [runCalls, List.length_cons, ih]

/-- along the way: in front of every `send` of the list its precondition `SendPre` holds -/
theorem calls_sendPre (R : Radio) (hp : R.Ptx) :
    ∀ (pre : List Call) (F : Option (List Outcome)) (buf : Bytes) (m a : Bool) (n : Nat) (so : Bool) (post : List Call)
      (s : DrvState), Hist R s → callsOk (pre ++ Call.send F buf m a n so :: post) s →
      SendPre ((runCalls pre s).2.withFaults F) buf so := by
  intro pre
  induction pre with
  | nil =>
    intro F buf m a n so post s h hok
    obtain ⟨⟨h1, h2, _⟩, _⟩ := hok
    exact (h.withFaults F).sendPre hp buf so h1 h2
  | cons c rest ih =>
    intro F buf m a n so post s h hok
    obtain ⟨h1, h2⟩ := hok
    obtain ⟨_, r2⟩ := call_step R hp c (s.withFaults c.faults) (h.withFaults _) h1
    exact ih F buf m a n so post _ r2 h2

/-- CE low on the transmitter (the first statement of `send()`) keeps the history invariant -/
theorem hist_ceLow (R : Radio) (s : DrvState) (h : Hist R s) : Hist R (s.ceQ false) := by
  have hwf : s.Wf := h.wf
  have hrad : (s.ceQ false).rad = { s.rad with ce := false } := ceQ_rad s false hwf
  have hwf' : (s.ceQ false).Wf := ceQ_wf s false hwf
  rcases h with ⟨e, k, hf, hfr⟩ | ⟨hw, h1, h2, h3, h4⟩
  · refine Or.inl ⟨e, k, ⟨hwf', ?_, ?_, ?_, ?_, ?_, hf.sendable, hf.hpid, ?_⟩, ?_⟩
    · rw [hrad]; exact hf.regs
    · rw [hrad]; exact hf.fifo
    · rw [hrad]; exact hf.flags
    · rw [hrad]; exact hf.pipes
    · rw [hrad]; exact hf.pkt
    · rw [hrad]; exact hf.npid
    · rw [hrad]; exact hfr
  · refine Or.inr ⟨hwf', ?_, ?_, ?_, ?_⟩
    · rw [hrad]; exact h1
    · rw [hrad]; exact h2
    · rw [hrad]; exact h3
    · rw [hrad]; exact h4

/-- **`send([b₁, …])` composed**: the whole call, CE-low prefix included -/
theorem sendList_spec (R : Radio) (hp : R.Ptx) (askNoAck : Bool) (n : Nat) (sendOnly : Bool) (bufs : List (Bool × Bytes))
    (s : DrvState) (h : Hist R s) (hok : listOk askNoAck n sendOnly (s.ceQ false) bufs) :
    (exec (sendList bufs askNoAck (n : Int) sendOnly) s).1 = .ok (expectedList askNoAck n sendOnly (s.ceQ false) bufs) ∧
    Hist R (exec (sendList bufs askNoAck (n : Int) sendOnly) s).2 := by
  have hex : exec (sendList bufs askNoAck (n : Int) sendOnly) s =
      exec (bufs.mapM fun mb => send mb.2 mb.1 askNoAck (n : Int) sendOnly) (s.ceQ false) := by
    have : sendList bufs askNoAck (n : Int) sendOnly =
        (setCE false >>= fun _ => bufs.mapM fun mb => send mb.2 mb.1 askNoAck (n : Int) sendOnly) := rfl
    rw [this, exec_bind, exec_setCE_false s h.wf]
  rw [hex]
  exact mapM_send R hp askNoAck n sendOnly bufs _ (hist_ceLow R s h) hok

end Nrf
