/-
The variant detection of `RF24.__init__` (FEATURE read, ACTIVATE toggle, FEATURE read, decision,
and — when both reads are 0 — the write probe), analysed once for every prior state of the chip:
plus or non-plus, feature registers locked or unlocked, any FEATURE content.

Shared by the C03 and the C09 proof trees (imports only `NrfProofs.Hoare`; every name carries a
`det` / `Det` prefix because the two trees define their own `Reach`).
-/
import NrfProofs.Hoare

set_option linter.unusedSimpArgs false

namespace Nrf
open Rf24

/-! ### states reached by SPI transactions and shadow updates -/

inductive DetReach : DrvState → DrvState → Prop
  | refl (s : DrvState) : DetReach s s
  | spi {s t : DrvState} (out : Bytes) : DetReach s t → DetReach s (t.spiStep out)
  | mod {s t : DrvState} (f : Rf24 → Rf24) : (f t.d).rid = t.d.rid → DetReach s t → DetReach s (t.modShadow f)

theorem DetReach.frame {s t : DrvState} (h : DetReach s t) (hw : s.Wf) : t.Wf ∧ t.d.rid = s.d.rid := by
  induction h with
  | refl => exact ⟨hw, rfl⟩
  | spi out _ ih => exact ⟨(spiStep_wf _ _).2 ih.1, ih.2⟩
  | mod f hf _ ih => exact ⟨(modShadow_wf _ _ hf).2 ih.1, hf.trans ih.2⟩

/-! ### the three SPI transactions of the detection, on the configuration part -/

/-- ACTIVATE 0x73: a non-plus chip toggles the accessibility of FEATURE/DYNPD, a plus chip ignores it -/
theorem det_activate_cfg (s : DrvState) (hw : s.Wf) :
    (s.spiStep [0x50, 0x73]).cfg =
      { s.cfg with activated := if s.cfg.plus = true then s.cfg.activated else !s.cfg.activated } := by
  rw [spiStep_cfg _ _ hw]
  show ({ s.cfg with activated := if (!s.cfg.plus) = true ∧ [0x73].headD 0 = 0x73 then !s.cfg.activated
    else s.cfg.activated } : Radio).cfgOf = _
  cases s.cfg.plus <;> simp <;> rfl

theorem det_read_cfg (s : DrvState) (hw : s.Wf) : (s.spiStep [0x1D, 0]).cfg = s.cfg := by
  rw [spiStep_cfg _ _ hw, xfer_rreg_cfg _ _ _ (by decide)]; rfl

theorem det_read_val (s : DrvState) :
    (s.w.spi s.d.rid [0x1D, 0]).2.getD 1 0 = if s.cfg.featureVisible = true then s.cfg.feature else 0 := by
  rw [spi_read_cfg s.w s.d.rid 0x1D (by decide) (by decide)]
  show ((s.cfg.readReg 0x1D).headD 0) = _
  simp only [Radio.readReg, List.headD_cons]

/-- W_REGISTER FEATURE = 5: accepted iff the feature registers are accessible; nothing reserved -/
theorem det_write5_cfg (s : DrvState) (hw : s.Wf) :
    (s.spiStep [0x20 ||| 0x1D, 5]).cfg =
      { s.cfg with feature := if s.cfg.featureVisible = true then 5 else s.cfg.feature } := by
  rw [spiStep_cfg _ _ hw, xfer_wreg_cfg _ _ _ (by decide)]
  have h5 : (5 : Nat) &&& 7 = 5 := by decide
  simp only [Radio.writeReg, List.headD_cons, Radio.reservedLog, h5, ↓reduceIte, ite_self, List.append_nil]
  rfl

/-! ### the state during the detection, relative to the state `s` it started in -/

/-- `t` is reached from `s`; of the radio's configuration part only the ACTIVATE state (`act`) and
    FEATURE (`ft`) may differ; of the shadows only `_is_plus_variant` (`ip`), `_features`, `_in[0]` -/
structure DetAt (s t : DrvState) (act : Bool) (ft : Nat) (ip : Bool) : Prop where
  reach : DetReach s t
  cfg : t.cfg = { s.cfg with activated := act, feature := ft }
  d : ∃ fs st, t.d = { s.d with isPlus := ip, features := fs, status := st }

theorem DetAt.start (s : DrvState) : DetAt s s s.cfg.activated s.cfg.feature s.d.isPlus :=
  ⟨.refl s, rfl, ⟨s.d.features, s.d.status, rfl⟩⟩

theorem det_bind {α β} {x : DrvM α} {f : α → DrvM β} {s s1 : DrvState} {a : α}
    (h : exec x s = (.ok a, s1)) : exec (x >>= f) s = exec (f a) s1 := by rw [exec_bind, h]

variable {s t : DrvState} {act : Bool} {ft : Nat} {ip : Bool}

theorem DetAt.read (h : DetAt s t act ft ip) (hw : s.Wf) :
    ∃ t', exec (regRead TX_FEATURE) t = (.ok (if (s.cfg.plus || act) = true then ft else 0), t') ∧
      DetAt s t' act ft ip := by
  have hwt := (h.reach.frame hw).1
  refine ⟨t.spiStep [0x1D, 0], ?_, .spi _ h.reach, ?_, ?_⟩
  · rw [exec_regRead]
    show (Except.ok ((t.w.spi t.d.rid [0x1D, 0]).2.getD 1 0), _) = _
    rw [det_read_val, h.cfg]
    rfl
  · rw [det_read_cfg _ hwt, h.cfg]
  · obtain ⟨fs, st, hd⟩ := h.d
    exact ⟨fs, _, by rw [spiStep_d, hd]⟩

theorem DetAt.toggle (h : DetAt s t act ft ip) (hw : s.Wf) :
    ∃ t', exec (regWrite 0x50 0x73) t = (.ok (), t') ∧
      DetAt s t' (if s.cfg.plus = true then act else !act) ft ip := by
  have hwt := (h.reach.frame hw).1
  refine ⟨t.spiStep [0x50, 0x73], rfl, .spi _ h.reach, ?_, ?_⟩
  · rw [det_activate_cfg _ hwt, h.cfg]
  · obtain ⟨fs, st, hd⟩ := h.d
    exact ⟨fs, _, by rw [spiStep_d, hd]⟩

theorem DetAt.write5 (h : DetAt s t act ft ip) (hw : s.Wf) :
    ∃ t', exec (regWrite TX_FEATURE 5) t = (.ok (), t') ∧
      DetAt s t' act (if (s.cfg.plus || act) = true then 5 else ft) ip := by
  have hwt := (h.reach.frame hw).1
  refine ⟨t.spiStep [0x20 ||| 0x1D, 5], ?_, .spi _ h.reach, ?_, ?_⟩
  · exact exec_regWrite 0x1D 5 t (by decide) (by decide)
  · rw [det_write5_cfg _ hwt, h.cfg]
    rfl
  · obtain ⟨fs, st, hd⟩ := h.d
    exact ⟨fs, _, by rw [spiStep_d, hd]⟩

theorem DetAt.setPlus (h : DetAt s t act ft ip) (b : Bool) :
    ∃ t', exec (modD fun d => { d with isPlus := b }) t = (.ok (), t') ∧ DetAt s t' act ft b := by
  refine ⟨t.modShadow fun d => { d with isPlus := b }, rfl, .mod _ rfl h.reach, ?_, ?_⟩
  · rw [modShadow_cfg _ _ rfl, h.cfg]
  · obtain ⟨fs, st, hd⟩ := h.d
    exact ⟨fs, st, by rw [modShadow_d, hd]⟩

theorem DetAt.setFeatures (h : DetAt s t act ft ip) (v : Nat) :
    ∃ t', exec (modD fun d => { d with features := v }) t = (.ok (), t') ∧ DetAt s t' act ft ip := by
  refine ⟨t.modShadow fun d => { d with features := v }, rfl, .mod _ rfl h.reach, ?_, ?_⟩
  · rw [modShadow_cfg _ _ rfl, h.cfg]
  · obtain ⟨fs, st, hd⟩ := h.d
    exact ⟨v, st, by rw [modShadow_d, hd]⟩

theorem DetAt.isPlus (h : DetAt s t act ft ip) : t.d.isPlus = ip := by
  obtain ⟨fs, st, hd⟩ := h.d
  rw [hd]

/-! ### the decision -/

/-- `__init__` from the first FEATURE read to the end of the variant decision -/
def detect : DrvM Unit := do
  let f ← regRead TX_FEATURE
  modD fun d => { d with features := f }
  regWrite 0x50 0x73
  let after ← regRead TX_FEATURE
  initVariant f after

/-- the write probe (both reads were 0), feature registers not accessible at this point: the write
    is ignored, the read-back is 0, one more toggle -/
theorem DetAt.probe_hidden (h : DetAt s t act ft false) (hw : s.Wf) (hv : (s.cfg.plus || act) = false) :
    ∃ t', exec (initVariant 0 0) t = (.ok (), t') ∧
      DetAt s t' (if s.cfg.plus = true then act else !act) ft false := by
  unfold initVariant
  simp only [ne_eq, not_true_eq_false, ↓reduceIte]
  obtain ⟨t1, e1, h1⟩ := h.write5 hw
  rw [det_bind e1]
  obtain ⟨t2, e2, h2⟩ := h1.read hw
  rw [det_bind e2]
  simp only [hv, Bool.false_eq_true, ↓reduceIte, ne_eq, not_true_eq_false] at h1 h2 ⊢
  rw [det_bind (exec_getD t2)]
  simp only [h2.isPlus, ↓reduceIte]
  exact h2.toggle hw

/-- the write probe, feature registers accessible: the write is accepted, and the toggle tells -/
theorem DetAt.probe_visible (h : DetAt s t act ft false) (hw : s.Wf) (hv : (s.cfg.plus || act) = true) :
    ∃ t', exec (initVariant 0 0) t = (.ok (), t') ∧ DetAt s t' act 5 s.cfg.plus := by
  unfold initVariant
  simp only [ne_eq, not_true_eq_false, ↓reduceIte]
  obtain ⟨t1, e1, h1⟩ := h.write5 hw
  rw [det_bind e1]
  obtain ⟨t2, e2, h2⟩ := h1.read hw
  rw [det_bind e2]
  simp only [hv, ↓reduceIte, ne_eq, Nat.reduceEqDiff, not_false_eq_true] at h1 h2 ⊢
  obtain ⟨t3, e3, h3⟩ := h2.toggle hw
  rw [det_bind e3]
  obtain ⟨t4, e4, h4⟩ := h3.read hw
  rw [det_bind e4]
  cases hp : s.cfg.plus with
  | true =>
    simp only [hp, ↓reduceIte, Bool.true_or, ne_eq, Nat.reduceEqDiff, not_false_eq_true, decide_true] at h3 h4 ⊢
    obtain ⟨t5, e5, h5⟩ := h4.setPlus true
    rw [det_bind e5, det_bind (exec_getD t5)]
    simp only [h5.isPlus, Bool.true_eq_false, ↓reduceIte]
    exact ⟨t5, rfl, h5⟩
  | false =>
    have ha : act = true := by simpa [hp] using hv
    subst ha
    simp only [hp, Bool.false_eq_true, ↓reduceIte, Bool.not_true, Bool.or_self, ne_eq, not_true_eq_false,
      decide_false] at h3 h4 ⊢
    obtain ⟨t5, e5, h5⟩ := h4.setPlus false
    rw [det_bind e5, det_bind (exec_getD t5)]
    simp only [h5.isPlus, ↓reduceIte]
    obtain ⟨t6, e6, h6⟩ := h5.toggle hw
    simp only [hp, Bool.false_eq_true, ↓reduceIte, Bool.not_false] at h6
    exact ⟨t6, e6, h6⟩

/-- **The variant detection is right for every prior state of the chip**: started with
    `_is_plus_variant = False` (as `__init__` does) in a state whose radio exists, the sequence
    returns normally; afterwards `_is_plus_variant` is the chip's variant; a non-plus chip has its
    feature registers unlocked, a plus chip's (meaningless) ACTIVATE state is untouched; FEATURE
    holds what it held or 5; no other register, no other shadow apart from `_features` / the cached
    STATUS byte, has changed. -/
theorem detect_spec (s : DrvState) (hw : s.Wf) (hip : s.d.isPlus = false) :
    ∃ s' ft, exec detect s = (.ok (), s') ∧
      DetAt s s' (if s.cfg.plus = true then s.cfg.activated else true) ft s.cfg.plus ∧
      (ft = s.cfg.feature ∨ ft = 5) := by
  have h0 := DetAt.start s
  rw [hip] at h0
  unfold detect
  obtain ⟨t1, e1, h1⟩ := h0.read hw
  rw [det_bind e1]
  obtain ⟨t2, e2, h2⟩ := h1.setFeatures (if (s.cfg.plus || s.cfg.activated) = true then s.cfg.feature else 0)
  rw [det_bind e2]
  obtain ⟨t3, e3, h3⟩ := h2.toggle hw
  rw [det_bind e3]
  obtain ⟨t4, e4, h4⟩ := h3.read hw
  rw [det_bind e4]
  clear e1 e2 e3 e4 h0 h1 h2 h3
  cases hp : s.cfg.plus with
  | true =>
    simp only [hp, ↓reduceIte, Bool.true_or] at h4 ⊢
    by_cases hf : s.cfg.feature = 0
    · -- plus, FEATURE = 0: probe
      rw [hf]
      obtain ⟨t5, e5, h5⟩ := h4.probe_visible hw (by rw [hp]; rfl)
      rw [hp] at h5
      exact ⟨t5, 5, e5, h5, .inr rfl⟩
    · -- plus, FEATURE ≠ 0: equal and non-zero
      unfold initVariant
      simp only [ne_eq, not_true_eq_false, ↓reduceIte, hf, not_false_eq_true]
      obtain ⟨t5, e5, h5⟩ := h4.setPlus true
      exact ⟨t5, _, e5, h5, .inl rfl⟩
  | false =>
    simp only [hp, Bool.false_eq_true, ↓reduceIte, Bool.false_or] at h4 ⊢
    cases ha : s.cfg.activated with
    | true =>
      simp only [ha, Bool.not_true, Bool.false_eq_true, ↓reduceIte] at h4 ⊢
      by_cases hf : s.cfg.feature = 0
      · -- non-plus, unlocked, FEATURE = 0: now locked, the probe write is ignored
        rw [hf]
        obtain ⟨t5, e5, h5⟩ := h4.probe_hidden hw (by rw [hp]; rfl)
        simp only [hp, Bool.false_eq_true, ↓reduceIte, Bool.not_false] at h5
        exact ⟨t5, _, e5, h5, .inl hf⟩
      · -- non-plus, unlocked, FEATURE ≠ 0: now locked (reads 0), toggle back
        unfold initVariant
        simp only [ne_eq, hf, not_false_eq_true, ↓reduceIte]
        obtain ⟨t5, e5, h5⟩ := h4.toggle hw
        simp only [hp, Bool.false_eq_true, ↓reduceIte, Bool.not_false] at h5
        exact ⟨t5, _, e5, h5, .inl rfl⟩
    | false =>
      simp only [ha, Bool.not_false, Bool.false_eq_true, ↓reduceIte] at h4 ⊢
      by_cases hf : s.cfg.feature = 0
      · -- non-plus, locked, FEATURE = 0: now unlocked, the probe write is accepted
        rw [hf]
        obtain ⟨t5, e5, h5⟩ := h4.probe_visible hw (by rw [hp]; rfl)
        rw [hp] at h5
        exact ⟨t5, 5, e5, h5, .inr rfl⟩
      · -- non-plus, locked, FEATURE ≠ 0: now unlocked, the second read differs and is non-zero
        unfold initVariant
        have hne : ¬ (0 = s.cfg.feature) := fun h => hf h.symm
        simp only [ne_eq, hne, hf, not_false_eq_true, ↓reduceIte]
        exact ⟨t4, _, rfl, h4, .inl rfl⟩

end Nrf
