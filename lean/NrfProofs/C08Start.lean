/-
C08: the state right after `__enter__` satisfies the C08 invariant (the link from C09 to C08).
-/
import NrfProofs.C08Inv
import NrfProofs.C09Enter

namespace Nrf
open Rf24 Spec

theorem or2_and1 {c : Nat} (h : c < 128) : (c ||| 2) &&& 1 = c &&& 1 :=
  (by decide : ∀ c : Fin 128, (c.val ||| 2) &&& 1 = c.val &&& 1) ⟨c, h⟩

/-- right after `__enter__` of an object in the TX role whose shadows are in range and whose
    `_pipe0_read_addr` is consistent with its open-pipes shadow: the C08 invariant, CE low -/
theorem inv8_after_enter (d : Rf24) (w : World) (hrid : d.rid < w.radios.length) (hr : InRange d)
    (hshape : RadioShape (w.radio d.rid)) (htx : d.config &&& 1 = 0)
    (huser : ∀ a, d.pipe0ReadAddr = some a → (1 ≤ a.length ∧ a.length ≤ 5) ∧ d.openPipes &&& 1 ≠ 0) :
    (exec enter ⟨d, w⟩).1 = .ok () ∧ Inv8 (exec enter ⟨d, w⟩).2 d.pipe0ReadAddr ∧
    (exec enter ⟨d, w⟩).2.radio.ce = false ∧
    (exec enter ⟨d, w⟩).2.radio.violations = (w.radio d.rid).violations ++ enterLog d := by
  obtain ⟨s', hex, hd, hrid', hwf, hfr, hlen, hce, hpl, hact, hviol, hvis, hhid⟩ := enter_spec ⟨d, w⟩ hrid hr hshape
  rw [hex]
  have hregs : ∃ dy ft, regsOf s'.cfg = { shadowRegs { d with config := d.config ||| 2 } with dynpd := dy, feature := ft } := by
    cases hv : (DrvState.mk d w).cfg.featureVisible with
    | true => exact ⟨_, _, hvis hv⟩
    | false => exact ⟨_, _, hhid hv⟩
  obtain ⟨dy, ft, hregs⟩ := hregs
  have c0 : s'.cfg.config = d.config ||| 2 := congrArg CfgRegs.config hregs
  have c1 : s'.cfg.enAA = d.aa := congrArg CfgRegs.enAA hregs
  have c2 : s'.cfg.enRxAddr = d.openPipes := congrArg CfgRegs.enRxAddr hregs
  have c3 : s'.cfg.rxAddr0 = d.pipes0 := congrArg CfgRegs.rxAddr0 hregs
  have c4 : s'.cfg.txAddr = d.txAddress := congrArg CfgRegs.txAddr hregs
  obtain ⟨hcfg, _, _, hop, _, haa, _, _, _, _, hp0, hp1, htxl, _, _⟩ := hr
  generalize s'.d.status = st at hd
  refine ⟨rfl, ?_, hce, hviol⟩
  refine ⟨hwf, ?_, ?_, ?_, ?_, ?_, ?_, ?_, ?_, ?_, ?_, ?_, ?_, ?_, ?_, ?_⟩
  all_goals simp only [hd, c0, c1, c2, c3, c4]
  · exact or2_lt_128 hcfg
  · exact hop
  · exact haa
  · exact hp0
  · exact hp1
  · exact htxl
  · exact huser
  · rw [hce, or2_and1 hcfg, htx]; simp
  · exact (by decide : ∀ c : Fin 128, (c.val ||| 2) &&& 2 = 2) ⟨d.config, hcfg⟩

end Nrf
