/-
C17, the lookup loop of `send()`: the real bound.  From the state in which `send()` starts it — the
deadline 115 ms ahead — the loop makes **at most six** lookups: whatever computation is put in place
of what the loop does when its fuel is used up (`throw .diverge` in the model), with six or more units
of fuel the outcome (result *and* final state) is the same.  Tied to the run from `s`, every outcome
(`.ok none`, `.ok (some a)`, `.error e`).
-/
import NrfProofs.MeshFrameK

namespace Nrf.Proofs.MeshK
open Nrf Nrf.Net Nrf.NetK Nrf.Spec Nrf.Spec.MeshProtocol

/-- the loop of `send()` over an arbitrary lookup computation, with an arbitrary computation `z` in
    place of what happens when the fuel is used up (the model: `throw .diverge`) -/
def lookupLoopZ (z : NetM (Option Int)) (look : NetM Int) (deadline : Nat) : Nat → Nat → NetM (Option Int)
  | 0, _ => z
  | f + 1, retryDelay => do
    let a ← look
    if (← nowNs) ≥ deadline then return none
    if a < 0 then
      sleepNs (retryDelay * 1000000)
      lookupLoopZ z look deadline f (retryDelay + 10)
    else return some a

theorem lookupLoopG_eq_Z (look : NetM Int) (deadline : Nat) : ∀ f retryDelay,
    lookupLoopG look deadline f retryDelay = lookupLoopZ (throw .diverge) look deadline f retryDelay := by
  intro f
  induction f with
  | zero => intro _; rfl
  | succ f ih => intro rd; rw [lookupLoopG, lookupLoopZ, ih]

/-- With the deadline at most `sleepBudget f rd` ns away, what stands in the fuel-exhausted branch and
    how much fuel beyond `f + 1` is given is irrelevant: the branch is never reached. -/
theorem lookupLoopZ_bound (look : NetM Int) (P : NetState → Prop)
    (hP : ∀ s, P s → P (nexec look s).2 ∧ s.w.clock ≤ (nexec look s).2.w.clock)
    (hsl : ∀ s n, P s → P { s with w := s.w.sleep n }) (deadline : Nat) :
    ∀ f rd s, P s → deadline ≤ s.w.clock + sleepBudget f rd →
      ∀ (z1 z2 : NetM (Option Int)) (f1 f2 : Nat), f < f1 → f < f2 →
        nexec (lookupLoopZ z1 look deadline f1 rd) s = nexec (lookupLoopZ z2 look deadline f2 rd) s := by
  intro f
  induction f with
  | zero =>
    intro rd s hs hd z1 z2 f1 f2 h1 h2
    obtain ⟨g1, rfl⟩ : ∃ g, f1 = g + 1 := ⟨f1 - 1, by omega⟩
    obtain ⟨g2, rfl⟩ : ∃ g, f2 = g + 1 := ⟨f2 - 1, by omega⟩
    rw [lookupLoopZ, lookupLoopZ]
    simp only [nexec_bind, nexec_nowNs]
    have hmono := (hP s hs).2
    rcases hl : nexec look s with ⟨r, s1⟩
    rw [hl] at hmono
    cases r with
    | error e' => rfl
    | ok a =>
      simp only [sleepBudget, Nat.add_zero] at hd
      have : s1.w.clock ≥ deadline := by simp only at hmono; omega
      simp only [this, ↓reduceIte]
  | succ f ih =>
    intro rd s hs hd z1 z2 f1 f2 h1 h2
    obtain ⟨g1, rfl⟩ : ∃ g, f1 = g + 1 := ⟨f1 - 1, by omega⟩
    obtain ⟨g2, rfl⟩ : ∃ g, f2 = g + 1 := ⟨f2 - 1, by omega⟩
    rw [lookupLoopZ, lookupLoopZ]
    simp only [nexec_bind, nexec_nowNs]
    have hmono := (hP s hs).2
    have hs1 := (hP s hs).1
    rcases hl : nexec look s with ⟨r, s1⟩
    rw [hl] at hmono hs1
    cases r with
    | error e' => rfl
    | ok a =>
      simp only at hmono hs1 ⊢
      by_cases h3 : s1.w.clock ≥ deadline
      · simp only [h3, ↓reduceIte]
      · simp only [h3, ↓reduceIte]
        by_cases h4 : a < 0
        · simp only [h4, ↓reduceIte, nexec_bind, nexec_sleepNs]
          refine ih (rd + 10) _ (hsl s1 (rd * 1000000) hs1) ?_ z1 z2 g1 g2 (by omega) (by omega)
          simp only [sleepBudget] at hd
          show deadline ≤ s1.w.clock + rd * 1000000 + sleepBudget f (rd + 10)
          omega
        · simp only [h4, ↓reduceIte]

/-- **C17, the lookup loop of `send()` makes at most six lookups** (closed system included): started
    as an existing node on the call stack with the deadline 115 ms ahead, the loop with the model's
    fuel (1000) has the same outcome — result and final state — as the loop with any fuel `f ≥ 6` and
    *any* computation `z` in place of the fuel-exhausted branch. -/
theorem sendLookupLoop_six (toId : Nat) (s : NetState) (g : Good s) (z : NetM (Option Int)) (f : Nat)
    (hf : 6 ≤ f) :
    nexec (sendLookupLoop toId (115 * 1000000 + s.w.clock) 1000 5) s =
      nexec (lookupLoopZ z (meshLookupAddress toId) (115 * 1000000 + s.w.clock) f 5) s := by
  rw [sendLookupLoop_eq, lookupLoopG_eq_Z]
  refine lookupLoopZ_bound _ Good
    (fun s gs => good_of_frame (fun s0 g0 => meshLookupAddress_frame g0 _) s gs)
    (fun s _ gs => ⟨gs.onStack, gs.exists_⟩) _ 5 5 s g ?_ _ _ _ _ (by omega) (by omega)
  have : sleepBudget 5 5 = 125000000 := by decide
  omega

end Nrf.Proofs.MeshK
