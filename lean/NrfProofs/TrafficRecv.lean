/-
Traffic lemmas, part 6 — the receivers, exactly: after an attempt loop / a transmit cycle every radio
other than the sender has received the packet exactly once per attempt that got through
(`deliveries`), for every fault pattern.
-/
import NrfProofs.TrafficCycle

namespace Nrf
open Spec.Link

/-- radio `r` after receiving packet `k` `m` times -/
def recvN (k : Packet) : Nat → Radio → Radio
  | 0, r => r
  | m + 1, r => recvN k m (r.receive k).1

/-- number of attempts among the first `att` that reach the receivers under fault pattern `fs`
    (`packetLost` does not; beyond the pattern the air is undisturbed) -/
def deliveries : List Outcome → Nat → Nat
  | _, 0 => 0
  | [], a + 1 => a + 1
  | .packetLost :: t, a + 1 => deliveries t a
  | _ :: t, a + 1 => 1 + deliveries t a

theorem recvN_add (k : Packet) (m n : Nat) (r : Radio) : recvN k (m + n) r = recvN k n (recvN k m r) := by
  induction m generalizing r with
  | zero => simp [recvN]
  | succ m ih =>
    have : m + 1 + n = (m + n) + 1 := by omega
    rw [this]
    simp only [recvN]
    exact ih _

theorem deliveries_nil (a : Nat) : deliveries [] a = a := by cases a <;> rfl

theorem deliveries_zero (fs : List Outcome) : deliveries fs 0 = 0 := by cases fs <;> rfl

theorem deliveries_add (fs : List Outcome) (a b : Nat) :
    deliveries fs (a + b) = deliveries fs a + deliveries (fs.drop a) b := by
  induction a generalizing fs with
  | zero => simp [deliveries_zero]
  | succ a ih =>
    have e : a + 1 + b = (a + b) + 1 := by omega
    rw [e]
    cases fs with
    | nil => simp only [deliveries_nil, List.drop_nil]; omega
    | cons o t =>
      cases o with
      | packetLost => simp only [deliveries, List.drop_succ_cons]; exact ih t
      | ackLost => simp only [deliveries, List.drop_succ_cons]; rw [ih t]; omega
      | delivered => simp only [deliveries, List.drop_succ_cons]; rw [ih t]; omega

/-- a repeated Enhanced ShockBurst packet changes nothing in the receiver: it is recognised as a
    duplicate (or was, and stays, rejected) -/
theorem receive_idem (r : Radio) (k : Packet) (he : k.esb = true) : ((r.receive k).1.receive k).1 = (r.receive k).1 := by
  cases hl : r.listensTo k with
  | none => rw [Radio.receive_none r k hl, Radio.receive_none r k hl]
  | some p =>
    have hl' : ∀ r' : Radio, r'.cfgOf = r.cfgOf → r'.listensTo k = some p := fun r' h => by
      rw [Radio.listensTo_cfg r r' k h]; exact hl
    cases hd : r.isDup k with
    | true =>
      have h1 := Radio.receive_dup r k p hl hd
      have e1 : (r.receive k).1 = r := by rw [h1]
      rw [e1, e1]
    | false =>
      by_cases hf : r.rxFifo.length ≥ 3
      · have h1 := Radio.receive_full r k p hl hd hf
        have e1 : (r.receive k).1 = r := by rw [h1]
        rw [e1, e1]
      · have hroom : r.rxFifo.length < 3 := by omega
        cases ha : r.acksOn k p with
        | false =>
          rw [Radio.receive_new_noack r k p hl hd hroom ha]
          dsimp only
          rw [Radio.receive_dup (r.stored k p) k p (hl' _ rfl) (Radio.isDup_stored r k p he)]
        | true =>
          cases hp : r.ackPayOn k p with
          | false =>
            rw [Radio.receive_new_plain r k p hl hd hroom ha hp]
            dsimp only
            have hd1 : Radio.isDup { r.stored k p with lastAck := none } k = true := Radio.isDup_stored r k p he
            rw [Radio.receive_dup { r.stored k p with lastAck := none } k p (hl' _ rfl) hd1]
          | true =>
            cases ht : Radio.takeAck r.txFifo p with
            | none =>
              rw [Radio.receive_new_nopay r k p hl hd hroom ha hp ht]
              dsimp only
              have hd1 : Radio.isDup { r.stored k p with lastAck := none } k = true := Radio.isDup_stored r k p he
              rw [Radio.receive_dup { r.stored k p with lastAck := none } k p (hl' _ rfl) hd1]
            | some dr =>
              obtain ⟨d, rest⟩ := dr
              rw [Radio.receive_new_pay r k p hl hd hroom ha hp d rest ht]
              dsimp only
              have hd1 : Radio.isDup { r.stored k p with txFifo := rest, lastAck := some d } k = true :=
                Radio.isDup_stored r k p he
              rw [Radio.receive_dup { r.stored k p with txFifo := rest, lastAck := some d } k p (hl' _ rfl) hd1]

/-- receiving an ESB packet once or many times is the same -/
theorem recvN_esb (k : Packet) (he : k.esb = true) (m : Nat) (r : Radio) : recvN k (m + 1) r = (r.receive k).1 := by
  induction m generalizing r with
  | zero => rfl
  | succ m ih =>
    have : recvN k (m + 1 + 1) r = recvN k (m + 1) (r.receive k).1 := rfl
    rw [this, ih, receive_idem r k he]

namespace World

theorem attemptLoop_made_mono (s : Nat) (k : Packet) (n made : Nat) (w : World) :
    made ≤ (attemptLoop s k n made w).2.1 := by
  induction n generalizing made w with
  | zero => simp [attemptLoop]
  | succ n ih =>
    unfold attemptLoop
    simp only
    split
    · have := ih (made + 1) (w.nextFault).1; omega
    · have := ih (made + 1) ((w.nextFault).1.deliver s k).1; omega
    · split
      · split
        · simp
        · have := ih (made + 1) ((w.nextFault).1.deliver s k).1; omega
      · have := ih (made + 1) ((w.nextFault).1.deliver s k).1; omega

/-- **the receivers after the attempt loop** -/
theorem attemptLoop_others_exact (s : Nat) (k : Packet) (n made : Nat) (w : World) (j : Nat)
    (hj : j < w.radios.length) (hjs : j ≠ s) :
    (attemptLoop s k n made w).1.radio j =
      recvN k (deliveries w.faults ((attemptLoop s k n made w).2.1 - made)) (w.radio j) := by
  induction n generalizing made w with
  | zero => simp [attemptLoop, deliveries_zero, recvN]
  | succ n ih =>
    have hdj : ∀ w' : World, w'.radios.length = w.radios.length →
        (w'.deliver s k).1.radio j = ((w'.radio j).receive k).1 := by
      intro w' hl
      rw [deliver_radio _ _ _ _ (by rw [hl]; exact hj)]; simp [hjs]
    have hlen1 : w.nextFault.1.radios.length = w.radios.length := by rw [nextFault_radios]
    have hlen2 : (w.nextFault.1.deliver s k).1.radios.length = w.radios.length := by rw [deliver_length, hlen1]
    have ho := nextFault_outcome w
    have hfl := nextFault_faults w
    unfold attemptLoop
    simp only
    -- the two ways to continue
    have cont1 : (attemptLoop s k n (made + 1) w.nextFault.1).1.radio j =
        recvN k (deliveries w.nextFault.1.faults ((attemptLoop s k n (made + 1) w.nextFault.1).2.1 - (made + 1)))
          (w.radio j) := by
      rw [ih (made + 1) w.nextFault.1 (by rw [hlen1]; exact hj), nextFault_radio]
    have cont2 : (attemptLoop s k n (made + 1) (w.nextFault.1.deliver s k).1).1.radio j =
        recvN k (1 + deliveries w.nextFault.1.faults
            ((attemptLoop s k n (made + 1) (w.nextFault.1.deliver s k).1).2.1 - (made + 1))) (w.radio j) := by
      rw [ih (made + 1) (w.nextFault.1.deliver s k).1 (by rw [hlen2]; exact hj), hdj _ hlen1, nextFault_radio,
        Nat.add_comm 1]
      rfl
    have mono1 := attemptLoop_made_mono s k n (made + 1) w.nextFault.1
    have mono2 := attemptLoop_made_mono s k n (made + 1) (w.nextFault.1.deliver s k).1
    cases hfs : w.faults with
    | nil =>
      rw [hfs] at ho hfl
      simp only [List.getD_nil] at ho
      simp only [List.drop_nil] at hfl
      rw [ho]
      simp only [deliveries_nil]
      rw [hfl, deliveries_nil] at cont2
      split
      · split
        · simp only [Nat.add_sub_cancel_left]
          rw [hdj _ hlen1, nextFault_radio]; rfl
        · rw [cont2]; congr 1; omega
      · rw [cont2]; congr 1; omega
    | cons o t =>
      rw [hfs] at ho hfl
      simp only [List.getD_cons_zero] at ho
      simp only [List.drop_succ_cons, List.drop_zero] at hfl
      rw [ho]
      rw [hfl] at cont1 cont2
      cases o with
      | packetLost =>
        simp only
        rw [cont1]
        obtain ⟨x, hx⟩ : ∃ x, (attemptLoop s k n (made + 1) w.nextFault.1).2.1 - made = x + 1 :=
          ⟨(attemptLoop s k n (made + 1) w.nextFault.1).2.1 - made - 1, by omega⟩
        rw [hx]
        simp only [deliveries]
        congr 2; omega
      | ackLost =>
        simp only
        rw [cont2]
        obtain ⟨x, hx⟩ : ∃ x, (attemptLoop s k n (made + 1) (w.nextFault.1.deliver s k).1).2.1 - made = x + 1 :=
          ⟨(attemptLoop s k n (made + 1) (w.nextFault.1.deliver s k).1).2.1 - made - 1, by omega⟩
        rw [hx]
        simp only [deliveries]
        congr 3; omega
      | delivered =>
        simp only
        split
        · split
          · simp only [Nat.add_sub_cancel_left]
            rw [hdj _ hlen1, nextFault_radio]
            simp only [deliveries, deliveries_zero]
            rfl
          · rw [cont2]
            obtain ⟨x, hx⟩ : ∃ x, (attemptLoop s k n (made + 1) (w.nextFault.1.deliver s k).1).2.1 - made = x + 1 :=
              ⟨(attemptLoop s k n (made + 1) (w.nextFault.1.deliver s k).1).2.1 - made - 1, by omega⟩
            rw [hx]
            simp only [deliveries]
            congr 3; omega
        · rw [cont2]
          obtain ⟨x, hx⟩ : ∃ x, (attemptLoop s k n (made + 1) (w.nextFault.1.deliver s k).1).2.1 - made = x + 1 :=
            ⟨(attemptLoop s k n (made + 1) (w.nextFault.1.deliver s k).1).2.1 - made - 1, by omega⟩
          rw [hx]
          simp only [deliveries]
          congr 3; omega

/-- **the receivers after a transmit cycle**: every radio other than the sender has received the
    packet once per attempt that got through -/
theorem cycle_others_exact (w : World) (s : Nat) (e : TxEntry) (rest : List TxEntry) (j : Nat)
    (hj : j < w.radios.length) (hjs : j ≠ s) :
    (w.cycle s e rest).radio j =
      recvN ((w.radio s).packetFor e) (deliveries w.faults (w.cycleAttempts s e)) (w.radio j) := by
  unfold cycle cycleAttempts
  dsimp only
  cases ha : (w.radio s).awaitsAck e with
  | false =>
    simp only [Bool.not_false, ↓reduceIte, Bool.false_eq_true]
    rw [stamp_radio, updRadio_ne _ _ _ _ hjs]
    have ho := nextFault_outcome (w.updRadio s (·.takePid e))
    simp only [updRadio_faults] at ho
    cases hfs : w.faults with
    | nil =>
      rw [hfs] at ho
      simp only [List.getD_nil] at ho
      rw [ho]
      simp only [reduceCtorEq, ↓reduceIte, deliveries_nil]
      rw [deliver_radio _ _ _ _ (by rw [nextFault_radios]; simpa using hj)]
      simp only [hjs, ↓reduceIte, nextFault_radio, updRadio_ne _ _ _ _ hjs]
      rfl
    | cons o t =>
      rw [hfs] at ho
      simp only [List.getD_cons_zero] at ho
      rw [ho]
      cases o with
      | packetLost =>
        simp only [↓reduceIte, deliveries, deliveries_zero, nextFault_radio, updRadio_ne _ _ _ _ hjs]
        rfl
      | ackLost =>
        simp only [reduceCtorEq, ↓reduceIte, deliveries, deliveries_zero]
        rw [deliver_radio _ _ _ _ (by rw [nextFault_radios]; simpa using hj)]
        simp only [hjs, ↓reduceIte, nextFault_radio, updRadio_ne _ _ _ _ hjs]
        rfl
      | delivered =>
        simp only [reduceCtorEq, ↓reduceIte, deliveries, deliveries_zero]
        rw [deliver_radio _ _ _ _ (by rw [nextFault_radios]; simpa using hj)]
        simp only [hjs, ↓reduceIte, nextFault_radio, updRadio_ne _ _ _ _ hjs]
        rfl
  | true =>
    simp only [Bool.not_true, Bool.false_eq_true, ↓reduceIte]
    have hex := attemptLoop_others_exact s ((w.radio s).packetFor e) (((w.radio s).setupRetr &&& 0x0F) + 1) 0
      (w.updRadio s (·.takePid e)) j (by simpa using hj) hjs
    simp only [updRadio_faults, Nat.sub_zero, updRadio_ne _ _ _ _ hjs] at hex
    have hcr : (attemptLoop s ((w.radio s).packetFor e) (((w.radio s).setupRetr &&& 0x0F) + 1) 0
        (w.updRadio s (·.takePid e))).2 = w.cycleRes s e := rfl
    split
    · rw [stamp_radio, updRadio_ne _ _ _ _ hjs, hex, hcr]
    · rw [stamp_radio, updRadio_ne _ _ _ _ hjs, hex, hcr]

end World
end Nrf
