/-
Radio-level lemmas for the lite driver in *quiet* states (the driven radio is not in TX mode: CE low,
RX role or powered down): there an SPI transaction is just the command on the one chip, so FIFOs and
flags can be followed exactly.  `LiteState.View s d r`: the object's attributes are `d`, its radio `r`.
-/
import NrfProofs.LiteInit

namespace Nrf
open Lite
open Rf24 (b2n staticPayload)

/-- what a lite-driver state looks like from the driver's side: attributes and the radio it drives -/
structure LiteState.View (s : LiteState) (d : Lite) (r : Radio) : Prop where
  wf : s.Wf
  d : s.d = d
  r : s.radio = r

namespace LiteState.View

theorem mk' (s : LiteState) (hw : s.Wf) : View s s.d s.radio := ⟨hw, rfl, rfl⟩

/-- any quiet SPI transaction -/
theorem spi {s : LiteState} {d : Lite} {r : Radio} (h : View s d r) (out : Bytes)
    (hq : (r.xfer out).1.txMode = false) :
    View (s.spiStep out) { d with status := (r.xfer out).2.headD d.status } (r.xfer out).1 := by
  obtain ⟨hw, rfl, rfl⟩ := h
  exact ⟨(spiStep_wf _ _).2 hw, rfl, spiStep_radio_l s out hw hq⟩

theorem readVal {s : LiteState} {d : Lite} {r : Radio} (h : View s d r) (reg : Nat) :
    s.readVal reg = (r.xfer [reg, 0]).2.getD 1 0 := by
  obtain ⟨_, rfl, rfl⟩ := h; rfl

/-- a register read in a quiet state: the radio is untouched, `_status` is its STATUS -/
theorem read {s : LiteState} {d : Lite} {r : Radio} (h : View s d r) (reg : Nat) (hr : reg < 0x20)
    (hq : r.txMode = false) :
    View (s.spiStep [reg, 0]) { d with status := r.status } r ∧ s.readVal reg = (r.readReg reg).headD 0 := by
  have h1 := h.spi [reg, 0] (by rw [Radio.xfer_read_l _ _ hr]; exact hq)
  rw [Radio.xfer_read_l _ _ hr] at h1
  refine ⟨h1, ?_⟩
  rw [h.readVal, Radio.xfer_read_l _ _ hr]; rfl

/-- a one-byte register write (not CONFIG) in a quiet state -/
theorem write {s : LiteState} {d : Lite} {r : Radio} (h : View s d r) (reg v : Nat) (hr : reg < 0x20) (h0 : reg ≠ 0)
    (hq : r.txMode = false) :
    View (s.spiStep [0x20 ||| reg, v]) { d with status := r.status } (r.writeReg reg [v]) := by
  have hx := Radio.xfer_write_l r reg v hr
  have h1 := h.spi [0x20 ||| reg, v] (by
    rw [hx]; exact (Radio.txMode_congr_l (Radio.writeReg_config_ne_l r reg [v] h0) (Radio.writeReg_ce_l r reg [v])).trans hq)
  rw [hx] at h1
  exact h1

/-- a CONFIG write with CE low -/
theorem writeConfig {s : LiteState} {d : Lite} {r : Radio} (h : View s d r) (v : Nat) (hce : r.ce = false) :
    View (s.spiStep [0x20 ||| 0, v]) { d with status := r.status } (r.writeReg 0 [v]) := by
  have hx := Radio.xfer_write_l r 0 v (by decide)
  have h1 := h.spi [0x20 ||| 0, v] (by
    rw [hx]; exact Radio.txMode_of_ce_low_l (by rw [Radio.writeReg_ce_l]; exact hce))
  rw [hx] at h1
  exact h1

/-- any command other than a CONFIG write, in a quiet state -/
theorem cmd {s : LiteState} {d : Lite} {r : Radio} (h : View s d r) (c : Nat) (b : Bytes) (hc : c ≠ 0x20)
    (hq : r.txMode = false) :
    View (s.spiStep (c :: b)) { d with status := r.status } (r.xfer (c :: b)).1 := by
  have h1 := h.spi (c :: b) ((Radio.xfer_txMode_l r c b hc).trans hq)
  have : (r.xfer (c :: b)).2.headD d.status = r.status := by unfold Radio.xfer; rfl
  rw [this] at h1
  exact h1

theorem ceLow {s : LiteState} {d : Lite} {r : Radio} (h : View s d r) : View (s.ceStep false) d { r with ce := false } := by
  obtain ⟨hw, rfl, rfl⟩ := h
  exact ⟨(ceStep_wf _ _).2 hw, rfl, ceStep_low_radio s hw⟩

theorem sleep {s : LiteState} {d : Lite} {r : Radio} (h : View s d r) (n : Nat) : View (s.sleepStep n) d r := by
  obtain ⟨hw, rfl, rfl⟩ := h
  exact ⟨hw, rfl, rfl⟩

end LiteState.View

namespace Radio

theorem writeReg_fifo_l (r : Radio) (reg : Nat) (d : Bytes) :
    (r.writeReg reg d).txFifo = r.txFifo ∧ (r.writeReg reg d).rxFifo = r.rxFifo := by
  unfold writeReg
  split <;> first | exact ⟨rfl, rfl⟩ | (split <;> exact ⟨rfl, rfl⟩)

theorem writeReg_flags_l (r : Radio) (reg : Nat) (d : Bytes) (h : reg ≠ 7) : (r.writeReg reg d).flags = r.flags := by
  unfold writeReg
  split <;> first | rfl | omega | (split <;> rfl)

theorem status_congr_l {r r' : Radio} (h1 : r'.flags = r.flags) (h2 : r'.rxFifo = r.rxFifo) (h3 : r'.txFifo = r.txFifo) :
    r'.status = r.status := by
  unfold status rxPNo txFull; rw [h1, h2, h3]

theorem writeReg_status_l (r : Radio) (reg : Nat) (d : Bytes) (h : reg ≠ 7) : (r.writeReg reg d).status = r.status :=
  status_congr_l (writeReg_flags_l r reg d h) (writeReg_fifo_l r reg d).2 (writeReg_fifo_l r reg d).1

theorem txFull_congr_l {r r' : Radio} (h3 : r'.txFifo = r.txFifo) : r'.txFull = r.txFull := by
  unfold txFull; rw [h3]

theorem writeReg_feature_bits_l (r : Radio) (v : Nat) (hp : r.plus = true) :
    (r.writeReg 0x1D [v]).feature = v &&& 7 := by
  simp [writeReg, featureVisible, hp]

theorem writeReg_feature_ne_l (r : Radio) (reg : Nat) (d : Bytes) (h : reg ≠ 0x1D) :
    (r.writeReg reg d).feature = r.feature := by
  unfold writeReg
  split <;> first | rfl | omega | (split <;> rfl)

theorem ackCmd_l (p : Nat) (hp : p ≤ 5) : decodeCmd (0x20 ||| (0xA8 ||| p)) = .wAckPayload p := by
  have : ∀ q : Fin 6, decodeCmd (0x20 ||| (0xA8 ||| q.val)) = .wAckPayload q.val := by decide
  exact this ⟨p, by omega⟩

theorem ackCmd_ne_l (p : Nat) (hp : p ≤ 5) : 0x20 ||| (0xA8 ||| p) ≠ 0x20 := by
  have : ∀ q : Fin 6, 0x20 ||| (0xA8 ||| q.val) ≠ 0x20 := by decide
  exact this ⟨p, by omega⟩

/-- W_ACK_PAYLOAD -/
theorem xfer_ack_l (r : Radio) (p : Nat) (hp : p ≤ 5) (b : Bytes) :
    (r.xfer ((0x20 ||| (0xA8 ||| p)) :: b)).1 = r.writePayload (.ackFor p) b := by
  unfold xfer
  simp only [ackCmd_l p hp, runCmd]

end Radio

/-- `load_ack()` with arguments outside the accepted set: `False`, and nothing at all happens -/
theorem lite_loadAck_invalid (buf : Bytes) (pipe : Int) (s : LiteState)
    (h : ¬ (0 ≤ pipe ∧ pipe ≤ 5 ∧ 0 < buf.length ∧ buf.length ≤ 32)) :
    lexec (loadAck buf pipe) s = (.ok false, s) := by
  unfold loadAck
  simp only [h, ↓reduceIte, lexec_pure]

/-- `load_ack()` with accepted arguments in a quiet state -/
theorem lite_loadAck_valid (buf : Bytes) (pipe : Int) (s : LiteState) (hw : s.Wf) (hq : s.radio.txMode = false)
    (h : 0 ≤ pipe ∧ pipe ≤ 5 ∧ 0 < buf.length ∧ buf.length ≤ 32)
    {res : Except PyErr Bool} {s' : LiteState} (hrun : lexec (loadAck buf pipe) s = (res, s')) :
    res = .ok (!s.radio.txFull) ∧ s'.Wf ∧ s'.radio.txMode = false ∧
    s'.radio.txFifo = (if s.radio.txFull then s.radio.txFifo
                       else s.radio.txFifo ++ [{ kind := .ackFor pipe.toNat, data := buf }]) ∧
    s'.radio.rxFifo = s.radio.rxFifo ∧ s'.radio.flags = s.radio.flags ∧
    (s.radio.plus = true → s'.radio.feature &&& 2 ≠ 0) := by
  have hp5 : pipe.toNat ≤ 5 := by omega
  have v0 := LiteState.View.mk' s hw
  obtain ⟨v1, e1⟩ := v0.read 0x1D (by decide) hq
  -- the write of the payload from a state whose radio `r4` has the FIFOs / flags of `s.radio`
  have fin : ∀ (s4 : LiteState) (d4 : Lite) (r4 : Radio), LiteState.View s4 d4 r4 → r4.txMode = false →
      d4.status = s.radio.status → r4.txFifo = s.radio.txFifo → r4.rxFifo = s.radio.rxFifo →
      r4.flags = s.radio.flags → (s.radio.plus = true → r4.feature &&& 2 ≠ 0) →
      ∀ {res : Except PyErr Bool} {s' : LiteState},
      (if (!decide (s4.d.status &&& 1 ≠ 0)) = true then
          (match lexec (regWriteBytes (0xA8 ||| pipe.toNat) buf) s4 with
            | (.ok _, s5) => (Except.ok true, s5)
            | (.error e, s5) => (.error e, s5))
        else (Except.ok false, s4)) = (res, s') →
      res = .ok (!s.radio.txFull) ∧ s'.Wf ∧ s'.radio.txMode = false ∧
      s'.radio.txFifo = (if s.radio.txFull then s.radio.txFifo
                         else s.radio.txFifo ++ [{ kind := .ackFor pipe.toNat, data := buf }]) ∧
      s'.radio.rxFifo = s.radio.rxFifo ∧ s'.radio.flags = s.radio.flags ∧
      (s.radio.plus = true → s'.radio.feature &&& 2 ≠ 0) := by
    intro s4 d4 r4 v4 q4 hst htx hrx hfl hft res s' hr
    rw [v4.d, hst, Radio.status_and_one_l] at hr
    by_cases hfull : s.radio.txFull = true
    · simp only [hfull, ↓reduceIte] at hr ⊢
      have : (!decide ((1 : Nat) ≠ 0)) = false := by decide
      simp only [this, Bool.false_eq_true, ↓reduceIte] at hr
      obtain ⟨rfl, rfl⟩ := Prod.mk.inj hr
      exact ⟨rfl, v4.wf, by rw [v4.r]; exact q4, by rw [v4.r]; exact htx, by rw [v4.r]; exact hrx,
        by rw [v4.r]; exact hfl, by rw [v4.r]; exact hft⟩
    · have hfull' : s.radio.txFull = false := by simpa using hfull
      simp only [hfull', Bool.false_eq_true, ↓reduceIte] at hr ⊢
      have : (!decide ((0 : Nat) ≠ 0)) = true := by decide
      simp only [this, ↓reduceIte, lexec_regWriteBytes] at hr
      obtain ⟨rfl, rfl⟩ := Prod.mk.inj hr
      have v5 := v4.cmd (0x20 ||| (0xA8 ||| pipe.toNat)) buf (Radio.ackCmd_ne_l _ hp5) q4
      rw [Radio.xfer_ack_l _ _ hp5] at v5
      have hne : buf.isEmpty = false := by
        cases buf with
        | nil => simp at h
        | cons x xs => rfl
      have hnf : r4.txFull = false := by rw [Radio.txFull_congr_l htx]; exact hfull'
      have hw5 : r4.writePayload (.ackFor pipe.toNat) buf =
          { r4 with txFifo := r4.txFifo ++ [{ kind := .ackFor pipe.toNat, data := buf }] } := by
        unfold Radio.writePayload
        simp only [hnf, hne, Bool.false_eq_true, or_self, ↓reduceIte]
        rw [List.take_of_length_le (by omega)]
      rw [hw5] at v5
      refine ⟨rfl, v5.wf, ?_, ?_, ?_, ?_, ?_⟩
      · rw [v5.r]; exact q4
      · rw [v5.r]; show r4.txFifo ++ _ = _; rw [htx]
      · rw [v5.r]; exact hrx
      · rw [v5.r]; exact hfl
      · rw [v5.r]; exact hft
  unfold loadAck at hrun
  simp only [lexec_bind, lexec_ite, h, and_self, ↓reduceIte, lexec_pure, lexec_regRead, txFull, lexec_getD] at hrun
  by_cases hf : s.readVal 0x1D &&& 2 = 0
  · -- the ACK-payload feature is off: `self.ack = True` first
    simp only [hf, ↓reduceIte, setAck, lexec_bind, lexec_regRead, lexec_ite, lexec_pure,
      lexec_regWrite 0x1C 0x3F _ (by decide) (by decide)] at hrun
    obtain ⟨v2, e2⟩ := v1.read 0x1D (by decide) hq
    have v3 := v2.write 0x1C (0x3F : Int).toNat (by decide) (by decide) hq
    have q3 : (s.radio.writeReg 0x1C [(0x3F : Int).toNat]).txMode = false :=
      (Radio.txMode_congr_l (Radio.writeReg_config_ne_l _ _ _ (by decide)) (Radio.writeReg_ce_l _ _ _)).trans hq
    have hb : ((s.spiStep [0x1D, 0]).readVal 0x1D &&& 5 ||| 4 ||| 2) ≤ 255 :=
      lite_or_le_255 _ _ (lite_or_le_255 _ _ (lite_and_le_255 _ _ (by decide)) (by decide)) (by decide)
    rw [lexec_regWriteNat _ _ _ hb (by decide)] at hrun
    simp only at hrun
    have v4 := v3.write 0x1D ((s.spiStep [0x1D, 0]).readVal 0x1D &&& 5 ||| 4 ||| 2) (by decide) (by decide) q3
    have q4 := (Radio.txMode_congr_l (Radio.writeReg_config_ne_l (s.radio.writeReg 0x1C [(0x3F : Int).toNat]) 0x1D
      [(s.spiStep [0x1D, 0]).readVal 0x1D &&& 5 ||| 4 ||| 2] (by decide)) (Radio.writeReg_ce_l _ _ _)).trans q3
    refine fin _ _ _ v4 q4 ?_ ?_ ?_ ?_ ?_ hrun
    · show (s.radio.writeReg 0x1C _).status = _
      exact Radio.writeReg_status_l _ _ _ (by decide)
    · rw [(Radio.writeReg_fifo_l _ _ _).1, (Radio.writeReg_fifo_l _ _ _).1]
    · rw [(Radio.writeReg_fifo_l _ _ _).2, (Radio.writeReg_fifo_l _ _ _).2]
    · rw [Radio.writeReg_flags_l _ _ _ (by decide), Radio.writeReg_flags_l _ _ _ (by decide)]
    · intro hp
      rw [Radio.writeReg_feature_bits_l _ _ (by rw [Radio.writeReg_plus_l]; exact hp)]
      have : ∀ x : Nat, (x &&& 5 ||| 4 ||| 2) &&& 7 &&& 2 ≠ 0 := by
        intro x
        have hy : x &&& 5 < 8 := lite_and_lt_of_mask _ _ _ (by decide)
        exact (by decide : ∀ y, y < 8 → (y ||| 4 ||| 2) &&& 7 &&& 2 ≠ 0) _ hy
      exact this _
  · simp only [hf, ↓reduceIte, lexec_pure] at hrun
    refine fin _ _ _ v1 hq rfl rfl rfl rfl ?_ hrun
    intro hp
    rw [e1] at hf
    have : (s.radio.readReg 0x1D).headD 0 = s.radio.feature := by
      show ([if s.radio.featureVisible then s.radio.feature else 0] : Bytes).headD 0 = _
      simp [Radio.featureVisible, hp]
    rw [this] at hf
    exact hf

end Nrf
