/-
C15 — the caller's frame after `queue.enqueue(frame)`.
-/
import NrfProofs.C15Step
namespace Nrf.Net
open Nrf
/-- the caller's frame after `queue.enqueue(frame)`: itself, or with the type NETWORK_EXT_DATA -/
theorem enqueue_frame (q : NetQueue) (fr : Frame) :
    (q.enqueue fr).2.2 = fr ∨ (q.enqueue fr).2.2 = { fr with header := fr.header.setTy NETWORK_EXT_DATA } := by
  have key : ∀ (x : NetQueue × Bool) (h : NetQueue → NetQueue) (g : Frame),
      (match x with | (q', r) => (h q', r, g)).2.2 = g := by
    intro x h g; rfl
  have key0 : ∀ (x : NetQueue × Bool) (g : Frame),
      (match x with | (q', r) => (q', r, g)).2.2 = g := by
    intro x g; rfl
  unfold NetQueue.enqueue
  by_cases c1 : (!q.frag) = true
  · rw [if_pos c1]; exact Or.inl (key0 _ _)
  rw [if_neg c1]
  dsimp only
  by_cases c2 : (fr.header.ty = MSG_FRAG_FIRST ∨ fr.header.ty = MSG_FRAG_MORE ∨ fr.header.ty = MSG_FRAG_LAST)
  · rw [if_pos c2]
    by_cases c3 : fr.header.ty = MSG_FRAG_FIRST
    · rw [if_pos c3]; exact Or.inl rfl
    rw [if_neg c3]
    by_cases c4 : (q.cacheValid && fr.header.fromNode == q.cache.header.fromNode
          && fr.header.toNode == q.cache.header.toNode && fr.header.frameId == q.cache.header.frameId) = true
    · rw [if_pos c4]
      by_cases c6 : (!(if fr.header.ty = MSG_FRAG_LAST then decide ((q.cache.header.reserved : Int) - 1 ≤ 1)
          else decide ((q.cache.header.reserved : Int) - 1 = (fr.header.reserved : Int)))) = true
      · rw [if_pos c6]; exact Or.inl rfl
      rw [if_neg c6]
      by_cases c5 : fr.header.ty = MSG_FRAG_LAST
      · rw [if_pos c5]
        by_cases c7 : fr.header.reserved = NETWORK_EXT_DATA
        · rw [if_pos c7]; exact Or.inr (key _ (fun q' => { q' with cacheValid := false }) _)
        · rw [if_neg c7]; exact Or.inl (key _ (fun q' => { q' with cacheValid := false }) _)
      · rw [if_neg c5]; exact Or.inl rfl
    · rw [if_neg c4]; exact Or.inl rfl
  · rw [if_neg c2]; exact Or.inl (key0 _ _)

end Nrf.Net
