/-
C13, the air log of the acknowledged journey: what must be on the air, as a list.

`SentBy tree s r (pos, data)`: the air record `r` is a transmission by the radio of the node object at tree
position `pos`, carrying the bytes `data`, a single attempt, reported sent (acknowledged by the addressee).
`ackPlan o d pk pkA m n`: the transmissions of the part of the route `o → d` from position `m` on, `n` hops
from the destination, in the order in which they happen in the closed `runOthers` system: the node at
position `m` sends the data frame `pk` on; the rest of the route does its part (nested); on the way back
the node at position `m` sends the NETWORK_ACK `pkA` towards the origin — as its originator when it is the
last router (`n = 1`), as a relay otherwise.
-/
import NrfProofs.C13HopsTop

namespace Nrf.Net
open Nrf Nrf.Spec Nrf.Proofs Nrf.Props.C04

/-- the air record `r` is one acknowledged single-attempt transmission of the bytes `p.2` by the radio of
    the node at tree position `p.1` -/
def SentBy (tree : Nat → List Nat) (s : NetState) (r : AirRec) (p : List Nat × Bytes) : Prop :=
  ∃ j, j < s.nodes.length ∧ tree j = p.1 ∧ r.sender = s.ridAt j ∧ r.pkt.data = p.2 ∧ r.attempts = 1 ∧ r.ok = true

/-- the transmissions of the routers from position `m` on (`n` hops from the destination), in order -/
def ackPlan (o d : List Nat) (pk pkA : Bytes) : Nat → Nat → List (List Nat × Bytes)
  | _, 0 => []
  | m, n + 1 => (hops m o d, pk) :: ackPlan o d pk pkA (m + 1) n ++ [(hops m o d, pkA)]

example : ackPlan [1, 1, 1] [] [0] [1] 1 2 = [([1, 1], [0]), ([1], [0]), ([1], [1]), ([1, 1], [1])] := by decide

/-- two lists related element by element (core Lean has no `List.Forall₂`) -/
inductive Forall2 {α β : Type} (R : α → β → Prop) : List α → List β → Prop
  | nil : Forall2 R [] []
  | cons {a b l1 l2} : R a b → Forall2 R l1 l2 → Forall2 R (a :: l1) (b :: l2)

theorem Forall2.append {α β : Type} {R : α → β → Prop} {l1 l1' : List α} {l2 l2' : List β}
    (h : Forall2 R l1 l2) (h' : Forall2 R l1' l2') : Forall2 R (l1 ++ l1') (l2 ++ l2') := by
  induction h with
  | nil => exact h'
  | cons hab _ ih => exact .cons hab ih

theorem Forall2.imp {α β : Type} {R S : α → β → Prop} (hRS : ∀ a b, R a b → S a b) {l1 : List α} {l2 : List β}
    (h : Forall2 R l1 l2) : Forall2 S l1 l2 := by
  induction h with
  | nil => exact .nil
  | cons hab _ ih => exact .cons (hRS _ _ hab) ih

theorem Forall2.length {α β : Type} {R : α → β → Prop} {l1 : List α} {l2 : List β}
    (h : Forall2 R l1 l2) : l1.length = l2.length := by
  induction h with
  | nil => rfl
  | cons _ _ ih => simp [ih]

/-- filtering both sides by predicates that agree on related elements -/
theorem Forall2.filter {α β : Type} {R : α → β → Prop} {P : α → Bool} {Q : β → Bool}
    (hPQ : ∀ a b, R a b → P a = Q b) {l1 : List α} {l2 : List β} (h : Forall2 R l1 l2) :
    Forall2 R (l1.filter P) (l2.filter Q) := by
  induction h with
  | nil => exact .nil
  | cons hab _ ih =>
    rw [List.filter_cons, List.filter_cons, hPQ _ _ hab]
    split
    · exact .cons hab ih
    · exact ih

theorem ackPlan_length (o d : List Nat) (pk pkA : Bytes) : ∀ n m, (ackPlan o d pk pkA m n).length = 2 * n := by
  intro n
  induction n with
  | zero => intro m; rfl
  | succ n ih =>
    intro m
    simp only [ackPlan, List.length_cons, List.length_append, ih, List.length_nil]
    omega

/-- who sends the NETWORK_ACK bytes, in order: the positions `m + n - 1` (the last router: the
    originator of the acknowledgement), `m + n - 2`, …, `m` (relays) — each exactly once -/
theorem ackPlan_acks (o d : List Nat) (pk pkA : Bytes) (hne : pk ≠ pkA) : ∀ n m,
    (ackPlan o d pk pkA m n).filter (fun p => decide (p.2 = pkA)) =
      ((List.range n).map (fun k => (hops (m + k) o d, pkA))).reverse := by
  intro n
  induction n with
  | zero => intro m; rfl
  | succ n ih =>
    intro m
    simp only [ackPlan, List.filter_cons, List.filter_append, List.filter_nil, hne,
      if_false, if_true, List.map_append, List.map_cons, List.map_nil, ih, decide_false, decide_true,
      Bool.false_eq_true]
    rw [List.range_succ_eq_map, List.map_cons, List.map_map, List.reverse_cons]
    congr 2
    apply List.map_congr_left
    intro k _
    show (hops (m + 1 + k) o d, _) = (hops (m + (k + 1)) o d, _)
    rw [Nat.add_assoc, Nat.add_comm 1 k]

/-- who sends the data bytes, in order: the positions `m`, …, `m + n - 1` — each exactly once -/
theorem ackPlan_data (o d : List Nat) (pk pkA : Bytes) (hne : pk ≠ pkA) : ∀ n m,
    (ackPlan o d pk pkA m n).filter (fun p => decide (p.2 = pk)) =
      (List.range n).map (fun k => (hops (m + k) o d, pk)) := by
  intro n
  induction n with
  | zero => intro m; rfl
  | succ n ih =>
    intro m
    have hne' : ¬ pkA = pk := fun e => hne e.symm
    simp only [ackPlan, List.filter_cons, List.filter_append, List.filter_nil, hne',
      if_false, if_true, List.map_cons, ih, decide_false, decide_true,
      Bool.false_eq_true, List.append_nil]
    rw [List.range_succ_eq_map, List.map_cons, List.map_map]
    congr 1
    apply List.map_congr_left
    intro k _
    show (hops (m + 1 + k) o d, _) = (hops (m + (k + 1)) o d, _)
    rw [Nat.add_assoc, Nat.add_comm 1 k]

end Nrf.Net
