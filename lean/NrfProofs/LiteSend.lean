/-
Termination of the lite driver's polling loops (`send()`, `resend()`): in TX role with a payload at
the head of the TX FIFO, raising CE latches TX_DS or MAX_RT — for every fault pattern, every world —
so the first status refresh ends the loop.
-/
import NrfProofs.LiteTx

namespace Nrf
open Lite
open Rf24 (b2n SendRes)

namespace Radio

theorem writePayload_txInv_l (r : Radio) (k : TxKind) (d : Bytes) (hk : k.isAckPayload = false) (h : r.LiteTxInv) :
    (r.writePayload k d).LiteTxInv := by
  unfold writePayload
  split
  · exact h
  · rename_i hc
    have hnf : ¬ r.txFifo.length ≥ 3 := by
      intro hh; apply hc; left; simp [txFull, hh]
    refine ⟨fun e he => ?_, ?_⟩
    · rcases List.mem_append.mp he with he | he
      · exact h.noAck e he
      · simp only [List.mem_singleton] at he; subst he; exact hk
    · simp only [List.length_append, List.length_singleton]; omega

/-- every command except W_ACK_PAYLOAD keeps "at most three entries, no ACK payload" -/
theorem runCmd_txInv_l (r : Radio) (c : Cmd) (d : Bytes) (hc : ∀ p, c ≠ .wAckPayload p) (h : r.LiteTxInv) :
    (r.runCmd c d).1.LiteTxInv := by
  unfold runCmd
  cases c with
  | wRegister reg =>
    dsimp only; split
    · exact h
    · exact ⟨by rw [(writeReg_fifo_l r reg d).1]; exact h.noAck, by rw [(writeReg_fifo_l r reg d).1]; exact h.len⟩
  | rRxPayload => dsimp only; unfold readPayload; split <;> exact ⟨h.noAck, h.len⟩
  | wTxPayload => exact writePayload_txInv_l r _ d rfl h
  | wTxPayloadNoAck => exact writePayload_txInv_l r _ d rfl h
  | wAckPayload p => exact absurd rfl (hc p)
  | flushTx => exact ⟨fun e he => (by cases he), (by simp)⟩
  | flushRx => exact ⟨h.noAck, h.len⟩
  | rRegister reg => exact h
  | activate => exact ⟨h.noAck, h.len⟩
  | rRxPlWid => exact h
  | nop => exact h

theorem decodeCmd_not_ack_l (c : Nat) (hc : ¬ (0xA8 ≤ c ∧ c ≤ 0xAD)) : ∀ p, decodeCmd c ≠ .wAckPayload p := by
  intro p
  unfold decodeCmd
  repeat' split
  all_goals first
    | (intro e; cases e)
    | omega

theorem xfer_txInv_l (r : Radio) (c : Nat) (d : Bytes) (hc : ¬ (0xA8 ≤ c ∧ c ≤ 0xAD)) (h : r.LiteTxInv) :
    (r.xfer (c :: d)).1.LiteTxInv :=
  runCmd_txInv_l r _ d (decodeCmd_not_ack_l c hc) h

/-- TX_DS / MAX_RT latched shows in STATUS -/
theorem status_flags_l (r : Radio) (h : r.flags &&& 0x30 ≠ 0) : r.status &&& 0x30 ≠ 0 := by
  unfold status
  apply lite_or_and_ne_zero
  apply lite_or_and_ne_zero
  have e : (0x70 : Nat) &&& 0x30 = 0x30 := by decide
  rw [Nat.and_assoc, e]
  exact h

theorem role_txMode_l (r : Radio) (hrole : r.config &&& 3 = 2) (hce : r.ce = true) : r.txMode = true := by
  unfold txMode pwrUp primRx
  have e2 : r.config &&& 2 = 2 := by
    have : r.config &&& 2 = (r.config &&& 3) &&& 2 := by
      have e : (3 : Nat) &&& 2 = 2 := by decide
      rw [Nat.and_assoc, e]
    rw [this, hrole]; rfl
  have e1 : r.config &&& 1 = 0 := by
    have : r.config &&& 1 = (r.config &&& 3) &&& 1 := by
      have e : (3 : Nat) &&& 1 = 1 := by decide
      rw [Nat.and_assoc, e]
    rw [this, hrole]; rfl
  simp [e2, e1, hce]

end Radio

namespace World

/-- an SPI transaction, seen from the radio it addresses (`r1` = the chip after the command) -/
theorem spi_self_l (w : World) (s : Nat) (out : Bytes) (hs : s < w.radios.length)
    (hinv : ((w.radio s).xfer out).1.LiteTxInv) :
    (w.spi s out).1.radios.length = w.radios.length ∧
    ((w.spi s out).1.radio s).LiteTxInv ∧
    ((w.spi s out).1.radio s).config = ((w.radio s).xfer out).1.config ∧
    ((w.spi s out).1.radio s).ce = (w.radio s).ce ∧
    (∀ m, ((w.radio s).xfer out).1.flags &&& m ≠ 0 → ((w.spi s out).1.radio s).flags &&& m ≠ 0) ∧
    ((w.spi s out).1.radio s).LiteStable := by
  unfold spi
  dsimp only
  have hr : ∀ (w' : World) (c n : Nat), ({ w' with clock := c, spiCount := n } : World).radio s = w'.radio s :=
    fun _ _ _ => rfl
  have hl : s < (w.jump s).radios.length := hs
  have e1 : ({ ((w.jump s).setRadio s (((w.jump s).radio s).xfer out).1) with
      clock := (w.jump s).clock + SPI_COST_NS, spiCount := (w.jump s).spiCount + 1 } : World).radio s =
      ((w.radio s).xfer out).1 := by
    rw [hr, radio_setRadio_self_l _ _ _ hl]; rfl
  have l1 : ({ ((w.jump s).setRadio s (((w.jump s).radio s).xfer out).1) with
      clock := (w.jump s).clock + SPI_COST_NS, spiCount := (w.jump s).spiCount + 1 } : World).radios.length =
      w.radios.length := by
    show ((w.jump s).setRadio s _).radios.length = _
    rw [setRadio_length_l]; rfl
  obtain ⟨t1, t2, t3, t4, t5, t6, _⟩ := tryTransmit_self_l s 4 _ (by rw [l1]; exact hs) (by rw [e1]; exact hinv)
  rw [e1] at t3 t4 t5 t6
  refine ⟨t1.trans l1, t2, t3, t4.trans (Radio.xfer_ce_l _ _), t5, t6 ?_⟩
  have := hinv.len; omega

/-- a CE edge, seen from the radio itself (`r1` = the chip with the new CE level) -/
theorem setCE_self_l (w : World) (s : Nat) (v : Bool) (hs : s < w.radios.length) (hinv : (w.radio s).LiteTxInv) :
    (w.setCE s v).radios.length = w.radios.length ∧
    ((w.setCE s v).radio s).LiteTxInv ∧
    ((w.setCE s v).radio s).config = (w.radio s).config ∧
    ((w.setCE s v).radio s).ce = v ∧
    (∀ m, (w.radio s).flags &&& m ≠ 0 → ((w.setCE s v).radio s).flags &&& m ≠ 0) ∧
    ((w.setCE s v).radio s).LiteStable ∧
    (({ (w.radio s) with ce := v } : Radio).txMode = true → (w.radio s).flags &&& 0x10 = 0 → (w.radio s).txFifo ≠ [] →
      ((w.setCE s v).radio s).flags &&& 0x30 ≠ 0) := by
  unfold setCE
  dsimp only
  have hl : s < (w.jump s).radios.length := hs
  have e1 : ((w.jump s).setRadio s { ((w.jump s).radio s) with ce := v }).radio s = { (w.radio s) with ce := v } := by
    rw [radio_setRadio_self_l _ _ _ hl]; rfl
  have l1 : ((w.jump s).setRadio s { ((w.jump s).radio s) with ce := v }).radios.length = w.radios.length := by
    rw [setRadio_length_l]; rfl
  have hinv' : ({ (w.radio s) with ce := v } : Radio).LiteTxInv := ⟨hinv.noAck, hinv.len⟩
  obtain ⟨t1, t2, t3, t4, t5, t6, t7⟩ := tryTransmit_self_l s 4 _ (by rw [l1]; exact hs) (by rw [e1]; exact hinv')
  rw [e1] at t3 t4 t5 t6 t7
  refine ⟨t1.trans l1, t2, t3, t4, t5, t6 ?_, fun h1 h2 h3 => t7 (by decide) h1 h2 h3⟩
  have := hinv.len
  show (w.radio s).txFifo.length ≤ 4
  omega

end World

/-- ready to transmit: the radio exists, is in the TX role and powered up, its TX FIFO holds at most
    three entries and no ACK payload, and nothing is pending -/
structure LiteState.TxReady (s : LiteState) : Prop where
  wf : s.Wf
  inv : s.radio.LiteTxInv
  stable : s.radio.LiteStable
  role : s.radio.config &&& 3 = 2

namespace LiteState

/-- any SPI transaction except a CONFIG write or W_ACK_PAYLOAD keeps the state ready -/
theorem TxReady.spi {s : LiteState} (h : s.TxReady) (c : Nat) (d : Bytes) (h20 : c ≠ 0x20)
    (hack : ¬ (0xA8 ≤ c ∧ c ≤ 0xAD)) :
    (s.spiStep (c :: d)).TxReady ∧ (s.spiStep (c :: d)).radio.ce = s.radio.ce ∧
    (∀ m, (s.radio.xfer (c :: d)).1.flags &&& m ≠ 0 → (s.spiStep (c :: d)).radio.flags &&& m ≠ 0) := by
  obtain ⟨a1, a2, a3, a4, a5, a6⟩ := World.spi_self_l s.w s.d.rid (c :: d) h.wf (Radio.xfer_txInv_l _ c d hack h.inv)
  refine ⟨⟨?_, a2, a6, ?_⟩, a4, a5⟩
  · show s.d.rid < (s.w.spi s.d.rid (c :: d)).1.radios.length
    rw [a1]; exact h.wf
  · show ((s.w.spi s.d.rid (c :: d)).1.radio s.d.rid).config &&& 3 = 2
    rw [a3, Radio.xfer_config_l _ _ _ h20]; exact h.role

theorem spiStep_status' (s : LiteState) (c : Nat) (d : Bytes) : (s.spiStep (c :: d)).d.status = s.radio.status := rfl

theorem TxReady.sleep {s : LiteState} (h : s.TxReady) (n : Nat) : (s.sleepStep n).TxReady :=
  ⟨h.wf, h.inv, h.stable, h.role⟩

end LiteState

/-! ### the polling loop -/

theorem lite_poll_done (s : LiteState) (n : Nat) (h : s.d.status &&& 0x30 ≠ 0) :
    lexec (pollFlags (n + 1)) s = (.ok (), s) := by
  unfold pollFlags
  simp only [lexec_bind, lexec_getD, lexec_ite, h, ↓reduceIte, lexec_pure]

/-- once TX_DS or MAX_RT is latched in the radio, the loop ends after at most one status refresh -/
theorem lite_poll_latched (s : LiteState) (n : Nat) (h : s.radio.flags &&& 0x30 ≠ 0) :
    lexec (pollFlags (n + 2)) s = (.ok (), s) ∨ lexec (pollFlags (n + 2)) s = (.ok (), s.spiStep [0xFF]) := by
  by_cases hst : s.d.status &&& 0x30 ≠ 0
  · exact Or.inl (lite_poll_done s (n + 1) hst)
  · right
    have hst' : s.d.status &&& 0x30 = 0 := by simpa using hst
    have h2 : (s.spiStep [0xFF]).d.status &&& 0x30 ≠ 0 := by
      rw [LiteState.spiStep_status']; exact Radio.status_flags_l _ h
    have := lite_poll_done (s.spiStep [0xFF]) n h2
    show lexec (pollFlags (n + 1 + 1)) s = _
    unfold pollFlags
    simp only [lexec_bind, lexec_getD, lexec_ite, hst', ↓reduceIte, update, lexec_regCmd, lexec_pure]
    exact this

/-! ### read() never blocks -/

theorem lite_any_ready (s : LiteState) (h : s.TxReady) :
    ∃ n s', lexec any s = (.ok n, s') ∧ s'.TxReady := by
  obtain ⟨b1, _, _⟩ := h.spi 0x1D [0] (by decide) (by decide)
  unfold any
  simp only [lexec_bind, lexec_regRead, lexec_getD, lexec_ite, lexec_pure]
  by_cases hc1 : s.readVal 0x1D &&& 4 ≠ 0 ∧ rxPipeField (s.spiStep [0x1D, 0]).d < 6
  · rw [if_pos hc1]
    obtain ⟨b2, _, _⟩ := b1.spi 0x60 [0] (by decide) (by decide)
    exact ⟨_, _, rfl, b2⟩
  · rw [if_neg hc1]
    by_cases hc2 : rxPipeField (s.spiStep [0x1D, 0]).d < 6
    · rw [if_pos hc2]
      obtain ⟨b2, _, _⟩ := b1.spi (0x11 + rxPipeField (s.spiStep [0x1D, 0]).d) [0] (by omega) (by omega)
      exact ⟨_, _, rfl, b2⟩
    · rw [if_neg hc2]
      exact ⟨_, _, rfl, b1⟩

theorem lite_read_ready (s : LiteState) (h : s.TxReady) :
    ∃ res s', lexec (Lite.read none) s = (.ok res, s') ∧ s'.TxReady := by
  have hfl : ((b2n true <<< 6 ||| b2n false <<< 5 ||| b2n false <<< 4 : Nat) : Int) = ((64 : Nat) : Int) := by decide
  obtain ⟨n, s1, e1, h1⟩ := lite_any_ready s h
  unfold Lite.read
  rw [lexec_bind]
  rw [e1]
  dsimp only
  by_cases hz : n = 0
  · exact ⟨none, s1, by simp only [lexec_bind, lexec_ite, hz, ↓reduceIte, lexec_pure], h1⟩
  · unfold clearStatusFlags
    rw [hfl]
    simp only [lexec_bind, lexec_ite, hz, ↓reduceIte, lexec_pure, lexec_regReadBytes,
      lexec_regWriteNat 7 64 _ (by decide) (by decide)]
    obtain ⟨a1, _, _⟩ := h1.spi 0x61 (zeros n) (by decide) (by decide)
    obtain ⟨a2, _, _⟩ := a1.spi (0x20 ||| 7) [64] (by decide) (by decide)
    exact ⟨_, _, rfl, a2⟩

/-! ### resend() -/

namespace Radio

theorem fifoStatus_and_16_l (r : Radio) : r.fifoStatus &&& 0x10 = if r.txFifo.isEmpty then 0x10 else 0 := by
  unfold fifoStatus
  have key : ∀ a b c d : Bool, ((if a then 0x20 else 0) ||| (if b then 0x10 else 0) ||| (if c then 0x02 else 0)
      ||| (if d then 0x01 else 0) : Nat) &&& 0x10 = if b then 0x10 else 0 := by decide
  have := key r.txFull r.txFifo.isEmpty (decide (r.rxFifo.length ≥ 3)) r.rxFifo.isEmpty
  simpa using this

theorem txInv_congr_l {r r' : Radio} (h : r'.txFifo = r.txFifo) (hi : r.LiteTxInv) : r'.LiteTxInv :=
  ⟨by rw [h]; exact hi.noAck, by rw [h]; exact hi.len⟩

end Radio

namespace World

/-- an SPI transaction that leaves the radio with nothing to transmit is just the command -/
theorem spi_radio_stable_l (w : World) (s : Nat) (out : Bytes) (hs : s < w.radios.length)
    (hq : ((w.radio s).xfer out).1.LiteStable) :
    (w.spi s out).1.radio s = ((w.radio s).xfer out).1 := by
  unfold spi
  dsimp only
  have hr : ∀ (w' : World) (c n : Nat), ({ w' with clock := c, spiCount := n } : World).radio s = w'.radio s :=
    fun _ _ _ => rfl
  have hl : s < (w.jump s).radios.length := hs
  rw [tryTransmit_stable_l]
  · rw [hr, radio_setRadio_self_l _ _ _ hl]; rfl
  · rw [hr, radio_setRadio_self_l _ _ _ hl]; exact hq

end World

/-- raising CE from a quiet state in the TX role with a payload queued and the flags cleared: the
    state is ready again and TX_DS or MAX_RT is latched — for every fault pattern -/
theorem lite_ce_high_latches (s : LiteState) (d : Lite) (r : Radio) (v : LiteState.View s d r)
    (hinv : r.LiteTxInv) (hrole : r.config &&& 3 = 2) (hfl : r.flags &&& 0x10 = 0) (hne : r.txFifo ≠ []) :
    (s.ceStep true).TxReady ∧ (s.ceStep true).radio.flags &&& 0x30 ≠ 0 ∧ (s.ceStep true).d = d := by
  have hr : s.w.radio s.d.rid = r := v.r
  obtain ⟨a1, a2, a3, a4, _, a6, a7⟩ := World.setCE_self_l s.w s.d.rid true v.wf (by rw [hr]; exact hinv)
  rw [hr] at a3 a7
  refine ⟨⟨?_, a2, a6, ?_⟩, ?_, v.d⟩
  · show s.d.rid < (s.w.setCE s.d.rid true).radios.length
    rw [a1]; exact v.wf
  · show ((s.w.setCE s.d.rid true).radio s.d.rid).config &&& 3 = 2
    rw [a3]; exact hrole
  · exact a7 (Radio.role_txMode_l _ hrole rfl) hfl hne

/-- `resend()` from the flag clearing on, out of a quiet state in the TX role with a payload queued -/
theorem lite_resendTail_ready (s3 : LiteState) (d3 : Lite) (r3 : Radio) (v3 : LiteState.View s3 d3 r3) (c3 : r3.ce = false)
    (hinv : r3.LiteTxInv) (hrole : r3.config &&& 3 = 2) (hne : r3.txFifo ≠ []) (so : Bool) :
    ∃ res s', lexec (resendTail so) s3 = (.ok res, s') ∧ s'.TxReady := by
  have hfl : ((b2n true <<< 6 ||| b2n true <<< 5 ||| b2n true <<< 4 : Nat) : Int) = ((112 : Nat) : Int) := by decide
  unfold resendTail clearStatusFlags
  rw [hfl]
  simp only [lexec_bind, lexec_regWriteNat 7 112 _ (by decide) (by decide), lexec_setCE, update, lexec_regCmd,
    lexec_pure]
  have v4 := v3.write 7 112 (by decide) (by decide) (Radio.txMode_of_ce_low_l c3)
  rw [Radio.writeReg_clear_l] at v4
  obtain ⟨h5, f5, _⟩ := lite_ce_high_latches _ _ _ v4 (Radio.txInv_congr_l (r := r3) rfl hinv)
    (by show r3.config &&& 3 = 2; exact hrole) (Nat.zero_and _) (by show r3.txFifo ≠ []; exact hne)
  obtain ⟨h6, _, _⟩ := h5.spi 0xFF [] (by decide) (by decide)
  have st6 : (((s3.spiStep [0x20 ||| 7, 112]).ceStep true).spiStep [0xFF]).d.status &&& 0x30 ≠ 0 := by
    rw [LiteState.spiStep_status']; exact Radio.status_flags_l _ f5
  rw [show POLL_FUEL = 7 + 1 from rfl, lite_poll_done _ 7 st6]
  simp only [lexec_getD, lexec_ite, lexec_pure, lexec_bind]
  by_cases hrd : (((s3.spiStep [0x20 ||| 7, 112]).ceStep true).spiStep [0xFF]).d.status &&& 0x60 = 0x60 ∧ (!so) = true
  · rw [if_pos hrd]
    obtain ⟨res, s8, e8, h8⟩ := lite_read_ready _ h6
    rw [e8]
    exact ⟨_, _, rfl, h8⟩
  · rw [if_neg hrd]
    exact ⟨_, _, rfl, h6⟩

/-- `resend()` returns (never runs out of fuel) and leaves the state ready — for every fault pattern -/
theorem lite_resend_ready (s : LiteState) (h : s.TxReady) (so : Bool) :
    ∃ res s', lexec (resend so) s = (.ok res, s') ∧ s'.TxReady := by
  -- fifo(True, True)
  obtain ⟨h1, _, _⟩ := h.spi 0x17 [0] (by decide) (by decide)
  have hr1 : (s.spiStep [0x17, 0]).radio = s.radio := by
    have := World.spi_radio_stable_l s.w s.d.rid [0x17, 0] h.wf (by rw [Radio.xfer_read_l _ _ (by decide)]; exact h.stable)
    rw [Radio.xfer_read_l _ _ (by decide)] at this
    exact this
  have hval : s.readVal 0x17 = s.radio.fifoStatus := by
    rw [LiteState.readVal_eq, Radio.xfer_read_l _ _ (by decide)]; rfl
  have e16 : (2 - b2n true) <<< (4 * b2n true) = 16 := by decide
  unfold resend fifo
  simp only [lexec_bind, lexec_regRead, lexec_pure, lexec_ite, hval, e16]
  by_cases hemp : s.radio.txFifo.isEmpty = true
  · have : b2n (decide (s.radio.fifoStatus &&& 16 ≠ 0)) ≠ 0 := by
      rw [Radio.fifoStatus_and_16_l, hemp]; decide
    rw [if_pos this]
    exact ⟨_, _, rfl, h1⟩
  · have : ¬ b2n (decide (s.radio.fifoStatus &&& 16 ≠ 0)) ≠ 0 := by
      have hf : s.radio.txFifo.isEmpty = false := by simpa using hemp
      rw [Radio.fifoStatus_and_16_l, hf]; decide
    rw [if_neg this]
    have hne : s.radio.txFifo ≠ [] := by
      intro e; apply hemp; rw [e]; rfl
    simp only [lexec_setCE, lexec_getD, LiteState.ceStep_d]
    -- quiet part: CE low, optional FLUSH_RX
    have v1 : LiteState.View (s.spiStep [0x17, 0]) (s.spiStep [0x17, 0]).d s.radio := ⟨h1.wf, rfl, hr1⟩
    have v2 := v1.ceLow
    have q2 : ({ s.radio with ce := false } : Radio).txMode = false := Radio.txMode_of_ce_low_l rfl
    by_cases hflush : (!so) = true ∧ rxPipeField (s.spiStep [0x17, 0]).d < 6
    · rw [if_pos hflush]
      unfold flushRx
      simp only [lexec_regCmd]
      have v3 := v2.cmd 0xE2 [] (by decide) q2
      rw [Radio.xfer_flushRx_l] at v3
      exact lite_resendTail_ready _ _ _ v3 rfl ⟨h.inv.noAck, h.inv.len⟩ h.role hne so
    · rw [if_neg hflush]
      exact lite_resendTail_ready _ _ _ v2 rfl ⟨h.inv.noAck, h.inv.len⟩ h.role hne so

/-! ### forced retries, the end of send() -/

theorem lite_forceRetryLoop_ready (so : Bool) (fuel : Nat) (n : Int) (res : SendRes) (s : LiteState) (h : s.TxReady)
    (hn : 0 ≤ n) (hf : n.toNat < fuel) :
    ∃ res' s', lexec (forceRetryLoop so fuel n res) s = (.ok res', s') ∧ s'.TxReady := by
  induction fuel generalizing n res s with
  | zero => omega
  | succ f ih =>
    have step : ∀ c : Bool, (c = true → n ≠ 0) →
        ∃ res' s', lexec (if c = true then (do let r ← resend so; forceRetryLoop so f (n - 1) r) else pure res) s =
          (.ok res', s') ∧ s'.TxReady := by
      intro c hc
      cases c with
      | false => exact ⟨res, s, by rw [if_neg (by decide)]; rfl, h⟩
      | true =>
        rw [if_pos rfl]
        obtain ⟨r1, s1, e1, h1⟩ := lite_resend_ready s h so
        rw [lexec_bind, e1]
        dsimp only
        have hn0 : n ≠ 0 := hc rfl
        exact ih (n - 1) r1 s1 h1 (by omega) (by omega)
    unfold forceRetryLoop
    dsimp only
    exact step _ (fun hc => by simp only [Bool.and_eq_true, bne_iff_ne, ne_eq] at hc; exact hc.1)

/-- after the payload went out (TX_DS or MAX_RT latched), `send()` finishes: poll, forced retries,
    ACK payload — no loop runs out of fuel -/
theorem lite_sendFinish_ready (s : LiteState) (h : s.TxReady) (hl : s.radio.flags &&& 0x30 ≠ 0) (so : Bool) (fr : Int)
    (hfr : 0 ≤ fr) (caller : Bytes) :
    ∃ res s', lexec (sendFinish so fr caller) s = (.ok res, s') ∧ s'.TxReady := by
  unfold sendFinish
  rw [lexec_bind]
  -- the polling loop
  have hp : ∃ s1, lexec (pollFlags POLL_FUEL) s = (.ok (), s1) ∧ s1.TxReady := by
    rcases lite_poll_latched s 6 hl with e | e
    · exact ⟨s, e, h⟩
    · exact ⟨_, e, (h.spi 0xFF [] (by decide) (by decide)).1⟩
  obtain ⟨s1, e1, h1⟩ := hp
  rw [e1]
  dsimp only
  simp only [lexec_bind, lexec_getD]
  obtain ⟨r2, s2, e2, h2⟩ := lite_forceRetryLoop_ready so (fr.natAbs + 1) fr
    (.bool (decide (s1.d.status &&& 0x20 ≠ 0))) s1 h1 hfr (by omega)
  rw [e2]
  dsimp only
  simp only [lexec_ite, lexec_bind, lexec_pure]
  by_cases hc : r2 = SendRes.bool true ∧ s2.d.status &&& 0x60 = 0x60 ∧ (!so) = true
  · rw [if_pos hc]
    obtain ⟨r3, s3, e3, h3⟩ := lite_read_ready s2 h2
    rw [e3]
    exact ⟨_, _, rfl, h3⟩
  · rw [if_neg hc]
    exact ⟨_, _, rfl, h2⟩

/-! ### write() as send() calls it (CE is raised at the end) -/

theorem lite_writeFinish_ce (buf b : Bytes) (noack : Bool) (s : LiteState) :
    lexec (writeFinish buf b noack false) s =
      (match lexec (writeFinish buf b noack true) s with
       | (.ok v, s1) => (.ok v, s1.ceStep true)
       | (.error e, s1) => (.error e, s1)) := by
  unfold writeFinish
  simp only [lexec_bind, lexec_regRead, lexec_ite, lexec_regWriteBytes, lexec_setCE, lexec_getD, lexec_pure,
    Bool.not_false, Bool.not_true, Bool.false_eq_true, ↓reduceIte, lexec_sleepNs, LiteState.ceStep_d]
  by_cases hc : s.readVal 0 &&& 3 ≠ 2
  · simp only [if_pos hc]
    rcases hw : lexec (regWrite 0 ((s.readVal 0 &&& 0x7C ||| 2 : Nat) : Int)) (s.spiStep [0, 0]) with ⟨r, s2⟩
    cases r <;> rfl
  · simp only [if_neg hc]

/-- the payload selection only reads registers -/
theorem lite_writePayloadOf_view (s : LiteState) (hw : s.Wf) (hq : s.radio.txMode = false) (buf : Bytes)
    {rb : Except PyErr Bytes} {sb : LiteState} (hrun : lexec (writePayloadOf buf) s = (rb, sb)) :
    ∃ d', LiteState.View sb d' s.radio := by
  have v0 := LiteState.View.mk' s hw
  obtain ⟨v1, _⟩ := v0.read 0x1D (by decide) hq
  obtain ⟨v2, _⟩ := v1.read 0x11 (by decide) hq
  unfold writePayloadOf getDynamicPayloads getPayloadLength at hrun
  simp only [lexec_bind, lexec_regRead, lexec_pure, lexec_ite] at hrun
  by_cases hd : decide (s.readVal 0x1D &&& 4 = 4) = true
  · simp only [hd, ↓reduceIte, lexec_raise, lexec_pure] at hrun
    by_cases hb : buf.isEmpty = true ∨ buf.length > 32
    · rw [if_pos hb] at hrun
      obtain ⟨rfl, rfl⟩ := Prod.mk.inj hrun
      exact ⟨_, v1⟩
    · rw [if_neg hb] at hrun
      obtain ⟨rfl, rfl⟩ := Prod.mk.inj hrun
      exact ⟨_, v1⟩
  · simp only [hd, Bool.false_eq_true, ↓reduceIte] at hrun
    obtain ⟨rfl, rfl⟩ := Prod.mk.inj hrun
    exact ⟨_, v2⟩

/-- with room in the TX FIFO, `write(…, write_only=False)` is `write(…, write_only=True)` followed by
    the CE edge -/
theorem lite_write_ce (s : LiteState) (hw : s.Wf) (hce : s.radio.ce = false) (hnf : s.radio.txFull = false)
    (buf : Bytes) (m noack : Bool) :
    lexec (write buf m noack false) s =
      (match lexec (write buf m noack true) s with
       | (.ok v, s1) => (.ok v, s1.ceStep true)
       | (.error e, s1) => (.error e, s1)) := by
  have hq : s.radio.txMode = false := Radio.txMode_of_ce_low_l hce
  have hfl : ((b2n true <<< 6 ||| b2n true <<< 5 ||| b2n true <<< 4 : Nat) : Int) = ((112 : Nat) : Int) := by decide
  unfold write
  rw [lexec_bind, lexec_bind]
  rcases hp : lexec (writePayloadOf buf) s with ⟨rb, sb⟩
  cases rb with
  | error e => rfl
  | ok b =>
    dsimp only
    obtain ⟨d', vb⟩ := lite_writePayloadOf_view s hw hq buf hp
    have v3 := vb.write 7 112 (by decide) (by decide) hq
    have hst : (sb.spiStep [0x20 ||| 7, 112]).d.status &&& 1 = 0 := by
      rw [v3.d]
      show s.radio.status &&& 1 = 0
      rw [Radio.status_and_one_l, hnf]; rfl
    have key : ∀ wo : Bool, lexec (writeTail buf b noack wo) sb =
        lexec (writeFinish buf b noack wo) (sb.spiStep [0x20 ||| 7, 112]) := by
      intro wo
      unfold writeTail clearStatusFlags
      rw [hfl]
      simp only [lexec_bind, lexec_regWriteNat 7 112 _ (by decide) (by decide), lexec_getD, lexec_ite, lexec_pure]
      rw [if_neg (by rw [hst]; decide)]
    rw [key false, key true, lite_writeFinish_ce]

/-! ### send() -/

theorem lite_role_after_powerup (c : Nat) : ((c &&& 0x7C) ||| 2) &&& 3 = 2 := by
  have e1 : (0x7C : Nat) &&& 3 = 0 := by decide
  have e2 : (2 : Nat) &&& 3 = 2 := by decide
  rw [Nat.and_or_distrib_right, Nat.and_assoc, e1, e2, Nat.and_zero, Nat.zero_or]

/-- `send()` from the `write()` call on, out of a quiet state with room in the TX FIFO -/
theorem lite_sendCore_ready (s3 : LiteState) (d3 : Lite) (r3 : Radio) (v3 : LiteState.View s3 d3 r3) (c3 : r3.ce = false)
    (hinv : r3.LiteTxInv) (hroom : r3.txFifo.length < 3)
    (hpl : (r3.readReg 0x1D).headD 0 &&& 4 = 4 ∨ (r3.readReg 0x11).headD 0 ≠ 0)
    (buf : Bytes) (m noack : Bool) (fr : Int) (hfr : 0 ≤ fr) (so : Bool) :
    (∃ res s', lexec (sendCore buf m noack fr so) s3 = (.ok res, s') ∧ s'.TxReady) ∨
    (∃ s', lexec (sendCore buf m noack fr so) s3 = (.error .valueError, s')) := by
  have hr3 : s3.radio = r3 := v3.r
  have hnf : s3.radio.txFull = false := by
    rw [hr3]; unfold Radio.txFull; simp; omega
  unfold sendCore
  rw [lexec_bind, lite_write_ce s3 v3.wf (by rw [hr3]; exact c3) hnf]
  rcases hw : lexec (write buf m noack true) s3 with ⟨res1, s4⟩
  have sp := lite_write_spec s3 v3.wf (by rw [hr3]; exact c3) buf m noack hw
  rw [hr3] at sp
  dsimp only at sp
  obtain ⟨w4, _, _, sp⟩ := sp
  split at sp
  · -- dynamic payloads, illegal length: ValueError
    obtain ⟨rfl, _⟩ := sp
    exact Or.inr ⟨s4, rfl⟩
  · rename_i hc1
    have hnf3 : ¬ (r3.txFull = true) := by rw [← hr3, hnf]; decide
    rw [if_neg hnf3] at sp
    obtain ⟨⟨x, rfl, _⟩, er⟩ := sp
    left
    dsimp only
    -- the payload is not empty
    have hne : (Spec.Lite.expectedPayload (decide ((r3.readReg 0x1D).headD 0 &&& 4 = 4)) ((r3.readReg 0x11).headD 0)
        buf).isEmpty = false := by
      by_cases hd : (r3.readReg 0x1D).headD 0 &&& 4 = 4
      · have hok : Spec.Lite.dynLenOk buf.length = true := by
          by_cases h : Spec.Lite.dynLenOk buf.length = true
          · exact h
          · exact absurd ⟨decide_eq_true hd, by simpa using h⟩ hc1
        simp only [hd, decide_true, Spec.Lite.expectedPayload, ↓reduceIte]
        cases buf with
        | nil => simp [Spec.Lite.dynLenOk] at hok
        | cons a as => rfl
      · have hp0 : (r3.readReg 0x11).headD 0 ≠ 0 := by
          rcases hpl with h | h
          · exact absurd h hd
          · exact h
        simp only [hd, decide_false]
        have hlen : (Spec.Lite.expectedPayload false ((r3.readReg 0x11).headD 0) buf).length =
            (r3.readReg 0x11).headD 0 := by
          rw [← lite_staticPayload_eq]; exact lite_staticPayload_length _ _
        cases hh : Spec.Lite.expectedPayload false ((r3.readReg 0x11).headD 0) buf with
        | nil => rw [hh] at hlen; simp at hlen; exact absurd hlen.symm hp0
        | cons a as => rfl
    rw [hne] at er
    simp only [Bool.false_eq_true, ↓reduceIte] at er
    -- CE goes high: TX_DS or MAX_RT gets latched
    have v4 : LiteState.View s4 s4.d _ := ⟨w4, rfl, er⟩
    obtain ⟨h5, f5, _⟩ := lite_ce_high_latches _ _ _ v4
      ⟨by
        intro e he
        rcases List.mem_append.mp he with he | he
        · exact hinv.noAck e he
        · simp only [List.mem_singleton] at he; subst he; cases noack <;> rfl,
       by simp only [List.length_append, List.length_singleton]; omega⟩
      (by
        show (if r3.config &&& 3 ≠ 2 then (r3.config &&& 0x7C) ||| 2 else r3.config) &&& 3 = 2
        split
        · exact lite_role_after_powerup _
        · rename_i h; simpa using h)
      (Nat.zero_and _)
      (by simp)
    exact lite_sendFinish_ready _ h5 f5 so fr hfr buf

/-- **`send()` returns.**  With room in the TX FIFO, no ACK payload queued in it, and (static mode) a
    non-zero payload length, `send()` never runs out of fuel: it returns a result, or `ValueError` for
    an illegal dynamic payload — in any world, for every fault pattern, every other radio, every
    `force_retry ≥ 0`.  Whatever state the radio was in (RX mode, powered down), `write()` forces the
    TX role itself. -/
theorem lite_send_returns (s : LiteState) (hw : s.Wf) (hinv : s.radio.LiteTxInv) (hroom : s.radio.txFifo.length < 3)
    (hpl : (s.radio.readReg 0x1D).headD 0 &&& 4 = 4 ∨ (s.radio.readReg 0x11).headD 0 ≠ 0)
    (buf : Bytes) (m noack : Bool) (fr : Int) (hfr : 0 ≤ fr) (so : Bool) :
    (∃ res s', lexec (send buf m noack fr so) s = (.ok res, s') ∧ s'.TxReady) ∨
    (∃ s', lexec (send buf m noack fr so) s = (.error .valueError, s')) := by
  have v1 := (LiteState.View.mk' s hw).ceLow
  have q1 : ({ s.radio with ce := false } : Radio).txMode = false := Radio.txMode_of_ce_low_l rfl
  unfold send
  simp only [lexec_bind, lexec_setCE, lexec_getD, lexec_ite, LiteState.ceStep_d, lexec_pure, flushTx, flushRx,
    lexec_regCmd]
  by_cases hf1 : s.d.status &&& 0x10 ≠ 0 ∨ s.d.status &&& 1 ≠ 0
  · rw [if_pos hf1]
    try dsimp only
    have v2 := v1.cmd 0xE1 [] (by decide) q1
    rw [Radio.xfer_flushTx_l] at v2
    have q2 : ({ s.radio with ce := false, txFifo := [] } : Radio).txMode = false := Radio.txMode_of_ce_low_l rfl
    by_cases hf2 : (!so) = true ∧ rxPipeField ((s.ceStep false).spiStep [0xE1]).d < 6
    · rw [if_pos hf2]
      try dsimp only
      have v3 := v2.cmd 0xE2 [] (by decide) q2
      rw [Radio.xfer_flushRx_l] at v3
      exact lite_sendCore_ready _ _ _ v3 rfl ⟨fun e he => (by cases he), (by simp)⟩ (by simp) hpl buf m noack fr hfr so
    · rw [if_neg hf2]
      exact lite_sendCore_ready _ _ _ v2 rfl ⟨fun e he => (by cases he), (by simp)⟩ (by simp) hpl buf m noack fr hfr so
  · rw [if_neg hf1]
    by_cases hf2 : (!so) = true ∧ rxPipeField s.d < 6
    · rw [if_pos hf2]
      try dsimp only
      have v3 := v1.cmd 0xE2 [] (by decide) q1
      rw [Radio.xfer_flushRx_l] at v3
      exact lite_sendCore_ready _ _ _ v3 rfl ⟨hinv.noAck, hinv.len⟩ hroom hpl buf m noack fr hfr so
    · rw [if_neg hf2]
      exact lite_sendCore_ready _ _ _ v1 rfl ⟨hinv.noAck, hinv.len⟩ hroom hpl buf m noack fr hfr so

end Nrf
