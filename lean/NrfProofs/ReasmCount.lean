/-
C06 helper: counting.  For a fragmented sent message `m` and each of its fragment indices `i`:
  (#copies of `m` handed out) + (#copies queued) + [the cache holds a prefix of `m` that includes
  fragment `i`]  ≤  #deliveries of fragment `i` of `m`.
-/
import NrfProofs.ReasmRun

namespace Nrf.Proofs
open Nrf.Net Nrf.Spec

instance (m : Msg) (g : Frame) : Decidable (IsWholeOf m g) := by unfold IsWholeOf; infer_instance

/-- the `k`-th frame of `m` as the receiving node's frame object -/
def fragF (m : Msg) (k : Nat) : Frame := ofW (fragment m (total m) k)

/-- the cache currently holds fragments `0..j-1` of `m` for some `j > i` -/
def Holds (m : Msg) (i : Nat) (v : VQ) : Prop :=
  v.cacheValid = true ∧ ∃ j, i < j ∧ j + 1 ≤ total m ∧ v.cache = partialFrame m j

open Classical in
noncomputable def ind (m : Msg) (i : Nat) (v : VQ) : Nat := if Holds m i v then 1 else 0

open Classical in
theorem ind_le_one (m : Msg) (i : Nat) (v : VQ) : ind m i v ≤ 1 := by unfold ind; split <;> omega

open Classical in
theorem ind_eq_zero {m : Msg} {i : Nat} {v : VQ} (h : ¬ Holds m i v) : ind m i v = 0 := by
  simp [ind, h]

open Classical in
theorem ind_eq_one {m : Msg} {i : Nat} {v : VQ} (h : Holds m i v) : ind m i v = 1 := by
  simp [ind, h]

/-- queued copies of `m` plus the cache indicator -/
noncomputable def load (m : Msg) (i : Nat) (v : VQ) : Nat :=
  v.items.countP (fun g => decide (IsWholeOf m g)) + ind m i v

theorem partial_fields (m : Msg) (j : Nat) :
    (partialFrame m j).header.fromNode = m.src ∧ (partialFrame m j).header.toNode = m.dst ∧
      (partialFrame m j).header.frameId = m.id := ⟨rfl, rfl, rfl⟩

theorem partial_same_msg (sent : List Msg) (hs : SentOk sent) (m m' : Msg) (hm : m ∈ sent)
    (hm' : m' ∈ sent) (hf : Fragd m) (hf' : Fragd m') (j j' : Nat)
    (h : partialFrame m j = partialFrame m' j') : m = m' := by
  have h1 := congrArg (fun f => f.header.fromNode) h
  have h2 := congrArg (fun f => f.header.toNode) h
  have h3 := congrArg (fun f => f.header.frameId) h
  exact hs.2 m hm m' hm' hf hf' h1 h2 h3

theorem partial_same_j (m : Msg) (j j' : Nat) (h1 : 1 ≤ j) (h2 : j + 1 ≤ total m) (h1' : 1 ≤ j')
    (h2' : j' + 1 ≤ total m) (h : partialFrame m j = partialFrame m j') : j = j' := by
  have := congrArg (fun f => f.header.reserved) h
  simp only [partialFrame] at this
  omega

theorem whole_same_msg (sent : List Msg) (hs : SentOk sent) (m m' : Msg) (hm : m ∈ sent)
    (hm' : m' ∈ sent) (hf : Fragd m) (c : Frame) (h : IsWholeOf m c) (h' : IsWholeOf m' c) : m = m' := by
  obtain ⟨a1, a2, a3, _, a5⟩ := h
  obtain ⟨b1, b2, b3, _, b5⟩ := h'
  have hf' : Fragd m' := by unfold Fragd at hf ⊢; rw [← b5, a5]; exact hf
  exact hs.2 m hm m' hm' hf hf' (a1 ▸ b1) (a2 ▸ b2) (a3 ▸ b3)

/-- what the delivery of fragment `k` of `m` does to the value state -/
theorem deliver_cases (sent : List Msg) (rcv : List Frame) (v : VQ) (hs : SentOk sent)
    (hv : VInv sent rcv v) (m : Msg) (hm : m ∈ sent) (hf : Fragd m) (k : Nat) (hk : k < total m) :
    let v' := (v.enqueueFrag Fixes.all (fragF m k)).1.1
    (k = 0 ∧ v' = { v with cache := partialFrame m 1, cacheValid := true }) ∨
    (0 < k ∧ k + 1 < total m ∧ v.cacheValid = true ∧ v.cache = partialFrame m k ∧
        v' = { v with cache := partialFrame m (k + 1) }) ∨
    (k + 1 = total m ∧ v.cacheValid = true ∧ v.cache = partialFrame m k ∧
        ∃ c, IsWholeOf m c ∧ Wire c ∧
          v' = { (VQ.enqueueBase Fixes.all { v with cache := c } c).1 with cacheValid := false }) ∨
    (0 < k ∧ v' = v) := by
  have hok := hs.1 m hm
  have hr := fragment_wire m hok k
  have h2 := total_ge2 hf
  simp only [fragF]
  unfold VQ.enqueueFrag
  by_cases hlast : k + 1 = total m
  · have hty : (fragment m (total m) k).ty = FRAG_LAST := by simp [fragment, hlast]
    rw [fragAct_last _ _ _ hr hty]
    by_cases hcond : (cacheMatch v.cache v.cacheValid (fragment m (total m) k) &&
        decide ((v.cache.header.reserved : Int) - 1 ≤ 1)) = true
    · simp only [hcond, ↓reduceIte, applyActV]
      rw [Bool.and_eq_true, decide_eq_true_eq] at hcond
      obtain ⟨j, j1, j2, hc, _⟩ := match_partial sent rcv v hs hv m hm hf k hcond.1
      have hjk : j = k := by
        have := hcond.2
        rw [hc] at this
        simp only [partialFrame] at this
        omega
      subst hjk
      have hcv : v.cacheValid = true := by
        have := hcond.1
        simp only [cacheMatch, Bool.and_eq_true] at this
        exact this.1.1.1
      have hbody : v.cache.message ++ (fragment m (total m) j).body = m.body := by
        rw [hc]
        simp only [partialFrame, fragment, FRAG_SIZE]
        rw [take_chunk]
        apply List.take_of_length_le
        have := fragCount_upper m.body.length
        unfold total at hlast
        rw [← hlast] at this
        exact this
      have hrsv : (fragment m (total m) j).rsv = m.ty := by simp [fragment, hlast]
      right; right; left
      have hinv : Fixes.all.invalidate = true := rfl
      simp only [hinv, ↓reduceIte]
      generalize hcdef : (⟨{ (ofW (fragment m (total m) j)).header with
          msgType := .int (fragment m (total m) j).rsv },
          v.cache.message ++ (fragment m (total m) j).body⟩ : Frame) = c
      refine ⟨hlast, hcv, hc, c, ?_, ?_, rfl⟩
      · rw [← hcdef, hbody, hrsv]; exact ⟨rfl, rfl, rfl, rfl, rfl⟩
      · rw [← hcdef, hrsv]
        refine ⟨⟨m.ty, rfl⟩, ?_⟩
        simp only [toW, ofW, fragment, hlast, ↓reduceIte]
        exact ⟨hok.1, hok.2.2.1, hok.2.2.2.1, hok.2.2.2.2.1, hok.2.2.2.2.1⟩
    · simp only [hcond, Bool.false_eq_true, ↓reduceIte, applyActV]
      right; right; right
      exact ⟨by omega, trivial⟩
  · by_cases hfirst : k = 0
    · subst hfirst
      have hty : (fragment m (total m) 0).ty = FRAG_FIRST := by simp [fragment, hlast]
      rw [fragAct_first _ _ _ hr hty]
      simp only [applyActV]
      left
      exact ⟨trivial, by rw [partial_one m hf]⟩
    · have hty : (fragment m (total m) k).ty = FRAG_MORE := by simp [fragment, hlast, hfirst]
      rw [fragAct_more _ _ _ hr hty]
      by_cases hcond : (cacheMatch v.cache v.cacheValid (fragment m (total m) k) &&
          decide ((v.cache.header.reserved : Int) - 1 = ((fragment m (total m) k).rsv : Int))) = true
      · simp only [hcond, ↓reduceIte, applyActV]
        rw [Bool.and_eq_true, decide_eq_true_eq] at hcond
        obtain ⟨j, j1, j2, hc, _⟩ := match_partial sent rcv v hs hv m hm hf k hcond.1
        have hrsv : (fragment m (total m) k).rsv = total m - k := by simp [fragment, hlast]
        have hjk : j = k := by
          have := hcond.2
          rw [hc, hrsv] at this
          simp only [partialFrame] at this
          omega
        subst hjk
        have hcv : v.cacheValid = true := by
          have := hcond.1
          simp only [cacheMatch, Bool.and_eq_true] at this
          exact this.1.1.1
        right; left
        refine ⟨by omega, by omega, hcv, hc, ?_⟩
        congr 1
        rw [hc]
        simp only [partialFrame, ofW, fragment, hlast, hfirst, ↓reduceIte, FRAG_SIZE]
        rw [take_chunk]
        have e1 : ¬ (j + 1 = 1) := by omega
        simp [e1, hfirst]
      · simp only [hcond, Bool.false_eq_true, ↓reduceIte, applyActV]
        right; right; right
        exact ⟨by omega, trivial⟩

theorem countP_enqueueBase (v : VQ) (c : Frame) (hw : Wire c) (p : Frame → Bool) :
    (VQ.enqueueBase Fixes.all v c).1.items.countP p ≤ v.items.countP p + (if p c then 1 else 0) := by
  rw [enqueueBase_wire Fixes.all v c hw]
  split
  · simp
  · simp only [List.countP_append, List.countP_cons, List.countP_nil]; omega

theorem holds_frag_unique (sent : List Msg) (hs : SentOk sent) (m m' : Msg) (hm : m ∈ sent)
    (hm' : m' ∈ sent) (hf : Fragd m) (hf' : Fragd m') (i j' : Nat) (h1' : 1 ≤ j')
    (h2' : j' + 1 ≤ total m') (v : VQ) (hc : v.cache = partialFrame m' j') (h : Holds m i v) :
    m = m' ∧ i < j' := by
  obtain ⟨_, j, hij, hj2, hcj⟩ := h
  rw [hc] at hcj
  have hmm : m = m' := (partial_same_msg sent hs m' m hm' hm hf' hf j' j hcj).symm
  subst hmm
  have := partial_same_j m j' j h1' h2' (by omega) hj2 hcj
  exact ⟨rfl, by omega⟩

/-- one delivery raises the load of (`m`, `i`) only if it is a delivery of fragment `i` of `m` -/
theorem load_deliver (sent : List Msg) (rcv : List Frame) (v : VQ) (hs : SentOk sent)
    (hv : VInv sent rcv v) (m : Msg) (hm : m ∈ sent) (hf : Fragd m) (i : Nat) (hi : i < total m)
    (w : WFrame) (hw : IsFrameOf sent w) :
    load m i ((v.enqueueFrag Fixes.all (ofW w)).1.1) ≤
      load m i v + (if ofW w = fragF m i then 1 else 0) := by
  obtain ⟨m', hm', ⟨hnf, h1, h2, h3, h4, h5, h6⟩ | ⟨hf', k, hk, rfl⟩⟩ := hw
  · -- a plain frame: not a copy of a fragmented message, cache untouched
    have hok := hs.1 m' hm'
    have hr : w.InRange := ⟨h1 ▸ hok.1, h2 ▸ hok.2.2.1, h3 ▸ hok.2.2.2.1, h4 ▸ hok.2.2.2.2.1, h5⟩
    have hty := hok.2.2.2.2.2.2 hnf
    have hnft : NotFragType (ofW w) := by
      simp only [NotFragType, ofW, h4, ne_eq, MsgT.int.injEq, MSG_FRAG_FIRST, MSG_FRAG_MORE,
        MSG_FRAG_LAST]
      exact hty
    have hnw : ¬ IsWholeOf m (ofW w) := by
      intro hh
      have : w.body = m.body := hh.2.2.2.2
      unfold Fragd at hf hnf
      rw [← this, h6] at hf
      exact hnf hf
    unfold VQ.enqueueFrag
    rw [fragAct_base _ _ _ _ hnft]
    simp only [applyActV]
    have hcnt := countP_enqueueBase v (ofW w) (wire_ofW w hr) (fun g => decide (IsWholeOf m g))
    simp only [hnw, decide_false, Bool.false_eq_true, ↓reduceIte, Nat.add_zero] at hcnt
    obtain ⟨_, _, e3, e4⟩ := enqueueBase_items Fixes.all v (ofW w) (wire_ofW w hr) (fun _ => True)
      (fun _ _ => trivial) trivial
    have hind : ind m i (VQ.enqueueBase Fixes.all v (ofW w)).1 = ind m i v := by
      unfold ind Holds; rw [e3, e4]
    unfold load
    rw [hind]; omega
  · have h2t := total_ge2 hf'
    rcases deliver_cases sent rcv v hs hv m' hm' hf' k hk with
      ⟨hk0, hv'⟩ | ⟨hk0, hk1, hcv, hc, hv'⟩ | ⟨hk1, hcv, hc, c, hwc, hwire, hv'⟩ | ⟨_, hv'⟩
    · -- FIRST
      simp only [fragF] at hv' ⊢
      rw [hv']
      subst hk0
      unfold load
      simp only
      by_cases hh : Holds m i { v with cache := partialFrame m' 1, cacheValid := true }
      · obtain ⟨hmm, hi1⟩ := holds_frag_unique sent hs m m' hm hm' hf hf' i 1 (Nat.le_refl _)
          (by omega) _ rfl hh
        subst hmm
        have : i = 0 := by omega
        subst this
        rw [ind_eq_one hh]
        simp only [↓reduceIte]
        have := Nat.zero_le (ind m 0 v)
        omega
      · rw [ind_eq_zero hh]; omega
    · -- MORE accepted
      simp only [fragF] at hv' ⊢
      rw [hv']
      unfold load
      simp only
      by_cases hh : Holds m i { v with cache := partialFrame m' (k + 1) }
      · obtain ⟨hmm, hi1⟩ := holds_frag_unique sent hs m m' hm hm' hf hf' i (k + 1) (by omega)
          (by omega) _ rfl hh
        subst hmm
        rw [ind_eq_one hh]
        by_cases hik : i = k
        · subst hik; simp only [↓reduceIte]; omega
        · have hold : Holds m i v := ⟨hcv, k, by omega, by omega, hc⟩
          rw [ind_eq_one hold]; omega
      · rw [ind_eq_zero hh]; omega
    · -- LAST accepted
      simp only [fragF] at hv' ⊢
      rw [hv']
      have hcnt := countP_enqueueBase { v with cache := c } c hwire (fun g => decide (IsWholeOf m g))
      have hnoth : ¬ Holds m i { (VQ.enqueueBase Fixes.all { v with cache := c } c).1 with
          cacheValid := false } := by
        intro hh; have := hh.1; simp at this
      unfold load
      rw [ind_eq_zero hnoth]
      simp only at hcnt ⊢
      by_cases hmm : m = m'
      · subst hmm
        by_cases hik : i < k
        · have hold : Holds m i v := ⟨hcv, k, hik, by omega, hc⟩
          rw [ind_eq_one hold]
          split at hcnt <;> omega
        · have hik2 : i = k := by omega
          subst hik2; simp only [↓reduceIte]; split at hcnt <;> omega
      · have hnw : ¬ IsWholeOf m c := fun hh => hmm (whole_same_msg sent hs m m' hm hm' hf c hh hwc)
        simp only [hnw, decide_false, Bool.false_eq_true, ↓reduceIte, Nat.add_zero] at hcnt
        omega
    · simp only [fragF] at hv' ⊢
      rw [hv']; omega

theorem load_dequeue (m : Msg) (i : Nat) (v : VQ) :
    (match v.dequeue.2 with | some g => (if IsWholeOf m g then 1 else 0) | none => 0) +
      load m i v.dequeue.1 = load m i v := by
  unfold VQ.dequeue load
  cases hi : v.items with
  | nil => simp only [Nat.zero_add]; rw [hi]
  | cons a r =>
    simp only [List.countP_cons, decide_eq_true_eq]
    have : ind m i { v with items := r } = ind m i v := rfl
    rw [this]; omega

/-- along a value-level history: copies of `m` handed out plus the final load are bounded by the
    initial load plus the number of deliveries of fragment `i` of `m` -/
theorem count_run (sent : List Msg) (hs : SentOk sent) (m : Msg) (hm : m ∈ sent) (hf : Fragd m)
    (i : Nat) (hi : i < total m) (es : List Ev) :
    ∀ (v : VQ) (rcv : List Frame), VInv sent rcv v →
      (∀ f, Ev.deliver f ∈ es → ∃ w, IsFrameOf sent w ∧ f = ofW w) →
      (VQ.runEv Fixes.all v es).2.countP (fun g => decide (IsWholeOf m g)) +
          load m i (VQ.runEv Fixes.all v es).1 ≤
        load m i v + (delivered es).count (fragF m i) := by
  induction es with
  | nil => intro v rcv _ _; simp [VQ.runEv, delivered]
  | cons e es ih =>
    intro v rcv hv hes
    cases e with
    | deliver f =>
      obtain ⟨w, hw, rfl⟩ := hes f (by simp)
      have h1 := vinv_deliver sent rcv v hs hv w hw
      have hl := load_deliver sent rcv v hs hv m hm hf i hi w hw
      have hen : (v.enqueue Fixes.all (ofW w)).1.1 = (v.enqueueFrag Fixes.all (ofW w)).1.1 := by
        simp [VQ.enqueue, hv.frag]
      rw [← hen] at h1 hl
      have := ih _ _ h1 (fun f hf => hes f (by simp [hf]))
      simp only [VQ.runEv, delivered, List.count_cons, beq_iff_eq]
      omega
    | read =>
      obtain ⟨h1, _⟩ := vinv_dequeue sent rcv v hv
      have := ih _ _ h1 (fun f hf => hes f (by simp [hf]))
      have hd := load_dequeue m i v
      simp only [VQ.runEv, delivered]
      cases hq : v.dequeue.2 with
      | none => rw [hq] at hd; simp only at hd ⊢; omega
      | some g =>
        rw [hq] at hd
        simp only [List.countP_cons, decide_eq_true_eq] at hd ⊢
        omega

theorem load_init (sent : List Msg) (hs : SentOk sent) (m : Msg) (hm : m ∈ sent) (i n : Nat) :
    load m i (abs (QState.init n)) = 0 := by
  have hnot : ¬ Holds m i (abs (QState.init n)) := by
    rintro ⟨_, j, _, _, hc⟩
    have := congrArg (fun f => f.header.fromNode) hc
    simp only [abs, QState.init, Frame.fresh, partialFrame] at this
    exact (hs.1 m hm).2.1 this.symm
  unfold load
  rw [ind_eq_zero hnot]
  simp [abs, QState.init, QState.contents, Frame.fresh]

/-! ### never two copies queued at once -/

def NoDupV (v : VQ) : Prop := v.items.Pairwise (fun a b => Net.sameKey a b = false)

theorem nodup_enqueueBase (v : VQ) (c : Frame) (hw : Wire c) (h : NoDupV v) :
    NoDupV (VQ.enqueueBase Fixes.all v c).1 := by
  unfold NoDupV at h ⊢
  rw [enqueueBase_wire Fixes.all v c hw]
  by_cases hc : (full Fixes.all v.maxSize v.items.length ||
      v.items.any (fun g => Net.sameKey g c)) = true
  · simp only [hc, ↓reduceIte]; exact h
  · simp only [hc, Bool.false_eq_true, ↓reduceIte]
    rw [List.pairwise_append]
    refine ⟨h, by simp, ?_⟩
    intro a ha b hb
    simp only [List.mem_singleton] at hb; subst hb
    have hc' : (full Fixes.all v.maxSize v.items.length ||
        v.items.any (fun g => Net.sameKey g b)) = false := by simpa using hc
    rw [Bool.or_eq_false_iff] at hc'
    have hany := hc'.2
    rw [List.any_eq_false] at hany
    simpa using hany a ha

theorem nodup_deliver (sent : List Msg) (rcv : List Frame) (v : VQ) (hs : SentOk sent)
    (hv : VInv sent rcv v) (w : WFrame) (hw : IsFrameOf sent w) (h : NoDupV v) :
    NoDupV (v.enqueueFrag Fixes.all (ofW w)).1.1 := by
  obtain ⟨m', hm', ⟨hnf, h1, h2, h3, h4, h5, h6⟩ | ⟨hf', k, hk, rfl⟩⟩ := hw
  · have hok := hs.1 m' hm'
    have hr : w.InRange := ⟨h1 ▸ hok.1, h2 ▸ hok.2.2.1, h3 ▸ hok.2.2.2.1, h4 ▸ hok.2.2.2.2.1, h5⟩
    have hty := hok.2.2.2.2.2.2 hnf
    have hnft : NotFragType (ofW w) := by
      simp only [NotFragType, ofW, h4, ne_eq, MsgT.int.injEq, MSG_FRAG_FIRST, MSG_FRAG_MORE,
        MSG_FRAG_LAST]
      exact hty
    unfold VQ.enqueueFrag
    rw [fragAct_base _ _ _ _ hnft]
    exact nodup_enqueueBase v (ofW w) (wire_ofW w hr) h
  · rcases deliver_cases sent rcv v hs hv m' hm' hf' k hk with
      ⟨_, hv'⟩ | ⟨_, _, _, _, hv'⟩ | ⟨_, _, _, c, _, hwire, hv'⟩ | ⟨_, hv'⟩
    · simp only [fragF] at hv'; rw [hv']; exact h
    · simp only [fragF] at hv'; rw [hv']; exact h
    · simp only [fragF] at hv'; rw [hv']
      exact nodup_enqueueBase { v with cache := c } c hwire h
    · simp only [fragF] at hv'; rw [hv']; exact h

theorem nodup_run (sent : List Msg) (hs : SentOk sent) (es : List Ev) :
    ∀ (v : VQ) (rcv : List Frame), VInv sent rcv v → NoDupV v →
      (∀ f, Ev.deliver f ∈ es → ∃ w, IsFrameOf sent w ∧ f = ofW w) →
      NoDupV (VQ.runEv Fixes.all v es).1 := by
  induction es with
  | nil => intro v rcv _ h _; exact h
  | cons e es ih =>
    intro v rcv hv h hes
    cases e with
    | deliver f =>
      obtain ⟨w, hw, rfl⟩ := hes f (by simp)
      have h1 := vinv_deliver sent rcv v hs hv w hw
      have h2 := nodup_deliver sent rcv v hs hv w hw h
      have hen : (v.enqueue Fixes.all (ofW w)).1.1 = (v.enqueueFrag Fixes.all (ofW w)).1.1 := by
        simp [VQ.enqueue, hv.frag]
      rw [← hen] at h1 h2
      exact ih _ _ h1 h2 (fun f hf => hes f (by simp [hf]))
    | read =>
      obtain ⟨h1, _⟩ := vinv_dequeue sent rcv v hv
      have h2 : NoDupV v.dequeue.1 := by
        unfold NoDupV VQ.dequeue at *
        cases hi : v.items with
        | nil => simp only; rw [hi]; exact List.Pairwise.nil
        | cons a r => rw [hi] at h; exact (List.pairwise_cons.mp h).2
      exact ih _ _ h1 h2 (fun f hf => hes f (by simp [hf]))

end Nrf.Proofs
