/-
C15 — while the radio is a receiver (PRIM_RX set) `read()` and the arrival of scripted payloads
put nothing on the air and leave the TX FIFO alone; a frame shorter than a header does not unpack.
-/
import NrfProofs.C07Write

namespace Nrf
open Rf24 Nrf.Net

/-- nothing transmitted, TX FIFO and CONFIG of the own radio untouched since `s0` -/
structure Quiet (s0 s : DrvState) : Prop where
  rid : s.d.rid = s0.d.rid
  air : s.w.air = s0.w.air
  txf : (s.w.radio s.d.rid).txFifo = (s0.w.radio s0.d.rid).txFifo
  cfg : (s.w.radio s.d.rid).config = (s0.w.radio s0.d.rid).config

theorem Quiet.refl (s : DrvState) : Quiet s s := ⟨rfl, rfl, rfl, rfl⟩

theorem Quiet.trans {a b c : DrvState} (h1 : Quiet a b) (h2 : Quiet b c) : Quiet a c :=
  ⟨h2.rid.trans h1.rid, h2.air.trans h1.air, h2.txf.trans h1.txf, h2.cfg.trans h1.cfg⟩

/-- a radio whose PRIM_RX bit is set does not transmit -/
theorem tryTransmit_rx (j f : Nat) (w : World) (h : (w.radio j).primRx = true) : World.tryTransmit j f w = w := by
  cases f with
  | zero => rfl
  | succ f =>
    unfold World.tryTransmit
    have : (w.radio j).txMode = false := by simp [Radio.txMode, h]
    simp [this]

/-- commands that touch neither CONFIG nor the TX FIFO -/
def RxCmd (out : Bytes) : Prop := ∀ r : Radio, (r.xfer out).1.config = r.config ∧ (r.xfer out).1.txFifo = r.txFifo

theorem rxCmd_of (c : Nat) (d : Bytes) (h : c = 0x60 ∨ c = 0x61 ∨ c = 0x27 ∨ c = 0xFF ∨ c = 0x17) : RxCmd (c :: d) := by
  intro r
  rcases h with rfl | rfl | rfl | rfl | rfl
  · exact ⟨rfl, rfl⟩
  · unfold Radio.xfer
    have : Radio.decodeCmd 0x61 = .rRxPayload := by decide
    simp only [this, Radio.runCmd]
    unfold Radio.readPayload
    split <;> exact ⟨rfl, rfl⟩
  · unfold Radio.xfer
    have : Radio.decodeCmd 0x27 = .wRegister 7 := by decide
    simp only [this, Radio.runCmd]
    split
    · exact ⟨rfl, rfl⟩
    · exact ⟨rfl, rfl⟩
  · exact ⟨rfl, rfl⟩
  · exact ⟨rfl, rfl⟩

theorem spi_rx (w : World) (j : Nat) (out : Bytes) (h : (w.radio j).primRx = true) (hc : RxCmd out) :
    (w.spi j out).1.air = w.air ∧ ((w.spi j out).1.radio j).txFifo = (w.radio j).txFifo ∧
    ((w.spi j out).1.radio j).config = (w.radio j).config := by
  have hj : j < w.radios.length := by
    apply Classical.byContradiction
    intro hn
    have : w.radio j = default := by
      unfold World.radio
      rw [List.getD_eq_getElem?_getD, List.getElem?_eq_none (by omega)]
      rfl
    rw [this] at h
    exact absurd h (by decide)
  unfold World.spi
  dsimp only
  have hr : ∀ (w' : World) (c n : Nat), ({ w' with clock := c, spiCount := n } : World).radio j = w'.radio j := fun _ _ _ => rfl
  have e1 : ((w.jump j).setRadio j ((w.jump j).radio j |>.xfer out).1).radio j = ((w.radio j).xfer out).1 := by
    rw [World.radio_setRadio]
    have : j < (w.jump j).radios.length := hj
    simp only [this, and_self, ↓reduceIte]
    rfl
  have hp : (({ ((w.jump j).setRadio j ((w.jump j).radio j |>.xfer out).1) with
      clock := (w.jump j).clock + SPI_COST_NS, spiCount := (w.jump j).spiCount + 1 } : World).radio j).primRx = true := by
    rw [hr, e1]
    unfold Radio.primRx
    rw [(hc _).1]
    exact h
  rw [tryTransmit_rx _ _ _ hp]
  refine ⟨rfl, ?_, ?_⟩
  · rw [hr, e1]; exact (hc _).2
  · rw [hr, e1]; exact (hc _).1

theorem Quiet.spi {s0 s : DrvState} (h : Quiet s0 s) (out : Bytes)
    (hp : (s0.w.radio s0.d.rid).primRx = true) (hc : RxCmd out) : Quiet s0 (s.spiStep out) := by
  have hp' : (s.w.radio s.d.rid).primRx = true := by
    unfold Radio.primRx at *
    rw [h.cfg]; exact hp
  obtain ⟨a, b, c⟩ := spi_rx s.w s.d.rid out hp' hc
  exact ⟨h.rid, a.trans h.air, b.trans h.txf, c.trans h.cfg⟩

/-- `read()` is quiet on a receiver -/
theorem quiet_read {s0 s : DrvState} (h : Quiet s0 s) (hp : (s0.w.radio s0.d.rid).primRx = true) :
    dwp (fun _ s' => Quiet s0 s') (Rf24.read none) (fun _ s' => Quiet s0 s') s := by
  unfold Rf24.read Rf24.any clearStatusFlags
  simp only [dwp_bind, dwp_ite, dwp_pure, dwp_regReadBytes, dwp_regRead, dwp_getD]
  have h1 := h.spi [0x60, 0] hp (rxCmd_of _ _ (by decide))
  have fin : ∀ (size : Nat) s1, Quiet s0 s1 →
      (if size = 0 then Quiet s0 s1 else
        dwp (fun _ s' => Quiet s0 s')
          (regWrite 7 ((b2n true <<< 6 ||| b2n false <<< 5 ||| b2n false <<< 4 : Nat) : Int))
          (fun _ s' => Quiet s0 s') (s1.spiStep (0x61 :: zeros size))) := by
    intro size s1 q1
    split
    · exact q1
    · rw [dwp_regWrite_nat _ _ _ _ _ (by decide)]
      split
      · exact q1.spi _ hp (rxCmd_of _ _ (by decide))
      · exact (q1.spi _ hp (rxCmd_of _ _ (by decide))).spi _ hp (rxCmd_of _ _ (by decide))
  split
  · split
    · exact fin _ _ h1
    · exact fin _ _ h1
  · exact fin 0 _ h1

theorem Frame.unpack_ok (f : Frame) (b : Bytes) : (f.unpack b).2 = decide (8 ≤ b.length) := by
  unfold Frame.unpack Header.unpack
  match b with
  | [] => rfl
  | [_] => rfl
  | [_, _] => rfl
  | [_, _, _] => rfl
  | [_, _, _, _] => rfl
  | [_, _, _, _, _] => rfl
  | [_, _, _, _, _, _] => rfl
  | [_, _, _, _, _, _, _] => rfl
  | _ :: _ :: _ :: _ :: _ :: _ :: _ :: _ :: t => simp

/-- a scripted arrival changes the RX side only -/
theorem inject_quiet (w : World) (j p : Nat) (b : Bytes) (i : Nat) :
    (w.inject j p b).air = w.air ∧ ((w.inject j p b).radio i).txFifo = (w.radio i).txFifo ∧
    ((w.inject j p b).radio i).config = (w.radio i).config := by
  unfold World.inject
  dsimp only
  have key : ∀ r' : Radio, r'.txFifo = (w.radio j).txFifo → r'.config = (w.radio j).config →
      ((w.setRadio j r').radio i).txFifo = (w.radio i).txFifo ∧
      ((w.setRadio j r').radio i).config = (w.radio i).config := by
    intro r' h1 h2
    rw [World.radio_setRadio]
    split
    · rename_i hh; rw [hh.1]; exact ⟨h1, h2⟩
    · exact ⟨rfl, rfl⟩
  repeat' split
  all_goals first
    | exact ⟨rfl, rfl, rfl⟩
    | exact ⟨rfl, key _ rfl rfl⟩

theorem injects_quiet (l : List (Nat × Nat × Bytes)) (j : Nat) (w : World) (i : Nat) :
    (l.foldl (fun w a => w.inject j a.2.1 a.2.2) w).air = w.air ∧
    ((l.foldl (fun w a => w.inject j a.2.1 a.2.2) w).radio i).txFifo = (w.radio i).txFifo ∧
    ((l.foldl (fun w a => w.inject j a.2.1 a.2.2) w).radio i).config = (w.radio i).config := by
  induction l generalizing w with
  | nil => exact ⟨rfl, rfl, rfl⟩
  | cons a l ih =>
    obtain ⟨a1, a2, a3⟩ := inject_quiet w j a.2.1 a.2.2 i
    obtain ⟨b1, b2, b3⟩ := ih (w.inject j a.2.1 a.2.2)
    exact ⟨b1.trans a1, b2.trans a2, b3.trans a3⟩

end Nrf

namespace Nrf.Net
open Nrf Rf24

/-- what `self._rf24.read()` of a listening node leaves alone, in an open system -/
structure ReadFrame (s s' : NetState) : Prop where
  cur : s'.cur = s.cur
  air : s'.w.air = s.w.air
  txf : (s'.w.radio s.node.rf.rid).txFifo = (s.w.radio s.node.rf.rid).txFifo
  queue : s'.node.queue = s.node.queue
  frameBuf : s'.node.frameBuf = s.node.frameBuf
  nextId : s'.nextId = s.nextId

/-- the session after the due arrivals of the current node were delivered -/
def afterDue (s : NetState) : NetState :=
  { s with w := dueWorld s,
           nodes := s.nodes.modify s.cur fun n =>
             { n with arrivals := s.node.arrivals.dropWhile (fun a => decide (a.1 ≤ s.w.clock)) } }

theorem wp_deliverDue (E : PyErr → NetState → Prop) (Q : Unit → NetState → Prop) (s : NetState) :
    wp E deliverDue Q s = Q () (afterDue s) := rfl

theorem rfRead_quiet (f : Nat) (s : NetState) (hopen : s.closed = false) (hcur : s.cur < s.nodes.length)
    (hrx : (s.w.radio s.node.rf.rid).primRx = true) :
    wp anyErr (rfRead (f + 1)) (fun _ s' => ReadFrame s s') s := by
  rw [rfRead]
  simp only [wp_bind, wp_deliverDue, wp_get, wp_ite]
  have hc1 : (afterDue s).closed = false := hopen
  simp only [hc1, Bool.false_eq_true, ↓reduceIte, wp_pure]
  rw [wp_liftRf]
  obtain ⟨i1, i2, i3⟩ := injects_quiet (s.node.arrivals.takeWhile (fun a => decide (a.1 ≤ s.w.clock)))
    s.node.rf.rid s.w s.node.rf.rid
  have hn1 : (afterDue s).node
      = { s.node with arrivals := s.node.arrivals.dropWhile (fun a => decide (a.1 ≤ s.w.clock)) } :=
    NetState.node_setNode ({ s with w := dueWorld s }) _ hcur
  have hcur1 : (afterDue s).cur < (afterDue s).nodes.length := by
    show s.cur < (s.nodes.modify s.cur _).length
    simpa using hcur
  have hw1 : (afterDue s).w = dueWorld s := rfl
  have hrid : (afterDue s).node.rf.rid = s.node.rf.rid := by rw [hn1]
  have hp1 : ((afterDue s).drv.w.radio (afterDue s).drv.d.rid).primRx = true := by
    show ((afterDue s).w.radio (afterDue s).node.rf.rid).primRx = true
    unfold Radio.primRx at *
    rw [hrid, hw1]
    unfold dueWorld
    rw [i3]; exact hrx
  refine (quiet_read (Quiet.refl (afterDue s).drv) hp1).mono (fun _ _ _ => trivial) (fun r ds q => ?_)
  have hq1 : (ds.w.radio s.node.rf.rid).txFifo = (s.w.radio s.node.rf.rid).txFifo := by
    have := q.txf
    rw [q.rid] at this
    have e : (afterDue s).drv.d.rid = s.node.rf.rid := hrid
    rw [e] at this
    rw [this]
    show ((dueWorld s).radio s.node.rf.rid).txFifo = _
    unfold dueWorld
    rw [i2]
  refine ⟨rfl, ?_, hq1, ?_, ?_, rfl⟩
  · show ds.w.air = s.w.air
    rw [q.air]
    show (dueWorld s).air = s.w.air
    unfold dueWorld
    rw [i1]
  · rw [NetState.node_putDrv (afterDue s) ds hcur1, hn1]
  · rw [NetState.node_putDrv (afterDue s) ds hcur1, hn1]

end Nrf.Net
