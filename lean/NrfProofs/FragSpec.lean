/-
Helper lemmas for C11: `writeToPipe` in terms of the reference encoder.
-/
import NrfProofs.Frag
import NrfProofs.Reassembly

namespace Nrf.Proofs
open Nrf.Net Nrf.Spec

theorem fragTotal_eq (n : Nat) : fragTotal n = fragCount n := by
  unfold fragTotal fragCount MAX_FRAG_SIZE FRAG_SIZE
  by_cases h : n % 24 = 0 <;> simp [h] <;> omega

/-- what `_write_to_pipe` emits for a long message, for every length (counter byte wraps) -/
theorem writeToPipe_long (h : Header) (t : Nat) (msg : Bytes)
    (hs : h.fromNode < 4096) (hd : h.toNode < 4096) (hi : h.frameId < 65536)
    (hlen : 24 < msg.length) :
    writeToPipe h t msg =
      .ok ((List.range (fragCount msg.length)).map
              (fragBytes ⟨h.fromNode, h.toNode, h.frameId, t, msg⟩ (fragCount msg.length)),
           { h with msgType := .int t, reserved := t }) := by
  have h2 := fragCount_ge2 hlen
  have hup := fragCount_upper msg.length
  unfold writeToPipe
  have hnot : ¬ (msg.length ≤ MAX_FRAG_SIZE) := by unfold MAX_FRAG_SIZE; omega
  simp only [hnot, ↓reduceIte, fragTotal_eq]
  rw [fragLoop_eq msg _ t h.fromNode h.toNode h.frameId h2 hs hd hi hup _ h (Nat.le_refl _) rfl rfl
    rfl]
  have hne : fragCount msg.length ≠ 0 := by omega
  simp [bind, Except.bind, pure, Except.pure, hne, List.range_eq_range']

theorem fragment_inRange (m : Msg) (total k : Nat) (hs : m.src < 4096) (hd : m.dst < 4096)
    (hi : m.id < 65536) (ht : m.ty < 256) (htot : total ≤ 255) :
    (fragment m total k).InRange := by
  refine ⟨hs, hd, hi, ?_, ?_⟩
  · simp only [fragment, FRAG_LAST, FRAG_FIRST, FRAG_MORE]; split
    · omega
    · split <;> omega
  · simp only [fragment]; split <;> omega

theorem fragBytes_eq (m : Msg) (total k : Nat) (h : (fragment m total k).rsv < 256) :
    fragBytes m total k = frameBytes (fragment m total k) := by
  unfold fragBytes frameBytes headerBytes
  simp [Nat.mod_eq_of_lt h]

theorem fragment_body_le (m : Msg) (total k : Nat) : (fragment m total k).body.length ≤ 24 := by
  simp [fragment, FRAG_SIZE]; omega

theorem mapM_parse (l : List WFrame) (h : ∀ f ∈ l, f.InRange) :
    (l.map frameBytes).mapM parseFrame = some l := by
  induction l with
  | nil => rfl
  | cons a l ih =>
    simp only [List.map_cons, List.mapM_cons, parse_frameBytes a (h a (by simp)),
      ih (fun f hf => h f (by simp [hf]))]
    rfl

theorem refFrames_bodies (m : Msg) : (refFrames m).flatMap (·.body) = m.body := by
  unfold refFrames
  split
  · simp
  · rw [List.flatMap_map]
    simp only [fragment, FRAG_SIZE]
    exact chunks_concat _ _ (fragCount_upper _)

theorem writeToPipe_type (h : Header) (t : Nat) (msg : Bytes) (hm : h.msgType = .int t)
    (p : List Bytes × Header) (hp : writeToPipe h t msg = .ok p) : p.2.msgType = .int t := by
  unfold writeToPipe at hp
  split at hp
  · cases hpk : Frame.pack { header := h, message := msg } with
    | error e => simp [hpk, bind, Except.bind] at hp
    | ok b => simp [hpk, bind, Except.bind, pure, Except.pure] at hp; subst hp; exact hm
  · cases hl : fragLoop msg (fragTotal msg.length) t (fragTotal msg.length) h with
    | error e => simp [hl, bind, Except.bind] at hp
    | ok v => simp [hl, bind, Except.bind, pure, Except.pure] at hp; subst hp; rfl

end Nrf.Proofs
