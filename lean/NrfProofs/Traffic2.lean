/-
Traffic lemmas, part 2 — the air: what `deliver`, `attemptLoop` and `cycle` do to the sender, to the
other radios, to the fault pattern, the air log and the busy times — in every world (any number of
radios) and for every fault pattern.
-/
import NrfProofs.Traffic

namespace Nrf

namespace Radio

/-- reception is decided by the configuration part alone -/
theorem listensTo_cfg (r r' : Radio) (k : Packet) (h : r'.cfgOf = r.cfgOf) : r'.listensTo k = r.listensTo k := by
  have h1 : r'.listensTo k = r'.cfgOf.listensTo k := rfl
  have h2 : r.listensTo k = r.cfgOf.listensTo k := rfl
  rw [h1, h2, h]

theorem listensTo_receive (r : Radio) (k : Packet) : (r.receive k).1.listensTo k = r.listensTo k :=
  listensTo_cfg _ _ _ (receive_cfgOf r k)

/-- a radio that is not in RX mode ignores every packet -/
theorem receive_not_rx (r : Radio) (k : Packet) (h : r.rxMode = false) : r.receive k = (r, none) := by
  unfold receive listensTo
  simp [h]

theorem matchPipe_le (r : Radio) (a : Bytes) (p : Nat) (h : r.matchPipe a = some p) : p ≤ 5 := by
  unfold matchPipe at h
  have := List.mem_of_find?_eq_some h
  simp only [List.mem_cons, List.not_mem_nil, or_false] at this
  omega

/-- the general conditions (mode, channel, rate, packet format, CRC, address width) -/
def tuned (r : Radio) (k : Packet) : Bool :=
  r.rxMode && r.rfCh == k.ch && r.rate == k.rate && r.esb == k.esb && r.crcLen == k.crc && r.aw == k.addr.length

/-- the length rule of pipe `p` -/
def lenRule (r : Radio) (k : Packet) (p : Nat) : Bool :=
  (r.esb && r.dplOn p) == k.dpl && (if k.dpl then true else k.data.length == r.rxPw.getD p 0 && k.data.length ≠ 0)

theorem listensTo_eq_some (r : Radio) (k : Packet) (p : Nat) :
    r.listensTo k = some p ↔ r.tuned k = true ∧ r.matchPipe k.addr = some p ∧ r.lenRule k p = true := by
  unfold listensTo
  have ht : (r.rxMode && r.rfCh == k.ch && r.rate == k.rate && r.esb == k.esb && r.crcLen == k.crc
      && r.aw == k.addr.length) = r.tuned k := rfl
  rw [ht]
  by_cases h1 : r.tuned k = true
  · simp only [h1, ↓reduceIte, true_and]
    cases hm : r.matchPipe k.addr with
    | none => simp
    | some q =>
      simp only
      have hl : ((r.esb && r.dplOn q) == k.dpl && (if k.dpl then true else k.data.length == r.rxPw.getD q 0 && k.data.length ≠ 0))
          = r.lenRule k q := rfl
      rw [hl]
      by_cases h2 : r.lenRule k q = true
      · simp only [h2, ↓reduceIte, Option.some.injEq]
        constructor
        · intro h; subst h; exact ⟨rfl, h2⟩
        · intro h; exact h.1
      · simp only [h2, Bool.false_eq_true, ↓reduceIte, Option.some.injEq]
        constructor
        · intro h; cases h
        · rintro ⟨h, h3⟩; subst h; exact absurd h3 h2
  · simp [h1]

theorem listensTo_rxMode (r : Radio) (k : Packet) (p : Nat) (h : r.listensTo k = some p) : r.rxMode = true := by
  have := ((listensTo_eq_some r k p).1 h).1
  unfold tuned at this
  simp only [Bool.and_eq_true] at this
  exact this.1.1.1.1.1

theorem listensTo_le (r : Radio) (k : Packet) (p : Nat) (h : r.listensTo k = some p) : p ≤ 5 :=
  matchPipe_le _ _ _ ((listensTo_eq_some r k p).1 h).2.1

end Radio

namespace World

/-! ### deliver -/

@[simp] theorem deliver_length (w : World) (s : Nat) (k : Packet) : (w.deliver s k).1.radios.length = w.radios.length := by
  simp [deliver, deliverEach]

@[simp] theorem deliver_faults (w : World) (s : Nat) (k : Packet) : (w.deliver s k).1.faults = w.faults := rfl
@[simp] theorem deliver_air (w : World) (s : Nat) (k : Packet) : (w.deliver s k).1.air = w.air := rfl
@[simp] theorem deliver_clock (w : World) (s : Nat) (k : Packet) : (w.deliver s k).1.clock = w.clock := rfl
@[simp] theorem deliver_busy (w : World) (s : Nat) (k : Packet) : (w.deliver s k).1.busyUntil = w.busyUntil := rfl
@[simp] theorem deliver_spiCount (w : World) (s : Nat) (k : Packet) : (w.deliver s k).1.spiCount = w.spiCount := rfl

theorem deliverEach_getElem? (w : World) (s : Nat) (k : Packet) (j : Nat) :
    (w.deliverEach s k)[j]? = (w.radios[j]?).map fun r => if j = s then (r, none) else r.receive k := by
  unfold deliverEach
  simp only [List.getElem?_map, List.getElem?_zipIdx, Option.map_map, Nat.zero_add]
  rfl

/-- every radio but the sender receives the packet -/
theorem deliver_radio (w : World) (s : Nat) (k : Packet) (j : Nat) (hj : j < w.radios.length) :
    (w.deliver s k).1.radio j = if j = s then w.radio j else ((w.radio j).receive k).1 := by
  unfold deliver radio
  simp only [List.getD_eq_getElem?_getD, List.getElem?_map, deliverEach_getElem?]
  have : w.radios[j]? = some w.radios[j] := List.getElem?_eq_getElem hj
  rw [this]
  simp only [Option.map_some, Option.getD_some]
  split <;> rfl

theorem deliver_radio_self (w : World) (s : Nat) (k : Packet) : (w.deliver s k).1.radio s = w.radio s := by
  by_cases hs : s < w.radios.length
  · rw [deliver_radio _ _ _ _ hs]; simp
  · unfold radio
    have h1 : (w.deliver s k).1.radios.length ≤ s := by rw [deliver_length]; omega
    have h2 : w.radios.length ≤ s := by omega
    simp [List.getD_eq_getElem?_getD, List.getElem?_eq_none h1, List.getElem?_eq_none h2]

theorem radio_eq_default (w : World) (j : Nat) (hj : w.radios.length ≤ j) : w.radio j = default := by
  unfold radio
  simp [List.getD_eq_getElem?_getD, List.getElem?_eq_none hj]

/-- the acknowledgement the sender may hear: that of the first acknowledging radio -/
theorem deliver_ack_some (w : World) (s : Nat) (k : Packet) (a : Option Bytes) (h : (w.deliver s k).2 = some a) :
    ∃ j, j < w.radios.length ∧ j ≠ s ∧ ((w.radio j).receive k).2 = some a := by
  unfold deliver at h
  simp only at h
  have hm : a ∈ (w.deliverEach s k).filterMap (·.2) := List.mem_of_mem_head? h
  rw [List.mem_filterMap] at hm
  obtain ⟨x, hx, hxa⟩ := hm
  obtain ⟨j, hj, hjx⟩ := List.getElem_of_mem hx
  have hlen : (w.deliverEach s k).length = w.radios.length := by simp [deliverEach]
  have hj' : j < w.radios.length := by omega
  have hg := deliverEach_getElem? w s k j
  rw [List.getElem?_eq_getElem hj, List.getElem?_eq_getElem hj', hjx] at hg
  simp only [Option.map_some, Option.some.injEq] at hg
  refine ⟨j, hj', ?_, ?_⟩
  · intro hjs
    simp only [hjs, ↓reduceIte] at hg
    rw [hg] at hxa
    cases hxa
  · have hr : w.radio j = w.radios[j] := by
      unfold radio; simp [List.getD_eq_getElem?_getD, List.getElem?_eq_getElem hj']
    by_cases hjs : j = s
    · simp only [hjs, ↓reduceIte] at hg
      rw [hg] at hxa
      cases hxa
    · simp only [hjs, ↓reduceIte] at hg
      rw [hr, ← hg]; exact hxa

theorem deliver_ack_isSome (w : World) (s : Nat) (k : Packet) :
    (w.deliver s k).2.isSome = true ↔ ∃ j, j < w.radios.length ∧ j ≠ s ∧ ((w.radio j).receive k).2.isSome = true := by
  constructor
  · intro h
    obtain ⟨a, ha⟩ := Option.isSome_iff_exists.1 h
    obtain ⟨j, h1, h2, h3⟩ := deliver_ack_some w s k a ha
    exact ⟨j, h1, h2, by rw [h3]; rfl⟩
  · rintro ⟨j, hj, hjs, h⟩
    unfold deliver
    simp only
    obtain ⟨a, ha⟩ := Option.isSome_iff_exists.1 h
    have hlen : (w.deliverEach s k).length = w.radios.length := by simp [deliverEach]
    have hmem : a ∈ (w.deliverEach s k).filterMap (·.2) := by
      rw [List.mem_filterMap]
      refine ⟨(w.deliverEach s k)[j]'(by omega), List.getElem_mem _, ?_⟩
      have hg := deliverEach_getElem? w s k j
      rw [List.getElem?_eq_getElem (by omega : j < (w.deliverEach s k).length), List.getElem?_eq_getElem hj] at hg
      simp only [Option.map_some, Option.some.injEq, hjs, ↓reduceIte] at hg
      rw [hg]
      have hr : w.radio j = w.radios[j] := by
        unfold radio; simp [List.getD_eq_getElem?_getD, List.getElem?_eq_getElem hj]
      rw [← hr]; exact ha
    cases hh : ((w.deliverEach s k).filterMap (·.2)) with
    | nil => rw [hh] at hmem; cases hmem
    | cons x t => rfl

/-! ### nextFault -/

@[simp] theorem nextFault_radios (w : World) : w.nextFault.1.radios = w.radios := by
  unfold nextFault; split <;> rfl
@[simp] theorem nextFault_radio (w : World) (j : Nat) : w.nextFault.1.radio j = w.radio j := by
  unfold radio; rw [nextFault_radios]
@[simp] theorem nextFault_air (w : World) : w.nextFault.1.air = w.air := by
  unfold nextFault; split <;> rfl
@[simp] theorem nextFault_clock (w : World) : w.nextFault.1.clock = w.clock := by
  unfold nextFault; split <;> rfl
@[simp] theorem nextFault_busy (w : World) : w.nextFault.1.busyUntil = w.busyUntil := by
  unfold nextFault; split <;> rfl
theorem nextFault_faults (w : World) : w.nextFault.1.faults = w.faults.drop 1 := by
  unfold nextFault; split <;> simp_all
theorem nextFault_outcome (w : World) : w.nextFault.2 = w.faults.getD 0 .delivered := by
  unfold nextFault; split <;> simp_all

/-! ### attemptLoop: a generic invariant rule -/

/-- anything preserved by drawing a fault and by delivering the packet is preserved by the loop -/
theorem attemptLoop_inv (P : World → Prop) (s : Nat) (k : Packet)
    (hnf : ∀ w, P w → P w.nextFault.1) (hdel : ∀ w, P w → P (w.deliver s k).1)
    (n made : Nat) (w : World) (h : P w) : P (attemptLoop s k n made w).1 := by
  induction n generalizing made w with
  | zero => exact h
  | succ n ih =>
    unfold attemptLoop
    simp only
    have h1 := hnf w h
    have h2 := hdel _ h1
    split
    · exact ih _ _ h1
    · exact ih _ _ h2
    · split
      · split
        · exact h2
        · exact ih _ _ h2
      · exact ih _ _ h2

theorem attemptLoop_length (s : Nat) (k : Packet) (n made : Nat) (w : World) :
    (attemptLoop s k n made w).1.radios.length = w.radios.length :=
  attemptLoop_inv (fun w' => w'.radios.length = w.radios.length) s k
    (fun w' h => by rw [nextFault_radios]; exact h) (fun w' h => by rw [deliver_length]; exact h) n made w rfl

/-- the loop never touches the sender -/
theorem attemptLoop_sender (s : Nat) (k : Packet) (n made : Nat) (w : World) :
    (attemptLoop s k n made w).1.radio s = w.radio s :=
  attemptLoop_inv (fun w' => w'.radio s = w.radio s) s k
    (fun w' h => by rw [nextFault_radio]; exact h) (fun w' h => by rw [deliver_radio_self]; exact h) n made w rfl

theorem attemptLoop_air (s : Nat) (k : Packet) (n made : Nat) (w : World) :
    (attemptLoop s k n made w).1.air = w.air :=
  attemptLoop_inv (fun w' => w'.air = w.air) s k
    (fun w' h => by rw [nextFault_air]; exact h) (fun w' h => by rw [deliver_air]; exact h) n made w rfl

theorem attemptLoop_clock (s : Nat) (k : Packet) (n made : Nat) (w : World) :
    (attemptLoop s k n made w).1.clock = w.clock :=
  attemptLoop_inv (fun w' => w'.clock = w.clock) s k
    (fun w' h => by rw [nextFault_clock]; exact h) (fun w' h => by rw [deliver_clock]; exact h) n made w rfl

theorem attemptLoop_busy (s : Nat) (k : Packet) (n made : Nat) (w : World) :
    (attemptLoop s k n made w).1.busyUntil = w.busyUntil :=
  attemptLoop_inv (fun w' => w'.busyUntil = w.busyUntil) s k
    (fun w' h => by rw [nextFault_busy]; exact h) (fun w' h => by rw [deliver_busy]; exact h) n made w rfl

/-- a property of radios preserved by reception of `k` holds for every radio other than the
    sender after the loop -/
theorem attemptLoop_others (P : Radio → Prop) (s : Nat) (k : Packet) (hP : ∀ r, P r → P (r.receive k).1)
    (n made : Nat) (w : World) (h : ∀ j, j < w.radios.length → j ≠ s → P (w.radio j)) :
    ∀ j, j < w.radios.length → j ≠ s → P ((attemptLoop s k n made w).1.radio j) := by
  have := attemptLoop_inv
    (fun w' => w'.radios.length = w.radios.length ∧ ∀ j, j < w.radios.length → j ≠ s → P (w'.radio j)) s k
    (fun w' h => by rw [nextFault_radios]; exact ⟨h.1, fun j hj hjs => by rw [nextFault_radio]; exact h.2 j hj hjs⟩)
    (fun w' h => by
      refine ⟨by rw [deliver_length]; exact h.1, fun j hj hjs => ?_⟩
      rw [deliver_radio _ _ _ _ (by rw [h.1]; exact hj)]
      simp only [hjs, ↓reduceIte]
      exact hP _ (h.2 j hj hjs)) n made w ⟨rfl, h⟩
  exact this.2

/-! ### the sender after a cycle -/

@[simp] theorem updRadio_length (w : World) (s : Nat) (f : Radio → Radio) : (w.updRadio s f).radios.length = w.radios.length := by
  simp [updRadio]
theorem updRadio_self (w : World) (s : Nat) (f : Radio → Radio) (hs : s < w.radios.length) :
    (w.updRadio s f).radio s = f (w.radio s) := radio_setRadio_self _ _ _ hs
theorem updRadio_ne (w : World) (s j : Nat) (f : Radio → Radio) (hj : j ≠ s) :
    (w.updRadio s f).radio j = w.radio j := radio_setRadio_ne _ _ _ _ hj
@[simp] theorem updRadio_faults (w : World) (s : Nat) (f : Radio → Radio) : (w.updRadio s f).faults = w.faults := rfl
@[simp] theorem updRadio_air (w : World) (s : Nat) (f : Radio → Radio) : (w.updRadio s f).air = w.air := rfl
@[simp] theorem updRadio_clock (w : World) (s : Nat) (f : Radio → Radio) : (w.updRadio s f).clock = w.clock := rfl
@[simp] theorem updRadio_busy (w : World) (s : Nat) (f : Radio → Radio) : (w.updRadio s f).busyUntil = w.busyUntil := rfl
@[simp] theorem stamp_radios (w : World) (s t : Nat) (a : AirRec) : (w.stamp s t a).radios = w.radios := rfl
@[simp] theorem stamp_radio (w : World) (s t : Nat) (a : AirRec) (j : Nat) : (w.stamp s t a).radio j = w.radio j := rfl
@[simp] theorem stamp_faults (w : World) (s t : Nat) (a : AirRec) : (w.stamp s t a).faults = w.faults := rfl
@[simp] theorem stamp_clock (w : World) (s t : Nat) (a : AirRec) : (w.stamp s t a).clock = w.clock := rfl
@[simp] theorem stamp_air (w : World) (s t : Nat) (a : AirRec) : (w.stamp s t a).air = w.air ++ [a] := rfl
@[simp] theorem stamp_busy (w : World) (s t : Nat) (a : AirRec) : (w.stamp s t a).busyUntil = w.busyUntil.set s t := rfl

/-- the result `(attempts made, acknowledgement)` of the acknowledged part of radio `s`'s cycle for
    entry `e` in world `w` -/
def cycleRes (w : World) (s : Nat) (e : TxEntry) : Nat × Option (Option Bytes) :=
  (attemptLoop s ((w.radio s).packetFor e) (((w.radio s).setupRetr &&& 0x0F) + 1) 0 (w.updRadio s (·.takePid e))).2

end World

namespace Radio

/-- the transmitter after its cycle for head entry `e` (`rest` = the other entries), given the
    result `(attempts, acknowledgement)` of the attempts -/
def afterCycle (r0 : Radio) (e : TxEntry) (rest : List TxEntry) (res : Nat × Option (Option Bytes)) : Radio :=
  if !r0.awaitsAck e then (r0.takePid e).txDoneNoAck rest
  else match res.2 with
    | some a => (r0.takePid e).txDoneAcked rest res.1 a
    | none => (r0.takePid e).txFailed e (r0.pidFor e) rest

end Radio

namespace World

theorem cycle_length (w : World) (s : Nat) (e : TxEntry) (rest : List TxEntry) :
    (w.cycle s e rest).radios.length = w.radios.length := (cycle_cfgEq w s e rest).1

/-- **the sender after a cycle** -/
theorem cycle_self (w : World) (s : Nat) (e : TxEntry) (rest : List TxEntry) (hs : s < w.radios.length) :
    (w.cycle s e rest).radio s = (w.radio s).afterCycle e rest (w.cycleRes s e) := by
  unfold cycle Radio.afterCycle cycleRes
  dsimp only
  have h1 : (w.updRadio s (·.takePid e)).radio s = (w.radio s).takePid e := updRadio_self _ _ _ hs
  split
  · rw [stamp_radio, updRadio_self]
    · congr 1
      split
      · rw [nextFault_radio, h1]
      · rw [deliver_radio_self, nextFault_radio, h1]
    · split
      · rw [nextFault_radios]; simpa using hs
      · rw [deliver_length, nextFault_radios]; simpa using hs
  · split
    · rename_i a ha
      rw [stamp_radio, updRadio_self _ _ _ (by rw [attemptLoop_length]; simpa using hs), attemptLoop_sender, h1]
      simp only [ha]
    · rename_i ha
      rw [stamp_radio, updRadio_self _ _ _ (by rw [attemptLoop_length]; simpa using hs), attemptLoop_sender, h1]
      simp only [ha]

/-- a property of radios preserved by reception of the packet holds for every other radio after the
    cycle -/
theorem cycle_others (P : Radio → Prop) (w : World) (s : Nat) (e : TxEntry) (rest : List TxEntry)
    (hP : ∀ r, P r → P (r.receive ((w.radio s).packetFor e)).1)
    (h : ∀ j, j < w.radios.length → j ≠ s → P (w.radio j)) :
    ∀ j, j < w.radios.length → j ≠ s → P ((w.cycle s e rest).radio j) := by
  intro j hj hjs
  have h0 : ∀ j, j < (w.updRadio s (·.takePid e)).radios.length → j ≠ s → P ((w.updRadio s (·.takePid e)).radio j) := by
    intro j hj hjs
    rw [updRadio_ne _ _ _ _ hjs]; exact h j (by simpa using hj) hjs
  unfold cycle
  dsimp only
  split
  · rw [stamp_radio, updRadio_ne _ _ _ _ hjs]
    split
    · rw [nextFault_radio]; exact h0 j (by simpa using hj) hjs
    · rw [deliver_radio _ _ _ _ (by rw [nextFault_radios]; simpa using hj)]
      simp only [hjs, ↓reduceIte, nextFault_radio]
      exact hP _ (h0 j (by simpa using hj) hjs)
  · have := attemptLoop_others P s ((w.radio s).packetFor e) hP (((w.radio s).setupRetr &&& 0x0F) + 1) 0 _ h0 j
      (by simpa using hj) hjs
    split
    · rw [stamp_radio, updRadio_ne _ _ _ _ hjs]; exact this
    · rw [stamp_radio, updRadio_ne _ _ _ _ hjs]; exact this

end World
end Nrf
