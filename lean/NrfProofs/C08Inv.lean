/-
C08: the invariant kept by every call of the alphabet, and what each call establishes.
-/
import NrfProofs.C08Ops
import NrfModel.Spec.Pipe0

set_option linter.unusedSimpArgs false

namespace Nrf
open Rf24 Spec

/-- the driver call behind an `Op` -/
def runOp : Op → DrvM Unit
  | .openRx p a => openRxPipe p a
  | .closeRx p => closeRxPipe p
  | .openTx a => openTxPipe a
  | .autoAck v => setAutoAckAttr (.b v)
  | .setAutoAck e p => setAutoAck e (some p)
  | .listen v => setListen v

/-- between calls: the shadows the alphabet relies on equal their registers and are in range, the
    model's `_pipe0_read_addr` is the ghost `user0`, CE is high exactly in the RX role, powered up -/
structure Inv8 (s : DrvState) (u : Option Bytes) : Prop where
  wf : s.Wf
  cfgEq : s.d.config = s.cfg.config
  cfgLt : s.d.config < 128
  opEq : s.d.openPipes = s.cfg.enRxAddr
  opLt : s.d.openPipes < 64
  aaEq : s.d.aa = s.cfg.enAA
  aaLt : s.d.aa < 64
  p0Eq : s.d.pipes0 = s.cfg.rxAddr0
  p0Len : s.d.pipes0.length = 5
  p1Len : s.d.pipes1.length = 5
  txEq : s.d.txAddress = s.cfg.txAddr
  txLen : s.d.txAddress.length = 5
  user : s.d.pipe0ReadAddr = u
  userOk : ∀ a, u = some a → (1 ≤ a.length ∧ a.length ≤ 5) ∧ s.d.openPipes &&& 1 ≠ 0
  ce : s.cfg.ce = true ↔ s.cfg.config &&& 1 = 1
  pwr : s.cfg.config &&& 2 = 2

/-! ### bit facts (finite tables) -/

theorem bit0_andNot {v : Nat} (hv : v < 64) {p : Nat} (hp : 1 ≤ p ∧ p ≤ 5) : andNot v (1 <<< p) &&& 1 = v &&& 1 := by
  have := (by decide : ∀ (v : Fin 64) (p : Fin 6), 1 ≤ p.val → (v.val ^^^ (v.val &&& (1 <<< p.val))) &&& 1 = v.val &&& 1)
    ⟨v, hv⟩ ⟨p, by omega⟩ hp.1
  exact this

theorem bit0_or {v : Nat} (hv : v < 64) {p : Nat} (hp : 1 ≤ p ∧ p ≤ 5) : (v ||| (1 <<< p)) &&& 1 = v &&& 1 := by
  have := (by decide : ∀ (v : Fin 64) (p : Fin 6), 1 ≤ p.val → (v.val ||| (1 <<< p.val)) &&& 1 = v.val &&& 1)
    ⟨v, hv⟩ ⟨p, by omega⟩ hp.1
  exact this

theorem bit0_or1 {v : Nat} (hv : v < 64) : (v ||| 1) &&& 1 ≠ 0 :=
  (by decide : ∀ v : Fin 64, (v.val ||| 1) &&& 1 ≠ 0) ⟨v, hv⟩

theorem bit0_and3E {v : Nat} (hv : v < 64) : (v &&& 0x3E) &&& 1 = 0 :=
  (by decide : ∀ v : Fin 64, (v.val &&& 0x3E) &&& 1 = 0) ⟨v, hv⟩

theorem cfg_rx_bits {c : Nat} (h : c < 128) : (c &&& 0xFC ||| 3) &&& 1 = 1 ∧ (c &&& 0xFC ||| 3) &&& 2 = 2 :=
  (by decide : ∀ c : Fin 128, (c.val &&& 0xFC ||| 3) &&& 1 = 1 ∧ (c.val &&& 0xFC ||| 3) &&& 2 = 2) ⟨c, h⟩

theorem cfg_tx_bits {c : Nat} (h : c < 128) : (c &&& 0xFC ||| 2) &&& 1 = 0 ∧ (c &&& 0xFC ||| 2) &&& 2 = 2 :=
  (by decide : ∀ c : Fin 128, (c.val &&& 0xFC ||| 2) &&& 1 = 0 ∧ (c.val &&& 0xFC ||| 2) &&& 2 = 2) ⟨c, h⟩

theorem isPrefix_putAddr (old new : Bytes) : IsPrefix new (putAddr old new) := by
  unfold IsPrefix putAddr
  simp

theorem isPrefix_self (a : Bytes) : IsPrefix a a := by unfold IsPrefix; simp

end Nrf

namespace Nrf
open Rf24 Spec

/-- everything C08 asks of one call, relating the state before (`s`, ghost `u`) and after (`s'`) -/
structure StepOk (op : Op) (s : DrvState) (u : Option Bytes) (s' : DrvState) : Prop where
  inv : Inv8 s' (user0Step u op)
  post : Post (user0Step u op) op s'.cfg
  ceRule : CeRule op s.cfg s'.cfg
  log : s'.cfg.violations = s.cfg.violations
  reach : Reach true s s'
  noCE : (∀ v, op ≠ .listen v) → Reach false s s'

/-- a call that raised before touching anything -/
theorem stepOk_refl (op : Op) (s : DrvState) (u : Option Bytes) (h : Inv8 s u) (hu : user0Step u op = u)
    (hpost : Post u op s.cfg) (hnl : ∀ v, op ≠ .listen v) : StepOk op s u s := by
  refine ⟨by rw [hu]; exact h, by rw [hu]; exact hpost, ?_, rfl, .refl _, fun _ => .refl _⟩
  unfold CeRule
  split
  · exact absurd rfl (hnl _)
  · rfl

theorem step_closeRx (p : Int) (s : DrvState) (u : Option Bytes) (h : Inv8 s u) :
    StepOk (.closeRx p) s u (exec (runOp (.closeRx p)) s).2 ∧
    ((exec (runOp (.closeRx p)) s).1 = .ok () ∨
      ((exec (runOp (.closeRx p)) s).1 = .error .indexError ∧ (exec (runOp (.closeRx p)) s).2 = s)) := by
  show StepOk (.closeRx p) s u (exec (closeRxPipe p) s).2 ∧ _
  show _ ∧ ((exec (closeRxPipe p) s).1 = .ok () ∨
      ((exec (closeRxPipe p) s).1 = .error .indexError ∧ (exec (closeRxPipe p) s).2 = s))
  by_cases hp : p < 0 ∨ p > 5
  · rw [closeRxPipe_bad p s hp]
    refine ⟨stepOk_refl _ s u h ?_ trivial (fun v => by simp), Or.inr ⟨rfl, rfl⟩⟩
    have : p ≠ 0 := by omega
    simp [user0Step, this]
  · have hp' : 0 ≤ p ∧ p ≤ 5 := by omega
    have hreg : s.cfg.enRxAddr < 64 := h.opEq ▸ h.opLt
    obtain ⟨s', hex, hreach, hd, hcfg⟩ := closeRxPipe_ok p s h.wf hp' hreg
    rw [hex]
    refine ⟨?_, Or.inl rfl⟩
    generalize s'.d.status = st at hd
    have hlt := andNot_lt_64 (1 <<< p.toNat) hreg
    refine ⟨?_, trivial, ?_, ?_, hreach.mono, fun _ => hreach⟩
    · refine ⟨(hreach.frame h.wf).2.1, ?_, ?_, ?_, ?_, ?_, ?_, ?_, ?_, ?_, ?_, ?_, ?_, ?_, ?_, ?_⟩
      all_goals simp only [hd, hcfg]
      · exact h.cfgEq
      · exact h.cfgLt
      · exact hlt
      · exact h.aaEq
      · exact h.aaLt
      · exact h.p0Eq
      · exact h.p0Len
      · exact h.p1Len
      · exact h.txEq
      · exact h.txLen
      · by_cases h0 : p = 0
        · simp [user0Step, h0]
        · simp only [user0Step, h0, ↓reduceIte]; exact h.user
      · intro a ha
        by_cases h0 : p = 0
        · simp [user0Step, h0] at ha
        · simp only [user0Step, h0, ↓reduceIte] at ha
          obtain ⟨h1, h2⟩ := h.userOk a ha
          refine ⟨h1, ?_⟩
          have hp1 : 1 ≤ p.toNat ∧ p.toNat ≤ 5 := by omega
          rw [bit0_andNot hreg hp1, ← h.opEq]; exact h2
      · exact h.ce
      · exact h.pwr
    · show s'.cfg.ce = s.cfg.ce
      rw [hcfg]
    · rw [hcfg]

end Nrf

namespace Nrf
open Rf24 Spec

theorem headD_lt_of_wf (a : Bytes) (h : a.wf) : a.headD 0 < 256 := by
  cases a with
  | nil => simp
  | cons x xs => exact h x (List.mem_cons_self)

theorem step_openRx (p : Int) (a : Bytes) (s : DrvState) (u : Option Bytes) (h : Inv8 s u) (hv : AddrOk a) :
    StepOk (.openRx p a) s u (exec (runOp (.openRx p a)) s).2 ∧
    ((exec (runOp (.openRx p a)) s).1 = .ok () ∨
      ((exec (runOp (.openRx p a)) s).1 = .error .indexError ∧ (exec (runOp (.openRx p a)) s).2 = s)) := by
  show StepOk (.openRx p a) s u (exec (openRxPipe p a) s).2 ∧ ((exec (openRxPipe p a) s).1 = .ok () ∨
      ((exec (openRxPipe p a) s).1 = .error .indexError ∧ (exec (openRxPipe p a) s).2 = s))
  obtain ⟨ha1, ha2, hawf⟩ := hv
  have hreg : s.cfg.enRxAddr < 64 := h.opEq ▸ h.opLt
  by_cases hp : 0 ≤ p ∧ p ≤ 5
  · by_cases h0 : p = 0
    · subst h0
      obtain ⟨s', hex, hreach, hd, hcfg⟩ := openRxPipe_0 a s h.wf ⟨ha1, ha2⟩ h.p0Len hreg
      rw [hex]
      refine ⟨?_, Or.inl rfl⟩
      generalize s'.d.status = st at hd
      have hlt : s.cfg.enRxAddr ||| 1 < 64 := by simpa using or_bit_lt_64 hreg 0 (by decide)
      refine ⟨?_, trivial, ?_, ?_, hreach.mono, fun _ => hreach⟩
      · refine ⟨(hreach.frame h.wf).2.1, ?_, ?_, ?_, ?_, ?_, ?_, ?_, ?_, ?_, ?_, ?_, ?_, ?_, ?_, ?_⟩
        all_goals simp only [hd, hcfg]
        · exact h.cfgEq
        · exact h.cfgLt
        · exact hlt
        · exact h.aaEq
        · exact h.aaLt
        · rw [h.p0Eq]
        · exact putAddr_length _ _ h.p0Len ha2
        · exact h.p1Len
        · exact h.txEq
        · exact h.txLen
        · simp [user0Step]
        · intro b hb
          simp only [user0Step, ↓reduceIte, Option.some.injEq] at hb
          subst hb
          exact ⟨⟨ha1, ha2⟩, bit0_or1 hreg⟩
        · exact h.ce
        · exact h.pwr
      · show s'.cfg.ce = s.cfg.ce
        rw [hcfg]
      · rw [hcfg]
    · by_cases h1 : p = 1
      · subst h1
        obtain ⟨s', hex, hreach, hd, hcfg⟩ := openRxPipe_1 a s h.wf ⟨ha1, ha2⟩ h.p1Len hreg
        rw [hex]
        refine ⟨?_, Or.inl rfl⟩
        generalize s'.d.status = st at hd
        have hlt : s.cfg.enRxAddr ||| 2 < 64 := by simpa using or_bit_lt_64 hreg 1 (by decide)
        have hu : user0Step u (.openRx 1 a) = u := by simp [user0Step]
        refine ⟨?_, trivial, ?_, ?_, hreach.mono, fun _ => hreach⟩
        · rw [hu]
          refine ⟨(hreach.frame h.wf).2.1, ?_, ?_, ?_, ?_, ?_, ?_, ?_, ?_, ?_, ?_, ?_, ?_, ?_, ?_, ?_⟩
          all_goals simp only [hd, hcfg]
          · exact h.cfgEq
          · exact h.cfgLt
          · exact hlt
          · exact h.aaEq
          · exact h.aaLt
          · exact h.p0Eq
          · exact h.p0Len
          · exact putAddr_length _ _ h.p1Len ha2
          · exact h.txEq
          · exact h.txLen
          · exact h.user
          · intro b hb
            obtain ⟨h1, h2⟩ := h.userOk b hb
            refine ⟨h1, ?_⟩
            have := bit0_or hreg (p := 1) (by decide)
            simp only [Nat.reduceShiftLeft] at this
            rw [this, ← h.opEq]; exact h2
          · exact h.ce
          · exact h.pwr
        · show s'.cfg.ce = s.cfg.ce
          rw [hcfg]
        · rw [hcfg]
      · have hp2 : 2 ≤ p.toNat ∧ p.toNat ≤ 5 := by omega
        have hpe : p = (p.toNat : Int) := by omega
        obtain ⟨s', hex, hreach, hd, hcfg⟩ := openRxPipe_hi p.toNat a s h.wf hp2 ha1 (headD_lt_of_wf a hawf) hreg
        rw [← hpe] at hex
        rw [hex]
        refine ⟨?_, Or.inl rfl⟩
        generalize s'.d.status = st at hd
        have hlt : s.cfg.enRxAddr ||| (1 <<< p.toNat) < 64 := or_bit_lt_64 hreg _ hp2.2
        have hu : user0Step u (.openRx p a) = u := by simp [user0Step, h0]
        refine ⟨?_, trivial, ?_, ?_, hreach.mono, fun _ => hreach⟩
        · rw [hu]
          refine ⟨(hreach.frame h.wf).2.1, ?_, ?_, ?_, ?_, ?_, ?_, ?_, ?_, ?_, ?_, ?_, ?_, ?_, ?_, ?_⟩
          all_goals simp only [hd, hcfg]
          · exact h.cfgEq
          · exact h.cfgLt
          · exact hlt
          · exact h.aaEq
          · exact h.aaLt
          · exact h.p0Eq
          · exact h.p0Len
          · exact h.p1Len
          · exact h.txEq
          · exact h.txLen
          · exact h.user
          · intro b hb
            obtain ⟨h1, h2⟩ := h.userOk b hb
            refine ⟨h1, ?_⟩
            rw [bit0_or hreg (p := p.toNat) (by omega), ← h.opEq]; exact h2
          · exact h.ce
          · exact h.pwr
        · show s'.cfg.ce = s.cfg.ce
          rw [hcfg]
        · rw [hcfg]
  · rw [openRxPipe_bad p a s hp]
    refine ⟨stepOk_refl _ s u h ?_ trivial (fun v => by simp), Or.inr ⟨rfl, rfl⟩⟩
    have : p ≠ 0 := by omega
    simp [user0Step, this]

end Nrf

namespace Nrf
open Rf24 Spec

theorem and_one_ne_zero_iff (x : Nat) : x &&& 1 ≠ 0 ↔ x &&& 1 = 1 := by
  rw [Nat.and_one_is_mod]; omega

theorem step_openTx (t : Bytes) (s : DrvState) (u : Option Bytes) (h : Inv8 s u) (hv : AddrOk t) :
    StepOk (.openTx t) s u (exec (runOp (.openTx t)) s).2 ∧ (exec (runOp (.openTx t)) s).1 = .ok () := by
  show StepOk (.openTx t) s u (exec (openTxPipe t) s).2 ∧ (exec (openTxPipe t) s).1 = .ok ()
  obtain ⟨ha1, ha2, _⟩ := hv
  obtain ⟨s', hex, hreach, hd, hcfg⟩ := openTxPipe_ok t s h.wf ⟨ha1, ha2⟩ h.p0Len h.txLen h.opLt
  rw [hex]
  refine ⟨?_, rfl⟩
  generalize s'.d.status = st at hd
  have hlt : s.d.openPipes ||| 1 < 64 := by simpa using or_bit_lt_64 h.opLt 0 (by decide)
  refine ⟨?_, ?_, ?_, ?_, hreach.mono, fun _ => hreach⟩
  · show Inv8 s' u
    refine ⟨(hreach.frame h.wf).2.1, ?_, ?_, ?_, ?_, ?_, ?_, ?_, ?_, ?_, ?_, ?_, ?_, ?_, ?_, ?_⟩
    all_goals simp only [hd, hcfg]
    · exact h.cfgEq
    · exact h.cfgLt
    · split
      · rfl
      · exact h.opEq
    · split
      · exact hlt
      · exact h.opLt
    · exact h.aaEq
    · exact h.aaLt
    · split
      · rw [h.p0Eq]
      · exact h.p0Eq
    · split
      · exact putAddr_length _ _ h.p0Len ha2
      · exact h.p0Len
    · exact h.p1Len
    · rw [h.txEq]
    · exact putAddr_length _ _ h.txLen ha2
    · exact h.user
    · intro b hb
      obtain ⟨h1, h2⟩ := h.userOk b hb
      refine ⟨h1, ?_⟩
      split
      · exact bit0_or1 h.opLt
      · exact h2
    · exact h.ce
    · exact h.pwr
  · -- (2) TxReady
    show TxReady t s'.cfg
    intro hrole haa
    rw [hcfg] at hrole haa ⊢
    simp only at hrole haa
    have hA : s.d.aa &&& 1 ≠ 0 := by rw [h.aaEq]; exact haa
    have hC : s.d.config &&& 1 = 0 := by rw [h.cfgEq]; exact hrole
    refine ⟨?_, ?_, ?_⟩
    · show _ &&& 1 ≠ 0
      simp only [hA, hC, ne_eq, not_false_eq_true, true_and]
      split
      · exact bit0_or1 h.opLt
      · rename_i hb
        rw [← h.opEq]; exact hb
    · simp only [hA, ne_eq, not_false_eq_true, ↓reduceIte]
      exact isPrefix_putAddr _ _
    · exact isPrefix_putAddr _ _
  · show s'.cfg.ce = s.cfg.ce
    rw [hcfg]
  · rw [hcfg]

theorem step_autoAck (v : Bool) (s : DrvState) (u : Option Bytes) (h : Inv8 s u) :
    StepOk (.autoAck v) s u (exec (runOp (.autoAck v)) s).2 ∧ (exec (runOp (.autoAck v)) s).1 = .ok () := by
  show StepOk (.autoAck v) s u (exec (setAutoAckAttr (.b v)) s).2 ∧ (exec (setAutoAckAttr (.b v)) s).1 = .ok ()
  obtain ⟨s', hex, hreach, hd, hcfg⟩ := setAutoAckAttr_bool v s h.wf
  rw [hex]
  refine ⟨?_, rfl⟩
  generalize s'.d.status = st at hd
  refine ⟨?_, trivial, ?_, ?_, hreach.mono, fun _ => hreach⟩
  · show Inv8 s' u
    refine ⟨(hreach.frame h.wf).2.1, ?_, ?_, ?_, ?_, ?_, ?_, ?_, ?_, ?_, ?_, ?_, ?_, ?_, ?_, ?_⟩
    all_goals simp only [hd, hcfg]
    · exact h.cfgEq
    · exact h.cfgLt
    · exact h.opEq
    · exact h.opLt
    · cases v <;> decide
    · exact h.p0Eq
    · exact h.p0Len
    · exact h.p1Len
    · exact h.txEq
    · exact h.txLen
    · exact h.user
    · exact h.userOk
    · exact h.ce
    · exact h.pwr
  · show s'.cfg.ce = s.cfg.ce
    rw [hcfg]
  · rw [hcfg]

theorem step_setAutoAck (e : Bool) (p : Int) (s : DrvState) (u : Option Bytes) (h : Inv8 s u) :
    StepOk (.setAutoAck e p) s u (exec (runOp (.setAutoAck e p)) s).2 ∧
    ((exec (runOp (.setAutoAck e p)) s).1 = .ok () ∨
      ((exec (runOp (.setAutoAck e p)) s).1 = .error .indexError ∧ (exec (runOp (.setAutoAck e p)) s).2 = s)) := by
  show StepOk (.setAutoAck e p) s u (exec (setAutoAck e (some p)) s).2 ∧ ((exec (setAutoAck e (some p)) s).1 = .ok () ∨
      ((exec (setAutoAck e (some p)) s).1 = .error .indexError ∧ (exec (setAutoAck e (some p)) s).2 = s))
  by_cases hp : 0 ≤ p ∧ p ≤ 5
  · have hpe : p = (p.toNat : Int) := by omega
    have hreg : s.cfg.enAA < 64 := h.aaEq ▸ h.aaLt
    obtain ⟨s', hex, hreach, hd, hcfg⟩ := setAutoAck_ok e p.toNat s h.wf (by omega) hreg
    rw [← hpe] at hex
    rw [hex]
    refine ⟨?_, Or.inl rfl⟩
    generalize s'.d.status = st at hd
    refine ⟨?_, trivial, ?_, ?_, hreach.mono, fun _ => hreach⟩
    · show Inv8 s' u
      refine ⟨(hreach.frame h.wf).2.1, ?_, ?_, ?_, ?_, ?_, ?_, ?_, ?_, ?_, ?_, ?_, ?_, ?_, ?_, ?_⟩
      all_goals simp only [hd, hcfg]
      · exact h.cfgEq
      · exact h.cfgLt
      · exact h.opEq
      · exact h.opLt
      · exact aaSet_lt_64 hreg _ (by omega) e
      · exact h.p0Eq
      · exact h.p0Len
      · exact h.p1Len
      · exact h.txEq
      · exact h.txLen
      · exact h.user
      · exact h.userOk
      · exact h.ce
      · exact h.pwr
    · show s'.cfg.ce = s.cfg.ce
      rw [hcfg]
    · rw [hcfg]
  · rw [setAutoAck_bad e p s hp]
    exact ⟨stepOk_refl _ s u h rfl trivial (fun v => by simp), Or.inr ⟨rfl, rfl⟩⟩

end Nrf

namespace Nrf
open Rf24 Spec

theorem step_listen (v : Bool) (s : DrvState) (u : Option Bytes) (h : Inv8 s u) :
    StepOk (.listen v) s u (exec (runOp (.listen v)) s).2 ∧ (exec (runOp (.listen v)) s).1 = .ok () := by
  show StepOk (.listen v) s u (exec (setListen v) s).2 ∧ (exec (setListen v) s).1 = .ok ()
  have hnoce : (∀ v', Op.listen v ≠ Op.listen v') → ∀ s', Reach false s s' := fun hh => absurd rfl (hh v)
  cases v with
  | false =>
    obtain ⟨s', hex, hreach, hd, hcfg⟩ := setListen_tx s h.wf h.cfgLt h.opLt
    rw [hex]
    refine ⟨?_, rfl⟩
    generalize s'.d.status = st at hd
    have hlt : s.d.openPipes ||| 1 < 64 := by simpa using or_bit_lt_64 h.opLt 0 (by decide)
    obtain ⟨hb1, hb2⟩ := cfg_tx_bits h.cfgLt
    refine ⟨?_, trivial, ?_, ?_, hreach, fun hh => hnoce hh _⟩
    · show Inv8 s' u
      refine ⟨(hreach.frame h.wf).2.1, ?_, ?_, ?_, ?_, ?_, ?_, ?_, ?_, ?_, ?_, ?_, ?_, ?_, ?_, ?_⟩
      all_goals simp only [hd, hcfg]
      · exact cfg_tx_lt h.cfgLt
      · split
        · rfl
        · exact h.opEq
      · split
        · exact hlt
        · exact h.opLt
      · exact h.aaEq
      · exact h.aaLt
      · exact h.p0Eq
      · exact h.p0Len
      · exact h.p1Len
      · exact h.txEq
      · exact h.txLen
      · exact h.user
      · intro b hb
        obtain ⟨h1, h2⟩ := h.userOk b hb
        refine ⟨h1, ?_⟩
        split
        · exact bit0_or1 h.opLt
        · exact h2
      · rw [hb1]; simp
      · exact hb2
    · show s'.cfg.ce = false
      rw [hcfg]
    · rw [hcfg]
  | true =>
    obtain ⟨hb1, hb2⟩ := cfg_rx_bits h.cfgLt
    cases hu : u with
    | some ra =>
      have hur : s.d.pipe0ReadAddr = some ra := h.user.trans hu
      obtain ⟨hra, hopen⟩ := h.userOk ra hu
      obtain ⟨s', hex, hreach, hd, hcfg⟩ := setListen_rx_some ra s h.wf hur hra h.p0Len h.cfgLt
      rw [hex]
      refine ⟨?_, rfl⟩
      generalize s'.d.status = st at hd
      refine ⟨?_, ?_, ?_, ?_, hreach, fun hh => hnoce hh _⟩
      · show Inv8 s' (some ra)
        refine ⟨(hreach.frame h.wf).2.1, ?_, ?_, ?_, ?_, ?_, ?_, ?_, ?_, ?_, ?_, ?_, ?_, ?_, ?_, ?_⟩
        all_goals simp only [hd, hcfg]
        · exact cfg_rx_lt h.cfgLt
        · exact h.opEq
        · exact h.opLt
        · exact h.aaEq
        · exact h.aaLt
        · split
          · rw [h.p0Eq]
          · exact h.p0Eq
        · split
          · exact putAddr_length _ _ h.p0Len hra.2
          · exact h.p0Len
        · exact h.p1Len
        · exact h.txEq
        · exact h.txLen
        · exact hur
        · intro b hb
          cases hb
          exact ⟨hra, hopen⟩
        · rw [hb1]; simp
        · exact hb2
      · -- (1) RxEntryOk
        show RxEntryOk (some ra) s'.cfg
        rw [hcfg]
        refine ⟨rfl, hb1, ?_, ?_⟩
        · show s.cfg.enRxAddr &&& 1 ≠ 0
          rw [← h.opEq]; exact hopen
        · show IsPrefix ra (if ra ≠ s.d.pipes0 then putAddr s.cfg.rxAddr0 ra else s.cfg.rxAddr0)
          split
          · exact isPrefix_putAddr _ _
          · rename_i hne
            have : ra = s.d.pipes0 := by simpa using hne
            rw [← h.p0Eq, ← this]; exact isPrefix_self _
      · show s'.cfg.ce = true
        rw [hcfg]
      · rw [hcfg]
    | none =>
      have hur : s.d.pipe0ReadAddr = none := h.user.trans hu
      obtain ⟨s', hex, hreach, hd, hcfg⟩ := setListen_rx_none s h.wf hur h.cfgLt h.opLt
      rw [hex]
      refine ⟨?_, rfl⟩
      generalize s'.d.status = st at hd
      have hlt : s.d.openPipes &&& 0x3E < 64 := Nat.lt_of_le_of_lt Nat.and_le_left h.opLt
      refine ⟨?_, ?_, ?_, ?_, hreach, fun hh => hnoce hh _⟩
      · show Inv8 s' none
        refine ⟨(hreach.frame h.wf).2.1, ?_, ?_, ?_, ?_, ?_, ?_, ?_, ?_, ?_, ?_, ?_, ?_, ?_, ?_, ?_⟩
        all_goals simp only [hd, hcfg]
        · exact cfg_rx_lt h.cfgLt
        · split
          · rfl
          · exact h.opEq
        · split
          · exact hlt
          · exact h.opLt
        · exact h.aaEq
        · exact h.aaLt
        · exact h.p0Eq
        · exact h.p0Len
        · exact h.p1Len
        · exact h.txEq
        · exact h.txLen
        · exact hur
        · intro b hb; cases hb
        · rw [hb1]; simp
        · exact hb2
      · -- (1) RxEntryOk: pipe 0 closed
        show RxEntryOk none s'.cfg
        rw [hcfg]
        refine ⟨rfl, hb1, ?_⟩
        show ¬ ((if s.d.openPipes &&& 1 ≠ 0 then s.d.openPipes &&& 0x3E else s.cfg.enRxAddr) &&& 1 ≠ 0)
        split
        · rw [bit0_and3E h.opLt]; simp
        · rename_i hz
          rw [← h.opEq]; exact hz
      · show s'.cfg.ce = true
        rw [hcfg]
      · rw [hcfg]

/-- every call of the alphabet: the invariant survives, its postcondition holds, CE moves only as
    allowed, the violation log is unchanged; it returns normally or — for a pipe number outside
    0..5 — raises `IndexError` having changed nothing -/
theorem step_ok (op : Op) (s : DrvState) (u : Option Bytes) (h : Inv8 s u) (hv : op.Valid) :
    StepOk op s u (exec (runOp op) s).2 ∧
    ((exec (runOp op) s).1 = .ok () ∨
      ((exec (runOp op) s).1 = .error .indexError ∧ (exec (runOp op) s).2 = s)) := by
  cases op with
  | openRx p a => exact step_openRx p a s u h hv
  | closeRx p => exact step_closeRx p s u h
  | openTx t => exact ⟨(step_openTx t s u h hv).1, Or.inl (step_openTx t s u h hv).2⟩
  | autoAck v => exact ⟨(step_autoAck v s u h).1, Or.inl (step_autoAck v s u h).2⟩
  | setAutoAck e p => exact step_setAutoAck e p s u h
  | listen v => exact ⟨(step_listen v s u h).1, Or.inl (step_listen v s u h).2⟩

end Nrf

namespace Nrf
open Rf24 Spec

/-- the radio the object in state `s` drives -/
def DrvState.radio (s : DrvState) : Radio := s.w.radio s.d.rid

/-- C08 along a call sequence: after every call its postcondition, the CE rules, a clean role log,
    and the model's `_pipe0_read_addr` equal to the ghost `user0` -/
def Holds8 : List Op → DrvState → Option Bytes → Prop
  | [], _, _ => True
  | op :: rest, s, u =>
    let s' := (exec (runOp op) s).2
    let u' := user0Step u op
    ((exec (runOp op) s).1 = .ok () ∨ ((exec (runOp op) s).1 = .error .indexError ∧ s' = s)) ∧
    Post u' op s'.radio ∧ CeRule op s.radio s'.radio ∧ CeMatchesRole s'.radio ∧ RoleLogClean s'.radio ∧
    s'.d.pipe0ReadAddr = u' ∧ Holds8 rest s' u'

theorem post_cfgOf (u : Option Bytes) (op : Op) (r : Radio) : Post u op r.cfgOf ↔ Post u op r := by
  unfold Post; split <;> exact Iff.rfl

theorem ceRule_cfgOf (op : Op) (a b : Radio) : CeRule op a.cfgOf b.cfgOf ↔ CeRule op a b := by
  unfold CeRule; split <;> exact Iff.rfl

theorem holds8_of_inv (ops : List Op) : ∀ (s : DrvState) (u : Option Bytes), (∀ op ∈ ops, op.Valid) →
    Inv8 s u → RoleLogClean s.radio → Holds8 ops s u := by
  induction ops with
  | nil => intro _ _ _ _ _; trivial
  | cons op rest ih =>
    intro s u hval hinv hlog
    obtain ⟨hstep, hres⟩ := step_ok op s u hinv (hval op List.mem_cons_self)
    generalize hs' : (exec (runOp op) s).2 = s' at hstep hres
    have hrid : s'.d.rid = s.d.rid := (hstep.reach.frame hinv.wf).1
    have hc' : s'.cfg = s'.radio.cfgOf := rfl
    have hc : s.cfg = s.radio.cfgOf := rfl
    have hlog' : RoleLogClean s'.radio := by
      have : s'.radio.cfgOf.violations = s.radio.cfgOf.violations := by rw [← hc', ← hc]; exact hstep.log
      show roleLog ∉ s'.radio.cfgOf.violations
      rw [this]; exact hlog
    show (_ ∧ _ ∧ _ ∧ _ ∧ _ ∧ _ ∧ _)
    simp only [hs']
    refine ⟨hres, ?_, ?_, ?_, hlog', hstep.inv.user, ?_⟩
    · rw [← post_cfgOf]; exact hstep.post
    · rw [← ceRule_cfgOf]; exact hstep.ceRule
    · exact hstep.inv.ce
    · exact ih s' _ (fun o ho => hval o (List.mem_cons_of_mem _ ho)) hstep.inv hlog'

end Nrf
