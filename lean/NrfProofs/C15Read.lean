/-
C15 — `read()` on an idle transmitter: it returns, and when it returns a payload that payload is
the head of the RX FIFO, which it removes.  (Each iteration of `_net_update` consumes an entry.)
-/
import NrfProofs.C15Contract

namespace Nrf
open Rf24 Nrf.Net

/-- the radio and the bytes clocked out after an SPI transaction that starts no transmission -/
theorem spi_idle_eq (w : World) (j : Nat) (out : Bytes) (hj : j < w.radios.length) (hq : TxQ (w.radio j))
    (hc : SafeCmd out) :
    (w.spi j out).1.radio j = ((w.radio j).xfer out).1 ∧ (w.spi j out).2 = ((w.radio j).xfer out).2 := by
  unfold World.spi
  dsimp only
  have hr : ∀ (w' : World) (c n : Nat), ({ w' with clock := c, spiCount := n } : World).radio j = w'.radio j :=
    fun _ _ _ => rfl
  have hx := hc.2 (w.radio j) hq
  have e1 : ((w.jump j).setRadio j ((w.jump j).radio j |>.xfer out).1).radio j = ((w.radio j).xfer out).1 := by
    rw [World.radio_setRadio]
    have : j < (w.jump j).radios.length := hj
    simp only [this, and_self, ↓reduceIte]
    rfl
  have hidle : TxQ (({ ((w.jump j).setRadio j ((w.jump j).radio j |>.xfer out).1) with
      clock := (w.jump j).clock + SPI_COST_NS, spiCount := (w.jump j).spiCount + 1 } : World).radio j) := by
    rw [hr, e1]; exact hx.1
  rw [tryTransmit_idle _ _ _ hidle.1]
  exact ⟨by rw [hr, e1], rfl⟩

/-- an empty RX FIFO shows as pipe field 7 -/
theorem status_empty (r : Radio) (h : r.rxFifo = []) : (r.status >>> 1) &&& 7 = 7 := by
  unfold Radio.status Radio.rxPNo
  rw [h]
  simp only
  apply Nat.eq_of_testBit_eq
  intro i
  simp only [Nat.testBit_and, Nat.testBit_shiftRight, Nat.testBit_or]
  have h7 : ∀ k, (7 : Nat).testBit k = decide (k < 3) := by
    intro k
    match k with
    | 0 => rfl
    | 1 => rfl
    | 2 => rfl
    | k + 3 =>
      have : (7 : Nat).testBit (k + 3) = false := by
        apply Nat.testBit_lt_two_pow
        calc 7 < 2 ^ 3 := by decide
          _ ≤ 2 ^ (k + 3) := Nat.pow_le_pow_right (by decide) (by omega)
      rw [this]; simp
  rw [h7]
  by_cases hi : i < 3
  · have e14 : (7 <<< 1 : Nat) = 14 := by decide
    have : (14 : Nat).testBit (1 + i) = true := by
      have : i = 0 ∨ i = 1 ∨ i = 2 := by omega
      rcases this with rfl | rfl | rfl <;> decide
    simp [hi, e14, this]
  · simp [hi]

theorem exec_regReadBytes (reg n : Nat) (s : DrvState) :
    exec (regReadBytes reg n) s
      = (.ok ((s.w.spi s.d.rid (reg :: zeros n)).2.drop 1), s.spiStep (reg :: zeros n)) := by
  unfold regReadBytes
  simp only [exec_bind, exec_xfer, exec_pure]
  rfl

theorem exec_clearRx (s : DrvState) :
    exec (clearStatusFlags true false false) s = (.ok (), s.spiStep [0x20 ||| 7, 0x40]) := by
  unfold clearStatusFlags
  have e40 : ((b2n true <<< 6 ||| b2n false <<< 5 ||| b2n false <<< 4 : Nat) : Int) = ((0x40 : Nat) : Int) := by decide
  rw [e40, exec_regWrite _ _ _ (by decide) (by decide)]
  rfl

/-- R_RX_PAYLOAD with exactly the length of the head entry -/
theorem xfer_rxPayload (r : Radio) (e : RxEntry) (rest : List RxEntry) (hf : r.rxFifo = e :: rest) :
    (r.xfer (0x61 :: zeros e.data.length)).1.rxFifo = rest ∧
    (r.xfer (0x61 :: zeros e.data.length)).2.drop 1 = e.data := by
  unfold Radio.xfer
  have : Radio.decodeCmd 0x61 = .rRxPayload := by decide
  simp only [this, Radio.runCmd]
  unfold Radio.readPayload
  rw [hf]
  simp only [zeros, List.length_replicate, List.drop_succ_cons, List.drop_zero]
  exact ⟨trivial, List.take_left' rfl⟩

/-- W_REGISTER STATUS leaves the RX FIFO alone -/
theorem xfer_status_rx (r : Radio) (v : Nat) : (r.xfer [0x20 ||| 7, v]).1.rxFifo = r.rxFifo := by
  rw [xfer_wreg_cfg r 7 _ (by decide)]
  rfl

/-- **`read()`** on a radio with an idle transmitter, dynamic payloads in the driver's shadow, RX
    entries of ANY length (a 0-byte head entry makes it return `None`): returns `None`, or the data of
    the head entry — then not empty —, which is gone -/
theorem read_spec (s : DrvState) (hw : s.Wf) (hq : TxS s) (hfe : s.d.features &&& 4 ≠ 0) :
    ∃ r s', exec (Rf24.read none) s = (.ok r, s') ∧
      (r = none ∨ ∃ e rest, (s.w.radio s.d.rid).rxFifo = e :: rest ∧ r = some e.data ∧
        (s'.w.radio s.d.rid).rxFifo = rest ∧ e.data ≠ []) := by
  -- first transaction: R_RX_PL_WID
  have c60 : SafeCmd [0x60, 0] := safeCmd_cmd _ _ (by decide)
  obtain ⟨r1, i1⟩ := spi_idle_eq s.w s.d.rid [0x60, 0] hw hq.1 c60
  have p1 := Prog.spi s [0x60, 0] c60
  have hr1 : (s.spiStep [0x60, 0]).w.radio s.d.rid = s.w.radio s.d.rid := by
    show (s.w.spi s.d.rid [0x60, 0]).1.radio s.d.rid = _
    rw [r1]; rfl
  have hst1 : (s.spiStep [0x60, 0]).d.status = (s.w.radio s.d.rid).status := by
    show (s.w.spi s.d.rid [0x60, 0]).2.headD s.d.status = _
    rw [i1]; rfl
  have hv1 : (s.w.spi s.d.rid [0x60, 0]).2.getD 1 0
      = (match (s.w.radio s.d.rid).rxFifo with | [] => 0 | e :: _ => e.data.length) := by
    rw [i1]
    show (Radio.clockOut [match (s.w.radio s.d.rid).rxFifo with | [] => 0 | e :: _ => e.data.length] 1).getD 0 0 = _
    rfl
  have q1 : TxS (s.spiStep [0x60, 0]) := p1.txs hq
  have hw1 : (s.spiStep [0x60, 0]).Wf := (spiStep_wf _ _).2 hw
  unfold Rf24.read Rf24.any
  simp only [exec_bind, exec_regRead, exec_getD, exec_pure, exec_ite, exec_regReadBytes, exec_clearRx]
  have hfe1 : (s.spiStep [0x60, 0]).d.features &&& 4 ≠ 0 := hfe
  rw [if_pos hfe1]
  by_cases hp : (s.spiStep [0x60, 0]).d.rxPipeField < 6
  · rw [if_pos hp]
    simp only
    rw [hv1]
    cases hf : (s.w.radio s.d.rid).rxFifo with
    | nil =>
      -- contradiction: an empty FIFO shows pipe 7
      exfalso
      unfold rxPipeField at hp
      rw [hst1, status_empty _ hf] at hp
      omega
    | cons e rest =>
      simp only
      by_cases hl0 : e.data.length = 0
      · rw [if_pos hl0]
        exact ⟨_, _, rfl, Or.inl rfl⟩
      have hne : e.data ≠ [] := fun h => hl0 (by rw [h]; rfl)
      rw [if_neg hl0]
      -- second transaction: R_RX_PAYLOAD
      have c61 : SafeCmd (0x61 :: zeros e.data.length) := safeCmd_cmd _ _ (by decide)
      obtain ⟨r2, i2⟩ := spi_idle_eq (s.spiStep [0x60, 0]).w s.d.rid _ hw1 q1.1 c61
      rw [hr1] at r2 i2
      obtain ⟨x1, x2⟩ := xfer_rxPayload (s.w.radio s.d.rid) e rest hf
      have p2 := Prog.spi (s.spiStep [0x60, 0]) _ c61
      have q2 := p2.txs q1
      have hw2 : ((s.spiStep [0x60, 0]).spiStep (0x61 :: zeros e.data.length)).Wf := (spiStep_wf _ _).2 hw1
      -- third transaction: W_REGISTER STATUS
      have c27 : SafeCmd [0x20 ||| 7, 0x40] := safeCmd_status 0x40 (by decide)
      obtain ⟨r3, _⟩ := spi_idle_eq ((s.spiStep [0x60, 0]).spiStep (0x61 :: zeros e.data.length)).w s.d.rid _
        hw2 q2.1 c27
      refine ⟨_, _, rfl, Or.inr ⟨e, rest, rfl, ?_, ?_, hne⟩⟩
      · congr 1
        show ((s.spiStep [0x60, 0]).w.spi s.d.rid (0x61 :: zeros e.data.length)).2.drop 1 = e.data
        rw [i2]; exact x2
      · show ((((s.spiStep [0x60, 0]).spiStep (0x61 :: zeros e.data.length)).w.spi s.d.rid [0x20 ||| 7, 0x40]).1.radio
          s.d.rid).rxFifo = rest
        rw [r3, xfer_status_rx]
        show (((s.spiStep [0x60, 0]).w.spi s.d.rid (0x61 :: zeros e.data.length)).1.radio s.d.rid).rxFifo = rest
        rw [r2]; exact x1
  · rw [if_neg hp]
    simp only [↓reduceIte]
    exact ⟨_, _, rfl, Or.inl rfl⟩

end Nrf
