/-
C15 — discharging `C15Contracts` (NrfProofs/C15Contract.lean), part 2: `send(buf, send_only=True)`
and `resend(send_only=True)` on an idle transmitter (`TxS`), in any world — `c15contracts`.

The proof follows the driver step by step (`exec`), tracking only the transmitter's own radio:
every SPI transaction / CE edge before the trigger leaves it quiet (`spiStep_quiet`: CE is low, or
the TX FIFO is empty, or MAX_RT is latched), so it is exactly `Radio.xfer` on that radio; the CE
edge that triggers the transmission runs `World.tryTransmit`, for which `ceStep_true_fire`
(NrfProofs/C15Send.lean) says: configuration / RX FIFO untouched, TX FIFO drained (empty or MAX_RT),
TX_DS or MAX_RT latched; the next `update()` shows that to the polling loop.

`send`: CE low; a latched MAX_RT is visible in the cached status byte (`TxS`), so a stale payload
is flushed, otherwise the TX FIFO was empty; flags cleared (STATUS before: TX_FULL clear, so
`write()` goes on); `W_TX_PAYLOAD`; STATUS now shows no flag (this needs the RX_P_NO field to stay
within its bits: `TxS`, third clause); CE high: one cycle; first poll reads TX_DS or MAX_RT.
`resend`: FIFO_STATUS says TX_EMPTY ⇒ `False` at once (a `SafeProg` step); otherwise MAX_RT is
latched, flags cleared, CE high: at most three cycles (this needs the FIFO depth: `TxQ`, third
clause), `update()` reads the final STATUS, the polling loop ends without a poll.

Counterexamples to the contracts with the earlier, weaker `TxS`: tools/c15_contract_counterexamples.lean.
-/
import NrfProofs.C15Send

namespace Nrf
open Rf24

/-! ### single steps -/

theorem exec_clearAll (s : DrvState) : exec (clearStatusFlags) s = (.ok (), s.spiStep [0x27, 0x70]) := by
  unfold clearStatusFlags
  exact exec_regWrite 7 _ s (by decide) (by decide)

theorem xfer_clearAll (r : Radio) : r.xfer [0x27, 0x70] = ({ r with flags := 0 }, [r.status, 0]) := by
  simp [Radio.xfer, Radio.runCmd, Radio.decodeCmd, zeros, Radio.writeReg]

theorem writePayload_ce (r : Radio) (k : TxKind) (d : Bytes) : (r.writePayload k d).ce = r.ce := by
  unfold Radio.writePayload; split <;> rfl

theorem forceRetry_zero (f : Nat) (res : SendRes) (s : DrvState) :
    exec (forceRetryLoop true (f + 1) 0 res) s = (.ok res, s) := by
  unfold forceRetryLoop
  simp

/-- `write(buf)` when nothing makes it give up -/
theorem exec_write_clean (s : DrvState) (buf : Bytes) (hd : s.d.dynPl &&& 1 ≠ 0) (h1 : 1 ≤ buf.length)
    (h2 : buf.length ≤ 32) (hst : (s.spiStep [0x27, 0x70]).d.status &&& 1 = 0) :
    exec (write buf false false false) s
      = (.ok (true, buf), ((s.spiStep [0x27, 0x70]).spiStep (0xA0 :: buf)).ceStep true) := by
  unfold write
  have hne : ¬ (buf.isEmpty = true ∨ buf.length > 32) := by
    intro h
    rcases h with h | h
    · cases buf with
      | nil => simp at h1
      | cons _ _ => simp at h
    · omega
  have e : (32 ||| (160 ||| b2n false <<< 4)) = 160 := by decide
  simp only [exec_bind, exec_getD, hne, ↓reduceIte, exec_pure, exec_clearAll, hst,
    ne_eq, not_true_eq_false, hd, exec_regWriteBytes, Bool.not_false, exec_setCE, and_false, e]
  rfl

/-! ### `send(buf, send_only=True)` -/

/-- `send(buf, send_only=True)` after CE went low and a stale TX FIFO was flushed -/
def sendTail (buf : Bytes) : DrvM (SendRes × Bytes) := do
  let (_, caller) ← write buf false false
  pollFlags POLL_FUEL
  let result := (← getD).status &&& 0x20 ≠ 0
  let res ← forceRetryLoop true ((0 : Int).natAbs + 1) 0 (.bool result)
  if res = .bool true ∧ (← getD).status &&& 0x60 = 0x60 ∧ !true then
    return (.payload (← Rf24.read), caller)
  return (res, caller)

theorem send_eq (buf : Bytes) : send buf false false 0 true = (do
    setCE false
    let st := (← getD).status
    if st &&& 0x10 ≠ 0 ∨ st &&& 1 ≠ 0 then flushTx
    if !true ∧ rxPipeField (← getD) < 6 then flushRx
    sendTail buf) := rfl

/-- CE low, TX FIFO empty, on a transmitter without ACK payloads whose RX FIFO is `q` -/
structure Clean (q : List RxEntry) (s : DrvState) : Prop where
  wf : s.Wf
  cfg : s.rad.config &&& 3 = 2
  feat : s.rad.feature &&& 2 = 0
  ce : s.rad.ce = false
  tx : s.rad.txFifo = []
  rx : s.rad.rxFifo = q
  pipes : ∀ e ∈ q, e.pipe ≤ 5
  dyn : s.d.dynPl &&& 1 ≠ 0

theorem sendTail_ok (q : List RxEntry) (s : DrvState) (buf : Bytes) (h : Clean q s) (h1 : 1 ≤ buf.length)
    (h2 : buf.length ≤ 32) :
    ∃ r s', exec (sendTail buf) s = (.ok r, s') ∧ TxS s' ∧ s'.rad.rxFifo = q ∧ s'.d.rid = s.d.rid := by
  -- clear the flags
  have hp0 : s.rad.RxPipes := by unfold Radio.RxPipes; rw [h.rx]; exact h.pipes
  have i3 : ((s.rad.xfer (0x27 :: [0x70])).1).Idle := by
    rw [xfer_clearAll]; exact Radio.idle_of_ce _ h.ce
  obtain ⟨w3, r3, d3⟩ := spiStep_quiet s 0x27 [0x70] h.wf i3
  replace r3 : (s.spiStep [0x27, 0x70]).rad = { s.rad with flags := 0 } := by rw [r3, xfer_clearAll]
  have hst3 : (s.spiStep [0x27, 0x70]).d.status &&& 1 = 0 := by
    rw [d3]
    show s.rad.status &&& 1 = 0
    have := (Radio.status_decodeP _ hp0).2.1
    have hf : s.rad.txFull = false := by simp [Radio.txFull, h.tx]
    rw [hf] at this
    simpa using this
  -- W_TX_PAYLOAD
  have hne : buf ≠ [] := by intro hb; rw [hb] at h1; simp at h1
  have hwp : ({ s.rad with flags := 0 } : Radio).writePayload .payload buf
      = { s.rad with flags := 0, txFifo := [{ kind := .payload, data := buf.take 32 }] } := by
    have hb : buf.isEmpty = false := by cases buf <;> simp at hne ⊢
    simp [Radio.writePayload, Radio.txFull, h.tx, hb]
  have i4 : (((s.spiStep [0x27, 0x70]).rad.xfer (0xA0 :: buf)).1).Idle := by
    rw [r3, Radio.xfer_wTx]
    apply Radio.idle_of_ce
    rw [writePayload_ce]; exact h.ce
  obtain ⟨w4, r4, d4⟩ := spiStep_quiet _ 0xA0 buf w3 i4
  replace r4 : ((s.spiStep [0x27, 0x70]).spiStep (0xA0 :: buf)).rad
      = { s.rad with flags := 0, txFifo := [{ kind := .payload, data := buf.take 32 }] } := by
    rw [r4, r3, Radio.xfer_wTx, hwp]
  rw [r3] at d4
  -- CE high: the cycle
  have hp4 : ({ s.rad with flags := 0 } : Radio).RxPipes := hp0
  have hst4 : ((s.spiStep [0x27, 0x70]).spiStep (0xA0 :: buf)).d.status &&& 0x30 = 0 := by
    rw [d4]
    show ({ s.rad with flags := 0 } : Radio).status &&& 0x30 = 0
    rw [(Radio.status_decodeP _ hp4).2.2.2.2.2.2.1]
    exact Nat.zero_and _
  obtain ⟨w5, d5, c5, dr5, f5⟩ := ceStep_true_fire ((s.spiStep [0x27, 0x70]).spiStep (0xA0 :: buf)) w4
    (by rw [r4]; exact h.feat) (by rw [r4]; exact h.cfg)
    (by rw [r4]; intro e he; simp only [List.mem_cons, List.not_mem_nil, or_false] at he; rw [he])
    (by rw [r4]; simp) (by rw [r4]; simp) (by rw [r4]; exact Nat.zero_and _)
  rw [r4] at c5
  generalize hs5 : (((s.spiStep [0x27, 0x70]).spiStep (0xA0 :: buf)).ceStep true) = s5 at w5 d5 c5 dr5 f5
  have hrx5 : s5.rad.rxFifo = q := c5.rx.trans h.rx
  have hp5 : s5.rad.RxPipes := by unfold Radio.RxPipes; rw [hrx5]; exact h.pipes
  -- the poll
  have i6 : ((s5.rad.xfer (0xFF :: [])).1).Idle := by
    rw [Radio.xfer_nop]; exact Radio.drained_idle _ dr5
  obtain ⟨w6, r6, d6⟩ := spiStep_quiet s5 0xFF [] w5 i6
  replace r6 : (s5.spiStep [0xFF]).rad = s5.rad := by rw [r6, Radio.xfer_nop]
  have hst5 : s5.d.status &&& 0x30 = 0 := by rw [d5]; exact hst4
  have hst6 : (s5.spiStep [0xFF]).d.status &&& 0x30 ≠ 0 := by
    rw [d6]
    show s5.rad.status &&& 0x30 ≠ 0
    rw [(Radio.status_decodeP _ hp5).2.2.2.2.2.2.1]
    exact f5
  have hpoll : exec (pollFlags POLL_FUEL) s5 = (.ok (), s5.spiStep [0xFF]) := pollFlags_one 6 s5 hst5 hst6
  -- the whole tail
  refine ⟨(.bool (decide ((s5.spiStep [0xFF]).d.status &&& 0x20 ≠ 0)), buf), s5.spiStep [0xFF], ?_, ?_,
    by rw [r6]; exact hrx5, ?_⟩
  · unfold sendTail
    have hf : ((0 : Int).natAbs + 1) = 0 + 1 := rfl
    simp only [exec_bind, exec_write_clean s buf h.dyn h1 h2 hst3, hs5, hpoll, exec_getD, hf,
      forceRetry_zero, Bool.not_true, Bool.false_eq_true, and_false, ↓reduceIte, exec_pure]
  · apply txs_of_drained
    · rw [d6, r6]
    · rw [r6]; exact dr5
    · rw [r6]
      exact c5.kinds (by
        intro e he
        simp only [List.mem_cons, List.not_mem_nil, or_false] at he
        rw [he])
    · rw [r6]
      have := c5.len
      simp only [List.length_cons, List.length_nil] at this
      omega
    · rw [r6, hrx5]; exact h.pipes
  · rw [d6, d5, d4, d3]

/-- **the first contract**: `send(buf, send_only=True)` from an idle transmitter returns, leaves
    the transmitter idle and the RX FIFO as it was — in any world -/
theorem c15_send_ok (s : DrvState) (buf : Bytes) (hw : s.Wf) (hc : s.cfg.config &&& 3 = 2)
    (hf : s.cfg.feature &&& 2 = 0) (hd : s.d.dynPl &&& 1 ≠ 0) (h1 : 1 ≤ buf.length) (h2 : buf.length ≤ 32)
    (ht : TxS s) :
    ∃ r s', exec (send buf false false 0 true) s = (.ok r, s') ∧ TxS s' ∧
      (s'.w.radio s.d.rid).rxFifo <:+ (s.w.radio s.d.rid).rxFifo := by
  have hc' : s.rad.config &&& 3 = 2 := hc
  have hf' : s.rad.feature &&& 2 = 0 := hf
  obtain ⟨⟨tq1, tq2, tq3⟩, tvis, tpipes⟩ := ht
  have w1 : (s.ceStep false).Wf := ceStep_wf' s false hw
  have r1 : (s.ceStep false).rad = { s.rad with ce := false } := ceStep_false_rad s hw
  have d1 : (s.ceStep false).d = s.d := rfl
  -- the state in which the tail starts is clean
  have key : ∀ sx : DrvState, Clean s.rad.rxFifo sx → sx.d.rid = s.d.rid →
      ∃ r s', exec (sendTail buf) sx = (.ok r, s') ∧ TxS s' ∧
        (s'.w.radio s.d.rid).rxFifo <:+ (s.w.radio s.d.rid).rxFifo := by
    intro sx hx hrid
    obtain ⟨r, s', e1, e2, e3, e4⟩ := sendTail_ok _ sx buf hx h1 h2
    refine ⟨r, s', e1, e2, ?_⟩
    have : s'.w.radio s.d.rid = s'.rad := by unfold DrvState.rad; rw [e4, hrid]
    rw [this, e3]
    exact List.suffix_refl _
  rw [send_eq]
  have e0 : exec (setCE false) s = (.ok (), s.ceStep false) := rfl
  simp only [exec_bind, e0, exec_getD, d1, Bool.not_true, Bool.false_eq_true, false_and, ↓reduceIte]
  by_cases hfl : s.d.status &&& 0x10 ≠ 0 ∨ s.d.status &&& 1 ≠ 0
  · -- FLUSH_TX
    have i2 : (((s.ceStep false).rad.xfer (0xE1 :: [])).1).Idle := by
      rw [Radio.xfer_flushTx]; exact Radio.idle_of_empty _ rfl
    obtain ⟨w2, r2, d2⟩ := spiStep_quiet (s.ceStep false) 0xE1 [] w1 i2
    replace r2 : ((s.ceStep false).spiStep [0xE1]).rad = { s.rad with ce := false, txFifo := [] } := by
      rw [r2, Radio.xfer_flushTx, r1]
    have hx : Clean s.rad.rxFifo ((s.ceStep false).spiStep [0xE1]) :=
      { wf := w2
        cfg := by rw [r2]; exact hc'
        feat := by rw [r2]; exact hf'
        ce := by rw [r2]
        tx := by rw [r2]
        rx := by rw [r2]
        pipes := tpipes
        dyn := by rw [d2]; exact hd }
    simp only [hfl, ↓reduceIte, flushTx]
    exact key _ hx rfl
  · -- nothing stale: the TX FIFO is empty
    have h10 : s.d.status &&& 0x10 = 0 := by
      apply Classical.byContradiction
      intro h; exact hfl (Or.inl h)
    have hempty : s.rad.txFifo = [] := by
      rcases tq1 with h | h
      · exact h
      · exact absurd h10 (tvis h)
    have hx : Clean s.rad.rxFifo (s.ceStep false) :=
      { wf := w1
        cfg := by rw [r1]; exact hc'
        feat := by rw [r1]; exact hf'
        ce := by rw [r1]
        tx := by rw [r1]; exact hempty
        rx := by rw [r1]
        pipes := tpipes
        dyn := hd }
    simp only [hfl, ↓reduceIte]
    exact key _ hx rfl

/-! ### `resend(send_only=True)` -/

/-- `fifo(True, True)`: 1 iff the TX FIFO is empty; the radio is untouched -/
theorem exec_fifo_txEmpty (s : DrvState) :
    exec (fifo true (some true)) s
      = (.ok (b2n (decide (s.rad.txFifo = []))), s.spiStep [0x17, 0]) := by
  unfold fifo
  simp only [exec_bind, exec_regRead, exec_pure]
  have hv : (s.w.spi s.d.rid [0x17, 0]).2.getD 1 0 = s.rad.fifoStatus := by
    rw [spiStep_data, Radio.xfer_rreg _ _ (by decide)]
    rfl
  have hm : ((2 - b2n true) <<< (4 * b2n true)) = 0x10 := by decide
  rw [hv, hm]
  have := fifoStatus_txEmpty s.rad
  by_cases he : s.rad.txFifo = []
  · have h1 : s.rad.fifoStatus &&& 0x10 ≠ 0 := this.2 he
    simp only [h1, he, ne_eq, not_false_eq_true, decide_true]
  · have h1 : ¬ (s.rad.fifoStatus &&& 0x10 ≠ 0) := fun h => he (this.1 h)
    simp only [he, decide_false]
    simp only [ne_eq] at h1 ⊢
    simp only [h1, decide_false]

/-- **the second contract**: `resend(send_only=True)` from an idle transmitter returns, leaves the
    transmitter idle and the RX FIFO as it was — in any world -/
theorem c15_resend_ok (s : DrvState) (hw : s.Wf) (hc : s.cfg.config &&& 3 = 2) (hf : s.cfg.feature &&& 2 = 0)
    (ht : TxS s) :
    ∃ r s', exec (resend true) s = (.ok r, s') ∧ TxS s' ∧
      (s'.w.radio s.d.rid).rxFifo <:+ (s.w.radio s.d.rid).rxFifo := by
  have hc' : s.rad.config &&& 3 = 2 := hc
  have hf' : s.rad.feature &&& 2 = 0 := hf
  rw [resend_eq, exec_bind, exec_fifo_txEmpty]
  by_cases he : s.rad.txFifo = []
  · -- nothing to re-send
    have hp := Prog.spi s [0x17, 0] (safeCmd_read 0x17 [0] (by decide))
    refine ⟨.bool false, s.spiStep [0x17, 0], ?_, hp.txs ht, hp.rxq ht⟩
    simp only [he, decide_true]
    rfl
  · obtain ⟨⟨tq1, tq2, tq3⟩, tvis, tpipes⟩ := ht
    have tq3' : s.rad.txFifo.length ≤ 3 := tq3
    have hmax : s.rad.flags &&& 0x10 ≠ 0 := by
      rcases tq1 with h | h
      · exact absurd h he
      · exact h
    -- FIFO_STATUS read
    have i1 : ((s.rad.xfer (0x17 :: [0])).1).Idle := by
      rw [Radio.xfer_rreg _ _ (by decide)]; exact Radio.idle_of_maxrt _ hmax
    obtain ⟨w1, r1, d1⟩ := spiStep_quiet s 0x17 [0] hw i1
    replace r1 : (s.spiStep [0x17, 0]).rad = s.rad := by rw [r1, Radio.xfer_rreg _ _ (by decide)]
    generalize hs1 : s.spiStep [0x17, 0] = s1 at w1 r1 d1
    -- CE low
    have w2 : (s1.ceStep false).Wf := ceStep_wf' s1 false w1
    have r2 : (s1.ceStep false).rad = { s.rad with ce := false } := by rw [ceStep_false_rad s1 w1, r1]
    have d2 : (s1.ceStep false).d = s1.d := rfl
    -- flags cleared
    have i3 : (((s1.ceStep false).rad.xfer (0x27 :: [0x70])).1).Idle := by
      rw [xfer_clearAll, r2]; exact Radio.idle_of_ce _ rfl
    obtain ⟨w3, r3, d3⟩ := spiStep_quiet (s1.ceStep false) 0x27 [0x70] w2 i3
    replace r3 : ((s1.ceStep false).spiStep [0x27, 0x70]).rad = { s.rad with ce := false, flags := 0 } := by
      rw [r3, xfer_clearAll, r2]
    generalize hs3 : (s1.ceStep false).spiStep [0x27, 0x70] = s3 at w3 r3 d3
    -- CE high: the TX FIFO is drained
    obtain ⟨w4, d4, c4, dr4, f4⟩ := ceStep_true_fire s3 w3 (by rw [r3]; exact hf') (by rw [r3]; exact hc')
      (by rw [r3]; exact tq2) (by rw [r3]; show s.rad.txFifo.length ≤ 4; omega) (by rw [r3]; exact he)
      (by rw [r3]; exact Nat.zero_and _)
    rw [r3] at c4
    generalize hs4 : s3.ceStep true = s4 at w4 d4 c4 dr4 f4
    have hrx4 : s4.rad.rxFifo = s.rad.rxFifo := c4.rx
    have hp4 : s4.rad.RxPipes := by unfold Radio.RxPipes; rw [hrx4]; exact tpipes
    -- update()
    have i5 : ((s4.rad.xfer (0xFF :: [])).1).Idle := by
      rw [Radio.xfer_nop]; exact Radio.drained_idle _ dr4
    obtain ⟨w5, r5, d5⟩ := spiStep_quiet s4 0xFF [] w4 i5
    replace r5 : (s4.spiStep [0xFF]).rad = s4.rad := by rw [r5, Radio.xfer_nop]
    have hst5 : (s4.spiStep [0xFF]).d.status &&& 0x30 ≠ 0 := by
      rw [d5]
      show s4.rad.status &&& 0x30 ≠ 0
      rw [(Radio.status_decodeP _ hp4).2.2.2.2.2.2.1]
      exact f4
    have hpoll : exec (pollFlags POLL_FUEL) (s4.spiStep [0xFF]) = (.ok (), s4.spiStep [0xFF]) :=
      pollFlags_done 7 _ hst5
    refine ⟨.bool (decide ((s4.spiStep [0xFF]).d.status &&& 0x20 ≠ 0)), s4.spiStep [0xFF], ?_, ?_, ?_⟩
    · have e2 : exec (setCE false) s1 = (.ok (), s1.ceStep false) := rfl
      have e4 : exec (setCE true) s3 = (.ok (), s3.ceStep true) := rfl
      unfold resendTail
      simp only [he, decide_false, b2n, Bool.false_eq_true, ↓reduceIte, ne_eq, not_true_eq_false,
        exec_bind, e2, exec_getD, Bool.not_true, false_and, and_false, exec_pure, exec_clearAll, hs3, e4, hs4,
        exec_update, hpoll]
    · apply txs_of_drained
      · rw [d5, r5]
      · rw [r5]; exact dr4
      · rw [r5]; exact c4.kinds tq2
      · rw [r5]
        exact Nat.le_trans c4.len tq3'
      · rw [r5, hrx4]; exact tpipes
    · have hrid : (s4.spiStep [0xFF]).d.rid = s.d.rid := by
        rw [spiStep_rid, ← hs4, ceStep_rid, ← hs3, spiStep_rid, ceStep_rid, ← hs1, spiStep_rid]
      have : (s4.spiStep [0xFF]).w.radio s.d.rid = (s4.spiStep [0xFF]).rad := by
        unfold DrvState.rad; rw [hrid]
      rw [this, r5, hrx4]
      exact List.suffix_refl _

/-- **both contracts of `NrfProofs/C15Contract.lean` hold** -/
theorem c15contracts : C15Contracts where
  send_ok := c15_send_ok
  resend_ok := c15_resend_ok

end Nrf
