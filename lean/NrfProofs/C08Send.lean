/-
C08_ack in full: `send()` to a listening peer returns `True`.  World-level lemmas about SPI
transactions and CE edges on a radio that has nothing to transmit, the transmit step itself, and
the driver's `send` executed step by step.
-/
import NrfProofs.C08Ack

set_option linter.unusedSimpArgs false

namespace Nrf
open Rf24 Spec

namespace World

/-- nothing is transmitted by a radio whose TX FIFO is empty or which is not in TX mode -/
theorem tryTransmit_idle (s f : Nat) (w : World)
    (h : (w.radio s).txFifo = [] ∨ (w.radio s).txMode = false) : tryTransmit s f w = w := by
  cases f with
  | zero => rfl
  | succ f =>
    unfold tryTransmit
    rcases h with h | h
    · simp only [h]
      split <;> rfl
    · simp only [h, Bool.false_and, Bool.false_eq_true, ↓reduceIte]

theorem jump_radio (w : World) (s j : Nat) : (w.jump s).radio j = w.radio j := rfl

/-- an SPI transaction on radio `a` after which it has nothing to transmit: only radio `a` changes,
    by the transaction; the fault list stays -/
theorem spi_idle (w : World) (a : Nat) (out : Bytes) (ha : a < w.radios.length)
    (hidle : ((w.radio a).xfer out).1.txFifo = [] ∨ ((w.radio a).xfer out).1.txMode = false) :
    (w.spi a out).1.radio a = ((w.radio a).xfer out).1 ∧ (w.spi a out).2 = ((w.radio a).xfer out).2 ∧
    (∀ j, j ≠ a → (w.spi a out).1.radio j = w.radio j) ∧ (w.spi a out).1.faults = w.faults ∧
    (w.spi a out).1.radios.length = w.radios.length := by
  have hl : a < (w.jump a).radios.length := ha
  have key : (w.spi a out).1 =
      { ((w.jump a).setRadio a ((w.radio a).xfer out).1) with
        clock := (w.jump a).clock + SPI_COST_NS, spiCount := (w.jump a).spiCount + 1 } := by
    unfold spi
    simp only [jump_radio]
    apply tryTransmit_idle
    have : ∀ (w' : World) (c n : Nat) j, ({ w' with clock := c, spiCount := n } : World).radio j = w'.radio j :=
      fun _ _ _ _ => rfl
    rw [this, radio_setRadio]
    simp only [hl, and_self, ↓reduceIte]
    exact hidle
  refine ⟨?_, rfl, ?_, ?_, spi_length _ _ _⟩
  · rw [key]
    show ((w.jump a).setRadio a _).radio a = _
    rw [radio_setRadio]; simp [hl]
  · intro j hj
    rw [key]
    show ((w.jump a).setRadio a _).radio j = _
    rw [radio_setRadio]; simp [hj]; rfl
  · rw [key]; rfl

/-- a CE edge on radio `a` after which it has nothing to transmit -/
theorem setCE_idle (w : World) (a : Nat) (v : Bool) (ha : a < w.radios.length)
    (hidle : (w.radio a).txFifo = [] ∨ ({ (w.radio a) with ce := v } : Radio).txMode = false) :
    (w.setCE a v).radio a = { (w.radio a) with ce := v } ∧
    (∀ j, j ≠ a → (w.setCE a v).radio j = w.radio j) ∧ (w.setCE a v).faults = w.faults ∧
    (w.setCE a v).radios.length = w.radios.length := by
  have hl : a < (w.jump a).radios.length := ha
  have key : w.setCE a v = (w.jump a).setRadio a { (w.radio a) with ce := v } := by
    unfold setCE
    simp only [jump_radio]
    apply tryTransmit_idle
    rw [radio_setRadio]
    simp only [hl, and_self, ↓reduceIte]
    exact hidle
  refine ⟨?_, ?_, ?_, setCE_length _ _ _⟩
  · rw [key, radio_setRadio]; simp [hl]
  · intro j hj
    rw [key, radio_setRadio]; simp [hj]; rfl
  · rw [key]; rfl

end World
end Nrf

namespace Nrf
open Rf24 Spec
namespace World

/-- raising CE on a transmitter with one payload queued, a listening, acknowledging peer with room,
    loss-free air and pipe 0 open on the TX address: the payload is acknowledged on the first
    attempt -/
theorem setCE_transmit (w : World) (a b : Nat) (e : TxEntry) (ha : a < w.radios.length) (hf : w.faults = [])
    (hfifo : (w.radio a).txFifo = [e]) (hkind : e.kind = .payload)
    (hpwr : (w.radio a).pwrUp = true) (hrole : (w.radio a).primRx = false) (hfl : (w.radio a).flags &&& 0x10 = 0)
    (haw : (w.radio a).awaitsAck e = true) (hcan : (w.radio a).canHear = true)
    (hb : b < w.radios.length) (hba : b ≠ a)
    (hack : ((w.radio b).receive ((w.radio a).packetFor e)).2.isSome = true) :
    ∃ x, (w.setCE a true).radio a = (({ (w.radio a) with ce := true } : Radio).takePid e).txDoneAcked [] 1 x ∧
      (w.setCE a true).radios.length = w.radios.length := by
  refine Exists.imp (fun x h => ⟨h, setCE_length _ _ _⟩) ?_
  have hl : a < (w.jump a).radios.length := ha
  unfold setCE
  simp only [jump_radio]
  generalize hw0 : (w.jump a).setRadio a { (w.radio a) with ce := true } = w0
  have hr0 : w0.radio a = { (w.radio a) with ce := true } := by rw [← hw0, radio_setRadio]; simp [hl]
  have hrb : w0.radio b = w.radio b := by rw [← hw0, radio_setRadio]; simp [hba]; rfl
  have hlen0 : w0.radios.length = w.radios.length := by rw [← hw0]; simp [setRadio, jump]
  have hf0 : w0.faults = [] := by rw [← hw0]; exact hf
  have htx : (w0.radio a).txMode = true := by
    rw [hr0]; unfold Radio.txMode Radio.pwrUp Radio.primRx at *
    simp only at hpwr hrole ⊢
    rw [hpwr, hrole]; rfl
  have hfl0 : (w0.radio a).flags &&& 0x10 = 0 := by rw [hr0]; exact hfl
  have hfifo0 : (w0.radio a).txFifo = [e] := by rw [hr0]; exact hfifo
  obtain ⟨x, hx, hfx, hlx⟩ := cycle_acked w0 a b e [] (by rw [hlen0]; exact ha) hf0
    (by rw [hr0]; exact haw) (by rw [hr0]; exact hcan) (by rw [hlen0]; exact hb) hba
    (by rw [hrb, hr0]; exact hack)
  refine ⟨x, ?_⟩
  show (tryTransmit a 4 w0).radio a = _
  unfold tryTransmit
  simp only [htx, hfl0, decide_true, Bool.and_self, ↓reduceIte, hfifo0, hkind]
  rw [tryTransmit_idle a 3 _ (Or.inl (by rw [hx]; rfl)), hx, hr0]

end World
end Nrf

namespace Nrf
open Rf24 Spec

theorem ite_bind' {α β} (c : Prop) [Decidable c] (a b : DrvM α) (k : α → DrvM β) :
    (if c then a else b) >>= k = if c then a >>= k else b >>= k := by split <;> rfl

/-- the first part of `send`: CE low, flush what the cached STATUS says is stale -/
def sendPre (sendOnly : Bool) : DrvM Unit := do
  setCE false
  let st := (← getD).status
  if st &&& 0x10 ≠ 0 ∨ st &&& 1 ≠ 0 then flushTx
  if !sendOnly ∧ rxPipeField (← getD) < 6 then flushRx

/-- the rest of `send`: write the payload, pulse CE, poll, read the result -/
def sendTail (buf : Bytes) (mutableBuf askNoAck : Bool) (forceRetry : Int) (sendOnly : Bool) :
    DrvM (SendRes × Bytes) := do
  let (_, caller) ← write buf mutableBuf askNoAck
  pollFlags POLL_FUEL
  let result := (← getD).status &&& 0x20 ≠ 0
  let res ← forceRetryLoop sendOnly (forceRetry.natAbs + 1) forceRetry (.bool result)
  if res = .bool true ∧ (← getD).status &&& 0x60 = 0x60 ∧ !sendOnly then
    return (.payload (← read), caller)
  return (res, caller)

theorem send_eq (buf : Bytes) (m a : Bool) (f : Int) (so : Bool) :
    send buf m a f so = (do sendPre so; sendTail buf m a f so) := by
  unfold send sendPre sendTail
  simp only [bind_assoc, pure_bind, ite_bind']

end Nrf

namespace Nrf
open Rf24 Spec

/-- a snapshot of a driver state: the object's shadows are `d`, its radio is `r`; every other radio,
    the fault list and the number of radios are those of `w0` -/
structure Snap (s : DrvState) (d : Rf24) (r : Radio) (w0 : World) : Prop where
  d_eq : s.d = d
  wf : d.rid < w0.radios.length
  radio : s.w.radio d.rid = r
  others : ∀ j, j ≠ d.rid → s.w.radio j = w0.radio j
  faults : s.w.faults = w0.faults
  len : s.w.radios.length = w0.radios.length

theorem snap_ce {s : DrvState} {d : Rf24} {r : Radio} {w0 : World} (h : Snap s d r w0) (v : Bool)
    (hidle : r.txFifo = [] ∨ ({ r with ce := v } : Radio).txMode = false) :
    Snap (s.ceStep v) d { r with ce := v } w0 := by
  obtain ⟨hd, hwf, hr, ho, hf, hl⟩ := h
  have ha : s.d.rid < s.w.radios.length := by rw [hd, hl]; exact hwf
  obtain ⟨h1, h2, h3, h4⟩ := World.setCE_idle s.w s.d.rid v ha (by rw [hd, hr]; exact hidle)
  refine ⟨hd, hwf, ?_, ?_, ?_, ?_⟩
  · show (s.w.setCE s.d.rid v).radio d.rid = _
    rw [← hd, h1, hd, hr]
  · intro j hj
    show (s.w.setCE s.d.rid v).radio j = _
    rw [h2 j (by rw [hd]; exact hj)]; exact ho j hj
  · exact h3.trans hf
  · exact h4.trans hl

theorem snap_spi {s : DrvState} {d : Rf24} {r : Radio} {w0 : World} (h : Snap s d r w0) (out : Bytes)
    (hidle : (r.xfer out).1.txFifo = [] ∨ (r.xfer out).1.txMode = false) :
    Snap (s.spiStep out) { d with status := (r.xfer out).2.headD d.status } (r.xfer out).1 w0 := by
  obtain ⟨hd, hwf, hr, ho, hf, hl⟩ := h
  have ha : s.d.rid < s.w.radios.length := by rw [hd, hl]; exact hwf
  obtain ⟨h1, h2, h3, h4, h5⟩ := World.spi_idle s.w s.d.rid out ha (by rw [hd, hr]; exact hidle)
  refine ⟨?_, hwf, ?_, ?_, ?_, ?_⟩
  · show ({ s.d with status := (s.w.spi s.d.rid out).2.headD s.d.status } : Rf24) = _
    rw [h2, hd, hr]
  · show (s.w.spi s.d.rid out).1.radio d.rid = _
    rw [← hd, h1, hd, hr]
  · intro j hj
    show (s.w.spi s.d.rid out).1.radio j = _
    rw [h3 j (by rw [hd]; exact hj)]; exact ho j hj
  · exact h4.trans hf
  · exact h5.trans hl

namespace Radio

theorem xfer_flushTx (r : Radio) : r.xfer [0xE1] = ({ r with txFifo := [] }, [r.status]) := by
  simp [Radio.xfer, Radio.runCmd, Radio.decodeCmd, zeros]
theorem xfer_flushRx (r : Radio) : r.xfer [0xE2] = ({ r with rxFifo := [] }, [r.status]) := by
  simp [Radio.xfer, Radio.runCmd, Radio.decodeCmd, zeros]
theorem xfer_nop (r : Radio) : r.xfer [0xFF] = (r, [r.status]) := by
  simp [Radio.xfer, Radio.runCmd, Radio.decodeCmd, zeros]
theorem xfer_clearFlags (r : Radio) : r.xfer [0x27, 0x70] = ({ r with flags := 0 }, [r.status, 0]) := by
  simp [Radio.xfer, Radio.runCmd, Radio.decodeCmd, zeros, Radio.writeReg]
theorem xfer_wTx (r : Radio) (pay : Bytes) (hf : r.txFifo = []) (hp : pay ≠ []) :
    r.xfer (0xA0 :: pay) =
      ({ r with txFifo := [{ kind := .payload, data := pay.take 32 }] }, r.status :: zeros pay.length) := by
  have hne : pay.isEmpty = false := by cases pay <;> simp at hp ⊢
  simp [Radio.xfer, Radio.runCmd, Radio.decodeCmd, Radio.writePayload, Radio.txFull, hf, hne]

/-- STATUS of a radio with both FIFOs empty: the flags and RX_P_NO = 7 -/
theorem status_empty (r : Radio) (ht : r.txFifo = []) (hr : r.rxFifo = []) : r.status = (r.flags &&& 0x70) ||| 14 := by
  simp [Radio.status, Radio.rxPNo, Radio.txFull, ht, hr]

end Radio
end Nrf

namespace Nrf
open Rf24 Spec

theorem snap_flushTx {s : DrvState} {d : Rf24} {r : Radio} {w0 : World} (h : Snap s d r w0) (ht : r.txFifo = []) :
    Snap (s.spiStep [0xE1]) { d with status := r.status } r w0 := by
  have := snap_spi h [0xE1] (by rw [Radio.xfer_flushTx]; exact Or.inl rfl)
  rw [Radio.xfer_flushTx] at this
  have e : ({ r with txFifo := [] } : Radio) = r := by cases r; simp_all
  simpa [e] using this

theorem snap_flushRx {s : DrvState} {d : Rf24} {r : Radio} {w0 : World} (h : Snap s d r w0) (ht : r.txFifo = [])
    (hr : r.rxFifo = []) : Snap (s.spiStep [0xE2]) { d with status := r.status } r w0 := by
  have := snap_spi h [0xE2] (by rw [Radio.xfer_flushRx]; exact Or.inl ht)
  rw [Radio.xfer_flushRx] at this
  have e : ({ r with rxFifo := [] } : Radio) = r := by cases r; simp_all
  simpa [e] using this

/-- the first part of `send` on a transmitter with empty FIFOs: CE goes low, nothing else changes in
    the world (whatever the cached STATUS byte made it flush) -/
theorem sendPre_spec {s : DrvState} {d : Rf24} {r : Radio} {w0 : World} (h : Snap s d r w0)
    (ht : r.txFifo = []) (hr : r.rxFifo = []) :
    ∃ s' st, exec (sendPre false) s = (.ok (), s') ∧ Snap s' { d with status := st } { r with ce := false } w0 := by
  have h1 := snap_ce h false (Or.inl ht)
  have ht1 : ({ r with ce := false } : Radio).txFifo = [] := ht
  have hr1 : ({ r with ce := false } : Radio).rxFifo = [] := hr
  unfold sendPre
  simp only [exec_bind, exec_setCE', exec_getD, exec_ite, exec_pure, flushTx, flushRx, exec_regCmd, Bool.not_false,
    true_and]
  generalize s.ceStep false = s1 at h1 ⊢
  by_cases c1 : s1.d.status &&& 0x10 ≠ 0 ∨ s1.d.status &&& 1 ≠ 0
  · simp only [c1, ↓reduceIte]
    have h2 := snap_flushTx h1 ht1
    generalize s1.spiStep [0xE1] = s2 at h2 ⊢
    by_cases c2 : rxPipeField s2.d < 6
    · simp only [c2, ↓reduceIte]
      have h3 := snap_flushRx h2 ht1 hr1
      exact ⟨_, _, rfl, h3⟩
    · simp only [c2, ↓reduceIte]
      exact ⟨_, _, rfl, h2⟩
  · simp only [c1, ↓reduceIte]
    by_cases c2 : rxPipeField s1.d < 6
    · simp only [c2, ↓reduceIte]
      have h3 := snap_flushRx h1 ht1 hr1
      exact ⟨_, _, rfl, h3⟩
    · simp only [c2, ↓reduceIte]
      refine ⟨_, d.status, rfl, ?_⟩
      have : ({ d with status := d.status } : Rf24) = d := rfl
      rw [this]; exact h1

end Nrf

namespace Nrf
open Rf24 Spec

theorem exec_bind_of {α β} {x : DrvM α} {f : α → DrvM β} {s s1 : DrvState} {a : α}
    (h : exec x s = (.ok a, s1)) : exec (x >>= f) s = exec (f a) s1 := by rw [exec_bind, h]

theorem exec_clearStatusFlags (s : DrvState) : exec clearStatusFlags s = (.ok (), s.spiStep [0x27, 0x70]) := by
  unfold clearStatusFlags
  exact exec_regWrite_nat 7 0x70 s (by decide) (by decide)

theorem exec_update (s : DrvState) : exec update s = (.ok true, s.spiStep [0xFF]) := by
  unfold update
  simp only [exec_bind, exec_regCmd, exec_pure]

/-- the payload `write()` puts into the TX FIFO command -/
def shapePayload (d : Rf24) (buf : Bytes) : Bytes :=
  if d.dynPl &&& 1 = 0 then staticPayload buf (d.plLen.getD 0 0) else buf

/-- what `send` needs of the sender's radio, the air and the peer (the radio is taken with CE low,
    as `send` itself leaves it first) -/
structure AckWorld (d : Rf24) (r : Radio) (w0 : World) (b : Nat) (buf : Bytes) : Prop where
  txEmpty : r.txFifo = []
  rxEmpty : r.rxFifo = []
  pwr : r.pwrUp = true
  role : r.primRx = false
  aa : r.enAA &&& 1 ≠ 0
  can : r.canHear = true
  noAckPay : r.feature &&& 2 = 0
  faults : w0.faults = []
  lenOk : ¬ (d.dynPl &&& 1 ≠ 0 ∧ (buf.isEmpty ∨ buf.length > 32))
  payNe : shapePayload d buf ≠ []
  peerIdx : b < w0.radios.length ∧ b ≠ d.rid
  peerAcks : ((w0.radio b).receive (r.packetFor { kind := .payload, data := (shapePayload d buf).take 32 })).2.isSome = true

theorem and1_ne_zero_3F {x : Nat} (h : x &&& 1 ≠ 0) : x &&& 0x3F ≠ 0 := by
  intro h0
  apply h
  have : x &&& 1 = (x &&& 0x3F) &&& 1 := by rw [Nat.and_assoc]; rfl
  rw [this, h0]; rfl

theorem bit0_eq {x : Nat} (h : x &&& 1 ≠ 0) : Radio.bit x 0 = true := by
  unfold Radio.bit; simpa using h

end Nrf

namespace Nrf
open Rf24 Spec

theorem flags70 (f : Nat) : ((f &&& 0x70) ||| 14) &&& 1 = 0 := by
  have h1 : f &&& 0x70 = (f % 128) &&& 0x70 := by
    have := Nat.and_two_pow_sub_one_eq_mod f 7
    simp only [Nat.reducePow, Nat.add_one_sub_one] at this
    rw [← this, Nat.and_assoc]; rfl
  rw [h1]
  exact (by decide : ∀ x : Fin 128, ((x.val &&& 0x70) ||| 14) &&& 1 = 0) ⟨f % 128, Nat.mod_lt _ (by decide)⟩

theorem snap_self (s : DrvState) (hw : s.Wf) : Snap s s.d (s.w.radio s.d.rid) s.w :=
  ⟨rfl, hw, rfl, fun _ _ => rfl, rfl, rfl⟩

/-- the second part of `send` on a transmitter with CE low and empty FIFOs, a listening peer and
    loss-free air: `True` -/
theorem sendTail_spec {s : DrvState} {d : Rf24} {r : Radio} {w0 : World} {b : Nat} {buf : Bytes} (m : Bool)
    (h : Snap s d r w0) (hce : r.ce = false) (ha : AckWorld d r w0 b buf) :
    ∃ s', exec (sendTail buf m false 0 false) s = (.ok (.bool true, buf), s') := by
  obtain ⟨ht, hrx, hpwr, hrole, haa, hcan, hnap, hflt, hlen, hpay, ⟨hb, hbd⟩, hpeer⟩ := ha
  unfold sendTail write
  simp only [exec_bind, exec_getD, exec_ite, h.d_eq, hlen, ↓reduceIte, exec_pure, exec_clearStatusFlags]
  -- after clear_status_flags
  have h1 := snap_spi h [0x27, 0x70] (by rw [Radio.xfer_clearFlags]; exact Or.inl ht)
  rw [Radio.xfer_clearFlags] at h1
  simp only [List.headD_cons] at h1
  generalize s.spiStep [0x27, 0x70] = s1 at h1 ⊢
  have hst1 : r.status &&& 1 = 0 := by rw [Radio.status_empty r ht hrx]; exact flags70 _
  simp only [h1.d_eq, hst1, ne_eq, not_true_eq_false, ↓reduceIte, b2n, Bool.false_eq_true, Nat.zero_shiftLeft,
    Nat.or_zero, exec_regWriteBytes, Nat.reduceOr, Bool.not_false, exec_setCE']
  -- after W_TX_PAYLOAD
  have hfold : (if d.dynPl &&& 1 = 0 then staticPayload buf (d.plLen.getD 0 0) else buf) = shapePayload d buf := rfl
  simp only [hfold]
  generalize hpl : shapePayload d buf = pay at *
  have ht1 : ({ r with flags := 0 } : Radio).txFifo = [] := ht
  have h2 := snap_spi h1 (0xA0 :: pay) (by
    rw [Radio.xfer_wTx _ _ ht1 hpay]; right; simp [Radio.txMode, hce])
  rw [Radio.xfer_wTx _ _ ht1 hpay] at h2
  simp only [List.headD_cons] at h2
  generalize s1.spiStep (0xA0 :: pay) = s2 at h2 ⊢
  -- CE high: the transmit cycle
  generalize he : ({ kind := TxKind.payload, data := pay.take 32 } : TxEntry) = e at *
  have hst2 : ({ r with flags := 0 } : Radio).status = 14 := by
    have := Radio.status_empty ({ r with flags := 0 } : Radio) ht hrx
    rw [this]; show (0 : Nat) &&& 0x70 ||| 14 = 14; decide
  have ha2 : s2.d.rid < s2.w.radios.length := by rw [h2.d_eq, h2.len]; exact h2.wf
  have hrad2 : s2.w.radio s2.d.rid = { r with flags := 0, txFifo := [e] } := by rw [h2.d_eq]; exact h2.radio
  obtain ⟨x, hx, hxl⟩ := World.setCE_transmit s2.w s2.d.rid b e ha2 (h2.faults.trans hflt)
    (by rw [hrad2]) (by rw [← he])
    (by rw [hrad2]; exact hpwr) (by rw [hrad2]; exact hrole) (by rw [hrad2]; show (0 : Nat) &&& 0x10 = 0; decide)
    (by
      rw [hrad2]
      unfold Radio.awaitsAck Radio.esb Radio.noAckFor
      simp only [and1_ne_zero_3F haa, ne_eq, not_false_eq_true, decide_true, bit0_eq haa, Bool.and_self, Bool.true_and]
      rw [← he]; rfl)
    (by rw [hrad2]; exact hcan)
    (by rw [h2.len]; exact hb) (by rw [h2.d_eq]; exact hbd)
    (by rw [hrad2, h2.others b hbd]; exact hpeer)
  rw [hrad2] at hx
  have hwf3 : (s2.ceStep true).Wf := (ceStep_wf _ _).2 ha2
  have h3 := snap_self (s2.ceStep true) hwf3
  have hd3 : (s2.ceStep true).d = { d with status := 14 } := by
    show s2.d = _
    rw [h2.d_eq, hst2]
  have hr3 : (s2.ceStep true).w.radio (s2.ceStep true).d.rid =
      (({ r with flags := 0, txFifo := [e], ce := true } : Radio).takePid e).txDoneAcked [] 1 x := hx
  rw [hd3] at h3
  generalize s2.ceStep true = s3 at h3 hd3 hr3 ⊢
  -- the radio after the cycle: TX_DS latched, FIFOs empty
  generalize hr3' : (({ r with flags := 0, txFifo := [e], ce := true } : Radio).takePid e).txDoneAcked [] 1 x = r3 at hr3
  have hgets : r3.flags = 0x20 ∧ r3.txFifo = [] ∧ r3.rxFifo = [] := by
    rw [← hr3']
    have hf : (decide (r.feature &&& 2 ≠ 0)) = false := by simp [hnap]
    cases x <;> simp [Radio.txDoneAcked, Radio.takePid, hf, hrx]
  obtain ⟨hfl3, htx3, hrx3⟩ := hgets
  have hst3 : r3.status = 46 := by
    rw [Radio.status_empty r3 htx3 hrx3, hfl3]; decide
  have hrid3 : s3.d.rid = d.rid := by rw [hd3]
  rw [hd3] at hr3
  have h3' : Snap s3 { d with status := 14 } r3 s3.w := by
    obtain ⟨a1, a2, a3, a4, a5, a6⟩ := h3
    exact ⟨a1, a2, hr3, a4, a5, a6⟩
  -- first poll: STATUS still shows no flag, so `update()`
  have h4 := snap_spi h3' [0xFF] (by rw [Radio.xfer_nop]; exact Or.inl htx3)
  rw [Radio.xfer_nop] at h4
  simp only [List.headD_cons, hst3] at h4
  have hp1 : exec (pollFlags POLL_FUEL) s3 = (.ok (), s3.spiStep [0xFF]) := by
    unfold POLL_FUEL pollFlags
    simp only [exec_bind, exec_getD, hd3, exec_ite, exec_update, show (14 : Nat) &&& 0x30 = 0 by decide, ↓reduceIte]
    unfold pollFlags
    simp only [exec_bind, exec_getD, h4.d_eq, exec_ite, exec_pure, show ¬ ((46 : Nat) &&& 0x30 = 0) by decide, ↓reduceIte]
  rw [hp1]
  generalize s3.spiStep [0xFF] = s4 at h4 ⊢
  simp only [h4.d_eq, show (decide ¬ (46 : Nat) &&& 32 = 0) = true by decide, Int.natAbs_zero, Nat.zero_add]
  unfold forceRetryLoop
  simp only [bne_self_eq_false, Bool.false_and, Bool.false_eq_true, ↓reduceIte, exec_pure, h4.d_eq,
    show ¬ ((46 : Nat) &&& 96 = 96) by decide, false_and, and_false]
  exact ⟨_, rfl⟩

end Nrf

namespace Nrf
open Rf24 Spec

theorem AckWorld.status {d : Rf24} {r : Radio} {w0 : World} {b : Nat} {buf : Bytes} (h : AckWorld d r w0 b buf)
    (st : Nat) : AckWorld { d with status := st } r w0 b buf :=
  ⟨h.1, h.2, h.3, h.4, h.5, h.6, h.7, h.8, h.9, h.10, h.11, h.12⟩

/-- `send(buf)` (no `ask_no_ack`, no forced retries, `send_only` off) returns `True` and leaves the
    caller's buffer alone -/
theorem send_acked (s : DrvState) (b : Nat) (buf : Bytes) (m : Bool) (hw : s.Wf)
    (ha : AckWorld s.d { s.radio with ce := false } s.w b buf) :
    ∃ s', exec (send buf m false 0 false) s = (.ok (.bool true, buf), s') := by
  rw [send_eq]
  obtain ⟨s1, st, hex, hsnap⟩ := sendPre_spec (snap_self s hw) ha.txEmpty ha.rxEmpty
  rw [exec_bind_of hex]
  exact sendTail_spec m hsnap rfl (ha.status st)

/-- the sender-side and peer-side facts `send_acked` needs, from the registers: TX role, powered up,
    auto-ack on pipe 0, ACK reception possible, no ACK payloads, idle FIFOs, a listening peer -/
theorem ackWorld_of (d : Rf24) (r : Radio) (w0 : World) (b : Nat) (buf : Bytes)
    (hpwr : r.config &&& 2 = 2) (hrole : r.config &&& 1 = 0) (haa : r.enAA &&& 1 ≠ 0) (hcan : r.canHear = true)
    (hnap : r.feature &&& 2 = 0) (ht : r.txFifo = []) (hrx : r.rxFifo = []) (hf : w0.faults = [])
    (hlen : ¬ (d.dynPl &&& 1 ≠ 0 ∧ (buf.isEmpty ∨ buf.length > 32))) (hpay : shapePayload d buf ≠ [])
    (hb : b < w0.radios.length ∧ b ≠ d.rid) (hpeer : PeerListens r (w0.radio b) (shapePayload d buf)) :
    AckWorld d { r with ce := false } w0 b buf := by
  refine ⟨ht, hrx, ?_, ?_, haa, hcan, hnap, hf, hlen, hpay, hb, ?_⟩
  · show decide (r.config &&& 2 ≠ 0) = true
    simp [hpwr]
  · show decide (r.config &&& 1 ≠ 0) = false
    simp [hrole]
  · obtain ⟨q, h1, h2, h3⟩ := hpeer
    have hk : ({ r with ce := false } : Radio).packetFor { kind := .payload, data := (shapePayload d buf).take 32 } =
        r.packetFor { kind := .payload, data := (shapePayload d buf).take 32 } := rfl
    rw [hk]
    refine Radio.receive_acks _ _ q h1 ?_ h2 ?_ h3
    · show decide (r.enAA &&& 0x3F ≠ 0) = true
      simpa using and1_ne_zero_3F haa
    · simp [Radio.packetFor, Radio.noAckFor]

end Nrf
