/-
C06 helper: what `FrameQueueFrag.enqueue` (repaired code, `Fixes.all`) decides for a frame as it
comes off the air (`ofW w`, all fields within their wire width).
-/
import NrfProofs.QueueRef

namespace Nrf.Proofs
open Nrf.Net Nrf.Spec

/-- the frame object after `frame_buf.unpack(payload)` for the payload `frameBytes w` -/
def ofW (w : WFrame) : Frame := ⟨⟨w.src, w.dst, w.id, .int w.ty, w.rsv⟩, w.body⟩

theorem toW_ofW (w : WFrame) : toW (ofW w) = w := rfl

theorem wire_ofW (w : WFrame) (h : w.InRange) : Wire (ofW w) := ⟨⟨w.ty, rfl⟩, h⟩

/-- unpacking the packed image of a wire-representable frame into *any* frame object gives that
    frame; likewise for the header alone -/
theorem unpack_wire (c f : Frame) (hw : Wire f) :
    ∃ img hb, f.pack = .ok img ∧ (c.unpack img).1 = f ∧ f.header.pack = .ok hb ∧
      (c.header.unpack hb).1 = f.header := by
  obtain ⟨⟨t, ht⟩, hr⟩ := hw
  have hr' : (wOf f.header t []).InRange := by
    simpa [toW, wOf, ht, WFrame.InRange] using hr
  have hp := pack_inrange f.header t ht hr'
  have hmask : maskedHeader f.header t = f.header := by
    obtain ⟨h1, h2, h3, h4, h5⟩ := hr'
    simp only [wOf] at h1 h2 h3 h4 h5
    cases f with
    | mk h m =>
      cases h
      simp only at ht h1 h2 h3 h5
      simp [maskedHeader, ht, Nat.mod_eq_of_lt h1, Nat.mod_eq_of_lt h2,
        Nat.mod_eq_of_lt h3, Nat.mod_eq_of_lt h4, Nat.mod_eq_of_lt h5]
  refine ⟨headerBytes (wOf f.header t []) ++ f.message, headerBytes (wOf f.header t []), ?_, ?_, hp, ?_⟩
  · simp [Frame.pack, hp, bind, Except.bind, pure, Except.pure]
  · unfold Frame.unpack
    rw [unpack_pack f.header _ t (by simp [ht, typeCode]) _ hp f.message, hmask]
    cases f
    simp [headerBytes]
  · have := unpack_pack f.header c.header t (by simp [ht, typeCode]) _ hp []
    rw [List.append_nil] at this
    rw [this, hmask]

theorem fragAct_first (c : Frame) (cv : Bool) (w : WFrame) (hr : w.InRange) (ht : w.ty = FRAG_FIRST) :
    fragAct Fixes.all c cv (ofW w) = .first (ofW w) := by
  obtain ⟨img, _, hp, hu, _, _⟩ := unpack_wire c (ofW w) (wire_ofW w hr)
  unfold fragAct
  have h1 : (ofW w).header.msgType = .int MSG_FRAG_FIRST := by simp [ofW, ht, FRAG_FIRST, MSG_FRAG_FIRST]
  simp only [h1, true_or, ↓reduceIte, hp, hu]

/-- does a MORE/LAST fragment belong to the cached message? (repaired code: origin included) -/
def cacheMatch (c : Frame) (cv : Bool) (w : WFrame) : Bool :=
  cv && decide (w.src = c.header.fromNode) && decide (w.dst = c.header.toNode)
    && decide (w.id = c.header.frameId)

theorem fragAct_more (c : Frame) (cv : Bool) (w : WFrame) (hr : w.InRange) (ht : w.ty = FRAG_MORE) :
    fragAct Fixes.all c cv (ofW w) =
      if cacheMatch c cv w && decide ((c.header.reserved : Int) - 1 = (w.rsv : Int)) then
        .more ⟨(ofW w).header, c.message ++ w.body⟩
      else .ret (.ok false) := by
  obtain ⟨_, hb, _, _, hp, hu⟩ := unpack_wire c (ofW w) (wire_ofW w hr)
  unfold fragAct
  have h1 : (ofW w).header.msgType = .int MSG_FRAG_MORE := by simp [ofW, ht, FRAG_MORE, MSG_FRAG_MORE]
  have h2 : ¬ ((ofW w).header.msgType = .int MSG_FRAG_FIRST) := by
    rw [h1]; simp [MSG_FRAG_MORE, MSG_FRAG_FIRST]
  have h3 : ¬ ((ofW w).header.msgType = .int MSG_FRAG_LAST) := by
    rw [h1]; simp [MSG_FRAG_MORE, MSG_FRAG_LAST]
  simp only [h2, h1, h3, true_or, or_true, ↓reduceIte, decide_false, Bool.false_eq_true, hp, hu,
    Fixes.all, Bool.not_true, Bool.false_or]
  have hm : (cv && decide ((ofW w).header.fromNode = c.header.fromNode) &&
      decide ((ofW w).header.toNode = c.header.toNode) &&
      decide ((ofW w).header.frameId = c.header.frameId)) = cacheMatch c cv w := rfl
  rw [hm]
  have hrs : (ofW w).header.reserved = w.rsv := rfl
  have hms : (ofW w).message = w.body := rfl
  rw [hrs, hms]
  by_cases hcm : cacheMatch c cv w = true
  · by_cases hs : (c.header.reserved : Int) - 1 = (w.rsv : Int)
    · simp [hcm, hs, MSG_FRAG_MORE, MSG_FRAG_FIRST, MSG_FRAG_LAST]
    · simp [hcm, hs, MSG_FRAG_MORE, MSG_FRAG_FIRST, MSG_FRAG_LAST]
  · simp [hcm, MSG_FRAG_MORE, MSG_FRAG_FIRST, MSG_FRAG_LAST]

theorem fragAct_last (c : Frame) (cv : Bool) (w : WFrame) (hr : w.InRange) (ht : w.ty = FRAG_LAST) :
    fragAct Fixes.all c cv (ofW w) =
      if cacheMatch c cv w && decide ((c.header.reserved : Int) - 1 ≤ 1) then
        .last ⟨{ (ofW w).header with msgType := .int w.rsv }, c.message ++ w.body⟩
          (decide (w.rsv = NETWORK_EXT_DATA))
      else .ret (.ok false) := by
  obtain ⟨_, hb, _, _, hp, hu⟩ := unpack_wire c (ofW w) (wire_ofW w hr)
  unfold fragAct
  have h1 : (ofW w).header.msgType = .int MSG_FRAG_LAST := by simp [ofW, ht, FRAG_LAST, MSG_FRAG_LAST]
  have h2 : ¬ ((ofW w).header.msgType = .int MSG_FRAG_FIRST) := by
    rw [h1]; simp [MSG_FRAG_LAST, MSG_FRAG_FIRST]
  simp only [h2, h1, or_true, ↓reduceIte, decide_true, hp, hu, Fixes.all, Bool.not_true,
    Bool.false_or]
  have hm : (cv && decide ((ofW w).header.fromNode = c.header.fromNode) &&
      decide ((ofW w).header.toNode = c.header.toNode) &&
      decide ((ofW w).header.frameId = c.header.frameId)) = cacheMatch c cv w := rfl
  rw [hm]
  have hrs : (ofW w).header.reserved = w.rsv := rfl
  have hms : (ofW w).message = w.body := rfl
  rw [hrs, hms]
  by_cases hcm : cacheMatch c cv w = true
  · by_cases hs : (c.header.reserved : Int) - 1 ≤ 1
    · simp [hcm, hs, MSG_FRAG_MORE, MSG_FRAG_FIRST, MSG_FRAG_LAST]
    · simp [hcm, hs, MSG_FRAG_MORE, MSG_FRAG_FIRST, MSG_FRAG_LAST]
  · simp [hcm, MSG_FRAG_MORE, MSG_FRAG_FIRST, MSG_FRAG_LAST]

end Nrf.Proofs
