/-
C05, round 2: kernel evaluation of CONCRETE runs — a fragmented message over THREE hops (two routers) in the chain
`0o0 — 0o1 — 0o11 — 0o111` (`Example.Hops.four`): upwards from the great-grandchild to the master, downwards from
the master to the great-grandchild, and over two hops downwards (master to grandchild).
-/
import NrfProofs.C05FragRoute
import NrfProofs.C13HopsExample

namespace Nrf.Net.Inst
open Nrf Nrf.Net Nrf.Spec Nrf.Proofs

/-- `Example.Hops.four` with the master about to call `write()` -/
def fourDown : NetState := { Example.Hops.four with cur := 0, active := [0] }

theorem four_up : ∀ n ∈ [25, 60, 144],
    routeRunB Example.Hops.four (val []) 5 (List.range n) (callerFrame [1, 1, 1] [] 8 5 (List.range n)) 2 0
      (val [1, 1, 1]) (planAir (List.range n) 5 ⟨val [1, 1, 1], val [], 8, .int 5, 0⟩ [3, 2, 1]) = true := by
  decide +kernel

theorem four_up_ack :
    writeRunB Example.Hops.four (val []) 100 (List.range 60) (callerFrame [1, 1, 1] [] 8 100 (List.range 60)) 0
      (val [1, 1, 1]) (planAir (List.range 60) 100 ⟨val [1, 1, 1], val [], 8, .int 100, 0⟩ [3, 2, 1]) = true := by
  decide +kernel

theorem four_down3 :
    routeRunB fourDown (val [1, 1, 1]) 5 (List.range 60) (callerFrame [] [1, 1, 1] 8 5 (List.range 60)) 1 3
      (val []) (planAir (List.range 60) 5 ⟨val [], val [1, 1, 1], 8, .int 5, 0⟩ [0, 1, 2]) = true := by
  decide +kernel

theorem four_down2 :
    routeRunB fourDown (val [1, 1]) 5 (List.range 60) (callerFrame [] [1, 1] 8 5 (List.range 60)) 1 2
      (val []) (planAir (List.range 60) 5 ⟨val [], val [1, 1], 8, .int 5, 0⟩ [0, 1]) = true := by
  decide +kernel

end Nrf.Net.Inst
