/-
C17, end-to-end join, part 6: the clock clause of the driver contracts.

None of `L3Contracts` / `l3m_*` mentions virtual time.  The 55 ms collection window of
`_make_contact` needs it: the loop `while time.monotonic_ns() < timeout and len(responders) < 4`
ends by the clock alone, so the cost of one idle `_net_update()` has to be bounded from below.

* `spi_clock` — every SPI transaction ends at `max clock busyUntil + SPI_COST_NS` (any world);
* `idle_read` — **`read()` on a node radio with an empty RX FIFO is exactly one SPI transaction
  (R_RX_PL_WID)**: `None`; the clock moves to `max clock busyUntil + SPI_COST_NS`, the transaction
  counter by one, the cached STATUS byte is refreshed; radios, busy times, fault script and air log
  are untouched;
* `read_clock_mono` — `read()` never moves the clock backwards (any state).
-/
import NrfProofs.C17JoinReq

namespace Nrf.L3
open Nrf Nrf.Rf24

/-! ### the clock under transmit cycles and SPI transactions -/

theorem nextFault_clock (w : World) : w.nextFault.1.clock = w.clock := by
  unfold World.nextFault
  cases w.faults <;> rfl

theorem deliver_clock (w : World) (s : Nat) (k : Packet) : (w.deliver s k).1.clock = w.clock := rfl

theorem updRadio_clock (w : World) (s : Nat) (f : Radio → Radio) : (w.updRadio s f).clock = w.clock := rfl

theorem attemptLoop_clock (s : Nat) (k : Packet) : ∀ (n made : Nat) (w : World),
    (World.attemptLoop s k n made w).1.clock = w.clock := by
  intro n
  induction n with
  | zero => intro made w; rfl
  | succ n ih =>
    intro made w
    unfold World.attemptLoop
    have hnf := nextFault_clock w
    rcases hw : w.nextFault with ⟨w1, o⟩
    rw [hw] at hnf
    simp only at hnf ⊢
    cases o with
    | packetLost => simp only []; rw [ih]; exact hnf
    | ackLost => simp only []; rw [ih]; exact hnf
    | delivered =>
      simp only []
      rcases hd : w1.deliver s k with ⟨w2, ack⟩
      have h2 : w2.clock = w1.clock := by
        have := deliver_clock w1 s k
        rw [hd] at this; exact this
      simp only []
      cases ack with
      | none => simp only []; rw [ih, h2]; exact hnf
      | some a =>
        simp only []
        split
        · exact h2.trans hnf
        · rw [ih, h2]; exact hnf

theorem cycle_clock (w : World) (s : Nat) (e : TxEntry) (rest : List TxEntry) :
    (w.cycle s e rest).clock = w.clock := by
  unfold World.cycle
  simp only []
  split
  · have h1 := nextFault_clock (w.updRadio s fun x => x.takePid e)
    rcases hw : (w.updRadio s fun x => x.takePid e).nextFault with ⟨w1, o⟩
    rw [hw] at h1
    simp only at h1 ⊢
    show (if o = Outcome.packetLost then w1 else (w1.deliver s _).1).clock = _
    split
    · exact h1
    · exact h1
  · have h1 := attemptLoop_clock s ((w.radio s).packetFor e) (((w.radio s).setupRetr &&& 0x0F) + 1) 0
      (w.updRadio s fun x => x.takePid e)
    rcases hw : World.attemptLoop s ((w.radio s).packetFor e) (((w.radio s).setupRetr &&& 0x0F) + 1) 0
      (w.updRadio s fun x => x.takePid e) with ⟨w1, made, ack⟩
    rw [hw] at h1
    simp only at h1 ⊢
    cases ack with
    | none => exact h1
    | some a => exact h1

theorem tryTransmit_clock (s : Nat) : ∀ (f : Nat) (w : World), (World.tryTransmit s f w).clock = w.clock := by
  intro f
  induction f with
  | zero => intro w; rfl
  | succ f ih =>
    intro w
    unfold World.tryTransmit
    simp only []
    split
    · cases hf : (w.radio s).txFifo with
      | nil => rfl
      | cons e rest =>
        simp only []
        cases hk : e.kind with
        | ackFor p => rfl
        | payload => simp only []; rw [ih, cycle_clock]
        | payloadNoAck => simp only []; rw [ih, cycle_clock]
    · rfl

/-- **every SPI transaction advances the clock by `SPI_COST_NS`**, after waiting for the radio -/
theorem spi_clock (w : World) (a : Nat) (out : Bytes) :
    (w.spi a out).1.clock = max w.clock (w.busyUntil.getD a 0) + SPI_COST_NS := by
  unfold World.spi
  simp only []
  rw [tryTransmit_clock]
  rfl

theorem spiStep_clock (s : DrvState) (out : Bytes) :
    (s.spiStep out).w.clock = max s.w.clock (s.w.busyUntil.getD s.d.rid 0) + SPI_COST_NS :=
  spi_clock _ _ _

theorem spiStep_clock_le (s : DrvState) (out : Bytes) : s.w.clock + SPI_COST_NS ≤ (s.spiStep out).w.clock := by
  rw [spiStep_clock]
  have := Nat.le_max_left s.w.clock (s.w.busyUntil.getD s.d.rid 0)
  omega

/-! ### `read()` and the clock -/

/-- `read()` never moves the clock backwards; it costs at least one SPI transaction -/
theorem exec_any_shape (s : DrvState) : ∃ n, exec any s = (.ok n, s.spiStep [0x60, 0]) := by
  unfold any
  simp only [exec_bind, exec_regRead, exec_getD, exec_pure, exec_ite]
  split
  · split
    · exact ⟨_, rfl⟩
    · exact ⟨_, rfl⟩
  · exact ⟨_, rfl⟩

theorem read_clock_mono (s : DrvState) : s.w.clock + SPI_COST_NS ≤ (exec (Rf24.read none) s).2.w.clock := by
  have h1 := spiStep_clock_le s [0x60, 0]
  obtain ⟨n, hn⟩ := exec_any_shape s
  unfold Rf24.read
  simp only [exec_bind, hn, exec_ite, exec_pure]
  split
  · exact h1
  · rw [exec_regReadBytes]
    simp only []
    rw [exec_clearDr]
    simp only []
    have h2 := spiStep_clock_le (s.spiStep [0x60, 0]) (0x61 :: zeros n)
    have h3 := spiStep_clock_le ((s.spiStep [0x60, 0]).spiStep (0x61 :: zeros n)) [0x27, 0x40]
    omega

/-- the world after one SPI transaction that changes nothing on the chip -/
def World.ticked (w : World) (a : Nat) : World :=
  { w with clock := max w.clock (w.busyUntil.getD a 0) + SPI_COST_NS, spiCount := w.spiCount + 1 }

theorem set_getD_self' {α : Type} (l : List α) (i : Nat) (d : α) (h : i < l.length) : l.set i (l.getD i d) = l := by
  apply List.ext_getElem?
  intro j
  rw [List.getElem?_set]
  by_cases hj : i = j
  · subst hj
    simp [h, List.getD_eq_getElem?_getD]
  · simp [hj]

/-- a transaction that leaves the chip as it is, on a radio with nothing to transmit -/
theorem spi_noop (w : World) (a : Nat) (out inb : Bytes) (ha : a < w.radios.length)
    (hx : (w.radio a).xfer out = (w.radio a, inb)) (ht : (w.radio a).txFifo = []) :
    w.spi a out = (World.ticked w a, inb) := by
  unfold World.spi
  simp only [jump_radio, hx]
  have hset : (w.jump a).setRadio a (w.radio a) = w.jump a := by
    unfold World.setRadio World.radio
    show ({ (w.jump a) with radios := w.radios.set a (w.radios.getD a default) } : World) = _
    rw [set_getD_self' _ _ _ ha]
    rfl
  rw [hset, tryTransmit_idle]
  · rfl
  · exact Or.inl ht

/-- **`read()` on a node radio whose RX FIFO is empty**: exactly one SPI transaction; `None`; the
    clock moves to `max clock busyUntil + SPI_COST_NS`; the cached STATUS byte is the chip's;
    nothing else changes (radios, busy times, faults, air log) -/
theorem idle_read (s : DrvState) (L : LinkCfg) (P : List Bytes) (rx ce : Bool) (aa : Nat) (hw : s.Wf)
    (hN : NodeRadio L P rx ce aa s.d s.radio) (he : s.radio.rxFifo = []) :
    exec (Rf24.read none) s =
      (.ok none, { d := { s.d with status := s.radio.status }, w := World.ticked s.w s.d.rid }) := by
  have h26 : s.radio.txFifo = [] := by
    obtain ⟨_, _, _, _, _, _, _, _, _, _, _, _, _, _, _, _, _, _, _, _, _, _, _, _, _, h26, _⟩ := hN
    exact h26
  have hx := xfer_plWid_nil s.radio he
  have hspi : s.w.spi s.d.rid [0x60, 0] = (World.ticked s.w s.d.rid, [s.radio.status, 0]) :=
    spi_noop s.w s.d.rid [0x60, 0] _ hw hx h26
  have hpno : s.radio.rxPNo = 7 := by unfold Radio.rxPNo; rw [he]
  have hfield : (s.radio.status >>> 1) &&& 7 = 7 := by
    rw [status_field _ (by rw [hpno]; omega), hpno]
  unfold Rf24.read any
  simp only [exec_bind, exec_regRead, exec_getD, exec_pure, DrvState.spiStep, hspi, List.getD_cons_succ,
    List.getD_cons_zero, List.headD_cons, rxPipeField, hfield, ↓reduceIte, (by decide : ¬ (7 : Nat) < 6)]

end Nrf.L3
